import NanoVerif.Model.SolverNM
import NanoVerif.Proofs.SolverSkeleton
/-!
  C02 — lemmas about the modelled non-monotonic bodies (`Model/SolverNM.lean`), valid for EVERY scalar type (core classes only,
  no axioms about them), every objective oracle, every parameter value. Core Lean only.

  Generic part: a `Body` in the oracle slot of `nmLoop` (`stepOf`) — the threaded loop `nmLoopM` computes the same thing; an
  invariant of all candidates is an invariant of the result; a bound on the evaluations of one body is the budget overshoot;
  `converged` is only reached through the flag of the last iteration.
-/
namespace NanoVerif.Solver
open NanoVerif.Gen.DoneLogic
set_option linter.unusedSectionVars false

section
variable {α : Type} [Add α] [Sub α] [Mul α] [Div α] [Neg α] [LT α] [LE α] [DecidableLT α] [DecidableLE α] [∀ n, OfNat α n]

/-! ### `stepOf` / `nmLoopM` -/

theorem memAt_succ {M : Type} (body : Body α M) (m0 : M) (c0 k : Nat) :
    memAt body m0 c0 (k + 1) =
      ((body (memAt body m0 c0 k).2 (memAt body m0 c0 k).1).mem,
       (memAt body m0 c0 k).2 + (body (memAt body m0 c0 k).2 (memAt body m0 c0 k).1).nf) := rfl

/-- the threaded loop is `nmLoop` with the body in the oracle slot: same final state, same per-iteration records -/
theorem nmLoopM_eq {M : Type} (env : Env α) (body : Body α M) (m0 : M) (c0 : Nat) (patience : Nat) (eps : α) (maxEvals : Nat) :
    ∀ (fuel k gf gg : Nat) (b : BState α),
      (nmLoopM env body patience eps maxEvals fuel (memAt body m0 c0 k).1 (memAt body m0 c0 k).2 gf gg b).1 =
        (nmLoop env (stepOf env body m0 c0) patience eps maxEvals fuel k gf gg b).1 ∧
      (nmLoopM env body patience eps maxEvals fuel (memAt body m0 c0 k).1 (memAt body m0 c0 k).2 gf gg b).2.map (·.1) =
        (nmLoop env (stepOf env body m0 c0) patience eps maxEvals fuel k gf gg b).2 := by
  intro fuel
  induction fuel with
  | zero => intro k gf gg b; exact ⟨rfl, rfl⟩
  | succ fuel ih =>
    intro k gf gg b
    simp only [nmLoopM, nmLoop]
    by_cases hg : gdGuard gf gg maxEvals = true
    · simp only [hg, if_true]
      have hstep : stepOf env body m0 c0 k (gf, gg) b =
          stepOfBody env (body (memAt body m0 c0 k).2 (memAt body m0 c0 k).1) (gf, gg) b := rfl
      rw [hstep]
      by_cases hs : (nmIter env patience eps b
          (stepOfBody env (body (memAt body m0 c0 k).2 (memAt body m0 c0 k).1) (gf, gg) b)).stop = true
      · simp only [hs, if_true, List.map_cons, List.map_nil, and_self]
      · simp only [hs, Bool.false_eq_true, if_false, List.map_cons]
        have h := ih (k + 1)
          (nmIter env patience eps b (stepOfBody env (body (memAt body m0 c0 k).2 (memAt body m0 c0 k).1) (gf, gg) b)).guardF
          (nmIter env patience eps b (stepOfBody env (body (memAt body m0 c0 k).2 (memAt body m0 c0 k).1) (gf, gg) b)).guardG
          (nmIter env patience eps b (stepOfBody env (body (memAt body m0 c0 k).2 (memAt body m0 c0 k).1) (gf, gg) b)).b
        rw [memAt_succ] at h
        exact ⟨h.1, by rw [h.2]⟩
    · simp only [hg, Bool.false_eq_true, if_false, List.map_nil, and_self]

/-! ### the three skeleton theorems with a body in the oracle slot -/

/-- what `nmMinimize` returns satisfies every predicate that the initial state and every candidate of every body call satisfy -/
theorem nmMinimize_inv {M : Type} (env : Env α) (P : Vec α → Vec α → α → Prop) (body : Body α M) (m0 : M) (patience : Nat)
    (eps : α) (maxEvals fuel : Nat) (b0 : BState α) (h0 : P b0.st.x b0.st.gx b0.st.fx)
    (hbody : ∀ c m, ∀ cand ∈ (body c m).cands, P cand.1 cand.2.1 cand.2.2) :
    P (nmMinimize env body m0 patience eps maxEvals fuel b0).st.x (nmMinimize env body m0 patience eps maxEvals fuel b0).st.gx
      (nmMinimize env body m0 patience eps maxEvals fuel b0).st.fx :=
  nmLoop_inv env P (stepOf env body m0 1) patience eps maxEvals (fun _ _ _ => hbody _ _) fuel 0 _ _ b0 h0

/-- if no body call makes more than `K` evaluations, the reported evaluations stay below `max_evals + K` -/
theorem nmMinimize_budget {M : Type} (env : Env α) (body : Body α M) (m0 : M) (patience : Nat) (eps : α)
    (maxEvals K fuel : Nat) (b0 : BState α) (hK : ∀ c m, (body c m).nf + (body c m).ng ≤ K)
    (h0 : evals b0.st < maxEvals + K) :
    evals (nmMinimize env body m0 patience eps maxEvals fuel b0).st < maxEvals + K := by
  apply nmLoop_budget env (stepOf env body m0 1) patience eps maxEvals K _ fuel 0 _ _ b0 h0
  intro k g b
  have h := hK (memAt body m0 1 k).2 (memAt body m0 1 k).1
  refine ⟨Nat.le_refl _, ?_⟩
  show g.1 + (body (memAt body m0 1 k).2 (memAt body m0 1 k).1).nf +
      (g.2 + (body (memAt body m0 1 k).2 (memAt body m0 1 k).1).ng) ≤ g.1 + g.2 + K
  omega

theorem nmMinimize_tri {M : Type} (env : Env α) (body : Body α M) (m0 : M) (patience : Nat) (eps : α)
    (maxEvals fuel : Nat) (b0 : BState α) (h0 : Tri b0.st.status) :
    Tri (nmMinimize env body m0 patience eps maxEvals fuel b0).st.status :=
  nmLoop_tri env (stepOf env body m0 1) patience eps maxEvals fuel 0 _ _ b0 h0

/-! ### `converged` only through the flag handed to the last `done` -/

theorem nmIter_conv_eq (env : Env α) (patience : Nat) (eps : α) (b : BState α) (r : NmStep α) :
    (nmIter env patience eps b r).conv =
      (match r.conv with
       | some c => c
       | none => decide (valueTest env patience (nmIter env patience eps b r).b < eps)) := by
  cases h : r.conv <;> simp [nmIter, h, valueTest]

theorem nmIter_status_converged (env : Env α) (patience : Nat) (eps : α) (b : BState α) (r : NmStep α)
    (hb : b.st.status ≠ Status.converged) (h : (nmIter env patience eps b r).b.st.status = Status.converged) :
    (nmIter env patience eps b r).conv = true := by
  have hs : (applyCands env b r.cands).1.st.status = b.st.status := by
    unfold applyCands; rw [applyCands_status]
  simp only [nmIter] at h ⊢
  rcases done_converged env _ _ _ h with hc | hc
  · exact hc
  · exact absurd (hs ▸ hc) hb

theorem nmIter_status_go (env : Env α) (patience : Nat) (eps : α) (b : BState α) (r : NmStep α)
    (h : (nmIter env patience eps b r).stop = false) : (nmIter env patience eps b r).b.st.status = b.st.status := by
  have hs : (applyCands env b r.cands).1.st.status = b.st.status := by
    unfold applyCands; rw [applyCands_status]
  simp only [nmIter] at h ⊢
  rw [(done_go env _ _ _ h).1]
  exact hs

/-- a run that starts with a status other than `converged` ends with `converged` only if its last iteration handed
    `converged = true` to `solver_t::done`: the result is what that iteration left behind -/
theorem nmLoop_converged (env : Env α) (step : Nat → Nat × Nat → BState α → NmStep α) (patience : Nat) (eps : α)
    (maxEvals : Nat) :
    ∀ (fuel k gf gg : Nat) (b : BState α), b.st.status ≠ Status.converged →
      (nmLoop env step patience eps maxEvals fuel k gf gg b).1.st.status = Status.converged →
      ∃ k' g' b', (nmLoop env step patience eps maxEvals fuel k gf gg b).1 = (nmIter env patience eps b' (step k' g' b')).b ∧
        (nmIter env patience eps b' (step k' g' b')).conv = true := by
  intro fuel
  induction fuel with
  | zero => intro k gf gg b hb h; exact absurd h hb
  | succ fuel ih =>
    intro k gf gg b hb
    simp only [nmLoop]
    split
    · split
      · intro h
        exact ⟨k, (gf, gg), b, rfl, nmIter_status_converged env patience eps b _ hb h⟩
      · rename_i hstop
        intro h
        have hstop' : (nmIter env patience eps b (step k (gf, gg) b)).stop = false := by
          cases hh : (nmIter env patience eps b (step k (gf, gg) b)).stop
          · rfl
          · exact absurd hh hstop
        have hgo := nmIter_status_go env patience eps b _ hstop'
        exact ih (k + 1) _ _ _ (by rw [hgo]; exact hb) h
    · intro h; exact absurd h hb

/-- the flag of a body with `conv = none` is `value_test(patience) < epsilon` evaluated on the history of the state the
    iteration leaves behind; otherwise it is the body's own flag -/
theorem nmMinimize_converged {M : Type} (env : Env α) (body : Body α M) (m0 : M) (patience : Nat) (eps : α)
    (maxEvals fuel : Nat) (b0 : BState α) (h0 : b0.st.status ≠ Status.converged)
    (h : (nmMinimize env body m0 patience eps maxEvals fuel b0).st.status = Status.converged) :
    ∃ k, (body (memAt body m0 1 k).2 (memAt body m0 1 k).1).conv = some true ∨
      ((body (memAt body m0 1 k).2 (memAt body m0 1 k).1).conv = none ∧
        valueTest env patience (nmMinimize env body m0 patience eps maxEvals fuel b0) < eps) := by
  obtain ⟨k, g, b, hres, hconv⟩ := nmLoop_converged env (stepOf env body m0 1) patience eps maxEvals fuel 0 _ _ b0 h0 h
  refine ⟨k, ?_⟩
  rw [nmIter_conv_eq] at hconv
  have hc : (stepOf env body m0 1 k g b).conv = (body (memAt body m0 1 k).2 (memAt body m0 1 k).1).conv := rfl
  unfold nmMinimize
  rw [hres]
  rw [← hc]
  cases hcv : (stepOf env body m0 1 k g b).conv with
  | none =>
    rw [hcv] at hconv
    exact Or.inr ⟨rfl, by simpa using hconv⟩
  | some c =>
    rw [hcv] at hconv
    simp only at hconv
    exact Or.inl (by rw [hconv])

/-! ### the start -/

theorem initBState_eval (f : Objective α) (x0 : Vec α) :
    (initBState (fun _ => f) x0).st.fx = (f (initBState (fun _ => f) x0).st.x).1 ∧
    (initBState (fun _ => f) x0).st.gx = (f (initBState (fun _ => f) x0).st.x).2 := ⟨rfl, rfl⟩

theorem initBState_status (F : ObjectiveI α) (x0 : Vec α) : (initBState F x0).st.status = Status.max_iters := rfl

theorem initBState_evals (F : ObjectiveI α) (x0 : Vec α) : evals (initBState F x0).st = 2 := rfl

/-- the predicate of the property statement: the triple is an evaluation of `f` (value and gradient) -/
def IsEval (f : Objective α) (x gx : Vec α) (fx : α) : Prop := fx = (f x).1 ∧ gx = (f x).2

/-! ### sgm -/

theorem sgmBody_cands (env : Env α) (nm : EnvNM α) (f : Objective α) (power : α) (c : Nat) (m : SgmMem α) :
    ∀ cand ∈ (sgmBody env nm (fun _ => f) power c m).cands, IsEval f cand.1 cand.2.1 cand.2.2 := by
  intro cand h
  unfold sgmBody at h
  split at h
  · simp at h
  · simp only [List.mem_singleton] at h
    subst h
    exact ⟨rfl, rfl⟩

theorem sgmBody_evals (env : Env α) (nm : EnvNM α) (F : ObjectiveI α) (power : α) (c : Nat) (m : SgmMem α) :
    (sgmBody env nm F power c m).nf + (sgmBody env nm F power c m).ng ≤ 2 ∧
    ((sgmBody env nm F power c m).cands.length = (sgmBody env nm F power c m).nf) ∧
    ((sgmBody env nm F power c m).conv = some true ↔ infNorm m.g < nm.epsMach) ∧
    ((sgmBody env nm F power c m).conv = none ↔ ¬ infNorm m.g < nm.epsMach) := by
  unfold sgmBody
  split <;> rename_i h <;> simp [h]

/-! ### cocob -/

theorem cocobBody_cands (env : Env α) (nm : EnvNM α) (f : Objective α) (x0 : Vec α) (c : Nat) (m : CocobMem α) :
    ∀ cand ∈ (cocobBody env nm (fun _ => f) x0 c m).cands, IsEval f cand.1 cand.2.1 cand.2.2 := by
  intro cand h
  simp only [cocobBody, List.mem_singleton] at h
  subst h
  exact ⟨rfl, rfl⟩

theorem cocobBody_evals (env : Env α) (nm : EnvNM α) (F : ObjectiveI α) (x0 : Vec α) (c : Nat) (m : CocobMem α) :
    (cocobBody env nm F x0 c m).nf + (cocobBody env nm F x0 c m).ng = 2 ∧ (cocobBody env nm F x0 c m).conv = none ∧
    (cocobBody env nm F x0 c m).cands.length = 1 := ⟨rfl, rfl, rfl⟩

/-! ### sda / wda -/

theorem pdsgmBody_cands (env : Env α) (nm : EnvNM α) (f : Objective α) (wda : Bool) (D : α) (x0 : Vec α) (c : Nat)
    (m : PdsgmMem α) :
    ∀ cand ∈ (pdsgmBody env nm (fun _ => f) wda D x0 c m).cands, IsEval f cand.1 cand.2.1 cand.2.2 := by
  intro cand h
  unfold pdsgmBody at h
  split at h
  · simp at h
  · simp only [List.mem_singleton] at h
    subst h
    exact ⟨rfl, rfl⟩

theorem pdsgmBody_evals (env : Env α) (nm : EnvNM α) (F : ObjectiveI α) (wda : Bool) (D : α) (x0 : Vec α) (c : Nat)
    (m : PdsgmMem α) :
    (pdsgmBody env nm F wda D x0 c m).nf + (pdsgmBody env nm F wda D x0 c m).ng ≤ 2 ∧
    ((pdsgmBody env nm F wda D x0 c m).cands.length = (pdsgmBody env nm F wda D x0 c m).nf) ∧
    ((pdsgmBody env nm F wda D x0 c m).conv = some true ↔ infNorm m.gx < nm.epsMach) ∧
    ((pdsgmBody env nm F wda D x0 c m).conv = none ↔ ¬ infNorm m.gx < nm.epsMach) := by
  unfold pdsgmBody
  split <;> rename_i h <;> simp [h]


/-! ### pgm / dgm / fgm -/

theorem Trial.after_ok (t : Trial α) (nf ng : Nat) (a : List (Vec α)) (ts : List (α × α)) : (t.after nf ng a ts).ok = t.ok := rfl
theorem Trial.after_x1 (t : Trial α) (nf ng : Nat) (a : List (Vec α)) (ts : List (α × α)) : (t.after nf ng a ts).x1 = t.x1 := rfl
theorem Trial.after_g1 (t : Trial α) (nf ng : Nat) (a : List (Vec α)) (ts : List (α × α)) : (t.after nf ng a ts).g1 = t.g1 := rfl
theorem Trial.after_f1 (t : Trial α) (nf ng : Nat) (a : List (Vec α)) (ts : List (α × α)) : (t.after nf ng a ts).f1 = t.f1 := rfl
theorem Trial.after_nf (t : Trial α) (nf ng : Nat) (a : List (Vec α)) (ts : List (α × α)) : (t.after nf ng a ts).nf = t.nf + nf := rfl
theorem Trial.after_ng (t : Trial α) (nf ng : Nat) (a : List (Vec α)) (ts : List (α × α)) : (t.after nf ng a ts).ng = t.ng + ng := rfl

/-- the inner line search of pgm makes at most `fuel` calls, each with the gradient -/
theorem pgmSearch_count (env : Env α) (F : ObjectiveI α) (eps : α) (xk gxk : Vec α) (fxk : α) :
    ∀ (j c : Nat) (M : α) (x1 g1 : Vec α) (f1 : α),
      (pgmSearch env F eps xk gxk fxk j c M x1 g1 f1).nf ≤ j ∧ (pgmSearch env F eps xk gxk fxk j c M x1 g1 f1).ng ≤ j := by
  intro j
  induction j with
  | zero => intro c M x1 g1 f1; simp [pgmSearch]
  | succ j ih =>
    intro c M x1 g1 f1
    simp only [pgmSearch]
    split
    · split
      · simp
      · rw [Trial.after_nf, Trial.after_ng]
        have := ih (c + 1) (M * 2) (List.zipWith (fun x g => x - g / M) xk gxk)
          (F c (List.zipWith (fun x g => x - g / M) xk gxk)).2 (F c (List.zipWith (fun x g => x - g / M) xk gxk)).1
        omega
    · simp

/-- an accepted trial of pgm is an evaluation of `f` -/
theorem pgmSearch_eval (env : Env α) (f : Objective α) (eps : α) (xk gxk : Vec α) (fxk : α) :
    ∀ (j c : Nat) (M : α) (x1 g1 : Vec α) (f1 : α), (pgmSearch env (fun _ => f) eps xk gxk fxk j c M x1 g1 f1).ok = true →
      IsEval f (pgmSearch env (fun _ => f) eps xk gxk fxk j c M x1 g1 f1).x1
        (pgmSearch env (fun _ => f) eps xk gxk fxk j c M x1 g1 f1).g1
        (pgmSearch env (fun _ => f) eps xk gxk fxk j c M x1 g1 f1).f1 := by
  intro j
  induction j with
  | zero => intro c M x1 g1 f1 h; simp [pgmSearch] at h
  | succ j ih =>
    intro c M x1 g1 f1
    simp only [pgmSearch]
    split
    · split
      · intro _; exact ⟨rfl, rfl⟩
      · rw [Trial.after_ok, Trial.after_x1, Trial.after_g1, Trial.after_f1]
        exact ih _ _ _ _ _
    · intro h; simp at h

theorem pgmBody_cands (env : Env α) (f : Objective α) (eps : α) (lsmax c : Nat) (m : PgmMem α) :
    ∀ cand ∈ (pgmBody env (fun _ => f) eps lsmax c m).cands, IsEval f cand.1 cand.2.1 cand.2.2 := by
  intro cand h
  simp only [pgmBody] at h
  split at h
  · rename_i hok
    simp only [List.mem_singleton] at h
    subst h
    exact pgmSearch_eval env f eps _ _ _ _ _ _ _ _ _ hok
  · simp at h

theorem pgmBody_evals (env : Env α) (F : ObjectiveI α) (eps : α) (lsmax c : Nat) (m : PgmMem α) :
    (pgmBody env F eps lsmax c m).nf + (pgmBody env F eps lsmax c m).ng ≤ 2 * lsmax ∧
    (pgmBody env F eps lsmax c m).conv ≠ some true := by
  have h := pgmSearch_count env F eps m.xk m.gxk m.fxk lsmax c m.L m.xk1 m.gxk1 m.fxk1
  simp only [pgmBody]
  split
  · exact ⟨by simp only []; omega, by simp⟩
  · exact ⟨by simp only []; omega, by simp⟩

/-- the inner line search of dgm makes at most `2 fuel` calls, at most `fuel` of them with the gradient -/
theorem dgmSearch_count (env : Env α) (F : ObjectiveI α) (eps : α) (gphi gxk : Vec α) :
    ∀ (j c : Nat) (M : α) (x1 g1 : Vec α) (f1 : α),
      (dgmSearch env F eps gphi gxk j c M x1 g1 f1).nf ≤ 2 * j ∧ (dgmSearch env F eps gphi gxk j c M x1 g1 f1).ng ≤ j := by
  intro j
  induction j with
  | zero => intro c M x1 g1 f1; simp [dgmSearch]
  | succ j ih =>
    intro c M x1 g1 f1
    simp only [dgmSearch]
    split
    · split
      · split
        · simp; omega
        · rw [Trial.after_nf, Trial.after_ng]
          have := ih (c + 2) (M * 2) (List.zipWith (fun p g => p - g / M) gphi gxk)
            (F c (List.zipWith (fun p g => p - g / M) gphi gxk)).2 (F c (List.zipWith (fun p g => p - g / M) gphi gxk)).1
          omega
      · rw [Trial.after_nf, Trial.after_ng]
        have := ih (c + 1) (M * 2) (List.zipWith (fun p g => p - g / M) gphi gxk)
          (F c (List.zipWith (fun p g => p - g / M) gphi gxk)).2 (F c (List.zipWith (fun p g => p - g / M) gphi gxk)).1
        omega
    · simp

theorem dgmSearch_eval (env : Env α) (f : Objective α) (eps : α) (gphi gxk : Vec α) :
    ∀ (j c : Nat) (M : α) (x1 g1 : Vec α) (f1 : α), (dgmSearch env (fun _ => f) eps gphi gxk j c M x1 g1 f1).ok = true →
      IsEval f (dgmSearch env (fun _ => f) eps gphi gxk j c M x1 g1 f1).x1
        (dgmSearch env (fun _ => f) eps gphi gxk j c M x1 g1 f1).g1
        (dgmSearch env (fun _ => f) eps gphi gxk j c M x1 g1 f1).f1 := by
  intro j
  induction j with
  | zero => intro c M x1 g1 f1 h; simp [dgmSearch] at h
  | succ j ih =>
    intro c M x1 g1 f1
    simp only [dgmSearch]
    split
    · split
      · split
        · intro _; exact ⟨rfl, rfl⟩
        · rw [Trial.after_ok, Trial.after_x1, Trial.after_g1, Trial.after_f1]
          exact ih _ _ _ _ _
      · rw [Trial.after_ok, Trial.after_x1, Trial.after_g1, Trial.after_f1]
        exact ih _ _ _ _ _
    · intro h; simp at h

theorem dgmBody_cands (env : Env α) (f : Objective α) (eps : α) (lsmax c : Nat) (m : DgmMem α) :
    ∀ cand ∈ (dgmBody env (fun _ => f) eps lsmax c m).cands, IsEval f cand.1 cand.2.1 cand.2.2 := by
  intro cand h
  simp only [dgmBody] at h
  split at h
  · rename_i hok
    simp only [List.mem_singleton] at h
    subst h
    exact dgmSearch_eval env f eps _ _ _ _ _ _ _ _ hok
  · simp at h

theorem dgmBody_evals (env : Env α) (F : ObjectiveI α) (eps : α) (lsmax c : Nat) (m : DgmMem α) :
    (dgmBody env F eps lsmax c m).nf + (dgmBody env F eps lsmax c m).ng ≤ 3 * lsmax ∧
    (dgmBody env F eps lsmax c m).conv ≠ some true := by
  have h := dgmSearch_count env F eps m.gphi m.gxk lsmax c m.L m.xk1 m.gxk1 m.fxk1
  simp only [dgmBody]
  split
  · exact ⟨by simp only []; omega, by simp⟩
  · exact ⟨by simp only []; omega, by simp⟩

/-- the inner line search of fgm makes at most `2 fuel` calls, all with the gradient -/
theorem fgmSearch_count (env : Env α) (F : ObjectiveI α) (eps Ak : α) (vk yk : Vec α) :
    ∀ (j c : Nat) (M fx1 fy1 : α),
      (fgmSearch env F eps Ak vk yk j c M fx1 fy1).nf ≤ 2 * j ∧ (fgmSearch env F eps Ak vk yk j c M fx1 fy1).ng ≤ 2 * j := by
  intro j
  induction j with
  | zero => intro c M fx1 fy1; simp [fgmSearch]
  | succ j ih =>
    intro c M fx1 fy1
    simp only [fgmSearch]
    split
    · split
      · simp; omega
      · rw [Trial.after_nf, Trial.after_ng]
        have key : ∀ t : Trial α, t.nf ≤ 2 * j ∧ t.ng ≤ 2 * j → t.nf + 2 ≤ 2 * (j + 1) ∧ t.ng + 2 ≤ 2 * (j + 1) := by
          intro t h; omega
        exact key _ (ih _ _ _ _)
    · simp

theorem fgmSearch_eval (env : Env α) (f : Objective α) (eps Ak : α) (vk yk : Vec α) :
    ∀ (j c : Nat) (M fx1 fy1 : α), (fgmSearch env (fun _ => f) eps Ak vk yk j c M fx1 fy1).ok = true →
      IsEval f (fgmSearch env (fun _ => f) eps Ak vk yk j c M fx1 fy1).x1
        (fgmSearch env (fun _ => f) eps Ak vk yk j c M fx1 fy1).g1
        (fgmSearch env (fun _ => f) eps Ak vk yk j c M fx1 fy1).f1 := by
  intro j
  induction j with
  | zero => intro c M fx1 fy1 h; simp [fgmSearch] at h
  | succ j ih =>
    intro c M fx1 fy1
    simp only [fgmSearch]
    split
    · split
      · intro _; exact ⟨rfl, rfl⟩
      · rw [Trial.after_ok, Trial.after_x1, Trial.after_g1, Trial.after_f1]
        exact ih _ _ _ _
    · intro h; simp at h

theorem fgmBody_cands (env : Env α) (f : Objective α) (eps : α) (lsmax c : Nat) (m : FgmMem α) :
    ∀ cand ∈ (fgmBody env (fun _ => f) eps lsmax c m).cands, IsEval f cand.1 cand.2.1 cand.2.2 := by
  intro cand h
  simp only [fgmBody] at h
  split at h
  · rename_i hok
    simp only [List.mem_singleton] at h
    subst h
    exact fgmSearch_eval env f eps _ _ _ _ _ _ _ _ hok
  · simp at h

theorem fgmBody_evals (env : Env α) (F : ObjectiveI α) (eps : α) (lsmax c : Nat) (m : FgmMem α) :
    (fgmBody env F eps lsmax c m).nf + (fgmBody env F eps lsmax c m).ng ≤ 4 * lsmax ∧
    (fgmBody env F eps lsmax c m).conv ≠ some true := by
  have h := fgmSearch_count env F eps m.Ak m.vk m.yk lsmax c m.L m.fxk1 m.fyk1
  simp only [fgmBody]
  split
  · exact ⟨by simp only []; omega, by simp⟩
  · exact ⟨by simp only []; omega, by simp⟩

/-! ### asga2 / asga4 -/

theorem AsgaTrial.after_x (t : AsgaTrial α) (a : List (Vec α)) (ts : α × α) : (t.after a ts).x = t.x := rfl
theorem AsgaTrial.after_gx (t : AsgaTrial α) (a : List (Vec α)) (ts : α × α) : (t.after a ts).gx = t.gx := rfl
theorem AsgaTrial.after_fx (t : AsgaTrial α) (a : List (Vec α)) (ts : α × α) : (t.after a ts).fx = t.fx := rfl
theorem AsgaTrial.after_n (t : AsgaTrial α) (a : List (Vec α)) (ts : α × α) : (t.after a ts).n = t.n + 1 := rfl

/-- the inner loop of asga2 makes at most `fuel` trials (two calls with the gradient each) -/
theorem asga2Search_count (env : Env α) (F : ObjectiveI α) (eps miu gamma1 : α) (x0 sum : Vec α) (Sk fxk : α) (xk zk : Vec α) :
    ∀ (j c : Nat) (L : α), (asga2Search env F eps miu gamma1 x0 sum Sk fxk xk zk j c L).n ≤ j := by
  intro j
  induction j with
  | zero => intro c L; simp [asga2Search]
  | succ j ih =>
    intro c L
    simp only [asga2Search]
    split
    · simp
    · rw [AsgaTrial.after_n]
      have := ih (c + 2) (L * gamma1)
      omega

/-- with at least one trial allowed, what the inner loop of asga2 leaves behind is an evaluation of `f` -/
theorem asga2Search_eval (env : Env α) (f : Objective α) (eps miu gamma1 : α) (x0 sum : Vec α) (Sk fxk : α) (xk zk : Vec α) :
    ∀ (j c : Nat) (L : α),
      IsEval f (asga2Search env (fun _ => f) eps miu gamma1 x0 sum Sk fxk xk zk (j + 1) c L).x
        (asga2Search env (fun _ => f) eps miu gamma1 x0 sum Sk fxk xk zk (j + 1) c L).gx
        (asga2Search env (fun _ => f) eps miu gamma1 x0 sum Sk fxk xk zk (j + 1) c L).fx := by
  intro j
  induction j with
  | zero => intro c L; simp only [asga2Search]; simp only [BEq.rfl, Bool.or_true, if_true]; exact ⟨rfl, rfl⟩
  | succ j ih =>
    intro c L
    rw [asga2Search]
    split
    · exact ⟨rfl, rfl⟩
    · rw [AsgaTrial.after_x, AsgaTrial.after_gx, AsgaTrial.after_fx]
      exact ih _ _

theorem asga2Body_cands (env : Env α) (f : Objective α) (eps miu gamma1 gamma2 : α) (lsmax : Nat) (x0 : Vec α)
    (hls : 1 ≤ lsmax) (c : Nat) (m : Asga2Mem α) :
    ∀ cand ∈ (asga2Body env (fun _ => f) eps miu gamma1 gamma2 lsmax x0 c m).cands, IsEval f cand.1 cand.2.1 cand.2.2 := by
  intro cand h
  obtain ⟨j, rfl⟩ : ∃ j, lsmax = j + 1 := ⟨lsmax - 1, by omega⟩
  simp only [asga2Body, List.mem_singleton] at h
  subst h
  exact asga2Search_eval env f eps miu gamma1 x0 _ _ _ _ _ j c _

theorem asga2Body_evals (env : Env α) (F : ObjectiveI α) (eps miu gamma1 gamma2 : α) (lsmax : Nat) (x0 : Vec α) (c : Nat)
    (m : Asga2Mem α) :
    (asga2Body env F eps miu gamma1 gamma2 lsmax x0 c m).nf + (asga2Body env F eps miu gamma1 gamma2 lsmax x0 c m).ng ≤ 4 * lsmax ∧
    (asga2Body env F eps miu gamma1 gamma2 lsmax x0 c m).conv = none := by
  have h := asga2Search_count env F eps miu gamma1 x0 m.sum m.Sk m.fxk m.xk m.zk lsmax c (m.Lk / gamma1)
  simp only [asga2Body]
  exact ⟨by omega, trivial⟩

theorem asga4Search_count (env : Env α) (F : ObjectiveI α) (eps miu gamma1 : α) (Sk fyk : α) (vk yk : Vec α) :
    ∀ (j c : Nat) (L : α), (asga4Search env F eps miu gamma1 Sk fyk vk yk j c L).n ≤ j := by
  intro j
  induction j with
  | zero => intro c L; simp [asga4Search]
  | succ j ih =>
    intro c L
    simp only [asga4Search]
    split
    · simp
    · rw [AsgaTrial.after_n]
      have := ih (c + 2) (L * gamma1)
      omega

theorem asga4Search_eval (env : Env α) (f : Objective α) (eps miu gamma1 : α) (Sk fyk : α) (vk yk : Vec α) :
    ∀ (j c : Nat) (L : α),
      IsEval f (asga4Search env (fun _ => f) eps miu gamma1 Sk fyk vk yk (j + 1) c L).x
        (asga4Search env (fun _ => f) eps miu gamma1 Sk fyk vk yk (j + 1) c L).gx
        (asga4Search env (fun _ => f) eps miu gamma1 Sk fyk vk yk (j + 1) c L).fx := by
  intro j
  induction j with
  | zero => intro c L; simp only [asga4Search]; simp only [BEq.rfl, Bool.or_true, if_true]; exact ⟨rfl, rfl⟩
  | succ j ih =>
    intro c L
    rw [asga4Search]
    split
    · exact ⟨rfl, rfl⟩
    · rw [AsgaTrial.after_x, AsgaTrial.after_gx, AsgaTrial.after_fx]
      exact ih _ _

theorem asga4Body_cands (env : Env α) (f : Objective α) (eps miu gamma1 gamma2 : α) (lsmax : Nat) (x0 : Vec α)
    (hls : 1 ≤ lsmax) (c : Nat) (m : Asga4Mem α) :
    ∀ cand ∈ (asga4Body env (fun _ => f) eps miu gamma1 gamma2 lsmax x0 c m).cands, IsEval f cand.1 cand.2.1 cand.2.2 := by
  intro cand h
  obtain ⟨j, rfl⟩ : ∃ j, lsmax = j + 1 := ⟨lsmax - 1, by omega⟩
  simp only [asga4Body, List.mem_singleton] at h
  subst h
  exact asga4Search_eval env f eps miu gamma1 _ _ _ _ j c _

theorem asga4Body_evals (env : Env α) (F : ObjectiveI α) (eps miu gamma1 gamma2 : α) (lsmax : Nat) (x0 : Vec α) (c : Nat)
    (m : Asga4Mem α) :
    (asga4Body env F eps miu gamma1 gamma2 lsmax x0 c m).nf + (asga4Body env F eps miu gamma1 gamma2 lsmax x0 c m).ng ≤ 4 * lsmax ∧
    (asga4Body env F eps miu gamma1 gamma2 lsmax x0 c m).conv = none := by
  have h := asga4Search_count env F eps miu gamma1 m.Sk m.fyk m.vk m.yk lsmax c (m.Lk / gamma1)
  simp only [asga4Body]
  exact ⟨by omega, trivial⟩

/-! ### a body whose candidates are evaluations only for the private variables it can really reach (osga) -/

/-- as `nmMinimize_inv`, relative to an invariant of the private variables -/
theorem nmMinimize_inv_mem {M : Type} (env : Env α) (Inv : M → Prop) (P : Vec α → Vec α → α → Prop) (body : Body α M) (m0 : M)
    (patience : Nat) (eps : α) (maxEvals fuel : Nat) (b0 : BState α) (h0 : P b0.st.x b0.st.gx b0.st.fx) (hm0 : Inv m0)
    (hbody : ∀ c m, Inv m → (∀ cand ∈ (body c m).cands, P cand.1 cand.2.1 cand.2.2) ∧ Inv (body c m).mem) :
    P (nmMinimize env body m0 patience eps maxEvals fuel b0).st.x (nmMinimize env body m0 patience eps maxEvals fuel b0).st.gx
      (nmMinimize env body m0 patience eps maxEvals fuel b0).st.fx := by
  have hk : ∀ k, Inv (memAt body m0 1 k).1 := by
    intro k
    induction k with
    | zero => exact hm0
    | succ k ih => rw [memAt_succ]; exact (hbody _ _ ih).2
  exact nmLoop_inv env P (stepOf env body m0 1) patience eps maxEvals (fun k _ _ => (hbody _ _ (hk k)).1) fuel 0 _ _ b0 h0

/-- what osga hands over and keeps: `fb_hat` is the value of `f` at `xb_hat` whenever `fb` is the value at `xb` -/
theorem osgaIter_best (env : Env α) (f : Objective α) (miu q0 : α) (z0 : Vec α) (c : Nat) (m : OsgaMem α)
    (h : m.fb = (f m.xb).1) :
    (osgaIter env (fun _ => f) miu q0 z0 c m).fbHat = (f (osgaIter env (fun _ => f) miu q0 z0 c m).xbHat).1 := by
  simp only [osgaIter]
  split <;> split <;> first | rfl | exact h

theorem osgaBody_cands (env : Env α) (nm : EnvNM α) (f : Objective α) (eps miu lambda alphaMax kappaP kappa : α)
    (z0 g0 : Vec α) (c : Nat) (m : OsgaMem α) (h : m.fb = (f m.xb).1) :
    (∀ cand ∈ (osgaBody env nm (fun _ => f) eps miu lambda alphaMax kappaP kappa z0 g0 c m).cands,
      cand.2.2 = (f cand.1).1 ∧ cand.2.1 = g0) ∧
    (osgaBody env nm (fun _ => f) eps miu lambda alphaMax kappaP kappa z0 g0 c m).mem.fb =
      (f (osgaBody env nm (fun _ => f) eps miu lambda alphaMax kappaP kappa z0 g0 c m).mem.xb).1 := by
  unfold osgaBody
  split
  · exact ⟨by simp, h⟩
  · refine ⟨?_, osgaIter_best env f miu _ z0 c m h⟩
    intro cand hc
    simp only [List.mem_singleton] at hc
    subst hc
    exact ⟨osgaIter_best env f miu _ z0 c m h, rfl⟩

theorem osgaBody_evals (env : Env α) (nm : EnvNM α) (F : ObjectiveI α) (eps miu lambda alphaMax kappaP kappa : α)
    (z0 g0 : Vec α) (c : Nat) (m : OsgaMem α) :
    (osgaBody env nm F eps miu lambda alphaMax kappaP kappa z0 g0 c m).nf +
      (osgaBody env nm F eps miu lambda alphaMax kappaP kappa z0 g0 c m).ng ≤ 3 ∧
    ((osgaBody env nm F eps miu lambda alphaMax kappaP kappa z0 g0 c m).conv = some true →
      infNorm g0 < nm.eps0 ∨ (osgaIter env F miu (osgaQ0 env nm z0) z0 c m).etaHat < eps) := by
  unfold osgaBody
  split
  · rename_i h; exact ⟨by simp, fun _ => Or.inl h⟩
  · refine ⟨by simp, ?_⟩
    simp only []
    split
    · rename_i h; exact fun _ => Or.inr h
    · intro h; cases h

/-- the clauses of the statement for a body in the oracle slot, started from `solver_state_t{function, x0}`: if every candidate of
    every body call is an evaluation of `f` and no body call makes more than `K ≥ 2` evaluations, then the returned triple is an
    evaluation of `f`, the reported evaluations stay below `max_evals + K`, and the status is one of the three -/
theorem nmMinimize_honest {M : Type} (env : Env α) (f : Objective α) (body : Body α M) (m0 : M) (patience : Nat) (eps : α)
    (maxEvals K fuel : Nat) (x0 : Vec α)
    (hc : ∀ c m, ∀ cand ∈ (body c m).cands, IsEval f cand.1 cand.2.1 cand.2.2)
    (hK : ∀ c m, (body c m).nf + (body c m).ng ≤ K) (h2 : 2 ≤ K) :
    IsEval f (nmMinimize env body m0 patience eps maxEvals fuel (initBState (fun _ => f) x0)).st.x
      (nmMinimize env body m0 patience eps maxEvals fuel (initBState (fun _ => f) x0)).st.gx
      (nmMinimize env body m0 patience eps maxEvals fuel (initBState (fun _ => f) x0)).st.fx ∧
    (1 ≤ maxEvals → evals (nmMinimize env body m0 patience eps maxEvals fuel (initBState (fun _ => f) x0)).st < maxEvals + K) ∧
    Tri (nmMinimize env body m0 patience eps maxEvals fuel (initBState (fun _ => f) x0)).st.status := by
  refine ⟨?_, fun h1 => ?_, ?_⟩
  · exact nmMinimize_inv env (IsEval f) body m0 patience eps maxEvals fuel _ (initBState_eval f x0) hc
  · apply nmMinimize_budget env body m0 patience eps maxEvals K fuel _ hK
    rw [initBState_evals]; omega
  · exact nmMinimize_tri env body m0 patience eps maxEvals fuel _ (Or.inl rfl)

end
end NanoVerif.Solver
