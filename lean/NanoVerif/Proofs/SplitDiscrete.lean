import NanoVerif.Model.SplitSampler
import Mathlib.Algebra.Order.Field.Basic
import Mathlib.Algebra.BigOperators.Group.List.Basic
import Mathlib.Algebra.Order.BigOperators.Group.List
import Mathlib.Tactic.Ring
import Mathlib.Tactic.Linarith
import Mathlib.Tactic.FieldSimp
/-!
  C12 — the generator `minstd_rand`, `generate_canonical` and libstdc++'s `discrete_distribution` (model in
  `Model/SplitSampler.lean`): the generator never leaves `[1, m)`, the canonical draw is in `(0, 1)`, `std::lower_bound` as coded
  returns the first position that is not less on a partitioned range, and — in exact arithmetic — the position drawn from
  non-negative weights with a positive sum has a POSITIVE weight (the contract `DrawsPositive` of the first round, now a theorem
  about the model of the code instead of a hypothesis).
-/
set_option linter.unusedSectionVars false
namespace NanoVerif.Split

/-! ### `minstd_rand` -/

theorem lcgSeed_range (seed : Nat) : 1 ≤ lcgSeed seed ∧ lcgSeed seed < lcgM := by
  unfold lcgSeed
  split
  · decide
  · rename_i h
    exact ⟨Nat.pos_of_ne_zero h, Nat.mod_lt _ (by decide)⟩

theorem lcg_coprime : Nat.Coprime lcgA lcgM := by
  unfold Nat.Coprime lcgA lcgM; decide +kernel

/-- the state never becomes 0 (the multiplier is coprime to the modulus) and stays below the modulus -/
theorem lcgNext_range (x : Nat) (h1 : 1 ≤ x) (h2 : x < lcgM) : 1 ≤ lcgNext x ∧ lcgNext x < lcgM := by
  refine ⟨?_, Nat.mod_lt _ (by decide)⟩
  unfold lcgNext
  rcases Nat.eq_zero_or_pos (lcgA * x % lcgM) with h | h
  · exfalso
    have hd : lcgM ∣ lcgA * x := Nat.dvd_of_mod_eq_zero h
    have hx : lcgM ∣ x := (Nat.Coprime.symm lcg_coprime).dvd_of_dvd_mul_left hd
    have := Nat.le_of_dvd (by omega) hx
    omega
  · exact h

/-- the canonical draw is never 0: two consecutive outputs of the generator cannot both be its minimum 1 -/
theorem canonNum_pos (x : Nat) (h1 : 1 ≤ x) (h2 : x < lcgM) : 0 < canonNum x := by
  unfold canonNum
  obtain ⟨a1, a2⟩ := lcgNext_range x h1 h2
  by_cases h : lcgNext x = 1
  · rw [h]
    have : lcgNext 1 = 48271 := by decide
    rw [this]; decide
  · omega

/-- … and is below 1: the numerator is below `R²` -/
theorem canonNum_lt (x : Nat) (h1 : 1 ≤ x) (h2 : x < lcgM) : canonNum x < lcgRange * lcgRange := by
  unfold canonNum
  obtain ⟨a1, a2⟩ := lcgNext_range x h1 h2
  obtain ⟨b1, b2⟩ := lcgNext_range _ a1 a2
  have hR : lcgRange = lcgM - 1 := rfl
  have hM : lcgM = 2147483647 := rfl
  have h3 : lcgNext (lcgNext x) - 1 ≤ lcgRange - 1 := by omega
  have h4 : (lcgNext (lcgNext x) - 1) * lcgRange ≤ (lcgRange - 1) * lcgRange := Nat.mul_le_mul_right _ h3
  have h5 : (lcgRange - 1) * lcgRange + lcgRange = lcgRange * lcgRange := by
    rw [hR, hM]
  omega

/-! ### `std::lower_bound` as coded -/

/-- the loop invariant: everything before `first` is less, the position `first + len` (if any) is not less -/
theorem lbGo_spec (lt : Nat → Bool) (n : Nat) (hdown : ∀ i j, i ≤ j → j < n → lt j = true → lt i = true) :
    ∀ (fuel first len : Nat), len ≤ fuel → first + len ≤ n →
      (∀ i, i < first → lt i = true) → (first + len < n → lt (first + len) = false) →
      let r := lbGo lt fuel first len
      r ≤ n ∧ (∀ i, i < r → lt i = true) ∧ (r < n → lt r = false)
  | 0, first, len, hf, hn, hb, ha => by
    have : len = 0 := by omega
    subst this
    simpa [lbGo] using ⟨hn, hb, ha⟩
  | fuel + 1, first, len, hf, hn, hb, ha => by
    by_cases h0 : len = 0
    · subst h0
      simpa [lbGo] using ⟨hn, hb, ha⟩
    · simp only [lbGo, if_neg h0]
      have hhalf : len / 2 < len := Nat.div_lt_self (by omega) (by decide)
      by_cases hm : lt (first + len / 2) = true
      · simp only [hm, if_true]
        refine lbGo_spec lt n hdown fuel (first + len / 2 + 1) (len - len / 2 - 1) (by omega) (by omega) ?_ ?_
        · intro i hi
          exact hdown i (first + len / 2) (by omega) (by omega) hm
        · intro h
          have e : first + len / 2 + 1 + (len - len / 2 - 1) = first + len := by omega
          rw [e] at h ⊢
          exact ha h
      · have hm' : lt (first + len / 2) = false := by simpa using hm
        simp only [hm', Bool.false_eq_true, if_false]
        exact lbGo_spec lt n hdown fuel first (len / 2) (by omega) (by omega) hb (fun _ => hm')

/-- On a range partitioned by `· < u` (`lt` downward closed) `std::lower_bound` returns the first position that is not less:
    everything before it is less, it is not (when it is a position at all). -/
theorem lowerBound_spec (lt : Nat → Bool) (n : Nat) (hdown : ∀ i j, i ≤ j → j < n → lt j = true → lt i = true) :
    lowerBound lt n ≤ n ∧ (∀ i, i < lowerBound lt n → lt i = true) ∧ (lowerBound lt n < n → lt (lowerBound lt n) = false) := by
  have := lbGo_spec lt n hdown n 0 n (Nat.le_refl _) (by omega) (by intro i hi; omega) (by intro h; omega)
  simpa [lowerBound] using this

/-- when no comparison succeeds (a table of NaNs closed by 1: all-zero or NaN weights) the answer is position 0 -/
theorem lowerBound_all_false (lt : Nat → Bool) (n : Nat) (h : ∀ i, i < n → lt i = false) : lowerBound lt n = 0 := by
  obtain ⟨h1, h2, _⟩ := lowerBound_spec lt n (by intro i j _ hj hlt; rw [h j hj] at hlt; cases hlt)
  by_contra hne
  have h0 := h2 0 (Nat.pos_of_ne_zero hne)
  rw [h 0 (by omega)] at h0
  cases h0

/-! ### the table of cumulative probabilities -/

section field
variable {α : Type} [Field α] [LinearOrder α] [IsStrictOrderedRing α]

theorem accum_eq_sum (w : List α) : accum w = w.sum := by
  unfold accum
  rw [List.sum_eq_foldl]

theorem psGo_length (acc : α) (l : List α) : (psGo acc l).length = l.length := by
  induction l generalizing acc with
  | nil => rfl
  | cons x xs ih => simp [psGo, ih]

theorem partialSums_length (l : List α) : (partialSums l).length = l.length := by
  cases l with
  | nil => rfl
  | cons x xs => simp [partialSums, psGo_length]

theorem psGo_get (acc : α) (l : List α) (i : Nat) (hi : i < l.length) :
    (psGo acc l)[i]? = some (acc + (l.take (i + 1)).sum) := by
  induction l generalizing acc i with
  | nil => simp at hi
  | cons x xs ih =>
    cases i with
    | zero => simp [psGo]
    | succ i =>
      simp only [psGo, List.getElem?_cons_succ]
      rw [ih (acc + x) i (by simpa using hi)]
      simp [List.take_succ_cons, add_assoc]

theorem partialSums_get (l : List α) (i : Nat) (hi : i < l.length) :
    (partialSums l)[i]? = some ((l.take (i + 1)).sum) := by
  cases l with
  | nil => simp at hi
  | cons x xs =>
    cases i with
    | zero => simp [partialSums]
    | succ i =>
      simp only [partialSums, List.getElem?_cons_succ]
      rw [psGo_get x xs i (by simpa using hi)]
      simp [List.take_succ_cons]

theorem setLast_length (l : List α) (v : α) : (setLast l v).length = l.length := by
  induction l with
  | nil => rfl
  | cons x xs ih =>
    cases xs with
    | nil => rfl
    | cons y ys => simp only [setLast, List.length_cons] at ih ⊢; omega

theorem setLast_get (l : List α) (v : α) (i : Nat) (hi : i < l.length) :
    (setLast l v)[i]? = if i + 1 = l.length then some v else l[i]? := by
  induction l generalizing i with
  | nil => simp at hi
  | cons x xs ih =>
    cases xs with
    | nil =>
      have : i = 0 := by simpa using hi
      subst this; simp [setLast]
    | cons y ys =>
      cases i with
      | zero => simp [setLast]
      | succ i =>
        simp only [setLast, List.getElem?_cons_succ]
        rw [ih i (by simpa using hi)]
        simp

theorem sum_normalize (l : List α) (s : α) : (normalize l s).sum = l.sum / s := by
  unfold normalize
  induction l with
  | nil => simp
  | cons x xs ih => simp [ih, add_div]

theorem take_normalize (l : List α) (s : α) (k : Nat) : (normalize l s).take k = normalize (l.take k) s := by
  unfold normalize; rw [List.map_take]

/-- prefix sums `A i = w₀ + … + wᵢ` -/
def prefixSum (w : List α) (i : Nat) : α := (w.take (i + 1)).sum

theorem prefixSum_succ (w : List α) (i : Nat) (hi : i + 1 < w.length) :
    prefixSum w (i + 1) = prefixSum w i + w[i + 1] := by
  unfold prefixSum
  rw [List.sum_take_succ w (i + 1) hi]

theorem prefixSum_mono (w : List α) (hw : ∀ x ∈ w, 0 ≤ x) (i j : Nat) (hij : i ≤ j) (hj : j < w.length) :
    prefixSum w i ≤ prefixSum w j := by
  induction j with
  | zero =>
    have : i = 0 := by omega
    subst this; exact le_refl _
  | succ j ih =>
    rcases Nat.eq_or_lt_of_le hij with h | h
    · subst h; exact le_refl _
    · have h1 := ih (by omega) (by omega)
      rw [prefixSum_succ w j hj]
      have : 0 ≤ w[j + 1] := hw _ (List.getElem_mem hj)
      linarith

theorem prefixSum_last (w : List α) (hn : 0 < w.length) : prefixSum w (w.length - 1) = w.sum := by
  unfold prefixSum
  have : w.length - 1 + 1 = w.length := by omega
  rw [this, List.take_length]

/-- the entries of the table for at least two weights: `Aᵢ / S`, the last one 1 -/
theorem ddCp_get (w : List α) (hn : 2 ≤ w.length) (i : Nat) (hi : i < w.length) :
    (ddCp w)[i]? = some (if i + 1 = w.length then 1 else prefixSum w i / w.sum) := by
  unfold ddCp
  rw [if_neg (by omega)]
  have hl : (partialSums (normalize w (accum w))).length = w.length := by
    rw [partialSums_length]; simp [normalize]
  rw [setLast_get _ _ i (by rw [hl]; exact hi), hl]
  split
  · rfl
  · rw [partialSums_get _ i (by simpa [normalize] using hi), take_normalize, sum_normalize, accum_eq_sum]
    rfl

theorem ddCp_length (w : List α) (hn : 2 ≤ w.length) : (ddCp w).length = w.length := by
  unfold ddCp
  rw [if_neg (by omega), setLast_length, partialSums_length]
  simp [normalize]

theorem ddCp_short (w : List α) (hn : w.length < 2) : ddCp w = [] := by
  unfold ddCp; rw [if_pos hn]

/-- **The contract of `std::discrete_distribution`, proved for the model of the libstdc++ code in exact arithmetic.**
    Non-negative weights (at least two) with a positive sum and a canonical draw `0 < u ≤ 1`: the position returned is a
    position of the weight vector and its weight is positive. -/
theorem ddDraw_positive (w : List α) (u : α) (hn : 2 ≤ w.length) (hw : ∀ x ∈ w, 0 ≤ x) (hS : 0 < w.sum)
    (hu0 : 0 < u) (hu1 : u ≤ 1) :
    ∃ (h : ddDraw (ddCp w).toArray u < w.length), 0 < w[ddDraw (ddCp w).toArray u] := by
  have hlen := ddCp_length w hn
  -- the value of the table at a position
  have hval : ∀ i, i < w.length →
      (ddCp w).toArray.getD i 0 = if i + 1 = w.length then 1 else prefixSum w i / w.sum := by
    intro i hi
    have := ddCp_get w hn i hi
    simp only [Array.getD_eq_getD_getElem?, List.getElem?_toArray, this, Option.getD_some]
  have hAle : ∀ i, i < w.length → prefixSum w i / w.sum ≤ 1 := by
    intro i hi
    rw [div_le_one hS, ← prefixSum_last w (by omega)]
    exact prefixSum_mono w hw i _ (by omega) (by omega)
  -- the table is non-decreasing
  have hmono : ∀ i j, i ≤ j → j < w.length → (ddCp w).toArray.getD i 0 ≤ (ddCp w).toArray.getD j 0 := by
    intro i j hij hj
    rw [hval i (by omega), hval j hj]
    by_cases hjl : j + 1 = w.length
    · rw [if_pos hjl]
      split
      · exact le_refl _
      · exact hAle i (by omega)
    · rw [if_neg hjl, if_neg (by omega)]
      exact div_le_div_of_nonneg_right (prefixSum_mono w hw i j hij hj) (le_of_lt hS)
  have hsize : (ddCp w).toArray.size = w.length := by simp [hlen]
  obtain ⟨h1, h2, h3⟩ := lowerBound_spec (fun i => decide ((ddCp w).toArray.getD i 0 < u)) w.length (by
    intro i j hij hj hlt
    simp only [decide_eq_true_eq] at hlt ⊢
    exact lt_of_le_of_lt (hmono i j hij hj) hlt)
  have hr : ddDraw (ddCp w).toArray u = lowerBound (fun i => decide ((ddCp w).toArray.getD i 0 < u)) w.length := by
    unfold ddDraw; rw [hsize]
  rw [← hr] at h1 h2 h3
  generalize ddDraw (ddCp w).toArray u = r at h1 h2 h3
  -- the last entry is 1 ≥ u: the answer is a position
  have hrlt : r < w.length := by
    rcases Nat.lt_or_ge r w.length with h | h
    · exact h
    · exfalso
      have := h2 (w.length - 1) (by omega)
      simp only [decide_eq_true_eq] at this
      rw [hval _ (by omega), if_pos (by omega)] at this
      exact absurd this (not_lt.mpr hu1)
  refine ⟨hrlt, ?_⟩
  have hge : u ≤ (ddCp w).toArray.getD r 0 := by
    have := h3 hrlt
    simpa using this
  have hcr : (ddCp w).toArray.getD r 0 ≤ prefixSum w r / w.sum := by
    rw [hval r hrlt]
    split
    · rename_i hl
      have : r = w.length - 1 := by omega
      rw [this, prefixSum_last w (by omega), div_self (ne_of_gt hS)]
    · exact le_refl _
  cases r with
  | zero =>
    have h0 : 0 < prefixSum w 0 / w.sum := lt_of_lt_of_le hu0 (le_trans hge hcr)
    have h0' : 0 < prefixSum w 0 := by
      rcases (div_pos_iff.mp h0) with ⟨a, _⟩ | ⟨_, b⟩
      · exact a
      · exact absurd hS (not_lt.mpr (le_of_lt b))
    have : prefixSum w 0 = w[0] := by
      unfold prefixSum
      rw [List.sum_take_succ w 0 hrlt]; simp
    rw [← this]; exact h0'
  | succ r =>
    have hprev := h2 r (by omega)
    simp only [decide_eq_true_eq] at hprev
    rw [hval r (by omega), if_neg (by omega)] at hprev
    have hlt : prefixSum w r / w.sum < prefixSum w (r + 1) / w.sum :=
      lt_of_lt_of_le hprev (le_trans hge hcr)
    have hlt' : prefixSum w r < prefixSum w (r + 1) := (div_lt_div_iff_of_pos_right hS).mp hlt
    rw [prefixSum_succ w r hrlt] at hlt'
    linarith

end field

end NanoVerif.Split
