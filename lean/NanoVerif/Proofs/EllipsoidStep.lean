import NanoVerif.Proofs.EllipsoidLJ
/-!
  C03 — the Löwner–John step on the list model: `stepND` (ellipsoid.cpp:64-68) keeps every point of the half-ellipsoid
  `{z ∈ E(x, H) : g·(z − x) ≤ −α √(gᵀHg)}` inside the new ellipsoid `E(x⁺, H⁺)`, for a symmetric `H` (the property
  `SymH`, preserved by the update), dimension `n ≥ 2` and `−1/n ≤ α ≤ 1`.
-/
set_option linter.unusedSectionVars false
set_option linter.unusedVariables false

namespace NanoVerif.Ellipsoid
open NanoVerif.Bundle
variable {α : Type} [Field α] [LinearOrder α] [IsStrictOrderedRing α]

/-- `H` is an `n × n` list matrix whose bilinear form is symmetric -/
def WellH (n : Nat) (H : List (List α)) : Prop :=
  H.length = n ∧ (∀ r ∈ H, r.length = n) ∧
    ∀ u v : List α, u.length = n → v.length = n → dot u (mv H v) = dot v (mv H u)

theorem mv_length (H : List (List α)) (g : List α) : (mv H g).length = H.length := by simp [mv]

theorem dot_vaxpy_right (c : α) (x y r : List α) (h1 : x.length = y.length) (h2 : y.length = r.length) :
    dot r (vaxpy c x y) = c * dot r x + dot r y := by
  rw [dot_comm, dot_vaxpy_left c x y r h1 h2, dot_comm x r, dot_comm y r]

theorem mv_vaxpy (n : Nat) (c : α) (x y : List α) (hx : x.length = n) (hy : y.length = n) :
    ∀ (H : List (List α)), (∀ r ∈ H, r.length = n) → mv H (vaxpy c x y) = vaxpy c (mv H x) (mv H y)
  | [], _ => by simp [mv, vaxpy]
  | r :: H, h => by
    have hr : r.length = n := h r List.mem_cons_self
    have ih := mv_vaxpy n c x y hx hy H (fun r' hr' => h r' (List.mem_cons_of_mem _ hr'))
    simp only [mv, List.map_cons, vaxpy] at ih ⊢
    rw [ih, dot_vaxpy_right c x y r (by rw [hx, hy]) (by rw [hy, hr])]

/-- `quad H (c g + w) = c² gᵀHg + 2c wᵀHg + wᵀHw` for a symmetric `H` -/
theorem quad_vaxpy (n : Nat) (H : List (List α)) (hH : WellH n H) (c : α) (g w : List α) (hg : g.length = n)
    (hw : w.length = n) :
    quad H (vaxpy c g w) = c * c * quad H g + 2 * c * dot w (mv H g) + quad H w := by
  obtain ⟨hl, hrows, hsym⟩ := hH
  unfold quad
  rw [mv_vaxpy n c g w hg hw H hrows]
  have l1 : (mv H g).length = n := by rw [mv_length, hl]
  have l2 : (mv H w).length = n := by rw [mv_length, hl]
  rw [dot_vaxpy_left c g w _ (by rw [hg, hw]) (by rw [hw, vaxpy_length c _ _ (by rw [l1, l2]), l2])]
  rw [dot_vaxpy_right c _ _ g (by rw [l1, l2]) (by rw [l2, hg]),
    dot_vaxpy_right c _ _ w (by rw [l1, l2]) (by rw [l2, hw])]
  rw [hsym g w hg hw]
  ring

/-- `w·(z − x⁺) = w·(z − x) + (c/r) w·(Hg)` for `x⁺ = x − c (Hg)/r` (ellipsoid.cpp:66) -/
theorem dot_vsub_stepX (c r : α) : ∀ (w z x h : List α), w.length = z.length → z.length = x.length →
    x.length = h.length →
    dot w (vsub z (List.zipWith (fun xi hi => xi - c * hi / r) x h)) = dot w (vsub z x) + c / r * dot w h
  | [], [], [], [], _, _, _ => by simp [dot, vsub]
  | a :: w, b :: z, d :: x, e :: h, h1, h2, h3 => by
    simp only [dot, vsub, List.zipWith_cons_cons]
    rw [dot_vsub_stepX c r w z x h (by simpa using h1) (by simpa using h2) (by simpa using h3)]
    ring
  | [], _ :: _, _, _, h, _, _ => by simp at h
  | _ :: _, [], _, _, h, _, _ => by simp at h
  | _, [], _ :: _, _, _, h, _ => by simp at h
  | _, _ :: _, [], _, _, h, _ => by simp at h
  | _, _, [], _ :: _, _, _, h => by simp at h
  | _, _, _ :: _, [], _, _, h => by simp at h

/-- one row of `H⁺` against a vector (ellipsoid.cpp:67-68) -/
theorem dot_row_stepH (c1 c2 hgi gHg : α) : ∀ (row gH v : List α), row.length = gH.length → gH.length = v.length →
    dot (List.zipWith (fun hij ghj => c1 * (hij - c2 * (hgi * ghj) / gHg)) row gH) v =
      c1 * (dot row v - c2 * hgi / gHg * dot gH v)
  | [], [], [], _, _ => by simp [dot]
  | a :: row, b :: gH, d :: v, h1, h2 => by
    simp only [dot, List.zipWith_cons_cons]
    rw [dot_row_stepH c1 c2 hgi gHg row gH v (by simpa using h1) (by simpa using h2)]
    ring
  | [], _ :: _, _, h, _ => by simp at h
  | _ :: _, [], _, h, _ => by simp at h
  | _, [], _ :: _, _, h => by simp at h
  | _, _ :: _, [], _, h => by simp at h

/-- the bilinear form of `H⁺ = c1 (H − c2 (Hg)(gᵀH)/gHg)` -/
theorem dot_mv_stepH (m : Nat) (c1 c2 gHg : α) (gH v : List α) (hgH : gH.length = m) (hv : v.length = m) :
    ∀ (u : List α) (H : List (List α)) (Hg : List α), u.length = H.length → H.length = Hg.length →
      (∀ r ∈ H, r.length = m) →
      dot u (mv (List.zipWith (fun row hgi => List.zipWith (fun hij ghj => c1 * (hij - c2 * (hgi * ghj) / gHg)) row gH)
        H Hg) v) = c1 * (dot u (mv H v) - c2 / gHg * dot u Hg * dot gH v)
  | [], [], [], _, _, _ => by simp [dot, mv]
  | a :: u, r :: H, e :: Hg, h1, h2, h3 => by
    have hr : r.length = m := h3 r List.mem_cons_self
    have ih := dot_mv_stepH m c1 c2 gHg gH v hgH hv u H Hg (by simpa using h1) (by simpa using h2)
      (fun r' hr' => h3 r' (List.mem_cons_of_mem _ hr'))
    simp only [mv, List.map_cons, List.zipWith_cons_cons, dot] at ih ⊢
    rw [ih, dot_row_stepH c1 c2 e gHg r gH v (by rw [hr, hgH]) (by rw [hgH, hv])]
    ring
  | [], _ :: _, _, h, _, _ => by simp at h
  | _ :: _, [], _, h, _, _ => by simp at h
  | _, [], _ :: _, _, h, _ => by simp at h
  | _, _ :: _, [], _, h, _ => by simp at h

theorem stepH_rows (m : Nat) (c1 c2 gHg : α) (gH : List α) (hgH : gH.length = m) :
    ∀ (H : List (List α)) (Hg : List α), (∀ r ∈ H, r.length = m) →
      ∀ r' ∈ List.zipWith (fun row hgi => List.zipWith (fun hij ghj => c1 * (hij - c2 * (hgi * ghj) / gHg)) row gH) H Hg,
        r'.length = m
  | [], _, _ => by simp
  | _ :: _, [], _ => by simp
  | r :: H, e :: Hg, h => by
    intro r' hr'
    simp only [List.zipWith_cons_cons, List.mem_cons] at hr'
    rcases hr' with rfl | hr'
    · simp [h r List.mem_cons_self, hgH]
    · exact stepH_rows m c1 c2 gHg gH hgH H Hg (fun r'' h'' => h r'' (List.mem_cons_of_mem _ h'')) r' hr'

/-- `gᵀH · v = v · (H g)` for a symmetric `H` -/
theorem dot_vm_sym (n : Nat) (H : List (List α)) (hH : WellH n H) (g v : List α) (hg : g.length = n) (hv : v.length = n) :
    dot (vm n g H) v = dot v (mv H g) := by
  rw [← vm_adjoint n v hv g H hH.2.1, hH.2.2 g v hg hv]

/-- the update keeps `H` a symmetric `n × n` matrix -/
theorem stepH_wellH (n : Nat) (nn al : α) (H : List (List α)) (hH : WellH n H) (g : List α) (hg : g.length = n) :
    WellH n (stepH nn H (mv H g) (vm n g H) al (quad H g)) := by
  obtain ⟨hl, hrows, hsym⟩ := hH
  have hgH : (vm n g H).length = n := vm_length n g H hrows
  have hHg : (mv H g).length = n := by rw [mv_length, hl]
  unfold stepH
  simp only
  refine ⟨by simp [hl, hHg], stepH_rows n _ _ _ _ hgH H _ hrows, ?_⟩
  intro u v hu hv
  rw [dot_mv_stepH n _ _ _ _ v hgH hv u H _ (by rw [hu, hl]) (by rw [hl, hHg]) hrows,
    dot_mv_stepH n _ _ _ _ u hgH hu v H _ (by rw [hv, hl]) (by rw [hl, hHg]) hrows,
    dot_vm_sym n H ⟨hl, hrows, hsym⟩ g v hg hv, dot_vm_sym n H ⟨hl, hrows, hsym⟩ g u hg hu, hsym u v hu hv]
  ring

theorem stepX_length (nn al gHg : α) [Sqrt α] (x Hg : List α) (h : x.length = Hg.length) :
    (stepX nn x Hg al gHg).length = x.length := by
  simp [stepX, h]

/-- THE LÖWNER–JOHN STEP (ellipsoid.cpp:64-68): for `dim ≥ 2`, a symmetric `H` with `gᵀHg > 0`, `−1/n ≤ α ≤ 1`, every
    `z ∈ E(x, H)` on the side `g·(z − x) ≤ −α √(gᵀHg)` of the cut lies in `E(x⁺, H⁺)` -/
theorem stepND_contains [Sqrt α] (hsqrt : ∀ v : α, 0 ≤ v → 0 ≤ Sqrt.sqrt v ∧ Sqrt.sqrt v * Sqrt.sqrt v = v)
    (dim : Nat) (hdim : 2 ≤ dim) (x g z : List α) (H : List (List α)) (al : α) (hx : x.length = dim)
    (hg : g.length = dim) (hz : z.length = dim) (hH : WellH dim H) (hpos : 0 < quad H g) (hin : InE dim x H z)
    (hlo : -1 ≤ (dim : α) * al) (hhi : al ≤ 1) (hcut : dot g (vsub z x) ≤ -al * Sqrt.sqrt (quad H g)) :
    InE dim (stepX (dim : α) x (mv H g) al (quad H g)) (stepH (dim : α) H (mv H g) (vm dim g H) al (quad H g)) z := by
  obtain ⟨hr0', hrr⟩ := hsqrt _ hpos.le
  have hr0 : 0 < Sqrt.sqrt (quad H g) := by
    rcases hr0'.eq_or_lt with h0 | h0
    · rw [← h0] at hrr; simp at hrr; linarith
    · exact h0
  have hl := hH.1
  have hrows := hH.2.1
  have hgH : (vm dim g H).length = dim := vm_length dim g H hrows
  have hHg : (mv H g).length = dim := by rw [mv_length, hl]
  have hd : (vsub z x).length = dim := by rw [vsub_length z x (by rw [hz, hx]), hx]
  have hn : (1 : α) < (dim : α) := by
    have : (1 : ℕ) < dim := by omega
    exact_mod_cast this
  intro w hw
  -- the four numbers
  have hb1 : dot g (vsub z x) / Sqrt.sqrt (quad H g) * (dot g (vsub z x) / Sqrt.sqrt (quad H g)) ≤ 1 := by
    have h1 := hin g hg
    rw [div_mul_div_comm, hrr]
    exact (div_le_one hpos).mpr h1
  have hbcut : dot g (vsub z x) / Sqrt.sqrt (quad H g) ≤ -al := by
    rw [div_le_iff₀ hr0]; exact hcut
  have hfam : ∀ μ : α, (dot w (vsub z x) + μ * (dot g (vsub z x) / Sqrt.sqrt (quad H g))) *
      (dot w (vsub z x) + μ * (dot g (vsub z x) / Sqrt.sqrt (quad H g))) ≤
      quad H w + 2 * μ * (dot w (mv H g) / Sqrt.sqrt (quad H g)) + μ * μ := by
    intro μ
    have h1 := hin (vaxpy (μ / Sqrt.sqrt (quad H g)) g w) (by rw [vaxpy_length _ g w (by rw [hg, hw]), hw])
    rw [dot_vaxpy_left _ g w _ (by rw [hg, hw]) (by rw [hw, hd]), quad_vaxpy dim H hH _ g w hg hw] at h1
    have e1 : μ / Sqrt.sqrt (quad H g) * (μ / Sqrt.sqrt (quad H g)) * quad H g = μ * μ := by
      rw [div_mul_div_comm, hrr]; exact div_mul_cancel₀ _ hpos.ne'
    rw [e1] at h1
    have e2 : μ / Sqrt.sqrt (quad H g) * dot g (vsub z x) + dot w (vsub z x) =
        dot w (vsub z x) + μ * (dot g (vsub z x) / Sqrt.sqrt (quad H g)) := by ring
    have e3 : 2 * (μ / Sqrt.sqrt (quad H g)) * dot w (mv H g) = 2 * μ * (dot w (mv H g) / Sqrt.sqrt (quad H g)) := by
      ring
    rw [e2, e3] at h1
    linarith
  have key := lj_scalar (dim : α) al _ _ _ _ hn hlo hhi hb1 hbcut hfam
  -- the two sides of the goal
  unfold stepX stepH
  simp only
  rw [dot_vsub_stepX _ _ w z x (mv H g) (by rw [hw, hz]) (by rw [hz, hx]) (by rw [hx, hHg])]
  unfold quad
  rw [dot_mv_stepH dim _ _ _ _ w hgH hw w H _ (by rw [hw, hl]) (by rw [hl, hHg]) hrows,
    dot_vm_sym dim H hH g w hg hw]
  have e4 : dot w (vsub z x) + (1 + (dim : α) * al) / ((dim : α) + 1) / Sqrt.sqrt (quad H g) * dot w (mv H g) =
      dot w (vsub z x) + (1 + (dim : α) * al) / ((dim : α) + 1) * (dot w (mv H g) / Sqrt.sqrt (quad H g)) := by ring
  have e5 : 2 * (1 + (dim : α) * al) / ((dim : α) + 1) / (1 + al) / dot g (mv H g) * dot w (mv H g) * dot w (mv H g) =
      2 * (1 + (dim : α) * al) / ((dim : α) + 1) / (1 + al) *
        (dot w (mv H g) / Sqrt.sqrt (quad H g) * (dot w (mv H g) / Sqrt.sqrt (quad H g))) := by
    rw [div_mul_div_comm, hrr]; unfold quad; ring
  simp only [quad] at e4 e5 key ⊢
  rw [e4, e5]
  exact key

end NanoVerif.Ellipsoid
