import NanoVerif.Proofs.SolverStep
import NanoVerif.Proofs.SolverStepLoop
import NanoVerif.Props.C07
/-!
  C01 — `lsearch_t::get = lsearch0 ∘ lsearchk` in exact arithmetic, on top of the C07 theorems about `lsearchk_t::get`
  (imported, not copied): a success leaves the evaluation of `f` at `x + t d` with `t > 0` the step stored in the object; a
  non-descent direction is refused with the state untouched — but the strategy's members ARE updated and the refused initial
  step IS stored as the last step size.
-/
namespace NanoVerif.SolverStep
open NanoVerif.Gen.DoneLogic NanoVerif.Solver
set_option linter.unusedSectionVars false

variable {α : Type} [Field α] [LinearOrder α] [IsStrictOrderedRing α]

/-- the registered domains of the `lsearchk` parameters as the C07 theorems need them (`PosDomain`, `CgDom` of C07;
    `c2 < 1` and `1 ≤ max_iterations` from lsearchk.cpp:14-15) -/
structure LkDom (cfg : LSearch.Cfg α) : Prop where
  pos : LSearch.PosDomain cfg
  cg : LSearch.CgDom cfg
  c2 : cfg.c2 < 1
  maxIter : 0 < cfg.maxIter

theorem axpy_zero : ∀ (x d : Vec α), d.length = x.length → axpy x 0 d = x
  | [], [], _ => rfl
  | [], _ :: _, h => by simp at h
  | _ :: _, [], h => by simp at h
  | a :: x, b :: d, h => by
    have ih := axpy_zero x d (by simpa using h)
    simp only [axpy, zero_mul, add_zero] at ih ⊢
    simp only [List.zipWith_cons_cons, ih]

/-- the line function answers the slope of the origin at step `0` (the consistency C07 asks of an oracle for the positivity of
    the Moré–Thuente and CG_DESCENT steps) -/
theorem lineEval_zero (env : Env α) (f : Objective α) (c : State α) (d : Vec α) (hc : Consistent f c)
    (hlen : d.length = c.x.length) : (lineEval env f c d 0).g = (entryEval env c d).g := by
  simp only [lineEval, evalAt, entryEval, axpy_zero c.x d hlen, hc.2]

/-- `lsearchk_t::get` on the line function of `f`: a success returns a POSITIVE step `t`, and the state left is the evaluation
    of `f` at `x + t d` (all five searches, every initial step — non-positive and "non-finite" included).
    `hlen` (direction and point have the same dimension — what Eigen asserts) is needed for Moré–Thuente and CG_DESCENT only: both
    can evaluate at step `0`, and `x + 0·d = x` is what makes the line function answer the slope of the origin there. -/
theorem lkOfModel_success (env : Env α) (m : LSearch.Method) (cfg : LSearch.Cfg α) (f : Objective α) (c : State α)
    (d : Vec α) (t0 : α) (hd : LkDom cfg) (hc : Consistent f c)
    (hlen : (m = .morethuente ∨ m = .cgdescent) → d.length = c.x.length)
    (hok : (lkOfModel env m cfg f c d t0).ok = true) :
    0 < (lkOfModel env m cfg f c d t0).t ∧
    (lkOfModel env m cfg f c d t0).state.x = axpy c.x (lkOfModel env m cfg f c d t0).t d ∧
    (lkOfModel env m cfg f c d t0).state.fx = (f (axpy c.x (lkOfModel env m cfg f c d t0).t d)).1 ∧
    (lkOfModel env m cfg f c d t0).state.gx = (f (axpy c.x (lkOfModel env m cfg f c d t0).t d)).2 := by
  have hok' : (LSearch.get m cfg (fun _ t => lineEval env f c d t) (entryEval env c d) t0).ok = true := hok
  obtain ⟨rest, htr, _⟩ := LSearch.success_state_is_last_answer m cfg _ _ t0 hd.maxIter hok'
  have hφ : (m = .morethuente ∨ m = .cgdescent) →
      ∀ k : Nat, ((fun (_ : Nat) t => lineEval env f c d t) k 0).g = (entryEval env c d).g :=
    fun hm _ => lineEval_zero env f c d hc (hlen hm)
  have hpos : 0 < (LSearch.get m cfg (fun _ t => lineEval env f c d t) (entryEval env c d) t0).t := by
    cases m
    · exact LSearch.success_step_positive _ (Or.inl rfl) cfg _ _ t0 hd.pos hok'
    · exact LSearch.success_step_positive _ (Or.inr (Or.inl rfl)) cfg _ _ t0 hd.pos hok'
    · exact LSearch.success_step_positive _ (Or.inr (Or.inr rfl)) cfg _ _ t0 hd.pos hok'
    · exact LSearch.morethuente_success_step_positive cfg _ _ t0 hd.pos.macheps hd.c2 hd.maxIter (hφ (Or.inl rfl)) hok'
    · exact LSearch.cgdescent_success_step_positive cfg _ _ t0 hd.cg hd.pos.macheps hd.c2 hd.maxIter (hφ (Or.inr rfl)) hok'
  refine ⟨hpos, ?_⟩
  simp only [lkOfModel, htr]
  exact ⟨rfl, rfl, rfl⟩

/-- `lsearchk_t::get` along a non-descent direction: failure, the initial step handed back, the state untouched -/
theorem lkOfModel_nondescent (env : Env α) (m : LSearch.Method) (cfg : LSearch.Cfg α) (f : Objective α) (c : State α)
    (d : Vec α) (t0 : α) (h : ¬ vdot c.gx d < 0) : lkOfModel env m cfg f c d t0 = ⟨false, t0, c⟩ := by
  have := LSearch.nondescent_refused m cfg (fun _ t => lineEval env f c d t) (entryEval env c d) t0 h
  simp only [lkOfModel, this]

/-- `lsearch_t::get`, success: the step stored in the object is positive and the state left is the evaluation of `f` at
    `x + t d` — for every strategy (whatever step it proposes), every search, every parameter value in the domains, every
    object state (i.e. every history of earlier calls) -/
theorem lsearchGetM_success (env : Env α) (st : Strategy) (P : Params α) (m : LSearch.Method) (cfg : LSearch.Cfg α)
    (f : Objective α) (o : Obj α) (c : State α) (d : Vec α) (hd : LkDom cfg) (hc : Consistent f c)
    (hlen : (m = .morethuente ∨ m = .cgdescent) → d.length = c.x.length)
    (hok : (lsearchGetM env st P m cfg f o c d).ok = true) :
    let out := lsearchGetM env st P m cfg f o c d
    0 < out.obj.last ∧ out.state.x = axpy c.x out.obj.last d ∧
    out.state.fx = (f (axpy c.x out.obj.last d)).1 ∧ out.state.gx = (f (axpy c.x out.obj.last d)).2 :=
  lkOfModel_success env m cfg f { c with fcalls := c.fcalls + _ } d _ hd hc hlen hok

/-- `lsearch_t::get` along a non-descent direction: failure and the state untouched (up to the value counter, which CG_DESCENT's
    strategy has moved), BUT the initial step the strategy proposed is stored as `m_last_step_size` and the strategy's members
    have been overwritten with this call's `fx`, `dg ≥ 0` — see `quadratic_negative_step_after_refusal` for what a second call
    then does -/
theorem lsearchGetM_nondescent (env : Env α) (st : Strategy) (P : Params α) (m : LSearch.Method) (cfg : LSearch.Cfg α)
    (f : Objective α) (o : Obj α) (c : State α) (d : Vec α) (h : ¬ vdot c.gx d < 0) :
    let r0 := l0get st P (fun x => (f x).1) o.mem c d o.last
    lsearchGetM env st P m cfg f o c d = ⟨{ c with fcalls := c.fcalls + r0.extra }, false, ⟨r0.t0, r0.mem⟩, r0.t0⟩ := by
  intro r0
  have e := lkOfModel_nondescent env m cfg f { c with fcalls := c.fcalls + r0.extra } d r0.t0 h
  simp only [lsearchGetM, lsearchGet]
  rw [e]

/-- the members `lsearch0_t::get` leaves in the object are `memAfter` on this call's scalars, whatever the search does -/
theorem lsearchGetM_mem (env : Env α) (st : Strategy) (P : Params α) (m : LSearch.Method) (cfg : LSearch.Cfg α)
    (f : Objective α) (o : Obj α) (c : State α) (d : Vec α) :
    (lsearchGetM env st P m cfg f o c d).obj.mem = memAfter st o.mem (scalOf st P (fun x => (f x).1) c d o.last) := rfl

/-- the initial step handed to `lsearchk_t::get` is the strategy's formula on the object's members and last step -/
theorem lsearchGetM_t0 (env : Env α) (st : Strategy) (P : Params α) (m : LSearch.Method) (cfg : LSearch.Cfg α)
    (f : Objective α) (o : Obj α) (c : State α) (d : Vec α) :
    (lsearchGetM env st P m cfg f o c d).t0 = t0Of st P o.mem (scalOf st P (fun x => (f x).1) c d o.last) := rfl

/-- what is true of the `lsearch_t` object at every call inside a solver run (`objects_of_run_inv`): it has never been used
    (`m_last_step_size = -1`), or its last step is positive and — the only member a positivity proof reads — the quadratic
    strategy's `m_prevdg` is negative -/
def ObjInv (st : Strategy) (o : Obj α) : Prop :=
  o.last < 0 ∨ (0 < o.last ∧ (st = .quadratic → o.mem.prevdg < 0))

theorem objInv_init (st : Strategy) : ObjInv st (Obj.init : Obj α) := Or.inl (by simp [Obj.init])

/-- in a run of the solvers every call is made along a descent direction on an object whose previous calls all succeeded
    along descent directions; then the initial step is positive: constant always, linear because `dg < 0` now, quadratic because
    `m_prevdg < 0` (first call: `1`), CG_DESCENT because the last step is positive or it is the first call at a point with
    `g ≠ 0` -/
theorem t0_pos_in_run (st : Strategy) (P : Params α) (fval : Vec α → α) (o : Obj α) (c : State α) (d : Vec α) (hd : Dom P)
    (hdg : vdot c.gx d < 0) (hprev : ObjInv st o) :
    0 < (l0get st P fval o.mem c d o.last).t0 := by
  have hne : ∃ a ∈ c.gx, a ≠ 0 := by
    by_contra hcon
    rw [vdot_zero_of_all_zero c.gx d hcon] at hdg
    exact lt_irrefl _ hdg
  simp only [l0get]
  cases st
  · exact hd.constT0
  · exact (linear_pos P o.mem _ hd hdg).1
  · rcases hprev with h | ⟨_, h⟩
    · simp only [t0Of]; rw [quadratic_first P o.mem _ h]; exact one_pos
    · exact (quadratic_pos P o.mem _ hd (h rfl)).1
  · rcases hprev with h | ⟨h, _⟩
    · refine cg_first_pos P _ hd h ?_ (vdot_self_pos c.gx hne)
      obtain ⟨a, ha, hane⟩ := hne
      exact lt_of_lt_of_le (abs_pos.mpr hane) (le_infNorm c.gx a ha)
    · exact cg_next_pos P _ hd h

/-- a success of `lsearch_t::get` was along a descent direction (a non-descent direction is refused) -/
theorem lsearchGetM_ok_descent (env : Env α) (st : Strategy) (P : Params α) (m : LSearch.Method) (cfg : LSearch.Cfg α)
    (f : Objective α) (o : Obj α) (c : State α) (d : Vec α) (hok : (lsearchGetM env st P m cfg f o c d).ok = true) :
    vdot c.gx d < 0 := by
  by_contra h
  rw [lsearchGetM_nondescent env st P m cfg f o c d h] at hok
  exact absurd hok (by simp)

/-- the invariant is re-established by every successful call -/
theorem objInv_after_success (env : Env α) (st : Strategy) (P : Params α) (m : LSearch.Method) (cfg : LSearch.Cfg α)
    (f : Objective α) (o : Obj α) (c : State α) (d : Vec α) (hd : LkDom cfg) (hc : Consistent f c)
    (hlen : (m = .morethuente ∨ m = .cgdescent) → d.length = c.x.length)
    (hok : (lsearchGetM env st P m cfg f o c d).ok = true) :
    ObjInv st (lsearchGetM env st P m cfg f o c d).obj := by
  refine Or.inr ⟨(lsearchGetM_success env st P m cfg f o c d hd hc hlen hok).1, ?_⟩
  rintro rfl
  exact lsearchGetM_ok_descent env _ P m cfg f o c d hok

/-- EVERY object on which a call is made during a run of a line-search solver (any direction rule, any strategy, any objective,
    any budget; backtracking / LeMaréchal / Fletcher unconditionally, Moré–Thuente / CG_DESCENT when gradient and direction have the
    dimension of the point — which holds for gd with any memory, and for the other rules is the invariant Eigen asserts)
    satisfies `ObjInv`: the loop only continues
    after a successful search, and a successful search leaves a positive last step and (quadratic) a negative `m_prevdg` -/
theorem objects_of_run_inv {M : Type} (env : Env α) (rule : Rule α M) (st : Strategy) (P : Params α) (m : LSearch.Method)
    (cfg : LSearch.Cfg α) (f : Objective α) (eps : α) (maxEvals : Nat) (hd : LkDom cfg)
    (hdir : (m = .morethuente ∨ m = .cgdescent) →
      (∀ x, (f x).2.length = x.length) ∧ ∀ mem p c, c.gx.length = c.x.length → (rule.direction mem p c).1.length = c.x.length) :
    ∀ (fuel : Nat) (mem : M) (o : Obj α) (p c : State α), ObjInv st o → Consistent f c →
      ∀ ob ∈ (lsLoopS env rule (lsearchGetM env st P m cfg f) eps maxEvals fuel mem o p c).2, ObjInv st ob := by
  intro fuel
  induction fuel with
  | zero => intro mem o p c _ _ ob hob; simp [lsLoopS] at hob
  | succ fuel ih =>
    intro mem o p c ho hc ob hob
    simp only [lsLoopS] at hob
    split at hob
    · split at hob
      · simp only [List.mem_singleton] at hob; rw [hob]; exact ho
      · rename_i hstop
        simp only [List.mem_cons] at hob
        rcases hob with rfl | hob
        · exact ho
        · have hstop' : (done env (lsearchGetM env st P m cfg f o c (rule.direction mem p c).1).state
              (lsearchGetM env st P m cfg f o c (rule.direction mem p c).1).ok
              (rule.conv (gradientTestS (lsearchGetM env st P m cfg f o c (rule.direction mem p c).1).state) eps)).2 = false := by
            simpa using hstop
          have hok := (done_go env _ _ _ hstop').2.1
          have hcons := ((lsearchGetM_contract env st P m cfg f) o c (rule.direction mem p c).1).1 hc
          exact ih _ _ c _ (objInv_after_success env st P m cfg f o c _ hd hc
            (fun hm => (hdir hm).2 mem p c (by rw [hc.2]; exact (hdir hm).1 _)) hok)
            (done_consistent env f _ _ _ hcons) ob hob
    · simp at hob

end NanoVerif.SolverStep
