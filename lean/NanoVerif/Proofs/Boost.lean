import NanoVerif.Model.Boost
import NanoVerif.Proofs.EarlyStopping
import Mathlib.Tactic.Ring
/-! C11 — helper lemmas for the round-loop skeleton and the prediction/averaging algebra of `Model/Boost.lean` -/
namespace NanoVerif.Boost
open NanoVerif.Gen.EarlyStopping NanoVerif.EarlyStopping

set_option linter.unusedSectionVars false

variable {L X α : Type} [Field α] [LinearOrder α] [IsStrictOrderedRing α]

/-! ### the loop, one kind of iteration at a time -/

theorem loop_noLearner (eps : α) (pat ntrain nvalid : Nat) (st : LoopSt L α) (rest : List (RoundEv L α)) :
    loop eps pat ntrain nvalid st (.noLearner :: rest) = st := by
  simp [loop, step]

theorem loop_scaleFail (eps : α) (pat ntrain nvalid : Nat) (st : LoopSt L α) (w : L) (rest : List (RoundEv L α)) :
    loop eps pat ntrain nvalid st (.scaleFail w :: rest) = { st with learners := st.learners ++ [w] } := by
  simp [loop, step]

theorem loop_fitted (eps : α) (pat ntrain nvalid : Nat) (st : LoopSt L α) (w : L) (t v : α) (rest : List (RoundEv L α)) :
    loop eps pat ntrain nvalid st (.fitted w t v :: rest) =
      if (done eps pat st.es { train := t, valid := v, n := (st.learners ++ [w]).length, ntrain := ntrain, nvalid := nvalid,
                               idx := (st.learners ++ [w]).length + 1 }).2 then
        { learners := st.learners ++ [w],
          es := (done eps pat st.es { train := t, valid := v, n := (st.learners ++ [w]).length, ntrain := ntrain,
                                      nvalid := nvalid, idx := (st.learners ++ [w]).length + 1 }).1 }
      else loop eps pat ntrain nvalid
        { learners := st.learners ++ [w],
          es := (done eps pat st.es { train := t, valid := v, n := (st.learners ++ [w]).length, ntrain := ntrain,
                                      nvalid := nvalid, idx := (st.learners ++ [w]).length + 1 }).1 } rest := by
  rfl

/-- invariant of the round loop: the recorded round never exceeds the number of learners, the learners only grow by
    what the iterations append, and (once some call was recorded) the recorded tensor is the one of the call made
    with exactly `round` learners -/
theorem loop_inv (eps : α) (pat ntrain nvalid : Nat) (evs : List (RoundEv L α)) :
    ∀ st : LoopSt L α, st.es.round ≤ st.learners.length →
      (loop eps pat ntrain nvalid st evs).es.round ≤ (loop eps pat ntrain nvalid st evs).learners.length ∧
      (∃ k, (loop eps pat ntrain nvalid st evs).learners = st.learners ++ (learnersOf evs).take k) ∧
      (st.es.snap = st.es.round + 1 → (loop eps pat ntrain nvalid st evs).es.snap = (loop eps pat ntrain nvalid st evs).es.round + 1) := by
  induction evs with
  | nil => intro st h; exact ⟨h, ⟨0, by simp [loop]⟩, fun x => x⟩
  | cons ev rest ih =>
    intro st h
    cases ev with
    | noLearner => rw [loop_noLearner]; exact ⟨h, ⟨0, by simp⟩, fun x => x⟩
    | scaleFail w =>
      rw [loop_scaleFail]
      refine ⟨?_, ⟨1, by simp [learnersOf]⟩, fun x => x⟩
      simp only [List.length_append, List.length_singleton]; omega
    | fitted w t v =>
      rw [loop_fitted]
      generalize hc : ({ train := t, valid := v, n := (st.learners ++ [w]).length, ntrain := ntrain, nvalid := nvalid,
                         idx := (st.learners ++ [w]).length + 1 } : Call α) = c
      have hcn : c.n = (st.learners ++ [w]).length := by rw [← hc]
      have hci : c.idx = (st.learners ++ [w]).length + 1 := by rw [← hc]
      have hround : (done eps pat st.es c).1.round ≤ (st.learners ++ [w]).length := by
        rcases done_state_cases eps pat st.es c with ⟨e, _⟩ | ⟨e, _⟩
        · rw [e]; simp only [List.length_append, List.length_singleton]; omega
        · rw [e]; show c.n ≤ _; rw [hcn]
      have hsnap : st.es.snap = st.es.round + 1 → (done eps pat st.es c).1.snap = (done eps pat st.es c).1.round + 1 := by
        intro hs
        rcases done_state_cases eps pat st.es c with ⟨e, _⟩ | ⟨e, _⟩
        · rw [e]; exact hs
        · rw [e]; show c.idx = c.n + 1; rw [hci, hcn]
      split
      · exact ⟨hround, ⟨1, by simp [learnersOf]⟩, hsnap⟩
      · obtain ⟨i1, ⟨k, i2⟩, i3⟩ := ih { learners := st.learners ++ [w], es := (done eps pat st.es c).1 } hround
        refine ⟨i1, ⟨k + 1, ?_⟩, fun hs => i3 (hsnap hs)⟩
        rw [i2]; simp [learnersOf]

/-- the three facts about the loop state when `::fit` reaches `result.done` -/
theorem fitLoop_inv (eps : α) (pat ntrain nvalid maxRounds : Nat) (vmax train0 valid0 : α) (evs : List (RoundEv L α)) :
    (fitLoop eps pat ntrain nvalid maxRounds vmax train0 valid0 evs).es.round ≤
      (fitLoop eps pat ntrain nvalid maxRounds vmax train0 valid0 evs).learners.length ∧
    (∃ k, (fitLoop eps pat ntrain nvalid maxRounds vmax train0 valid0 evs).learners =
      (learnersOf (evs.take maxRounds)).take k) ∧
    (valid0 < vmax - eps → (fitLoop eps pat ntrain nvalid maxRounds vmax train0 valid0 evs).es.snap =
      (fitLoop eps pat ntrain nvalid maxRounds vmax train0 valid0 evs).es.round + 1) := by
  unfold fitLoop
  dsimp only
  generalize hc : ({ train := train0, valid := valid0, n := 0, ntrain := ntrain, nvalid := nvalid, idx := 1 } : Call α) = c
  have hcn : c.n = 0 := by rw [← hc]
  have hci : c.idx = 1 := by rw [← hc]
  have hcv : c.valid = valid0 := by rw [← hc]
  have h0 : (done eps pat (init vmax) c).1.round ≤ ([] : List L).length := by
    rcases done_state_cases eps pat (init vmax) c with ⟨e, _⟩ | ⟨e, _⟩
    · rw [e]; exact Nat.le_refl _
    · rw [e]; show c.n ≤ 0; omega
  have hs : valid0 < vmax - eps → (done eps pat (init vmax) c).1.snap = (done eps pat (init vmax) c).1.round + 1 := by
    intro hv
    have : (done eps pat (init vmax) c).1 = record c :=
      done_state_of_improves eps pat _ c (Or.inr (Or.inl (by rw [hcv]; exact hv)))
    rw [this]; show c.idx = c.n + 1; omega
  split
  · exact ⟨h0, ⟨0, by simp⟩, hs⟩
  · obtain ⟨i1, ⟨k, i2⟩, i3⟩ := loop_inv eps pat ntrain nvalid (evs.take maxRounds)
      { learners := ([] : List L), es := (done eps pat (init vmax) c).1 } h0
    exact ⟨i1, ⟨k, by simpa using i2⟩, fun hv => i3 (hs hv)⟩

/-! ### the loop and the history of monitor calls it makes -/

theorem callsMade_fitted (eps : α) (pat ntrain nvalid : Nat) (st : LoopSt L α) (w : L) (t v : α) (rest : List (RoundEv L α)) :
    callsMade eps pat ntrain nvalid st (.fitted w t v :: rest) =
      ({ train := t, valid := v, n := (st.learners ++ [w]).length, ntrain := ntrain, nvalid := nvalid,
         idx := (st.learners ++ [w]).length + 1 } : Call α) ::
      (if (done eps pat st.es { train := t, valid := v, n := (st.learners ++ [w]).length, ntrain := ntrain, nvalid := nvalid, idx := (st.learners ++ [w]).length + 1 }).2 then []
       else callsMade eps pat ntrain nvalid
        { learners := st.learners ++ [w],
          es := (done eps pat st.es { train := t, valid := v, n := (st.learners ++ [w]).length, ntrain := ntrain, nvalid := nvalid, idx := (st.learners ++ [w]).length + 1 }).1 } rest) := by
  rfl

/-- the monitor after the loop is the monitor before it driven over the calls the loop made; the `j`-th of them
    (`j = 0, 1, …`) sees `|learners| + j + 1` learners, names its tensor one higher and carries the fold's sample counts;
    every call but the last one answered `false` -/
theorem loop_calls (eps : α) (pat ntrain nvalid : Nat) (evs : List (RoundEv L α)) :
    ∀ st : LoopSt L α,
      (loop eps pat ntrain nvalid st evs).es = stateAfter eps pat st.es (callsMade eps pat ntrain nvalid st evs) ∧
      (∀ pre c post, callsMade eps pat ntrain nvalid st evs = pre ++ c :: post →
        c.n = st.learners.length + pre.length + 1 ∧ c.idx = c.n + 1 ∧ c.ntrain = ntrain ∧ c.nvalid = nvalid ∧
        (post ≠ [] → (done eps pat (stateAfter eps pat st.es pre) c).2 = false)) := by
  induction evs with
  | nil => intro st; exact ⟨rfl, fun pre c post h => by simp [callsMade] at h⟩
  | cons ev rest ih =>
    intro st
    cases ev with
    | noLearner => rw [loop_noLearner]; exact ⟨rfl, fun pre c post h => by simp [callsMade] at h⟩
    | scaleFail w => rw [loop_scaleFail]; exact ⟨rfl, fun pre c post h => by simp [callsMade] at h⟩
    | fitted w t v =>
      rw [loop_fitted, callsMade_fitted]
      generalize hc : ({ train := t, valid := v, n := (st.learners ++ [w]).length, ntrain := ntrain, nvalid := nvalid,
                         idx := (st.learners ++ [w]).length + 1 } : Call α) = c
      have hcn : c.n = st.learners.length + 1 := by rw [← hc]; simp
      have hci : c.idx = c.n + 1 := by rw [← hc]
      have hct : c.ntrain = ntrain := by rw [← hc]
      have hcv : c.nvalid = nvalid := by rw [← hc]
      by_cases hd : (done eps pat st.es c).2 = true
      · rw [if_pos hd, if_pos hd]
        refine ⟨rfl, ?_⟩
        intro pre d post h
        rcases pre with _ | ⟨p, pre⟩
        · simp only [List.nil_append, List.cons.injEq] at h
          obtain ⟨h1, h2⟩ := h
          subst h1; subst h2
          exact ⟨by simpa using hcn, hci, hct, hcv, fun hne => absurd rfl hne⟩
        · simp at h
      · rw [if_neg hd, if_neg hd]
        obtain ⟨i1, i2⟩ := ih { learners := st.learners ++ [w], es := (done eps pat st.es c).1 }
        refine ⟨by rw [i1]; rfl, ?_⟩
        intro pre d post h
        rcases pre with _ | ⟨p, pre⟩
        · simp only [List.nil_append, List.cons.injEq] at h
          obtain ⟨h1, _⟩ := h
          subst h1
          exact ⟨by simpa using hcn, hci, hct, hcv, fun _ => by simpa [stateAfter] using hd⟩
        · simp only [List.cons_append, List.cons.injEq] at h
          obtain ⟨h1, h2⟩ := h
          subst h1
          obtain ⟨j1, j2, j3, j4, j5⟩ := i2 pre d post h2
          refine ⟨?_, j2, j3, j4, ?_⟩
          · rw [j1]; dsimp only; simp only [List.length_append, List.length_cons, List.length_nil]; omega
          · intro hne; exact j5 hne

/-- the monitor at `result.done` is a fresh monitor driven over `fitCalls`; these calls are numbered `0, 1, 2, …` by the
    learners they see (`FitNumbered`), and every call but the last one answered `false` -/
theorem fitLoop_calls (eps : α) (pat ntrain nvalid maxRounds : Nat) (vmax train0 valid0 : α) (evs : List (RoundEv L α)) :
    (fitLoop eps pat ntrain nvalid maxRounds vmax train0 valid0 evs).es =
      stateAfter eps pat (init vmax) (fitCalls eps pat ntrain nvalid maxRounds vmax train0 valid0 evs) ∧
    (∀ pre c post, fitCalls eps pat ntrain nvalid maxRounds vmax train0 valid0 evs = pre ++ c :: post →
      c.n = pre.length ∧ c.idx = c.n + 1 ∧ c.ntrain = ntrain ∧ c.nvalid = nvalid ∧
      (post ≠ [] → (done eps pat (stateAfter eps pat (init vmax) pre) c).2 = false)) := by
  unfold fitLoop fitCalls
  dsimp only
  generalize hc : ({ train := train0, valid := valid0, n := 0, ntrain := ntrain, nvalid := nvalid, idx := 1 } : Call α) = c
  have hcn : c.n = 0 := by rw [← hc]
  have hci : c.idx = c.n + 1 := by rw [← hc]
  have hct : c.ntrain = ntrain := by rw [← hc]
  have hcv : c.nvalid = nvalid := by rw [← hc]
  by_cases hd : (done eps pat (init vmax) c).2 = true
  · rw [if_pos hd, if_pos hd]
    refine ⟨rfl, ?_⟩
    intro pre d post h
    rcases pre with _ | ⟨p, pre⟩
    · simp only [List.nil_append, List.cons.injEq] at h
      obtain ⟨h1, h2⟩ := h
      subst h1; subst h2
      exact ⟨by simpa using hcn, hci, hct, hcv, fun hne => absurd rfl hne⟩
    · simp at h
  · rw [if_neg hd, if_neg hd]
    obtain ⟨i1, i2⟩ := loop_calls eps pat ntrain nvalid (evs.take maxRounds)
      { learners := ([] : List L), es := (done eps pat (init vmax) c).1 }
    refine ⟨by rw [i1]; rfl, ?_⟩
    intro pre d post h
    rcases pre with _ | ⟨p, pre⟩
    · simp only [List.nil_append, List.cons.injEq] at h
      obtain ⟨h1, _⟩ := h
      subst h1
      exact ⟨by simpa using hcn, hci, hct, hcv, fun _ => by simpa [stateAfter] using hd⟩
    · simp only [List.cons_append, List.cons.injEq] at h
      obtain ⟨h1, h2⟩ := h
      subst h1
      obtain ⟨j1, j2, j3, j4, j5⟩ := i2 pre d post h2
      refine ⟨?_, j2, j3, j4, ?_⟩
      · rw [j1]; simp
      · intro hne; exact j5 hne

/-! ### `loopTrace` is `loop` with its intermediate states -/

theorem loop_eq_loopTrace_last (eps : α) (pat ntrain nvalid : Nat) (evs : List (RoundEv L α)) :
    ∀ st : LoopSt L α, loop eps pat ntrain nvalid st evs =
      (((loopTrace eps pat ntrain nvalid st evs).getLast?).map (·.1)).getD st := by
  induction evs with
  | nil => intro st; rfl
  | cons ev rest ih =>
    intro st
    unfold loop loopTrace
    by_cases hd : (step eps pat ntrain nvalid st ev).2 = true
    · rw [if_pos hd, if_pos hd]; rfl
    · rw [if_neg hd, if_neg hd, ih]
      cases hl : loopTrace eps pat ntrain nvalid (step eps pat ntrain nvalid st ev).1 rest with
      | nil => simp
      | cons a l =>
        obtain ⟨x, hx⟩ : ∃ x, (a :: l).getLast? = some x := by
          cases h : (a :: l).getLast? with
          | none => simp at h
          | some x => exact ⟨x, rfl⟩
        simp [hx]

/-- every executed iteration but the last one did not leave the loop, and no more iterations are executed than events exist -/
theorem loopTrace_flags (eps : α) (pat ntrain nvalid : Nat) (evs : List (RoundEv L α)) :
    ∀ st : LoopSt L α, (loopTrace eps pat ntrain nvalid st evs).length ≤ evs.length ∧
      ∀ pre r post, loopTrace eps pat ntrain nvalid st evs = pre ++ r :: post → post ≠ [] → r.2 = false := by
  induction evs with
  | nil => intro st; exact ⟨Nat.le_refl _, fun pre r post h => by simp [loopTrace] at h⟩
  | cons ev rest ih =>
    intro st
    unfold loopTrace
    by_cases hd : (step eps pat ntrain nvalid st ev).2 = true
    · rw [if_pos hd]
      refine ⟨by simp, ?_⟩
      intro pre r post h hne
      rcases pre with _ | ⟨p, pre⟩
      · simp only [List.nil_append, List.cons.injEq] at h; exact absurd h.2.symm hne
      · simp at h
    · rw [if_neg hd]
      obtain ⟨i1, i2⟩ := ih (step eps pat ntrain nvalid st ev).1
      refine ⟨by simp only [List.length_cons]; omega, ?_⟩
      intro pre r post h hne
      rcases pre with _ | ⟨p, pre⟩
      · simp only [List.nil_append, List.cons.injEq] at h
        rw [← h.1]; simpa using hd
      · simp only [List.cons_append, List.cons.injEq] at h
        exact i2 pre r post h.2 hne

/-! ### the choice of the weak learner -/

/-- the scan over the prototypes from an accumulator `(b, ow)`: the result is the accumulator when no score is below `b`;
    otherwise it is the **first** candidate whose score is the minimum, and that score is below `b` -/
theorem pickBest_go (cands : List (α × L)) :
    ∀ (b : α) (ow : Option L),
      let r := cands.foldl (fun (b : α × Option L) c => if c.1 < b.1 then (c.1, some c.2) else b) (b, ow)
      (r = (b, ow) ∧ ∀ c ∈ cands, ¬ c.1 < b) ∨
      (∃ pre s w post, cands = pre ++ (s, w) :: post ∧ r = (s, some w) ∧ s < b ∧ (∀ c ∈ pre, s < c.1) ∧ ∀ c ∈ post, s ≤ c.1) := by
  induction cands with
  | nil => intro b ow; exact Or.inl ⟨rfl, by simp⟩
  | cons c cs ih =>
    intro b ow
    simp only [List.foldl_cons]
    by_cases hc : c.1 < b
    · rw [if_pos hc]
      rcases ih c.1 (some c.2) with ⟨e, hall⟩ | ⟨pre, s, w, post, e1, e2, h1, h2, h3⟩
      · exact Or.inr ⟨[], c.1, c.2, cs, rfl, e, hc, by simp, fun d hd => not_lt.mp (hall d hd)⟩
      · refine Or.inr ⟨c :: pre, s, w, post, by rw [e1]; rfl, e2, lt_trans h1 hc, ?_, h3⟩
        intro d hd
        rcases List.mem_cons.mp hd with hd | hd
        · rw [hd]; exact h1
        · exact h2 d hd
    · rw [if_neg hc]
      rcases ih b ow with ⟨e, hall⟩ | ⟨pre, s, w, post, e1, e2, h1, h2, h3⟩
      · refine Or.inl ⟨e, ?_⟩
        intro d hd
        rcases List.mem_cons.mp hd with hd | hd
        · rw [hd]; exact hc
        · exact hall d hd
      · refine Or.inr ⟨c :: pre, s, w, post, by rw [e1]; rfl, e2, h1, ?_, h3⟩
        intro d hd
        rcases List.mem_cons.mp hd with hd | hd
        · rw [hd]; exact lt_of_lt_of_le h1 (not_lt.mp hc)
        · exact h2 d hd

theorem foldl_add_eq (l : List α) (a : α) : l.foldl (· + ·) a = a + l.sum := by
  induction l generalizing a with
  | nil => simp
  | cons x xs ih => simp only [List.foldl_cons, List.sum_cons, ih]; ring

theorem predict_eq (bias : α) (ws : List (X → α)) (x : X) :
    predict bias ws x = bias + (ws.map (fun w => w x)).sum := by
  unfold predict
  induction ws generalizing bias with
  | nil => simp
  | cons w ws ih => simp only [List.foldl_cons, List.map_cons, List.sum_cons, ih]; ring

theorem sum_scale (d : α) (ws : List (X → α)) (x : X) :
    ((ws.map (scale d)).map (fun w => w x)).sum = d * (ws.map (fun w => w x)).sum := by
  induction ws with
  | nil => simp
  | cons w ws ih => simp only [List.map_cons, List.sum_cons, ih, scale]; ring

theorem foldl_bias_eq (folds : List (α × List (X → α))) (a : α) :
    folds.foldl (fun acc f => acc + f.1) a = a + (folds.map (·.1)).sum := by
  induction folds generalizing a with
  | nil => simp
  | cons f fs ih => simp only [List.foldl_cons, List.map_cons, List.sum_cons, ih]; ring

theorem sum_flatMap (folds : List (α × List (X → α))) (x : X) :
    ((folds.flatMap (·.2)).map (fun w => w x)).sum = (folds.map (fun f => (f.2.map (fun w => w x)).sum)).sum := by
  induction folds with
  | nil => simp
  | cons f fs ih => simp only [List.flatMap_cons, List.map_append, List.sum_append, List.map_cons, List.sum_cons, ih]

end NanoVerif.Boost
