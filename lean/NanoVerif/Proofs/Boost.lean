import NanoVerif.Model.Boost
import NanoVerif.Proofs.EarlyStopping
import Mathlib.Tactic.Ring
/-! C11 — helper lemmas for the round-loop skeleton and the prediction/averaging algebra of `Model/Boost.lean` -/
namespace NanoVerif.Boost
open NanoVerif.Gen.EarlyStopping NanoVerif.EarlyStopping

set_option linter.unusedSectionVars false

variable {L X α : Type} [Field α] [LinearOrder α] [IsStrictOrderedRing α]

/-- invariant of the round loop: the recorded round never exceeds the number of learners, the learners only grow by
    what the iterations append, and (once some call was recorded) the recorded tensor is the one of the call made
    with exactly `round` learners -/
theorem loop_inv (eps : α) (pat ntrain nvalid : Nat) (evs : List (RoundEv L α)) :
    ∀ st : LoopSt L α, st.es.round ≤ st.learners.length →
      (loop eps pat ntrain nvalid st evs).es.round ≤ (loop eps pat ntrain nvalid st evs).learners.length ∧
      (∃ k, (loop eps pat ntrain nvalid st evs).learners = st.learners ++ (learnersOf evs).take k) ∧
      (st.es.snap = st.es.round + 1 → (loop eps pat ntrain nvalid st evs).es.snap = (loop eps pat ntrain nvalid st evs).es.round + 1) := by
  induction evs with
  | nil => intro st h; exact ⟨h, ⟨0, by simp [loop]⟩, fun x => x⟩
  | cons ev rest ih =>
    intro st h
    cases ev with
    | noLearner => exact ⟨h, ⟨0, by simp [loop]⟩, fun x => x⟩
    | scaleFail w =>
      refine ⟨?_, ⟨1, by simp [loop, learnersOf]⟩, fun x => x⟩
      simp only [loop, List.length_append, List.length_singleton]; omega
    | fitted w t v =>
      simp only [loop]
      generalize hc : ({ train := t, valid := v, n := (st.learners ++ [w]).length, ntrain := ntrain, nvalid := nvalid,
                         idx := (st.learners ++ [w]).length + 1 } : Call α) = c
      have hcn : c.n = (st.learners ++ [w]).length := by rw [← hc]
      have hci : c.idx = (st.learners ++ [w]).length + 1 := by rw [← hc]
      have hround : (done eps pat st.es c).1.round ≤ (st.learners ++ [w]).length := by
        rcases done_state_cases eps pat st.es c with ⟨e, _⟩ | ⟨e, _⟩
        · rw [e]; simp only [List.length_append, List.length_singleton]; omega
        · rw [e]; show c.n ≤ _; rw [hcn]
      have hsnap : st.es.snap = st.es.round + 1 → (done eps pat st.es c).1.snap = (done eps pat st.es c).1.round + 1 := by
        intro hs
        rcases done_state_cases eps pat st.es c with ⟨e, _⟩ | ⟨e, _⟩
        · rw [e]; exact hs
        · rw [e]; show c.idx = c.n + 1; rw [hci, hcn]
      split
      · exact ⟨hround, ⟨1, by simp [learnersOf]⟩, hsnap⟩
      · obtain ⟨i1, ⟨k, i2⟩, i3⟩ := ih { learners := st.learners ++ [w], es := (done eps pat st.es c).1 } hround
        refine ⟨i1, ⟨k + 1, ?_⟩, fun hs => i3 (hsnap hs)⟩
        rw [i2]; simp [learnersOf]

/-- the three facts about the loop state when `::fit` reaches `result.done` -/
theorem fitLoop_inv (eps : α) (pat ntrain nvalid maxRounds : Nat) (vmax train0 valid0 : α) (evs : List (RoundEv L α)) :
    (fitLoop eps pat ntrain nvalid maxRounds vmax train0 valid0 evs).es.round ≤
      (fitLoop eps pat ntrain nvalid maxRounds vmax train0 valid0 evs).learners.length ∧
    (∃ k, (fitLoop eps pat ntrain nvalid maxRounds vmax train0 valid0 evs).learners =
      (learnersOf (evs.take maxRounds)).take k) ∧
    (valid0 < vmax - eps → (fitLoop eps pat ntrain nvalid maxRounds vmax train0 valid0 evs).es.snap =
      (fitLoop eps pat ntrain nvalid maxRounds vmax train0 valid0 evs).es.round + 1) := by
  unfold fitLoop
  dsimp only
  generalize hc : ({ train := train0, valid := valid0, n := 0, ntrain := ntrain, nvalid := nvalid, idx := 1 } : Call α) = c
  have hcn : c.n = 0 := by rw [← hc]
  have hci : c.idx = 1 := by rw [← hc]
  have hcv : c.valid = valid0 := by rw [← hc]
  have h0 : (done eps pat (init vmax) c).1.round ≤ ([] : List L).length := by
    rcases done_state_cases eps pat (init vmax) c with ⟨e, _⟩ | ⟨e, _⟩
    · rw [e]; exact Nat.le_refl _
    · rw [e]; show c.n ≤ 0; omega
  have hs : valid0 < vmax - eps → (done eps pat (init vmax) c).1.snap = (done eps pat (init vmax) c).1.round + 1 := by
    intro hv
    have : (done eps pat (init vmax) c).1 = record c :=
      done_state_of_improves eps pat _ c (Or.inr (Or.inl (by rw [hcv]; exact hv)))
    rw [this]; show c.idx = c.n + 1; omega
  split
  · exact ⟨h0, ⟨0, by simp⟩, hs⟩
  · obtain ⟨i1, ⟨k, i2⟩, i3⟩ := loop_inv eps pat ntrain nvalid (evs.take maxRounds)
      { learners := ([] : List L), es := (done eps pat (init vmax) c).1 } h0
    exact ⟨i1, ⟨k, by simpa using i2⟩, fun hv => i3 (hs hv)⟩

theorem foldl_add_eq (l : List α) (a : α) : l.foldl (· + ·) a = a + l.sum := by
  induction l generalizing a with
  | nil => simp
  | cons x xs ih => simp only [List.foldl_cons, List.sum_cons, ih]; ring

theorem predict_eq (bias : α) (ws : List (X → α)) (x : X) :
    predict bias ws x = bias + (ws.map (fun w => w x)).sum := by
  unfold predict
  induction ws generalizing bias with
  | nil => simp
  | cons w ws ih => simp only [List.foldl_cons, List.map_cons, List.sum_cons, ih]; ring

theorem sum_scale (d : α) (ws : List (X → α)) (x : X) :
    ((ws.map (scale d)).map (fun w => w x)).sum = d * (ws.map (fun w => w x)).sum := by
  induction ws with
  | nil => simp
  | cons w ws ih => simp only [List.map_cons, List.sum_cons, ih, scale]; ring

theorem foldl_bias_eq (folds : List (α × List (X → α))) (a : α) :
    folds.foldl (fun acc f => acc + f.1) a = a + (folds.map (·.1)).sum := by
  induction folds generalizing a with
  | nil => simp
  | cons f fs ih => simp only [List.foldl_cons, List.map_cons, List.sum_cons, ih]; ring

theorem sum_flatMap (folds : List (α × List (X → α))) (x : X) :
    ((folds.flatMap (·.2)).map (fun w => w x)).sum = (folds.map (fun f => (f.2.map (fun w => w x)).sum)).sum := by
  induction folds with
  | nil => simp
  | cons f fs ih => simp only [List.flatMap_cons, List.map_append, List.sum_append, List.map_cons, List.sum_cons, ih]

end NanoVerif.Boost
