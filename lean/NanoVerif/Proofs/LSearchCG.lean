import NanoVerif.Proofs.LSearch
/-!
  C07 — helper lemmas, CG_DESCENT: what a `return {state.valid(), interval.step_size}` of `lsearchk_cgdescent_t::do_get`
  with a valid state implies.

  `interval_t::done` (cgdescent.cpp:48-72) answers `true` in three ways:
    (i)   `bracketed && (a.f > f0 + epsilon_k || b.g < 0)`   "bracketing failed or diverged"  — or the state is invalid,
    (ii)  `a.t <= step_size <= b.t` and Armijo + Wolfe,
    (iii) `a.t <= step_size <= b.t` and approximate Armijo + approximate Wolfe.
  The lemmas below carry an invariant through `bracket`, `update`, `updateU`, `move_update_and_check_done` and the main loop:
    * `a.f <= f0 + epsilon_k`, `a.g < 0`, `0 <= a.t`, `0 < b.t`, `a` and `b` are the origin or evaluated trial points,
    * every decrement of the shared budget `params.m_max_iterations` is paid for by one evaluation,
    * at every call of `done(bracketed = true)`: the state is invalid, or `b.g >= 0`, or the shared budget is exhausted,
      or the interval has collapsed below `stpmin()` — and in the last two cases the current trial step is positive.
  Hence (i) with a valid state can only happen with `b.g < 0` and (budget exhausted or interval collapsed): `CgBracketFailed`.
-/
namespace NanoVerif.LSearch
open NanoVerif.Gen.LsPredicates

set_option linter.unusedSectionVars false

variable {α : Type} [Field α] [LinearOrder α] [IsStrictOrderedRing α]

/-- the parameter domains the lemmas use (registered domains: `0 < epsilon`, `1 < ro`, `0 < theta < 1`) -/
structure CgDom (cfg : Cfg α) : Prop where
  eps : 0 ≤ cfg.cgEpsilon
  ro : 0 < cfg.cgRo
  theta0 : 0 < cfg.cgTheta
  theta1 : cfg.cgTheta < 1

/-- `s` is a trial point that was evaluated: its step is in the trace and its value and slope are the oracle's answer to
    that request -/
def Evald (φ : Oracle α) (ctx : Ctx α) (s : Step α) : Prop :=
  ∃ pre post, ctx.trace = pre ++ s.t :: post ∧ s.f = (φ post.length s.t).f ∧ s.g = (φ post.length s.t).g

/-- the origin `(0, f0, g0)` or an evaluated trial point -/
def CgPoint (φ : Oracle α) (s0 : Eval α) (ctx : Ctx α) (s : Step α) : Prop :=
  s = ⟨0, s0.f, s0.g⟩ ∨ Evald φ ctx s

theorem evald_ask {φ : Oracle α} {ctx : Ctx α} {s : Step α} (t : α) (h : Evald φ ctx s) : Evald φ (ask φ ctx t) s := by
  obtain ⟨pre, post, h1, h2, h3⟩ := h
  exact ⟨t :: pre, post, by simp [ask, h1], h2, h3⟩

theorem cgPoint_ask {φ : Oracle α} {s0 : Eval α} {ctx : Ctx α} {s : Step α} (t : α) (h : CgPoint φ s0 ctx s) :
    CgPoint φ s0 (ask φ ctx t) s := by
  rcases h with h | h
  · exact Or.inl h
  · exact Or.inr (evald_ask t h)

theorem evald_stepOf {φ : Oracle α} {ctx : Ctx α} {t : α} (h : Cons φ ctx t) : Evald φ ctx (stepOf ctx t) := by
  obtain ⟨rest, h1, h2⟩ := h
  exact ⟨[], rest, by simp [stepOf, h1], by simp [stepOf, h2], by simp [stepOf, h2]⟩

/-- Wolfe exit -/
def CgWolfe (cfg : Cfg α) (s0 : Eval α) (r : Res α) : Prop :=
  hasArmijo s0.f s0.g r.ctx.cur.f r.t cfg.c1 = true ∧ hasWolfe s0.g r.ctx.cur.g cfg.c2 = true

/-- approximate Wolfe exit, `epsilon_k = lsearchk::cgdescent::epsilon · |f0|` -/
def CgApprox (cfg : Cfg α) (s0 : Eval α) (r : Res α) : Prop :=
  hasApproxArmijo s0.f r.ctx.cur.f (cfg.cgEpsilon * absv s0.f) = true ∧
    hasApproxWolfe s0.g r.ctx.cur.g cfg.c1 cfg.c2 = true

/-- "bracketing failed" exit with a valid state: the upper end `b` of the interval is an evaluated point that still has a
    negative slope, and either at least `K` evaluations were made (`K` = evaluations before `do_get` + `max_iterations`:
    the shared budget is exhausted) or the interval `[a, b]` is not wider than `stpmin()`.
    Nothing was tested on the returned state. -/
def CgBracketFailed (cfg : Cfg α) (φ : Oracle α) (s0 : Eval α) (K : Nat) (r : Res α) : Prop :=
  ∃ a b : Step α, CgPoint φ s0 r.ctx a ∧ CgPoint φ s0 r.ctx b ∧ b.g < 0 ∧
    (K ≤ r.ctx.trace.length ∨ b.t - a.t ≤ stpmin cfg.macheps)

/-- what a success of CG_DESCENT guarantees: a valid state; one of the three exits; a positive step unless the step is `0`
    and the Wolfe inequality `g ≥ c2·g0` holds of the answer at `0` -/
def CgQ (cfg : Cfg α) (φ : Oracle α) (s0 : Eval α) (K : Nat) (r : Res α) : Prop :=
  r.ctx.cur.ok = true ∧
  (CgWolfe cfg s0 r ∨ CgApprox cfg s0 r ∨ CgBracketFailed cfg φ s0 K r) ∧
  (0 < r.t ∨ (r.t = 0 ∧ hasWolfe s0.g r.ctx.cur.g cfg.c2 = true))

/-- the invariant of the interval, the shared budget and the state -/
structure CgInv (φ : Oracle α) (s0 : Eval α) (epsk : α) (K : Nat) (s : CGS α) : Prop where
  budget : K ≤ s.ctx.trace.length + s.m
  cons : Cons φ s.ctx s.iv.t
  a_pt : CgPoint φ s0 s.ctx s.iv.a
  b_pt : CgPoint φ s0 s.ctx s.iv.b
  a_f : s.iv.a.f ≤ s0.f + epsk
  a_g : s.iv.a.g < 0
  a_t : 0 ≤ s.iv.a.t
  b_t : 0 < s.iv.b.t

/-- what holds whenever `done(bracketed = true)` is called -/
def CgG (cfg : Cfg α) (s : CGS α) : Prop :=
  s.ctx.cur.ok = false ∨ 0 ≤ s.iv.b.g ∨ ((s.m = 0 ∨ s.iv.b.t - s.iv.a.t ≤ stpmin cfg.macheps) ∧ 0 < s.iv.t)

def CgOK (cfg : Cfg α) (φ : Oracle α) (s0 : Eval α) (epsk : α) (K : Nat) (s : CGS α) : Prop :=
  CgInv φ s0 epsk K s ∧ CgG cfg s

/-- the invariant after `move` (one evaluation; budget `m'` with `K ≤ evaluations + 1 + m'`) -/
theorem cgInv_move {φ : Oracle α} {s0 : Eval α} {epsk : α} {K m : Nat} {iv : CG α} {ctx : Ctx α}
    (h : CgInv φ s0 epsk K ⟨m, iv, ctx⟩) (m' : Nat) (t : α) (hm : K ≤ ctx.trace.length + 1 + m') :
    CgInv φ s0 epsk K ⟨m', { iv with t := t }, ask φ ctx t⟩ :=
  ⟨by simpa using hm, cons_ask φ ctx t, cgPoint_ask t h.a_pt, cgPoint_ask t h.b_pt, h.a_f, h.a_g, h.a_t, h.b_t⟩

/-- `updateB()` on a state that belongs to the interval's step -/
theorem cgInv_updateB {φ : Oracle α} {s0 : Eval α} {epsk : α} {K m : Nat} {iv : CG α} {ctx : Ctx α}
    (h : CgInv φ s0 epsk K ⟨m, iv, ctx⟩) (ht : 0 < iv.t) :
    CgInv φ s0 epsk K ⟨m, { iv with b := stepOf ctx iv.t }, ctx⟩ :=
  ⟨h.budget, h.cons, h.a_pt, Or.inr (evald_stepOf h.cons), h.a_f, h.a_g, h.a_t, ht⟩

/-- `updateA()` after `has_descent` and `has_approx_armijo` -/
theorem cgInv_updateA {φ : Oracle α} {s0 : Eval α} {epsk : α} {K m : Nat} {iv : CG α} {ctx : Ctx α}
    (h : CgInv φ s0 epsk K ⟨m, iv, ctx⟩) (ht : 0 ≤ iv.t) (hg : ctx.cur.g < 0) (hf : ctx.cur.f ≤ s0.f + epsk) :
    CgInv φ s0 epsk K ⟨m, { iv with a := stepOf ctx iv.t }, ctx⟩ :=
  ⟨h.budget, h.cons, Or.inr (evald_stepOf h.cons), h.b_pt, hf, hg, ht, h.b_t⟩

theorem not_descent {g : α} (h : ¬ hasDescent g = false) : g < 0 := by
  simpa [hasDescent] using h

theorem nonneg_of_no_descent {g : α} (h : hasDescent g = false) : 0 ≤ g := by
  simpa [hasDescent] using h

theorem approxArmijo_le {f0 f e : α} (h : hasApproxArmijo f0 f e = true) : f ≤ f0 + e := by
  simpa [hasApproxArmijo] using h

/-! ### `updateU` -/

theorem cgUpdateU_ok (cfg : Cfg α) (φ : Oracle α) (s0 : Eval α) (epsk : α) (K : Nat) (hd : CgDom cfg) :
    ∀ (m : Nat) (iv : CG α) (ctx : Ctx α), CgInv φ s0 epsk K ⟨m, iv, ctx⟩ → 0 < iv.t →
      CgOK cfg φ s0 epsk K (cgUpdateU cfg φ s0 epsk m iv ctx) := by
  intro m
  induction m with
  | zero => intro iv ctx h ht; exact ⟨h, Or.inr (Or.inr ⟨Or.inl rfl, ht⟩)⟩
  | succ m ih =>
    intro iv ctx h ht
    have htheta : 0 < (1 - cfg.cgTheta) * iv.a.t + cfg.cgTheta * iv.b.t := by
      have h1 : 0 ≤ (1 - cfg.cgTheta) * iv.a.t := mul_nonneg (by linarith [hd.theta1]) h.a_t
      have h2 : 0 < cfg.cgTheta * iv.b.t := mul_pos hd.theta0 h.b_t
      linarith
    have hb := h.budget
    simp only at hb
    have hmove := cgInv_move h (m + 1) ((1 - cfg.cgTheta) * iv.a.t + cfg.cgTheta * iv.b.t) (by omega)
    simp only [cgUpdateU, cgMove]
    refine ite_post (fun _ => ite_post (fun hok => ⟨hmove, Or.inl hok⟩) (fun _ => ite_post (fun hnd => ?_)
      (fun hdesc => ite_post (fun hA => ?_) (fun _ => ?_)))) (fun hw => ⟨h, Or.inr (Or.inr ⟨Or.inr (not_lt.mp hw), ht⟩)⟩)
    · exact ⟨cgInv_updateB hmove htheta, Or.inr (Or.inl (nonneg_of_no_descent hnd))⟩
    · have hmove' := cgInv_move h m ((1 - cfg.cgTheta) * iv.a.t + cfg.cgTheta * iv.b.t) (by omega)
      exact ih _ _ (cgInv_updateA hmove' (le_of_lt htheta) (not_descent hdesc) (approxArmijo_le hA)) htheta
    · have hmove' := cgInv_move h m ((1 - cfg.cgTheta) * iv.a.t + cfg.cgTheta * iv.b.t) (by omega)
      exact ih _ _ (cgInv_updateB hmove' htheta) htheta

/-! ### `update` (called after `done` answered `false`, hence with `0 ≤ b.g`) -/

theorem cgUpdate_ok (cfg : Cfg α) (φ : Oracle α) (s0 : Eval α) (epsk : α) (K : Nat) (hd : CgDom cfg)
    (m : Nat) (iv : CG α) (ctx : Ctx α) (h : CgInv φ s0 epsk K ⟨m, iv, ctx⟩) (hb : 0 ≤ iv.b.g) :
    CgOK cfg φ s0 epsk K (cgUpdate cfg φ s0 epsk m iv ctx) := by
  simp only [cgUpdate]
  refine ite_post (fun _ => ⟨h, Or.inr (Or.inl hb)⟩) (fun hin => ?_)
  have ht : 0 < iv.t := by
    have : iv.a.t < iv.t := by
      rcases lt_or_ge iv.a.t iv.t with h' | h'
      · exact h'
      · exact absurd (Or.inl h') hin
    exact lt_of_le_of_lt h.a_t this
  refine ite_post (fun hnd => ⟨cgInv_updateB h ht, Or.inr (Or.inl (nonneg_of_no_descent hnd))⟩)
    (fun hdesc => ite_post (fun hA => ⟨cgInv_updateA h (le_of_lt ht) (not_descent hdesc) (approxArmijo_le hA),
      Or.inr (Or.inl hb)⟩) (fun _ => cgUpdateU_ok cfg φ s0 epsk K hd m _ ctx (cgInv_updateB h ht) ht))

/-! ### `bracket` -/

theorem cgBracket_ok (cfg : Cfg α) (φ : Oracle α) (s0 : Eval α) (epsk : α) (K : Nat) (hd : CgDom cfg) (he : 0 ≤ epsk)
    (hg0 : s0.g < 0) :
    ∀ (m : Nat) (lastA : Step α) (iv : CG α) (ctx : Ctx α), CgInv φ s0 epsk K ⟨m, iv, ctx⟩ → 0 < iv.t →
      CgPoint φ s0 ctx lastA → lastA.f ≤ s0.f + epsk → lastA.g < 0 → 0 ≤ lastA.t →
      CgOK cfg φ s0 epsk K (cgBracket cfg φ s0 epsk m lastA iv ctx) := by
  intro m
  induction m with
  | zero => intro lastA iv ctx h ht _ _ _ _; exact ⟨h, Or.inr (Or.inr ⟨Or.inl rfl, ht⟩)⟩
  | succ m ih =>
    intro lastA iv ctx h ht l1 l2 l3 l4
    have hb := h.budget
    simp only at hb
    simp only [cgBracket, cgMove]
    refine ite_post (fun hok => ite_post (fun hnd => ?_) (fun hdesc => ite_post (fun hnA => ?_) (fun hA => ?_)))
      (fun hok => ⟨h, Or.inl (by simpa using hok)⟩)
    · exact ⟨⟨h.budget, h.cons, l1, Or.inr (evald_stepOf h.cons), l2, l3, l4, ht⟩,
        Or.inr (Or.inl (nonneg_of_no_descent hnd))⟩
    · refine cgUpdateU_ok cfg φ s0 epsk K hd (m + 1) _ ctx ?_ ht
      exact ⟨h.budget, h.cons, Or.inl rfl, Or.inr (evald_stepOf h.cons), by simpa using he, hg0, le_refl _, ht⟩
    · have hA' : hasApproxArmijo s0.f ctx.cur.f epsk = true := by simpa using hA
      have hro : 0 < cfg.cgRo * iv.t := mul_pos hd.ro ht
      refine ih _ _ _ (cgInv_move h m (cfg.cgRo * iv.t) (by omega)) hro ?_ (approxArmijo_le hA') (not_descent hdesc)
        (le_of_lt ht)
      exact cgPoint_ask _ (Or.inr (evald_stepOf h.cons))

/-! ### `done` -/

/-- `done(bracketed = true)` answered `false`: the state is valid and `b` has a non-negative slope -/
theorem cgDone_false (cfg : Cfg α) (s0 : Eval α) (epsk : α) (iv : CG α) (ctx : Ctx α)
    (h : ¬ cgDone cfg s0 epsk true iv ctx = true) : 0 ≤ iv.b.g := by
  unfold cgDone at h
  split at h
  · exact absurd rfl h
  · rename_i h1
    have h2 : ¬ (iv.a.f > s0.f + epsk ∨ iv.b.g < 0) := fun h' => h1 (Or.inl ⟨rfl, h'⟩)
    exact not_lt.mp (fun h' => h2 (Or.inr h'))

/-- the two acceptance exits of `done`, for either value of `bracketed` -/
theorem cgDone_conditions (cfg : Cfg α) (s0 : Eval α) (iv : CG α) (ctx : Ctx α) (br : Bool)
    (hnf : ¬ ((br = true ∧ (iv.a.f > s0.f + cfg.cgEpsilon * absv s0.f ∨ iv.b.g < 0)) ∨ ctx.cur.ok = false))
    (h : cgDone cfg s0 (cfg.cgEpsilon * absv s0.f) br iv ctx = true) :
    iv.a.t ≤ iv.t ∧
    ((hasArmijo s0.f s0.g ctx.cur.f iv.t cfg.c1 = true ∧ hasWolfe s0.g ctx.cur.g cfg.c2 = true) ∨
     (hasApproxArmijo s0.f ctx.cur.f (cfg.cgEpsilon * absv s0.f) = true ∧
      hasApproxWolfe s0.g ctx.cur.g cfg.c1 cfg.c2 = true)) := by
  unfold cgDone at h
  rw [if_neg hnf] at h
  split at h
  · cases h
  · rename_i h2
    refine ⟨not_lt.mp (fun h' => h2 (Or.inl h')), ?_⟩
    simpa [Bool.or_eq_true, Bool.and_eq_true] using h

theorem approxWolfe_wolfe {dg0 dg c1 c2 : α} (h : hasApproxWolfe dg0 dg c1 c2 = true) : hasWolfe dg0 dg c2 = true := by
  simp only [hasApproxWolfe, Bool.and_eq_true, decide_eq_true_eq] at h
  simpa [hasWolfe] using h.2

/-- `done(bracketed = true)` answered `true` and the state is valid -/
theorem cgDone_true (cfg : Cfg α) (φ : Oracle α) (s0 : Eval α) (K : Nat) (s : CGS α)
    (hi : CgInv φ s0 (cfg.cgEpsilon * absv s0.f) K s) (hG : CgG cfg s)
    (h : cgDone cfg s0 (cfg.cgEpsilon * absv s0.f) true s.iv s.ctx = true) (hok : s.ctx.cur.ok = true) :
    CgQ cfg φ s0 K (cgResult s) := by
  by_cases hb : s.iv.b.g < 0
  · -- bracketing failed
    rcases hG with hG | hG | ⟨hG, ht⟩
    · rw [hok] at hG; cases hG
    · exact absurd hb (not_lt.mpr hG)
    · refine ⟨hok, Or.inr (Or.inr ⟨s.iv.a, s.iv.b, hi.a_pt, hi.b_pt, hb, ?_⟩), Or.inl ht⟩
      rcases hG with hG | hG
      · left; have := hi.budget; simp only [cgResult]; omega
      · exact Or.inr hG
  · have hnf : ¬ ((true = true ∧ (s.iv.a.f > s0.f + cfg.cgEpsilon * absv s0.f ∨ s.iv.b.g < 0)) ∨ s.ctx.cur.ok = false) := by
      rintro (⟨_, h1 | h1⟩ | h1)
      · exact absurd hi.a_f (not_le.mpr h1)
      · exact hb h1
      · rw [hok] at h1; cases h1
    obtain ⟨h1, h2⟩ := cgDone_conditions cfg s0 s.iv s.ctx true hnf h
    have ht : 0 ≤ s.iv.t := le_trans hi.a_t h1
    have hw : hasWolfe s0.g s.ctx.cur.g cfg.c2 = true := by
      rcases h2 with h2 | h2
      · exact h2.2
      · exact approxWolfe_wolfe h2.2
    refine ⟨hok, ?_, ?_⟩
    · rcases h2 with h2 | h2
      · exact Or.inl h2
      · exact Or.inr (Or.inl h2)
    · rcases lt_or_eq_of_le ht with h' | h'
      · exact Or.inl h'
      · exact Or.inr ⟨h'.symm, hw⟩

/-! ### `move_update_and_check_done` and the main loop -/

/-- outcome of `move_update_and_check_done` entered with `0 ≤ b.g` -/
def CgTryPost (cfg : Cfg α) (φ : Oracle α) (s0 : Eval α) (K : Nat) (r : Bool × CGS α) : Prop :=
  CgInv φ s0 (cfg.cgEpsilon * absv s0.f) K r.2 ∧ (r.1 = false → 0 ≤ r.2.iv.b.g) ∧
    (r.1 = true → r.2.ctx.cur.ok = true → CgQ cfg φ s0 K (cgResult r.2))

theorem cgTry_ok (cfg : Cfg α) (φ : Oracle α) (s0 : Eval α) (K : Nat) (hd : CgDom cfg) (m : Nat) (iv : CG α) (ctx : Ctx α)
    (t : α) (h : CgInv φ s0 (cfg.cgEpsilon * absv s0.f) K ⟨m, iv, ctx⟩) (hb : 0 ≤ iv.b.g) :
    CgTryPost cfg φ s0 K (cgTry cfg φ s0 (cfg.cgEpsilon * absv s0.f) m iv ctx t) := by
  simp only [cgTry, cgMove]
  refine ite_post (fun _ => ⟨h, fun _ => hb, fun h' => by cases h'⟩) (fun _ => ?_)
  have hbud := h.budget
  simp only at hbud
  have hmove := cgInv_move h m t (by omega)
  refine ite_post (fun hdone => ⟨hmove, fun h' => (by cases h'), fun _ hok => ?_⟩) (fun hnd => ?_)
  · exact cgDone_true cfg φ s0 K _ hmove (Or.inr (Or.inl hb)) hdone hok
  · have hb' := cgDone_false cfg s0 _ _ _ hnd
    obtain ⟨u1, u2⟩ := cgUpdate_ok cfg φ s0 _ K hd m { iv with t := t } (ask φ ctx t) hmove hb'
    refine ⟨u1, fun h' => ?_, fun h' hok => ?_⟩
    · exact cgDone_false cfg s0 _ _ _ (by simpa using h')
    · exact cgDone_true cfg φ s0 K _ u1 u2 h' hok

theorem cgSecond_ok (cfg : Cfg α) (φ : Oracle α) (s0 : Eval α) (K : Nat) (hd : CgDom cfg) (a0 b0 : Step α) (tc : α)
    (s : CGS α) (h : CgInv φ s0 (cfg.cgEpsilon * absv s0.f) K s) (hb : 0 ≤ s.iv.b.g) :
    CgTryPost cfg φ s0 K (cgSecond cfg φ s0 (cfg.cgEpsilon * absv s0.f) a0 b0 tc s) := by
  simp only [cgSecond]
  exact ite_post (fun _ => cgTry_ok cfg φ s0 K hd s.m s.iv s.ctx _ h hb)
    (fun _ => ite_post (fun _ => cgTry_ok cfg φ s0 K hd s.m s.iv s.ctx _ h hb)
      (fun _ => ⟨h, fun _ => hb, fun h' => by cases h'⟩))

theorem cgLoop_ok (cfg : Cfg α) (φ : Oracle α) (s0 : Eval α) (K : Nat) (hd : CgDom cfg) :
    ∀ (fuel i m : Nat) (iv : CG α) (ctx : Ctx α), CgInv φ s0 (cfg.cgEpsilon * absv s0.f) K ⟨m, iv, ctx⟩ → 0 ≤ iv.b.g →
      (cgLoop cfg φ s0 (cfg.cgEpsilon * absv s0.f) fuel i m iv ctx).ok = true →
      CgQ cfg φ s0 K (cgLoop cfg φ s0 (cfg.cgEpsilon * absv s0.f) fuel i m iv ctx) := by
  intro fuel
  induction fuel with
  | zero => intro i m iv ctx _ _ h; simp [cgLoop] at h
  | succ fuel ih =>
    intro i m iv ctx h hb
    simp only [cgLoop]
    refine ite_post (P := fun r : Res α => r.ok = true → CgQ cfg φ s0 K r) (fun _ => ?_) (fun _ h' => by cases h')
    obtain ⟨a1, a2, a3⟩ := cgTry_ok cfg φ s0 K hd m iv ctx (secant iv.a iv.b) h hb
    generalize cgTry cfg φ s0 (cfg.cgEpsilon * absv s0.f) m iv ctx (secant iv.a iv.b) = r1 at a1 a2 a3 ⊢
    refine ite_post (P := fun r : Res α => r.ok = true → CgQ cfg φ s0 K r) (fun h1 hok => a3 h1 hok) (fun h1 => ?_)
    have h1' : r1.1 = false := by simpa using h1
    obtain ⟨b1, b2, b3⟩ := cgSecond_ok cfg φ s0 K hd iv.a iv.b (secant iv.a iv.b) r1.2 a1 (a2 h1')
    generalize cgSecond cfg φ s0 (cfg.cgEpsilon * absv s0.f) iv.a iv.b (secant iv.a iv.b) r1.2 = r2 at b1 b2 b3 ⊢
    refine ite_post (P := fun r : Res α => r.ok = true → CgQ cfg φ s0 K r) (fun h2 hok => b3 h2 hok) (fun h2 => ?_)
    have h2' : r2.1 = false := by simpa using h2
    refine ite_post (P := fun r : Res α => r.ok = true → CgQ cfg φ s0 K r) (fun _ => ?_)
      (fun _ => ih (i + 1) r2.2.m r2.2.iv r2.2.ctx b1 (b2 h2'))
    obtain ⟨c1, c2, c3⟩ := cgTry_ok cfg φ s0 K hd r2.2.m r2.2.iv r2.2.ctx ((r2.2.iv.a.t + r2.2.iv.b.t) / 2) b1 (b2 h2')
    generalize cgTry cfg φ s0 (cfg.cgEpsilon * absv s0.f) r2.2.m r2.2.iv r2.2.ctx ((r2.2.iv.a.t + r2.2.iv.b.t) / 2) = r3
      at c1 c2 c3 ⊢
    refine ite_post (P := fun r : Res α => r.ok = true → CgQ cfg φ s0 K r) (fun h3 hok => c3 h3 hok) (fun h3 => ?_)
    have h3' : r3.1 = false := by simpa using h3
    exact ih (i + 1) r3.2.m r3.2.iv r3.2.ctx c1 (c2 h3')

/-- `lsearchk_cgdescent_t::do_get` entered with a positive step `t`, the state being the evaluation at `t`, along a descent
    direction: on success, the exact disjunction `CgQ` with `K = evaluations so far + max_iterations` -/
theorem cgdescent_cases (cfg : Cfg α) (φ : Oracle α) (s0 : Eval α) (t : α) (ctx : Ctx α) (hd : CgDom cfg) (hg0 : s0.g < 0)
    (ht : 0 < t) (hc : Cons φ ctx t) (h : (cgdescent cfg φ s0 t ctx).ok = true) :
    CgQ cfg φ s0 (ctx.trace.length + cfg.maxIter) (cgdescent cfg φ s0 t ctx) := by
  have he : 0 ≤ cfg.cgEpsilon * absv s0.f := by
    apply mul_nonneg hd.eps
    rw [absv_eq_abs]; exact abs_nonneg _
  have hinit : CgInv φ s0 (cfg.cgEpsilon * absv s0.f) (ctx.trace.length + cfg.maxIter)
      ⟨cfg.maxIter, ⟨⟨0, s0.f, s0.g⟩, stepOf ctx t, t⟩, ctx⟩ :=
    ⟨le_refl _, hc, Or.inl rfl, Or.inr (evald_stepOf hc), by simpa using he, hg0, le_refl _, ht⟩
  revert h
  simp only [cgdescent]
  refine ite_post (P := fun r : Res α => r.ok = true → CgQ cfg φ s0 _ r) (fun hdone hok => ?_) (fun _ => ?_)
  · -- the initial trial step is accepted at once
    have hnf : ¬ ((false = true ∧ ((⟨0, s0.f, s0.g⟩ : Step α).f > s0.f + cfg.cgEpsilon * absv s0.f ∨
        (stepOf ctx t).g < 0)) ∨ ctx.cur.ok = false) := by
      rintro (⟨h1, _⟩ | h1)
      · cases h1
      · simp only at hok; rw [hok] at h1; cases h1
    obtain ⟨_, h2⟩ := cgDone_conditions cfg s0 ⟨⟨0, s0.f, s0.g⟩, stepOf ctx t, t⟩ ctx false hnf hdone
    refine ⟨hok, ?_, Or.inl ht⟩
    rcases h2 with h2 | h2
    · exact Or.inl h2
    · exact Or.inr (Or.inl h2)
  · obtain ⟨b1, b2⟩ := cgBracket_ok cfg φ s0 _ _ hd he hg0 cfg.maxIter ⟨0, s0.f, s0.g⟩
      ⟨⟨0, s0.f, s0.g⟩, stepOf ctx t, t⟩ ctx hinit ht (Or.inl rfl) (by simpa using he) hg0 (le_refl _)
    generalize cgBracket cfg φ s0 (cfg.cgEpsilon * absv s0.f) cfg.maxIter ⟨0, s0.f, s0.g⟩
      ⟨⟨0, s0.f, s0.g⟩, stepOf ctx t, t⟩ ctx = s at b1 b2 ⊢
    refine ite_post (P := fun r : Res α => r.ok = true → CgQ cfg φ s0 _ r)
      (fun hdone hok => cgDone_true cfg φ s0 _ s b1 b2 hdone hok) (fun hnd => ?_)
    exact cgLoop_ok cfg φ s0 _ hd s.m 0 s.m s.iv s.ctx b1 (cgDone_false cfg s0 _ _ _ hnd)

end NanoVerif.LSearch
