import NanoVerif.Model.Tensor
/-!
  C16 — helper lemmas for `remove_if` (two-pointer loop of `Model/Tensor.lean` vs. the filter specification).
  Core Lean only.
-/
namespace NanoVerif.Tensor

/-- the first loop stops after `k` kept rows: `k` leading rows stay where they are -/
theorem removeIfSkip_spec {α} : ∀ (mask : List Bool) (last : Nat) (xs : List (List α)),
    last ≤ (removeIfSkip mask last).1 ∧
    (removeIfSkip mask last).2.length + ((removeIfSkip mask last).1 - last) = mask.length ∧
    keptRows mask xs = xs.take ((removeIfSkip mask last).1 - last) ++
      keptRows (removeIfSkip mask last).2 (xs.drop ((removeIfSkip mask last).1 - last))
  | [], last, xs => by simp [removeIfSkip]
  | true :: ms, last, xs => by simp [removeIfSkip]
  | false :: ms, last, [] => by
    have ih := removeIfSkip_spec ms (last + 1) ([] : List (List α))
    simp only [removeIfSkip, List.length_cons]
    refine ⟨by omega, by omega, ?_⟩
    cases h : (removeIfSkip ms (last + 1)).2 <;> simp [keptRows]
  | false :: ms, last, x :: xs => by
    have ih := removeIfSkip_spec ms (last + 1) xs
    simp only [removeIfSkip, List.length_cons]
    obtain ⟨h1, h2, h3⟩ := ih
    refine ⟨by omega, by omega, ?_⟩
    have hk : (removeIfSkip ms (last + 1)).1 - last = ((removeIfSkip ms (last + 1)).1 - (last + 1)) + 1 := by
      omega
    rw [hk]
    simp only [keptRows, List.take_succ_cons, List.drop_succ_cons, List.cons_append, Bool.false_eq_true,
      if_false]
    rw [h3]

theorem keptRows_nil_left {α} (xs : List (List α)) : keptRows [] xs = [] := by
  cases xs <;> rfl

/-- invariant of the second loop: rows `[0,last)` are final, rows `[curr, size)` are still the original ones -/
theorem removeIfLoop_spec {α} : ∀ (ms : List Bool) (curr last : Nat) (rs : List (List α)),
    last ≤ curr → curr + ms.length = rs.length →
    (removeIfLoop ms curr last rs).1 = last + (keptRows ms (rs.drop curr)).length ∧
    (removeIfLoop ms curr last rs).2.take (removeIfLoop ms curr last rs).1
      = rs.take last ++ keptRows ms (rs.drop curr) ∧
    (removeIfLoop ms curr last rs).2.length = rs.length
  | [], curr, last, rs, _, _ => by
    simp [removeIfLoop, keptRows_nil_left]
  | m :: ms, curr, last, rs, hle, hlen => by
    simp only [List.length_cons] at hlen
    have hc : curr < rs.length := by omega
    have hdrop : rs.drop curr = rs[curr] :: rs.drop (curr + 1) := List.drop_eq_getElem_cons hc
    cases m with
    | true =>
      have ih := removeIfLoop_spec ms (curr + 1) last rs (by omega) (by omega)
      simp only [removeIfLoop, if_true]
      rw [hdrop]
      simpa [keptRows] using ih
    | false =>
      have hset : (rs.set last rs[curr]).length = rs.length := List.length_set
      have ih := removeIfLoop_spec ms (curr + 1) (last + 1) (rs.set last rs[curr]) (by omega)
        (by rw [hset]; omega)
      simp only [removeIfLoop, Bool.false_eq_true, if_false, List.getElem?_eq_getElem hc]
      rw [hdrop]
      simp only [keptRows, Bool.false_eq_true, if_false, List.length_cons]
      have hd : (rs.set last rs[curr]).drop (curr + 1) = rs.drop (curr + 1) := by
        rw [List.drop_set]
        simp
        intro h; omega
      have ht : (rs.set last rs[curr]).take (last + 1) = rs.take last ++ [rs[curr]] := by
        have hl : last < rs.length := by omega
        rw [List.take_set]
        rw [List.take_succ_eq_append_getElem hl]
        rw [List.set_append_right _ _ (by simp; omega)]
        simp [List.length_take, Nat.min_eq_left (Nat.le_of_lt hl)]
      rw [hd, ht, hset] at ih
      obtain ⟨i1, i2, i3⟩ := ih
      refine ⟨by omega, ?_, i3⟩
      rw [i2]; simp

/-- the loop only ever copies rows of the tensor: every row of the result is one of the original rows -/
theorem removeIfLoop_mem {α} : ∀ (ms : List Bool) (curr last : Nat) (rs : List (List α)) (r : List α),
    r ∈ (removeIfLoop ms curr last rs).2 → r ∈ rs
  | [], _, _, _, _, h => by simpa [removeIfLoop] using h
  | true :: ms, curr, last, rs, r, h => by
    simp only [removeIfLoop, if_true] at h
    exact removeIfLoop_mem ms _ _ rs r h
  | false :: ms, curr, last, rs, r, h => by
    simp only [removeIfLoop, Bool.false_eq_true, if_false] at h
    cases hc : rs[curr]? with
    | none =>
      rw [hc] at h
      exact removeIfLoop_mem ms _ _ rs r h
    | some x =>
      rw [hc] at h
      have := removeIfLoop_mem ms _ _ _ r h
      rcases List.mem_or_eq_of_mem_set this with h1 | h1
      · exact h1
      · rw [h1]; exact List.mem_of_getElem? hc

/-! ### rows of a buffer -/

theorem rows_length {α} (n : Nat) : ∀ (k : Nat) (xs : List α), (rows n k xs).length = k
  | 0, _ => rfl
  | k + 1, xs => by simp [rows, rows_length n k]

theorem rows_row_length {α} (n : Nat) : ∀ (k : Nat) (xs : List α), xs.length = k * n →
    ∀ r ∈ rows n k xs, r.length = n
  | 0, _, _, r, h => by simp [rows] at h
  | k + 1, xs, hl, r, h => by
    simp only [rows, List.mem_cons] at h
    have hk : (k + 1) * n = k * n + n := by rw [Nat.add_mul, Nat.one_mul]
    rcases h with h | h
    · rw [h, List.length_take]; omega
    · exact rows_row_length n k (xs.drop n) (by rw [List.length_drop]; omega) r h

theorem flatten_length_of_rows {α} (n : Nat) : ∀ (rs : List (List α)), (∀ r ∈ rs, r.length = n) →
    rs.flatten.length = rs.length * n
  | [], _ => by simp
  | r :: rs, h => by
    have ih := flatten_length_of_rows n rs (fun x hx => h x (by simp [hx]))
    have h0 := h r (by simp)
    simp only [List.flatten_cons, List.length_append, List.length_cons, ih, h0, Nat.add_mul, Nat.one_mul]
    omega

theorem take_flatten_of_rows {α} (n : Nat) : ∀ (rs : List (List α)) (k : Nat), (∀ r ∈ rs, r.length = n) →
    rs.flatten.take (k * n) = (rs.take k).flatten
  | [], k, _ => by simp
  | r :: rs, 0, _ => by simp
  | r :: rs, k + 1, h => by
    have ih := take_flatten_of_rows n rs k (fun x hx => h x (by simp [hx]))
    have h0 := h r (by simp)
    simp only [List.flatten_cons, List.take_succ_cons]
    rw [List.take_append, h0, ← ih]
    have hk : (k + 1) * n - n = k * n := by rw [Nat.add_mul, Nat.one_mul]; omega
    rw [hk, List.take_of_length_le (by rw [h0, Nat.add_mul, Nat.one_mul]; omega)]

/-- the kept rows, flattened, are the gather of the kept first-axis indices -/
theorem keptRows_rows_flatten {α} (n : Nat) (data : List α) : ∀ (mask : List Bool) (base : Nat),
    (keptRows mask (rows n mask.length (data.drop (base * n)))).flatten
      = (keptIdx mask base).flatMap (fun i => (data.drop (i * n)).take n)
  | [], _ => by simp [keptIdx, keptRows]
  | m :: ms, base => by
    have ih := keptRows_rows_flatten n data ms (base + 1)
    have hd : (data.drop (base * n)).drop n = data.drop ((base + 1) * n) := by
      rw [List.drop_drop, Nat.add_mul, Nat.one_mul]
    cases m <;>
      simp [keptRows, keptIdx, rows, hd, ih]

theorem keptIdx_lt : ∀ (mask : List Bool) (base : Nat), ∀ i ∈ keptIdx mask base, base ≤ i ∧ i < base + mask.length
  | [], _, i, h => by simp [keptIdx] at h
  | m :: ms, base, i, h => by
    have ih := keptIdx_lt ms (base + 1) i
    cases m
    · simp only [keptIdx, Bool.false_eq_true, if_false, List.mem_cons] at h
      rcases h with h | h
      · simp [h]
      · have := ih h; simp only [List.length_cons]; omega
    · simp only [keptIdx, if_true] at h
      have := ih h; simp only [List.length_cons]; omega

theorem keptRows_length {α} : ∀ (mask : List Bool) (base : Nat) (rs : List (List α)), mask.length = rs.length →
    (keptRows mask rs).length = (keptIdx mask base).length
  | [], _, [], _ => by simp [keptRows, keptIdx]
  | [], _, _ :: _, h => by simp at h
  | _ :: _, _, [], h => by simp at h
  | m :: ms, base, r :: rs, h => by
    have ih := keptRows_length ms (base + 1) rs (by simpa using h)
    cases m <;> simp [keptRows, keptIdx, ih]

end NanoVerif.Tensor
