import NanoVerif.Proofs.LSearchQuadLem
/-!
  C07 — helper lemmas: Fletcher on a convex quadratic `φ(t) = f0 + g0 t + h t²/2` from EVERY positive first trial step, with an
  interpolation that is exact on quadratic data (`InterpExact`), `c1 < 1/2`, `0 < c2 < 1`.

  `zoom(lo, hi)`: invariant — `lo` satisfies Armijo but not strong Wolfe, `t*` lies strictly between `lo.t` and `hi.t` (either
  orientation). The trial is `clamp(t*, min + μ W, max - τ3 W)` (`W = |hi.t - lo.t|`, `μ = min(tau2, c2)`); it is accepted, or it
  was clamped and replaces `lo` or `hi` so that the invariant is kept and `W` is multiplied by `μ` or `τ3`. A trial within
  `ρ = min(c2, 1 - 2c1) t*` of `t*` is always accepted, and `W ≤ ρ` forces that; hence at most `j` rejections when `τ3^j W ≤ ρ`.
-/
namespace NanoVerif.LSearch
open NanoVerif.Gen.LsPredicates

set_option linter.unusedSectionVars false
set_option linter.unusedVariables false

variable {α : Type} [Field α] [LinearOrder α] [IsStrictOrderedRing α]

/-- difference of two values of the quadratic -/
theorem quad_diff {f0 g0 h : α} (hh : 0 < h) (x y : α) :
    (quadLine f0 g0 h x).f - (quadLine f0 g0 h y).f = h / 2 * (x - y) * (x + y - 2 * tstar g0 h) := by
  have e := h_tstar (g0 := g0) hh
  simp only [quadLine]
  have : g0 = -(h * tstar g0 h) := by linarith
  rw [this]
  have : tstar (-(h * tstar g0 h)) h = tstar g0 h := by
    unfold tstar; rw [neg_neg]; field_simp
  rw [this]; ring

/-- slope of the quadratic -/
theorem quad_slope {f0 g0 h : α} (hh : 0 < h) (x : α) : (quadLine f0 g0 h x).g = h * (x - tstar g0 h) := by
  have e := h_tstar (g0 := g0) hh
  simp only [quadLine]; linarith [mul_sub h x (tstar g0 h)]

/-- the invariant of `zoom` on a quadratic; `T = 2(1 - c1) t*` -/
structure ZoomInv (cfg : Cfg α) (f0 g0 h : α) (lo hi : Step α) : Prop where
  lo_on : OnQuad f0 g0 h lo
  hi_on : OnQuad f0 g0 h hi
  lo_t : 0 ≤ lo.t
  hi_t : 0 ≤ hi.t
  lo_armijo : lo.t ≤ 2 * (1 - cfg.c1) * tstar g0 h
  lo_nsw : cfg.c2 * tstar g0 h < |lo.t - tstar g0 h|
  between : (lo.t < tstar g0 h ∧ tstar g0 h < hi.t) ∨ (hi.t < tstar g0 h ∧ tstar g0 h < lo.t)

/-- one iteration of `zoom` whose guard passes and whose evaluation is valid, in terms of the trial step `t` -/
theorem zoom_step_eq (cfg : Cfg α) (φ : Oracle α) (s0 : Eval α) (n : Nat) (lo hi : Step α) (ctx : Ctx α) (t : α)
    (hguard : absv (lo.t - hi.t) > cfg.eps0)
    (ht : t = clamp (cfg.interp lo hi) (cmin lo.t hi.t + cmin cfg.tau2 cfg.c2 * absv (hi.t - lo.t))
      (cmax lo.t hi.t - cfg.tau3 * absv (hi.t - lo.t)))
    (hok : (ask φ ctx t).cur.ok = true) :
    zoom cfg φ s0 (n + 1) lo hi ctx =
      (if hasArmijo s0.f s0.g (ask φ ctx t).cur.f t cfg.c1 = false ∨ (ask φ ctx t).cur.f ≥ lo.f then
        zoom cfg φ s0 n lo (stepOf (ask φ ctx t) t) (ask φ ctx t)
      else if hasStrongWolfe s0.g (ask φ ctx t).cur.g cfg.c2 then ⟨true, t, ask φ ctx t⟩
      else zoom cfg φ s0 n (stepOf (ask φ ctx t) t) (if (ask φ ctx t).cur.g * (hi.t - lo.t) ≥ 0 then lo else hi) (ask φ ctx t)) := by
  subst ht
  simp only [zoom, hguard, hok, if_true]

section
variable (cfg : Cfg α) (f0 g0 h : α) (hg : g0 < 0) (hh : 0 < h)
  (hc1 : cfg.c1 < 1 / 2) (hc20 : 0 < cfg.c2)
include hg hh hc1 hc20

/-- the value at `t` compared with the value at `lo` -/
theorem zoom_f_lt (lo : Step α) (hlo : OnQuad f0 g0 h lo) (t : α)
    (hcloser : (lo.t < t ∧ t ≤ tstar g0 h) ∨ (tstar g0 h ≤ t ∧ t < lo.t)) : ¬ (quadLine f0 g0 h t).f ≥ lo.f := by
  have hlof : lo.f = (quadLine f0 g0 h lo.t).f := by rw [hlo.1]; simp [quadLine]
  rw [hlof, ge_iff_le, not_le, ← sub_neg, quad_diff hh t lo.t]
  rcases hcloser with ⟨a, b⟩ | ⟨a, b⟩
  · have h1 : 0 < t - lo.t := by linarith
    have h2 : t + lo.t - 2 * tstar g0 h < 0 := by linarith
    nlinarith [mul_pos h1 (neg_pos.mpr h2), mul_pos hh (mul_pos h1 (neg_pos.mpr h2))]
  · have h1 : t - lo.t < 0 := by linarith
    have h2 : 0 < t + lo.t - 2 * tstar g0 h := by linarith
    nlinarith [mul_pos (neg_pos.mpr h1) h2, mul_pos hh (mul_pos (neg_pos.mpr h1) h2)]

/-- the trial is `t*`: accepted -/
theorem zoom_case_mid (lo hi : Step α) (inv : ZoomInv cfg f0 g0 h lo hi) :
    ¬ (hasArmijo f0 g0 (quadLine f0 g0 h (tstar g0 h)).f (tstar g0 h) cfg.c1 = false ∨
        (quadLine f0 g0 h (tstar g0 h)).f ≥ lo.f) ∧
    hasStrongWolfe g0 (quadLine f0 g0 h (tstar g0 h)).g cfg.c2 = true := by
  have hA : hasArmijo f0 g0 (quadLine f0 g0 h (tstar g0 h)).f (tstar g0 h) cfg.c1 = true :=
    (armijo_at_tstar_iff hg hh).mpr (le_of_lt hc1)
  have hf : ¬ (quadLine f0 g0 h (tstar g0 h)).f ≥ lo.f := by
    apply zoom_f_lt cfg f0 g0 h hg hh hc1 hc20 lo inv.lo_on
    rcases inv.between with ⟨a, b⟩ | ⟨a, b⟩
    · exact Or.inl ⟨a, le_refl _⟩
    · exact Or.inr ⟨le_refl _, b⟩
  refine ⟨?_, (strongWolfe_at_tstar hg hh (le_of_lt hc20)).1⟩
  rintro (h1 | h1)
  · rw [hA] at h1; cases h1
  · exact hf h1

end

section
variable (cfg : Cfg α) (f0 g0 h : α) (hg : g0 < 0) (hh : 0 < h) (hI : InterpExact cfg f0 g0 h)
  (hc1 : cfg.c1 < 1 / 2) (hc20 : 0 < cfg.c2) (hc21 : cfg.c2 < 1)
  (htau2 : 0 < cfg.tau2) (htau23 : cfg.tau2 ≤ cfg.tau3) (htau3 : cfg.tau3 ≤ 1 / 2)
  (heps1 : cfg.eps0 ≤ cfg.c2 * tstar g0 h)
include hg hh hI hc1 hc20 hc21 htau2 htau23 htau3 heps1

/-- outcome of one iteration of `zoom` on the quadratic: accepted, or the invariant is kept with a bracket narrower by `τ3` -/
def ZoomStep (n : Nat) (lo hi : Step α) (r : Res α) : Prop :=
  QuadOK f0 g0 h r ∨
  ∃ lo' hi' ctx', r = zoom cfg (fun _ => quadLine f0 g0 h) ⟨f0, g0, true⟩ n lo' hi' ctx' ∧ ZoomInv cfg f0 g0 h lo' hi' ∧
    |hi'.t - lo'.t| ≤ cfg.tau3 * |hi.t - lo.t|

theorem zoom_quad_step (n : Nat) (lo hi : Step α) (ctx : Ctx α) (inv : ZoomInv cfg f0 g0 h lo hi) :
    ZoomStep cfg f0 g0 h n lo hi (zoom cfg (fun _ => quadLine f0 g0 h) ⟨f0, g0, true⟩ (n + 1) lo hi ctx) := by
  have hp := tstar_pos hg hh
  have hμ0 : 0 < min cfg.tau2 cfg.c2 := lt_min htau2 hc20
  have hμ3 : min cfg.tau2 cfg.c2 ≤ cfg.tau3 := le_trans (min_le_left _ _) htau23
  have htau30 : 0 < cfg.tau3 := lt_of_lt_of_le htau2 htau23
  obtain ⟨W, hWdef⟩ : ∃ W, W = |hi.t - lo.t| := ⟨_, rfl⟩
  have hlo_dist : |lo.t - tstar g0 h| ≤ W := by
    rw [hWdef]
    rcases inv.between with ⟨a, b⟩ | ⟨a, b⟩
    · rw [abs_of_neg (by linarith), abs_of_pos (by linarith)]; linarith
    · rw [abs_of_pos (by linarith), abs_of_neg (by linarith)]; linarith
  have hWc2 : cfg.c2 * tstar g0 h < W := lt_of_lt_of_le inv.lo_nsw hlo_dist
  have hW0 : 0 < W := lt_trans (mul_pos hc20 hp) hWc2
  have hguard : absv (lo.t - hi.t) > cfg.eps0 := by
    rw [absv_eq_abs, abs_sub_comm, ← hWdef]; exact lt_of_le_of_lt heps1 hWc2
  have hne : lo.t ≠ hi.t := by
    rcases inv.between with ⟨a, b⟩ | ⟨a, b⟩
    · exact ne_of_lt (by linarith)
    · exact ne_of_gt (by linarith)
  have hint : cfg.interp lo hi = tstar g0 h := hI lo hi inv.lo_on inv.hi_on hne
  have hμW : 0 < min cfg.tau2 cfg.c2 * W := mul_pos hμ0 hW0
  have hτW : 0 < cfg.tau3 * W := mul_pos htau30 hW0
  have hμτ : min cfg.tau2 cfg.c2 * W ≤ cfg.tau3 * W := mul_le_mul_of_nonneg_right hμ3 (le_of_lt hW0)
  have hτhalf : cfg.tau3 * W ≤ W / 2 := by nlinarith
  have hmm : max lo.t hi.t - min lo.t hi.t = W := by
    rw [hWdef]
    rcases inv.between with ⟨a, b⟩ | ⟨a, b⟩
    · rw [max_eq_right (by linarith), min_eq_left (by linarith), abs_of_pos (by linarith)]
    · rw [max_eq_left (by linarith), min_eq_right (by linarith), abs_of_neg (by linarith)]; ring
  have hlohi : min lo.t hi.t + min cfg.tau2 cfg.c2 * W ≤ max lo.t hi.t - cfg.tau3 * W := by linarith
  obtain ⟨t, htdef⟩ : ∃ t, t = clamp (tstar g0 h) (min lo.t hi.t + min cfg.tau2 cfg.c2 * W) (max lo.t hi.t - cfg.tau3 * W) :=
    ⟨_, rfl⟩
  obtain ⟨tc1, tc2⟩ := clamp_mem (v := tstar g0 h) hlohi
  rw [← htdef] at tc1 tc2
  have hmin0 : 0 ≤ min lo.t hi.t := le_min inv.lo_t inv.hi_t
  have ht0 : 0 < t := by linarith
  have hcur' : (ask (fun _ => quadLine f0 g0 h) ctx t).cur = quadLine f0 g0 h t := by simp [ask]
  have htdef' : t = clamp (cfg.interp lo hi) (cmin lo.t hi.t + cmin cfg.tau2 cfg.c2 * absv (hi.t - lo.t))
      (cmax lo.t hi.t - cfg.tau3 * absv (hi.t - lo.t)) := by
    rw [hint, cmin_eq_min, cmin_eq_min, cmax_eq_max, absv_eq_abs, ← hWdef]; exact htdef
  rw [zoom_step_eq cfg _ _ n lo hi ctx t hguard htdef' (by rw [hcur']; rfl), hcur']
  generalize ask (fun _ => quadLine f0 g0 h) ctx t = ctx' at hcur' ⊢
  have hton : OnQuad f0 g0 h (stepOf ctx' t) := onQuad_stepOf f0 g0 h _ t hcur'
  have hslope := quad_slope (f0 := f0) (g0 := g0) hh t
  have hτ3W : cfg.tau3 * W = cfg.tau3 * |hi.t - lo.t| := by rw [hWdef]
  rcases clamp_lt_cases (v := tstar g0 h) hlohi with ⟨e, _, _⟩ | ⟨e, hlt⟩ | ⟨e, hlt⟩
  · -- the trial is `t*`: accepted
    rw [← htdef] at e
    obtain ⟨m1, m2⟩ := zoom_case_mid cfg f0 g0 h hg hh hc1 hc20 lo hi inv
    rw [e, if_neg m1, if_pos m2]
    exact Or.inl ⟨rfl, hp, by rw [hcur', e]⟩
  · -- clamped from below: `t = min + μ W > t*`
    rw [← htdef] at e
    have htgt : tstar g0 h < t := by rw [e]; exact hlt
    by_cases hB1 : hasArmijo f0 g0 (quadLine f0 g0 h t).f t cfg.c1 = false ∨ (quadLine f0 g0 h t).f ≥ lo.f
    · rw [if_pos hB1]
      rcases inv.between with ⟨a, b⟩ | ⟨a, b⟩
      · have hmin : min lo.t hi.t = lo.t := min_eq_left (by linarith)
        rw [hmin] at e
        refine Or.inr ⟨lo, stepOf ctx' t, ctx', rfl, ⟨inv.lo_on, hton, inv.lo_t, le_of_lt ht0, inv.lo_armijo, inv.lo_nsw,
          Or.inl ⟨a, htgt⟩⟩, ?_⟩
        simp only [stepOf]
        rw [abs_of_pos (by linarith), ← hτ3W]; linarith
      · exfalso
        have hmax : max lo.t hi.t = lo.t := max_eq_left (by linarith)
        rw [hmax] at tc2
        have htlo : t < lo.t := by linarith
        rcases hB1 with hB1 | hB1
        · have : hasArmijo f0 g0 (quadLine f0 g0 h t).f t cfg.c1 = true := by
            rw [armijo_quad_iff hh ht0]; linarith [inv.lo_armijo]
          rw [this] at hB1; cases hB1
        · exact zoom_f_lt cfg f0 g0 h hg hh hc1 hc20 lo inv.lo_on t (Or.inr ⟨le_of_lt htgt, htlo⟩) hB1
    · rw [if_neg hB1]
      have hA : hasArmijo f0 g0 (quadLine f0 g0 h t).f t cfg.c1 = true := by
        have := (not_or.mp hB1).1; simpa using this
      have htT : t ≤ 2 * (1 - cfg.c1) * tstar g0 h := (armijo_quad_iff hh ht0).mp hA
      by_cases hS : hasStrongWolfe g0 (quadLine f0 g0 h t).g cfg.c2 = true
      · rw [if_pos hS]; exact Or.inl ⟨rfl, ht0, hcur'⟩
      · rw [if_neg hS]
        have hnsw : cfg.c2 * tstar g0 h < |t - tstar g0 h| := by
          rw [strongWolfe_quad_iff hg hh] at hS; exact not_le.mp hS
        have hgpos : 0 < (quadLine f0 g0 h t).g := by rw [hslope]; exact mul_pos hh (by linarith)
        rcases inv.between with ⟨a, b⟩ | ⟨a, b⟩
        · have hmin : min lo.t hi.t = lo.t := min_eq_left (by linarith)
          rw [hmin] at e
          have hcond : (quadLine f0 g0 h t).g * (hi.t - lo.t) ≥ 0 := le_of_lt (mul_pos hgpos (by linarith))
          rw [if_pos hcond]
          refine Or.inr ⟨stepOf ctx' t, lo, ctx', rfl, ⟨hton, inv.lo_on, le_of_lt ht0, inv.lo_t, htT, hnsw,
            Or.inr ⟨a, htgt⟩⟩, ?_⟩
          simp only [stepOf]
          rw [abs_of_neg (by linarith), ← hτ3W]; linarith
        · have hmin : min lo.t hi.t = hi.t := min_eq_right (by linarith)
          rw [hmin] at e
          have hcond : ¬ (quadLine f0 g0 h t).g * (hi.t - lo.t) ≥ 0 := by
            rw [ge_iff_le, not_le]; exact mul_neg_of_pos_of_neg hgpos (by linarith)
          rw [if_neg hcond]
          refine Or.inr ⟨stepOf ctx' t, hi, ctx', rfl, ⟨hton, inv.hi_on, le_of_lt ht0, inv.hi_t, htT, hnsw,
            Or.inr ⟨a, htgt⟩⟩, ?_⟩
          simp only [stepOf]
          rw [abs_of_neg (by linarith), ← hτ3W]; linarith
  · -- clamped from above: `t = max - τ3 W < t*`
    rw [← htdef] at e
    have htlt : t < tstar g0 h := by rw [e]; exact hlt
    have hAt : hasArmijo f0 g0 (quadLine f0 g0 h t).f t cfg.c1 = true := by
      rw [armijo_quad_iff hh ht0]; nlinarith
    have hgneg : (quadLine f0 g0 h t).g < 0 := by rw [hslope]; exact mul_neg_of_pos_of_neg hh (by linarith)
    by_cases hB1 : hasArmijo f0 g0 (quadLine f0 g0 h t).f t cfg.c1 = false ∨ (quadLine f0 g0 h t).f ≥ lo.f
    · rw [if_pos hB1]
      have hB1' : (quadLine f0 g0 h t).f ≥ lo.f := by
        rcases hB1 with hB1 | hB1
        · rw [hAt] at hB1; cases hB1
        · exact hB1
      rcases inv.between with ⟨a, b⟩ | ⟨a, b⟩
      · exfalso
        have hmin : min lo.t hi.t = lo.t := min_eq_left (by linarith)
        rw [hmin] at tc1
        exact zoom_f_lt cfg f0 g0 h hg hh hc1 hc20 lo inv.lo_on t (Or.inl ⟨by linarith, le_of_lt htlt⟩) hB1'
      · have hmax : max lo.t hi.t = lo.t := max_eq_left (by linarith)
        rw [hmax] at e
        refine Or.inr ⟨lo, stepOf ctx' t, ctx', rfl, ⟨inv.lo_on, hton, inv.lo_t, le_of_lt ht0, inv.lo_armijo, inv.lo_nsw,
          Or.inr ⟨htlt, b⟩⟩, ?_⟩
        simp only [stepOf]
        rw [abs_of_neg (by linarith), ← hτ3W]; linarith
    · rw [if_neg hB1]
      have htT : t ≤ 2 * (1 - cfg.c1) * tstar g0 h := (armijo_quad_iff hh ht0).mp hAt
      by_cases hS : hasStrongWolfe g0 (quadLine f0 g0 h t).g cfg.c2 = true
      · rw [if_pos hS]; exact Or.inl ⟨rfl, ht0, hcur'⟩
      · rw [if_neg hS]
        have hnsw : cfg.c2 * tstar g0 h < |t - tstar g0 h| := by
          rw [strongWolfe_quad_iff hg hh] at hS; exact not_le.mp hS
        rcases inv.between with ⟨a, b⟩ | ⟨a, b⟩
        · have hmax : max lo.t hi.t = hi.t := max_eq_right (by linarith)
          rw [hmax] at e
          have hcond : ¬ (quadLine f0 g0 h t).g * (hi.t - lo.t) ≥ 0 := by
            rw [ge_iff_le, not_le]; exact mul_neg_of_neg_of_pos hgneg (by linarith)
          rw [if_neg hcond]
          refine Or.inr ⟨stepOf ctx' t, hi, ctx', rfl, ⟨hton, inv.hi_on, le_of_lt ht0, inv.hi_t, htT, hnsw,
            Or.inl ⟨htlt, b⟩⟩, ?_⟩
          simp only [stepOf]
          rw [abs_of_pos (by linarith), ← hτ3W]; linarith
        · have hmax : max lo.t hi.t = lo.t := max_eq_left (by linarith)
          rw [hmax] at e
          have hcond : (quadLine f0 g0 h t).g * (hi.t - lo.t) ≥ 0 :=
            le_of_lt (mul_pos_of_neg_of_neg hgneg (by linarith))
          rw [if_pos hcond]
          refine Or.inr ⟨stepOf ctx' t, lo, ctx', rfl, ⟨hton, inv.lo_on, le_of_lt ht0, inv.lo_t, htT, hnsw,
            Or.inl ⟨htlt, b⟩⟩, ?_⟩
          simp only [stepOf]
          rw [abs_of_pos (by linarith), ← hτ3W]; linarith

/-- `zoom` on the quadratic succeeds within `j + 1` iterations when `τ3^j |hi.t - lo.t| ≤ ρ = min(c2, 1 - 2c1) t*`
    (a bracket narrower than `c2 t*` cannot satisfy the invariant) -/
theorem zoom_quad :
    ∀ (j n : Nat) (lo hi : Step α) (ctx : Ctx α), j < n → ZoomInv cfg f0 g0 h lo hi →
      cfg.tau3 ^ j * |hi.t - lo.t| ≤ min cfg.c2 (1 - 2 * cfg.c1) * tstar g0 h →
      QuadOK f0 g0 h (zoom cfg (fun _ => quadLine f0 g0 h) ⟨f0, g0, true⟩ n lo hi ctx) := by
  have hp := tstar_pos hg hh
  have hρ1 : min cfg.c2 (1 - 2 * cfg.c1) * tstar g0 h ≤ cfg.c2 * tstar g0 h :=
    mul_le_mul_of_nonneg_right (min_le_left _ _) (le_of_lt hp)
  have htau30 : 0 < cfg.tau3 := lt_of_lt_of_le htau2 htau23
  intro j
  induction j with
  | zero =>
    intro n lo hi ctx hn inv hW
    simp only [pow_zero, one_mul] at hW
    exfalso
    have h1 : |lo.t - tstar g0 h| ≤ |hi.t - lo.t| := by
      rcases inv.between with ⟨a, b⟩ | ⟨a, b⟩
      · rw [abs_of_neg (by linarith), abs_of_pos (by linarith)]; linarith
      · rw [abs_of_pos (by linarith), abs_of_neg (by linarith)]; linarith
    have := inv.lo_nsw
    linarith
  | succ j ih =>
    intro n lo hi ctx hn inv hW
    obtain ⟨n', rfl⟩ : ∃ n', n = n' + 1 := ⟨n - 1, by omega⟩
    rcases zoom_quad_step cfg f0 g0 h hg hh hI hc1 hc20 hc21 htau2 htau23 htau3 heps1 n' lo hi ctx inv with h1 | ⟨lo', hi', ctx', e, inv', hw'⟩
    · exact h1
    · rw [e]
      refine ih n' lo' hi' ctx' (by omega) inv' ?_
      calc cfg.tau3 ^ j * |hi'.t - lo'.t| ≤ cfg.tau3 ^ j * (cfg.tau3 * |hi.t - lo.t|) :=
            mul_le_mul_of_nonneg_left hw' (pow_nonneg (le_of_lt htau30) j)
        _ = cfg.tau3 ^ (j + 1) * |hi.t - lo.t| := by ring
        _ ≤ _ := hW

/-- the bracketing phase of Fletcher on the quadratic, from any trial step `t > prev.t` -/
theorem fletcher_quad (htau1 : 2 ≤ cfg.tau1) (J : Nat) (hJ : J < cfg.maxIter) :
    ∀ (k n : Nat) (prev : Step α) (t : α) (ctx : Ctx α), k < n → OnQuad f0 g0 h prev → 0 ≤ prev.t → prev.t < t →
      prev.t < tstar g0 h → cfg.c2 * tstar g0 h < |prev.t - tstar g0 h| → ctx.cur = quadLine f0 g0 h t →
      tstar g0 h ≤ prev.t + cfg.tau1 ^ k * (t - prev.t) →
      cfg.tau3 ^ J * max t ((1 + cfg.tau1) * tstar g0 h) ≤ min cfg.c2 (1 - 2 * cfg.c1) * tstar g0 h →
      QuadOK f0 g0 h (fletcher cfg (fun _ => quadLine f0 g0 h) ⟨f0, g0, true⟩ n prev (stepOf ctx t) t ctx) := by
  have hp := tstar_pos hg hh
  have htau30 : 0 < cfg.tau3 := lt_of_lt_of_le htau2 htau23
  have hT : tstar g0 h ≤ 2 * (1 - cfg.c1) * tstar g0 h := by nlinarith
  intro k
  induction k with
  | zero =>
    intro n prev t ctx hn hprev hp0 hpt hps hpn hc hk hW
    obtain ⟨n', rfl⟩ : ∃ n', n = n' + 1 := ⟨n - 1, by omega⟩
    simp only [pow_zero, one_mul] at hk
    have htge : tstar g0 h ≤ t := by linarith
    -- the step is at or beyond `t*`: the expansion branch is not taken
    have ht0 : 0 < t := by linarith
    have hWz : cfg.tau3 ^ J * |t - prev.t| ≤ min cfg.c2 (1 - 2 * cfg.c1) * tstar g0 h := by
      have : |t - prev.t| ≤ max t ((1 + cfg.tau1) * tstar g0 h) := by
        rw [abs_of_pos (by linarith)]; exact le_trans (by linarith) (le_max_left _ _)
      exact le_trans (mul_le_mul_of_nonneg_left this (pow_nonneg (le_of_lt htau30) J)) hW
    have hcurr : OnQuad f0 g0 h (stepOf ctx t) := onQuad_stepOf f0 g0 h ctx t hc
    by_cases hB : hasArmijo f0 g0 ctx.cur.f t cfg.c1 = false ∨ (stepOf ctx t).f ≥ prev.f
    · simp only [fletcher, hB, if_true]
      have htgt : tstar g0 h < t := by
        rcases hB with hB | hB
        · have : ¬ hasArmijo f0 g0 ctx.cur.f t cfg.c1 = true := by rw [hB]; simp
          rw [hc, armijo_quad_iff hh ht0] at this; linarith [not_le.mp this]
        · by_contra hle
          have hle : t ≤ tstar g0 h := not_lt.mp hle
          have : ¬ (quadLine f0 g0 h t).f ≥ prev.f :=
            zoom_f_lt cfg f0 g0 h hg hh hc1 hc20 prev hprev t (Or.inl ⟨hpt, hle⟩)
          apply this; simpa [stepOf, hc] using hB
      exact zoom_quad cfg f0 g0 h hg hh hI hc1 hc20 hc21 htau2 htau23 htau3 heps1 J cfg.maxIter prev (stepOf ctx t) ctx hJ
        ⟨hprev, hcurr, hp0, le_of_lt ht0, by linarith, hpn, Or.inl ⟨hps, htgt⟩⟩ (by simpa [stepOf] using hWz)
    · have hA : hasArmijo f0 g0 ctx.cur.f t cfg.c1 = true := by
        have := (not_or.mp hB).1; simpa using this
      by_cases hS : hasStrongWolfe g0 ctx.cur.g cfg.c2 = true
      · simp only [fletcher, hB, hS, if_true, if_false]
        exact ⟨rfl, ht0, hc⟩
      · have hnd : hasDescent ctx.cur.g = false := by
          have : 0 ≤ ctx.cur.g := by rw [hc]; exact quad_slope_nonneg hh htge
          simp [hasDescent, this]
        simp only [fletcher, hB, hS, hnd, if_true, if_false]
        have hnsw : cfg.c2 * tstar g0 h < |t - tstar g0 h| := by
          rw [hc, strongWolfe_quad_iff hg hh] at hS; exact not_le.mp hS
        have htgt : tstar g0 h < t := by
          rcases lt_or_eq_of_le htge with h' | h'
          · exact h'
          · rw [← h'] at hnsw; simp at hnsw; nlinarith
        have htT : t ≤ 2 * (1 - cfg.c1) * tstar g0 h := by
          rw [hc] at hA; exact (armijo_quad_iff hh ht0).mp hA
        exact zoom_quad cfg f0 g0 h hg hh hI hc1 hc20 hc21 htau2 htau23 htau3 heps1 J cfg.maxIter (stepOf ctx t) prev ctx hJ
          ⟨hcurr, hprev, le_of_lt ht0, hp0, htT, hnsw, Or.inr ⟨hps, htgt⟩⟩
          (by rw [abs_sub_comm]; simpa [stepOf] using hWz)
  | succ k ih =>
    intro n prev t ctx hn hprev hp0 hpt hps hpn hc hk hW
    obtain ⟨n', rfl⟩ : ∃ n', n = n' + 1 := ⟨n - 1, by omega⟩
    have ht0 : 0 < t := by linarith
    have hWz : cfg.tau3 ^ J * |t - prev.t| ≤ min cfg.c2 (1 - 2 * cfg.c1) * tstar g0 h := by
      have : |t - prev.t| ≤ max t ((1 + cfg.tau1) * tstar g0 h) := by
        rw [abs_of_pos (by linarith)]; exact le_trans (by linarith) (le_max_left _ _)
      exact le_trans (mul_le_mul_of_nonneg_left this (pow_nonneg (le_of_lt htau30) J)) hW
    have hcurr : OnQuad f0 g0 h (stepOf ctx t) := onQuad_stepOf f0 g0 h ctx t hc
    by_cases hB : hasArmijo f0 g0 ctx.cur.f t cfg.c1 = false ∨ (stepOf ctx t).f ≥ prev.f
    · simp only [fletcher, hB, if_true]
      have htgt : tstar g0 h < t := by
        rcases hB with hB | hB
        · have : ¬ hasArmijo f0 g0 ctx.cur.f t cfg.c1 = true := by rw [hB]; simp
          rw [hc, armijo_quad_iff hh ht0] at this; linarith [not_le.mp this]
        · by_contra hle
          have hle : t ≤ tstar g0 h := not_lt.mp hle
          have : ¬ (quadLine f0 g0 h t).f ≥ prev.f :=
            zoom_f_lt cfg f0 g0 h hg hh hc1 hc20 prev hprev t (Or.inl ⟨hpt, hle⟩)
          apply this; simpa [stepOf, hc] using hB
      exact zoom_quad cfg f0 g0 h hg hh hI hc1 hc20 hc21 htau2 htau23 htau3 heps1 J cfg.maxIter prev (stepOf ctx t) ctx hJ
        ⟨hprev, hcurr, hp0, le_of_lt ht0, by linarith, hpn, Or.inl ⟨hps, htgt⟩⟩ (by simpa [stepOf] using hWz)
    · have hA : hasArmijo f0 g0 ctx.cur.f t cfg.c1 = true := by
        have := (not_or.mp hB).1; simpa using this
      have htT : t ≤ 2 * (1 - cfg.c1) * tstar g0 h := by
        rw [hc] at hA; exact (armijo_quad_iff hh ht0).mp hA
      by_cases hS : hasStrongWolfe g0 ctx.cur.g cfg.c2 = true
      · simp only [fletcher, hB, hS, if_true, if_false]
        exact ⟨rfl, ht0, hc⟩
      · have hnsw : cfg.c2 * tstar g0 h < |t - tstar g0 h| := by
          rw [hc, strongWolfe_quad_iff hg hh] at hS; exact not_le.mp hS
        by_cases hnd : hasDescent ctx.cur.g = false
        · simp only [fletcher, hB, hS, hnd, if_true, if_false]
          have htge : tstar g0 h ≤ t := by
            have h0 := nonneg_of_no_descent hnd
            rw [hc, quad_slope hh] at h0
            by_contra hlt
            have hlt : t < tstar g0 h := not_le.mp hlt
            nlinarith [mul_pos hh (sub_pos.mpr hlt)]
          have htgt : tstar g0 h < t := by
            rcases lt_or_eq_of_le htge with h' | h'
            · exact h'
            · rw [← h'] at hnsw; simp at hnsw; nlinarith
          exact zoom_quad cfg f0 g0 h hg hh hI hc1 hc20 hc21 htau2 htau23 htau3 heps1 J cfg.maxIter (stepOf ctx t) prev ctx hJ
            ⟨hcurr, hprev, le_of_lt ht0, hp0, htT, hnsw, Or.inr ⟨hps, htgt⟩⟩
            (by rw [abs_sub_comm]; simpa [stepOf] using hWz)
        · -- expansion: `t < t*`
          have htlt : t < tstar g0 h := by
            have h0 := not_descent hnd
            rw [hc, quad_slope hh] at h0
            by_contra hge
            have hge : tstar g0 h ≤ t := not_lt.mp hge
            nlinarith [mul_nonneg (le_of_lt hh) (sub_nonneg.mpr hge)]
          have hΔ : 0 < t - prev.t := by linarith
          have hint : cfg.interp prev (stepOf ctx t) = tstar g0 h :=
            hI prev (stepOf ctx t) hprev hcurr (by simp only [stepOf]; exact ne_of_lt hpt)
          have hlohi : t + 2 * (t - prev.t) ≤ t + cfg.tau1 * (t - prev.t) := by nlinarith
          obtain ⟨t', ht'def⟩ : ∃ t', t' = clamp (tstar g0 h) (t + 2 * (t - prev.t)) (t + cfg.tau1 * (t - prev.t)) := ⟨_, rfl⟩
          obtain ⟨c1', c2'⟩ := clamp_mem (v := tstar g0 h) hlohi
          rw [← ht'def] at c1' c2'
          have hok' : (ask (fun _ => quadLine f0 g0 h) ctx t').cur.ok = true := by simp [ask, quadLine]
          have hstep : fletcher cfg (fun _ => quadLine f0 g0 h) ⟨f0, g0, true⟩ (n' + 1) prev (stepOf ctx t) t ctx =
              fletcher cfg (fun _ => quadLine f0 g0 h) ⟨f0, g0, true⟩ n' (stepOf ctx t)
                (stepOf (ask (fun _ => quadLine f0 g0 h) ctx t') t') t' (ask (fun _ => quadLine f0 g0 h) ctx t') := by
            simp only [fletcher, hB, hS, hnd, if_false, hint]
            simp only [stepOf] at ht'def ⊢
            rw [← ht'def]
            simp only [hok', if_true, Bool.false_eq_true, Bool.true_eq_false, if_false]
          rw [hstep]
          have htt' : t < t' := by linarith
          refine ih n' (stepOf ctx t) t' _ (by omega) hcurr (le_of_lt ht0) htt' htlt hnsw (by simp [ask]) ?_ ?_
          · -- the measure: either `t' ≥ t*` already, or `t' = t + tau1 Δ`
            simp only [stepOf]
            rcases clamp_lt_cases (v := tstar g0 h) hlohi with ⟨e, _, _⟩ | ⟨e, hlt⟩ | ⟨e, hlt⟩
            · rw [← ht'def] at e
              have h1 : (1 : α) ≤ cfg.tau1 ^ k := one_le_pow₀ (by linarith)
              have := mul_le_mul_of_nonneg_right h1 (le_of_lt (sub_pos.mpr htt'))
              linarith
            · rw [← ht'def] at e
              have h1 : (1 : α) ≤ cfg.tau1 ^ k := one_le_pow₀ (by linarith)
              have := mul_le_mul_of_nonneg_right h1 (le_of_lt (sub_pos.mpr htt'))
              linarith
            · rw [← ht'def] at e
              have e2 : t' - t = cfg.tau1 * (t - prev.t) := by linarith
              rw [e2]
              have e3 : cfg.tau1 ^ k * (cfg.tau1 * (t - prev.t)) = cfg.tau1 ^ (k + 1) * (t - prev.t) := by ring
              rw [e3]; linarith
          · -- the zoom budget: `t' ≤ (1 + tau1) t*`
            have h1 : t' ≤ (1 + cfg.tau1) * tstar g0 h := by nlinarith
            have h2 : max t' ((1 + cfg.tau1) * tstar g0 h) ≤ max t ((1 + cfg.tau1) * tstar g0 h) :=
              max_le (le_trans h1 (le_max_right _ _)) (le_max_right _ _)
            exact le_trans (mul_le_mul_of_nonneg_left h2 (pow_nonneg (le_of_lt htau30) J)) hW

end

end NanoVerif.LSearch
