import NanoVerif.Proofs.PoolJ
import NanoVerif.Proofs.PoolSeq
/-!
  C17 — all invariants hold in every reachable state; the quiescence argument. Core Lean only.
-/
namespace NanoVerif.Pool

theorem reachable_invs (s : St) (hr : Reachable s) : Inv s ∧ J s ∧ Inv2 s ∧ SeqInv s := by
  refine reachable_induction (fun s => Inv s ∧ J s ∧ Inv2 s ∧ SeqInv s) ?_ ?_ s hr
  · intro nw; exact ⟨inv_init nw, J_init nw, inv2_init nw, seq_init nw⟩
  · rintro s e s' ⟨hi, hj, h2, hs⟩ h
    exact ⟨inv_step s s' e hi h, J_step s s' e hj h, inv2_step s s' e hi h2 h, seq_step s s' e hs h⟩

/-- events by which the environment starts a new client call (`enqueue`/`map` pushing its tasks, `~pool_t` setting
    stop, `map` entering its sequential path); every other event is the pool's own progress -/
def startsCall : Ev → Bool
  | .cPush _ _ _ => true
  | .dStop _ => true
  | .sStart _ _ => true
  | _ => false

def isWake : Ev → Bool
  | .wWake _ => true
  | _ => false

/-- no event other than a wake-up and other than the start of a new call is enabled -/
def Quiescent (s : St) : Prop := ∀ e, isWake e = false → startsCall e = false → step s e = none

theorem quiescent_workers (s : St) (hq : Quiescent s) (w : Nat) (hw : w < s.nw) :
    s.wpc w = .sleeping ∨ s.wpc w = .exited := by
  cases hpc : s.wpc w with
  | sleeping => exact Or.inl rfl
  | exited => exact Or.inr rfl
  | running t =>
    have := hq (.wRunEnd w false) rfl rfl
    simp [step, hw, hpc] at this
  | ready =>
    cases hstop : s.stop with
    | true =>
      have := hq (.wExit w) rfl rfl
      simp [step, hw, hpc, hstop] at this
    | false =>
      cases hqu : s.queue with
      | nil =>
        have := hq (.wSleep w) rfl rfl
        simp [step, hw, hpc, hstop, hqu] at this
      | cons t q =>
        have := hq (.wTake w) rfl rfl
        simp [step, hw, hpc, hstop, hqu] at this

theorem quiescent_no_debt (s : St) (hq : Quiescent s) (c : Nat) : owesNotify (s.cpc c) = false := by
  cases hpc : s.cpc c with
  | pushed ts all =>
    cases all with
    | true =>
      have := hq (.cNotify c none) rfl rfl
      simp [step, hpc] at this
    | false =>
      by_cases hs : ∀ v, v < s.nw → s.wpc v ≠ .sleeping
      · have := hq (.cNotify c none) rfl rfl
        simp only [step, hpc] at this
        simp at this
        obtain ⟨v, hv, hvs⟩ := this
        exact absurd hvs (hs v hv)
      · obtain ⟨v, hv⟩ := Classical.not_forall.mp hs
        obtain ⟨hvlt, hvs⟩ := Classical.not_imp.mp hv
        have hvs' : s.wpc v = .sleeping := Classical.not_not.mp hvs
        have := hq (.cNotify c (some v)) rfl rfl
        simp [step, hpc, hvlt, hvs'] at this
  | stopSet =>
    have := hq (.cNotify c none) rfl rfl
    simp [step, hpc] at this
  | idle => rfl
  | waiting ts => rfl
  | joining => rfl
  | finished => rfl
  | seq n i b err => rfl

/-- in a quiescent state J can only hold through its last alternative -/
theorem quiescent_all_exited (s : St) (hj : J s) (hq : Quiescent s) (hprem : s.queue ≠ [] ∨ s.stop = true) :
    ∀ w, w < s.nw → s.wpc w = .exited := by
  rcases hj hprem with ⟨w, hw, ha⟩ | ⟨c, hc⟩ | h
  · rcases quiescent_workers s hq w hw with h1 | h1 <;> rw [h1] at ha <;> simp [active] at ha
  · rw [quiescent_no_debt s hq c] at hc; cases hc
  · exact h

theorem quiescent_queue_empty (s : St) (hj : J s) (h2 : Inv2 s) (hnw : 0 < s.nw) (hq : Quiescent s) : s.queue = [] := by
  cases hqu : s.queue with
  | nil => rfl
  | cons t q =>
    have hall := quiescent_all_exited s hj hq (Or.inl (by rw [hqu]; simp))
    have := h2.Q ⟨0, hnw, hall 0 hnw⟩
    rw [hqu] at this; cases this

end NanoVerif.Pool
