import NanoVerif.Model.TunerSurrogate
import Mathlib.Algebra.Order.Field.Basic
import Mathlib.Tactic.Ring
import Mathlib.Tactic.Linarith
import Mathlib.Tactic.Positivity
/-!
  C13 — algebra of the quadratic surrogate (`Model/TunerSurrogate.lean`), over any ordered field (characteristic 0 is needed for the `0.5` of the `mse` loss):

  * along every line `x + t d` both functions handed to the solver are EXACTLY quadratic polynomials in `t`:
      `f (x + t d) = f x + t * ⟨∇f x, d⟩ + t² * curv d`
    with `∇f` the gradient as coded (`fitGrad`, `quadGrad`) — so the coded gradient is the derivative (the calculus
    statement `HasDerivAt` is drawn from this in `Proofs/TunerSurrogateDeriv.lean`);
  * the curvature of the fit objective is a sum of squares: the fit is convex, a stationary point is a global minimiser;
  * the value of the fitted quadratic at `p` is the fit's output for a sample at `p` (same coefficients, same features).
-/
set_option linter.unusedSectionVars false

namespace NanoVerif.Tuner

section ring
variable {α : Type} [Field α] [LinearOrder α] [IsStrictOrderedRing α]

/-- the point `x + t d` -/
def vline (x d : List α) (t : α) : List α := List.zipWith (fun a b => a + t * b) x d

theorem vline_length (x d : List α) (t : α) (hd : d.length = x.length) : (vline x d t).length = x.length := by
  simp [vline, hd]

@[simp] theorem sdot_nil_left (b : List α) : sdot ([] : List α) b = 0 := by simp [sdot]
@[simp] theorem sdot_nil_right (a : List α) : sdot a ([] : List α) = 0 := by cases a <;> simp [sdot]
@[simp] theorem sdot_cons (a : α) (as : List α) (b : α) (bs : List α) :
    sdot (a :: as) (b :: bs) = a * b + sdot as bs := by simp [sdot]

theorem sdot_comm : ∀ (a b : List α), sdot a b = sdot b a
  | [], b => by simp
  | a :: as, [] => by simp
  | a :: as, b :: bs => by simp [sdot_comm as bs, mul_comm]

theorem sdot_vline : ∀ (row x d : List α) (t : α), d.length = x.length →
    sdot row (vline x d t) = sdot row x + t * sdot row d
  | [], x, d, t, _ => by simp
  | a :: as, [], d, t, h => by
    have : d = [] := List.length_eq_zero_iff.mp (by simpa using h)
    subst this; simp [vline]
  | a :: as, b :: bs, [], t, h => by simp at h
  | a :: as, b :: bs, c :: cs, t, h => by
    have ih := sdot_vline as bs cs t (by simpa using h)
    simp only [vline, List.zipWith_cons_cons, sdot_cons] at ih ⊢
    rw [ih]; ring

/-! ### the fit objective -/

/-- `Σ_s (row_s · x − y_s) (row_s · d)`: the directional derivative of the fit objective, written out -/
def fitDir : List (List α) → List α → List α → List α → α
  | row :: rows, t :: ts, x, d => (sdot row x - t) * sdot row d + fitDir rows ts x d
  | _, _, _, _ => 0

/-- the fit objective along a line is exactly a quadratic polynomial -/
theorem fitValue_vline : ∀ (rows : List (List α)) (ys x d : List α) (t : α), d.length = x.length →
    fitValue rows ys (vline x d t) = fitValue rows ys x + t * fitDir rows ys x d + t ^ 2 * fitCurv rows ys d
  | [], ys, x, d, t, _ => by simp [fitValue, fitDir, fitCurv]
  | row :: rows, [], x, d, t, _ => by simp [fitValue, fitDir, fitCurv]
  | row :: rows, y :: ys, x, d, t, h => by
    have ih := fitValue_vline rows ys x d t h
    simp only [fitValue, fitDir, fitCurv]
    rw [ih, sdot_vline row x d t h]; ring

theorem vadd2_length : ∀ (a b : List α), a.length = b.length → (vadd2 a b).length = b.length
  | [], [], _ => rfl
  | [], _ :: _, h => by simp at h
  | _ :: _, [], h => by simp at h
  | a :: as, b :: bs, h => by simp [vadd2, vadd2_length as bs (by simpa using h)]

theorem smul2_length (c : α) : ∀ (a : List α), (smul2 c a).length = a.length
  | [] => rfl
  | a :: as => by simp [smul2, smul2_length c as]

theorem sdot_vadd2 : ∀ (a b d : List α), a.length = b.length → sdot (vadd2 a b) d = sdot a d + sdot b d
  | [], [], d, _ => by simp [vadd2]
  | [], _ :: _, _, h => by simp at h
  | _ :: _, [], _, h => by simp at h
  | a :: as, b :: bs, [], _ => by simp
  | a :: as, b :: bs, d :: ds, h => by
    simp only [vadd2, sdot_cons, sdot_vadd2 as bs ds (by simpa using h)]; ring

theorem sdot_smul2 (c : α) : ∀ (a d : List α), sdot (smul2 c a) d = c * sdot a d
  | [], d => by simp [smul2]
  | a :: as, [] => by simp
  | a :: as, d :: ds => by simp only [smul2, sdot_cons, sdot_smul2 c as ds]; ring

theorem sdot_zeros : ∀ (n : Nat) (d : List α), sdot (List.replicate n (0 : α)) d = 0
  | 0, d => by simp
  | n + 1, [] => by simp
  | n + 1, d :: ds => by simp [List.replicate_succ, sdot_zeros n ds]

theorem fitGrad_length : ∀ (rows : List (List α)) (ys x : List α), (∀ row ∈ rows, row.length = x.length) →
    (fitGrad rows ys x).length = x.length
  | [], ys, x, _ => by simp [fitGrad]
  | row :: rows, [], x, _ => by simp [fitGrad]
  | row :: rows, y :: ys, x, h => by
    have ih := fitGrad_length rows ys x (fun r hr => h r (List.mem_cons_of_mem _ hr))
    have hrow := h row List.mem_cons_self
    simp only [fitGrad]
    rw [vadd2_length _ _ (by rw [smul2_length, ih, hrow]), ih]

/-- the inner product of the coded gradient `m_p2ᵀ (m_p2 x − y)` with a direction is the directional derivative -/
theorem sdot_fitGrad : ∀ (rows : List (List α)) (ys x d : List α), (∀ row ∈ rows, row.length = x.length) →
    sdot (fitGrad rows ys x) d = fitDir rows ys x d
  | [], ys, x, d, _ => by simp [fitGrad, fitDir, sdot_zeros]
  | row :: rows, [], x, d, _ => by simp [fitGrad, fitDir, sdot_zeros]
  | row :: rows, y :: ys, x, d, h => by
    have hr : ∀ r ∈ rows, r.length = x.length := fun r hr => h r (List.mem_cons_of_mem _ hr)
    have hrow := h row List.mem_cons_self
    simp only [fitGrad, fitDir]
    rw [sdot_vadd2 _ _ _ (by rw [smul2_length, fitGrad_length rows ys x hr, hrow]), sdot_smul2,
      sdot_fitGrad rows ys x d hr]

/-- **the fit objective along every line**: value at `x + t d` = value + `t` · ⟨coded gradient, d⟩ + `t²` · curvature -/
theorem fit_expand (rows : List (List α)) (ys x d : List α) (t : α) (hrows : ∀ row ∈ rows, row.length = x.length)
    (hd : d.length = x.length) :
    fitValue rows ys (vline x d t) =
      fitValue rows ys x + t * sdot (fitGrad rows ys x) d + t ^ 2 * fitCurv rows ys d := by
  rw [fitValue_vline rows ys x d t hd, sdot_fitGrad rows ys x d hrows]

/-! ### the fitted quadratic -/

/-- the bilinear form of the product terms: `Σ q · x_i · y_j` -/
def qform (x y : List α) : List (α × Nat × Nat) → α
  | [] => 0
  | t :: ts => t.1 * at0 x t.2.1 * at0 y t.2.2 + qform x y ts

theorem quadValueGo_eq (x : List α) : ∀ (terms : List (α × Nat × Nat)) (fx : α),
    quadValueGo x terms fx = fx + qform x x terms
  | [], fx => by simp [quadValueGo, qform]
  | t :: ts, fx => by
    have ih := quadValueGo_eq x ts (fx + t.1 * at0 x t.2.1 * at0 x t.2.2)
    simp only [quadValueGo, List.foldl_cons, qform] at ih ⊢
    rw [ih]; ring

theorem at0_nil (i : Nat) : at0 ([] : List α) i = 0 := by simp [at0]

theorem at0_vline : ∀ (x d : List α) (t : α) (i : Nat), d.length = x.length →
    at0 (vline x d t) i = at0 x i + t * at0 d i
  | [], d, t, i, h => by
    have : d = [] := List.length_eq_zero_iff.mp (by simpa using h)
    subst this; simp [vline, at0]
  | x :: xs, [], t, i, h => by simp at h
  | x :: xs, d :: ds, t, 0, _ => by simp [vline, at0]
  | x :: xs, d :: ds, t, i + 1, h => by
    have ih := at0_vline xs ds t i (by simpa using h)
    simpa [vline, at0] using ih

theorem qform_vline (x d : List α) (t : α) (hd : d.length = x.length) : ∀ (terms : List (α × Nat × Nat)),
    qform (vline x d t) (vline x d t) terms =
      qform x x terms + t * (qform x d terms + qform d x terms) + t ^ 2 * qform d d terms
  | [] => by simp [qform]
  | u :: us => by
    simp only [qform, qform_vline x d t hd us, at0_vline x d t _ hd]; ring

theorem addAt_length : ∀ (g : List α) (i : Nat) (c : α), (addAt g i c).length = g.length
  | [], _, _ => rfl
  | g :: gs, 0, c => by simp [addAt]
  | g :: gs, i + 1, c => by simp [addAt, addAt_length gs i c]

theorem sdot_addAt : ∀ (g d : List α) (i : Nat) (c : α), g.length = d.length →
    sdot (addAt g i c) d = sdot g d + c * at0 d i
  | [], d, i, c, h => by
    have : d = [] := List.length_eq_zero_iff.mp (by simpa using h.symm)
    subst this; simp [addAt, at0]
  | g :: gs, [], i, c, h => by simp at h
  | g :: gs, d :: ds, 0, c, _ => by simp [addAt, at0]; ring
  | g :: gs, d :: ds, i + 1, c, h => by
    have ih := sdot_addAt gs ds i c (by simpa using h)
    simp only [addAt, sdot_cons, ih]
    simp [at0]; ring

theorem quadGradGo_length (x : List α) : ∀ (terms : List (α × Nat × Nat)) (g : List α),
    (quadGradGo x terms g).length = g.length
  | [], g => rfl
  | t :: ts, g => by
    have ih := quadGradGo_length x ts (addAt (addAt g t.2.1 (t.1 * at0 x t.2.2)) t.2.2 (t.1 * at0 x t.2.1))
    simp only [quadGradGo, List.foldl_cons] at ih ⊢
    rw [ih, addAt_length, addAt_length]

/-- the scatter updates `gx(i) += m x(j); gx(j) += m x(i)` produce the symmetrised bilinear form -/
theorem sdot_quadGradGo (x d : List α) : ∀ (terms : List (α × Nat × Nat)) (g : List α), g.length = d.length →
    sdot (quadGradGo x terms g) d = sdot g d + (qform x d terms + qform d x terms)
  | [], g, _ => by simp [quadGradGo, qform]
  | t :: ts, g, h => by
    have hl : (addAt (addAt g t.2.1 (t.1 * at0 x t.2.2)) t.2.2 (t.1 * at0 x t.2.1)).length = d.length := by
      rw [addAt_length, addAt_length, h]
    have ih := sdot_quadGradGo x d ts _ hl
    simp only [quadGradGo, List.foldl_cons] at ih ⊢
    rw [ih, sdot_addAt _ _ _ _ (by rw [addAt_length, h]), sdot_addAt _ _ _ _ h]
    simp only [qform]; ring

theorem foldl_add_eq : ∀ (l : List α) (a : α), l.foldl (fun fx t => fx + t) a = a + l.sum
  | [], a => by simp
  | b :: bs, a => by simp [foldl_add_eq bs (a + b), add_assoc]

theorem sum_zipWith_mul : ∀ (a b : List α), (List.zipWith (fun c xi => c * xi) a b).sum = sdot a b
  | [], b => by simp
  | a :: as, [] => by simp
  | a :: as, b :: bs => by simp [sum_zipWith_mul as bs]

theorem sdot_gradInit : ∀ (x lin d : List α), x.length = d.length →
    sdot (List.zipWith (fun (_ : α) c => 0 + c) x lin) d = sdot lin d
  | [], lin, d, h => by
    have : d = [] := List.length_eq_zero_iff.mp (by simpa using h.symm)
    subst this; simp
  | x :: xs, [], d, _ => by simp
  | x :: xs, l :: ls, [], h => by simp at h
  | x :: xs, l :: ls, d :: ds, h => by
    have ih := sdot_gradInit xs ls ds (by simpa using h)
    simp only [List.zipWith_cons_cons, sdot_cons, ih]; ring

/-- **the fitted quadratic along every line**: value at `x + t d` = value + `t` · ⟨coded gradient, d⟩ + `t²` · curvature.
    `hm` is implied by the `assert` of the constructor (`quadSize?`, see `quadSize_le`) -/
theorem quad_expand (m x d : List α) (t : α) (hm : 1 + x.length ≤ m.length) (hd : d.length = x.length) :
    quadValue m (vline x d t) = quadValue m x + t * sdot (quadGrad m x) d + t ^ 2 * quadCurv m d := by
  have hlin : ((m.drop 1).take x.length).length = x.length := by
    rw [List.length_take, List.length_drop]; omega
  have hg0 : (List.zipWith (fun (_ : α) c => 0 + c) x ((m.drop 1).take x.length)).length = d.length := by
    rw [List.length_zipWith, hlin, hd]; simp
  simp only [quadValue, quadGrad, quadCurv, vline_length x d t hd, hd]
  rw [quadValueGo_eq, quadValueGo_eq, quadValueGo_eq, foldl_add_eq, foldl_add_eq, sum_zipWith_mul, sum_zipWith_mul,
    sdot_vline _ x d t hd, qform_vline x d t hd, sdot_quadGradGo x d _ _ hg0, sdot_gradInit x _ d hd.symm]
  ring

/-! ### the fitted quadratic is the fit's prediction -/

theorem sdot_append : ∀ (a b c d : List α), a.length = c.length → sdot (a ++ b) (c ++ d) = sdot a c + sdot b d
  | [], b, [], d, _ => by simp
  | [], _, _ :: _, _, h => by simp at h
  | _ :: _, _, [], _, h => by simp at h
  | a :: as, b, c :: cs, d, h => by
    simp only [List.cons_append, sdot_cons, sdot_append as b cs d (by simpa using h)]; ring

theorem qform_qterms (p : List α) : ∀ (idx : List (Nat × Nat)) (quad : List α),
    qform p p (List.zipWith (fun q ij => (q, ij.1, ij.2)) quad idx) =
      sdot (idx.map fun ij => at0 p ij.1 * at0 p ij.2) quad
  | [], quad => by simp [qform]
  | ij :: idx, [] => by simp [qform]
  | ij :: idx, q :: quad => by
    simp only [List.zipWith_cons_cons, qform, List.map_cons, sdot_cons, qform_qterms p idx quad]; ring

/-- **the value of the fitted quadratic at `p` is the fit's output for a sample at `p`**: the same coefficients against
    the same features `quadTerms p` (what `m_p2.matrix() * x` computes row by row, surrogate.cpp:48) -/
theorem quad_is_fit_output (m p : List α) (hm : 1 + p.length ≤ m.length) : quadValue m p = sdot (quadTerms p) m := by
  obtain ⟨m0, rest, rfl⟩ : ∃ m0 rest, m = m0 :: rest := by
    cases m with
    | nil => simp at hm
    | cons a b => exact ⟨a, b, rfl⟩
  have hrest : p.length ≤ rest.length := by simp at hm; omega
  have hsplit : rest = rest.take p.length ++ rest.drop p.length := (List.take_append_drop _ _).symm
  have hlen : (rest.take p.length).length = p.length := by rw [List.length_take]; omega
  simp only [quadValue, quadTerms, qterms, List.drop_succ_cons, List.drop_zero, List.getD_cons_zero,
    Nat.add_comm 1 p.length]
  rw [quadValueGo_eq, foldl_add_eq, sum_zipWith_mul, qform_qterms, sdot_cons]
  conv_rhs => rw [hsplit, sdot_append _ _ _ _ hlen.symm]
  rw [sdot_comm (rest.take p.length) p]
  ring

end ring

/-! ### convexity of the fit -/

section ordered
variable {α : Type} [Field α] [LinearOrder α] [IsStrictOrderedRing α]

/-- the curvature of the fit objective is a sum of squares -/
theorem fitCurv_nonneg : ∀ (rows : List (List α)) (ys d : List α), 0 ≤ fitCurv rows ys d
  | [], ys, d => by simp [fitCurv]
  | row :: rows, [], d => by simp [fitCurv]
  | row :: rows, y :: ys, d => by
    have ih := fitCurv_nonneg rows ys d
    simp only [fitCurv]
    have : 0 ≤ sdot row d * sdot row d := mul_self_nonneg _
    linarith [this, ih]

/-- first-order condition: the fit objective lies above each of its tangent planes -/
theorem fit_above_tangent (rows : List (List α)) (ys x d : List α) (hrows : ∀ row ∈ rows, row.length = x.length)
    (hd : d.length = x.length) :
    fitValue rows ys x + sdot (fitGrad rows ys x) d ≤ fitValue rows ys (vline x d 1) := by
  rw [fit_expand rows ys x d 1 hrows hd]
  have := fitCurv_nonneg rows ys d
  linarith [this]

/-- **convexity of the fit objective along every line** (`convex(convexity::yes)` for the `mse` loss, surrogate.cpp:17):
    at `x + λ d`, `0 ≤ λ ≤ 1`, the value is below the chord between `x` and `x + d` -/
theorem fit_convex (rows : List (List α)) (ys x d : List α) (lam : α) (hrows : ∀ row ∈ rows, row.length = x.length)
    (hd : d.length = x.length) (h0 : 0 ≤ lam) (h1 : lam ≤ 1) :
    fitValue rows ys (vline x d lam) ≤ (1 - lam) * fitValue rows ys x + lam * fitValue rows ys (vline x d 1) := by
  rw [fit_expand rows ys x d lam hrows hd, fit_expand rows ys x d 1 hrows hd]
  have hc := fitCurv_nonneg rows ys d
  have : lam ^ 2 * fitCurv rows ys d ≤ lam * fitCurv rows ys d := by
    have : lam ^ 2 ≤ lam := by nlinarith
    exact mul_le_mul_of_nonneg_right this hc
  nlinarith [this]

/-- a stationary point of the fit objective (every component of the coded gradient is zero) is a global minimiser:
    no other coefficient vector `x + d` fits the evaluated steps better -/
theorem fit_stationary_is_min (rows : List (List α)) (ys x d : List α) (hrows : ∀ row ∈ rows, row.length = x.length)
    (hd : d.length = x.length) (hstat : ∀ g ∈ fitGrad rows ys x, g = 0) :
    fitValue rows ys x ≤ fitValue rows ys (vline x d 1) := by
  have h := fit_above_tangent rows ys x d hrows hd
  have hz : ∀ (g e : List α), (∀ v ∈ g, v = 0) → sdot g e = 0 := by
    intro g
    induction g with
    | nil => intro e _; simp
    | cons a as ih =>
      intro e hg
      cases e with
      | nil => simp
      | cons b bs =>
        rw [sdot_cons, hg a List.mem_cons_self, ih bs (fun v hv => hg v (List.mem_cons_of_mem _ hv))]; ring
  rw [hz _ d hstat] at h
  linarith

/-- a stationary point of the fitted quadratic is a global minimiser WHEN its curvature is nowhere negative (the code
    declares `convexity::no`: nothing of the kind holds in general — see the concave example in `Props/C13.lean`) -/
theorem quad_stationary_is_min (m x d : List α) (hm : 1 + x.length ≤ m.length) (hd : d.length = x.length)
    (hcurv : 0 ≤ quadCurv m d) (hstat : sdot (quadGrad m x) d = 0) :
    quadValue m x ≤ quadValue m (vline x d 1) := by
  rw [quad_expand m x d 1 hm hd, hstat]
  linarith

end ordered

end NanoVerif.Tuner
