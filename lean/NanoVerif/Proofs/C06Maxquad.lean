import NanoVerif.Proofs.C06GradKink3
/-!
  C06 — maxquad `max_k x·(A_k x − b_k)` with the gradient `2 A_k x − b_k` of the first maximal `k`: convex when every `A_k`
  is self-adjoint and positive semi-definite (the constructor fills symmetric diagonally dominant matrices); the
  gradient is the derivative where the maximum is attained by exactly one `k`.
-/
set_option linter.unusedSectionVars false
set_option linter.unusedVariables false

namespace NanoVerif.C06
open NanoVerif.Loss NanoVerif.Fn

section field
variable {α : Type} [Field α] [LinearOrder α] [IsStrictOrderedRing α]

theorem mqVals_length : ∀ (As : List (List (List α))) (bs : List (List α)) (x : List α), As.length = bs.length →
    (mqVals As bs x).length = As.length
  | [], [], _, _ => rfl
  | A :: As, b :: bs, x, h => by simp [mqVals, mqVals_length As bs x (by simpa using h)]
  | [], _ :: _, _, h => by simp at h
  | _ :: _, [], _, h => by simp at h

theorem getD_mqVals : ∀ (As : List (List (List α))) (bs : List (List α)) (x : List α) (j : Nat),
    (mqVals As bs x).getD j 0 = dot x (vsub (mulVec (As.getD j []) x) (bs.getD j []))
  | [], bs, x, j => by
    have : mqVals ([] : List (List (List α))) bs x = [] := by cases bs <;> rfl
    rw [this]; simp [mulVec, vsub, dot_nil_right]
  | A :: As, [], x, j => by
    have e : ∀ l : List α, vsub l ([] : List α) = [] := by intro l; cases l <;> rfl
    have e2 : ([] : List (List α)).getD j [] = [] := by simp
    rw [e2, e, dot_nil_right]
    simp [mqVals]
  | A :: As, b :: bs, x, 0 => by simp [mqVals]
  | A :: As, b :: bs, x, j + 1 => by
    have := getD_mqVals As bs x j
    simpa [mqVals] using this

/-- the entry at `argmax` is the maximum -/
theorem argmax_getD (o : List α) (hne : o ≠ []) : argmax o < o.length ∧ o.getD (argmax o) 0 = maxCoeff o := by
  obtain ⟨mv, hmv, hmax, _⟩ := argmax_spec_aux o hne
  have hidx : argmax o < o.length := by
    by_contra hc
    have : o[argmax o]? = none := List.getElem?_eq_none (by omega)
    rw [this] at hmv; cases hmv
  refine ⟨hidx, ?_⟩
  have hv : o.getD (argmax o) 0 = mv := by rw [List.getD_eq_getElem?_getD, hmv]; rfl
  rw [hv]
  apply le_antisymm
  · apply maxCoeff_ge; exact List.mem_of_getElem? hmv
  · obtain ⟨j, hj⟩ := List.getElem?_of_mem (maxCoeff_mem o hne)
    exact hmax j _ hj

theorem getD_mem {β : Type} (l : List β) (j : Nat) (d : β) (h : j < l.length) : l.getD j d ∈ l := by
  rw [List.getD_eq_getElem?_getD, List.getElem?_eq_getElem h]; exact List.getElem_mem h

/-- one quadratic `x·(A x − b)` lies above its tangent with slope `2 A x − b` -/
theorem mq_piece_aux (A : List (List α)) (b x z : List α) (n : Nat)
    (hA : A.length = n) (hb : b.length = n) (hx : x.length = n) (hz : z.length = n)
    (hsym : ∀ u v : List α, u.length = n → v.length = n → dot u (mulVec A v) = dot v (mulVec A u))
    (hpsd : ∀ d : List α, d.length = n → 0 ≤ dot d (mulVec A d)) :
    dot z (vsub (mulVec A z) b) ≥ dot x (vsub (mulVec A x) b) + dot (vsub (smul 2 (mulVec A x)) b) (vsub z x) := by
  have hl : z.length = x.length := by rw [hz, hx]
  have hd := hpsd (vsub z x) (by rw [vsub_length z x hl, hx])
  rw [← mulVec_vsub A z x hl, dot_vsub_right _ _ _ (by rw [mulVec_length, mulVec_length]),
    dot_vsub_left _ z x hl, dot_vsub_left _ z x hl, hsym x z hx hz] at hd
  rw [dot_vsub_right z _ _ (by rw [mulVec_length, hA, hb]), dot_vsub_right x _ _ (by rw [mulVec_length, hA, hb]),
    dot_vsub_left _ _ _ (by rw [smul_length, mulVec_length, hA, hb]), dot_smul_left,
    dot_vsub_right _ z x hl, dot_vsub_right _ z x hl, dot_comm (mulVec A x) z, dot_comm (mulVec A x) x,
    dot_comm b z, dot_comm b x]
  linarith

theorem maxquad_aux (As : List (List (List α))) (bs : List (List α)) (x z : List α) (n : Nat)
    (hne : As ≠ []) (hl : As.length = bs.length)
    (hA : ∀ A ∈ As, A.length = n ∧
      (∀ u v : List α, u.length = n → v.length = n → dot u (mulVec A v) = dot v (mulVec A u)) ∧
      (∀ d : List α, d.length = n → 0 ≤ dot d (mulVec A d)))
    (hb : ∀ b ∈ bs, b.length = n) (hx : x.length = n) (hz : z.length = n) :
    maxquadF As bs z ≥ maxquadF As bs x + dot (maxquadG As bs x) (vsub z x) := by
  unfold maxquadF maxquadG
  simp only
  have hlx := mqVals_length As bs x hl
  have hlz := mqVals_length As bs z hl
  have hvne : mqVals As bs x ≠ [] := by
    intro h; rw [h] at hlx; exact hne (List.eq_nil_of_length_eq_zero hlx.symm)
  obtain ⟨hidx, hval⟩ := argmax_getD (mqVals As bs x) hvne
  set idx := argmax (mqVals As bs x)
  have hiA : idx < As.length := by rw [← hlx]; exact hidx
  have hib : idx < bs.length := by rw [← hl]; exact hiA
  obtain ⟨hAn, hsym, hpsd⟩ := hA _ (getD_mem As idx [] hiA)
  have hbn := hb _ (getD_mem bs idx [] hib)
  have hz1 : (mqVals As bs z).getD idx 0 ≤ maxCoeff (mqVals As bs z) :=
    maxCoeff_ge _ _ (getD_mem _ idx 0 (by rw [hlz]; exact hiA))
  rw [← hval, getD_mqVals]
  rw [getD_mqVals] at hz1
  have := mq_piece_aux (As.getD idx []) (bs.getD idx []) x z n hAn hbn hx hz hsym hpsd
  linarith

end field

/-! ### the gradient is the derivative off the ties -/

theorem mq_piece_deriv (A : List (List ℝ)) (b x d : List ℝ) (hAb : A.length = b.length) (hd : d.length = x.length)
    (hsym : dot x (mulVec A d) = dot d (mulVec A x)) :
    HasDerivAt (fun t : ℝ => dot (line x d t) (vsub (mulVec A (line x d t)) b))
      (dot (vsub (smul 2 (mulVec A x)) b) d) 0 := by
  have e : (fun t : ℝ => dot (line x d t) (vsub (mulVec A (line x d t)) b)) =
      fun t => dot (line x d t) (mulVec A (line x d t)) - dot (line x d t) b := by
    funext t; rw [dot_vsub_right _ _ _ (by rw [mulVec_length, hAb])]
  rw [e, dot_vsub_left _ _ _ (by rw [smul_length, mulVec_length, hAb]), dot_smul_left]
  have h := (bilin_line_deriv A x d hd).sub (dot_const_line_deriv x d b hd)
  refine h.congr_deriv ?_
  rw [hsym, dot_comm (mulVec A x) d]; ring

theorem mq_piece_continuous (A : List (List ℝ)) (b x d : List ℝ) (hAb : A.length = b.length) (hd : d.length = x.length) :
    ContinuousAt (fun t : ℝ => dot (line x d t) (vsub (mulVec A (line x d t)) b)) 0 := by
  have e : (fun t : ℝ => dot (line x d t) (vsub (mulVec A (line x d t)) b)) =
      fun t => dot (line x d t) (mulVec A (line x d t)) - dot (line x d t) b := by
    funext t; rw [dot_vsub_right _ _ _ (by rw [mulVec_length, hAb])]
  rw [e]
  exact ((bilin_line_deriv A x d hd).sub (dot_const_line_deriv x d b hd)).continuousAt

theorem maxquad_grad_off (As : List (List (List ℝ))) (bs : List (List ℝ)) (x d : List ℝ)
    (hl : As.length = bs.length) (hd : d.length = x.length)
    (hshape : ∀ k, k < As.length → (As.getD k []).length = (bs.getD k []).length)
    (idx : Nat) (hidx : idx < As.length)
    (hsym : dot x (mulVec (As.getD idx []) d) = dot d (mulVec (As.getD idx []) x))
    (hs : ∀ j, j < As.length → j ≠ idx → (mqVals As bs x).getD j 0 < (mqVals As bs x).getD idx 0) :
    HasDerivAt (fun t : ℝ => maxquadF As bs (line x d t)) (dot (maxquadG As bs x) d) 0 := by
  unfold maxquadF maxquadG
  simp only
  have hx0 := strict_max_spec (mqVals As bs x) idx (by rw [mqVals_length As bs x hl]; exact hidx)
    (fun j hj hji => hs j (by rw [mqVals_length As bs x hl] at hj; exact hj) hji)
  rw [hx0.2]
  have hev := maxCoeff_eventually (fun t => mqVals As bs (line x d t)) As.length idx
    (fun t => mqVals_length As bs _ hl) hidx
    (fun j hj => by
      simp only [getD_mqVals]
      exact mq_piece_continuous _ _ x d (hshape j hj) hd)
    (fun j hj hji => by simp only [line_zero x d hd]; exact hs j hj hji)
  refine HasDerivAt.congr_of_eventuallyEq ?_ hev
  simp only [getD_mqVals]
  exact mq_piece_deriv _ _ x d (hshape idx hidx) hd hsym

end NanoVerif.C06
