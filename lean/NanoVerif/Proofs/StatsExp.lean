import NanoVerif.Proofs.Stats
import NanoVerif.Model.StatsExp
/-!
  C20 — `histogram_t::make_from_exponents`: the thresholds `-base^e` (descending exponents) followed by `+base^e`
  (ascending exponents) are STRICTLY increasing for every `base > 1`, whatever exponents the log / floor scan produced
  (so the constructor's sort is the identity on them and no bin is empty by construction of the thresholds), the
  constructor's own assert cannot fire, and the exponent of every value lies inside the scanned range of its side.
  Exact arithmetic: `std::pow(base, double(e))` is `base ^ (e : ℤ)` (`PowSpec`); `std::log` is left abstract here
  (see `Proofs/StatsExpReal.lean` for `Real.log`).
-/
namespace NanoVerif.Stats
set_option linter.unusedSectionVars false

variable {α : Type} [Field α] [LinearOrder α] [IsStrictOrderedRing α] [FloorRing α]

/-- `std::pow` on an integer exponent, in exact arithmetic -/
def PowSpec [Libm α] : Prop := ∀ (b : α) (e : ℤ), Libm.powi b e = b ^ e

theorem mem_intRange (lo hi e : ℤ) : e ∈ intRange lo hi ↔ lo ≤ e ∧ e ≤ hi := by
  unfold intRange
  simp only [List.mem_map, List.mem_range]
  constructor
  · rintro ⟨k, hk, rfl⟩
    have : (k : ℤ) = Int.ofNat k := rfl
    omega
  · rintro ⟨h1, h2⟩
    refine ⟨(e - lo).toNat, by omega, ?_⟩
    have : Int.ofNat (e - lo).toNat = e - lo := by
      show ((e - lo).toNat : ℤ) = e - lo
      omega
    omega

theorem intRange_pairwise (lo hi : ℤ) : (intRange lo hi).Pairwise (· < ·) := by
  unfold intRange
  rw [List.pairwise_map]
  refine (List.pairwise_lt_range (n := (hi + 1 - lo).toNat)).imp ?_
  intro a b hab
  have h1 : Int.ofNat a = (a : ℤ) := rfl
  have h2 : Int.ofNat b = (b : ℤ) := rfl
  omega

/-- **the thresholds of `make_from_exponents` are strictly increasing** (for any scanned exponent ranges) -/
theorem expThresholds_pairwise_lt [Libm α] (hpow : PowSpec (α := α)) (base : α) (hb : 1 < base)
    (neg pos : Option (ℤ × ℤ)) : (expThresholds base neg pos).Pairwise (· < ·) := by
  have hb0 : (0 : α) < base := lt_trans zero_lt_one hb
  unfold expThresholds
  rw [List.pairwise_append]
  refine ⟨?_, ?_, ?_⟩
  · cases neg with
    | none => exact List.Pairwise.nil
    | some r =>
      obtain ⟨mn, mx⟩ := r
      simp only
      rw [List.pairwise_map, List.pairwise_reverse]
      refine (intRange_pairwise mn mx).imp ?_
      intro a b hab
      rw [hpow, hpow]
      exact neg_lt_neg (zpow_lt_zpow_right₀ hb hab)
  · cases pos with
    | none => exact List.Pairwise.nil
    | some r =>
      obtain ⟨mn, mx⟩ := r
      simp only
      rw [List.pairwise_map]
      refine (intRange_pairwise mn mx).imp ?_
      intro a b hab
      rw [hpow, hpow]
      exact zpow_lt_zpow_right₀ hb hab
  · intro a ha b hb'
    have ha0 : a < 0 := by
      cases neg with
      | none => simp at ha
      | some r =>
        obtain ⟨mn, mx⟩ := r
        simp only [List.mem_map] at ha
        obtain ⟨e, -, rfl⟩ := ha
        rw [hpow]
        exact neg_neg_of_pos (zpow_pos hb0 e)
    have hb0' : 0 < b := by
      cases pos with
      | none => simp at hb'
      | some r =>
        obtain ⟨mn, mx⟩ := r
        simp only [List.mem_map] at hb'
        obtain ⟨e, -, rfl⟩ := hb'
        rw [hpow]
        exact zpow_pos hb0 e
    exact lt_trans ha0 hb0'

/-! ### the scan -/

/-- `e` lies inside the range `r` -/
def Covers (r : Option (ℤ × ℤ)) (e : ℤ) : Prop := ∃ mn mx, r = some (mn, mx) ∧ mn ≤ e ∧ e ≤ mx

theorem updRange_covers_self (r : Option (ℤ × ℤ)) (e : ℤ) : Covers (updRange r e) e := by
  unfold updRange
  cases r with
  | none => exact ⟨e, e, rfl, le_refl _, le_refl _⟩
  | some q =>
    obtain ⟨mn, mx⟩ := q
    refine ⟨_, _, rfl, ?_, ?_⟩
    · split <;> omega
    · split <;> omega

theorem updRange_covers_mono (r : Option (ℤ × ℤ)) (e e' : ℤ) (h : Covers r e') : Covers (updRange r e) e' := by
  obtain ⟨mn, mx, rfl, h1, h2⟩ := h
  unfold updRange
  refine ⟨_, _, rfl, ?_, ?_⟩
  · split <;> omega
  · split <;> omega

theorem expScan_mono [Libm α] (base eps : α) (vs : List α) (acc : Option (ℤ × ℤ) × Option (ℤ × ℤ)) (e : ℤ) :
    (Covers acc.1 e → Covers (expScan base eps vs acc).1 e) ∧ (Covers acc.2 e → Covers (expScan base eps vs acc).2 e) := by
  induction vs generalizing acc with
  | nil => obtain ⟨n, p⟩ := acc; exact ⟨id, id⟩
  | cons v vs ih =>
    obtain ⟨n, p⟩ := acc
    unfold expScan
    cases hx : exponentOf base eps v with
    | mk side e' =>
      cases side with
      | true =>
        simp only
        exact ⟨fun h => (ih (updRange n e', p)).1 (updRange_covers_mono n e' e h), fun h => (ih (updRange n e', p)).2 h⟩
      | false =>
        simp only
        exact ⟨fun h => (ih (n, updRange p e')).1 h, fun h => (ih (n, updRange p e')).2 (updRange_covers_mono p e' e h)⟩

/-- **the scan covers every value**: the exponent computed for a value lies inside the range of its side -/
theorem expScan_covers [Libm α] (base eps : α) (vs : List α) (acc : Option (ℤ × ℤ) × Option (ℤ × ℤ))
    (v : α) (hv : v ∈ vs) :
    ((exponentOf base eps v).1 = true → Covers (expScan base eps vs acc).1 (exponentOf base eps v).2) ∧
    ((exponentOf base eps v).1 = false → Covers (expScan base eps vs acc).2 (exponentOf base eps v).2) := by
  induction vs generalizing acc with
  | nil => cases hv
  | cons w vs ih =>
    obtain ⟨n, p⟩ := acc
    rcases List.mem_cons.mp hv with rfl | hv'
    · unfold expScan
      cases hx : exponentOf base eps v with
      | mk side e' =>
        cases side with
        | true =>
          simp only
          exact ⟨fun _ => (expScan_mono base eps vs (updRange n e', p) e').1 (updRange_covers_self n e'),
            fun h => by cases h⟩
        | false =>
          simp only
          exact ⟨fun h => (by cases h),
            fun _ => (expScan_mono base eps vs (n, updRange p e') e').2 (updRange_covers_self p e')⟩
    · unfold expScan
      cases hx : exponentOf base eps w with
      | mk side e' =>
        cases side with
        | true => simp only; exact ih (updRange n e', p) hv'
        | false => simp only; exact ih (n, updRange p e') hv'

theorem expThresholds_mem_neg [Libm α] (base : α) (neg pos : Option (ℤ × ℤ)) (e : ℤ) (h : Covers neg e) :
    - Libm.powi base e ∈ expThresholds base neg pos := by
  obtain ⟨mn, mx, rfl, h1, h2⟩ := h
  unfold expThresholds
  refine List.mem_append_left _ (List.mem_map.mpr ⟨e, ?_, rfl⟩)
  rw [List.mem_reverse, mem_intRange]
  exact ⟨h1, h2⟩

theorem expThresholds_mem_pos [Libm α] (base : α) (neg pos : Option (ℤ × ℤ)) (e : ℤ) (h : Covers pos e) :
    Libm.powi base e ∈ expThresholds base neg pos := by
  obtain ⟨mn, mx, rfl, h1, h2⟩ := h
  unfold expThresholds
  refine List.mem_append_right _ (List.mem_map.mpr ⟨e, ?_, rfl⟩)
  rw [mem_intRange]
  exact ⟨h1, h2⟩

/-- **every value owns a threshold**: inside the asserted domain `make_from_exponents` produces thresholds, and for
    every value `v` of the data the threshold `∓base^e` of ITS exponent `e` (clamped by `epsilon` as coded) is one of
    them -/
theorem thresholdsFromExponents_spec [Libm α] (vs : List α) (base eps : α) :
    (vs = [] ∨ ¬ 1 < base ∨ ¬ 0 < eps → thresholdsFromExponents vs base eps = none) ∧
    (vs ≠ [] → 1 < base → 0 < eps → ∃ T, thresholdsFromExponents vs base eps = some T ∧
      ∀ v ∈ vs, ((exponentOf base eps v).1 = true → - Libm.powi base (exponentOf base eps v).2 ∈ T) ∧
                ((exponentOf base eps v).1 = false → Libm.powi base (exponentOf base eps v).2 ∈ T)) := by
  constructor
  · intro h
    unfold thresholdsFromExponents
    rcases h with h | h | h
    · simp [h]
    · by_cases he : vs.isEmpty = true
      · simp [he]
      · simp [he, h]
    · by_cases he : vs.isEmpty = true
      · simp [he]
      · by_cases hb : 1 < base
        · simp [he, hb, h]
        · simp [he, hb]
  · intro hne hb he
    have hemp : vs.isEmpty = false := by cases vs <;> simp_all
    unfold thresholdsFromExponents
    simp only [hemp, Bool.false_eq_true, if_false, hb, he, not_true_eq_false]
    refine ⟨_, rfl, ?_⟩
    intro v hv
    obtain ⟨c1, c2⟩ := expScan_covers base eps vs (none, none) v hv
    exact ⟨fun h => expThresholds_mem_neg base _ _ _ (c1 h), fun h => expThresholds_mem_pos base _ _ _ (c2 h)⟩

/-- **`make_from_exponents` end to end** (exact arithmetic): inside the asserted domain the histogram exists (the
    public constructor's `assert(size > 0)` cannot fire), its thresholds are exactly the computed ones — the
    constructor's sort changes nothing — and they are strictly increasing. -/
theorem histFromExponents_spec [Libm α] (hpow : PowSpec (α := α)) (sort : List α → List α) (hs : SortSpec sort)
    (vs : List α) (base eps : α) (hne : vs ≠ []) (hb : 1 < base) (he : 0 < eps) :
    ∃ h T, histFromExponents sort vs base eps = some h ∧ thresholdsFromExponents vs base eps = some T ∧
      h.thresholds = T ∧ T ≠ [] ∧ T.Pairwise (· < ·) ∧ h.cells = bins T (sort vs) := by
  obtain ⟨T, hT, hmem⟩ := (thresholdsFromExponents_spec vs base eps).2 hne hb he
  have hTne : T ≠ [] := by
    obtain ⟨v, l, rfl⟩ := List.exists_cons_of_ne_nil hne
    obtain ⟨m1, m2⟩ := hmem v List.mem_cons_self
    intro e
    subst e
    cases hside : (exponentOf base eps v).1 with
    | true => exact absurd (m1 hside) (by simp)
    | false => exact absurd (m2 hside) (by simp)
  have hlt : T.Pairwise (· < ·) := by
    have hemp : vs.isEmpty = false := by cases vs <;> simp_all
    unfold thresholdsFromExponents at hT
    simp only [hemp, Bool.false_eq_true, if_false, hb, he, not_true_eq_false, Option.some.injEq] at hT
    rw [← hT]
    exact expThresholds_pairwise_lt hpow base hb _ _
  have hsort : sort T = T := sortSpec_sorted_id hs T (hlt.imp (fun h => le_of_lt h))
  have hTe : T.isEmpty = false := by cases T <;> simp_all
  refine ⟨⟨sort T, bins (sort T) (sort vs)⟩, T, ?_, hT, hsort, hTne, hlt, by rw [hsort]⟩
  unfold histFromExponents
  rw [hT]
  simp [mkHist, hTe]

end NanoVerif.Stats
