import NanoVerif.Props.C03
import NanoVerif.Model.BundleSolver
/-!
  C03 — theorems about the outer loops of RQB / FPBA1 / FPBA2 (`Model/BundleSolver.lean`), on top of the bundle theorems of
  `Props/C03.lean` (this file imports them, so it is listed separately in `LEAN_MODULES`).

  * the proximity parameter stays positive (`miuInit_pos`, `proxUpdate1_pos`, `proxUpdate2_pos`);
  * the point a curve search returns with a decision is an evaluation of the objective, and `converged` means both bundle
    tests hold for the multipliers of its last solve (`csearchLoop_spec`);
  * loop invariant `Inv` of the outer loops (bundle valid = every row a cutting plane, `miu > 0`, the returned state is a point
    with its value, not worse than the bundle centre) preserved by every pass of every solver (`pass_spec`);
  * `solver_run_certificate`: a run that reports `converged` returns a point satisfying the bound of the statement.
-/
set_option linter.unusedSectionVars false
set_option linter.unusedVariables false

namespace NanoVerif.BundleSolver
open NanoVerif.Bundle NanoVerif.Ellipsoid
variable {α : Type} [Field α] [LinearOrder α] [IsStrictOrderedRing α]

/-! ### the proximity parameter -/

theorem clamp_pos (v lo hi : α) (hlo : 0 < lo) (hle : lo ≤ hi) : 0 < clamp v lo hi := by
  unfold clamp
  split
  · exact hlo
  · split
    · linarith
    · rename_i h1 h2; linarith [not_lt.mp h1]

/-- `proximity_t::proximity_t`: the initial parameter is positive for `0 < miu0_min ≤ miu0_max` (the parameter's domain) -/
theorem miuInit_pos (gx : List α) (fx eps0 lo hi : α) (hlo : 0 < lo) (hle : lo ≤ hi) : 0 < miuInit gx fx eps0 lo hi :=
  clamp_pos _ lo hi hlo hle

theorem neq_self (a : α) : neq a a = false := by simp [neq]

theorem makeMiu_pos_or (fmax miu t : α) (nu xi : List α) (minDot : α) (hm : 0 < minDot) :
    makeMiu fmax miu t nu xi minDot = fmax ∨ 0 < makeMiu fmax miu t nu xi minDot := by
  unfold makeMiu
  simp only
  split
  · right
    rename_i h
    have hpos : 0 < dot nu (vaxpy (t / miu) nu xi) := lt_trans hm h
    have hnn : 0 < dot nu nu := by
      rcases (dot_self_nonneg' nu).eq_or_lt with h0 | h0
      · exfalso
        have := dot_sq_le nu (vaxpy (t / miu) nu xi)
        rw [← h0, zero_mul] at this
        nlinarith
      · exact h0
    exact div_pos hnn hpos
  · left; rfl

theorem makeMiu_pos (fmax miu t : α) (nu xi : List α) (minDot : α) (hm : 0 < minDot) (hf : 0 < fmax) :
    0 < makeMiu fmax miu t nu xi minDot := by
  rcases makeMiu_pos_or fmax miu t nu xi minDot hm with h | h
  · rw [h]; exact hf
  · exact h

theorem cmin_pos (a b : α) (ha : 0 < a) (hb : 0 < b) : 0 < cmin a b := by
  unfold cmin; split <;> assumption

/-- `proximity_t::update` (FPBA): the parameter stays positive (`min_dot_nuv > 0` is the parameter's domain) -/
theorem proxUpdate1_pos (fmax minDot miu t : α) (xn xn1 gn gn1 : List α) (hm : 0 < minDot) (hmiu : 0 < miu) :
    0 < proxUpdate1 fmax minDot miu t xn xn1 gn gn1 := by
  unfold proxUpdate1
  simp only
  split
  · rename_i h
    rcases makeMiu_pos_or fmax miu t (vsub gn1 gn) (vsub xn1 xn) minDot hm with h1 | h1
    · rw [h1, neq_self] at h; simp at h
    · exact h1
  · exact hmiu

theorem pos_ite (c : Bool) (a b : α) (ha : 0 < a) (hb : 0 < b) : 0 < (if c then a else b) := by
  cases c <;> simp [ha, hb]

/-- `proximity_t::update` (RQB, minimum over the nine combinations): the parameter stays positive -/
theorem proxUpdate2_pos (fmax minDot miu t : α) (xn xn1 gn gn1 Gn Gn1 : List α) (hm : 0 < minDot) (hf : 0 < fmax)
    (hmiu : 0 < miu) : 0 < proxUpdate2 fmax minDot miu t xn xn1 gn gn1 Gn Gn1 := by
  unfold proxUpdate2
  simp only [List.foldl]
  apply pos_ite
  · repeat' apply cmin_pos
    all_goals first | exact hf | exact makeMiu_pos _ _ _ _ _ _ hm hf
  · exact hmiu

/-! ### contracts of the oracles -/

/-- the environment evaluates a convex `f` with sub-gradient oracle `g'`, every value is finite (exact arithmetic), the
    parameters are in their domains, and `bundle_t::solve` meets its contract: a simplex point of the right length, whose
    ACTIVE part (what `delete_inactive` keeps) is again a simplex point whenever the bundle is full (i.e. the dropped
    multipliers are exactly zero then: the hypothesis `hw` of `appendFull_valid`) -/
structure EnvOK (n : Nat) (f : List α → α) (g' : List α → List α) (E : Env α) : Prop where
  hn : E.n = n
  hF : ∀ x, E.F x = (f x, g' x)
  hsub : ∀ x : List α, x.length = n → SubGrad n f x (g' x)
  hfin : ∀ v, E.fin v = true
  hminDot : 0 < E.minDot
  hfmax : 0 < E.fmax
  hsolve : ∀ (miu : α) (b : State α), b.pairs ≠ [] →
    (solveB E miu b.pairs).length = b.pairs.length ∧ Simplex (solveB E miu b.pairs) ∧
      ((active E.P.eps0 b.pairs (solveB E miu b.pairs)).length + 1 = E.capacity →
        Simplex ((active E.P.eps0 b.pairs (solveB E miu b.pairs)).map (·.2)))

/-! ### the curve search -/

/-- what a point returned WITH a decision satisfies -/
def Good [Sqrt α] (n : Nat) (f : List α → α) (g' : List α → List α) (E : Env α) (b : State α) (pt : Point α) : Prop :=
  pt.y.length = n ∧ pt.fy = f pt.y ∧ pt.gy = g' pt.y ∧ (∃ m, pt.alphas = solveB E m b.pairs) ∧
    (pt.status = .converged → econverged n E.eps b.pairs pt.alphas = true ∧ sconverged n E.eps b.pairs pt.alphas = true)

theorem proximal_length (m : α) (x s : List α) : (proximal m x s).length = min x.length s.length := by
  simp [proximal]

theorem csearchLoop_spec [Sqrt α] (n : Nat) (f : List α → α) (g' : List α → List α) (E : Env α) (hE : EnvOK n f g' E)
    (b : State α) (hb : Valid n f b) (miu : α) :
    ∀ (rem : Nat) (c : CState α) (pt0 : Point α),
      (csearchLoop E b miu rem c pt0).1.status = pt0.status ∨ Good n f g' E b (csearchLoop E b miu rem c pt0).1
  | 0, c, pt0 => Or.inl rfl
  | rem + 1, c, pt0 => by
    unfold csearchLoop
    simp only
    have hy : (proximal (miu / c.t) b.x (smearedS E.n b.pairs (solveB E (miu / c.t) b.pairs))).length = n := by
      rw [proximal_length, hE.hn, smearedS_length n b.pairs _ (fun p hp => (hb.2.2 p hp).1), hb.1, min_self]
    split
    · rename_i st hst
      right
      refine ⟨hy, ?_, ?_, ⟨_, rfl⟩, ?_⟩
      · simp [hE.hF]
      · simp [hE.hF]
      · intro hconv
        simp only at hconv
        subst hconv
        have := (csearch_converged_iff E.P c _ _ _ b.fx _ _ _ _ _).mp hst
        rw [hE.hn] at this
        exact ⟨this.2.1, this.2.2⟩
    · rename_i c' hst
      exact csearchLoop_spec n f g' E hE b hb miu rem c' _

/-! ### the outer loops -/

/-- loop invariant of RQB / FPBA -/
def Inv (n : Nat) (f : List α → α) (s : SolverSt α) : Prop :=
  Valid n f s.b ∧ 0 < s.miu ∧ s.sfx = f s.sx ∧ s.sfx ≤ s.b.fx ∧ s.sx.length = n ∧ s.b.pairs ≠ [] ∧
    s.seq.x.length = n ∧ s.seq.y.length = n

/-- what a pass that stops with `converged` leaves behind: the bundle (unchanged) and multipliers in the simplex for which
    both tests hold -/
def Stopped [Sqrt α] (n : Nat) (E : Env α) (s : SolverSt α) : Prop :=
  ∃ ws : List α, ws.length = s.b.pairs.length ∧ Simplex ws ∧ econverged n E.eps s.b.pairs ws = true ∧
    sconverged n E.eps s.b.pairs ws = true

theorem appendFull_x_fx (capacity : Nat) (eps0 thres : α) (n : Nat) (serious : Bool) (b : State α) (alphas y gy : List α)
    (fy : α) :
    (appendFull capacity eps0 thres n serious b alphas y gy fy).x = (if serious then y else b.x) ∧
      (appendFull capacity eps0 thres n serious b alphas y gy fy).fx = (if serious then fy else b.fx) ∧
      (appendFull capacity eps0 thres n serious b alphas y gy fy).pairs ≠ [] := by
  unfold appendFull appendStep
  cases serious <;> simp

theorem extrap_length (ak bk : α) : ∀ (z y x : List α), z.length = y.length → y.length = x.length →
    (extrap ak bk z y x).length = z.length
  | [], [], [], _, _ => rfl
  | _ :: z, _ :: y, _ :: x, h1, h2 => by
    simp [extrap, extrap_length ak bk z y x (by simpa using h1) (by simpa using h2)]
  | [], _ :: _, _, h, _ => by simp at h
  | _ :: _, [], _, h, _ => by simp at h
  | _, [], _ :: _, _, h => by simp at h
  | _, _ :: _, [], _, h => by simp at h

theorem upBetter_spec (fin : α → Bool) (hfin : ∀ v, fin v = true) (f : List α → α) (sx : List α) (sfx : α) (x : List α)
    (hs : sfx = f sx) :
    (upBetter fin sx sfx x (f x)).2.2 = f (upBetter fin sx sfx x (f x)).2.1 ∧ (upBetter fin sx sfx x (f x)).2.2 ≤ f x ∧
      (upBetter fin sx sfx x (f x)).2.2 ≤ sfx ∧
      ((upBetter fin sx sfx x (f x)).2.1 = x ∨ (upBetter fin sx sfx x (f x)).2.1 = sx) := by
  unfold upBetter
  rw [hfin]
  by_cases h : 0 < sfx - f x
  · have hc : (true && decide (0 < sfx - f x)) = true := by simp [h]
    rw [hc]
    simp only [if_true]
    exact ⟨trivial, le_refl _, by linarith, Or.inl trivial⟩
  · have hc : (true && decide (0 < sfx - f x)) = false := by simp [h]
    rw [hc]
    simp only [Bool.false_eq_true, if_false]
    exact ⟨hs, by linarith [not_lt.mp h], le_refl _, Or.inr trivial⟩

theorem seriousR_inv [Sqrt α] (n : Nat) (f : List α → α) (g' : List α → List α) (E : Env α) (hE : EnvOK n f g' E)
    (descent : Bool) (s : SolverSt α) (hinv : Inv n f s) (pt : Point α) (hpt : Good n f g' E s.b pt)
    (rem : Nat) : Inv n f (seriousR E descent s pt rem).1 := by
  obtain ⟨hb, hmiu, hsf, hle, hsx, hne, hqx, hqy⟩ := hinv
  obtain ⟨hy, hfy, hgy, ⟨m, hal⟩, -⟩ := hpt
  have hw := (hE.hsolve m s.b hne).2.2
  rw [← hal] at hw
  simp only [seriousR]
  have h3 := appendFull_x_fx E.capacity E.P.eps0 (E.thr s.b pt.alphas) E.n true s.b pt.alphas pt.y pt.gy pt.fy
  refine ⟨?_, ?_, hfy, ?_, hy, h3.2.2, hqx, hqy⟩
  · rw [hfy, hgy, hE.hn]
    exact appendFull_valid E.capacity E.P.eps0 _ n f true s.b pt.alphas pt.y (g' pt.y) hb hw hy (hE.hsub _ hy)
  · apply pos_ite
    · exact proxUpdate2_pos _ _ _ _ _ _ _ _ _ _ hE.hminDot hE.hfmax hmiu
    · exact hmiu
  · show pt.fy ≤ _
    rw [h3.2.1]; simp

theorem seriousF_inv [Sqrt α] (n : Nat) (f : List α → α) (g' : List α → List α) (E : Env α) (hE : EnvOK n f g' E)
    (two descent : Bool) (s : SolverSt α) (hinv : Inv n f s) (pt : Point α) (hpt : Good n f g' E s.b pt)
    (rem : Nat) : Inv n f (seriousF E two descent s pt rem).1 := by
  obtain ⟨hb, hmiu, hsf, hle, hsx, hne, hqx, hqy⟩ := hinv
  obtain ⟨hy, hfy, hgy, ⟨m, hal⟩, -⟩ := hpt
  have hw := (hE.hsolve m s.b hne).2.2
  rw [← hal] at hw
  simp only [seriousF, hE.hF]
  have hxl : (s.seq.update two pt.y).x.length = n := by
    simp only [Seq.update]
    rw [extrap_length _ _ pt.y s.seq.y s.seq.x (by rw [hy, hqy]) (by rw [hqy, hqx]), hy]
  have h3 := appendFull_x_fx E.capacity E.P.eps0 (E.thr s.b pt.alphas) E.n true s.b pt.alphas
    (s.seq.update two pt.y).x (g' (s.seq.update two pt.y).x) (f (s.seq.update two pt.y).x)
  rw [hfy]
  have u1 := upBetter_spec E.fin hE.hfin f s.sx s.sfx pt.y hsf
  have u2 := upBetter_spec E.fin hE.hfin f _ _ (s.seq.update two pt.y).x u1.1
  have hseq : ∀ b : Bool, (if b then s.seq.update two pt.y else (s.seq.update two pt.y).reset).x.length = n ∧
      (if b then s.seq.update two pt.y else (s.seq.update two pt.y).reset).y.length = n := by
    intro b
    have hyl : (s.seq.update two pt.y).y.length = n := by simp [Seq.update, hy]
    cases b <;> simp [Seq.reset, hxl, hyl]
  refine ⟨?_, ?_, u2.1, ?_, ?_, h3.2.2, (hseq _).1, (hseq _).2⟩
  · rw [hE.hn]
    exact appendFull_valid E.capacity E.P.eps0 _ n f true s.b pt.alphas _ (g' _) hb hw hxl (hE.hsub _ hxl)
  · apply pos_ite
    · exact proxUpdate1_pos _ _ _ _ _ _ _ _ hE.hminDot hmiu
    · exact hmiu
  · show _ ≤ (appendFull E.capacity E.P.eps0 (E.thr s.b pt.alphas) E.n true s.b pt.alphas
      (s.seq.update two pt.y).x (g' (s.seq.update two pt.y).x) (f (s.seq.update two pt.y).x)).fx
    rw [h3.2.1]; simpa using u2.2.1
  · show (upBetter E.fin _ _ (s.seq.update two pt.y).x (f (s.seq.update two pt.y).x)).2.1.length = n
    rcases u2.2.2.2 with h | h
    · rw [h]; exact hxl
    · rw [h]; rcases u1.2.2.2 with h' | h'
      · rw [h']; exact hy
      · rw [h']; exact hsx

theorem serious_inv [Sqrt α] (n : Nat) (f : List α → α) (g' : List α → List α) (E : Env α) (hE : EnvOK n f g' E)
    (k : Kind) (descent : Bool) (s : SolverSt α) (hinv : Inv n f s) (pt : Point α) (hpt : Good n f g' E s.b pt)
    (rem : Nat) : Inv n f (serious E k descent s pt rem).1 := by
  cases k with
  | rqb => exact seriousR_inv n f g' E hE descent s hinv pt hpt rem
  | fpba1 => exact seriousF_inv n f g' E hE false descent s hinv pt hpt rem
  | fpba2 => exact seriousF_inv n f g' E hE true descent s hinv pt hpt rem

/-- one pass of any of the three solvers keeps the invariant; a pass that stops with `converged` leaves the bundle as it
    was, with simplex multipliers passing both tests -/
theorem pass_spec [Sqrt α] (n : Nat) (f : List α → α) (g' : List α → List α) (E : Env α) (hE : EnvOK n f g' E)
    (k : Kind) (rem : Nat) (s : SolverSt α) (hinv : Inv n f s) :
    Inv n f (pass E k rem s).2.1 ∧ ((pass E k rem s).1 = some EStatus.converged → Stopped n E (pass E k rem s).2.1) := by
  have hinv' := hinv
  obtain ⟨hb, hmiu, hsf, hle, hsx, hne, hqx, hqy⟩ := hinv
  have hcs := csearchLoop_spec n f g' E hE s.b hb s.miu rem CState.start { s.pt with t := 1, status := .maxIters }
  unfold pass
  simp only
  unfold csearch
  generalize csearchLoop E s.b s.miu rem CState.start { s.pt with t := 1, status := .maxIters } = r at hcs
  have hgood : r.1.status ≠ .maxIters → Good n f g' E s.b r.1 := by
    intro hne'
    rcases hcs with h | h
    · exact absurd h hne'
    · exact h
  have hkeep : Inv n f { s with pt := r.1 } := ⟨hb, hmiu, hsf, hle, hsx, hne, hqx, hqy⟩
  split
  · rename_i st hdone
    refine ⟨hkeep, ?_⟩
    intro hst
    simp only [Option.some.injEq] at hst
    subst hst
    have hconv := doneE_converged _ _ _ hdone
    have hstat : r.1.status = .converged := by simpa [solverConverged] using hconv
    obtain ⟨-, -, -, ⟨m, hal⟩, htests⟩ := hgood (by rw [hstat]; decide)
    obtain ⟨h1, h2⟩ := htests hstat
    obtain ⟨hl, hsimp, -⟩ := hE.hsolve m s.b hne
    exact ⟨r.1.alphas, by rw [hal]; exact hl, by rw [hal]; exact hsimp, h1, h2⟩
  · rename_i hdone
    split
    · rename_i hstat
      exact ⟨serious_inv n f g' E hE k true s hinv' r.1 (hgood (by rw [hstat]; decide)) r.2, fun h => by simp at h⟩
    · rename_i hstat
      exact ⟨serious_inv n f g' E hE k false s hinv' r.1 (hgood (by rw [hstat]; decide)) r.2, fun h => by simp at h⟩
    · rename_i hstat
      obtain ⟨hy, hfy, hgy, ⟨m, hal⟩, -⟩ := hgood (by rw [hstat]; decide)
      have hw := (hE.hsolve m s.b hne).2.2
      rw [← hal] at hw
      have h3 := appendFull_x_fx E.capacity E.P.eps0 (E.thr s.b r.1.alphas) E.n false s.b r.1.alphas r.1.y r.1.gy r.1.fy
      refine ⟨⟨?_, hmiu, hsf, ?_, hsx, h3.2.2, hqx, hqy⟩, fun h => by simp at h⟩
      · rw [hfy, hgy, hE.hn]
        exact appendFull_valid E.capacity E.P.eps0 _ n f false s.b r.1.alphas r.1.y (g' r.1.y) hb hw hy (hE.hsub _ hy)
      · show s.sfx ≤ _
        rw [h3.2.1]; simpa using hle
    · exact ⟨hkeep, fun h => by simp at h⟩

theorem run_spec [Sqrt α] (n : Nat) (f : List α → α) (g' : List α → List α) (E : Env α) (hE : EnvOK n f g' E) (k : Kind) :
    ∀ (passes rem : Nat) (s s' : SolverSt α), Inv n f s → run E k passes rem s = (EStatus.converged, s') →
      Inv n f s' ∧ Stopped n E s'
  | 0, _, s, s', _, h => by simp [run] at h
  | _ + 1, 0, s, s', _, h => by simp [run] at h
  | passes + 1, rem + 1, s, s', hinv, h => by
    obtain ⟨hi, hstop⟩ := pass_spec n f g' E hE k (rem + 1) s hinv
    unfold run at h
    generalize pass E k (rem + 1) s = r at h hi hstop
    obtain ⟨o, s1, rem1⟩ := r
    cases o with
    | none =>
      simp only at h
      exact run_spec n f g' E hE k passes rem1 s1 s' hi h
    | some st =>
      simp only [Prod.mk.injEq] at h
      obtain ⟨h1, h2⟩ := h
      subst h1 h2
      exact ⟨hi, hstop rfl⟩

theorem start_inv (n : Nat) (f : List α → α) (g' : List α → List α) (E : Env α) (hE : EnvOK n f g' E) (x0 : List α)
    (hx0 : x0.length = n) (lo hi : α) (hlo : 0 < lo) (hle : lo ≤ hi) : Inv n f (start E x0 lo hi) := by
  simp only [start, hE.hF]
  refine ⟨?_, miuInit_pos _ _ _ _ _ hlo hle, rfl, ?_, hx0, ?_, hx0, hx0⟩
  · exact (bundle_lower_bound_invariant n f x0 (g' x0) hx0 (hE.hsub x0 hx0) _ Reach.init).1
  · simp [Bundle.init, appendStep]
  · simp [Bundle.init, appendStep]

/-- THE SOLVER-LEVEL CERTIFICATE (RQB, FPBA1, FPBA2; rqb.cpp:23-74, fpba.cpp:27-86 with csearch.cpp, bundle.cpp,
    proximity.cpp, nesterov.h inside): for a convex `f` with sub-gradient oracle, any starting point, any evaluation
    budget, any QP / `nth_element` oracle meeting its contract: if the run reports `solver_status::converged`, then the
    RETURNED point `sx` (value `sfx = f sx`) is not worse than the bundle centre `x̂`, and the centre satisfies
    `f(x̂) − f(z) ≤ ε√n (1 + ‖z − x̂‖₂)` for every `z`. -/
theorem solver_run_certificate [Sqrt α]
    (hsqrt : ∀ v : α, 0 ≤ v → 0 ≤ Sqrt.sqrt v ∧ Sqrt.sqrt v * Sqrt.sqrt v = v)
    (n : Nat) (f : List α → α) (g' : List α → List α) (E : Env α) (hE : EnvOK n f g' E) (heps : 0 ≤ E.eps) (k : Kind)
    (x0 : List α) (hx0 : x0.length = n) (lo hi : α) (hlo : 0 < lo) (hle : lo ≤ hi) (passes rem : Nat) (s : SolverSt α)
    (hrun : run E k passes rem (start E x0 lo hi) = (EStatus.converged, s)) (z : List α) (hz : z.length = n) :
    s.sfx = f s.sx ∧ f s.sx ≤ f s.b.x ∧ 0 < s.miu ∧
      f s.b.x - f z ≤ tol n E.eps * (1 + norm2 (vsub z s.b.x)) := by
  obtain ⟨hinv, ws, hl, hw, he, hs⟩ := run_spec n f g' E hE k passes rem _ s (start_inv n f g' E hE x0 hx0 lo hi hlo hle) hrun
  obtain ⟨hb, hmiu, hsf, hle', -⟩ := hinv
  refine ⟨hsf, ?_, hmiu, bundle_stop_certificate hsqrt n f s.b ws E.eps hb hl hw heps he hs z hz⟩
  rw [← hsf, ← hb.2.1]; exact hle'

/-- THE BOUND OF THE STATEMENT: if moreover the minimum at `z` is sharp (`‖z − x‖₂ ≤ f x − f z`, needed at the bundle centre
    only) and `ε√n ≤ 1/2`, the returned point satisfies `f(sx) − f(z) ≤ 2 ε √n ≤ 2 ε √n (1 + ‖sx − z‖₂)` — the factor 2 of the
    statement pays for the centre of FPBA's bundle being the extrapolated point, not the returned one. -/
theorem solver_run_statement_bound [Sqrt α]
    (hsqrt : ∀ v : α, 0 ≤ v → 0 ≤ Sqrt.sqrt v ∧ Sqrt.sqrt v * Sqrt.sqrt v = v)
    (n : Nat) (f : List α → α) (g' : List α → List α) (E : Env α) (hE : EnvOK n f g' E) (heps : 0 ≤ E.eps) (k : Kind)
    (x0 : List α) (hx0 : x0.length = n) (lo hi : α) (hlo : 0 < lo) (hle : lo ≤ hi) (passes rem : Nat) (s : SolverSt α)
    (hrun : run E k passes rem (start E x0 lo hi) = (EStatus.converged, s)) (z : List α) (hz : z.length = n)
    (hsharp : norm2 (vsub z s.b.x) ≤ f s.b.x - f z) (htol : tol n E.eps ≤ 1 / 2) :
    f s.sx - f z ≤ 2 * tol n E.eps * (1 + norm2 (vsub s.sx z)) := by
  obtain ⟨-, h2, -, h4⟩ := solver_run_certificate hsqrt n f g' E hE heps k x0 hx0 lo hi hlo hle passes rem s hrun z hz
  have hD : 0 ≤ norm2 (vsub z s.b.x) := (hsqrt _ (dot_self_nonneg' _)).1
  have hD' : 0 ≤ norm2 (vsub s.sx z) := (hsqrt _ (dot_self_nonneg' _)).1
  have hT : 0 ≤ tol n E.eps := by
    unfold tol
    have : (0 : α) ≤ (n : α) := Nat.cast_nonneg n
    exact mul_nonneg heps (hsqrt _ this).1
  have h5 : norm2 (vsub z s.b.x) ≤ 2 * tol n E.eps := by nlinarith
  have h6 : f s.b.x - f z ≤ 2 * tol n E.eps := by nlinarith
  have := mul_nonneg hT hD'
  nlinarith

end NanoVerif.BundleSolver

/-! ### non-vacuity: an environment meeting `EnvOK`, and a run of each solver that reports `converged` -/
namespace NanoVerif.C03SolverExamples
open NanoVerif.Bundle NanoVerif.Ellipsoid NanoVerif.BundleSolver

noncomputable local instance : Sqrt ℝ := ⟨Real.sqrt⟩

/-- the constant objective in dimension 1; the QP oracle answers with the first vertex of the simplex -/
noncomputable def exE : Env ℝ :=
  { n := 1, capacity := 0, eps := 1 / 100, P := ⟨1 / 2, 9 / 10, 1, 1, 3 / 10, 5, 1 / 1000⟩, fmax := 1000, minDot := 1 / 1000,
    F := fun _ => (0, [0]), fin := fun _ => true, qp := fun _ ps => 1 :: List.replicate (ps.length - 1) 0,
    thr := fun _ _ => 0, valid := fun _ _ => true }

theorem vertex_simplex (k : Nat) : Simplex ((1 : ℝ) :: List.replicate k 0) := by
  refine ⟨?_, by simp⟩
  intro a ha
  simp only [List.mem_cons, List.mem_replicate] at ha
  rcases ha with rfl | ⟨-, rfl⟩ <;> norm_num

theorem exE_ok : EnvOK 1 (fun _ => (0 : ℝ)) (fun _ => [0]) exE where
  hn := rfl
  hF := fun _ => rfl
  hsub := by
    intro x hx
    refine ⟨rfl, ?_⟩
    intro z hz
    match x, hx, z, hz with
    | [c], _, [a], _ => simp [dot, vsub]
  hfin := fun _ => rfl
  hminDot := by norm_num [exE]
  hfmax := by norm_num [exE]
  hsolve := by
    intro miu b hne
    refine ⟨?_, ?_, fun h => absurd h (Nat.succ_ne_zero _)⟩
    · match hp : b.pairs with
      | [] => exact absurd hp hne
      | [p] => simp [solveB, solve1]
      | [p0, p1] => simp [solveB, solve2]
      | p0 :: p1 :: p2 :: rest => simp [solveB, exE]
    · match hp : b.pairs with
      | [] => exact absurd hp hne
      | [p] => exact solve1_simplex
      | [p0, p1] => exact solve2_simplex _ _ _ _
      | p0 :: p1 :: p2 :: rest => exact vertex_simplex _

/-- every solver stops at once with `converged` on it (one evaluation of budget is enough) -/
example (k : Kind) : (run exE k 1 1 (start exE [0] 1 2)).1 = EStatus.converged := by
  cases k <;>
    simp [run, pass, csearch, csearchLoop, start, exE, solveB, solve1, Bundle.init, appendStep, smearedS, smearedE, vaxpy,
      zeros, proximal, econverged, sconverged, tol, norm2, dot, csearchStep, CState.start, doneE, solverConverged,
      Sqrt.sqrt, delta]

/-- NECESSITY of the "active part is a simplex point" clause of `EnvOK.hsolve` (= hypothesis `hw` of `appendFull_valid`):
    `f = |·|`, centre `1`, the two valid rows `(1, 0)` and `(−1, 2)`, multipliers `(9/10, 1/10)` IN the simplex; with
    `eps0 = 1/5` `delete_inactive` drops the second row, `store_aggregate` then smears the first row with weight `9/10` only,
    and the stored pair `(9/10, 0)` is NOT a lower-bounding plane (at `z = 0`: `1/10 > 0`). In the code `eps0 = 1e-15`, so the
    aggregate can undercut `f` by at most `size · 1e-15 · (f(x̂) − inf f)`. -/
theorem hw_necessary :
    let ps : List (Pair ℚ) := [⟨[1], 0⟩, ⟨[-1], 2⟩]
    let as : List ℚ := [9 / 10, 1 / 10]
    let act := active (1 / 5 : ℚ) ps as
    Simplex as ∧ (∀ p ∈ ps, LB 1 C03Examples.exF [1] p.s p.e) ∧
      ¬ LB 1 C03Examples.exF [1] (aggregate 1 (act.map (·.1)) (act.map (·.2))).s (aggregate 1 (act.map (·.1)) (act.map (·.2))).e := by
  refine ⟨⟨?_, by norm_num⟩, ?_, ?_⟩
  · intro a ha
    simp only [List.mem_cons, List.not_mem_nil, or_false] at ha
    rcases ha with rfl | rfl <;> norm_num
  · intro p hp
    simp only [List.mem_cons, List.not_mem_nil, or_false] at hp
    rcases hp with rfl | rfl
    · intro z hz
      match z, hz with
      | [a], _ =>
        simp only [C03Examples.exF, dot, vsub, List.headD_cons]
        have := le_abs_self a
        norm_num
        linarith
    · intro z hz
      match z, hz with
      | [a], _ =>
        simp only [C03Examples.exF, dot, vsub, List.headD_cons]
        have := neg_abs_le a
        norm_num
        linarith
  · intro h
    have := h [0] rfl
    norm_num [active, aggregate, smearedS, smearedE, vaxpy, zeros, dot, vsub, C03Examples.exF] at this

end NanoVerif.C03SolverExamples

