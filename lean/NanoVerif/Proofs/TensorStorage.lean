import NanoVerif.Model.TensorStorage
import NanoVerif.Proofs.TensorView
/-!
  C16 — the primitives of the heap model (`Model/TensorStorage.lean`): what `read`, `write`, `alloc`, `free` and the ascending
  in-place copy do to every buffer and to every cell. Core Lean only.
-/
namespace NanoVerif.Tensor.Store
open NanoVerif.Tensor

variable {α : Type}

/-! ### buffers after `set` / `++` -/

theorem buf_lt {h : Heap α} {b : Nat} {buf : List α} (hb : h.buf b = some buf) : b < h.length := by
  unfold Heap.buf at hb
  cases hg : h[b]? with
  | none => simp [hg] at hb
  | some x => exact (List.getElem?_eq_some_iff.mp hg).1

theorem buf_set_same (h : Heap α) (b : Nat) (x : Option (List α)) (hb : b < h.length) : Heap.buf (h.set b x) b = x := by
  unfold Heap.buf
  rw [List.getElem?_set_self hb]
  rfl

theorem buf_set_other (h : Heap α) (b c : Nat) (x : Option (List α)) (hne : c ≠ b) :
    Heap.buf (h.set b x) c = h.buf c := by
  unfold Heap.buf
  rw [List.getElem?_set_ne (Ne.symm hne)]

theorem buf_append_old (h : Heap α) (x : Option (List α)) (b : Nat) (hb : b < h.length) :
    Heap.buf (h ++ [x]) b = h.buf b := by
  unfold Heap.buf
  rw [List.getElem?_append_left hb]

theorem buf_append_new (h : Heap α) (x : Option (List α)) : Heap.buf (h ++ [x]) h.length = x := by
  unfold Heap.buf
  rw [List.getElem?_append_right (Nat.le_refl _)]
  simp

theorem buf_ge (h : Heap α) (b : Nat) (hb : h.length ≤ b) : h.buf b = none := by
  unfold Heap.buf
  rw [List.getElem?_eq_none hb]
  rfl

/-! ### `read` -/

/-- a read is a function of the addressed buffer alone -/
theorem read_congr {h h' : Heap α} {b : Nat} (hb : h.buf b = h'.buf b) (off n : Nat) :
    h.read (some (b, off)) n = h'.read (some (b, off)) n := by
  simp only [Heap.read, hb]

theorem read_zero (h : Heap α) (p : Ptr) : h.read p 0 = some [] := by
  simp [Heap.read]

theorem read_some {h : Heap α} {b off n : Nat} {xs : List α} (hn : 0 < n) (hr : h.read (some (b, off)) n = some xs) :
    ∃ buf, h.buf b = some buf ∧ off + n ≤ buf.length ∧ xs = (buf.drop off).take n := by
  unfold Heap.read at hr
  rw [if_neg (by omega)] at hr
  cases hb : h.buf b with
  | none => simp [hb] at hr
  | some buf =>
    simp only [hb] at hr
    by_cases hle : off + n ≤ buf.length
    · rw [if_pos hle] at hr
      exact ⟨buf, rfl, hle, (Option.some.inj hr).symm⟩
    · rw [if_neg hle] at hr
      cases hr

theorem read_of_buf {h : Heap α} {b off n : Nat} {buf : List α} (hb : h.buf b = some buf) (hle : off + n ≤ buf.length) :
    h.read (some (b, off)) n = some ((buf.drop off).take n) := by
  unfold Heap.read
  by_cases hn : n = 0
  · subst hn; simp
  · rw [if_neg hn]
    simp only [hb]
    rw [if_pos hle]

/-- the access stays inside the addressed allocation: a successful read of `n > 0` elements proves the allocation is live
    and holds at least `off + n` elements -/
theorem read_in_bounds {h : Heap α} {b off n : Nat} {xs : List α} (hn : 0 < n) (hr : h.read (some (b, off)) n = some xs) :
    off + n ≤ h.len (some (b, off)) := by
  obtain ⟨buf, hb, hle, _⟩ := read_some hn hr
  simp [Heap.len, hb, hle]

theorem read_length {h : Heap α} {p : Ptr} {n : Nat} {xs : List α} (hr : h.read p n = some xs) : xs.length = n := by
  by_cases hn : n = 0
  · subst hn
    rw [read_zero] at hr
    cases hr; rfl
  · cases p with
    | none => simp [Heap.read, hn] at hr
    | some q =>
      obtain ⟨b, off⟩ := q
      obtain ⟨buf, _, hle, hx⟩ := read_some (Nat.pos_of_ne_zero hn) hr
      subst hx
      rw [List.length_take, List.length_drop]
      omega

/-- the `j`-th element read is the cell `off + j` of the addressed buffer -/
theorem read_getElem? {h : Heap α} {b off n : Nat} {xs : List α} (hr : h.read (some (b, off)) n = some xs) (j : Nat)
    (hj : j < n) : xs[j]? = h.cell b (off + j) := by
  obtain ⟨buf, hb, hle, hx⟩ := read_some (by omega) hr
  subst hx
  unfold Heap.cell
  rw [hb]
  simp only [Option.bind_some]
  rw [List.getElem?_take, if_pos hj, List.getElem?_drop]

/-- reading a null pointer: only zero elements -/
theorem read_null (h : Heap α) (n : Nat) (hn : 0 < n) : h.read none n = none := by
  unfold Heap.read
  rw [if_neg (by omega)]

/-! ### `write` -/

/-- the buffers after a write: only the addressed one changes, by `splice` -/
theorem write_some {h h' : Heap α} {b off : Nat} {vals : List α} (hv : 0 < vals.length)
    (hw : h.write (some (b, off)) vals = some h') :
    ∃ buf, h.buf b = some buf ∧ off + vals.length ≤ buf.length ∧ h' = h.set b (some (splice buf off vals)) := by
  unfold Heap.write at hw
  rw [if_neg (by omega)] at hw
  cases hb : h.buf b with
  | none => simp [hb] at hw
  | some buf =>
    simp only [hb] at hw
    by_cases hle : off + vals.length ≤ buf.length
    · rw [if_pos hle] at hw
      exact ⟨buf, rfl, hle, (Option.some.inj hw).symm⟩
    · rw [if_neg hle] at hw
      cases hw

theorem write_nil (h : Heap α) (p : Ptr) : h.write p [] = some h := by
  simp [Heap.write]

theorem write_of_buf {h : Heap α} {b off : Nat} {buf vals : List α} (hb : h.buf b = some buf)
    (hle : off + vals.length ≤ buf.length) (hv : 0 < vals.length) :
    h.write (some (b, off)) vals = some (h.set b (some (splice buf off vals))) := by
  unfold Heap.write
  rw [if_neg (by omega)]
  simp only [hb]
  rw [if_pos hle]

theorem write_length {h h' : Heap α} {p : Ptr} {vals : List α} (hw : h.write p vals = some h') : h'.length = h.length := by
  by_cases hv : vals.length = 0
  · simp [Heap.write, hv] at hw
    subst hw; rfl
  · cases p with
    | none => simp [Heap.write, hv] at hw
    | some q =>
      obtain ⟨b, off⟩ := q
      obtain ⟨buf, _, _, hh⟩ := write_some (Nat.pos_of_ne_zero hv) hw
      subst hh
      simp

/-- buffers other than the addressed one are untouched by a write -/
theorem buf_write_other {h h' : Heap α} {b off : Nat} {vals : List α} (hw : h.write (some (b, off)) vals = some h')
    (c : Nat) (hne : c ≠ b) : h'.buf c = h.buf c := by
  by_cases hv : vals.length = 0
  · simp [Heap.write, hv] at hw
    subst hw; rfl
  · obtain ⟨buf, _, _, hh⟩ := write_some (Nat.pos_of_ne_zero hv) hw
    subst hh
    exact buf_set_other _ _ _ _ hne

/-- a write keeps every allocation allocated and of the same length -/
theorem len_write {h h' : Heap α} {p : Ptr} {vals : List α} (hw : h.write p vals = some h') (q : Ptr) :
    h'.len q = h.len q := by
  by_cases hv : vals.length = 0
  · simp [Heap.write, hv] at hw
    subst hw; rfl
  · cases p with
    | none => simp [Heap.write, hv] at hw
    | some pp =>
      obtain ⟨b, off⟩ := pp
      obtain ⟨buf, hb, hle, hh⟩ := write_some (Nat.pos_of_ne_zero hv) hw
      cases q with
      | none => rfl
      | some qq =>
        obtain ⟨c, o2⟩ := qq
        simp only [Heap.len]
        by_cases hc : c = b
        · subst hc
          subst hh
          rw [buf_set_same _ _ _ (buf_lt hb), hb]
          simp [splice_length _ _ _ hle]
        · rw [buf_write_other hw c hc]

/-- FRAME of a write, cell by cell: exactly the cells `[off, off + |vals|)` of the addressed buffer take the new values;
    every other cell of every buffer keeps its content -/
theorem cell_write {h h' : Heap α} {b off : Nat} {vals : List α} (hw : h.write (some (b, off)) vals = some h')
    (c i : Nat) :
    h'.cell c i = if c = b ∧ off ≤ i ∧ i < off + vals.length then vals[i - off]? else h.cell c i := by
  by_cases hv : vals.length = 0
  · simp [Heap.write, hv] at hw
    subst hw
    rw [if_neg (by omega)]
  · obtain ⟨buf, hb, hle, hh⟩ := write_some (Nat.pos_of_ne_zero hv) hw
    by_cases hc : c = b
    · subst hc
      unfold Heap.cell
      rw [hh, buf_set_same _ _ _ (buf_lt hb), hb]
      simp only [Option.bind_some]
      by_cases hin : off ≤ i ∧ i < off + vals.length
      · rw [if_pos ⟨trivial, hin⟩]
        have := splice_get_inside buf off vals (by omega) (i - off) (by omega)
        rw [show off + (i - off) = i by omega] at this
        exact this
      · rw [if_neg (by intro hx; exact hin hx.2)]
        by_cases hlt : i < off
        · exact splice_get_before buf off vals (by omega) i hlt
        · exact splice_get_after buf off vals (by omega) i (by omega)
    · rw [if_neg (by intro hx; exact hc hx.1)]
      unfold Heap.cell
      rw [buf_write_other hw c hc]

/-- what was written is read back -/
theorem read_write_same {h h' : Heap α} {p : Ptr} {vals : List α} (hw : h.write p vals = some h') :
    h'.read p vals.length = some vals := by
  by_cases hv : vals.length = 0
  · rw [hv, read_zero]
    congr 1
    exact (List.eq_nil_of_length_eq_zero hv).symm
  · cases p with
    | none => simp [Heap.write, hv] at hw
    | some q =>
      obtain ⟨b, off⟩ := q
      obtain ⟨buf, hb, hle, hh⟩ := write_some (Nat.pos_of_ne_zero hv) hw
      have hb' : h'.buf b = some (splice buf off vals) := by rw [hh]; exact buf_set_same _ _ _ (buf_lt hb)
      rw [read_of_buf hb' (by rw [splice_length _ _ _ hle]; exact hle)]
      congr 1
      have h1 := splice_take buf off vals (by omega)
      have : (splice buf off vals).drop off = vals ++ buf.drop (off + vals.length) := by
        unfold splice
        rw [List.append_assoc, List.drop_left' (by rw [List.length_take]; omega)]
      rw [this, List.take_left' rfl]

/-- FRAME of a write for reads: a range that does not meet the written range reads as before -/
theorem read_write_disjoint {h h' : Heap α} {b off : Nat} {vals : List α} (hw : h.write (some (b, off)) vals = some h')
    (c o2 n : Nat) (hd : c ≠ b ∨ o2 + n ≤ off ∨ off + vals.length ≤ o2) :
    h'.read (some (c, o2)) n = h.read (some (c, o2)) n := by
  by_cases hc : c = b
  · subst hc
    by_cases hv : vals.length = 0
    · simp [Heap.write, hv] at hw
      subst hw; rfl
    by_cases hn : n = 0
    · subst hn; simp [read_zero]
    obtain ⟨buf, hb, hle, hh⟩ := write_some (Nat.pos_of_ne_zero hv) hw
    have hb' : h'.buf c = some (splice buf off vals) := by rw [hh]; exact buf_set_same _ _ _ (buf_lt hb)
    have hd' : o2 + n ≤ off ∨ off + vals.length ≤ o2 := by
      rcases hd with hd | hd
      · exact absurd rfl hd
      · exact hd
    have hl := splice_length buf off vals hle
    by_cases hin : o2 + n ≤ buf.length
    · rw [read_of_buf hb' (by rw [hl]; exact hin), read_of_buf hb hin]
      congr 1
      apply List.ext_getElem?
      intro j
      rw [List.getElem?_take, List.getElem?_take]
      by_cases hj : j < n
      · rw [if_pos hj, if_pos hj, List.getElem?_drop, List.getElem?_drop]
        rcases hd' with hd' | hd'
        · exact splice_get_before buf off vals (by omega) _ (by omega)
        · exact splice_get_after buf off vals (by omega) _ (by omega)
      · rw [if_neg hj, if_neg hj]
    · simp only [Heap.read, hb', hb, hl, if_neg hn, if_neg hin]
  · exact read_congr (buf_write_other hw c hc) o2 n

/-- a write never makes a readable range unreadable (allocations stay allocated, lengths are unchanged) -/
theorem read_write_some {h h' : Heap α} {b off : Nat} {vals : List α} (hw : h.write (some (b, off)) vals = some h')
    {c o2 n : Nat} {xs : List α} (hr : h.read (some (c, o2)) n = some xs) : ∃ ys, h'.read (some (c, o2)) n = some ys := by
  by_cases hn : n = 0
  · subst hn; exact ⟨[], read_zero _ _⟩
  · obtain ⟨buf, hb, hle, _⟩ := read_some (Nat.pos_of_ne_zero hn) hr
    by_cases hv : vals.length = 0
    · simp [Heap.write, hv] at hw
      subst hw; exact ⟨xs, hr⟩
    · obtain ⟨wbuf, hwb, hwle, hh⟩ := write_some (Nat.pos_of_ne_zero hv) hw
      by_cases hc : c = b
      · subst hc
        rw [hb] at hwb
        cases hwb
        have hb' : h'.buf c = some (splice buf off vals) := by rw [hh]; exact buf_set_same _ _ _ (buf_lt hb)
        exact ⟨_, read_of_buf hb' (by rw [splice_length _ _ _ hwle]; exact hle)⟩
      · exact ⟨xs, by rw [read_congr (buf_write_other hw c hc)]; exact hr⟩

/-- VIEWS ALIAS EXACTLY THEIR INDEX SET: after `vals` has been written at `(b, off)`, what is read at `(c, o2)` differs from
    what was read there before exactly at the positions whose cell lies in the written range — where it is the written value -/
theorem read_after_write {h h' : Heap α} {b off : Nat} {vals : List α} (hw : h.write (some (b, off)) vals = some h')
    {c o2 n : Nat} {xs : List α} (hr : h.read (some (c, o2)) n = some xs) :
    ∃ ys, h'.read (some (c, o2)) n = some ys ∧ ∀ j, j < n →
      ys[j]? = if c = b ∧ off ≤ o2 + j ∧ o2 + j < off + vals.length then vals[o2 + j - off]? else xs[j]? := by
  obtain ⟨ys, hys⟩ := read_write_some hw hr
  refine ⟨ys, hys, ?_⟩
  intro j hj
  rw [read_getElem? hys j hj, read_getElem? hr j hj, cell_write hw c (o2 + j)]

/-! ### `alloc` -/

/-- a fresh allocation never coincides with an allocation some existing pointer addresses: its identity is the first
    unused one, its offset 0 -/
theorem alloc_ptr (h : Heap α) (xs : List α) :
    (xs.length = 0 ∧ h.alloc xs = (h, none)) ∨ (0 < xs.length ∧ h.alloc xs = (h ++ [some xs], some (h.length, 0))) := by
  unfold Heap.alloc
  by_cases hx : xs.length = 0
  · left; simp [hx]
  · right; simp [hx]; omega

theorem alloc_length_le (h : Heap α) (xs : List α) : h.length ≤ (h.alloc xs).1.length := by
  rcases alloc_ptr h xs with ⟨_, he⟩ | ⟨_, he⟩ <;> rw [he] <;> simp

/-- existing buffers are untouched by an allocation -/
theorem buf_alloc_old (h : Heap α) (xs : List α) (b : Nat) (hb : b < h.length) : (h.alloc xs).1.buf b = h.buf b := by
  rcases alloc_ptr h xs with ⟨_, he⟩ | ⟨_, he⟩ <;> rw [he]
  exact buf_append_old _ _ _ hb

theorem cell_alloc_old (h : Heap α) (xs : List α) (b i : Nat) (hb : b < h.length) :
    (h.alloc xs).1.cell b i = h.cell b i := by
  unfold Heap.cell
  rw [buf_alloc_old h xs b hb]

/-- the new allocation holds exactly the given elements -/
theorem read_alloc_new (h : Heap α) (xs : List α) : (h.alloc xs).1.read (h.alloc xs).2 xs.length = some xs := by
  rcases alloc_ptr h xs with ⟨h0, he⟩ | ⟨hpos, he⟩
  · rw [h0, read_zero]
    congr 1
    exact (List.eq_nil_of_length_eq_zero h0).symm
  · rw [he]
    rw [read_of_buf (buf_append_new h (some xs)) (by simp)]
    simp

theorem len_alloc_new (h : Heap α) (xs : List α) : (h.alloc xs).1.len (h.alloc xs).2 = xs.length := by
  rcases alloc_ptr h xs with ⟨h0, he⟩ | ⟨hpos, he⟩
  · rw [he]; simp [Heap.len, h0]
  · rw [he]; simp [Heap.len, buf_append_new]

/-- reads of existing allocations are unaffected by an allocation -/
theorem read_alloc_old (h : Heap α) (xs : List α) (b off n : Nat) (hb : b < h.length) :
    (h.alloc xs).1.read (some (b, off)) n = h.read (some (b, off)) n :=
  read_congr (buf_alloc_old h xs b hb) off n

/-- … also when stated for any pointer that reads successfully or is null -/
theorem read_alloc_keep (h : Heap α) (xs : List α) (p : Ptr) (n : Nat) (ys : List α) (hr : h.read p n = some ys) :
    (h.alloc xs).1.read p n = some ys := by
  by_cases hn : n = 0
  · subst hn
    rw [read_zero] at hr ⊢
    exact hr
  · cases p with
    | none => simp [Heap.read, hn] at hr
    | some q =>
      obtain ⟨b, off⟩ := q
      obtain ⟨buf, hb, _, _⟩ := read_some (Nat.pos_of_ne_zero hn) hr
      rw [read_alloc_old h xs b off n (buf_lt hb)]
      exact hr

/-! ### `free` -/

theorem free_length (h : Heap α) (p : Ptr) : (h.free p).length = h.length := by
  cases p with
  | none => rfl
  | some q => simp [Heap.free]

/-- releasing one allocation leaves every other buffer as it is -/
theorem buf_free_other (h : Heap α) (b o : Nat) (c : Nat) (hne : c ≠ b) : (h.free (some (b, o))).buf c = h.buf c := by
  unfold Heap.free
  exact buf_set_other _ _ _ _ hne

theorem buf_free_null (h : Heap α) (c : Nat) : (h.free none).buf c = h.buf c := rfl

/-- the released allocation is gone: nothing can be read there any more (identities are never re-used) -/
theorem buf_free_same (h : Heap α) (b o : Nat) : (h.free (some (b, o))).buf b = none := by
  unfold Heap.free
  by_cases hb : b < h.length
  · exact buf_set_same _ _ _ hb
  · rw [buf_ge _ _ (by simp; omega)]

theorem read_free_same (h : Heap α) (b o o2 n : Nat) (hn : 0 < n) : (h.free (some (b, o))).read (some (b, o2)) n = none := by
  unfold Heap.read
  rw [if_neg (by omega)]
  simp only [buf_free_same]

theorem read_free_other (h : Heap α) (p : Ptr) (c o2 n : Nat) (hne : ∀ b o, p = some (b, o) → c ≠ b) :
    (h.free p).read (some (c, o2)) n = h.read (some (c, o2)) n := by
  cases p with
  | none => rfl
  | some q =>
    obtain ⟨b, o⟩ := q
    exact read_congr (buf_free_other h b o c (hne b o rfl)) o2 n

theorem cell_free_other (h : Heap α) (b o c i : Nat) (hne : c ≠ b) : (h.free (some (b, o))).cell c i = h.cell c i := by
  unfold Heap.cell
  rw [buf_free_other h b o c hne]

/-! ### the ascending in-place copy -/

theorem fwd_length (buf : List α) : ∀ (n d s : Nat), (fwd buf d s n).length = buf.length := by
  intro n
  induction n generalizing buf with
  | zero => intro d s; rfl
  | succ n ih =>
    intro d s
    unfold fwd
    cases hs : buf[s]? with
    | none => rfl
    | some x => simp only; rw [ih]; simp

/-- the ascending copy cell by cell, when the destination does not start INSIDE the source range (`d ≤ s` or the ranges
    are disjoint): the destination cells receive the ORIGINAL source elements, every other cell is unchanged -/
theorem fwd_getElem? : ∀ (n : Nat) (buf : List α) (d s : Nat), (d ≤ s ∨ s + n ≤ d) → s + n ≤ buf.length →
    d + n ≤ buf.length → ∀ k, (fwd buf d s n)[k]? = if d ≤ k ∧ k < d + n then buf[s + (k - d)]? else buf[k]? := by
  intro n
  induction n with
  | zero =>
    intro buf d s _ _ _ k
    rw [if_neg (by omega)]
    rfl
  | succ n ih =>
    intro buf d s hds hs hd k
    unfold fwd
    have hslt : s < buf.length := by omega
    rw [List.getElem?_eq_getElem hslt]
    simp only
    have hl : (buf.set d buf[s]).length = buf.length := by simp
    rw [ih (buf.set d buf[s]) (d + 1) (s + 1) (by omega) (by rw [hl]; omega) (by rw [hl]; omega) k]
    by_cases hk1 : d + 1 ≤ k ∧ k < d + 1 + n
    · rw [if_pos hk1, if_pos (by omega)]
      rw [List.getElem?_set_ne (by omega)]
      congr 1
      omega
    · rw [if_neg hk1]
      by_cases hkd : k = d
      · subst hkd
        rw [if_pos (by omega), List.getElem?_set_self (by omega)]
        simp [List.getElem?_eq_getElem hslt]
      · rw [if_neg (by omega), List.getElem?_set_ne (by omega)]

/-- in that case the ascending copy is the overwrite of the destination range by the source elements AS THEY WERE -/
theorem fwd_eq_splice (buf : List α) (d s n : Nat) (hds : d ≤ s ∨ s + n ≤ d) (hs : s + n ≤ buf.length)
    (hd : d + n ≤ buf.length) : fwd buf d s n = splice buf d ((buf.drop s).take n) := by
  have hlen : ((buf.drop s).take n).length = n := by rw [List.length_take, List.length_drop]; omega
  apply List.ext_getElem?
  intro k
  rw [fwd_getElem? n buf d s hds hs hd k]
  by_cases hk : d ≤ k ∧ k < d + n
  · rw [if_pos hk]
    have := splice_get_inside buf d ((buf.drop s).take n) (by omega) (k - d) (by rw [hlen]; omega)
    rw [show d + (k - d) = k by omega] at this
    rw [this, List.getElem?_take, if_pos (by omega), List.getElem?_drop]
  · rw [if_neg hk]
    by_cases hlt : k < d
    · exact (splice_get_before buf d _ (by omega) k hlt).symm
    · exact (splice_get_after buf d _ (by omega) k (by rw [hlen]; omega)).symm

theorem succ_mod_cases (i p : Nat) (hp : 0 < p) : (i + 1) % p = if i % p + 1 = p then 0 else i % p + 1 := by
  have hdm := Nat.div_add_mod i p
  have hlt := Nat.mod_lt i hp
  split
  · rename_i he
    have h1 : i + 1 = p * (i / p + 1) := by rw [Nat.mul_add, Nat.mul_one]; omega
    rw [h1, Nat.mul_mod_right]
  · rename_i he
    have h1 : i + 1 = p * (i / p) + (i % p + 1) := by omega
    rw [h1, Nat.mul_add_mod, Nat.mod_eq_of_lt (by omega)]

/-- WHAT THE ASCENDING COPY DOES IN THE OTHER DIRECTION (the destination starts inside or after the start of the source,
    `s < d`): destination element `i` receives the ORIGINAL source element `i mod (d - s)` — the first `d - s` source elements
    repeated periodically (for `n ≤ d - s`, i.e. disjoint ranges, that is the plain copy) -/
theorem fwd_periodic : ∀ (n : Nat) (buf : List α) (d s : Nat), s < d → d + n ≤ buf.length →
    ∀ k, (fwd buf d s n)[k]? = if d ≤ k ∧ k < d + n then buf[s + (k - d) % (d - s)]? else buf[k]? := by
  intro n
  induction n with
  | zero =>
    intro buf d s _ _ k
    rw [if_neg (by omega)]
    rfl
  | succ n ih =>
    intro buf d s hsd hd k
    unfold fwd
    have hslt : s < buf.length := by omega
    rw [List.getElem?_eq_getElem hslt]
    simp only
    have hl : (buf.set d buf[s]).length = buf.length := by simp
    rw [ih (buf.set d buf[s]) (d + 1) (s + 1) (by omega) (by rw [hl]; omega) k]
    have hp : d + 1 - (s + 1) = d - s := by omega
    rw [hp]
    by_cases hk1 : d + 1 ≤ k ∧ k < d + 1 + n
    · rw [if_pos hk1, if_pos (by omega)]
      have hkd : k - d = (k - (d + 1)) + 1 := by omega
      have hm := succ_mod_cases (k - (d + 1)) (d - s) (by omega)
      have hlt := Nat.mod_lt (k - (d + 1)) (show 0 < d - s by omega)
      rw [hkd, hm]
      by_cases he : (k - (d + 1)) % (d - s) + 1 = d - s
      · rw [if_pos he]
        have : s + 1 + (k - (d + 1)) % (d - s) = d := by omega
        rw [this, List.getElem?_set_self (by omega), Nat.add_zero, List.getElem?_eq_getElem hslt]
      · rw [if_neg he, List.getElem?_set_ne (by omega)]
        congr 1
        omega
    · rw [if_neg hk1]
      by_cases hkd : k = d
      · subst hkd
        rw [if_pos (by omega), List.getElem?_set_self (by omega), Nat.sub_self, Nat.zero_mod, Nat.add_zero,
          List.getElem?_eq_getElem hslt]
      · rw [if_neg (by omega), List.getElem?_set_ne (by omega)]

end NanoVerif.Tensor.Store
