import NanoVerif.Proofs.C06Fn
/-!
  C06 — composition lemmas: an affine map inside, sums, ridge terms (all coordinates / only the leading block of
  coordinates), sums over the rows of a matrix (`kinks`). Ordered field.
-/
set_option linter.unusedSectionVars false
set_option linter.unusedVariables false

namespace NanoVerif.C06
open NanoVerif.Loss NanoVerif.Fn

variable {α : Type} [Field α] [LinearOrder α] [IsStrictOrderedRing α]

/-- `h ∘ (x ↦ b + A x)` inherits the sub-gradient inequality of `h`, with the gradient `Aᵀ g_h(b + A x)` -/
theorem affine_comp_aux (h : List α → α) (gh : List α → List α) (A : List (List α)) (b : List α) (n : Nat)
    (hrows : ∀ r ∈ A, r.length = n) (hb : b.length = A.length)
    (hgh : ∀ u : List α, u.length = A.length → (gh u).length = A.length)
    (hh : ∀ u v : List α, u.length = A.length → v.length = A.length → h v ≥ h u + dot (gh u) (vsub v u))
    (x z : List α) (hx : x.length = n) (hz : z.length = n) :
    h (vadd b (mulVec A z)) ≥ h (vadd b (mulVec A x)) +
      dot (tmulVec n A (gh (vadd b (mulVec A x)))) (vsub z x) := by
  have hl : z.length = x.length := by rw [hz, hx]
  have hu : (vadd b (mulVec A x)).length = A.length := by
    rw [vadd_length _ _ (by rw [hb, mulVec_length]), mulVec_length]
  have hv : (vadd b (mulVec A z)).length = A.length := by
    rw [vadd_length _ _ (by rw [hb, mulVec_length]), mulVec_length]
  have key := hh _ _ hu hv
  rw [vsub_vadd_cancel b (mulVec A x) (mulVec A z) (by rw [mulVec_length, hb]) (by rw [mulVec_length, hb]),
    mulVec_vsub A z x hl] at key
  rw [tmulVec_adjoint n A _ (vsub z x) hrows (by rw [hgh _ hu])]
  exact key

/-- sums keep the inequality -/
theorem sum_aux (f1 f2 : List α → α) (g1 g2 : List α → List α) (x z : List α)
    (hg : (g1 x).length = (g2 x).length)
    (h1 : f1 z ≥ f1 x + dot (g1 x) (vsub z x)) (h2 : f2 z ≥ f2 x + dot (g2 x) (vsub z x)) :
    f1 z + f2 z ≥ f1 x + f2 x + dot (vadd (g1 x) (g2 x)) (vsub z x) := by
  rw [dot_vadd_left _ _ _ hg]; linarith

/-- adding `c/2 ‖x‖²` makes the function `c`-strongly convex -/
theorem ridge_aux (f : List α → α) (g : List α → List α) (c : α) (x z : List α)
    (hl : z.length = x.length) (hg : (g x).length = x.length)
    (h : f z ≥ f x + dot (g x) (vsub z x)) :
    f z + c / 2 * dot z z ≥ f x + c / 2 * dot x x + dot (vadd (g x) (smul c x)) (vsub z x)
      + c / 2 * dot (vsub z x) (vsub z x) := by
  rw [dot_vadd_left _ _ _ (by rw [hg, smul_length]), dot_smul_left, norm_vsub z x hl, dot_vsub_right x z x hl]
  linarith

theorem dot_append : ∀ (a1 b1 a2 b2 : List α), a1.length = b1.length →
    dot (a1 ++ a2) (b1 ++ b2) = dot a1 b1 + dot a2 b2
  | [], [], a2, b2, _ => by simp [dot]
  | x :: a1, y :: b1, a2, b2, h => by
    simp only [List.cons_append, dot]; rw [dot_append a1 b1 a2 b2 (by simpa using h)]; ring
  | [], _ :: _, _, _, h => by simp at h
  | _ :: _, [], _, _, h => by simp at h

theorem vsub_append : ∀ (z1 x1 z2 x2 : List α), z1.length = x1.length →
    vsub (z1 ++ z2) (x1 ++ x2) = vsub z1 x1 ++ vsub z2 x2
  | [], [], z2, x2, _ => by simp [vsub]
  | z :: z1, x :: x1, z2, x2, h => by
    simp only [List.cons_append, vsub]; rw [vsub_append z1 x1 z2 x2 (by simpa using h)]
  | [], _ :: _, _, _, h => by simp at h
  | _ :: _, [], _, _, h => by simp at h

/-- a ridge term on the leading block `W` of the coordinates `W ++ b` only (the linear model: the bias `b` is not
    regularised) gives the quadratic term for the `W`-part of the displacement only -/
theorem ridge_partial_aux (f : List α → α) (g : List α → List α) (c : α) (Wx bx Wz bz : List α)
    (hW : Wz.length = Wx.length) (hb : bz.length = bx.length)
    (hg : (g (Wx ++ bx)).length = (Wx ++ bx).length)
    (h : f (Wz ++ bz) ≥ f (Wx ++ bx) + dot (g (Wx ++ bx)) (vsub (Wz ++ bz) (Wx ++ bx))) :
    f (Wz ++ bz) + c / 2 * dot Wz Wz ≥ f (Wx ++ bx) + c / 2 * dot Wx Wx
      + dot (vadd (g (Wx ++ bx)) (smul c Wx ++ List.replicate bx.length 0)) (vsub (Wz ++ bz) (Wx ++ bx))
      + c / 2 * dot (vsub Wz Wx) (vsub Wz Wx) := by
  rw [dot_vadd_left _ _ _ (by rw [hg]; simp), vsub_append Wz Wx bz bx hW,
    dot_append _ _ _ _ (by rw [smul_length, vsub_length Wz Wx hW]), dot_replicate_zero, dot_smul_left,
    norm_vsub Wz Wx hW, dot_vsub_right Wx Wz Wx hW]
  rw [vsub_append Wz Wx bz bx hW] at h
  linarith

/-! ### sums over the rows of a matrix -/

theorem foldl_vadd_dot (G : List α → List α) (n : Nat) (d : List α) : ∀ (K : List (List α)) (g0 : List α),
    g0.length = n → (∀ r ∈ K, (G r).length = n) →
    dot (K.foldl (fun g r => vadd g (G r)) g0) d = dot g0 d + sumL (K.map (fun r => dot (G r) d))
  | [], g0, _, _ => by simp [sumL]
  | r :: K, g0, h0, hG => by
    simp only [List.foldl, List.map, sumL]
    have hr := hG r (by simp)
    rw [foldl_vadd_dot G n d K (vadd g0 (G r)) (by rw [vadd_length _ _ (by rw [h0, hr]), hr])
      (fun r' hr' => hG r' (by simp [hr'])), dot_vadd_left _ _ _ (by rw [h0, hr])]
    ring

theorem sumL_map_ge (p q w : List α → α) : ∀ (K : List (List α)), (∀ r ∈ K, p r ≥ q r + w r) →
    sumL (K.map p) ≥ sumL (K.map q) + sumL (K.map w)
  | [], _ => by simp [sumL]
  | r :: K, h => by
    simp only [List.map, sumL]
    have := sumL_map_ge p q w K (fun r' hr' => h r' (by simp [hr']))
    have := h r (by simp)
    linarith

theorem kinks_aux (K : List (List α)) (off : α) (x z : List α) (hl : z.length = x.length)
    (hK : ∀ r ∈ K, r.length = x.length) :
    kinksF K off z ≥ kinksF K off x + dot (kinksG K x) (vsub z x) := by
  unfold kinksF kinksG
  rw [foldl_vadd_dot (fun r => map2 (fun k xi => sign' (xi - k)) r x) x.length (vsub z x) K _ (by simp)
    (fun r hr => by rw [map2_length _ _ _ (hK r hr)]), dot_replicate_zero]
  have := sumL_map_ge (fun r => sum2 (fun k xi => abs' (xi - k)) r z) (fun r => sum2 (fun k xi => abs' (xi - k)) r x)
    (fun r => dot (map2 (fun k xi => sign' (xi - k)) r x) (vsub z x)) K
    (fun r hr => sum2_subgrad maeV maeG maeK_subgrad r x z (hK r hr).symm (by rw [hl, hK r hr]))
  linarith

end NanoVerif.C06
