import NanoVerif.Proofs.C06GradKink
import NanoVerif.Proofs.C06RealFn
/-!
  C06 — objects NOT declared smooth: the returned sub-gradient is the derivative of the value wherever no tie / kink is
  hit (part 2): chained_lq, chained_cb3I, chained_cb3II (the selected piece is the strict maximum), kinks (no coordinate
  on a kink).
-/
set_option linter.unusedSectionVars false
set_option linter.unusedVariables false

namespace NanoVerif.C06
open NanoVerif.Loss NanoVerif.Fn

/-! ### `std::max` of two functions of `t` off a tie -/

theorem cmax_deriv_right {u v : ℝ → ℝ} {u' v' : ℝ} (hu : HasDerivAt u u' 0) (hv : HasDerivAt v v' 0) (h : u 0 < v 0) :
    HasDerivAt (fun t : ℝ => cmax (u t) (v t)) v' 0 := by
  have hev : ∀ᶠ t in nhds (0 : ℝ), u t < v t := hu.continuousAt.eventually_lt hv.continuousAt h
  refine hv.congr_of_eventuallyEq ?_
  filter_upwards [hev] with t ht
  unfold cmax; rw [if_pos ht]

theorem cmax_deriv_left {u v : ℝ → ℝ} {u' v' : ℝ} (hu : HasDerivAt u u' 0) (hv : HasDerivAt v v' 0) (h : v 0 < u 0) :
    HasDerivAt (fun t : ℝ => cmax (u t) (v t)) u' 0 := by
  have hev : ∀ᶠ t in nhds (0 : ℝ), v t < u t := hv.continuousAt.eventually_lt hu.continuousAt h
  refine hu.congr_of_eventuallyEq ?_
  filter_upwards [hev] with t ht
  unfold cmax; rw [if_neg (not_lt.mpr (le_of_lt ht))]

theorem cmax_eq_right {a b : ℝ} (h : a < b) : cmax a b = b := by unfold cmax; rw [if_pos h]
theorem cmax_eq_left {a b : ℝ} (h : b < a) : cmax a b = a := by unfold cmax; rw [if_neg (not_lt.mpr (le_of_lt h))]

/-- the maximum of three functions of `t` when the `k`-th is the strict maximum at `0` -/
theorem cmax3_deriv_1 {u v w : ℝ → ℝ} {u' v' w' : ℝ} (hu : HasDerivAt u u' 0) (hv : HasDerivAt v v' 0)
    (hw : HasDerivAt w w' 0) (h12 : v 0 < u 0) (h13 : w 0 < u 0) :
    HasDerivAt (fun t : ℝ => cmax (cmax (u t) (v t)) (w t)) u' 0 := by
  have h1 := cmax_deriv_left hu hv h12
  exact cmax_deriv_left (u := fun t => cmax (u t) (v t)) h1 hw (by show _ < _; rw [cmax_eq_left h12]; exact h13)

theorem cmax3_deriv_2 {u v w : ℝ → ℝ} {u' v' w' : ℝ} (hu : HasDerivAt u u' 0) (hv : HasDerivAt v v' 0)
    (hw : HasDerivAt w w' 0) (h21 : u 0 < v 0) (h23 : w 0 < v 0) :
    HasDerivAt (fun t : ℝ => cmax (cmax (u t) (v t)) (w t)) v' 0 := by
  have h1 := cmax_deriv_right hu hv h21
  exact cmax_deriv_left (u := fun t => cmax (u t) (v t)) h1 hw (by show _ < _; rw [cmax_eq_right h21]; exact h23)

theorem cmax3_deriv_3 {u v w : ℝ → ℝ} {u' v' w' : ℝ} (hu : HasDerivAt u u' 0) (hv : HasDerivAt v v' 0)
    (hw : HasDerivAt w w' 0) (h31 : u 0 < w 0) (h32 : v 0 < w 0) :
    HasDerivAt (fun t : ℝ => cmax (cmax (u t) (v t)) (w t)) w' 0 := by
  rcases lt_trichotomy (u 0) (v 0) with h | h | h
  · have h1 := cmax_deriv_right hu hv h
    exact cmax_deriv_right (u := fun t => cmax (u t) (v t)) h1 hw (by show _ < _; rw [cmax_eq_right h]; exact h32)
  · -- u 0 = v 0: the inner maximum need not be differentiable, but it stays below w
    have hc : ContinuousAt (fun t : ℝ => cmax (u t) (v t)) 0 := by
      have e : (fun t : ℝ => cmax (u t) (v t)) = fun t => max (u t) (v t) := by
        funext t; unfold cmax
        by_cases hlt : u t < v t
        · rw [if_pos hlt, max_eq_right (le_of_lt hlt)]
        · rw [if_neg hlt, max_eq_left (not_lt.mp hlt)]
      rw [e]
      exact hu.continuousAt.max hv.continuousAt
    have h0 : cmax (u 0) (v 0) < w 0 := by unfold cmax; split <;> assumption
    have hev : ∀ᶠ t in nhds (0 : ℝ), cmax (u t) (v t) < w t := hc.eventually_lt hw.continuousAt h0
    refine hw.congr_of_eventuallyEq ?_
    filter_upwards [hev] with t ht
    exact cmax_eq_right ht
  · have h1 := cmax_deriv_left hu hv h
    exact cmax_deriv_right (u := fun t => cmax (u t) (v t)) h1 hw (by show _ < _; rw [cmax_eq_left h]; exact h31)

/-! ### sums over consecutive pairs under a side condition on every pair -/

/-- `Q x_i x_{i+1}` for all `i` -/
def AllPairs (Q : ℝ → ℝ → Prop) : List ℝ → Prop
  | a :: b :: r => Q a b ∧ AllPairs Q (b :: r)
  | _ => True

theorem pair_line_deriv_on_aux (Q : ℝ → ℝ → Prop) (v : ℝ → ℝ → ℝ) (c : ℝ → ℝ → ℝ × ℝ)
    (hv : ∀ a b da db, Q a b →
      HasDerivAt (fun t : ℝ => v (a + t * da) (b + t * db)) ((c a b).1 * da + (c a b).2 * db) 0) :
    ∀ (xs ds : List ℝ) (a da carry : ℝ), ds.length = xs.length → AllPairs Q (a :: xs) →
      HasDerivAt (fun t : ℝ => pairSum v (line (a :: xs) (da :: ds) t))
        (dot (pairGrad c carry (a :: xs)) (da :: ds) - carry * da) 0
  | [], [], a, da, carry, _, _ => by
    simp only [line_cons, line_nil, pairSum, pairGrad, dot]
    exact (hasDerivAt_const _ _).congr_deriv (by ring)
  | b :: xs, db :: ds, a, da, carry, hl, hQ => by
    have ih := pair_line_deriv_on_aux Q v c hv xs ds b db (c a b).2 (by simpa using hl) hQ.2
    have h0 := hv a b da db hQ.1
    simp only [line_cons, pairSum, pairGrad, dot] at ih ⊢
    exact (h0.add ih).congr_deriv (by ring)
  | [], _ :: _, _, _, _, h, _ => by simp at h
  | _ :: _, [], _, _, _, h, _ => by simp at h

theorem pair_line_deriv_on (Q : ℝ → ℝ → Prop) (v : ℝ → ℝ → ℝ) (c : ℝ → ℝ → ℝ × ℝ)
    (hv : ∀ a b da db, Q a b →
      HasDerivAt (fun t : ℝ => v (a + t * da) (b + t * db)) ((c a b).1 * da + (c a b).2 * db) 0)
    (x d : List ℝ) (hd : d.length = x.length) (hQ : AllPairs Q x) :
    HasDerivAt (fun t : ℝ => pairSum v (line x d t)) (dot (pairGrad c 0 x) d) 0 := by
  match x, d, hd, hQ with
  | [], [], _, _ => simp only [line_nil, pairSum, pairGrad, dot]; exact hasDerivAt_const _ _
  | a :: xs, da :: ds, h, hQ =>
    have := pair_line_deriv_on_aux Q v c hv xs ds a da 0 (by simpa using h) hQ
    exact this.congr_deriv (by ring)
  | [], _ :: _, h, _ => simp at h
  | _ :: _, [], h, _ => simp at h

/-! ### chained_lq -/

theorem lqV1_deriv (a b da db : ℝ) :
    HasDerivAt (fun t : ℝ => lqV1 (a + t * da) (b + t * db)) (-da - db) 0 := by
  unfold lqV1
  exact ((coord_deriv a da).neg).sub (coord_deriv b db)

theorem lqV2_deriv (a b da db : ℝ) :
    HasDerivAt (fun t : ℝ => lqV2 (a + t * da) (b + t * db)) ((-1 + 2 * a) * da + (-1 + 2 * b) * db) 0 := by
  unfold lqV2
  have A := coord_deriv a da
  have B := coord_deriv b db
  have h := (((lqV1_deriv a b da db).add (A.mul A)).add (B.mul B)).sub_const 1
  refine h.congr_deriv ?_
  ring

theorem lq_piece_deriv (a b da db : ℝ) (hne : lqV1 a b ≠ lqV2 a b) :
    HasDerivAt (fun t : ℝ => lqPiece (a + t * da) (b + t * db))
      ((lqPieceG a b).1 * da + (lqPieceG a b).2 * db) 0 := by
  unfold lqPiece lqPieceG
  have h1 := lqV1_deriv a b da db
  have h2 := lqV2_deriv a b da db
  rcases lt_or_gt_of_ne hne with h | h
  · rw [if_pos h]
    exact cmax_deriv_right h1 h2 (by simpa using h)
  · rw [if_neg (not_lt.mpr (le_of_lt h))]
    exact (cmax_deriv_left h1 h2 (by simpa using h)).congr_deriv (by ring)

theorem chained_lq_grad_off (x d : List ℝ) (hd : d.length = x.length)
    (hQ : AllPairs (fun a b => lqV1 a b ≠ lqV2 a b) x) :
    HasDerivAt (fun t : ℝ => chainedLqF (line x d t)) (dot (chainedLqG x) d) 0 :=
  pair_line_deriv_on _ lqPiece lqPieceG lq_piece_deriv x d hd hQ

/-! ### chained_cb3 -/

theorem cbV1_deriv (a b da db : ℝ) :
    HasDerivAt (fun t : ℝ => cbV1 (a + t * da) (b + t * db)) ((cbG1 a b).1 * da + (cbG1 a b).2 * db) 0 := by
  unfold cbV1 cbG1
  have A := coord_deriv a da
  have B := coord_deriv b db
  have h := ((A.mul A).mul (A.mul A)).add (B.mul B)
  refine h.congr_deriv ?_
  simp only [Pi.mul_apply, zero_mul, add_zero]; ring

theorem cbV2_deriv (a b da db : ℝ) :
    HasDerivAt (fun t : ℝ => cbV2 (a + t * da) (b + t * db)) ((cbG2 a b).1 * da + (cbG2 a b).2 * db) 0 := by
  unfold cbV2 cbG2
  have A := (coord_deriv a da).const_sub 2
  have B := (coord_deriv b db).const_sub 2
  have h := (A.mul A).add (B.mul B)
  refine h.congr_deriv ?_
  simp only [zero_mul, add_zero]; ring

theorem cbV3_deriv (a b da db : ℝ) :
    HasDerivAt (fun t : ℝ => cbV3 (a + t * da) (b + t * db)) ((cbG3 a b).1 * da + (cbG3 a b).2 * db) 0 := by
  unfold cbV3 cbG3
  simp only [texp_eq]
  have h := ((((coord_deriv a da).neg).add (coord_deriv b db)).exp).const_mul 2
  refine h.congr_deriv ?_
  simp only [Pi.add_apply, Pi.neg_apply, zero_mul, add_zero]
  have e : -a + b = b - a := by ring
  rw [e]; ring

/-- the piece selected by the `>=` chain is the strict maximum -/
def strictMax3 (v1 v2 v3 : ℝ) : Prop :=
  (v2 < v1 ∧ v3 < v1) ∨ (v1 < v2 ∧ v3 < v2) ∨ (v1 < v3 ∧ v2 < v3)

/-- value / selected derivative of `max(u, v, w)` for the `>=` chain of the code -/
theorem cmax3_select_deriv {u v w : ℝ → ℝ} {u' v' w' : ℝ} (hu : HasDerivAt u u' 0) (hv : HasDerivAt v v' 0)
    (hw : HasDerivAt w w' 0) (hs : strictMax3 (u 0) (v 0) (w 0)) :
    HasDerivAt (fun t : ℝ => cmax (cmax (u t) (v t)) (w t))
      (if u 0 ≥ cmax (v 0) (w 0) then u' else if v 0 ≥ cmax (u 0) (w 0) then v' else w') 0 := by
  rcases hs with ⟨h12, h13⟩ | ⟨h21, h23⟩ | ⟨h31, h32⟩
  · have hc : u 0 ≥ cmax (v 0) (w 0) := by unfold cmax; split <;> linarith
    rw [if_pos hc]; exact cmax3_deriv_1 hu hv hw h12 h13
  · have hc1 : ¬ u 0 ≥ cmax (v 0) (w 0) := by
      have := cmax_ge_left (v 0) (w 0); intro h; linarith
    have hc2 : v 0 ≥ cmax (u 0) (w 0) := by unfold cmax; split <;> linarith
    rw [if_neg hc1, if_pos hc2]; exact cmax3_deriv_2 hu hv hw h21 h23
  · have hc1 : ¬ u 0 ≥ cmax (v 0) (w 0) := by
      have := cmax_ge_right (v 0) (w 0); intro h; linarith
    have hc2 : ¬ v 0 ≥ cmax (u 0) (w 0) := by
      have := cmax_ge_right (u 0) (w 0); intro h; linarith
    rw [if_neg hc1, if_neg hc2]; exact cmax3_deriv_3 hu hv hw h31 h32

theorem cb3_piece_deriv (a b da db : ℝ) (hs : strictMax3 (cbV1 a b) (cbV2 a b) (cbV3 a b)) :
    HasDerivAt (fun t : ℝ => cb3Piece (a + t * da) (b + t * db))
      ((cb3PieceG a b).1 * da + (cb3PieceG a b).2 * db) 0 := by
  have h := cmax3_select_deriv (cbV1_deriv a b da db) (cbV2_deriv a b da db) (cbV3_deriv a b da db)
    (by simpa using hs)
  unfold cb3Piece cb3PieceG
  refine h.congr_deriv ?_
  simp only [zero_mul, add_zero]
  split_ifs <;> rfl

theorem cb3I_grad_off (x d : List ℝ) (hd : d.length = x.length)
    (hQ : AllPairs (fun a b => strictMax3 (cbV1 a b) (cbV2 a b) (cbV3 a b)) x) :
    HasDerivAt (fun t : ℝ => cb3IF (line x d t)) (dot (cb3IG x) d) 0 :=
  pair_line_deriv_on _ cb3Piece cb3PieceG cb3_piece_deriv x d hd hQ

theorem cb3II_grad_off (x d : List ℝ) (hd : d.length = x.length)
    (hs : strictMax3 (pairSum cbV1 x) (pairSum cbV2 x) (pairSum cbV3 x)) :
    HasDerivAt (fun t : ℝ => cb3IIF (line x d t)) (dot (cb3IIG x) d) 0 := by
  have h1 := pair_line_deriv cbV1 cbG1 cbV1_deriv x d hd
  have h2 := pair_line_deriv cbV2 cbG2 cbV2_deriv x d hd
  have h3 := pair_line_deriv cbV3 cbG3 cbV3_deriv x d hd
  have h := cmax3_select_deriv h1 h2 h3 (by simpa [line_zero x d hd] using hs)
  unfold cb3IIF cb3IIG
  refine h.congr_deriv ?_
  simp only [line_zero x d hd]
  split_ifs <;> rfl

/-! ### kinks: `Σ_rows Σ_j |x_j − K(row, j)| − offset` -/

theorem kinks_row_deriv (r x d : List ℝ) (hr : r.length = x.length) (hd : d.length = x.length)
    (hk : All2 (fun k xi => xi ≠ k) r x) :
    HasDerivAt (fun t : ℝ => sum2 (fun k xi => abs' (xi - k)) r (line x d t))
      (dot (map2 (fun k xi => sign' (xi - k)) r x) d) 0 := by
  refine sum2_line_deriv_on (fun k xi => xi ≠ k) _ _ ?_ r x d hr.symm (by rw [hd, hr]) hk
  intro k xi hne
  have hin : HasDerivAt (fun y : ℝ => y - k) 1 xi := (hasDerivAt_id' xi).sub_const k
  have hout : HasDerivAt (fun u : ℝ => abs' u) (sign' (xi - k)) ((fun y : ℝ => y - k) xi) :=
    abs_deriv_off (sub_ne_zero.2 hne)
  have hc := HasDerivAt.comp xi hout hin
  rw [mul_one] at hc
  exact hc

theorem kinks_grad_off (K : List (List ℝ)) (off : ℝ) (x d : List ℝ) (hd : d.length = x.length)
    (hK : ∀ r ∈ K, r.length = x.length) (hk : ∀ r ∈ K, All2 (fun k xi => xi ≠ k) r x) :
    HasDerivAt (fun t : ℝ => kinksF K off (line x d t)) (dot (kinksG K x) d) 0 := by
  unfold kinksF kinksG
  rw [foldl_vadd_dot (fun r => map2 (fun k xi => sign' (xi - k)) r x) x.length d K _ (by simp)
    (fun r hr => by rw [map2_length _ _ _ (hK r hr)]), dot_replicate_zero, zero_add]
  refine HasDerivAt.sub_const off ?_
  clear off
  induction K with
  | nil => simp only [List.map, sumL]; exact hasDerivAt_const _ _
  | cons r K ih =>
    have h0 := kinks_row_deriv r x d (hK r (by simp)) hd (hk r (by simp))
    have h1 := ih (fun r' hr' => hK r' (by simp [hr'])) (fun r' hr' => hk r' (by simp [hr']))
    simp only [List.map, sumL]
    exact h0.add h1

end NanoVerif.C06
