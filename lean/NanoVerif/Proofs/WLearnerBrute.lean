import NanoVerif.Proofs.WLearnerHinge
import NanoVerif.Proofs.WLearnerFind
import NanoVerif.Proofs.WLearnerDStep
import NanoVerif.Proofs.WLearnerSelect
/-!
  C10 — glue for the property theorems: the minimum of a list, the brute-force specifications of `Model/WLearner.lean`,
  what one cache returns when all scores are finite and below `no_fit_score()`, `List.mergeSort` as `std::sort`, and the
  fitted learners' predictions as the predictors of the hypothesis classes.
-/
set_option linter.unusedSectionVars false
set_option linter.unusedVariables false

namespace NanoVerif.WLearner
variable {α : Type} [Field α] [LinearOrder α] [IsStrictOrderedRing α]

/-! ### minimum of a list -/

theorem lmin?_spec (l : List α) :
    (l = [] → lmin? l = none) ∧ (l ≠ [] → ∃ m, lmin? l = some m ∧ m ∈ l ∧ ∀ x ∈ l, m ≤ x) := by
  induction l with
  | nil => simp [lmin?]
  | cons a as ih =>
    refine ⟨by simp, fun _ => ?_⟩
    simp only [lmin?]
    cases has : as with
    | nil => simp [lmin?]
    | cons b bs =>
      obtain ⟨m, hm, hmem, hmin⟩ := ih.2 (by rw [has]; simp)
      rw [has] at hm hmem hmin
      rw [hm]
      simp only
      split
      · rename_i hlt
        refine ⟨m, rfl, List.mem_cons_of_mem _ hmem, ?_⟩
        intro x hx
        rcases List.mem_cons.mp hx with rfl | hx
        · exact le_of_lt hlt
        · exact hmin x hx
      · rename_i hn
        refine ⟨a, rfl, by simp, ?_⟩
        intro x hx
        rcases List.mem_cons.mp hx with rfl | hx
        · exact le_refl _
        · exact le_trans (not_lt.mp hn) (hmin x hx)

/-! ### one cache, all scores finite and below `no_fit_score()` -/

theorem fitSeq_min [FinTest α] (hfin : ∀ y : α, FinTest.isFin y = true) (big : α) (cands : List (Cand α))
    (hbig : ∀ c ∈ cands, c.score < big) :
    (cands = [] → fitSeq big cands = noFit big) ∧
    (cands ≠ [] → fitSeq big cands ∈ cands ∧ ∀ c ∈ cands, (fitSeq big cands).score ≤ c.score) := by
  constructor
  · intro h; rw [h]; rfl
  · intro hne
    unfold fitSeq
    obtain ⟨h1, _, h3⟩ := foldl_pick_spec cands (noFit big)
    have hle : ∀ c ∈ cands, (cands.foldl pick (noFit big)).score ≤ c.score := fun c hc => h3 c hc (hfin _)
    refine ⟨?_, hle⟩
    rcases h1 with h1 | ⟨hm, _, _⟩
    · obtain ⟨c, hc⟩ := List.exists_mem_of_ne_nil cands hne
      have := hle c hc
      rw [h1] at this
      have hb : (noFit big : Cand α).score = big := rfl
      rw [hb] at this
      exact absurd (hbig c hc) (not_lt.mpr this)
    · exact hm

/-! ### `List.mergeSort` with the order of `std::pair<scalar, index>` is a `std::sort` -/

theorem itemLe_iff (a b : Item α) : itemLe a b = true ↔ a.v < b.v ∨ (¬ b.v < a.v ∧ a.idx ≤ b.idx) := by
  unfold itemLe; simp

theorem mergeSort_sortSpec : SortSpec (α := α) (fun l => l.mergeSort itemLe) := by
  have htrans : ∀ a b c : Item α, itemLe a b = true → itemLe b c = true → itemLe a c = true := by
    intro a b c h1 h2
    rw [itemLe_iff] at *
    rcases h1 with h1 | ⟨h1, h1'⟩ <;> rcases h2 with h2 | ⟨h2, h2'⟩
    · exact Or.inl (lt_trans h1 h2)
    · exact Or.inl (lt_of_lt_of_le h1 (not_lt.mp h2))
    · exact Or.inl (lt_of_le_of_lt (not_lt.mp h1) h2)
    · have e1 : a.v = b.v ∨ a.v < b.v := (not_lt.mp h1).eq_or_lt
      rcases e1 with e1 | e1
      · right; exact ⟨by rw [e1]; exact h2, le_trans h1' h2'⟩
      · left; exact lt_of_lt_of_le e1 (not_lt.mp h2)
  have htotal : ∀ a b : Item α, (itemLe a b || itemLe b a) = true := by
    intro a b
    rw [Bool.or_eq_true, itemLe_iff, itemLe_iff]
    rcases lt_trichotomy a.v b.v with h | h | h
    · exact Or.inl (Or.inl h)
    · rcases Nat.le_total a.idx b.idx with hi | hi
      · exact Or.inl (Or.inr ⟨by rw [h]; exact lt_irrefl _, hi⟩)
      · exact Or.inr (Or.inr ⟨by rw [h]; exact lt_irrefl _, hi⟩)
    · exact Or.inr (Or.inl h)
  refine ⟨fun l => List.mergeSort_perm l itemLe, fun l => ?_⟩
  refine (List.pairwise_mergeSort htrans htotal l).imp ?_
  intro a b h
  rcases (itemLe_iff a b).mp h with h | ⟨h, _⟩
  · exact le_of_lt h
  · exact not_lt.mp h

/-! ### the brute-force stump -/

theorem presentVals_eq (rows : List (Row α)) : presentVals rows = (present rows).map (·.v) := by
  unfold presentVals present
  induction rows with
  | nil => rfl
  | cons row rows ih =>
    cases hx : row.x with
    | none => simp [List.filterMap_cons, hx, ih]
    | some v => simp [List.filterMap_cons, hx, ih]

theorem mem_midpoints (vals : List α) (t : α) :
    t ∈ midpoints vals ↔ ∃ a ∈ vals, ∃ b ∈ vals, a < b ∧ t = half * (a + b) := by
  unfold midpoints
  simp only [List.mem_flatMap, List.mem_filterMap]
  constructor
  · rintro ⟨a, ha, b, hb, h⟩
    split at h
    · rename_i hlt; simp at h; exact ⟨a, ha, b, hb, hlt, h.symm⟩
    · simp at h
  · rintro ⟨a, ha, b, hb, hlt, rfl⟩
    exact ⟨a, ha, b, hb, by simp [hlt]⟩

theorem leftRows_map (t : α) (rows : List (Row α)) :
    (leftRows t rows).map (·.r) = (leftOf t (present rows)).map (·.r) := by
  unfold leftRows leftOf
  induction rows with
  | nil => rfl
  | cons row rows ih =>
    cases hx : row.x with
    | none => rw [present_cons_none row rows hx]; simp [List.filter_cons, hx, ih]
    | some v =>
      rw [present_cons_some row rows v hx]
      by_cases h : v < t
      · simp [List.filter_cons, hx, h, ih]
      · simp [List.filter_cons, hx, h, ih]

theorem rightRows_map (t : α) (rows : List (Row α)) :
    (rightRows t rows).map (·.r) = (rightOf t (present rows)).map (·.r) := by
  unfold rightRows rightOf
  induction rows with
  | nil => rfl
  | cons row rows ih =>
    cases hx : row.x with
    | none => rw [present_cons_none row rows hx]; simp [List.filter_cons, hx, ih]
    | some v =>
      rw [present_cons_some row rows v hx]
      by_cases h : v < t
      · simp [List.filter_cons, hx, h, ih]
      · simp [List.filter_cons, hx, h, ih]

theorem meanOf_eq (rs : List (Vec α)) (o : Nat) : meanOf rs o = binMean (momOf rs) o := by
  unfold meanOf binMean; rw [momOf_r1, momOf_x0]

/-- the brute-force stump at a threshold with present values on both sides is the best stump with that threshold -/
theorem stumpBruteAt_le (T : Nat) (rows : List (Row α)) (t : α)
    (hl : leftOf t (present rows) ≠ []) (hr : rightOf t (present rows) ≠ []) (lo hi : Vec α) :
    stumpBruteAt T rows t ≤ rssOf T rows (stumpPred t lo hi) := by
  unfold stumpBruteAt
  rw [rssOf_stump, rssOf_stump, leftRows_map, rightRows_map]
  have hL : (leftOf t (present rows)).map (·.r) ≠ [] := by simpa using hl
  have hR : (rightOf t (present rows)).map (·.r) ≠ [] := by simpa using hr
  have e1 : lsum ((leftOf t (present rows)).map fun it => sqErr T it.r (meanOf ((leftOf t (present rows)).map (·.r))))
      = binScore T (momOf ((leftOf t (present rows)).map (·.r))) := by
    rw [(const_fit_vec T _ hL zeroV).2, List.map_map]
    apply lsum_map_congr; intro it _
    exact sqErr_congr T _ _ _ (fun o => meanOf_eq _ o)
  have e2 : lsum ((rightOf t (present rows)).map fun it => sqErr T it.r (meanOf ((rightOf t (present rows)).map (·.r))))
      = binScore T (momOf ((rightOf t (present rows)).map (·.r))) := by
    rw [(const_fit_vec T _ hR zeroV).2, List.map_map]
    apply lsum_map_congr; intro it _
    exact sqErr_congr T _ _ _ (fun o => meanOf_eq _ o)
  rw [e1, e2]
  have h1 := (const_fit_vec T _ hL lo).1
  have h2 := (const_fit_vec T _ hR hi).1
  rw [List.map_map] at h1 h2
  have h1' : lsum ((leftOf t (present rows)).map fun it => sqErr T it.r lo)
      = lsum ((leftOf t (present rows)).map ((fun r => sqErr T r lo) ∘ fun x => x.r)) := rfl
  have h2' : lsum ((rightOf t (present rows)).map fun it => sqErr T it.r hi)
      = lsum ((rightOf t (present rows)).map ((fun r => sqErr T r hi) ∘ fun x => x.r)) := rfl
  linarith

theorem sides_of_midpoint (items : List (Item α)) (a b : Item α) (ha : a ∈ items) (hb : b ∈ items) (hab : a.v < b.v) :
    leftOf (half * (a.v + b.v)) items ≠ [] ∧ rightOf (half * (a.v + b.v)) items ≠ [] := by
  constructor
  · intro h
    have : a ∈ leftOf (half * (a.v + b.v)) items := List.mem_filter.mpr ⟨ha, by simp [lt_mid hab]⟩
    rw [h] at this; simp at this
  · intro h
    have : b ∈ rightOf (half * (a.v + b.v)) items :=
      List.mem_filter.mpr ⟨hb, by simp [not_lt.mpr (le_of_lt (mid_lt hab))]⟩
    rw [h] at this; simp at this

/-! ### the fitted learners' predictions -/

/-- the value of a scalar feature as the learners see it -/
def numVal : Option α → FVal α
  | some x => FVal.num x
  | none => FVal.missing

theorem contrib_stump (f : Nat) (thr : α) (tables : List (Vec α)) (s : Nat → FVal α) (ox : Option α)
    (hs : s f = numVal ox) :
    contrib (Learner.stump f thr tables) s = stumpPred thr (tab tables 0) (tab tables 1) ox := by
  unfold contrib
  simp only [eval, hs]
  cases ox with
  | none => rfl
  | some x =>
    simp only [numVal, stumpPred]
    by_cases h : x < thr <;> simp [h]

theorem contrib_affine (f : Nat) (tables : List (Vec α)) (s : Nat → FVal α) (ox : Option α) (hs : s f = numVal ox) :
    contrib (Learner.affine f tables) s = affinePred (tab tables 0) (tab tables 1) ox := by
  unfold contrib
  simp only [eval, hs]
  cases ox with
  | none => rfl
  | some x => rfl

theorem contrib_hinge (f : Nat) (thr : α) (left : Bool) (tables : List (Vec α)) (s : Nat → FVal α) (ox : Option α)
    (hs : s f = numVal ox) (hoff : ∀ o, tab tables 1 o = -thr * tab tables 0 o) (o : Nat) :
    contrib (Learner.hinge f thr left tables) s o = hingePred thr left (tab tables 0) ox o := by
  unfold contrib
  simp only [eval, hs]
  cases ox with
  | none => rfl
  | some x =>
    simp only [numVal, hingePred]
    split
    · simp only [lin]; rw [hoff]; ring
    · rfl

end NanoVerif.WLearner

namespace NanoVerif.WLearner
variable {α : Type} [Field α] [LinearOrder α] [IsStrictOrderedRing α]

/-! ### whole fits: the candidates of all features, in the order one thread tries them -/

/-- a sample that has the value `v` for feature `f` (the other features do not matter to a single-feature learner) -/
def sampleOf (f : Nat) (v : FVal α) : Nat → FVal α := fun g => if g = f then v else FVal.missing

theorem sampleOf_self (f : Nat) (v : FVal α) : sampleOf f v f = v := by simp [sampleOf]

/-- the RSS of a fitted learner's predictions (`predict` from zero outputs) over the rows of feature `f` -/
def predRss (T : Nat) (l : Learner α) (f : Nat) (rows : List (Row α)) : α :=
  lsum (rows.map fun row => sqErr T row.r (predictOne l (sampleOf f (numVal row.x)) zeroV))

def predRssC (T : Nat) (l : Learner α) (f : Nat) (rows : List (CRow α)) : α :=
  lsum (rows.map fun row => sqErr T row.r (predictOne l (sampleOf f (clsVal row.h)) zeroV))

theorem predictOne_zero (l : Learner α) (s : Nat → FVal α) (o : Nat) : predictOne l s zeroV o = contrib l s o := by
  rw [predictOne_eq]; simp [zeroV]

def stumpAll [Log α] (sort : List (Item α) → List (Item α)) (T : Nat) (K : α) (cols : List (Nat × List (Row α))) :
    List (Cand α) := cols.flatMap fun p => stumpCands sort T K Crit.rss p.1 p.2

def hingeAll [Log α] (sort : List (Item α) → List (Item α)) (T : Nat) (K : α) (cols : List (Nat × List (Row α))) :
    List (Cand α) := cols.flatMap fun p => hingeFeatureCands sort T K Crit.rss p.1 p.2

def affineAll [Log α] (eps1 : α) (T : Nat) (K : α) (cols : List (Nat × List (Row α))) : List (Cand α) :=
  cols.map fun p => affineCand eps1 T K Crit.rss p.1 p.2

def denseAll [Log α] (T : Nat) (K : α) (cols : List (Nat × List (CRow α))) : List (Cand α) :=
  cols.map fun p => denseCand T K Crit.rss p.1 p.2

def dstepAll [Log α] (T : Nat) (K : α) (cols : List (Nat × List (CRow α))) : List (Cand α) :=
  cols.flatMap fun p => (dstepCand T K Crit.rss p.1 p.2).toList

end NanoVerif.WLearner
