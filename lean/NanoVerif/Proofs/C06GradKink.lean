import NanoVerif.Proofs.C06GradLoss
/-!
  C06 — objects NOT declared smooth: the returned sub-gradient is the derivative of the value wherever no kink is hit
  (part 1): the losses mae, hinge, pinball (every output off its kink) and the elastic-net prototypes with an `ℓ₁` term
  (every coordinate of `x` non-zero, every output off the kink of the kernel).
-/
set_option linter.unusedSectionVars false
set_option linter.unusedVariables false

namespace NanoVerif.C06
open NanoVerif.Loss NanoVerif.Fn

/-! ### `max(·, 0)` and `|·|` away from 0 -/

theorem max0_deriv_off {u : ℝ} (h : u ≠ 0) : HasDerivAt (fun u : ℝ => max0 u) (if 0 < u then 1 else 0) u := by
  rcases lt_or_gt_of_ne h with hn | hp
  · have hev : (fun u : ℝ => max0 u) =ᶠ[nhds u] fun _ => (0 : ℝ) := by
      filter_upwards [Iio_mem_nhds hn] with y hy
      exact max0_nonpos (le_of_lt hy)
    rw [if_neg (not_lt.mpr (le_of_lt hn))]
    exact (hasDerivAt_const u (0 : ℝ)).congr_of_eventuallyEq hev
  · have hev : (fun u : ℝ => max0 u) =ᶠ[nhds u] fun y => y := by
      filter_upwards [Ioi_mem_nhds hp] with y hy
      exact max0_pos (Set.mem_Ioi.1 hy)
    rw [if_pos hp]
    exact (hasDerivAt_id' u).congr_of_eventuallyEq hev

theorem abs_deriv_off {u : ℝ} (h : u ≠ 0) : HasDerivAt (fun u : ℝ => abs' u) (sign' u) u := by
  rcases lt_or_gt_of_ne h with hn | hp
  · have hev : (fun u : ℝ => abs' u) =ᶠ[nhds u] fun y => -y := by
      filter_upwards [Iio_mem_nhds hn] with y hy
      unfold abs'; rw [if_pos (Set.mem_Iio.1 hy)]
    have hs : sign' u = -1 := by unfold sign'; rw [if_neg (not_lt.mpr (le_of_lt hn)), if_pos hn]
    rw [hs]
    exact (hasDerivAt_id' u).neg.congr_of_eventuallyEq hev
  · have hev : (fun u : ℝ => abs' u) =ᶠ[nhds u] fun y => y := by
      filter_upwards [Ioi_mem_nhds hp] with y hy
      unfold abs'; rw [if_neg (not_lt.mpr (le_of_lt (Set.mem_Ioi.1 hy)))]
    have hs : sign' u = 1 := by unfold sign'; rw [if_pos hp]
    rw [hs]
    exact (hasDerivAt_id' u).congr_of_eventuallyEq hev

/-! ### the scalar kernels off their kinks -/

theorem mae_deriv_off (t o : ℝ) (h : o ≠ t) : HasDerivAt (fun o => maeV t o) (maeG t o) o := by
  unfold maeV maeG
  have hin : HasDerivAt (fun y : ℝ => y - t) 1 o := (hasDerivAt_id' o).sub_const t
  have hout : HasDerivAt (fun u : ℝ => abs' u) (sign' (o - t)) ((fun y : ℝ => y - t) o) :=
    abs_deriv_off (sub_ne_zero.2 h)
  have hc := HasDerivAt.comp o hout hin
  rw [mul_one] at hc
  exact hc

theorem hinge_deriv_off (t o : ℝ) (h : 1 - t * o ≠ 0) : HasDerivAt (fun o => hingeV t o) (hingeG t o) o := by
  unfold hingeV hingeG
  have hin : HasDerivAt (fun y : ℝ => 1 - t * y) (-t) o := by
    have := ((hasDerivAt_id' o).const_mul t).const_sub 1; simpa using this
  have hc := HasDerivAt.comp o (max0_deriv_off h) hin
  refine HasDerivAt.congr_deriv hc ?_
  unfold sign'
  rcases lt_or_gt_of_ne h with hn | hp
  · rw [if_neg (not_lt.mpr (le_of_lt hn)), if_neg (not_lt.mpr (le_of_lt hn)), if_pos hn]; ring
  · rw [if_pos hp, if_pos hp]; ring

theorem pinball_deriv_off (a t o : ℝ) (h : o ≠ t) : HasDerivAt (fun o => pinballV a t o) (pinballG a t o) o := by
  unfold pinballV pinballG
  have h1 : t - o ≠ 0 := sub_ne_zero.2 (Ne.symm h)
  have h2 : o - t ≠ 0 := sub_ne_zero.2 h
  have hin1 : HasDerivAt (fun y : ℝ => t - y) (-1) o := by
    have := (hasDerivAt_id' o).const_sub t; simpa using this
  have hin2 : HasDerivAt (fun y : ℝ => y - t) 1 o := (hasDerivAt_id' o).sub_const t
  have hc1 := (HasDerivAt.comp o (max0_deriv_off h1) hin1).const_mul a
  have hc2 := (HasDerivAt.comp o (max0_deriv_off h2) hin2).const_mul (1 - a)
  refine HasDerivAt.congr_deriv (hc1.add hc2) ?_
  unfold sign'
  rcases lt_or_gt_of_ne h1 with hn | hp
  · have hp2 : 0 < o - t := by linarith
    rw [if_neg (not_lt.mpr (le_of_lt hn)), if_pos hp2, if_neg (not_lt.mpr (le_of_lt hn)), if_pos hn]; ring
  · have hn2 : ¬ 0 < o - t := by linarith
    rw [if_pos hp, if_neg hn2, if_pos hp]; ring

/-- elastic_net.h hinge kernel -/
theorem enetHinge_deriv_off (t o : ℝ) (h : 1 + -o * t ≠ 0) : HasDerivAt (fun o => enetHingeV t o) (enetHingeG t o) o := by
  unfold enetHingeV enetHingeG
  have hin : HasDerivAt (fun y : ℝ => 1 + -y * t) (-t) o := by
    have := (((hasDerivAt_id' o).neg).mul_const t).const_add 1; simpa using this
  have hc := HasDerivAt.comp o (max0_deriv_off h) hin
  refine HasDerivAt.congr_deriv hc ?_
  unfold sign'
  rcases lt_or_gt_of_ne h with hn | hp
  · rw [if_neg (not_lt.mpr (le_of_lt hn)), if_neg (not_lt.mpr (le_of_lt hn)), if_pos hn]; ring
  · rw [if_pos hp, if_pos hp]; ring

/-! ### element-wise sums under a pointwise side condition -/

/-- `P t_i o_i` for all `i` -/
def All2 (P : ℝ → ℝ → Prop) : List ℝ → List ℝ → Prop
  | t :: ts, o :: os => P t o ∧ All2 P ts os
  | _, _ => True

theorem sum2_line_deriv_on (P : ℝ → ℝ → Prop) (k g : ℝ → ℝ → ℝ)
    (h : ∀ t o, P t o → HasDerivAt (fun o => k t o) (g t o) o) :
    ∀ (t o d : List ℝ), o.length = t.length → d.length = t.length → All2 P t o →
      HasDerivAt (fun s : ℝ => sum2 k t (line o d s)) (dot (map2 g t o) d) 0
  | [], [], [], _, _, _ => by
    simp only [sum2, map2, dot]; exact hasDerivAt_const _ _
  | t :: ts, o :: os, d :: ds, ho, hd, hP => by
    have ih := sum2_line_deriv_on P k g h ts os ds (by simpa using ho) (by simpa using hd) hP.2
    have h0 := comp_coord o d (h t o hP.1)
    simp only [line_cons, sum2, map2, dot]
    exact h0.add ih
  | [], _ :: _, _, h, _, _ => by simp at h
  | [], _, _ :: _, _, h, _ => by simp at h
  | _ :: _, [], _, h, _, _ => by simp at h
  | _ :: _, _, [], _, h, _ => by simp at h

theorem mae_grad_off (a eps : ℝ) (t o d : List ℝ) (ho : o.length = t.length) (hd : d.length = t.length)
    (hk : All2 (fun ti oi => oi ≠ ti) t o) :
    HasDerivAt (fun s : ℝ => value .mae a eps t (line o d s)) (dot (vgrad .mae a t o) d) 0 :=
  sum2_line_deriv_on _ maeV maeG mae_deriv_off t o d ho hd hk

theorem hinge_grad_off (a eps : ℝ) (t o d : List ℝ) (ho : o.length = t.length) (hd : d.length = t.length)
    (hk : All2 (fun ti oi => 1 - ti * oi ≠ 0) t o) :
    HasDerivAt (fun s : ℝ => value .hinge a eps t (line o d s)) (dot (vgrad .hinge a t o) d) 0 :=
  sum2_line_deriv_on _ hingeV hingeG hinge_deriv_off t o d ho hd hk

theorem pinball_grad_off (a eps : ℝ) (t o d : List ℝ) (ho : o.length = t.length) (hd : d.length = t.length)
    (hk : All2 (fun ti oi => oi ≠ ti) t o) :
    HasDerivAt (fun s : ℝ => value .pinball a eps t (line o d s)) (dot (vgrad .pinball a t o) d) 0 :=
  sum2_line_deriv_on _ (pinballV a) (pinballG a) (pinball_deriv_off a) t o d ho hd hk

/-! ### elastic net with an `ℓ₁` term -/

theorem l1_line_deriv : ∀ (x d : List ℝ), d.length = x.length → (∀ v ∈ x, v ≠ 0) →
    HasDerivAt (fun s : ℝ => sumL ((line x d s).map abs')) (dot (x.map sign') d) 0
  | [], [], _, _ => by simp only [line_nil, List.map, sumL, dot]; exact hasDerivAt_const _ _
  | x :: xs, d :: ds, hl, hx => by
    have ih := l1_line_deriv xs ds (by simpa using hl) (fun v hv => hx v (by simp [hv]))
    have h0 := comp_coord x d (abs_deriv_off (hx x (by simp)))
    simp only [line_cons, List.map, sumL, dot]
    exact h0.add ih
  | [], _ :: _, h, _ => by simp at h
  | _ :: _, [], h, _ => by simp at h

/-- `loss(inputs·x + b, targets)/N + α₁‖x‖₁ + ½‖√α₂ x‖²` at a point with no zero coordinate whose outputs avoid the
    kinks of the kernel (side condition `P`); without an `ℓ₁` term (`α₁ = 0`) the coordinates may vanish -/
theorem enet_grad_off_aux (P : ℝ → ℝ → Prop) (kV kG : ℝ → ℝ → ℝ)
    (hk : ∀ t o, P t o → HasDerivAt (fun o => kV t o) (kG t o) o)
    (a1 a2 : ℝ) (h2 : 0 ≤ a2) (A : List (List ℝ)) (b : ℝ) (t x d : List ℝ)
    (hA : A.length = t.length) (hrows : ∀ r ∈ A, r.length = x.length) (hd : d.length = x.length)
    (hP : All2 P t (enetOutputs A b x)) (hx0 : a1 = 0 ∨ ∀ v ∈ x, v ≠ 0) :
    HasDerivAt (fun s : ℝ => enetF kV a1 a2 A b t (line x d s)) (dot (enetG kG a1 a2 A b t x) d) 0 := by
  have hox : (enetOutputs A b x).length = t.length := by rw [enetOutputs_length, hA]
  have hggl : (map2 kG t (enetOutputs A b x)).length = t.length := by rw [map2_length _ _ _ hox.symm, hox]
  have hadj := tmulVec_adjoint x.length A (map2 kG t (enetOutputs A b x)) d hrows (by rw [hA, hggl])
  have hs : Real.sqrt a2 * Real.sqrt a2 = a2 := Real.mul_self_sqrt h2
  have hT : (tmulVec x.length A (map2 kG t (enetOutputs A b x))).length = x.length :=
    tmulVec_length x.length A _ hrows
  have hlen2 : (smul a1 (x.map sign')).length = (smul a2 x).length := by simp
  have hlen1 : ((tmulVec x.length A (map2 kG t (enetOutputs A b x))).map (fun v => v / (t.length : ℝ))).length =
      (vadd (smul a1 (x.map sign')) (smul a2 x)).length := by
    rw [List.length_map, vadd_length _ _ hlen2, smul_length]; exact hT
  unfold enetF enetG
  simp only [tsqrt_eq]
  rw [dot_vadd_left _ _ _ hlen1, dot_vadd_left _ _ _ hlen2, dot_map_div, hadj, dot_smul_left, dot_smul_left]
  have e : (fun s : ℝ => sum2 kV t (enetOutputs A b (line x d s)) / (t.length : ℝ)
        + a1 * sumL ((line x d s).map abs')
        + 1 / 2 * dot (smul (Real.sqrt a2) (line x d s)) (smul (Real.sqrt a2) (line x d s))) =
      fun s => sum2 kV t (line (enetOutputs A b x) (mulVec A d) s) / (t.length : ℝ)
        + a1 * sumL ((line x d s).map abs')
        + 1 / 2 * (a2 * dot (line x d s) (line x d s)) := by
    funext s
    rw [enetOutputs_line A b x d s hd, dot_smul_smul, hs]
  rw [e]
  have h1 := sum2_line_deriv_on P kV kG hk t (enetOutputs A b x) (mulVec A d) hox (by rw [mulVec_length, hA]) hP
  have hl1 : HasDerivAt (fun s : ℝ => a1 * sumL ((line x d s).map abs')) (a1 * dot (x.map sign') d) 0 := by
    rcases hx0 with h | h
    · subst h
      simpa using hasDerivAt_const (0 : ℝ) (0 : ℝ)
    · exact (l1_line_deriv x d hd h).const_mul a1
  have h := ((h1.div_const (t.length : ℝ)).add hl1).add
    (((dot_self_line_deriv x d hd).const_mul a2).const_mul (1 / 2))
  refine h.congr_deriv ?_
  ring

end NanoVerif.C06
