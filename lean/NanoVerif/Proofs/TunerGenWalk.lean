import NanoVerif.Proofs.TunerGen
/-!
  C13 — the coefficient walk `m_model(k++)` of `quadratic_surrogate_t::do_vgrad` with the index `k` threaded explicitly
  (`Gen.TunerSpace.quadValueWalk`, `quadGradWalk2`: state `(accumulator, k)`, `m_model(k)` ↦ `m.getD k 0`, one `k + 1` per innermost
  body) computes what the model computes by zipping the coefficients with the index pairs — as long as the walk stays inside the
  coefficient vector (which the constructor's `assert(m_model.size() == (size() + 1) * (size() + 2) / 2)` is there to guarantee).
-/
set_option linter.unusedSectionVars false
namespace NanoVerif.Tuner
open NanoVerif.Gen

/-- a walk that reads coefficient `k`, `k + 1`, … is the fold over the coefficients zipped with the iteration space -/
theorem walk_eq_zip {α σ ι : Type} [OfNat α 0] (term : σ → α → ι → σ) (m : List α) :
    ∀ (idxs : List ι) (acc : σ) (k : Nat), k + idxs.length ≤ m.length →
      idxs.foldl (fun (st : σ × Nat) idx => (term st.1 (m.getD st.2 0) idx, st.2 + 1)) (acc, k) =
        ((List.zip (m.drop k) idxs).foldl (fun acc t => term acc t.1 t.2) acc, k + idxs.length) := by
  intro idxs
  induction idxs with
  | nil => intro acc k _; simp
  | cons idx rest ih =>
    intro acc k hk
    have hk' : k < m.length := by simp only [List.length_cons] at hk; omega
    have hd : m.drop k = m[k] :: m.drop (k + 1) := List.drop_eq_getElem_cons hk'
    have hg : m.getD k 0 = m[k] := by simp [List.getD_eq_getElem?_getD, hk']
    simp only [List.foldl_cons, hg]
    rw [ih _ (k + 1) (by simp only [List.length_cons] at hk; omega), hd]
    simp only [List.zip_cons_cons, List.foldl_cons, List.length_cons]
    congr 1
    omega

/-- a loop over the indices of `x` that only reads `x(i)` is the fold over the elements of `x` -/
theorem foldl_indices_eq_elems {α σ : Type} [OfNat α 0] (F : σ → α → σ) :
    ∀ (x pre : List α) (st : σ),
      (List.range' pre.length x.length).foldl (fun st i => F st ((pre ++ x).getD i 0)) st = x.foldl F st := by
  intro x
  induction x with
  | nil => intro pre st; simp
  | cons a xs ih =>
    intro pre st
    have h := ih (pre ++ [a]) (F st a)
    simp only [List.length_append, List.length_cons, List.length_nil, List.append_assoc, List.cons_append,
      List.nil_append] at h
    simp only [List.length_cons, List.range'_succ, List.foldl_cons]
    have hg : (pre ++ a :: xs).getD pre.length 0 = a := by simp [List.getD_eq_getElem?_getD]
    rw [hg]
    exact h

theorem zip_take_right {β γ : Type} : ∀ (l : List β) (x : List γ), List.zip (l.take x.length) x = List.zip l x := by
  intro l
  induction l with
  | nil => intro x; simp
  | cons a rest ih =>
    intro x
    cases x with
    | nil => simp
    | cons b xs => simp [ih xs]

section
variable {α : Type} [Add α] [Sub α] [Mul α] [Div α] [Neg α] [LT α] [DecidableLT α] [BEq α]
  [OfNat α 0] [OfNat α 1] [OfNat α 2] [Log10 α]

/-- the value of the fitted quadratic IS the generated walk with `k` threaded through both loops, for a coefficient vector that
    covers the walk -/
theorem model_quadValue_is_generated_walk (m x : List α)
    (hlen : 1 + x.length + (pairIdx x.length).length ≤ m.length) :
    quadValue m x = TunerSpace.quadValueWalk m x := by
  rw [model_quadValue_is_generated, foldl_zipWith_zip, zip_take_right]
  unfold TunerSpace.quadValueWalk
  have hidx := foldl_indices_eq_elems
    (fun (st : α × Nat) xi => (TunerSpace.valueLin st.1 (m.getD st.2 0) xi, st.2 + 1)) x [] (m.getD TunerSpace.valueInitIdx 0, TunerSpace.valueK0)
  simp only [List.length_nil, List.nil_append] at hidx
  simp only [Nat.sub_zero]
  rw [hidx]
  have h1 := walk_eq_zip (fun (fx : α) q (xi : α) => TunerSpace.valueLin fx q xi) m x (m.getD TunerSpace.valueInitIdx 0)
    TunerSpace.valueK0 (by simp only [TunerSpace.valueK0]; omega)
  rw [h1]
  rw [← model_valuePairIdx_is_generated]
  have h2 := walk_eq_zip (fun (fx : α) q (ij : Nat × Nat) => TunerSpace.valueTerm x fx q ij.1 ij.2) m (pairIdx x.length)
    ((List.zip (m.drop TunerSpace.valueK0) x).foldl (fun acc t => TunerSpace.valueLin acc t.1 t.2) (m.getD TunerSpace.valueInitIdx 0))
    (TunerSpace.valueK0 + x.length) (by simp only [TunerSpace.valueK0]; omega)
  rw [h2]

/-- the second-order part of the gradient, likewise, starting from the vector the first-order loop leaves behind -/
theorem model_quadGrad_is_generated_walk (m x : List α)
    (hlen : 1 + x.length + (pairIdx x.length).length ≤ m.length) :
    quadGrad m x =
      TunerSpace.quadGradWalk2 addAt m x
        (List.zipWith (fun (_ : α) c => TunerSpace.gradLin 0 c) x ((m.drop TunerSpace.gradK0).take x.length)) := by
  rw [model_quadGrad_is_generated, foldl_zipWith_zip]
  unfold TunerSpace.quadGradWalk2
  rw [← model_gradPairIdx_is_generated]
  have h2 := walk_eq_zip (fun (g : List α) q (ij : Nat × Nat) => TunerSpace.gradTerm addAt x g q ij.1 ij.2) m (pairIdx x.length)
    (List.zipWith (fun (_ : α) c => TunerSpace.gradLin 0 c) x ((m.drop TunerSpace.gradK0).take x.length))
    (TunerSpace.gradK0 + x.length) (by simp only [TunerSpace.gradK0]; omega)
  rw [h2]

end

end NanoVerif.Tuner
