import NanoVerif.Model.Tensor
/-!
  C16 — helper lemmas for the matrix form of `stack`. Core Lean only.
-/
namespace NanoVerif.Tensor

theorem cell_div_mod (cols R C : Nat) (hC : C < cols) :
    (R * cols + C) / cols = R ∧ (R * cols + C) % cols = C := by
  have hpos : 0 < cols := by omega
  constructor
  · rw [Nat.mul_comm, Nat.mul_add_div hpos, Nat.div_eq_of_lt hC, Nat.add_zero]
  · rw [Nat.mul_comm, Nat.mul_add_mod, Nat.mod_eq_of_lt hC]

theorem cell_lt (rows cols R C : Nat) (hR : R < rows) (hC : C < cols) : R * cols + C < rows * cols := by
  have : (R + 1) * cols ≤ rows * cols := Nat.mul_le_mul_right _ hR
  rw [Nat.add_mul, Nat.one_mul] at this
  omega

theorem placeBlock_length {α} (cols : Nat) (m : List α) (row col br bc : Nat) (blk : List α) :
    (placeBlock cols m row col br bc blk).length = m.length := by
  simp [placeBlock]

/-- cells outside the rectangle are untouched -/
theorem placeBlock_outside {α} (cols : Nat) (m : List α) (row col br bc : Nat) (blk : List α) (R C : Nat)
    (hC : C < cols) (hout : ¬ (row ≤ R ∧ R < row + br ∧ col ≤ C ∧ C < col + bc)) :
    (placeBlock cols m row col br bc blk)[R * cols + C]? = m[R * cols + C]? := by
  obtain ⟨h1, h2⟩ := cell_div_mod cols R C hC
  simp only [placeBlock, List.getElem?_mapIdx, h1, h2, if_neg hout]
  cases m[R * cols + C]? <;> rfl

/-- cell `(row + r, col + c)` of the rectangle receives `block(r, c)` -/
theorem placeBlock_inside {α} (cols : Nat) (m : List α) (row col br bc : Nat) (blk : List α) (r c : Nat)
    (hblk : blk.length = br * bc) (hr : r < br) (hc : c < bc) (hcol : col + bc ≤ cols)
    (hm : (row + r) * cols + (col + c) < m.length) :
    (placeBlock cols m row col br bc blk)[(row + r) * cols + (col + c)]? = blk[r * bc + c]? := by
  obtain ⟨h1, h2⟩ := cell_div_mod cols (row + r) (col + c) (by omega)
  have hin : row ≤ row + r ∧ row + r < row + br ∧ col ≤ col + c ∧ col + c < col + bc := by omega
  have hlt : r * bc + c < blk.length := by rw [hblk]; exact cell_lt br bc r c hr hc
  simp only [placeBlock, List.getElem?_mapIdx, h1, h2, if_pos hin, List.getElem?_eq_getElem hm,
    Option.map_some, Nat.add_sub_cancel_left, List.getD, List.getElem?_eq_getElem hlt, Option.getD_some]

/-- the part of the matrix the blocks from `(row, col)` on may still write, when the current block-row has
    height `h`: the rest of the block-row and everything below it -/
def InReg (row col h R C : Nat) : Prop := (row ≤ R ∧ R < row + h ∧ col ≤ C) ∨ row + h ≤ R

theorem stackMatGo_spec {α} (rows cols : Nat) : ∀ (bs : List (Block α)) (b : Block α) (row col : Nat)
    (m M : List α), StackAligned cols (b :: bs) col → stackMatGo rows cols (b :: bs) row col m = some M →
    m.length = rows * cols →
    M.length = rows * cols ∧
    (∀ R C, C < cols → ¬ InReg row col b.rows R C → M[R * cols + C]? = m[R * cols + C]?) ∧
    (∀ (k : Nat) (bk : Block α) (rk ck : Nat), (b :: bs)[k]? = some bk → (stackPos cols (b :: bs) row col)[k]? = some (rk, ck) →
      ∀ r c, r < bk.rows → c < bk.cols →
        M[(rk + r) * cols + (ck + c)]? = bk.data[r * bk.cols + c]? ∧ rk + r < rows ∧ ck + c < cols)
  | [], b, row, col, m, M, _, hgo, hm => by
    simp only [stackMatGo] at hgo
    split at hgo
    · rename_i hg
      obtain ⟨g1, g2, g3⟩ := hg
      split at hgo
      · cases hgo
        refine ⟨by rw [placeBlock_length, hm], ?_, ?_⟩
        · intro R C hC hout
          exact placeBlock_outside cols m row col b.rows b.cols b.data R C hC
            (fun h => hout (Or.inl ⟨h.1, h.2.1, h.2.2.1⟩))
        · intro k bk rk ck hk hp r c hr hc
          cases k with
          | zero =>
            simp only [List.getElem?_cons_zero, Option.some.injEq] at hk
            subst hk
            simp only [stackPos, List.getElem?_cons_zero, Option.some.injEq, Prod.mk.injEq] at hp
            obtain ⟨rfl, rfl⟩ := hp
            have hlt := cell_lt rows cols (row + r) (col + c) (by omega) (by omega)
            exact ⟨placeBlock_inside cols m row col b.rows b.cols b.data r c g1 hr hc g2 (by omega),
              by omega, by omega⟩
          | succ k => simp at hk
      · cases hgo
    · cases hgo
  | b' :: rest, b, row, col, m, M, hal, hgo, hm => by
    simp only [stackMatGo] at hgo
    split at hgo
    · rename_i hg
      obtain ⟨g1, g2, g3⟩ := hg
      obtain ⟨hal1, hal2⟩ := hal
      have hm' : (placeBlock cols m row col b.rows b.cols b.data).length = rows * cols := by
        rw [placeBlock_length, hm]
      -- common conclusion from the induction hypothesis at the next position `(row', col')`
      have key : ∀ (row' col' : Nat),
          stackMatGo rows cols (b' :: rest) row' col' (placeBlock cols m row col b.rows b.cols b.data) = some M →
          StackAligned cols (b' :: rest) col' →
          stackPos cols (b :: b' :: rest) row col = (row, col) :: stackPos cols (b' :: rest) row' col' →
          (∀ R C, InReg row' col' b'.rows R C → InReg row col b.rows R C) →
          (∀ r c, r < b.rows → c < b.cols → ¬ InReg row' col' b'.rows (row + r) (col + c)) →
          M.length = rows * cols ∧
          (∀ R C, C < cols → ¬ InReg row col b.rows R C → M[R * cols + C]? = m[R * cols + C]?) ∧
          (∀ (k : Nat) (bk : Block α) (rk ck : Nat), (b :: b' :: rest)[k]? = some bk →
            (stackPos cols (b :: b' :: rest) row col)[k]? = some (rk, ck) →
            ∀ r c, r < bk.rows → c < bk.cols →
              M[(rk + r) * cols + (ck + c)]? = bk.data[r * bk.cols + c]? ∧ rk + r < rows ∧ ck + c < cols) := by
        intro row' col' hgo' hal' hpos hsub hdisj
        obtain ⟨i1, i2, i3⟩ := stackMatGo_spec rows cols rest b' row' col' _ M hal' hgo' hm'
        refine ⟨i1, ?_, ?_⟩
        · intro R C hC hout
          rw [i2 R C hC (fun h => hout (hsub R C h))]
          exact placeBlock_outside cols m row col b.rows b.cols b.data R C hC
            (fun h => hout (Or.inl ⟨h.1, h.2.1, h.2.2.1⟩))
        · intro k bk rk ck hk hp r c hr hc
          rw [hpos] at hp
          cases k with
          | zero =>
            simp only [List.getElem?_cons_zero, Option.some.injEq] at hk
            subst hk
            simp only [List.getElem?_cons_zero, Option.some.injEq, Prod.mk.injEq] at hp
            obtain ⟨rfl, rfl⟩ := hp
            have hlt := cell_lt rows cols (row + r) (col + c) (by omega) (by omega)
            rw [i2 (row + r) (col + c) (by omega) (hdisj r c hr hc)]
            exact ⟨placeBlock_inside cols m row col b.rows b.cols b.data r c g1 hr hc g2 (by omega),
              by omega, by omega⟩
          | succ k =>
            simp only [List.getElem?_cons_succ] at hk hp
            exact i3 k bk rk ck hk hp r c hr hc
      by_cases hw : col + b.cols ≥ cols
      · simp only [hw, if_true] at hgo hal2
        refine key (row + b.rows) 0 hgo hal2 (by simp [stackPos, hw]) ?_ ?_
        · intro R C h
          rcases h with h | h
          · exact Or.inr (by omega)
          · exact Or.inr (by omega)
        · intro r c hr hc h
          rcases h with h | h <;> omega
      · simp only [hw, if_false] at hgo hal2
        have hh : b'.rows = b.rows := hal1 (by omega)
        refine key row (col + b.cols) hgo hal2 (by simp [stackPos, hw]) ?_ ?_
        · intro R C h
          rw [hh] at h
          rcases h with h | h
          · exact Or.inl (by omega)
          · exact Or.inr h
        · intro r c hr hc h
          rw [hh] at h
          rcases h with h | h <;> omega
    · cases hgo

end NanoVerif.Tensor
