import NanoVerif.Proofs.TunerSpace
import Mathlib.Analysis.SpecialFunctions.Log.Base
import Mathlib.Analysis.SpecialFunctions.Pow.Real
/-!
  C13 — log10 parameter spaces over ℝ (`std::log10` = `Real.logb 10`, `std::pow(10, ·)` = `10 ^ ·`): strictly increasing
  on the (positive) grid range, `from_surrogate ∘ to_surrogate = id`, round trip of the closest grid point.
-/
set_option linter.unusedSectionVars false

namespace NanoVerif.Tuner

noncomputable instance : Log10 ℝ := ⟨Real.logb 10, fun x => (10 : ℝ) ^ x⟩

theorem toSurrogate_log10_eq (s : Space ℝ) (hk : s.kind = .log10) (v a : ℝ) (hv : s.toSurrogate v = some a) :
    a = Real.logb 10 v ∧ s.mn ≤ v ∧ v ≤ s.mx := by
  unfold Space.toSurrogate at hv
  split at hv
  · cases hv
  rename_i hin
  rw [hk] at hv
  simp only [Option.some.injEq] at hv
  exact ⟨hv.symm, not_lt.mp (fun h => hin (Or.inl h)), not_lt.mp (fun h => hin (Or.inr h))⟩

/-- log10 space (values ≥ epsilon > 0, as the constructor insists): strictly increasing -/
theorem toSurrogate_log10_strictMono (s : Space ℝ) (hk : s.kind = .log10) (hpos : 0 < s.mn) (v w a b : ℝ)
    (hv : s.toSurrogate v = some a) (hw : s.toSurrogate w = some b) (hvw : v < w) : a < b := by
  obtain ⟨rfl, hv1, _⟩ := toSurrogate_log10_eq s hk v a hv
  obtain ⟨rfl, _, _⟩ := toSurrogate_log10_eq s hk w b hw
  exact Real.logb_lt_logb (by norm_num) (lt_of_lt_of_le hpos hv1) hvw

/-- log10 space: `from_surrogate ∘ to_surrogate` is the identity on `[m_min, m_max]` -/
theorem fromSurrogate_toSurrogate_log10 (s : Space ℝ) (hk : s.kind = .log10) (hpos : 0 < s.mn) (v a : ℝ)
    (hv : s.toSurrogate v = some a) : s.fromSurrogate a = v := by
  obtain ⟨rfl, hv1, hv2⟩ := toSurrogate_log10_eq s hk v a hv
  have hvpos : 0 < v := lt_of_lt_of_le hpos hv1
  unfold Space.fromSurrogate
  rw [hk]
  have : (Log10.pow10 (Real.logb 10 v) : ℝ) = v := Real.rpow_logb (by norm_num) (by norm_num) hvpos
  simp only [this]
  unfold clamp
  rw [if_neg (not_lt.mpr hv1), if_neg (not_lt.mpr hv2)]

/-- **`closest_grid_point_from_surrogate(to_surrogate(grid value k)) = k`** for a log10 space with a strictly increasing
    positive grid -/
theorem closestGridPoint_roundtrip_log10 (top : ℝ) (s : Space ℝ) (hk : s.kind = .log10) (hpos : 0 < s.mn)
    (hinc : s.grid.Pairwise (· < ·)) (sg : List ℝ) (hsg : s.sgrid = some sg) (k : Nat) (hk' : k < sg.length)
    (htop : ∀ g ∈ sg, |sg[k] - g| ≤ top) : s.closestGridPoint top sg[k] = some k := by
  have hincs : sg.Pairwise (· < ·) := by
    obtain ⟨hl, hget⟩ := mapM_toSurrogate_spec s s.grid sg hsg
    rw [List.pairwise_iff_getElem] at hinc ⊢
    intro i j hi hj hij
    exact toSurrogate_log10_strictMono s hk hpos _ _ _ _ (hget i (by omega) hi) (hget j (by omega) hj)
      (hinc i j (by omega) (by omega) hij)
  unfold Space.closestGridPoint
  rw [hsg]
  simp only [Option.map_some, Option.some.injEq]
  exact closestScan_roundtrip top sg hincs k hk' htop

end NanoVerif.Tuner
