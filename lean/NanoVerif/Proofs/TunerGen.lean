import NanoVerif.Model.TunerSurrogate
import NanoVerif.Gen.TunerSpace
/-!
  C13 — the hand-written model text IS the text regenerated from the C++ source (`Gen/TunerSpace.lean`, translator
  tools/props/c13_translate.py): one `model_…_is_generated` theorem per translated function, for every scalar type. An edit of
  the C++ formula / guard / loop nest changes the generated definition and breaks the corresponding theorem.
-/
set_option linter.unusedSectionVars false
namespace NanoVerif.Tuner
open NanoVerif.Gen

/-- the model's `SpaceKind` as the generated `enum class type` -/
def SpaceKind.toGen : SpaceKind → TunerSpace.SpaceType
  | .log10 => .log10
  | .linear => .linear

/-! ### src/tuner/util.cpp `local_search`, the loop headers of tuner.cpp / local.cpp / surrogate.cpp -/

/-- `make_min_igrid`, `make_max_igrid`, `make_avg_igrid`: the generated coordinate per space -/
theorem model_minOf_is_generated (sizes : List Nat) : minOf sizes = sizes.map fun _ => TunerSpace.minIgridCoord := rfl

theorem model_maxOf_is_generated (sizes : List Nat) :
    maxOf sizes = sizes.map fun n => TunerSpace.maxIgridCoord (Int.ofNat n) := rfl

theorem model_avgOf_is_generated (sizes : List Nat) :
    avgOf sizes = sizes.map fun n => TunerSpace.avgIgridCoord (Int.ofNat n) := rfl

/-- the counts handed to `combinatorial_iterator_t` are the generated `trialsPerSpace` per space -/
theorem model_combos_is_generated (d : Nat) :
    combos3 (d + 1) =
      ((List.range TunerSpace.trialsPerSpace).map Int.ofNat).flatMap fun c => (combos3 d).map fun rest => c :: rest := rfl

/-- `addScaled` applies the generated element-wise update -/
theorem model_addScaled_is_generated (src : IGrid) (r : Int) (c : List Int) :
    addScaled src r c = List.zipWith (fun c s => TunerSpace.localSearchCoord c r s) c src := rfl

/-- the per-coordinate test of `inGrid` is the negation of the generated `continue` test -/
theorem model_inGrid_is_generated (a b x : Int) (mn mx g : IGrid) :
    inGrid (a :: mn) (b :: mx) (x :: g) = (!(TunerSpace.localSearchOutside x a b) && inGrid mn mx g) := by
  have h : (decide (a ≤ x) && decide (x ≤ b)) = !(TunerSpace.localSearchOutside x a b) := by
    unfold TunerSpace.localSearchOutside
    by_cases h1 : a ≤ x <;> by_cases h2 : x ≤ b <;> simp [h1, h2] <;> omega
  simp only [inGrid]
  rw [h]

section
variable {α : Type}

/-- `evaluate`: the filter of the points already evaluated and the rejection test are the generated ones -/
theorem model_evaluate_is_generated (fin : α → Bool) (f : IGrid → α) (sortFn : List (Step α) → List (Step α))
    (igrids : List IGrid) (steps : List (Step α)) :
    evaluate fin f sortFn igrids steps =
      (let fresh := TunerSpace.evaluateFresh (steps.map (·.igrid)) igrids
       if fresh.isEmpty then .unchanged
       else if fresh.all (fun g => !(TunerSpace.evaluateRejects fin (f g))) then
         .ok (sortFn (steps ++ fresh.map fun g => ⟨g, f g⟩)) fresh
       else .bad fresh) := by
  have h1 : (fun g : IGrid => !(steps.any fun s => s.igrid == g)) =
      fun g => !(TunerSpace.evaluateKnown (steps.map (·.igrid)) g) := by
    funext g
    simp [TunerSpace.evaluateKnown, TunerSpace.evaluateSame, List.any_map, Function.comp_def]
  have h2 : (fun g : IGrid => fin (f g)) = fun g => !(TunerSpace.evaluateRejects fin (f g)) := by
    funext g
    cases h : fin (f g) <;> simp [TunerSpace.evaluateRejects, h]
  unfold evaluate TunerSpace.evaluateFresh
  rw [h1, h2]

/-- the first radius of the coarse initialisation loop is the generated one -/
theorem model_optimize_is_generated (c : Cfg α) (avg : IGrid) (fuel : Nat) :
    optimize c avg fuel =
      match evaluate c.fin c.f c.sortFn [avg] [] with
      | .unchanged => .ok [] []
      | .bad b => .bad [b]
      | .ok steps b => run c fuel ⟨steps, .coarse TunerSpace.coarseRadius0⟩ [b] := rfl

/-- `tuner_t::optimize` refuses exactly under the generated condition of its `critical` -/
theorem model_tunerOptimize_is_generated (kind : Kind) (sizes : List Nat) (maxEvals : Nat) (fin : α → Bool) (f : IGrid → α)
    (sortFn : List (Step α) → List (Step α)) (oracle : List (Step α) → Option IGrid) :
    tunerOptimize kind sizes maxEvals fin f sortFn oracle =
      if TunerSpace.optimizeRefuses sizes.length then .noSpaces
      else
        (let c : Cfg α := ⟨kind, minOf sizes, maxOf sizes, maxEvals, fin, f, sortFn, oracle⟩
         optimize c (avgOf sizes) (gridCard c.mn c.mx + 2)) := by
  cases sizes <;> simp [tunerOptimize, TunerSpace.optimizeRefuses]

/-- one iteration of the coarse loop (tuner.cpp): generated loop condition, generated radius update -/
theorem model_step_coarse_is_generated (c : Cfg α) (steps : List (Step α)) (r : Int) :
    step c ⟨steps, .coarse r⟩ =
      if TunerSpace.coarseContinue steps.length c.maxEvals then
        match steps with
        | [] => .next ⟨steps, .main⟩ []
        | s :: _ =>
          match evaluate c.fin c.f c.sortFn (localSearch c.mn c.mx s.igrid r) steps with
          | .unchanged => .next ⟨steps, .main⟩ []
          | .ok steps' batch => .next ⟨steps', .coarse (TunerSpace.coarseNextRadius r)⟩ batch
          | .bad batch => .bad batch
      else .next ⟨steps, .main⟩ [] := by
  cases steps with
  | nil => simp [step, TunerSpace.coarseContinue]
  | cons s rest =>
    simp only [step, List.length_cons, TunerSpace.coarseNextRadius]
    by_cases h : rest.length + 1 < c.maxEvals / 2
    · simp only [h, TunerSpace.coarseContinue, if_true, Nat.add_one_ne_zero, not_false_eq_true, and_self]
      rfl
    · simp [h, TunerSpace.coarseContinue]

/-- one iteration of the loop of `do_optimize` (local.cpp; surrogate.cpp has the same header: `surrogate_header_is_local`): generated loop
    condition and radius -/
theorem model_step_main_is_generated (c : Cfg α) (steps : List (Step α)) :
    step c ⟨steps, .main⟩ =
      if TunerSpace.localContinue steps.length c.maxEvals then
        match steps with
        | [] => .next ⟨steps, .done⟩ []
        | s :: _ =>
          match (match c.kind with
                 | .localSearch => some s.igrid
                 | .surrogate => c.oracle steps) with
          | none => .fail
          | some centre =>
            match evaluate c.fin c.f c.sortFn (localSearch c.mn c.mx centre TunerSpace.localRadius) steps with
            | .unchanged => .next ⟨steps, .done⟩ []
            | .ok steps' batch => .next ⟨steps', .main⟩ batch
            | .bad batch => .bad batch
      else .next ⟨steps, .done⟩ [] := by
  cases steps with
  | nil => simp [step, TunerSpace.localContinue]
  | cons s rest =>
    simp only [step, List.length_cons, TunerSpace.localRadius]
    by_cases h : rest.length + 1 < c.maxEvals
    · simp only [h, TunerSpace.localContinue, if_true, Nat.add_one_ne_zero, not_false_eq_true, and_self]
      rfl
    · simp [h, TunerSpace.localContinue]

/-- the loop of `surrogate_tuner_t::do_optimize` has the header and the radius of the local-search tuner's -/
theorem surrogate_header_is_local :
    TunerSpace.surrogateContinue = TunerSpace.localContinue ∧ TunerSpace.surrogateRadius = TunerSpace.localRadius := ⟨rfl, rfl⟩

end

/-! ### src/machine/result.cpp (arg-min scans), src/machine/tune.cpp (`thread_callback`) -/

section
variable {α : Type} [LT α] [DecidableLT α]

theorem argminScan_go_pair (step : Nat → α → Nat × α → Nat × α)
    (hstep : ∀ i d best bv, step i d (best, bv) = if d < bv then (i, d) else (best, bv)) :
    ∀ (vals : List α) (best : Nat) (bv : α) (i : Nat),
      (vals.foldl (fun (acc : Nat × α × Nat) d =>
          let (best, bestVal, i) := acc
          if d < bestVal then (i, d, i + 1) else (best, bestVal, i + 1)) (best, bv, i)).1 =
        (TunerSpace.forIdx.go step vals i (best, bv)).1 := by
  intro vals
  induction vals with
  | nil => intro best bv i; rfl
  | cons d rest ih =>
    intro best bv i
    simp only [List.foldl_cons, TunerSpace.forIdx.go, hstep]
    by_cases h : d < bv
    · simp only [h, if_true]; exact ih _ _ _
    · simp only [h, if_false]; exact ih _ _ _

/-- `result_t::optimum_trial`: the model's scan is the generated loop -/
theorem model_optimumTrial_is_generated (top : α) (values : List α) :
    Tune.optimumTrial top values = TunerSpace.optimumTrial top values :=
  argminScan_go_pair TunerSpace.optimumTrialStep
    (fun i d best bv => by by_cases h : d < bv <;> simp [TunerSpace.optimumTrialStep, h]) values 0 top 0

/-- `result_t::closest_trial`: the generated loop over the distances of the first `max_trials` rows -/
theorem model_closestTrial_is_generated {π : Type} (top : α) (dist : π → π → α) (rows : List π) (params : π)
    (maxTrials : Nat) :
    Tune.closestTrial top dist rows params maxTrials =
      TunerSpace.closestTrial top ((rows.map fun row => dist row params).take maxTrials) := by
  rw [← List.map_take]
  exact argminScan_go_pair TunerSpace.closestTrialStep
    (fun i d best bv => by by_cases h : d < bv <;> simp [TunerSpace.closestTrialStep, h]) _ 0 top 0

end

/-- `result_t::value(trial)`: generated accumulator, per-fold update and final division -/
theorem model_trialValue_is_generated {σ α : Type} [Add α] [Div α] [OfNat α 0] [NatCast α] (mean : σ → α)
    (r : Tune.Result σ) (trial : Nat) :
    Tune.Result.value mean r trial =
      ((List.range r.folds).mapM fun fold => r.get? trial fold).map fun ps =>
        TunerSpace.trialValueFinish
          (ps.foldl (fun acc p => TunerSpace.trialValueStep acc (mean p)) TunerSpace.trialValueInit) r.folds := rfl

/-- `thread_callback` of `ml::tune`: generated decoding of the task index, generated slot -/
theorem model_threadCallback_is_generated {σ : Type} (cb : Nat → Nat → Option σ → σ) (closest : Nat → Nat)
    (pre : Tune.Result σ) (old : Nat) (r : Tune.Result σ) (index : Nat) :
    Tune.threadCallback cb closest pre old r index =
      (let trial := TunerSpace.tuneTrial pre.folds index
       let fold := TunerSpace.tuneFold pre.folds index
       r.store (TunerSpace.tuneStoreTrial old trial fold) (TunerSpace.tuneStoreFold old trial fold)
         (cb trial fold (pre.get? (closest trial) fold))) := rfl

/-- … the closest trial is searched among the `old` earlier trials; the pool gets `folds * k` tasks (what `tune_calls_once`,
    `tune_reads_only_earlier` assume) -/
theorem model_tune_counts_is_generated (old trial fold folds k : Nat) :
    TunerSpace.tuneClosestMax old trial fold = old ∧ TunerSpace.tuneTasks folds k = folds * k ∧
      Tune.decode folds k = (TunerSpace.tuneTrial folds k, TunerSpace.tuneFold folds k) := ⟨rfl, rfl, rfl⟩

/-! ### src/tuner/space.cpp -/

section
variable {α : Type} [Add α] [Sub α] [Mul α] [Div α] [Neg α] [LT α] [DecidableLT α] [BEq α]
  [OfNat α 0] [OfNat α 1] [OfNat α 2] [Log10 α]

/-- the constructor refuses exactly when one of the generated `critical` conditions holds -/
theorem model_make_is_generated (eps : α) (kind : SpaceKind) (grid : List α) :
    Space.make? eps kind grid =
      match minElem grid, maxElem grid with
      | some mn, some mx =>
        if TunerSpace.ctorThrows isSortedL hasAdjEq eps kind.toGen grid mn then none else some ⟨kind, grid, mn, mx⟩
      | _, _ => none := by
  unfold Space.make?
  cases minElem grid <;> cases maxElem grid <;> try rfl
  rename_i mn mx
  simp only [TunerSpace.ctorThrows]
  by_cases h1 : grid.length < 2 <;> by_cases h2 : isSortedL grid = true <;> by_cases h3 : hasAdjEq grid = true <;>
    cases kind <;> by_cases h4 : mn < eps <;> simp [h1, h2, h3, h4, SpaceKind.toGen]

theorem model_toSurrogate_is_generated (s : Space α) (v : α) :
    s.toSurrogate v = TunerSpace.toSurrogate Log10.log10 s.kind.toGen s.mn s.mx v := by
  obtain ⟨kind, grid, mn, mx⟩ := s
  cases kind <;> rfl

theorem model_fromSurrogate_is_generated (s : Space α) (v : α) :
    s.fromSurrogate v = TunerSpace.fromSurrogate Log10.pow10 s.kind.toGen s.mn s.mx v := by
  obtain ⟨kind, grid, mn, mx⟩ := s
  cases kind <;> rfl

theorem closestScan_go (v : α) : ∀ (sg : List α) (best : Nat) (bv : α) (i : Nat),
    ((sg.map fun g => fabs (v - g)).foldl (fun (acc : Nat × α × Nat) d =>
        let (best, bestVal, i) := acc
        if d < bestVal then (i, d, i + 1) else (best, bestVal, i + 1)) (best, bv, i)).1 =
      (TunerSpace.forIdx.go (TunerSpace.closestGridPointStep v) sg i (bv, best)).2 := by
  intro sg
  induction sg with
  | nil => intro best bv i; rfl
  | cons g rest ih =>
    intro best bv i
    simp only [List.map_cons, List.foldl_cons, TunerSpace.forIdx.go]
    have hg : TunerSpace.gabs (v - g) = fabs (v - g) := rfl
    by_cases h : fabs (v - g) < bv
    · have e : TunerSpace.closestGridPointStep v i g (bv, best) = (fabs (v - g), i) := by
        simp [TunerSpace.closestGridPointStep, hg, h]
      rw [e, ← ih]
      simp [h]
    · have e : TunerSpace.closestGridPointStep v i g (bv, best) = (bv, best) := by
        simp [TunerSpace.closestGridPointStep, hg, h]
      rw [e, ← ih]
      simp [h]

/-- the arg-min scan of the model is the generated loop (initial values, body, returned variable) -/
theorem model_closestScan_is_generated (top : α) (sg : List α) (v : α) :
    closestScan top sg v =
      (TunerSpace.forIdx sg (TunerSpace.closestGridPointStep v) (TunerSpace.closestGridPointInit top)).2 :=
  closestScan_go v sg 0 top 0

theorem model_closestGridPoint_is_generated (top : α) (s : Space α) (v : α) :
    s.closestGridPoint top v =
      TunerSpace.closestGridPoint Log10.log10 top s.kind.toGen s.mn s.mx s.grid v := by
  have h1 : s.toSurrogate = TunerSpace.toSurrogate Log10.log10 s.kind.toGen s.mn s.mx :=
    funext (model_toSurrogate_is_generated s)
  have h2 : (fun sg => closestScan top sg v) = fun sg =>
      (TunerSpace.forIdx sg (TunerSpace.closestGridPointStep v) (TunerSpace.closestGridPointInit top)).2 :=
    funext fun sg => model_closestScan_is_generated top sg v
  unfold Space.closestGridPoint Space.sgrid TunerSpace.closestGridPoint
  rw [h1, h2]

theorem model_closestGridValue_is_generated (top : α) (s : Space α) (v : α) :
    s.closestGridValue top v =
      TunerSpace.closestGridValue Log10.log10 top s.kind.toGen s.mn s.mx s.grid v := by
  unfold Space.closestGridValue TunerSpace.closestGridValue
  rw [model_closestGridPoint_is_generated]

/-! ### src/tuner/surrogate.cpp: number of coefficients, index walks -/

theorem model_quadLen_is_generated (n : Nat) : quadLen n = TunerSpace.quadLen n := rfl

theorem model_quadDim_is_generated (size : Nat) : quadDim size = TunerSpace.quadDim size := rfl

/-- the two `assert`s of the constructor of `quadratic_surrogate_t` -/
theorem model_quadSize_is_generated (m : List α) :
    quadSize? m =
      if TunerSpace.QuadSizeOk (TunerSpace.quadDim m.length) m.length then some (TunerSpace.quadDim m.length) else none := rfl

/-- the loop nest of the feature map visits the index pairs in the model's order -/
theorem model_featPairIdx_is_generated (n : Nat) : pairIdx n = TunerSpace.featPairIdx n := by
  simp [pairIdx, TunerSpace.featPairIdx, List.range_eq_range']

/-- … the loop nest of the gradient of the fitted quadratic -/
theorem model_gradPairIdx_is_generated (n : Nat) : pairIdx n = TunerSpace.gradPairIdx n := by
  simp [pairIdx, TunerSpace.gradPairIdx, List.range_eq_range']

/-- … the loop nest of its value -/
theorem model_valuePairIdx_is_generated (n : Nat) : pairIdx n = TunerSpace.valuePairIdx n := by
  simp [pairIdx, TunerSpace.valuePairIdx, List.range_eq_range']

/-- one row of `m_p2`: generated constant, the coordinates, the generated product per generated index pair -/
theorem model_quadTerms_is_generated (p : List α) :
    quadTerms p =
      TunerSpace.featConst :: (p ++ (TunerSpace.featPairIdx p.length).map fun ij => TunerSpace.featTerm p ij.1 ij.2) := by
  rw [← model_featPairIdx_is_generated]
  rfl

theorem foldl_zipWith_zip {β γ δ ε : Type} (f : β → γ → δ) (g : ε → δ → ε) :
    ∀ (l : List β) (x : List γ) (init : ε),
      (List.zipWith f l x).foldl g init = (List.zip l x).foldl (fun a cx => g a (f cx.1 cx.2)) init := by
  intro l
  induction l with
  | nil => intro x init; rfl
  | cons a rest ih =>
    intro x init
    cases x with
    | nil => rfl
    | cons b xs => simp only [List.zipWith_cons_cons, List.zip_cons_cons, List.foldl_cons]; exact ih xs _

/-- the value of the fitted quadratic: generated constant index, generated first coefficient of the walk, generated first- and second-order
    updates over the generated index pairs; coefficient `k` of the walk goes with the `k`-th pair -/
theorem model_quadValue_is_generated (m x : List α) :
    quadValue m x =
      (List.zipWith (fun q ij => (q, ij.1, ij.2)) (m.drop (TunerSpace.valueK0 + x.length)) (TunerSpace.valuePairIdx x.length)).foldl
        (fun fx (t : α × Nat × Nat) => TunerSpace.valueTerm x fx t.1 t.2.1 t.2.2)
        ((List.zip ((m.drop TunerSpace.valueK0).take x.length) x).foldl (fun fx cx => TunerSpace.valueLin fx cx.1 cx.2)
          (m.getD TunerSpace.valueInitIdx 0)) := by
  have h := foldl_zipWith_zip (fun (c xi : α) => c * xi) (fun (fx t : α) => fx + t) ((m.drop 1).take x.length) x (m.getD 0 0)
  rw [← model_valuePairIdx_is_generated]
  show quadValueGo x (qterms (m.drop (1 + x.length)) x.length)
      ((List.zipWith (fun c xi => c * xi) ((m.drop 1).take x.length) x).foldl (fun fx t => fx + t) (m.getD 0 0)) = _
  rw [h]
  rfl

/-- the gradient of the fitted quadratic, likewise (`gx.zero()` then `gx(i) += m(k++)`, then the two updates per generated index pair) -/
theorem model_quadGrad_is_generated (m x : List α) :
    quadGrad m x =
      (List.zipWith (fun q ij => (q, ij.1, ij.2)) (m.drop (TunerSpace.gradK0 + x.length)) (TunerSpace.gradPairIdx x.length)).foldl
        (fun g (t : α × Nat × Nat) => TunerSpace.gradTerm addAt x g t.1 t.2.1 t.2.2)
        (List.zipWith (fun (_ : α) c => TunerSpace.gradLin 0 c) x ((m.drop TunerSpace.gradK0).take x.length)) := by
  rw [← model_gradPairIdx_is_generated]
  rfl

end

end NanoVerif.Tuner
