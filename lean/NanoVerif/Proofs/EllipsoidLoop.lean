import NanoVerif.Proofs.EllipsoidStep
/-!
  C03 — the n-D ellipsoid loop (`iterND` / `runND`): the initial ball contains every point within `R` of `x0`, the loop
  invariant (`InvN`: the minimiser is in the current ellipsoid, `H` symmetric, cached values are those of the centre, the best
  value is attained at `bx`), its preservation by a pass that goes on, and the certificate of a pass that stops with `converged`.
-/
set_option linter.unusedSectionVars false
set_option linter.unusedVariables false

namespace NanoVerif.Ellipsoid
open NanoVerif.Bundle
variable {α : Type} [Field α] [LinearOrder α] [IsStrictOrderedRing α]

/-! ### `initH` -/

theorem dot_unitRow_lt (d : α) (i : Nat) : ∀ (n s : Nat) (w : List α), i < s →
    dot ((List.range' s n).map (fun j => if i = j then d else 0)) w = 0
  | 0, s, w, _ => by simp [dot_nil_left]
  | n + 1, s, [], _ => by rw [dot_nil_right]
  | n + 1, s, a :: w, h => by
    rw [List.range'_succ, List.map_cons]
    simp only [dot]
    rw [dot_unitRow_lt d i n (s + 1) w (by omega), if_neg (by omega)]
    ring

theorem dot_unitRow (d : α) : ∀ (n s k : Nat) (w : List α), k < n → w.length = n →
    dot ((List.range' s n).map (fun j => if s + k = j then d else 0)) w = d * w.getD k 0
  | 0, _, _, _, h, _ => by omega
  | n + 1, s, k, [], _, h => by simp at h
  | n + 1, s, 0, a :: w, _, _ => by
    rw [List.range'_succ, List.map_cons]
    simp only [dot]
    rw [dot_unitRow_lt d (s + 0) n (s + 1) w (by omega)]
    simp
  | n + 1, s, k + 1, a :: w, hk, hw => by
    rw [List.range'_succ, List.map_cons]
    simp only [dot]
    have e : s + (k + 1) = s + 1 + k := by omega
    rw [if_neg (by omega), e, dot_unitRow d n (s + 1) k w (by omega) (by simpa using hw)]
    simp

theorem dot_mv_diag (d : α) (n : Nat) (v : List α) (hv : v.length = n) : ∀ (m s : Nat) (u : List α), u.length = m →
    s + m = n →
    dot u ((List.range' s m).map (fun i => dot ((List.range' 0 n).map (fun j => if i = j then d else 0)) v)) =
      d * dot u (v.drop s)
  | 0, s, u, hu, _ => by
    have : u = [] := List.length_eq_zero_iff.mp hu
    subst this
    simp [dot_nil_left]
  | m + 1, s, [], hu, _ => by simp at hu
  | m + 1, s, a :: u, hu, hs => by
    rw [List.range'_succ, List.map_cons]
    have hlt : s < v.length := by omega
    rw [List.drop_eq_getElem_cons hlt]
    simp only [dot]
    rw [dot_mv_diag d n v hv m (s + 1) u (by simpa using hu) (by omega)]
    have e := dot_unitRow d n 0 s v (by omega) hv
    simp only [Nat.zero_add] at e
    rw [e]
    have e2 : v.getD s 0 = v[s] := by simp [List.getD, List.getElem?_eq_getElem hlt]
    rw [e2]
    ring

/-- `uᵀ (d I) v = d (u·v)` -/
theorem dot_mv_initH (n : Nat) (R : α) (u v : List α) (hu : u.length = n) (hv : v.length = n) :
    dot u (mv (initH n R) v) = (if n = 1 then R else R * R) * dot u v := by
  have := dot_mv_diag (if n = 1 then R else R * R) n v hv n 0 u hu (by omega)
  simp only [List.drop_zero] at this
  rw [← this]
  simp [initH, mv, List.range_eq_range', List.map_map, Function.comp_def]

theorem initH_wellH (n : Nat) (R : α) : WellH n (initH n R) := by
  refine ⟨by simp [initH], ?_, ?_⟩
  · intro r hr
    simp only [initH, List.mem_map] at hr
    obtain ⟨i, -, rfl⟩ := hr
    simp
  · intro u v hu hv
    rw [dot_mv_initH n R u v hu hv, dot_mv_initH n R v u hv hu, dot_comm u v]

/-- the initial ball (ellipsoid.cpp:36-37, `n ≥ 2`: `H = R² I`) contains every `z` with `‖z − x0‖₂ ≤ R` -/
theorem initH_contains (n : Nat) (hn : n ≠ 1) (R : α) (x0 z : List α) (hx : x0.length = n) (hz : z.length = n)
    (hR : dot (vsub z x0) (vsub z x0) ≤ R * R) : InE n x0 (initH n R) z := by
  intro w hw
  unfold quad
  rw [dot_mv_initH n R w w hw hw, if_neg hn]
  have h1 := dot_sq_le w (vsub z x0)
  have h2 := mul_le_mul_of_nonneg_left hR (dot_self_nonneg' w)
  linarith

/-! ### the loop -/

/-- loop invariant for the minimiser `z` -/
def InvN (n : Nat) (f : List α → α) (g' : List α → List α) (z : List α) (s : SN α) : Prop :=
  s.x.length = n ∧ WellH n s.H ∧ InE n s.x s.H z ∧ s.f = f s.x ∧ s.g = g' s.x ∧ s.best ≤ f s.x ∧ f z ≤ s.best ∧
    s.best = f s.bx ∧ s.bx.length = n

/-- what a run that stops with `converged` certifies: the value of the returned point `bx` is within `ε` of the minimum,
    or (early exit) its gap squared is below `epsM` -/
def CertN (f : List α → α) (z : List α) (eps epsM : α) (s : SN α) : Prop :=
  s.best = f s.bx ∧ (s.best - f z < eps ∨ (s.best - f z) * (s.best - f z) < epsM)

theorem doneE_none (a b c : Bool) (h : doneE a b c = none) : a = true ∧ b = false ∧ c = true := by
  cases a <;> cases b <;> cases c <;> simp [doneE] at h ⊢

theorem doneE_converged (a b c : Bool) (h : doneE a b c = some EStatus.converged) : b = true := by
  cases a <;> cases b <;> cases c <;> simp [doneE] at h ⊢

theorem betterF_bx (fin : α → Bool) (f : List α → α) (best : α) (xn bx : List α) (hbx : best = f bx) :
    betterF fin best (f xn) = f (if fin (f xn) && decide (0 < best - f xn) then xn else bx) := by
  unfold betterF better
  cases fin (f xn)
  · simpa using hbx
  · by_cases h : 0 < best - f xn
    · simp [h]
    · simp only [if_true, Bool.true_and, h, decide_false, if_false, Bool.false_eq_true]
      exact hbx

theorem gap_le_sqrt [Sqrt α] (hsqrt : ∀ v : α, 0 ≤ v → 0 ≤ Sqrt.sqrt v ∧ Sqrt.sqrt v * Sqrt.sqrt v = v)
    (n : Nat) (f : List α → α) (x g : List α) (H : List (List α)) (z : List α) (hz : z.length = n)
    (hsub : SubGrad n f x g) (hin : InE n x H z) : f x - f z ≤ Sqrt.sqrt (quad H g) := by
  obtain ⟨hg, hs⟩ := hsub
  have h1 := hs z hz
  have h2 := hin g hg
  obtain ⟨hr0, hr⟩ := hsqrt _ (le_trans (mul_self_nonneg _) h2)
  rw [← hr] at h2
  have := neg_le_of_sq_le _ _ hr0 h2
  linarith

theorem iterND_spec [Sqrt α] (hsqrt : ∀ v : α, 0 ≤ v → 0 ≤ Sqrt.sqrt v ∧ Sqrt.sqrt v * Sqrt.sqrt v = v)
    (n : Nat) (hn : 2 ≤ n) (f : List α → α) (g' : List α → List α) (z : List α) (eps epsM : α)
    (fin : α → Bool) (valid : SN α → Bool)
    (hsub : ∀ x : List α, x.length = n → SubGrad n f x (g' x)) (hz : z.length = n)
    (hmin : ∀ w : List α, w.length = n → f z ≤ f w) (hepsM : 0 < epsM) (s : SN α) (hinv : InvN n f g' z s) :
    ((iterND n eps epsM fin valid (fun x => (f x, g' x)) s).1 = none →
        InvN n f g' z (iterND n eps epsM fin valid (fun x => (f x, g' x)) s).2) ∧
      ((iterND n eps epsM fin valid (fun x => (f x, g' x)) s).1 = some EStatus.converged →
        CertN f z eps epsM (iterND n eps epsM fin valid (fun x => (f x, g' x)) s).2) := by
  obtain ⟨hx, hH, hin, hf, hg, hb, hzb, hbx, hbxl⟩ := hinv
  have hsx := hsub s.x hx
  rw [← hg] at hsx
  have hgl : s.g.length = n := hsx.1
  have hgap := gap_le_sqrt hsqrt n f s.x s.g s.H z hz hsx hin
  have hq0 : 0 ≤ quad s.H s.g := le_trans (mul_self_nonneg _) (hin s.g hgl)
  obtain ⟨hr0', hrr⟩ := hsqrt _ hq0
  unfold iterND
  simp only
  by_cases hc : quad s.H s.g < epsM
  · rw [if_pos hc]
    refine ⟨fun h => by simp [doneE] at h, fun _ => ⟨hbx, Or.inr ?_⟩⟩
    by_cases hpos : s.best - f z ≤ 0
    · nlinarith
    · have h3 := mul_self_le_mul_self (le_of_lt (not_le.mp hpos))
        (show s.best - f z ≤ Sqrt.sqrt (quad s.H s.g) by linarith)
      linarith
  · rw [if_neg hc]
    have hpos : 0 < quad s.H s.g := lt_of_lt_of_le hepsM (not_lt.mp hc)
    have hr0 : 0 < Sqrt.sqrt (quad s.H s.g) := by
      rcases hr0'.eq_or_lt with h0 | h0
      · rw [← h0] at hrr; simp at hrr; linarith
      · exact h0
    -- the cut parameter
    have hal : alphaCut s.f s.best (dot s.g (mv s.H s.g)) * Sqrt.sqrt (quad s.H s.g) = f s.x - s.best := by
      unfold alphaCut
      rw [hf]
      exact div_mul_cancel₀ _ hr0.ne'
    have hal0 : 0 ≤ alphaCut s.f s.best (dot s.g (mv s.H s.g)) := by
      unfold alphaCut
      exact div_nonneg (by rw [hf]; linarith) hr0'
    have hal1 : alphaCut s.f s.best (dot s.g (mv s.H s.g)) ≤ 1 := by
      unfold alphaCut
      show (s.f - s.best) / Sqrt.sqrt (quad s.H s.g) ≤ 1
      rw [div_le_one hr0, hf]
      linarith
    have hnpos : (0 : α) ≤ (n : α) := Nat.cast_nonneg n
    have hcut : dot s.g (vsub z s.x) ≤ -alphaCut s.f s.best (dot s.g (mv s.H s.g)) * Sqrt.sqrt (quad s.H s.g) := by
      rw [neg_mul, hal]
      have := hsx.2 z hz
      linarith
    have hcont := stepND_contains hsqrt n hn s.x s.g z s.H _ hx hgl hz hH hpos hin
      (by nlinarith [mul_nonneg hnpos hal0]) hal1 hcut
    have hwell := stepH_wellH n (n : α) (alphaCut s.f s.best (dot s.g (mv s.H s.g))) s.H hH s.g hgl
    have hxl : (stepX (n : α) s.x (mv s.H s.g) (alphaCut s.f s.best (dot s.g (mv s.H s.g)))
        (dot s.g (mv s.H s.g))).length = n := by
      rw [stepX_length _ _ _ _ _ (by rw [hx, mv_length, hH.1]), hx]
    simp only [stepND]
    constructor
    · intro hnone
      obtain ⟨hfin, -, -⟩ := doneE_none _ _ _ hnone
      have hmin' := hmin _ hxl
      refine ⟨hxl, hwell, hcont, rfl, rfl, ?_, ?_, ?_, ?_⟩
      · simp only [betterF, hfin, if_true]
        exact (better_le _ _).2
      · simp only [betterF, hfin, if_true]
        unfold better
        split <;> linarith
      · exact betterF_bx fin f s.best _ s.bx hbx
      · simp only [hfin, Bool.true_and, decide_eq_true_eq]
        split
        · exact hxl
        · exact hbxl
    · intro hconv
      have hlt : Sqrt.sqrt (quad s.H s.g) < eps := of_decide_eq_true (doneE_converged _ _ _ hconv)
      refine ⟨?_, Or.inl ?_⟩
      · exact betterF_bx fin f s.best _ s.bx hbx
      · have hle : betterF fin s.best (f (stepX (n : α) s.x (mv s.H s.g)
            (alphaCut s.f s.best (dot s.g (mv s.H s.g))) (dot s.g (mv s.H s.g)))) ≤ s.best := by
          unfold betterF
          split
          · exact (better_le _ _).1
          · exact le_refl _
        show betterF fin s.best _ - f z < eps
        linarith

theorem runND_spec [Sqrt α] (hsqrt : ∀ v : α, 0 ≤ v → 0 ≤ Sqrt.sqrt v ∧ Sqrt.sqrt v * Sqrt.sqrt v = v)
    (n : Nat) (hn : 2 ≤ n) (f : List α → α) (g' : List α → List α) (z : List α) (eps epsM : α)
    (fin : α → Bool) (valid : SN α → Bool)
    (hsub : ∀ x : List α, x.length = n → SubGrad n f x (g' x)) (hz : z.length = n)
    (hmin : ∀ w : List α, w.length = n → f z ≤ f w) (hepsM : 0 < epsM) :
    ∀ (fuel : Nat) (s s' : SN α), InvN n f g' z s →
      runND n eps epsM fin valid (fun x => (f x, g' x)) fuel s = (EStatus.converged, s') → CertN f z eps epsM s'
  | 0, s, s', _, h => by simp [runND] at h
  | k + 1, s, s', hinv, h => by
    obtain ⟨hgo, hstop⟩ := iterND_spec hsqrt n hn f g' z eps epsM fin valid hsub hz hmin hepsM s hinv
    unfold runND at h
    generalize hit : iterND n eps epsM fin valid (fun x => (f x, g' x)) s = r at h hgo hstop
    obtain ⟨o, s1⟩ := r
    cases o with
    | none =>
      simp only at h
      exact runND_spec hsqrt n hn f g' z eps epsM fin valid hsub hz hmin hepsM k s1 s' (hgo rfl) h
    | some st =>
      simp only [Prod.mk.injEq] at h
      obtain ⟨h1, h2⟩ := h
      subst h1 h2
      exact hstop rfl

end NanoVerif.Ellipsoid
