import NanoVerif.Model.PoolMon
import NanoVerif.Proofs.PoolGap
/-!
  C17 (gap-closing) — the position the monitors compute from the range an operator call received (`Call.position`) is the
  position of that range in the list of ranges the model says the call makes (`Call.ranges`). Core Lean only.
-/
namespace NanoVerif.Pool

theorem position_iff_ranges (cl : Call) (a b k : Nat) : cl.position a b = some k ↔ cl.ranges[k]? = some (a, b) := by
  cases cl with
  | enq r =>
    simp only [Call.position, Call.ranges]
    constructor
    · intro h
      split at h
      · rename_i hc; cases h; obtain ⟨h1, h2⟩ := hc; subst h1; subst h2; rfl
      · cases h
    · intro h
      cases k with
      | zero => simp at h; obtain ⟨h1, h2⟩ := h; subst h1; subst h2; simp
      | succ k => simp at h
  | map n c r =>
    cases c with
    | zero =>
      simp only [Call.position, Call.ranges]
      have hget : (elemRanges n)[k]? = (if k < n then some (k, k + 1) else none) := by
        unfold elemRanges
        by_cases hk : k < n <;> simp [hk]
      rw [hget]
      constructor
      · intro h
        split at h
        · rename_i hc; cases h; obtain ⟨h1, h2⟩ := hc; subst h2; simp [h1]
        · cases h
      · intro h
        by_cases hk : k < n
        · rw [if_pos hk] at h; cases h; simp [hk]
        · rw [if_neg hk] at h; cases h
    | succ c =>
      simp only [Call.position, Call.ranges]
      rw [chunks_get' n (c + 1) k (Nat.succ_pos c)]
      constructor
      · intro h
        split at h
        · rename_i hc
          cases h
          obtain ⟨h1, h2, h3⟩ := hc
          have hm : a / (c + 1) * (c + 1) = a := Nat.div_mul_cancel (Nat.dvd_of_mod_eq_zero h2)
          rw [hm, if_pos h1, h3]
        · cases h
      · intro h
        by_cases hk : k * (c + 1) < n
        · rw [if_pos hk] at h
          cases h
          have h2 : k * (c + 1) % (c + 1) = 0 := Nat.mul_mod_left k (c + 1)
          have h3 : k * (c + 1) / (c + 1) = k := Nat.mul_div_cancel k (Nat.succ_pos c)
          rw [if_pos ⟨hk, h2, rfl⟩, h3]
        · rw [if_neg hk] at h; cases h

/-- number of operator calls of a call = number of its ranges (`chunksize ≥ 1` is the `assert` of `map`) -/
theorem nops_eq_ranges_length (cl : Call) : cl.nops = cl.ranges.length := by
  cases cl with
  | enq r => rfl
  | map n c r =>
    cases c with
    | zero => simp [Call.nops, Call.ranges, elemRanges]
    | succ c => simp only [Call.nops, Call.ranges]; exact (chunks_length n (c + 1) (Nat.succ_pos c)).symm

/-! ### the monitors on hand-written raw traces (kernel-checked): what they accept and what they reject -/

private def r (tid kind a b : Nat) : Raw := { tid, kind, a, b }

/-- `map(2, op)` on a pool of two workers: the caller (thread 0) pushes two tasks under the lock and notifies -/
private def pushT : List Raw :=
  [r 0 21 0 1, r 0 15 2 0, r 0 16 0 0, r 0 0 0 0, r 0 1 0 0, r 0 3 1 0, r 0 3 1 0, r 0 2 0 0, r 0 5 0 0, r 0 17 0 0]

/-- worker `w` in thread `tid` pops a task and runs the operator on `[i, i+1)` -/
private def workT (tid w i : Nat) : List Raw :=
  [r tid 0 0 w, r tid 1 0 w, r tid 6 1 w, r tid 7 0 w, r tid 2 0 w, r tid 9 0 w, r tid 22 0 w, r tid 23 i (i + 1), r tid 24 0 0,
   r tid 10 0 w]

private def callsT : Array Call := #[.map 2 0 true]

/-- accepted: both indices invoked once, each in the worker thread of its tnum, then `map` returns -/
example : (monitor 2 callsT (pushT ++ workT 10 0 0 ++ workT 11 1 1 ++ [r 0 18 0 0, r 0 25 0 0])).failure.isNone = true := by
  decide +kernel

/-- rejected at the offending event: the CALLER runs a task of the parallel path (with tnum 0) -/
example : ((monitor 2 callsT (pushT ++ [r 0 22 0 0])).failure.map (·.1)) = some 10 := by decide +kernel

/-- rejected: a worker index used by two threads (thread ↔ worker index is not a bijection) -/
example : ((monitor 2 callsT (pushT ++ workT 10 0 0 ++ workT 11 0 1)).failure.map (·.1)) = some 22 := by decide +kernel

/-- rejected: one thread acts as two workers -/
example : ((monitor 2 callsT (pushT ++ workT 10 0 0 ++ workT 10 1 1)).failure.map (·.1)) = some 22 := by decide +kernel

/-- rejected: two operator calls inside one task (indices grouped per task) -/
example : ((monitor 2 callsT (pushT ++ (workT 10 0 0).take 9 ++ [r 10 22 0 0])).failure.map (·.1)) = some 19 := by
  decide +kernel

/-- rejected: `map` is left (here: by an exception, code 1) although index 1 was never invoked -/
example : ((monitor 2 callsT (pushT ++ workT 10 0 0 ++ [r 0 25 0 1])).failure.map (·.1)) = some 20 := by decide +kernel

/-- rejected: an index invoked twice -/
example : ((monitor 2 callsT (pushT ++ workT 10 0 0 ++ workT 11 1 0)).failure.map (·.1)) = some 27 := by decide +kernel

/-- rejected: `stop_set` outside a critical section (the destructor writes `m_stop` without the mutex) -/
example : ((monitor 1 #[] [r 10 0 0 0, r 10 1 0 0, r 10 6 0 0, r 0 26 0 0, r 0 12 0 0]).failure.map (·.1)) = some 4 := by
  decide +kernel

/-- accepted: the destructor as coded -/
example : (monitor 1 #[] [r 10 0 0 0, r 10 1 0 0, r 10 6 0 0, r 0 26 0 0, r 0 0 0 0, r 0 1 0 0, r 0 12 0 0, r 0 2 0 0, r 0 5 0 0,
    r 0 13 0 0, r 10 6 1 0, r 10 8 0 0, r 10 5 0 0, r 10 2 0 0, r 10 11 0 0, r 0 14 0 0]).failure.isNone = true := by
  decide +kernel

/-- rejected: the exiting worker clears the queue after unlocking -/
example : ((monitor 1 #[] [r 10 0 0 0, r 10 1 0 0, r 10 6 0 0, r 0 26 0 0, r 0 0 0 0, r 0 1 0 0, r 0 12 0 0, r 0 2 0 0, r 0 5 0 0,
    r 0 13 0 0, r 10 6 1 0, r 10 2 0 0, r 10 8 0 0]).failure.map (·.1)) = some 12 := by
  decide +kernel

/-- rejected: a push while another thread holds the mutex -/
example : ((monitor 1 #[.enq true] [r 10 0 0 0, r 10 1 0 0, r 0 20 0 0, r 0 3 1 0]).failure.map (·.1)) = some 3 := by
  decide +kernel

end NanoVerif.Pool
