import NanoVerif.Proofs.C06Line
import NanoVerif.Proofs.C06Fn
import NanoVerif.Proofs.C06Enet
/-!
  C06 — the gradient is the derivative of the value along every line: the multi-output losses (mse, cauchy, squared
  hinge, savage, tangent, logistic, exponential through their scalar kernels; class negative log-likelihood), the
  smooth constraint kinds (euclidean ball, linear, quadratic, minimum / maximum / constant) and the smooth elastic-net
  prototypes (`α₁ = 0`: ridge).
-/
set_option linter.unusedSectionVars false
set_option linter.unusedVariables false

namespace NanoVerif.C06
open NanoVerif.Loss NanoVerif.Fn

/-! ### element-wise losses -/

theorem sum2_line_deriv1 (k g : ℝ → ℝ → ℝ) (h : ∀ t o, HasDerivAt (fun o => k t o) (g t o) o)
    (t o d : List ℝ) (ho : o.length = t.length) (hd : d.length = t.length) :
    HasDerivAt (fun s : ℝ => sum2 k t (line o d s)) (dot (map2 g t o) d) 0 := by
  have := sum2_line_deriv 1 k g (by intro t o; simpa using h t o) t o d ho hd
  simpa using this

/-- the seven smooth element-wise kinds -/
def smoothKind (k : Kind) : Bool :=
  match k with
  | .mse | .cauchy | .sqhinge | .savage | .tangent | .logistic | .exponential => true
  | _ => false

theorem loss_grad_aux (k : Kind) (hk : smoothKind k = true) (a eps : ℝ) (t o d : List ℝ)
    (ho : o.length = t.length) (hd : d.length = t.length) :
    HasDerivAt (fun s : ℝ => value k a eps t (line o d s)) (dot (vgrad k a t o) d) 0 := by
  cases k <;> simp only [smoothKind, Bool.false_eq_true] at hk <;> simp only [value, vgrad]
  · exact sum2_line_deriv (1 / 2) mseV mseG mse_deriv t o d ho hd
  · exact sum2_line_deriv (1 / 2) cauchyV Loss.cauchyG cauchy_deriv t o d ho hd
  · exact sum2_line_deriv1 sqhingeV sqhingeG sqhinge_deriv t o d ho hd
  · exact sum2_line_deriv1 savageV savageG savage_deriv t o d ho hd
  · exact sum2_line_deriv1 tangentV tangentG tangent_deriv t o d ho hd
  · exact sum2_line_deriv1 logisticV logisticG logistic_deriv t o d ho hd
  · exact sum2_line_deriv1 expV expG exponential_deriv t o d ho hd

/-! ### class negative log-likelihood (no `ε` inside the logarithm) -/

theorem posSum_line : ∀ (t o d : List ℝ) (s : ℝ), o.length = t.length → d.length = t.length →
    posSum t (line o d s) = posSum t o + s * posSum t d
  | [], [], [], _, _, _ => by simp [posSum]
  | t :: ts, o :: os, d :: ds, s, ho, hd => by
    rw [line_cons]; simp only [posSum]
    rw [posSum_line ts os ds s (by simpa using ho) (by simpa using hd)]
    split <;> ring
  | [], _ :: _, _, _, h, _ => by simp at h
  | [], _, _ :: _, _, _, h => by simp at h
  | _ :: _, [], _, _, h, _ => by simp at h
  | _ :: _, _, [], _, _, h => by simp at h

theorem expSum_line_deriv (c : ℝ) : ∀ (o d : List ℝ), d.length = o.length →
    HasDerivAt (fun s : ℝ => expSum c (line o d s)) (dot (o.map (fun y => Real.exp (y - c))) d) 0
  | [], [], _ => by simp only [line_nil, expSum, List.map, dot]; exact hasDerivAt_const _ _
  | o :: os, d :: ds, hl => by
    have ih := expSum_line_deriv c os ds (by simpa using hl)
    have h0 : HasDerivAt (fun s : ℝ => Real.exp (o + s * d - c)) (Real.exp (o - c) * d) 0 := by
      have h := ((coord_deriv o d).sub_const c).exp
      simpa using h
    simp only [line_cons, expSum, List.map, dot, texp_eq]
    exact h0.add ih
  | [], _ :: _, h => by simp at h
  | _ :: _, [], h => by simp at h

/-- the gradient `softmax − [t_i > 0]` paired with a direction -/
theorem classnllG_dot_dir (c s : ℝ) : ∀ (t o d : List ℝ), o.length = t.length → d.length = t.length →
    dot (map2 (fun ti oi => if 0 < ti then Transc.exp (oi - c) / s - 1 else Transc.exp (oi - c) / s) t o) d
      = dot (o.map (fun y => Real.exp (y - c))) d / s - posSum t d
  | [], [], [], _, _ => by simp [map2, dot, posSum]
  | t :: ts, o :: os, d :: ds, ho, hd => by
    have ih := classnllG_dot_dir c s ts os ds (by simpa using ho) (by simpa using hd)
    simp only [map2, dot, posSum, List.map, texp_eq]
    simp only [texp_eq] at ih
    rw [ih]
    split <;> ring
  | [], _ :: _, _, h, _ => by simp at h
  | [], _, _ :: _, _, h => by simp at h
  | _ :: _, [], _, h, _ => by simp at h
  | _ :: _, _, [], _, h => by simp at h

/-- without `ε` the value does not depend on the shift -/
theorem classnllShift_indep (c c0 : ℝ) (t o : List ℝ) (hne : o ≠ []) :
    classnllShift 0 c t o = classnllShift 0 c0 t o := by
  unfold classnllShift
  simp only [tlog_eq, zero_add]
  have hE := expSum_pos 0 o hne
  have e : ∀ c : ℝ, Real.log (expSum c o) + c = Real.log (expSum 0 o) := by
    intro c
    rw [expSum_shift c o, Real.log_mul (ne_of_gt (Real.exp_pos _)) (ne_of_gt hE), Real.log_exp]; ring
  have h1 := e c
  have h2 := e c0
  linarith

/-- log-sum-exp minus the outputs at the positive targets, for ANY shift rule `c` (the code uses the maximal output):
    the soft-max minus the positive-target indicator is the derivative -/
theorem classnll_shift_grad (c : List ℝ → ℝ) (t o d : List ℝ) (hne : t ≠ [])
    (ho : o.length = t.length) (hd : d.length = t.length) :
    HasDerivAt (fun s : ℝ => classnllShift 0 (c (line o d s)) t (line o d s))
      (dot (classnllGShift (c o) t o) d) 0 := by
  have hdo : d.length = o.length := by rw [hd, ho]
  have hone : o ≠ [] := by intro h; rw [h] at ho; exact hne (List.eq_nil_of_length_eq_zero ho.symm)
  have hlne : ∀ s : ℝ, line o d s ≠ [] := by
    intro s h
    have := line_length o d s hdo
    rw [h] at this
    exact hone (List.eq_nil_of_length_eq_zero this.symm)
  have e : (fun s : ℝ => classnllShift 0 (c (line o d s)) t (line o d s)) =
      fun s => Real.log (expSum (c o) (line o d s)) - (posSum t o + s * posSum t d) + c o := by
    funext s
    rw [classnllShift_indep (c (line o d s)) (c o) t (line o d s) (hlne s)]
    unfold classnllShift
    simp only [tlog_eq, zero_add]
    rw [posSum_line t o d s ho hd]
  rw [e]
  unfold classnllGShift
  simp only
  rw [classnllG_dot_dir (c o) (expSum (c o) o) t o d ho hd]
  have hS : expSum (c o) (line o d 0) ≠ 0 := ne_of_gt (expSum_pos (c o) _ (hlne 0))
  have h1 := (expSum_line_deriv (c o) o d hdo).log hS
  have h2 : HasDerivAt (fun s : ℝ => posSum t o + s * posSum t d) (posSum t d) 0 := by
    simpa using ((hasDerivAt_id' (0 : ℝ)).mul_const (posSum t d)).const_add (posSum t o)
  have h := (h1.sub h2).add_const (c o)
  refine h.congr_deriv ?_
  rw [line_zero o d hdo]

theorem classnll_grad_aux (a : ℝ) (t o d : List ℝ) (hne : t ≠ [])
    (ho : o.length = t.length) (hd : d.length = t.length) :
    HasDerivAt (fun s : ℝ => value .classnll a 0 t (line o d s)) (dot (vgrad .classnll a t o) d) 0 :=
  classnll_shift_grad maxCoeff t o d hne ho hd

/-! ### constraint kinds -/

theorem vsub_line : ∀ (x d o : List ℝ) (t : ℝ), d.length = x.length → o.length = x.length →
    vsub (line x d t) o = line (vsub x o) d t
  | [], [], [], _, _, _ => rfl
  | x :: xs, d :: ds, o :: os, t, hd, ho => by
    rw [line_cons]; simp only [vsub]
    rw [line_cons, vsub_line xs ds os t (by simpa using hd) (by simpa using ho)]
    congr 1; ring
  | [], _ :: _, _, _, h, _ => by simp at h
  | [], _, _ :: _, _, _, h => by simp at h
  | _ :: _, [], _, _, h, _ => by simp at h
  | _ :: _, _, [], _, _, h => by simp at h

theorem ball_grad_aux (o : List ℝ) (r : ℝ) (x d : List ℝ) (hx : x.length = o.length) (hd : d.length = o.length) :
    HasDerivAt (fun t : ℝ => ballF o r (line x d t)) (dot (ballG o x) d) 0 := by
  have hdx : d.length = x.length := by rw [hd, hx]
  unfold ballF ballG
  rw [dot_smul_left]
  have e : (fun t : ℝ => dot (vsub (line x d t) o) (vsub (line x d t) o) - r * r) =
      fun t => dot (line (vsub x o) d t) (line (vsub x o) d t) - r * r := by
    funext t; rw [vsub_line x d o t hdx hx.symm]
  rw [e]
  exact (dot_self_line_deriv (vsub x o) d (by rw [vsub_length x o hx, hd])).sub_const (r * r)

theorem linear_grad_aux (q : List ℝ) (r : ℝ) (x d : List ℝ) (hd : d.length = x.length) :
    HasDerivAt (fun t : ℝ => linearF q r (line x d t)) (dot (linearG q x) d) 0 := by
  unfold linearF linearG
  have e : (fun t : ℝ => dot q (line x d t) + r) = fun t => dot (line x d t) q + r := by
    funext t; rw [dot_comm]
  rw [e]
  exact (dot_const_line_deriv x d q hd).add_const r

theorem cquad_grad_aux (P : List (List ℝ)) (q : List ℝ) (r : ℝ) (x d : List ℝ) (n : Nat)
    (hP : P.length = n) (hrows : ∀ r ∈ P, r.length = n) (hq : q.length = n) (hx : x.length = n) (hd : d.length = n) :
    HasDerivAt (fun t : ℝ => cquadF P q r (line x d t)) (dot (cquadG P q x) d) 0 := by
  have hdx : d.length = x.length := by rw [hd, hx]
  unfold cquadF cquadG
  have hT : (tmulVec x.length P x).length = x.length := tmulVec_length x.length P x (by rw [hx]; exact hrows)
  have hl1 : (mulVec P x).length = (tmulVec x.length P x).length := by rw [mulVec_length, hT, hP, hx]
  rw [dot_vadd_left _ _ _ (by rw [smul_length, vadd_length _ _ hl1, hT, hx, hq]), dot_smul_left,
    dot_vadd_left _ _ _ hl1, dot_tmulVec x.length P x d (by rw [hx]; exact hrows) (by rw [hP, hx])]
  have e : (fun t : ℝ => 1 / 2 * dot (line x d t) (mulVec P (line x d t)) + dot q (line x d t) + r) =
      fun t => 1 / 2 * dot (line x d t) (mulVec P (line x d t)) + dot (line x d t) q + r := by
    funext t; rw [dot_comm q]
  rw [e]
  have h := (((bilin_line_deriv P x d hdx).const_mul (1 / 2)).add (dot_const_line_deriv x d q hdx)).add_const r
  refine h.congr_deriv ?_
  rw [dot_comm (mulVec P x) d]; ring

theorem onehot_dot_getD (s : ℝ) (k : Nat) : ∀ (i0 : Nat) (x d : List ℝ), d.length = x.length → i0 ≤ k →
    dot (mapIdx (fun i _ => if i = k then s else 0) i0 x) d = s * d.getD (k - i0) 0
  | _, [], [], _, _ => by simp [mapIdx, dot]
  | i0, x :: xs, d :: ds, hl, hi => by
    simp only [mapIdx, dot]
    by_cases h : i0 = k
    · subst h
      have hz : ∀ (j : Nat) (xs ds : List ℝ), i0 < j →
          dot (mapIdx (fun i _ => if i = i0 then s else 0) j xs) ds = 0 := by
        intro j xs
        induction xs generalizing j with
        | nil => intro ds _; simp [mapIdx, dot_nil_left]
        | cons a xs ih =>
          intro ds hj
          cases ds with
          | nil => simp [mapIdx, dot]
          | cons b ds =>
            simp only [mapIdx, dot]
            rw [if_neg (by omega), ih (j + 1) ds (by omega)]; ring
      rw [hz (i0 + 1) xs ds (by omega)]
      simp
    · have hlt : i0 + 1 ≤ k := by omega
      rw [if_neg h, onehot_dot_getD s k (i0 + 1) xs ds (by simpa using hl) hlt]
      have : k - i0 = (k - (i0 + 1)) + 1 := by omega
      rw [this]; simp
  | _, [], _ :: _, h, _ => by simp at h
  | _, _ :: _, [], h, _ => by simp at h

theorem maximum_grad_aux (v : ℝ) (k : Nat) (x d : List ℝ) (hd : d.length = x.length) :
    HasDerivAt (fun t : ℝ => maximumF v k (line x d t)) (dot (maximumG k x) d) 0 := by
  unfold maximumF maximumG
  rw [onehot_dot_getD 1 k 0 x d hd (Nat.zero_le _)]
  have e : (fun t : ℝ => (line x d t).getD k 0 - v) = fun t => x.getD k 0 + t * d.getD k 0 - v := by
    funext t; rw [getD_line x d k t hd]
  rw [e]
  have h := (coord_deriv (x.getD k 0) (d.getD k 0)).sub_const v
  simpa using h

theorem minimum_grad_aux (v : ℝ) (k : Nat) (x d : List ℝ) (hd : d.length = x.length) :
    HasDerivAt (fun t : ℝ => minimumF v k (line x d t)) (dot (minimumG k x) d) 0 := by
  unfold minimumF minimumG
  rw [onehot_dot_getD (-1) k 0 x d hd (Nat.zero_le _)]
  have e : (fun t : ℝ => v - (line x d t).getD k 0) = fun t => v - (x.getD k 0 + t * d.getD k 0) := by
    funext t; rw [getD_line x d k t hd]
  rw [e]
  have h := (coord_deriv (x.getD k 0) (d.getD k 0)).const_sub v
  simpa using h

/-! ### the smooth elastic-net prototypes: `loss(inputs·x + b, targets)/N + ½‖√α₂ x‖²` (`α₁ = 0`) -/

theorem enetOutputs_line : ∀ (A : List (List ℝ)) (b : ℝ) (x d : List ℝ) (s : ℝ), d.length = x.length →
    enetOutputs A b (line x d s) = line (enetOutputs A b x) (mulVec A d) s
  | [], _, _, _, _, _ => by simp [enetOutputs, mulVec]
  | r :: A, b, x, d, s, h => by
    have ih := enetOutputs_line A b x d s h
    simp only [enetOutputs, mulVec, List.map] at *
    rw [line_cons, ih, dot_line_right r x d s h]
    congr 1; ring

theorem enet_ridge_grad_aux (kV kG : ℝ → ℝ → ℝ) (hk : ∀ t o, HasDerivAt (fun o => kV t o) (kG t o) o)
    (a2 : ℝ) (h2 : 0 ≤ a2) (A : List (List ℝ)) (b : ℝ) (t x d : List ℝ)
    (hA : A.length = t.length) (hrows : ∀ r ∈ A, r.length = x.length) (hd : d.length = x.length) :
    HasDerivAt (fun s : ℝ => enetF kV 0 a2 A b t (line x d s)) (dot (enetG kG 0 a2 A b t x) d) 0 := by
  have hox : (enetOutputs A b x).length = t.length := by rw [enetOutputs_length, hA]
  have hggl : (map2 kG t (enetOutputs A b x)).length = t.length := by rw [map2_length _ _ _ hox.symm, hox]
  have hadj := tmulVec_adjoint x.length A (map2 kG t (enetOutputs A b x)) d hrows (by rw [hA, hggl])
  have hs : Real.sqrt a2 * Real.sqrt a2 = a2 := Real.mul_self_sqrt h2
  have hT : (tmulVec x.length A (map2 kG t (enetOutputs A b x))).length = x.length :=
    tmulVec_length x.length A _ hrows
  have hlen2 : (smul (0 : ℝ) (x.map sign')).length = (smul a2 x).length := by simp
  have hlen1 : ((tmulVec x.length A (map2 kG t (enetOutputs A b x))).map (fun v => v / (t.length : ℝ))).length =
      (vadd (smul (0 : ℝ) (x.map sign')) (smul a2 x)).length := by
    rw [List.length_map, vadd_length _ _ hlen2, smul_length]; exact hT
  unfold enetF enetG
  simp only [tsqrt_eq]
  rw [dot_vadd_left _ _ _ hlen1, dot_vadd_left _ _ _ hlen2, dot_map_div, hadj, dot_smul_left, dot_smul_left]
  have e : (fun s : ℝ => sum2 kV t (enetOutputs A b (line x d s)) / (t.length : ℝ)
        + 0 * sumL ((line x d s).map abs')
        + 1 / 2 * dot (smul (Real.sqrt a2) (line x d s)) (smul (Real.sqrt a2) (line x d s))) =
      fun s => sum2 kV t (line (enetOutputs A b x) (mulVec A d) s) / (t.length : ℝ)
        + 1 / 2 * (a2 * dot (line x d s) (line x d s)) := by
    funext s
    rw [enetOutputs_line A b x d s hd, dot_smul_smul, hs]; ring
  rw [e]
  have h1 := sum2_line_deriv1 kV kG hk t (enetOutputs A b x) (mulVec A d) hox (by rw [mulVec_length, hA])
  have h := (h1.div_const (t.length : ℝ)).add (((dot_self_line_deriv x d hd).const_mul a2).const_mul (1 / 2))
  refine h.congr_deriv ?_
  ring

theorem enetMse_deriv (t o : ℝ) : HasDerivAt (fun o => enetMseV t o) (enetMseG t o) o := by
  unfold enetMseV enetMseG
  have h := (((hasDerivAt_id' o).sub_const t).mul ((hasDerivAt_id' o).sub_const t)).const_mul (1 / 2)
  exact h.congr_deriv (by ring)

theorem enetLogistic_deriv (t o : ℝ) : HasDerivAt (fun o => enetLogisticV t o) (enetLogisticG t o) o := by
  unfold enetLogisticV enetLogisticG
  simp only [texp_eq, tlog_eq]
  have hpos : 1 + Real.exp (-o * t) ≠ 0 := by have := Real.exp_pos (-o * t); linarith
  have h0 : HasDerivAt (fun y : ℝ => -y * t) (-t) o := by
    have := ((hasDerivAt_id' o).neg).mul_const t; simpa using this
  have h := (h0.exp.const_add 1).log hpos
  refine h.congr_deriv ?_
  field_simp

theorem enetCauchy_deriv (t o : ℝ) : HasDerivAt (fun o => enetCauchyV t o) (enetCauchyG t o) o := by
  unfold enetCauchyV enetCauchyG
  simp only [tlog_eq]
  have hpos : (o - t) * (o - t) + 1 ≠ 0 := by nlinarith [mul_self_nonneg (o - t)]
  have hpos2 : 1 + (o - t) * (o - t) ≠ 0 := by nlinarith [mul_self_nonneg (o - t)]
  have h1 := (hasDerivAt_id' o).sub_const t
  have h := ((h1.mul h1).add_const 1).log hpos
  refine h.congr_deriv ?_
  simp only [Pi.mul_apply]
  field_simp
  ring

end NanoVerif.C06
