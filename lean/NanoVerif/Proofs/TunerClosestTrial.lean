import NanoVerif.Proofs.Tune
import NanoVerif.Proofs.TunerSpace
/-!
  C13 — `result_t::closest_trial` as `ml::tune` uses it (warm starts): the scan only ever looks at the trials before
  `max_trials` = `old_trials`, so a (trial, fold) task of the batch in flight is handed the model data of a trial of an
  EARLIER batch — a slot nobody writes while the batch runs.
-/
set_option linter.unusedSectionVars false

namespace NanoVerif.Tune

section
variable {α π : Type} [Field α] [LinearOrder α] [IsStrictOrderedRing α]

/-- frame: `closest_trial` depends on the first `maxTrials` rows only — the rows of the batch in flight (appended by
    `result.add` before the tasks start) are never read -/
theorem closestTrial_frame (top : α) (dist : π → π → α) (rows rows' : List π) (p : π) (k : Nat)
    (h : rows.take k = rows'.take k) : closestTrial top dist rows p k = closestTrial top dist rows' p k := by
  unfold closestTrial; rw [h]

theorem closestTrial_old_only (top : α) (dist : π → π → α) (old new : List π) (p : π) :
    closestTrial top dist (old ++ new) p old.length = closestTrial top dist old p old.length :=
  closestTrial_frame top dist _ _ p _ (by simp)

/-- the answer is a trial before `maxTrials` (whenever there is one) -/
theorem closestTrial_lt (top : α) (dist : π → π → α) (rows : List π) (p : π) (k : Nat) (hk : 0 < k)
    (hle : k ≤ rows.length) : closestTrial top dist rows p k < k := by
  unfold closestTrial
  have hne : ((rows.take k).map fun row => dist row p) ≠ [] := by
    intro h
    have hlen : ((rows.take k).map fun row => dist row p).length = k := by simp [Nat.min_eq_left hle]
    rw [h] at hlen
    simp at hlen
    omega
  have := NanoVerif.Tuner.argminScan_lt top _ hne
  simpa [Nat.min_eq_left hle] using this

/-- without earlier trials (`old_trials = 0`, the very first batch) the answer is trial 0 — the task's own batch -/
theorem closestTrial_zero (top : α) (dist : π → π → α) (rows : List π) (p : π) :
    closestTrial top dist rows p 0 = 0 := by
  simp [closestTrial, argminScan]

/-- the answer is the FIRST nearest among the trials before `maxTrials` (distances not above `top` = `DBL_MAX`) -/
theorem closestTrial_nearest (top : α) (dist : π → π → α) (rows : List π) (p : π) (k : Nat) (hk : 0 < k)
    (hle : k ≤ rows.length) (htop : ∀ row ∈ rows.take k, dist row p ≤ top) :
    ∃ hc : closestTrial top dist rows p k < rows.length,
      (∀ j (hj : j < k), dist rows[closestTrial top dist rows p k] p ≤ dist (rows[j]'(by omega)) p) ∧
      (∀ j (hj : j < closestTrial top dist rows p k), dist rows[closestTrial top dist rows p k] p <
        dist (rows[j]'(by omega)) p) := by
  have hlt := closestTrial_lt top dist rows p k hk hle
  have hne : ((rows.take k).map fun row => dist row p) ≠ [] := by
    intro h
    have hlen : ((rows.take k).map fun row => dist row p).length = k := by simp [Nat.min_eq_left hle]
    rw [h] at hlen
    simp at hlen
    omega
  have htop' : ∀ v ∈ (rows.take k).map (fun row => dist row p), v ≤ top := by
    intro v hv
    obtain ⟨row, hrow, rfl⟩ := List.mem_map.mp hv
    exact htop row hrow
  obtain ⟨hb, h1, h2⟩ := optimum_is_argmin top _ hne htop'
  refine ⟨by omega, ?_, ?_⟩
  · intro j hj
    have := h1 j (by simpa [Nat.min_eq_left hle] using hj)
    simpa [closestTrial, optimumTrial, List.getElem_take] using this
  · intro j hj
    have := h2 j (by simpa [closestTrial, optimumTrial] using hj)
    simpa [closestTrial, optimumTrial, List.getElem_take] using this

/-- a slot of an earlier trial reads the same right after `result.add` as before it -/
theorem add_get?_old {σ : Type} (r : Result σ) (hwf : r.wf) (k t f : Nat) (ht : t < r.trials) :
    (r.add k).get? t f = r.get? t f := by
  unfold Result.get? Result.add
  simp only
  by_cases hf : f < r.folds
  · have hslot : slot r.folds t f < r.slots.length := by
      rw [hwf]; exact slot_lt r.folds r.trials t f ht hf
    rw [if_pos ⟨hf, by omega⟩, if_pos ⟨hf, ht⟩, List.getElem?_append_left hslot]
  · rw [if_neg (fun h => hf h.1), if_neg (fun h => hf h.1)]

/-- **warm starts read completed batches only**: in `ml::tune` (rows of the batch in flight already appended, `max_trials`
    = `old_trials` > 0) the closest trial of every new trial is an OLD one, it is the same whatever the batch in flight
    looks like, and its (trial, fold) slot holds after `add` what it held before — the tasks of the batch never write it
    (`batch_keeps_old`) -/
theorem tune_reads_only_earlier {σ : Type} (top : α) (dist : π → π → α) (r0 : Result σ) (hwf : r0.wf) (old new : List π)
    (hold : old.length = r0.trials) (hpos : 0 < r0.trials) (p : π) (f : Nat) :
    closestTrial top dist (old ++ new) p r0.trials < r0.trials ∧
    closestTrial top dist (old ++ new) p r0.trials = closestTrial top dist old p r0.trials ∧
    (r0.add new.length).get? (closestTrial top dist (old ++ new) p r0.trials) f =
      r0.get? (closestTrial top dist (old ++ new) p r0.trials) f := by
  have hlt : closestTrial top dist (old ++ new) p r0.trials < r0.trials :=
    closestTrial_lt top dist _ p _ hpos (by simp [hold])
  refine ⟨hlt, ?_, add_get?_old r0 hwf _ _ f hlt⟩
  rw [← hold]; exact closestTrial_old_only top dist old new p

end

example : closestTrial (100 : Int) (fun a b => (a - b) * (a - b)) [5, 1, 9, 2] 2 3 = 1 := by decide
-- the in-flight row `2` (distance 0) is not looked at with `maxTrials = 3`; it would be with 4
example : closestTrial (100 : Int) (fun a b => (a - b) * (a - b)) [5, 1, 9, 2] 2 4 = 3 := by decide

end NanoVerif.Tune
