import NanoVerif.Model.SplitSampler
import NanoVerif.Gen.SplitGboost
/-!
  C12 — `gboost::sampler_t` of `Model/SplitSampler.lean` IS the dispatch regenerated from `src/gboost/sampler.cpp`
  (`tools/props/c12_translate.py` → `Gen/SplitGboost.lean`): per mode the routine called and the rule that fills `m_weights`
  (`errors_losses(1, m_samples(i))` — the SAMPLE index, not the position —, `gradients.vector(m_samples(i)).lpNorm<2>()`), the
  count formula, the constructor's weight buffer.
-/
namespace NanoVerif.Split
open NanoVerif
open NanoVerif.Gen.SplitGboost (Routine WeightRule)

/-- the model's modes are the enumerators of `gboost_subsample` -/
def modeToGen : Mode → Gen.SplitGboost.Mode
  | .off => .off
  | .subsample => .subsample
  | .bootstrap => .bootstrap
  | .weiLoss => .weiLossBootstrap
  | .weiGrad => .weiGradBootstrap

section
variable {G α : Type}

/-- what a generated weight rule means in the model's vocabulary: `loss` is row 1 of `errors_losses` and `grad` the gradient row,
    both as functions of the SAMPLE index, the norm is `lpNorm<2>`; any other rule has no counterpart in the model (`none`) -/
def weightsByRule (N : Num α) (s : Sampler G α) (loss : Int → α) (grad : Int → List α) : WeightRule → Option (List α)
  | .keep => some s.weights
  | .loss 1 .sample => some (s.samples.map loss)
  | .gradNorm 2 .sample => some (s.samples.map (fun i => N.norm2 (grad i)))
  | _ => none

variable [Mul α] [Add α] [Div α] [LT α] [DecidableLT α] [OfNat α 0] [OfNat α 1]

/-- the call named by a generated routine, on the model's core routines -/
def sampleByRoute (N : Num α) (L : StdLib G α) (sort : List Int → List Int) (s : Sampler G α) (rt : Routine) (w : List α) :
    Option (List Int) × Sampler G α :=
  let count := Gen.SplitGboost.count N.trunc N.ofNat s.ratio s.samples.length
  match rt with
  | .identity => (some s.samples, s)
  | .without => let r := withoutG L sort s.samples count s.rng; (r.1, { s with rng := r.2 })
  | .withUniform => let r := withG L sort s.samples count s.rng; (r.1, { s with rng := r.2 })
  | .withWeights => let r := wwithG L sort s.samples w count s.rng; (r.1, { s with rng := r.2, weights := w })

/-- `sampler_t::sample`: the model follows the generated `switch (m_type)` in every mode -/
theorem model_sampler_sample_is_generated (N : Num α) (L : StdLib G α) (sort : List Int → List Int) (s : Sampler G α)
    (loss : Int → α) (grad : Int → List α) :
    (weightsByRule N s loss grad (Gen.SplitGboost.route (modeToGen s.mode)).2).map
        (sampleByRoute N L sort s (Gen.SplitGboost.route (modeToGen s.mode)).1) =
      some (s.sample N L sort loss grad) := by
  obtain ⟨samples, mode, rng, ratio, weights⟩ := s
  cases mode <;> rfl

omit [Add α] [Div α] [LT α] [DecidableLT α] [OfNat α 0] [OfNat α 1] in
/-- `count = static_cast<tensor_size_t>(m_ratio * static_cast<scalar_t>(m_samples.size()))` -/
theorem model_sampler_count_is_generated (N : Num α) (s : Sampler G α) :
    s.count N = Gen.SplitGboost.count N.trunc N.ofNat s.ratio s.samples.length := rfl

end

/-- the constructor: no weight buffer exactly in the modes the generated condition names -/
theorem model_sampler_make_is_generated {G α : Type} [OfNat α 0] (samples : List Int) (mode : Mode) (g : G) (ratio : α) :
    (Sampler.make samples mode g ratio).weights =
      if Gen.SplitGboost.weightsEmpty (modeToGen mode) = true then [] else List.replicate samples.length 0 := by
  cases mode <;> rfl

end NanoVerif.Split
