import NanoVerif.Proofs.ProgramGap
/-!
  C04 — equivalent restatements of a program (rescaled rows, appended dependent equalities, rescaled objective, permuted
  rows, permuted variables) have the same feasible set and the same minimisers.
-/
set_option linter.unusedSectionVars false
set_option linter.unusedVariables false

namespace NanoVerif.Program
variable {α : Type} [Field α] [LinearOrder α] [IsStrictOrderedRing α]

/-- row `i` multiplied by `wᵢ` -/
def scaleRows (w : List α) (A : List (List α)) : List (List α) := List.zipWith (fun wi r => smul wi r) w A

/-- componentwise product -/
def vmul (w b : List α) : List α := List.zipWith (· * ·) w b

theorem mv_scaleRows : ∀ (w : List α) (A : List (List α)) (x : List α), mv (scaleRows w A) x = vmul w (mv A x)
  | [], _, _ => by simp [scaleRows, vmul, mv]
  | _ :: _, [], _ => by simp [scaleRows, vmul, mv]
  | a :: w, r :: A, x => by
    have ih := mv_scaleRows w A x
    simp only [scaleRows, vmul, mv, List.zipWith_cons_cons, List.map_cons] at ih ⊢
    rw [ih, dot_smul_left]

theorem LeV_vmul : ∀ (w g h : List α), (∀ a ∈ w, 0 < a) → w.length = g.length → h.length = g.length →
    (LeV (vmul w g) (vmul w h) ↔ LeV g h)
  | [], [], [], _, _, _ => by simp [vmul]
  | [], _ :: _, _, _, hl, _ => by simp at hl
  | _ :: _, [], _, _, hl, _ => by simp at hl
  | [], [], _ :: _, _, _, hl => by simp at hl
  | _ :: _, _ :: _, [], _, _, hl => by simp at hl
  | a :: w, x :: g, y :: h, hw, h1, h2 => by
    have ih := LeV_vmul w g h (fun b hb => hw b (by simp [hb])) (by simpa using h1) (by simpa using h2)
    have ha : 0 < a := hw a (by simp)
    simp only [vmul, List.zipWith_cons_cons, LeV_cons] at ih ⊢
    rw [ih]
    constructor
    · rintro ⟨h, h'⟩; exact ⟨le_of_mul_le_mul_left h ha, h'⟩
    · rintro ⟨h, h'⟩; exact ⟨mul_le_mul_of_nonneg_left h (le_of_lt ha), h'⟩

theorem vmul_inj : ∀ (w g h : List α), (∀ a ∈ w, a ≠ 0) → w.length = g.length → h.length = g.length →
    (vmul w g = vmul w h ↔ g = h)
  | [], [], [], _, _, _ => by simp [vmul]
  | [], _ :: _, _, _, hl, _ => by simp at hl
  | _ :: _, [], _, _, hl, _ => by simp at hl
  | [], [], _ :: _, _, _, hl => by simp at hl
  | _ :: _, _ :: _, [], _, _, hl => by simp at hl
  | a :: w, x :: g, y :: h, hw, h1, h2 => by
    have ih := vmul_inj w g h (fun b hb => hw b (by simp [hb])) (by simpa using h1) (by simpa using h2)
    have ha : a ≠ 0 := hw a (by simp)
    simp only [vmul, List.zipWith_cons_cons, List.cons.injEq] at ih ⊢
    rw [ih, mul_right_inj' ha]

theorem feasible_scale_ineq (P : Prog α) (w x : List α) (hw : ∀ a ∈ w, 0 < a)
    (hwl : w.length = P.G.length) (hhl : P.h.length = P.G.length) :
    Feasible { P with G := scaleRows w P.G, h := vmul w P.h } x ↔ Feasible P x := by
  simp only [Feasible]
  rw [mv_scaleRows, LeV_vmul w (mv P.G x) P.h hw (by simpa using hwl) (by simpa using hhl)]

theorem feasible_scale_eq (P : Prog α) (w x : List α) (hw : ∀ a ∈ w, a ≠ 0)
    (hwl : w.length = P.A.length) (hbl : P.b.length = P.A.length) :
    Feasible { P with A := scaleRows w P.A, b := vmul w P.b } x ↔ Feasible P x := by
  simp only [Feasible]
  rw [mv_scaleRows, vmul_inj w (mv P.A x) P.b hw (by simpa using hwl) (by simpa using hbl)]

theorem mv_append (A : List (List α)) (r x : List α) : mv (A ++ [r]) x = mv A x ++ [dot r x] := by
  simp [mv]

theorem feasible_combined_eq (P : Prog α) (wf : WF P) (t x : List α) (hx : x.length = P.n)
    (ht : t.length = P.A.length) (hbl : P.b.length = P.A.length) :
    Feasible { P with A := P.A ++ [tmv P.n P.A t], b := P.b ++ [dot t P.b] } x ↔ Feasible P x := by
  simp only [Feasible]
  rw [mv_append]
  constructor
  · rintro ⟨h1, h2⟩
    exact ⟨(List.append_inj h1 (by simp [hbl])).1, h2⟩
  · rintro ⟨h1, h2⟩
    refine ⟨?_, h2⟩
    rw [tmv_adjoint P.n P.A t x wf.Arows hx ht.symm, h1]

theorem mem_zip_mv (x : List α) (r : List α) (bi : α) : ∀ (A : List (List α)) (b : List α), mv A x = b →
    (r, bi) ∈ A.zip b → dot r x = bi
  | [], _, _, h => by simp at h
  | _ :: _, [], _, h => by simp at h
  | r0 :: A, b0 :: b, he, h => by
    simp only [mv, List.map_cons, List.cons.injEq] at he
    simp only [List.zip_cons_cons, List.mem_cons, Prod.mk.injEq] at h
    rcases h with ⟨rfl, rfl⟩ | h
    · exact he.1
    · exact mem_zip_mv x r bi A b he.2 h

theorem feasible_dup_eq (P : Prog α) (r : List α) (bi : α) (x : List α) (hmem : (r, bi) ∈ P.A.zip P.b)
    (hbl : P.b.length = P.A.length) :
    Feasible { P with A := P.A ++ [r], b := P.b ++ [bi] } x ↔ Feasible P x := by
  simp only [Feasible]
  rw [mv_append]
  constructor
  · rintro ⟨h1, h2⟩
    exact ⟨(List.append_inj h1 (by simp [hbl])).1, h2⟩
  · rintro ⟨h1, h2⟩
    refine ⟨?_, h2⟩
    rw [mem_zip_mv x r bi P.A P.b h1 hmem, h1]

theorem mv_rows_smul (k : α) (A : List (List α)) (x : List α) : mv (A.map (smul k)) x = smul k (mv A x) := by
  induction A with
  | nil => simp [mv, smul]
  | cons r A ih =>
    simp only [mv, smul, List.map_cons, List.map_map] at ih ⊢
    rw [ih]
    congr 1
    exact dot_smul_left k r x

theorem argmin_scale_obj (P : Prog α) (k : α) (hk : 0 < k) (x : List α) :
    (IsArgmin { P with Q := P.Q.map (smul k), c := smul k P.c } x ↔ IsArgmin P x) ∧
      objective { P with Q := P.Q.map (smul k), c := smul k P.c } x = k * objective P x := by
  have hobj : ∀ y : List α, objective { P with Q := P.Q.map (smul k), c := smul k P.c } y = k * objective P y := by
    intro y
    rw [objective_eq, objective_eq]
    simp only
    rw [mv_rows_smul, dot_smul_right, dot_smul_right]
    ring
  refine ⟨?_, hobj x⟩
  have hfe : ∀ y : List α, Feasible { P with Q := P.Q.map (smul k), c := smul k P.c } y ↔ Feasible P y :=
    fun y => Iff.rfl
  unfold IsArgmin
  rw [hfe x]
  constructor
  · rintro ⟨hf, h⟩
    refine ⟨hf, fun y hy => ?_⟩
    have := h y ((hfe y).2 hy)
    rw [hobj, hobj] at this
    exact le_of_mul_le_mul_left this hk
  · rintro ⟨hf, h⟩
    refine ⟨hf, fun y hy => ?_⟩
    rw [hobj, hobj]
    exact mul_le_mul_of_nonneg_left (h y ((hfe y).1 hy)) (le_of_lt hk)

/-! ### permuted rows -/

theorem mv_eq_iff_zip (x : List α) : ∀ (A : List (List α)) (b : List α), b.length = A.length →
    (mv A x = b ↔ ∀ p ∈ A.zip b, dot p.1 x = p.2)
  | [], [], _ => by simp [mv]
  | [], _ :: _, h => by simp at h
  | _ :: _, [], h => by simp at h
  | r :: A, b0 :: b, h => by
    have ih := mv_eq_iff_zip x A b (by simpa using h)
    simp only [mv, List.map_cons, List.cons.injEq, List.zip_cons_cons, List.mem_cons, forall_eq_or_imp] at ih ⊢
    rw [ih]

theorem LeV_mv_iff_zip (x : List α) : ∀ (G : List (List α)) (h : List α), h.length = G.length →
    (LeV (mv G x) h ↔ ∀ p ∈ G.zip h, dot p.1 x ≤ p.2)
  | [], [], _ => by simp [mv]
  | [], _ :: _, hl => by simp at hl
  | _ :: _, [], hl => by simp at hl
  | r :: G, h0 :: h, hl => by
    have ih := LeV_mv_iff_zip x G h (by simpa using hl)
    simp only [mv, List.map_cons, LeV_cons, List.zip_cons_cons, List.mem_cons, forall_eq_or_imp] at ih ⊢
    rw [ih]

theorem feasible_perm_rows (P P' : Prog α) (x : List α)
    (hA : (P.A.zip P.b).Perm (P'.A.zip P'.b)) (hG : (P.G.zip P.h).Perm (P'.G.zip P'.h))
    (hb : P.b.length = P.A.length) (hb' : P'.b.length = P'.A.length)
    (hh : P.h.length = P.G.length) (hh' : P'.h.length = P'.G.length) :
    Feasible P' x ↔ Feasible P x := by
  simp only [Feasible]
  rw [mv_eq_iff_zip x P.A P.b hb, mv_eq_iff_zip x P'.A P'.b hb', LeV_mv_iff_zip x P.G P.h hh,
    LeV_mv_iff_zip x P'.G P'.h hh']
  constructor
  · rintro ⟨h1, h2⟩
    exact ⟨fun p hp => h1 p (hA.mem_iff.1 hp), fun p hp => h2 p (hG.mem_iff.1 hp)⟩
  · rintro ⟨h1, h2⟩
    exact ⟨fun p hp => h1 p (hA.mem_iff.2 hp), fun p hp => h2 p (hG.mem_iff.2 hp)⟩

/-! ### permuted variables -/

/-- the entries of `l` at the positions `idx` (out-of-range positions give `d`) -/
def pick {β : Type} (d : β) (idx : List Nat) (l : List β) : List β := idx.map (fun i => l.getD i d)

/-- the program in the variables `x'ⱼ = x_{idx j}` -/
def permVars (idx : List Nat) (P : Prog α) : Prog α :=
  ⟨if P.Q.isEmpty then [] else pick [] idx (P.Q.map (pick 0 idx)), pick 0 idx P.c, P.A.map (pick 0 idx), P.b,
   P.G.map (pick 0 idx), P.h⟩

def lsum : List α → α
  | [] => 0
  | a :: l => a + lsum l

theorem lsum_perm {l l' : List α} (h : l.Perm l') : lsum l = lsum l' := by
  induction h with
  | nil => rfl
  | cons a _ ih => simp [lsum, ih]
  | swap a b l => simp only [lsum]; ring
  | trans _ _ ih1 ih2 => rw [ih1, ih2]

theorem dot_map_map (f g : Nat → α) : ∀ (idx : List Nat),
    dot (idx.map f) (idx.map g) = lsum (idx.map (fun i => f i * g i))
  | [] => by simp [lsum]
  | i :: idx => by simp [lsum, dot_map_map f g idx]

theorem dot_eq_lsum_range : ∀ (n : Nat) (r x : List α), r.length = n → x.length = n →
    dot r x = lsum ((List.range n).map (fun i => r.getD i 0 * x.getD i 0))
  | 0, [], [], _, _ => by simp [lsum]
  | 0, _ :: _, _, h, _ => by simp at h
  | 0, [], _ :: _, _, h => by simp at h
  | n + 1, [], _, h, _ => by simp at h
  | n + 1, _ :: _, [], _, h => by simp at h
  | n + 1, a :: r, b :: x, h1, h2 => by
    have ih := dot_eq_lsum_range n r x (by simpa using h1) (by simpa using h2)
    rw [List.range_succ_eq_map]
    simp only [List.map_cons, List.map_map, lsum, dot_cons]
    rw [ih]
    congr 1

theorem dot_pick (n : Nat) (idx : List Nat) (hidx : idx.Perm (List.range n)) (r x : List α)
    (hr : r.length = n) (hx : x.length = n) : dot (pick 0 idx r) (pick 0 idx x) = dot r x := by
  unfold pick
  rw [dot_map_map, dot_eq_lsum_range n r x hr hx]
  exact lsum_perm (hidx.map _)

theorem getD_map_zero (f : List α → α) (hf : f [] = 0) : ∀ (M : List (List α)) (i : Nat),
    (M.map f).getD i 0 = f (M.getD i [])
  | [], i => by simp [hf]
  | r :: M, 0 => by simp
  | r :: M, i + 1 => by simpa using getD_map_zero f hf M i

theorem mv_pick_rows (idx : List Nat) (M : List (List α)) (y : List α) :
    mv (pick [] idx M) y = pick 0 idx (mv M y) := by
  unfold pick mv
  rw [List.map_map]
  apply List.map_congr_left
  intro i _
  simp only [Function.comp]
  exact (getD_map_zero (fun r => dot r y) (by simp) M i).symm

theorem mv_pick_cols (n : Nat) (idx : List Nat) (hidx : idx.Perm (List.range n)) (A : List (List α)) (x : List α)
    (hA : ∀ r ∈ A, r.length = n) (hx : x.length = n) : mv (A.map (pick 0 idx)) (pick 0 idx x) = mv A x := by
  unfold mv
  rw [List.map_map]
  apply List.map_congr_left
  intro r hr
  simp only [Function.comp]
  exact dot_pick n idx hidx r x (hA r hr) hx

theorem perm_vars_equiv (P : Prog α) (wf : WF P) (idx : List Nat) (hidx : idx.Perm (List.range P.n))
    (x : List α) (hx : x.length = P.n) :
    (Feasible (permVars idx P) (pick 0 idx x) ↔ Feasible P x) ∧
      objective (permVars idx P) (pick 0 idx x) = objective P x := by
  constructor
  · simp only [Feasible, permVars]
    rw [mv_pick_cols P.n idx hidx P.A x wf.Arows hx, mv_pick_cols P.n idx hidx P.G x wf.Grows hx]
  · rw [objective_eq, objective_eq]
    simp only [permVars]
    rw [dot_pick P.n idx hidx x P.c hx rfl]
    congr 2
    split
    · rename_i he
      have : P.Q = [] := by simpa using he
      simp [this, mv]
    · rename_i he
      rcases wf.Qlen with h0 | h0
      · simp [h0] at he
      · rw [mv_pick_rows, mv_pick_cols P.n idx hidx P.Q x wf.Qrows hx]
        exact dot_pick P.n idx hidx x (mv P.Q x) hx (by simp [h0])

end NanoVerif.Program
