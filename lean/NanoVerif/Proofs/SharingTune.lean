import NanoVerif.Proofs.MLResult
/-!
  C18 — schedule independence of `ml::tune` on the models of C13 (`Model/Tune.lean`) and C11 (`Model/MLResult.lean`).

  * `foldl_set_perm`: writes at pairwise distinct positions commute;
  * `runBatch_schedule_independent`: the result after a batch is the same for every order in which the pool runs its tasks;
  * `runBatchLive`: the batch as CODED — a task reads the warm-start data of its closest trial from the LIVE result, which the
    other tasks of the batch are writing — equals `runBatch` (reads from the result as it was right after `add`) whenever every
    task's closest trial is an EARLIER trial (`tune_reads_only_earlier`), for every order;
  * `runTune_schedule_independent`: the whole `ml::tune` run, any number of batches.
-/
namespace NanoVerif.Sharing
open NanoVerif.Tune

/-! ### writes at distinct positions commute -/

theorem foldl_set_perm {β ι : Type} (pos : ι → Nat) (val : ι → β) (o o' : List ι) (l : List β)
    (hinj : ∀ i ∈ o, ∀ i' ∈ o, pos i = pos i' → i = i') (hnd : o.Nodup) (hp : o.Perm o') :
    o.foldl (fun l i => l.set (pos i) (val i)) l = o'.foldl (fun l i => l.set (pos i) (val i)) l := by
  apply List.ext_getElem?
  intro j
  by_cases hj : ∃ i ∈ o, pos i = j
  · obtain ⟨i, hi, rfl⟩ := hj
    by_cases hlt : pos i < l.length
    · rw [foldl_set_getElem?_of_mem pos val o l hinj hnd i hi hlt,
        foldl_set_getElem?_of_mem pos val o' l
          (fun a ha b hb => hinj a (hp.mem_iff.mpr ha) b (hp.mem_iff.mpr hb)) (hp.nodup_iff.mp hnd) i (hp.mem_iff.mp hi) hlt]
    · rw [List.getElem?_eq_none (by rw [foldl_set_length]; omega),
        List.getElem?_eq_none (by rw [foldl_set_length]; omega)]
  · rw [foldl_set_getElem?_of_not_mem _ _ _ _ _ (fun i hi h => hj ⟨i, hi, h⟩),
      foldl_set_getElem?_of_not_mem _ _ _ _ _ (fun i hi h => hj ⟨i, hp.mem_iff.mpr hi, h⟩)]

theorem result_ext {σ : Type} (x y : Result σ) (h1 : x.folds = y.folds) (h2 : x.trials = y.trials)
    (h3 : x.slots = y.slots) : x = y := by
  cases x; cases y; simp_all

/-- one batch of `ml::tune`: every order in which the pool runs every index exactly once leaves the same result -/
theorem runBatch_schedule_independent {σ : Type} (cb : Nat → Nat → Option σ → σ) (closest : Nat → Nat) (r0 : Result σ)
    (k : Nat) (order order' : List Nat) (hp : order.Perm (List.range (k * r0.folds)))
    (hp' : order'.Perm (List.range (k * r0.folds))) :
    runBatch cb closest r0 k order = runBatch cb closest r0 k order' := by
  obtain ⟨a1, a2, a3⟩ := runBatch_slots cb closest r0 k order
  obtain ⟨b1, b2, b3⟩ := runBatch_slots cb closest r0 k order'
  apply result_ext
  · rw [a1, b1]
  · rw [a2, b2]
  · rw [a3, b3]
    exact foldl_set_perm (fun i => r0.trials * r0.folds + i) _ order order' _
      (fun i _ i' _ h => Nat.add_left_cancel h) (hp.nodup_iff.mpr List.nodup_range) (hp.trans hp'.symm)

/-! ### the batch as coded: the warm-start data is read from the live result -/

/-- `thread_callback(index, ·)` (tune.cpp:25-41) reading `result.extra(closest_trial, fold)` from the result the other tasks of
    the batch are storing into -/
def threadCallbackLive {σ : Type} (cb : Nat → Nat → Option σ → σ) (closest : Nat → Nat) (folds old : Nat)
    (r : Result σ) (index : Nat) : Result σ :=
  let tf := decode folds index
  r.store (old + tf.1) tf.2 (cb tf.1 tf.2 (r.get? (closest tf.1) tf.2))

def runBatchLive {σ : Type} (cb : Nat → Nat → Option σ → σ) (closest : Nat → Nat) (r0 : Result σ) (k : Nat)
    (order : List Nat) : Result σ :=
  order.foldl (threadCallbackLive cb closest r0.folds r0.trials) (r0.add k)

/-- storing into the slot of a NEW trial does not change what is read from the slot of an EARLIER trial -/
theorem get?_store_earlier {σ : Type} (r : Result σ) (old T F c f : Nat) (p : σ) (hT : old ≤ T) (hc : c < old) :
    (r.store T F p).get? c f = r.get? c f := by
  unfold Result.get? Result.store
  simp only
  by_cases hg : f < r.folds ∧ c < r.trials
  · rw [if_pos hg, if_pos hg]
    have hne : slot r.folds T F ≠ slot r.folds c f := by
      unfold slot
      have h1 : c * r.folds + r.folds ≤ old * r.folds := by
        have : (c + 1) * r.folds ≤ old * r.folds := Nat.mul_le_mul_right _ hc
        rw [Nat.add_mul, Nat.one_mul] at this
        exact this
      have h2 : old * r.folds ≤ T * r.folds := Nat.mul_le_mul_right _ hT
      omega
    rw [List.getElem?_set_ne hne]
  · rw [if_neg hg, if_neg hg]

/-- **As coded = as modelled when the closest trial is an earlier one.** For every order (any list of indices): if every task
    of the order is handed a closest trial below `old = r0.trials` — `tune_reads_only_earlier`: `closest_trial(params, old)`
    with `old > 0` — then reading the live result gives what reading the result right after `add` gives. -/
theorem runBatchLive_eq {σ : Type} (cb : Nat → Nat → Option σ → σ) (closest : Nat → Nat) (r0 : Result σ) (k : Nat)
    (order : List Nat) (hcl : ∀ i ∈ order, closest (decode r0.folds i).1 < r0.trials) :
    runBatchLive cb closest r0 k order = runBatch cb closest r0 k order := by
  unfold runBatchLive runBatch
  simp only
  have key : ∀ (order : List Nat) (r : Result σ), (∀ i ∈ order, closest (decode r0.folds i).1 < r0.trials) →
      (∀ c f, c < r0.trials → r.get? c f = (r0.add k).get? c f) →
      order.foldl (threadCallbackLive cb closest r0.folds r0.trials) r =
        order.foldl (threadCallback cb closest (r0.add k) r0.trials) r := by
    intro order
    induction order with
    | nil => intros; rfl
    | cons a rest ih =>
      intro r hcl hsame
      simp only [List.foldl_cons]
      have hstep : threadCallbackLive cb closest r0.folds r0.trials r a =
          threadCallback cb closest (r0.add k) r0.trials r a := by
        unfold threadCallbackLive threadCallback
        have hf : (r0.add k).folds = r0.folds := rfl
        simp only [hf]
        rw [hsame _ _ (hcl a List.mem_cons_self)]
      rw [hstep]
      refine ih _ (fun i hi => hcl i (List.mem_cons_of_mem _ hi)) ?_
      intro c f hc
      unfold threadCallback
      simp only
      rw [get?_store_earlier _ r0.trials _ _ c f _ (Nat.le_add_right _ _) hc]
      exact hsame c f hc
  exact key order (r0.add k) hcl (fun _ _ _ => rfl)

/-! ### the whole run -/

section
open NanoVerif.MLResult NanoVerif.Stats
variable {E α : Type} [Add α] [Sub α] [Mul α] [Div α] [LT α] [LE α] [DecidableLT α] [DecidableLE α]
  [OfNat α 0] [OfNat α 1] [OfNat α 2] [OfNat α 50] [OfNat α 100] [FloorI α] [HasSqrt α]

/-- two histories of batches that differ only in the order in which the pool ran the tasks of each batch -/
def SameBatches (folds : Nat) (b b' : Batch E α) : Prop :=
  b.k = b'.k ∧ b.closest = b'.closest ∧ b.fit = b'.fit ∧ b.order.Perm (List.range (b.k * folds)) ∧
    b'.order.Perm (List.range (b'.k * folds))

theorem foldl_batches_schedule_independent (sort : List α → List α) (folds : Nat) :
    ∀ (bs bs' : List (Batch E α)) (r : Result (Payload E α)), r.folds = folds → List.Forall₂ (SameBatches folds) bs bs' →
      bs.foldl (fun r b => runBatch (cbOf sort b.fit) b.closest r b.k b.order) r =
        bs'.foldl (fun r b => runBatch (cbOf sort b.fit) b.closest r b.k b.order) r := by
  intro bs bs' r hr hall
  induction hall generalizing r with
  | nil => rfl
  | @cons b b' bs bs' hb _ ih =>
    obtain ⟨hk, hc, hf, hp, hp'⟩ := hb
    simp only [List.foldl_cons]
    have hstep : runBatch (cbOf sort b.fit) b.closest r b.k b.order =
        runBatch (cbOf sort b'.fit) b'.closest r b'.k b'.order := by
      rw [← hk, ← hc, ← hf] at *
      exact runBatch_schedule_independent _ _ r b.k b.order b'.order (by rw [hr]; exact hp) (by rw [hr]; rw [← hk] at hp'; exact hp')
    rw [hstep]
    exact ih _ (by rw [(runBatch_slots _ _ r b'.k b'.order).1]; exact hr)

/-- **`ml::tune` is schedule independent**: whatever the order in which the pool runs the (trial, fold) tasks of every batch,
    the `ml::result_t` it fills is the same — every slot, hence every reported statistic, every model-specific datum, the value
    of every trial and the optimum trial. -/
theorem runTune_schedule_independent (sort : List α → List α) (folds : Nat) (bs bs' : List (Batch E α))
    (h : List.Forall₂ (SameBatches folds) bs bs') : runTune sort folds bs = runTune sort folds bs' :=
  foldl_batches_schedule_independent sort folds bs bs' (Result.empty folds) rfl h

end
end NanoVerif.Sharing
