import NanoVerif.Model.SolverStep
import NanoVerif.Proofs.SolverSkeleton
/-!
  C01 — the composed line search inside the solver loop, for EVERY scalar type (no field axioms, so also `Float`):

  * `lsearchGetM_contract`: `lsearch_t::get` modelled as `lsearch0 ∘ lsearchk` (any strategy, any of the five searches, any
    parameter values, any object state, success or failure) leaves a state that is an evaluation of `f` and does not touch the
    status — the contract `LsContract` that `converged_truthful` takes as a hypothesis;
  * `lsLoopS_eq_lsLoop`, `lsMinimizeS_eq_lsMinimize`: the loop with the line-search object threaded through IS the loop of
    `Model/Solver.lean` run with the oracle that answers its `k`-th call from the `k`-th object of the run;
  * `lsearchGetM_state_cases`: what state a call leaves (untouched up to the value counter, or the evaluation at the last trial).
-/
namespace NanoVerif.SolverStep
open NanoVerif.Gen.DoneLogic NanoVerif.Solver
set_option linter.unusedSectionVars false

section
variable {α : Type} [Add α] [Sub α] [Mul α] [Div α] [Neg α] [LT α] [LE α] [DecidableLT α] [DecidableLE α] [∀ n, OfNat α n]

/-- contract of a `get` function on line-search objects: whatever the object, the state left is an evaluation of `f`, the
    status is untouched -/
def GetContract (f : Objective α) (get : Obj α → State α → Vec α → GetOut α) : Prop :=
  ∀ o s d, (Consistent f s → Consistent f (get o s d).state) ∧ (get o s d).state.status = s.status

/-- contract of the slot `lsearchk_t::get` -/
def SlotContract (f : Objective α) (lk : LkSlot α) : Prop :=
  ∀ s d t0, (Consistent f s → Consistent f (lk s d t0).state) ∧ (lk s d t0).state.status = s.status

theorem evalAt_consistent (f : Objective α) (c : State α) (k : Nat) (x : Vec α) : Consistent f (evalAt f c k x) := ⟨rfl, rfl⟩

/-- the state `lsearchk_t::get` leaves: the entry state (nothing evaluated) or the evaluation of `f` at the last trial point -/
theorem lkOfModel_state_cases (env : Env α) (m : LSearch.Method) (cfg : LSearch.Cfg α) (f : Objective α) (c : State α)
    (d : Vec α) (t0 : α) :
    (lkOfModel env m cfg f c d t0).state = c ∨
    ∃ t k, (lkOfModel env m cfg f c d t0).state = evalAt f c k (axpy c.x t d) := by
  unfold lkOfModel
  simp only
  split
  · exact Or.inl rfl
  · exact Or.inr ⟨_, _, rfl⟩

theorem lkOfModel_contract (env : Env α) (m : LSearch.Method) (cfg : LSearch.Cfg α) (f : Objective α) :
    SlotContract f (lkOfModel env m cfg f) := by
  intro c d t0
  rcases lkOfModel_state_cases env m cfg f c d t0 with h | ⟨t, k, h⟩
  · rw [h]; exact ⟨id, rfl⟩
  · rw [h]; exact ⟨fun _ => evalAt_consistent f c k _, rfl⟩

/-- the glue preserves the contract of its slot (the strategy's own evaluation only moves the value counter) -/
theorem lsearchGet_contract (st : Strategy) (P : Params α) (fval : Vec α → α) (f : Objective α) (lk : LkSlot α)
    (h : SlotContract f lk) : GetContract f (lsearchGet st P fval lk) := by
  intro o c d
  exact ⟨fun hc => (h _ d _).1 hc, (h _ d _).2⟩

/-- `lsearch_t::get = lsearch0 ∘ lsearchk` meets the contract, for every strategy, search, parameter value and object state -/
theorem lsearchGetM_contract (env : Env α) (st : Strategy) (P : Params α) (m : LSearch.Method) (cfg : LSearch.Cfg α)
    (f : Objective α) : GetContract f (lsearchGetM env st P m cfg f) :=
  lsearchGet_contract st P _ f _ (lkOfModel_contract env m cfg f)

/-- after ANY call (success or failure): `m_last_step_size` is the step `lsearchk_t::get` handed back, the strategy's members
    are those `lsearch0_t::get` left, and the state is the entry state with the value counter moved by the strategy's own
    evaluation, or the evaluation of `f` at the last trial point `x + t d` -/
theorem lsearchGetM_state_cases (env : Env α) (st : Strategy) (P : Params α) (m : LSearch.Method) (cfg : LSearch.Cfg α)
    (f : Objective α) (o : Obj α) (c : State α) (d : Vec α) :
    let r0 := l0get st P (fun x => (f x).1) o.mem c d o.last
    let c' : State α := { c with fcalls := c.fcalls + r0.extra }
    let out := lsearchGetM env st P m cfg f o c d
    out.t0 = r0.t0 ∧ out.obj.mem = r0.mem ∧ out.obj.last = (lkOfModel env m cfg f c' d r0.t0).t ∧
    (out.state = c' ∨ ∃ t k, out.state = evalAt f c' k (axpy c.x t d)) := by
  intro r0 c' out
  exact ⟨rfl, rfl, rfl, lkOfModel_state_cases env m cfg f c' d r0.t0⟩

/-- the oracle that answers the `i`-th call of a run from the `i`-th object of that run -/
def oracleOfObjs (get : Obj α → State α → Vec α → GetOut α) (objs : List (Obj α)) : Ls α := fun i s d =>
  match objs[i]? with
  | some ob => ((get ob s d).state, (get ob s d).ok)
  | none => (s, false)

theorem oracleOfObjs_contract (f : Objective α) (get : Obj α → State α → Vec α → GetOut α) (h : GetContract f get)
    (objs : List (Obj α)) : LsContract f (oracleOfObjs get objs) := by
  intro k s d
  unfold oracleOfObjs
  split
  · exact h _ s d
  · exact ⟨id, rfl⟩

/-- the loop with the object threaded through equals the oracle loop, for every oracle that agrees with `get` on the objects
    of the run at the positions of the run -/
theorem lsLoopS_eq_lsLoop {M : Type} (env : Env α) (rule : Rule α M) (get : Obj α → State α → Vec α → GetOut α) (eps : α)
    (maxEvals : Nat) : ∀ (fuel k : Nat) (m : M) (o : Obj α) (p c : State α) (ls : Ls α),
    (∀ (j : Nat) (ob : Obj α), (lsLoopS env rule get eps maxEvals fuel m o p c).2[j]? = some ob →
      ∀ s d, ls (k + j) s d = ((get ob s d).state, (get ob s d).ok)) →
    lsLoop env rule ls eps maxEvals fuel k m p c = (lsLoopS env rule get eps maxEvals fuel m o p c).1 := by
  intro fuel
  induction fuel with
  | zero => intro k m o p c ls _; rfl
  | succ fuel ih =>
    intro k m o p c ls h
    by_cases hg : rule.guard c.fcalls c.gcalls maxEvals = true
    · by_cases hstop : (done env (get o c (rule.direction m p c).1).state (get o c (rule.direction m p c).1).ok
          (rule.conv (gradientTestS (get o c (rule.direction m p c).1).state) eps)).2 = true
      · simp only [lsLoopS, hg, if_true, hstop] at h
        have h0 := h 0 o (by simp) c (rule.direction m p c).1
        simp only [Nat.add_zero] at h0
        simp only [lsLoop, lsLoopS, hg, if_true, h0, hstop]
      · have hstop' : (done env (get o c (rule.direction m p c).1).state (get o c (rule.direction m p c).1).ok
            (rule.conv (gradientTestS (get o c (rule.direction m p c).1).state) eps)).2 = false := by simpa using hstop
        simp only [lsLoopS, hg, if_true, hstop', Bool.false_eq_true, if_false] at h
        have h0 := h 0 o (by simp) c (rule.direction m p c).1
        simp only [Nat.add_zero] at h0
        have hrec := ih (k + 1) (rule.update (rule.direction m p c).2 c
            (done env (get o c (rule.direction m p c).1).state (get o c (rule.direction m p c).1).ok
              (rule.conv (gradientTestS (get o c (rule.direction m p c).1).state) eps)).1)
          (get o c (rule.direction m p c).1).obj c
          (done env (get o c (rule.direction m p c).1).state (get o c (rule.direction m p c).1).ok
              (rule.conv (gradientTestS (get o c (rule.direction m p c).1).state) eps)).1 ls
          (fun j ob hj s d => by
            have := h (j + 1) ob (by simpa using hj) s d
            have e : k + 1 + j = k + (j + 1) := by omega
            rw [e]; exact this)
        simp only [lsLoop, lsLoopS, hg, if_true, h0, hstop', Bool.false_eq_true, if_false, hrec]
    · simp only [lsLoop, lsLoopS, hg]
      rfl

/-- `lsRunS` is `lsRun` with the oracle built from the objects of the run -/
theorem lsRunS_eq_lsRun {M : Type} (env : Env α) (rule : Rule α M) (get : Obj α → State α → Vec α → GetOut α) (eps : α)
    (maxEvals fuel : Nat) (c0 : State α) :
    ∃ objs : List (Obj α), lsRunS env rule get eps maxEvals fuel c0 = (lsRun env rule (oracleOfObjs get objs) eps maxEvals fuel c0).1 := by
  refine ⟨(lsLoopS env rule get eps maxEvals fuel rule.init Obj.init
    (done env c0 true (rule.convInit (gradientTestS c0) eps)).1 (done env c0 true (rule.convInit (gradientTestS c0) eps)).1).2, ?_⟩
  unfold lsRunS lsRun
  simp only
  split
  · rfl
  · rw [lsLoopS_eq_lsLoop env rule get eps maxEvals fuel 0 rule.init Obj.init _ _ _
      (fun j ob hj s d => by simp only [oracleOfObjs, Nat.zero_add, hj])]

/-- `solver_t::minimize` with the whole line search modelled is `solver_t::minimize` of `Model/Solver.lean` with a line-search
    oracle that meets the contract -/
theorem lsMinimizeS_eq_lsMinimize {M : Type} (env : Env α) (rule : Rule α M) (st : Strategy) (P : Params α)
    (m : LSearch.Method) (cfg : LSearch.Cfg α) (f : Objective α) (eps : α) (maxEvals fuel : Nat) (x0 : Vec α) :
    ∃ ls : Ls α, LsContract f ls ∧
      lsMinimizeS env rule st P m cfg f eps maxEvals fuel x0 = lsMinimize env rule ls f eps maxEvals fuel x0 := by
  obtain ⟨objs, h⟩ := lsRunS_eq_lsRun env rule (lsearchGetM env st P m cfg f) eps maxEvals fuel (initState f x0)
  exact ⟨oracleOfObjs (lsearchGetM env st P m cfg f) objs,
    oracleOfObjs_contract f _ (lsearchGetM_contract env st P m cfg f) objs, h⟩

end
end NanoVerif.SolverStep
