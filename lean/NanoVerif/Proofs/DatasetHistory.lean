import NanoVerif.Proofs.DatasetFlatten
/-!
  C08 — drop / shuffle flags: the concrete operations implement the documented flag rule
  Helper lemmas for `Props/C08.lean` (core Lean only; no Mathlib). Generated once from the development files; edit here.
-/
namespace NanoVerif.Dataset
open NanoVerif.Tensor NanoVerif.Mask

/-! ### drop / shuffle flags -/

/-- the state of a generated feature as far as the views are concerned -/
inductive Flag
  | none
  | dropped
  | shuffled (p : List Nat)
deriving DecidableEq, Repr

/-- read the flag byte and the stored permutation of feature `i` (generator.cpp:65-82) -/
def Gen.flagOf (g : Gen) (i : Nat) : Flag :=
  if g.infos.getD i 0 = 1 then .dropped
  else if g.infos.getD i 0 = 2 then .shuffled ((g.shuffles.lookup i).getD [])
  else .none

/-- the flag of dataset feature `f` -/
def Dataset.flag (ds : Dataset) (f : Nat) : Flag :=
  match ds.featMap[f]? with
  | some (gi, i) => match ds.gens[gi]? with
    | some g => g.flagOf i
    | none => .none
  | none => .none

/-- **the documented effect of the history operations on the flags**: `drop f` / `shuffle f` set the flag of exactly feature
    `f` (one flag per feature: the last call wins), `undrop` and `unshuffle` clear every flag, an invalid feature index
    throws and changes nothing -/
def absStep (n : Nat) (F : Nat → Flag) : HOp → Nat → Flag
  | .drop f => if f < n then (fun x => if x = f then .dropped else F x) else F
  | .undrop => fun _ => .none
  | .shuffle f p => if f < n then (fun x => if x = f then .shuffled p else F x) else F
  | .unshuffle => fun _ => .none

def absRun (n : Nat) (F : Nat → Flag) (ops : List HOp) : Nat → Flag := ops.foldl (absStep n) F

theorem shouldDrop_flag (g : Gen) (i : Nat) : g.shouldDrop i = decide (g.flagOf i = .dropped) := by
  unfold Gen.shouldDrop Gen.flagOf
  generalize g.infos.getD i 0 = x
  by_cases h1 : x = 1
  · subst h1; simp
  · by_cases h2 : x = 2
    · subst h2; simp
    · simp [h1, h2]

theorem shuffledAll_flag (g : Gen) (i : Nat) :
    g.shuffledAll i = (match g.flagOf i with | .shuffled p => p | _ => []) := by
  unfold Gen.shuffledAll Gen.flagOf
  generalize g.infos.getD i 0 = x
  by_cases h1 : x = 1
  · subst h1; simp
  · by_cases h2 : x = 2
    · subst h2; simp
    · simp [h1, h2]

section
variable {α : Type} [Scalar α]

/-- the view of a harness-defined computer's feature whose results over the sample list are `vals` (`none` = missing):
    labels / hit rows / scalars / `(3, 1, 1)` tensors with the missing markers −1 / NaN -/
def customView (o : Overload) (vals : List (Option (List Int))) : View α :=
  match o with
  | .sclass => .sclass (vals.map encSclass)
  | .mclass => .mclass 2 (vals.map (encMclass 2))
  | .scalar => .scalar (vals.map encScalar)
  | .struct => .struct 3 1 1 (vals.map (encStruct 3))

def customDropped (o : Overload) (n : Nat) : View α :=
  match o with
  | .sclass => .sclass (List.replicate n (-1))
  | .mclass => .mclass 2 (List.replicate n (List.replicate 2 (-1)))
  | .scalar => .scalar (List.replicate n Scalar.nan)
  | .struct => .struct 3 1 1 (List.replicate n (List.replicate 3 Scalar.nan))

/-- the per-feature view without any flag: the stored values (resp. products) over the sample list -/
def plainView (st : Storage) (k : GKind) (m : FMap) (ss : List Nat) : View α :=
  match k with
  | .product => .scalar (ss.map (fun s =>
      productOf (st.stored (st.inputIndex m.orig) s) (st.stored (st.inputIndex m.orig2) s)))
  | .gradient kk => .struct m.d0 m.d1 m.d2 (ss.map (fun s =>
      encGradient kk ((st.inputFeature m.orig).getD default) m (st.stored (st.inputIndex m.orig) s)))
  | .custom c => customView c.out (derived st c m [] ss)
  | _ => viewOf k m (ss.map (fun s => st.stored (st.inputIndex m.orig) s))

/-- the view of a dropped feature: every entry is the missing marker -/
def droppedView (k : GKind) (m : FMap) (n : Nat) : View α :=
  match k with
  | .sclassId => .sclass (List.replicate n (-1))
  | .mclassId => .mclass m.classes (List.replicate n (List.replicate m.classes (-1)))
  | .scalarId => .scalar (List.replicate n Scalar.nan)
  | .structId => .struct m.d0 m.d1 m.d2 (List.replicate n (List.replicate (m.d0 * m.d1 * m.d2) Scalar.nan))
  | .product => .scalar (List.replicate n Scalar.nan)
  | .gradient _ => .struct m.d0 m.d1 m.d2 (List.replicate n (List.replicate (m.d0 * m.d1 * m.d2) Scalar.nan))
  | .custom c => customDropped c.out n

/-- **the spec view under a flag**: dropped → all missing; shuffled by `p` → the plain view of the samples `p[s]`;
    no flag → the plain view -/
def specSelect (st : Storage) (k : GKind) (m : FMap) (fl : Flag) (ss : List Nat) : View α :=
  match fl with
  | .dropped => droppedView k m ss.length
  | .shuffled p => plainView st k m (ss.map (iterSample p))
  | .none => plainView st k m ss

theorem iterate_eq (st : Storage) (orig : Nat) (sh ss : List Nat) :
    iterate st orig sh ss = (ss.map (iterSample sh)).map (fun s => st.stored (st.inputIndex orig) s) := by
  simp [iterate, List.map_map, Function.comp]

theorem map_iterSample_nil (ss : List Nat) : ss.map (iterSample []) = ss := by
  induction ss with
  | nil => rfl
  | cons s ss ih => simp [List.map_cons, ih, iterSample_nil]

/-- reading through a permutation = reading the permuted sample list -/
theorem derived_shuffled (st : Storage) (c : Custom) (m : FMap) (p ss : List Nat) :
    derived st c m p ss = derived st c m [] (ss.map (iterSample p)) := by
  unfold derived
  cases c.in2 <;> simp [iterate, iterate2, List.map_map, Function.comp, iterSample_nil]

/-- the generator's `select` reads its state only through the flag of the feature -/
theorem select_by_flag (st : Storage) (g : Gen) (i : Nat) (m : FMap) (hm : g.mapping[i]? = some m) (ss : List Nat) :
    g.select (α := α) st i ss = some (specSelect st g.kind m (g.flagOf i) ss) := by
  unfold Gen.select
  simp only [hm, Option.bind_eq_bind, Option.bind_some, shouldDrop_flag, shuffledAll_flag]
  cases hfl : g.flagOf i with
  | dropped =>
    cases hk : g.kind with
    | custom c => cases ho : c.out <;> simp [specSelect, droppedView, customDropped, ho]
    | _ => simp [specSelect, droppedView]
  | none =>
    cases hk : g.kind with
    | custom c => cases ho : c.out <;> simp [specSelect, plainView, customView, ho]
    | _ =>
      simp [specSelect, plainView, viewOf, iterate, iterate2, iterSample, List.map_map, Function.comp, productOf,
        encProduct] <;>
      (intro s _
       cases st.stored (st.inputIndex m.orig) s <;> cases st.stored (st.inputIndex m.orig2) s <;> rfl)
  | shuffled p =>
    cases hk : g.kind with
    | custom c =>
      cases ho : c.out <;> simp [specSelect, plainView, customView, ho, derived_shuffled st c m p ss]
    | _ =>
      simp [specSelect, plainView, viewOf, iterate, iterate2, List.map_map, Function.comp, productOf, encProduct] <;>
      (intro s _
       cases st.stored (st.inputIndex m.orig) (iterSample p s) <;>
         cases st.stored (st.inputIndex m.orig2) (iterSample p s) <;> rfl)

end

/-! ### the concrete operations implement `absStep` -/

theorem flagOf_undrop (g : Gen) (i : Nat) : g.undrop.flagOf i = .none := by
  unfold Gen.undrop Gen.flagOf
  have : (g.infos.map (fun _ => 0)).getD i 0 = 0 := by
    rw [List.getD_eq_getElem?_getD, List.getElem?_map]
    cases g.infos[i]? <;> rfl
  simp only []
  rw [this]
  rfl

theorem flagOf_unshuffle (g : Gen) (i : Nat) : g.unshuffle.flagOf i = .none := by
  unfold Gen.unshuffle Gen.flagOf
  have : (g.infos.map (fun _ => 0)).getD i 0 = 0 := by
    rw [List.getD_eq_getElem?_getD, List.getElem?_map]
    cases g.infos[i]? <;> rfl
  simp only []
  rw [this]
  rfl

theorem getD_set_infos (l : List Nat) (i0 i v : Nat) (h : i0 < l.length) :
    (l.set i0 v).getD i 0 = if i = i0 then v else l.getD i 0 := by
  rw [List.getD_eq_getElem?_getD, List.getD_eq_getElem?_getD, List.getElem?_set]
  by_cases hi : i0 = i
  · subst hi; simp [h]
  · have : ¬ i = i0 := fun e => hi e.symm
    simp [hi, this]

theorem flagOf_drop (g : Gen) (i0 i : Nat) (h : i0 < g.infos.length) :
    (g.drop i0).flagOf i = if i = i0 then .dropped else g.flagOf i := by
  unfold Gen.drop Gen.flagOf
  simp only [getD_set_infos _ _ _ _ h]
  by_cases hi : i = i0 <;> simp [hi]

theorem flagOf_shuffle (g : Gen) (i0 i : Nat) (p : List Nat) (h : i0 < g.infos.length) :
    (g.shuffle i0 p).flagOf i = if i = i0 then .shuffled p else g.flagOf i := by
  unfold Gen.shuffle Gen.flagOf
  simp only [getD_set_infos _ _ _ _ h]
  by_cases hi : i = i0
  · subst hi; simp [List.lookup]
  · have : (i == i0) = false := by simpa using hi
    simp [hi, List.lookup, this]

/-! ### the flag operations keep the schema of the generators -/

theorem featMapFrom_map_gens (φ : Gen → Gen) (hφ : ∀ g, (φ g).features = g.features) : ∀ (k : Nat) (gens : List Gen),
    featMapFrom k (gens.map φ) = featMapFrom k gens
  | _, [] => rfl
  | k, g :: gs => by
    simp only [List.map_cons, featMapFrom, hφ, featMapFrom_map_gens φ hφ (k + 1) gs]

theorem featMapFrom_modify (φ : Gen → Gen) (hφ : ∀ g, (φ g).features = g.features) : ∀ (k j : Nat) (gens : List Gen),
    featMapFrom k (gens.modify j φ) = featMapFrom k gens
  | _, j, [] => by cases j <;> rfl
  | k, 0, g :: gs => by simp [featMapFrom, hφ]
  | k, j + 1, g :: gs => by
    simp only [List.modify_succ_cons, featMapFrom, featMapFrom_modify φ hφ (k + 1) j gs]

theorem featMapFrom_fst_ge : ∀ (k : Nat) (gens : List Gen) (f : Nat) (p : Nat × Nat),
    (featMapFrom k gens)[f]? = some p → k ≤ p.1 := by
  intro k gens f p h
  exact (featMapFrom_getElem? k gens f p.1 p.2 (by simpa using h)).1

/-- distinct dataset features are distinct (generator, local feature) pairs -/
theorem featMapFrom_inj : ∀ (k : Nat) (gens : List Gen) (f f' : Nat) (p : Nat × Nat),
    (featMapFrom k gens)[f]? = some p → (featMapFrom k gens)[f']? = some p → f = f'
  | _, [], _, _, _, h, _ => by simp [featMapFrom] at h
  | k, g :: gs, f, f', p, h, h' => by
    unfold featMapFrom at h h'
    by_cases hf : f < g.features
    · rw [List.getElem?_append_left (by simpa using hf)] at h
      simp only [List.getElem?_map, List.getElem?_range hf, Option.map_some, Option.some.injEq] at h
      by_cases hf' : f' < g.features
      · rw [List.getElem?_append_left (by simpa using hf')] at h'
        simp only [List.getElem?_map, List.getElem?_range hf', Option.map_some, Option.some.injEq] at h'
        rw [← h] at h'
        simpa using h'.symm
      · rw [List.getElem?_append_right (by simpa using hf')] at h'
        have := featMapFrom_fst_ge (k + 1) gs _ p h'
        rw [← h] at this
        simp only at this
        omega
    · rw [List.getElem?_append_right (by simpa using hf)] at h
      by_cases hf' : f' < g.features
      · rw [List.getElem?_append_left (by simpa using hf')] at h'
        simp only [List.getElem?_map, List.getElem?_range hf', Option.map_some, Option.some.injEq] at h'
        have := featMapFrom_fst_ge (k + 1) gs _ p h
        rw [← h'] at this
        simp only at this
        omega
      · rw [List.getElem?_append_right (by simpa using hf')] at h'
        have := featMapFrom_inj (k + 1) gs _ _ p h h'
        simp only [List.length_map, List.length_range] at this
        omega

/-- the flag bytes cover exactly the features -/
def FlagsOk (ds : Dataset) : Prop := ∀ g ∈ ds.gens, g.infos.length = g.mapping.length

theorem flagsOk_of_wf (ds : Dataset) (h : ds.WF) : FlagsOk ds := fun g hg => (h.gens g hg).infos_len

theorem checkFeature_ofNat (ds : Dataset) (f : Nat) :
    ds.checkFeature (Int.ofNat f) = if f < ds.features then some f else none := by
  unfold Dataset.checkFeature
  by_cases h : f < ds.features
  · rw [if_pos ⟨by simp, by simpa using h⟩, if_pos h]; simp
  · rw [if_neg (by intro hh; exact h (by simpa using hh.2)), if_neg h]

/-- what one flag operation on feature `f0` does to the dataset -/
theorem onFeature_spec (ds : Dataset) (hok : FlagsOk ds) (f0 : Nat) (op : Gen → Nat → Gen)
    (hfeat : ∀ g i, (op g i).features = g.features) :
    (f0 < ds.features → ∃ gi i g, ds.featMap[f0]? = some (gi, i) ∧ ds.gens[gi]? = some g ∧ i < g.infos.length ∧
      ds.onFeature (Int.ofNat f0) op = some { ds with gens := ds.gens.modify gi (fun g => op g i) }) ∧
    (¬ f0 < ds.features → ds.onFeature (Int.ofNat f0) op = none) := by
  constructor
  · intro hf
    have hf' : f0 < ds.featMap.length := hf
    have hfm : ds.featMap[f0]? = some ((ds.featMap[f0]'hf').1, (ds.featMap[f0]'hf').2) := by
      rw [List.getElem?_eq_getElem hf']
    obtain ⟨_, g, hg, hi⟩ := featMapFrom_getElem? 0 ds.gens f0 _ _ hfm
    simp only [Nat.sub_zero] at hg
    refine ⟨_, _, g, hfm, hg, ?_, ?_⟩
    · rw [hok g (List.mem_of_getElem? hg)]; exact hi
    · unfold Dataset.onFeature
      rw [checkFeature_ofNat, if_pos hf]
      simp [hfm]
  · intro hf
    unfold Dataset.onFeature
    rw [checkFeature_ofNat, if_neg hf]
    rfl

theorem flag_modify (ds : Dataset) (gi0 : Nat) (φ : Gen → Gen) (hφ : ∀ g, (φ g).features = g.features) (f : Nat) :
    ({ ds with gens := ds.gens.modify gi0 φ } : Dataset).flag f =
      match ds.featMap[f]? with
      | some (gi, i) => match ds.gens[gi]? with
        | some g => if gi0 = gi then (φ g).flagOf i else g.flagOf i
        | none => .none
      | none => .none := by
  unfold Dataset.flag Dataset.featMap
  simp only [featMapFrom_modify φ hφ]
  cases hfm : (featMapFrom 0 ds.gens)[f]? with
  | none => rfl
  | some p =>
    obtain ⟨gi, i⟩ := p
    simp only [List.getElem?_modify]
    by_cases hgi : gi0 = gi
    · subst hgi
      cases hg : ds.gens[gi0]? <;> simp [hg]
    · cases hg : ds.gens[gi]? <;> simp [hgi, hg]

/-- **one operation**: the flags after a concrete `drop / undrop / shuffle / unshuffle` are the documented ones -/
theorem step_flag (ds : Dataset) (hok : FlagsOk ds) (op : HOp) (f : Nat) :
    (ds.step op).flag f = absStep ds.features ds.flag op f := by
  cases op with
  | undrop =>
    simp only [Dataset.step, absStep, Dataset.undrop, Dataset.flag, Dataset.featMap,
      featMapFrom_map_gens Gen.undrop (fun _ => rfl)]
    cases hfm : (featMapFrom 0 ds.gens)[f]? with
    | none => rfl
    | some p =>
      simp only [List.getElem?_map]
      cases hg : ds.gens[p.1]? <;> simp [flagOf_undrop]
  | unshuffle =>
    simp only [Dataset.step, absStep, Dataset.unshuffle, Dataset.flag, Dataset.featMap,
      featMapFrom_map_gens Gen.unshuffle (fun _ => rfl)]
    cases hfm : (featMapFrom 0 ds.gens)[f]? with
    | none => rfl
    | some p =>
      simp only [List.getElem?_map]
      cases hg : ds.gens[p.1]? <;> simp [flagOf_unshuffle]
  | drop f0 =>
    obtain ⟨h1, h2⟩ := onFeature_spec ds hok f0 Gen.drop (fun _ _ => rfl)
    simp only [Dataset.step, Dataset.drop, absStep]
    by_cases hf0 : f0 < ds.features
    · obtain ⟨gi0, i0, g0, hfm0, hg0, hi0, hon⟩ := h1 hf0
      rw [hon, if_pos hf0]
      simp only [Option.getD_some]
      rw [flag_modify ds gi0 (fun g => g.drop i0) (fun _ => rfl) f]
      by_cases hff : f = f0
      · subst hff
        simp [hfm0, hg0, flagOf_drop _ _ _ hi0]
      · simp only [hff, if_false]
        unfold Dataset.flag
        cases hfm : ds.featMap[f]? with
        | none => rfl
        | some p =>
          obtain ⟨gi, i⟩ := p
          cases hg : ds.gens[gi]? with
          | none => simp only [hg]
          | some g =>
            by_cases hgi : gi0 = gi
            · subst hgi
              have hgg : g = g0 := by rw [hg0] at hg; cases hg; rfl
              subst hgg
              have hne : i ≠ i0 := by
                intro hi
                subst hi
                exact hff (featMapFrom_inj 0 ds.gens f f0 _ hfm hfm0)
              simp only [hg, if_true, flagOf_drop _ _ _ hi0, hne, if_false]
            · simp only [hg, hgi, if_false]
    · rw [h2 hf0, if_neg hf0]
      rfl
  | shuffle f0 p =>
    obtain ⟨h1, h2⟩ := onFeature_spec ds hok f0 (fun g i => g.shuffle i p) (fun _ _ => rfl)
    simp only [Dataset.step, Dataset.shuffle, absStep]
    by_cases hf0 : f0 < ds.features
    · obtain ⟨gi0, i0, g0, hfm0, hg0, hi0, hon⟩ := h1 hf0
      rw [hon, if_pos hf0]
      simp only [Option.getD_some]
      rw [flag_modify ds gi0 (fun g => g.shuffle i0 p) (fun _ => rfl) f]
      by_cases hff : f = f0
      · subst hff
        simp [hfm0, hg0, flagOf_shuffle _ _ _ _ hi0]
      · simp only [hff, if_false]
        unfold Dataset.flag
        cases hfm : ds.featMap[f]? with
        | none => rfl
        | some q =>
          obtain ⟨gi, i⟩ := q
          cases hg : ds.gens[gi]? with
          | none => simp only [hg]
          | some g =>
            by_cases hgi : gi0 = gi
            · subst hgi
              have hgg : g = g0 := by rw [hg0] at hg; cases hg; rfl
              subst hgg
              have hne : i ≠ i0 := by
                intro hi
                subst hi
                exact hff (featMapFrom_inj 0 ds.gens f f0 _ hfm hfm0)
              simp only [hg, if_true, flagOf_shuffle _ _ _ _ hi0, hne, if_false]
            · simp only [hg, hgi, if_false]
    · rw [h2 hf0, if_neg hf0]
      rfl

/-! ### histories -/

theorem gen_wf_drop (st : Storage) (g : Gen) (i : Nat) (h : g.WF st) : (g.drop i).WF st :=
  ⟨by simpa [Gen.drop] using h.infos_len, h.rows, h.rows2⟩
theorem gen_wf_shuffle (st : Storage) (g : Gen) (i : Nat) (p : List Nat) (h : g.WF st) : (g.shuffle i p).WF st :=
  ⟨by simpa [Gen.shuffle] using h.infos_len, h.rows, h.rows2⟩
theorem gen_wf_undrop (st : Storage) (g : Gen) (h : g.WF st) : g.undrop.WF st :=
  ⟨by simpa [Gen.undrop] using h.infos_len, h.rows, h.rows2⟩
theorem gen_wf_unshuffle (st : Storage) (g : Gen) (h : g.WF st) : g.unshuffle.WF st :=
  ⟨by simpa [Gen.unshuffle] using h.infos_len, h.rows, h.rows2⟩

/-- the part of a generator the flag operations never touch -/
def Gen.shape (g : Gen) : GKind × List FMap := (g.kind, g.mapping)

theorem mem_modify {β : Type} (l : List β) (j : Nat) (φ : β → β) (x : β) (hx : x ∈ l.modify j φ) :
    x ∈ l ∨ ∃ y ∈ l, x = φ y := by
  obtain ⟨k, hk, rfl⟩ := List.getElem_of_mem hx
  have := List.getElem?_eq_getElem hk
  rw [List.getElem?_modify] at this
  by_cases hj : j = k
  · subst hj
    simp only [if_true] at this
    cases hl : l[j]? with
    | none => simp [hl] at this
    | some y =>
      simp only [hl, Option.map_eq_map, Option.map_some, Option.some.injEq] at this
      exact Or.inr ⟨y, List.mem_of_getElem? hl, this.symm⟩
  · simp only [hj, if_false, Option.map_eq_map] at this
    cases hl : l[k]? with
    | none => simp [hl] at this
    | some y =>
      simp only [hl, Option.map_some, Option.some.injEq] at this
      rw [← this]
      exact Or.inl (List.mem_of_getElem? hl)

/-- one operation keeps the storage, the schema of every generator and well-formedness -/
theorem step_keeps (ds : Dataset) (hwf : ds.WF) (op : HOp) :
    (ds.step op).st = ds.st ∧ (ds.step op).WF ∧ (ds.step op).featMap = ds.featMap ∧
    (∀ (gi : Nat) (g : Gen), ds.gens[gi]? = some g → ∃ g', (ds.step op).gens[gi]? = some g' ∧ g'.shape = g.shape) := by
  have hok := flagsOk_of_wf ds hwf
  cases op with
  | undrop =>
    refine ⟨rfl, ⟨hwf.st, ?_⟩, ?_, ?_⟩
    · intro g hg
      simp only [Dataset.step, Dataset.undrop, List.mem_map] at hg
      obtain ⟨g0, hg0, rfl⟩ := hg
      exact gen_wf_undrop _ _ (hwf.gens g0 hg0)
    · simp [Dataset.step, Dataset.undrop, Dataset.featMap, featMapFrom_map_gens Gen.undrop (fun _ => rfl)]
    · intro gi g hg
      exact ⟨g.undrop, by simp [Dataset.step, Dataset.undrop, hg], rfl⟩
  | unshuffle =>
    refine ⟨rfl, ⟨hwf.st, ?_⟩, ?_, ?_⟩
    · intro g hg
      simp only [Dataset.step, Dataset.unshuffle, List.mem_map] at hg
      obtain ⟨g0, hg0, rfl⟩ := hg
      exact gen_wf_unshuffle _ _ (hwf.gens g0 hg0)
    · simp [Dataset.step, Dataset.unshuffle, Dataset.featMap, featMapFrom_map_gens Gen.unshuffle (fun _ => rfl)]
    · intro gi g hg
      exact ⟨g.unshuffle, by simp [Dataset.step, Dataset.unshuffle, hg], rfl⟩
  | drop f0 =>
    obtain ⟨h1, h2⟩ := onFeature_spec ds hok f0 Gen.drop (fun _ _ => rfl)
    by_cases hf0 : f0 < ds.features
    · obtain ⟨gi0, i0, g0, _, _, _, hon⟩ := h1 hf0
      have hstep : ds.step (.drop f0) = { ds with gens := ds.gens.modify gi0 (fun g => g.drop i0) } := by
        simp only [Dataset.step, Dataset.drop, hon, Option.getD_some]
      rw [hstep]
      refine ⟨rfl, ⟨hwf.st, ?_⟩, ?_, ?_⟩
      · intro g hg
        rcases mem_modify _ _ _ _ hg with hg | ⟨y, hy, rfl⟩
        · exact hwf.gens g hg
        · exact gen_wf_drop _ _ _ (hwf.gens y hy)
      · simp [Dataset.featMap, featMapFrom_modify (fun g => g.drop i0) (fun _ => rfl)]
      · intro gi g hg
        simp only [List.getElem?_modify]
        by_cases hgi : gi0 = gi
        · subst hgi; exact ⟨g.drop i0, by simp [hg], rfl⟩
        · exact ⟨g, by simp [hgi, hg], rfl⟩
    · have hstep : ds.step (.drop f0) = ds := by
        simp only [Dataset.step, Dataset.drop, h2 hf0, Option.getD_none]
      rw [hstep]
      exact ⟨rfl, hwf, rfl, fun gi g hg => ⟨g, hg, rfl⟩⟩
  | shuffle f0 p =>
    obtain ⟨h1, h2⟩ := onFeature_spec ds hok f0 (fun g i => g.shuffle i p) (fun _ _ => rfl)
    by_cases hf0 : f0 < ds.features
    · obtain ⟨gi0, i0, g0, _, _, _, hon⟩ := h1 hf0
      have hstep : ds.step (.shuffle f0 p) = { ds with gens := ds.gens.modify gi0 (fun g => g.shuffle i0 p) } := by
        simp only [Dataset.step, Dataset.shuffle, hon, Option.getD_some]
      rw [hstep]
      refine ⟨rfl, ⟨hwf.st, ?_⟩, ?_, ?_⟩
      · intro g hg
        rcases mem_modify _ _ _ _ hg with hg | ⟨y, hy, rfl⟩
        · exact hwf.gens g hg
        · exact gen_wf_shuffle _ _ _ _ (hwf.gens y hy)
      · simp [Dataset.featMap, featMapFrom_modify (fun g => g.shuffle i0 p) (fun _ => rfl)]
      · intro gi g hg
        simp only [List.getElem?_modify]
        by_cases hgi : gi0 = gi
        · subst hgi; exact ⟨g.shuffle i0 p, by simp [hg], rfl⟩
        · exact ⟨g, by simp [hgi, hg], rfl⟩
    · have hstep : ds.step (.shuffle f0 p) = ds := by
        simp only [Dataset.step, Dataset.shuffle, h2 hf0, Option.getD_none]
      rw [hstep]
      exact ⟨rfl, hwf, rfl, fun gi g hg => ⟨g, hg, rfl⟩⟩

theorem run_keeps (ops : List HOp) : ∀ (ds : Dataset), ds.WF →
    (ds.run ops).st = ds.st ∧ (ds.run ops).WF ∧ (ds.run ops).featMap = ds.featMap ∧
    (∀ (gi : Nat) (g : Gen), ds.gens[gi]? = some g → ∃ g', (ds.run ops).gens[gi]? = some g' ∧ g'.shape = g.shape) ∧
    (∀ f, (ds.run ops).flag f = absRun ds.features ds.flag ops f) := by
  induction ops with
  | nil => intro ds hwf; exact ⟨rfl, hwf, rfl, fun gi g hg => ⟨g, hg, rfl⟩, fun f => rfl⟩
  | cons op ops ih =>
    intro ds hwf
    obtain ⟨h1, h2, h3, h4⟩ := step_keeps ds hwf op
    obtain ⟨i1, i2, i3, i4, i5⟩ := ih (ds.step op) h2
    have hfeat : (ds.step op).features = ds.features := by simp [Dataset.features, h3]
    refine ⟨by simpa [Dataset.run, h1] using i1, i2, by simpa [Dataset.run, h3] using i3, ?_, ?_⟩
    · intro gi g hg
      obtain ⟨g1, hg1, hs1⟩ := h4 gi g hg
      obtain ⟨g2, hg2, hs2⟩ := i4 gi g1 hg1
      exact ⟨g2, hg2, hs2.trans hs1⟩
    · intro f
      have := i5 f
      simp only [Dataset.run, List.foldl_cons, absRun] at this ⊢
      rw [this, hfeat]
      have hfun : (ds.step op).flag = absStep ds.features ds.flag op := by
        funext x
        exact step_flag ds (flagsOk_of_wf ds hwf) op x
      rw [hfun]

section
variable {α : Type} [Scalar α]

/-- a dataset straight after `add` has no flag set -/
theorem flag_fresh (ds : Dataset) (h : ∀ g ∈ ds.gens, ∀ i, g.infos.getD i 0 = 0) (f : Nat) : ds.flag f = .none := by
  unfold Dataset.flag
  cases hfm : ds.featMap[f]? with
  | none => rfl
  | some p =>
    cases hg : ds.gens[p.1]? with
    | none => simp [hg]
    | some g =>
      have := h g (List.mem_of_getElem? hg) p.2
      simp only [hg, Gen.flagOf]
      rw [this]
      rfl

theorem getD_of_perm_range (p : List Nat) (N : Nat) (hp : p.Perm (List.range N)) :
    p.length = N ∧ (List.range N).map (fun s => p.getD s 0) = p := by
  have hl : p.length = N := by simpa using hp.length_eq
  refine ⟨hl, ?_⟩
  apply List.ext_getElem
  · simp [hl]
  · intro k h1 h2
    simp [List.getD_eq_getElem?_getD, List.getElem?_eq_getElem h2]

end

/-! ### the hypotheses of the theorems are what `resize` / `set` / `add` establish -/

theorem fit_infos (st : Storage) (k : GKind) (l1 l2 : List Nat) (g : Gen) (h : fit st k l1 l2 = some g) :
    g.infos = List.replicate g.mapping.length 0 := by
  unfold fit at h
  cases k with
  | product =>
    simp only [Option.bind_eq_bind, Option.pure_def] at h
    cases h1 : selectFeatures st (kindAccepts .product) l1 with
    | none => simp [h1] at h
    | some m1 =>
      cases h2 : selectFeatures st (kindAccepts .product) l2 with
      | none => simp [h1, h2] at h
      | some m2 => simp [h1, h2] at h; subst h; rfl
  | custom c =>
    simp only [Option.bind_eq_bind, Option.pure_def] at h
    cases hc2 : c.in2 with
    | none =>
      simp only [hc2] at h
      cases h1 : selectFeatures st (kindAccepts (.custom c)) l1 with
      | none => rw [h1] at h; simp at h
      | some m1 => rw [h1] at h; simp only [Option.bind_some, Option.some.injEq] at h; subst h; rfl
    | some k2 =>
      simp only [hc2] at h
      cases h1 : selectFeatures st (kindAccepts (.custom c)) l1 with
      | none => simp [h1] at h
      | some m1 =>
        cases h2 : selectFeatures st k2.accepts l2 with
        | none => simp [h1, h2] at h
        | some m2 => simp [h1, h2] at h; subst h; rfl
  | sclassId | mclassId | scalarId | structId | gradient _ =>
    all_goals
      simp only [Option.bind_eq_bind, Option.pure_def] at h
      cases h1 : selectFeatures st (kindAccepts _) l1 with
      | none => rw [h1] at h; simp at h
      | some m1 => rw [h1] at h; simp only [Option.bind_some, Option.some.injEq] at h; subst h; rfl

theorem add_wf (ds ds' : Dataset) (k : GKind) (l1 l2 : List Nat) (h : ds.WF) (hadd : ds.add k l1 l2 = some ds') :
    ds'.WF ∧ ds'.st = ds.st ∧
    ((∀ g ∈ ds.gens, ∀ i, g.infos.getD i 0 = 0) → ∀ g ∈ ds'.gens, ∀ i, g.infos.getD i 0 = 0) := by
  unfold Dataset.add at hadd
  cases hfit : fit ds.st k l1 l2 with
  | none => simp [hfit] at hadd
  | some g =>
    simp only [hfit, Option.bind_eq_bind, Option.bind_some, Option.pure_def, Option.some.injEq] at hadd
    subst hadd
    refine ⟨⟨h.st, ?_⟩, rfl, ?_⟩
    · intro g' hg'
      rcases List.mem_append.1 hg' with hg' | hg'
      · exact h.gens g' hg'
      · simp only [List.mem_singleton] at hg'
        subst hg'
        exact fit_wf ds.st k l1 l2 _ hfit
    · intro hz g' hg' i
      rcases List.mem_append.1 hg' with hg' | hg'
      · exact hz g' hg' i
      · simp only [List.mem_singleton] at hg'
        subst hg'
        rw [fit_infos ds.st k l1 l2 _ hfit, List.getD_eq_getElem?_getD, List.getElem?_replicate]
        split <;> rfl

theorem classValuesOk_resize (n : Nat) (feats : List Feature) (t : Nat) : ClassValuesOk (resize n feats t) := by
  intro f feat _ _ s v hv
  rw [stored_never_set'] at hv
  cases hv

theorem classValuesOk_set (st st' : Storage) (h : st.WF) (hok : ClassValuesOk st) (s f : Nat) (v : List Int)
    (hset : st.set s f v = some st')
    (hv : ∀ feat, st.feats[f]? = some feat → feat.isClass = true → ∀ x ∈ v, 0 ≤ x) : ClassValuesOk st' := by
  obtain ⟨hsamp, hfeats, _, _⟩ := set_schema st st' s f v hset
  have hwf' := set_wf st st' h s f v hset
  intro f' feat hf' hcls s' v' hv' x hx
  rw [hfeats] at hf'
  have hflt : f' < st.feats.length := (List.getElem?_eq_some_iff.1 hf').1
  by_cases hs' : s' < st.samples
  · rw [storage_refines' st st' h s f v hset f' s' hflt hs'] at hv'
    split at hv'
    · rename_i hsame
      cases hv'
      rw [hsame.1] at hf'
      exact hv feat hf' hcls x hx
    · exact hok f' feat hf' hcls s' v' hv' x hx
  · -- outside the sample range nothing is stored
    exfalso
    have hrow : st'.row f' s' = none := by
      obtain ⟨r, hr⟩ := ranges_some st' hwf' f' feat (by rw [hfeats]; exact hf')
      obtain ⟨t, ht⟩ := pool_some st' hwf' f' feat (by rw [hfeats]; exact hf')
      obtain ⟨ds, _, hview⟩ := view_eq st' hwf' f' feat r t (by rw [hfeats]; exact hf') hr ht
      unfold Storage.row
      rw [hview]
      simp only [Option.bind_eq_bind, Option.bind_some, T.sub, ValidPrefix]
      rw [if_neg (by rw [hsamp]; intro hh; exact hs' hh.1)]
      rfl
    unfold Storage.stored at hv'
    rw [hrow] at hv'
    split at hv' <;> cases hv'

/-- a whole `do_load`: `set` after `set` keeps the invariants -/
theorem sets_wf : ∀ (writes : List (Nat × Nat × List Int)) (st st' : Storage), st.WF → ClassValuesOk st →
    writes.foldlM (fun st w => st.set w.1 w.2.1 w.2.2) st = some st' →
    (∀ w ∈ writes, ∀ feat, st.feats[w.2.1]? = some feat → feat.isClass = true → ∀ x ∈ w.2.2, 0 ≤ x) →
    st'.WF ∧ ClassValuesOk st' ∧ st'.feats = st.feats
  | [], st, st', h, hok, hf, _ => by
    simp only [List.foldlM_nil, Option.pure_def, Option.some.injEq] at hf
    subst hf; exact ⟨h, hok, rfl⟩
  | w :: ws, st, st', h, hok, hf, hv => by
    simp only [List.foldlM_cons, Option.bind_eq_bind] at hf
    cases hset : st.set w.1 w.2.1 w.2.2 with
    | none => simp [hset] at hf
    | some st1 =>
      simp only [hset, Option.bind_some] at hf
      have hfe := (set_schema st st1 _ _ _ hset).2.1
      have := sets_wf ws st1 st' (set_wf st st1 h _ _ _ hset)
        (classValuesOk_set st st1 h hok _ _ _ hset (hv w List.mem_cons_self)) hf
        (fun w' hw' feat hfeat => hv w' (List.mem_cons_of_mem _ hw') feat (by rw [← hfe]; exact hfeat))
      exact ⟨this.1, this.2.1, this.2.2.trans hfe⟩

/-- generator after generator: `add` keeps the invariants and leaves every flag cleared -/
theorem adds_wf : ∀ (gens : List (GKind × List Nat × List Nat)) (ds ds' : Dataset), ds.WF →
    (∀ g ∈ ds.gens, ∀ i, g.infos.getD i 0 = 0) →
    gens.foldlM (fun (ds : Dataset) k => ds.add k.1 k.2.1 k.2.2) ds = some ds' →
    ds'.WF ∧ ds'.st = ds.st ∧ ∀ g ∈ ds'.gens, ∀ i, g.infos.getD i 0 = 0
  | [], ds, ds', h, hz, hf => by
    simp only [List.foldlM_nil, Option.pure_def, Option.some.injEq] at hf
    subst hf; exact ⟨h, rfl, hz⟩
  | k :: ks, ds, ds', h, hz, hf => by
    simp only [List.foldlM_cons, Option.bind_eq_bind] at hf
    cases hadd : ds.add k.1 k.2.1 k.2.2 with
    | none => simp [hadd] at hf
    | some ds1 =>
      simp only [hadd, Option.bind_some] at hf
      obtain ⟨h1, h2, h3⟩ := add_wf ds ds1 _ _ _ h hadd
      obtain ⟨i1, i2, i3⟩ := adds_wf ks ds1 ds' h1 (h3 hz) hf
      exact ⟨i1, i2.trans h2, i3⟩

end NanoVerif.Dataset
