import NanoVerif.Proofs.WLearnerBasic
/-!
  C10 — selecting the best candidate: one cache (`fitSeq`), per-thread caches + `min_reduce` (`fitAssigned`).
-/
set_option linter.unusedSectionVars false
set_option linter.unusedVariables false

namespace NanoVerif.WLearner
variable {α : Type} [Field α] [LinearOrder α] [IsStrictOrderedRing α] [FinTest α]

theorem pick_cases (b c : Cand α) :
    (pick b c = c ∧ FinTest.isFin c.score = true ∧ c.score < b.score) ∨
    (pick b c = b ∧ ¬ (FinTest.isFin c.score = true ∧ c.score < b.score)) := by
  unfold pick
  split
  · rename_i h; exact Or.inl ⟨rfl, h.1, h.2⟩
  · rename_i h; exact Or.inr ⟨rfl, h⟩

theorem pick_le_left (b c : Cand α) : (pick b c).score ≤ b.score := by
  rcases pick_cases b c with ⟨h, _, hlt⟩ | ⟨h, _⟩
  · rw [h]; exact le_of_lt hlt
  · rw [h]

theorem pick_le_right (b c : Cand α) (hf : FinTest.isFin c.score = true) : (pick b c).score ≤ c.score := by
  rcases pick_cases b c with ⟨h, _, _⟩ | ⟨h, hn⟩
  · rw [h]
  · rw [h]; exact not_lt.mp (fun hlt => hn ⟨hf, hlt⟩)

/-- what a cache holds after it has seen the candidates `l`, starting from `b` -/
theorem foldl_pick_spec (l : List (Cand α)) (b : Cand α) :
    (l.foldl pick b = b ∨ (l.foldl pick b ∈ l ∧ FinTest.isFin (l.foldl pick b).score = true ∧
        (l.foldl pick b).score < b.score)) ∧
    (l.foldl pick b).score ≤ b.score ∧
    (∀ c ∈ l, FinTest.isFin c.score = true → (l.foldl pick b).score ≤ c.score) := by
  induction l generalizing b with
  | nil => simp
  | cons c cs ih =>
    simp only [List.foldl_cons]
    obtain ⟨h1, h2, h3⟩ := ih (pick b c)
    refine ⟨?_, le_trans h2 (pick_le_left b c), ?_⟩
    · rcases h1 with h1 | ⟨hm, hf, hlt⟩
      · rw [h1]
        rcases pick_cases b c with ⟨h, hf, hlt⟩ | ⟨h, _⟩
        · right; rw [h]; exact ⟨by simp, hf, hlt⟩
        · left; exact h
      · right
        exact ⟨List.mem_cons_of_mem _ hm, hf, lt_of_lt_of_le hlt (pick_le_left b c)⟩
    · intro d hd hf
      rcases List.mem_cons.mp hd with rfl | hd
      · exact le_trans h2 (pick_le_right b d hf)
      · exact h3 d hd hf

/-- `std::min_element` -/
theorem minReduce_spec (c : Cand α) (ds : List (Cand α)) :
    minReduce c ds ∈ c :: ds ∧ ∀ d ∈ c :: ds, (minReduce c ds).score ≤ d.score := by
  induction ds generalizing c with
  | nil => simp [minReduce]
  | cons d ds ih =>
    simp only [minReduce]
    obtain ⟨h1, h2⟩ := ih (if d.score < c.score then d else c)
    constructor
    · rcases List.mem_cons.mp h1 with h | h
      · rw [h]; split <;> simp
      · exact List.mem_cons_of_mem _ (List.mem_cons_of_mem _ h)
    · intro e he
      have hm := h2 (if d.score < c.score then d else c) (by simp)
      rcases List.mem_cons.mp he with rfl | he
      · refine le_trans hm ?_
        split
        · rename_i h; exact le_of_lt h
        · exact le_refl _
      · rcases List.mem_cons.mp he with rfl | he
        · refine le_trans hm ?_
          split
          · exact le_refl _
          · rename_i h; exact not_lt.mp h
        · exact h2 e (List.mem_cons_of_mem _ he)

/-- one cache that sees a list containing the strict minimiser `c0` ends with `c0` -/
theorem fitSeq_unique (big : α) (l : List (Cand α)) (c0 : Cand α) (h0 : c0 ∈ l)
    (hf0 : FinTest.isFin c0.score = true) (hb : c0.score < big)
    (huniq : ∀ c ∈ l, c ≠ c0 → FinTest.isFin c.score = true → c0.score < c.score) :
    fitSeq big l = c0 := by
  unfold fitSeq
  obtain ⟨h1, _, h3⟩ := foldl_pick_spec l (noFit big)
  have hle := h3 c0 h0 hf0
  rcases h1 with h1 | ⟨hm, hf, _⟩
  · rw [h1] at hle
    have : (noFit big : Cand α).score = big := rfl
    rw [this] at hle
    exact absurd hb (not_lt.mpr hle)
  · by_contra hne
    exact absurd (huniq _ hm hne hf) (not_lt.mpr hle)

/-- any cache ends with `c0` or with something strictly worse -/
theorem fitSeq_other (big : α) (l : List (Cand α)) (c0 : Cand α) (hb : c0.score < big)
    (huniq : ∀ c ∈ l, c ≠ c0 → FinTest.isFin c.score = true → c0.score < c.score) :
    fitSeq big l = c0 ∨ c0.score < (fitSeq big l).score := by
  unfold fitSeq
  obtain ⟨h1, _, _⟩ := foldl_pick_spec l (noFit big)
  rcases h1 with h1 | ⟨hm, hf, _⟩
  · right; rw [h1]; exact hb
  · by_cases hne : l.foldl pick (noFit big) = c0
    · left; exact hne
    · right; exact huniq _ hm hne hf

/-- **The selected candidate does not depend on the chunk → worker assignment** when the minimal score is attained by
    one candidate only: whatever lists of candidates the workers saw (every candidate seen by some worker, in any order),
    `min_reduce` over their caches returns the candidate a single cache seeing everything returns. -/
theorem fit_assignment_independent_cands (big : α) (cands : List (Cand α)) (workers : List (List (Cand α)))
    (hperm : workers.flatten.Perm cands) (c0 : Cand α) (h0 : c0 ∈ cands)
    (hf0 : FinTest.isFin c0.score = true) (hb : c0.score < big)
    (huniq : ∀ c ∈ cands, c ≠ c0 → FinTest.isFin c.score = true → c0.score < c.score) :
    fitAssigned big workers = c0 ∧ fitSeq big cands = c0 := by
  refine ⟨?_, fitSeq_unique big cands c0 h0 hf0 hb huniq⟩
  have hsub : ∀ w ∈ workers, ∀ c ∈ w, c ∈ cands := by
    intro w hw c hc
    exact hperm.subset (List.mem_flatten.mpr ⟨w, hw, hc⟩)
  have h0' : c0 ∈ workers.flatten := hperm.symm.subset h0
  obtain ⟨w0, hw0, hc0⟩ := List.mem_flatten.mp h0'
  have hres0 : fitSeq big w0 = c0 :=
    fitSeq_unique big w0 c0 hc0 hf0 hb (fun c hc => huniq c (hsub w0 hw0 c hc))
  have hall : ∀ d ∈ workers.map (fitSeq big), d = c0 ∨ c0.score < d.score := by
    intro d hd
    obtain ⟨w, hw, rfl⟩ := List.mem_map.mp hd
    exact fitSeq_other big w c0 hb (fun c hc => huniq c (hsub w hw c hc))
  have hin : c0 ∈ workers.map (fitSeq big) := List.mem_map.mpr ⟨w0, hw0, hres0⟩
  unfold fitAssigned
  cases hres : workers.map (fitSeq big) with
  | nil => rw [hres] at hin; simp at hin
  | cons c cs =>
    simp only
    rw [hres] at hin hall
    obtain ⟨hm, hmin⟩ := minReduce_spec c cs
    rcases hall _ hm with h | h
    · exact h
    · exact absurd h (not_lt.mpr (hmin c0 hin))

end NanoVerif.WLearner
