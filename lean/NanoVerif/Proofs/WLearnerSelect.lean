import NanoVerif.Proofs.WLearnerBasic
/-!
  C10 — selecting the best candidate: one cache (`fitSeq`), per-thread caches + `min_reduce` (`fitAssigned`).
-/
set_option linter.unusedSectionVars false
set_option linter.unusedVariables false

namespace NanoVerif.WLearner
variable {α : Type} [Field α] [LinearOrder α] [IsStrictOrderedRing α] [FinTest α]

theorem pick_cases (b c : Cand α) :
    (pick b c = c ∧ FinTest.isFin c.score = true ∧ c.score < b.score) ∨
    (pick b c = b ∧ ¬ (FinTest.isFin c.score = true ∧ c.score < b.score)) := by
  unfold pick
  split
  · rename_i h; exact Or.inl ⟨rfl, h.1, h.2⟩
  · rename_i h; exact Or.inr ⟨rfl, h⟩

theorem pick_le_left (b c : Cand α) : (pick b c).score ≤ b.score := by
  rcases pick_cases b c with ⟨h, _, hlt⟩ | ⟨h, _⟩
  · rw [h]; exact le_of_lt hlt
  · rw [h]

theorem pick_le_right (b c : Cand α) (hf : FinTest.isFin c.score = true) : (pick b c).score ≤ c.score := by
  rcases pick_cases b c with ⟨h, _, _⟩ | ⟨h, hn⟩
  · rw [h]
  · rw [h]; exact not_lt.mp (fun hlt => hn ⟨hf, hlt⟩)

/-- what a cache holds after it has seen the candidates `l`, starting from `b` -/
theorem foldl_pick_spec (l : List (Cand α)) (b : Cand α) :
    (l.foldl pick b = b ∨ (l.foldl pick b ∈ l ∧ FinTest.isFin (l.foldl pick b).score = true ∧
        (l.foldl pick b).score < b.score)) ∧
    (l.foldl pick b).score ≤ b.score ∧
    (∀ c ∈ l, FinTest.isFin c.score = true → (l.foldl pick b).score ≤ c.score) := by
  induction l generalizing b with
  | nil => simp
  | cons c cs ih =>
    simp only [List.foldl_cons]
    obtain ⟨h1, h2, h3⟩ := ih (pick b c)
    refine ⟨?_, le_trans h2 (pick_le_left b c), ?_⟩
    · rcases h1 with h1 | ⟨hm, hf, hlt⟩
      · rw [h1]
        rcases pick_cases b c with ⟨h, hf, hlt⟩ | ⟨h, _⟩
        · right; rw [h]; exact ⟨by simp, hf, hlt⟩
        · left; exact h
      · right
        exact ⟨List.mem_cons_of_mem _ hm, hf, lt_of_lt_of_le hlt (pick_le_left b c)⟩
    · intro d hd hf
      rcases List.mem_cons.mp hd with rfl | hd
      · exact le_trans h2 (pick_le_right b d hf)
      · exact h3 d hd hf

/-! ### per-thread caches + `min_reduce_feature`: independent of the assignment of features to workers -/

/-- a candidate a cache can store: `std::isfinite(score)` and below `no_fit_score()` -/
def Usable (big : α) (c : Cand α) : Prop := FinTest.isFin c.score = true ∧ c.score < big

instance (big : α) (c : Cand α) : Decidable (Usable big c) := by unfold Usable; exact inferInstance

theorem noFit_score (big : α) : (noFit big : Cand α).score = big := rfl

theorem noFit_not_usable (big : α) : ¬ Usable big (noFit big : Cand α) := fun h => lt_irrefl _ h.2

theorem pick_of (b c : Cand α) (h : FinTest.isFin c.score = true ∧ c.score < b.score) : pick b c = c := if_pos h

theorem pick_of_not (b c : Cand α) (h : ¬ (FinTest.isFin c.score = true ∧ c.score < b.score)) : pick b c = b := if_neg h

theorem pick_noFit_right (big : α) (c : Cand α) (h : c.score ≤ big) : pick c (noFit big) = c :=
  pick_of_not _ _ (fun hh => absurd hh.2 (not_lt.mpr h))

theorem pick_noFit_left (big : α) (x : Cand α) : (Usable big x → pick (noFit big) x = x) ∧
    (¬ Usable big x → pick (noFit big) x = noFit big) :=
  ⟨fun h => pick_of _ _ h, fun h => pick_of_not _ _ h⟩

/-- what `fitSeq` returns: the empty cache, or a usable candidate of the list -/
theorem fitSeq_cache (big : α) (l : List (Cand α)) :
    (fitSeq big l = noFit big ∧ ∀ c ∈ l, ¬ Usable big c) ∨
    (fitSeq big l ∈ l ∧ Usable big (fitSeq big l) ∧ ∀ c ∈ l, Usable big c → (fitSeq big l).score ≤ c.score) := by
  unfold fitSeq
  obtain ⟨h1, h2, h3⟩ := foldl_pick_spec l (noFit big)
  rcases h1 with h1 | ⟨hm, hf, hlt⟩
  · left
    refine ⟨h1, fun c hc hu => ?_⟩
    have := h3 c hc hu.1
    rw [h1, noFit_score] at this
    exact absurd hu.2 (not_lt.mpr this)
  · right
    exact ⟨hm, ⟨hf, hlt⟩, fun c hc hu => h3 c hc hu.1⟩

theorem fitSeq_score_le (big : α) (l : List (Cand α)) : (fitSeq big l).score ≤ big :=
  (foldl_pick_spec l (noFit big)).2.1

/-- left-biased minimum: associativity on (start with score ≤ big, usable, usable) -/
theorem pick_assoc_usable (big : α) (c x r : Cand α) (hx : Usable big x) (hr : Usable big r) :
    pick (pick c x) r = pick c (pick x r) := by
  by_cases h1 : x.score < c.score
  · rw [pick_of c x ⟨hx.1, h1⟩]
    by_cases h2 : r.score < x.score
    · rw [pick_of x r ⟨hr.1, h2⟩, pick_of c r ⟨hr.1, lt_trans h2 h1⟩]
    · rw [pick_of_not x r (fun h => h2 h.2), pick_of c x ⟨hx.1, h1⟩]
  · rw [pick_of_not c x (fun h => h1 h.2)]
    by_cases h2 : r.score < x.score
    · rw [pick_of x r ⟨hr.1, h2⟩]
    · rw [pick_of_not x r (fun h => h2 h.2), pick_of_not c x (fun h => h1 h.2)]
      exact pick_of_not c r (fun h => h2 (lt_of_lt_of_le h.2 (not_lt.mp h1)))

/-- a cache that starts from `c` and sees `l` holds what `c` becomes after seeing the one candidate `fitSeq big l` -/
theorem foldl_pick_eq (big : α) (l : List (Cand α)) (c : Cand α) (hc : c.score ≤ big) :
    l.foldl pick c = pick c (fitSeq big l) := by
  induction l generalizing c with
  | nil => exact (pick_noFit_right big c hc).symm
  | cons x l ih =>
    have hL : (x :: l).foldl pick c = pick (pick c x) (fitSeq big l) := by
      rw [List.foldl_cons]
      exact ih _ (le_trans (pick_le_left c x) hc)
    have hR : fitSeq big (x :: l) = pick (pick (noFit big) x) (fitSeq big l) := by
      show (x :: l).foldl pick (noFit big) = _
      rw [List.foldl_cons]
      exact ih _ (le_trans (pick_le_left _ x) (le_refl _))
    rw [hL, hR]
    by_cases hx : Usable big x
    · rw [(pick_noFit_left big x).1 hx]
      rcases fitSeq_cache big l with ⟨hN, _⟩ | ⟨_, hu, _⟩
      · rw [hN, pick_noFit_right big _ (le_trans (pick_le_left c x) hc), pick_noFit_right big x (le_of_lt hx.2)]
      · exact pick_assoc_usable big c x _ hx hu
    · rw [(pick_noFit_left big x).2 hx]
      have hcx : pick c x = c := pick_of_not c x (fun h => hx ⟨h.1, lt_of_lt_of_le h.2 hc⟩)
      rw [hcx]
      rcases fitSeq_cache big l with ⟨hN, _⟩ | ⟨_, hu, _⟩
      · rw [hN, (pick_noFit_left big (noFit big)).2 (noFit_not_usable big)]
      · rw [(pick_noFit_left big _).1 hu]

theorem fitSeq_append (big : α) (a b : List (Cand α)) :
    fitSeq big (a ++ b) = pick (fitSeq big a) (fitSeq big b) := by
  show (a ++ b).foldl pick (noFit big) = _
  rw [List.foldl_append]
  exact foldl_pick_eq big b _ (fitSeq_score_le big a)

theorem fitSeq_cons (big : α) (x : Cand α) (l : List (Cand α)) :
    fitSeq big (x :: l) = pick (pick (noFit big) x) (fitSeq big l) := by
  show (x :: l).foldl pick (noFit big) = _
  rw [List.foldl_cons]
  exact foldl_pick_eq big l _ (le_trans (pick_le_left _ x) (le_refl _))

/-- the per-feature bests of a worker's features (the empty cache for a feature without usable candidate) -/
def repsC (big : α) (w : List (FeatC α)) : List (Cand α) := w.map fun p => fitSeq big p.2

theorem fitSeq_single_cache (big : α) (l : List (Cand α)) : fitSeq big [fitSeq big l] = fitSeq big l := by
  show pick (noFit big) (fitSeq big l) = _
  rcases fitSeq_cache big l with ⟨hN, _⟩ | ⟨_, hu, _⟩
  · rw [hN]; exact (pick_noFit_left big _).2 (noFit_not_usable big)
  · exact (pick_noFit_left big _).1 hu

/-- a worker's cache depends on the per-feature bests only -/
theorem fitSeq_streamC (big : α) (w : List (FeatC α)) : fitSeq big (streamC w) = fitSeq big (repsC big w) := by
  induction w with
  | nil => rfl
  | cons p w ih =>
    have h1 : streamC (p :: w) = p.2 ++ streamC w := by simp [streamC]
    have h2 : repsC big (p :: w) = [fitSeq big p.2] ++ repsC big w := by simp [repsC]
    rw [h1, h2, fitSeq_append, fitSeq_append, ih, fitSeq_single_cache]

/-- `(score, feature)` compared lexicographically, strictly -/
def lexLtC (a b : Cand α) : Prop := a.score < b.score ∨ (a.score = b.score ∧ a.feature < b.feature)

theorem lexLtC_trans {a b c : Cand α} (h1 : lexLtC a b) (h2 : lexLtC b c) : lexLtC a c := by
  rcases h1 with h1 | ⟨e1, f1⟩ <;> rcases h2 with h2 | ⟨e2, f2⟩
  · exact Or.inl (lt_trans h1 h2)
  · exact Or.inl (e2 ▸ h1)
  · exact Or.inl (e1 ▸ h2)
  · exact Or.inr ⟨e1.trans e2, by omega⟩

theorem lexLtC_asymm {a b : Cand α} (h1 : lexLtC a b) (h2 : lexLtC b a) : False := by
  rcases h1 with h1 | ⟨e1, f1⟩ <;> rcases h2 with h2 | ⟨e2, f2⟩
  · exact lt_asymm h1 h2
  · exact absurd h1 (by rw [e2]; exact lt_irrefl _)
  · exact absurd h2 (by rw [e1]; exact lt_irrefl _)
  · omega

theorem lessSF_iff (a b : Cand α) : lessSF a b ↔ lexLtC a b := by
  unfold lessSF lexLtC
  constructor
  · rintro (h | ⟨h1, h2⟩)
    · exact Or.inl h
    · rcases lt_or_eq_of_le (not_lt.mp h1) with h | h
      · exact Or.inl h
      · exact Or.inr ⟨h, h2⟩
  · rintro (h | ⟨h1, h2⟩)
    · exact Or.inl h
    · exact Or.inr ⟨by rw [h1]; exact lt_irrefl _, h2⟩

/-- `r` is THE best of the caches `all`: the empty cache when none holds a candidate, otherwise the usable member that is
    lexicographically below every other usable member -/
def BestC (big : α) (all : List (Cand α)) (r : Cand α) : Prop :=
  (r = noFit big ∧ ∀ c ∈ all, ¬ Usable big c) ∨
  (r ∈ all ∧ Usable big r ∧ ∀ c ∈ all, Usable big c → c = r ∨ lexLtC r c)

theorem bestC_unique (big : α) (all : List (Cand α)) (r r' : Cand α) (h : BestC big all r) (h' : BestC big all r') :
    r = r' := by
  rcases h with ⟨e, hn⟩ | ⟨hm, hu, hmin⟩ <;> rcases h' with ⟨e', hn'⟩ | ⟨hm', hu', hmin'⟩
  · rw [e, e']
  · exact absurd hu' (hn r' hm')
  · exact absurd hu (hn' r hm)
  · rcases hmin r' hm' hu' with e | l
    · exact e.symm
    · rcases hmin' r hm hu with e | l'
      · exact e
      · exact absurd l' (fun l' => lexLtC_asymm l l')

theorem bestC_congr (big : α) (A B : List (Cand α)) (hAB : ∀ x, x ∈ A ↔ x ∈ B) (r : Cand α) (h : BestC big A r) :
    BestC big B r := by
  rcases h with ⟨e, hn⟩ | ⟨hm, hu, hmin⟩
  · exact Or.inl ⟨e, fun c hc => hn c ((hAB c).mpr hc)⟩
  · exact Or.inr ⟨(hAB r).mp hm, hu, fun c hc => hmin c ((hAB c).mpr hc)⟩

/-- the usable members have increasing feature indices -/
def SortedC (big : α) (R : List (Cand α)) : Prop :=
  R.Pairwise (fun a b => Usable big a → Usable big b → a.feature < b.feature)

/-- one cache over per-feature bests with increasing feature indices holds THE best of them -/
theorem fitSeq_bestC (big : α) (R : List (Cand α)) (h : SortedC big R) : BestC big R (fitSeq big R) := by
  induction R with
  | nil => exact Or.inl ⟨rfl, fun c hc => by simp at hc⟩
  | cons x R ih =>
    obtain ⟨hx, hR⟩ := List.pairwise_cons.mp h
    have ihR := ih hR
    rw [fitSeq_cons]
    by_cases hux : Usable big x
    · rw [(pick_noFit_left big x).1 hux]
      rcases ihR with ⟨e, hn⟩ | ⟨hm, hu, hmin⟩
      · rw [e, pick_noFit_right big x (le_of_lt hux.2)]
        refine Or.inr ⟨by simp, hux, fun c hc huc => ?_⟩
        rcases List.mem_cons.mp hc with rfl | hc
        · exact Or.inl rfl
        · exact absurd huc (hn c hc)
      · by_cases hlt : (fitSeq big R).score < x.score
        · rw [pick_of x _ ⟨hu.1, hlt⟩]
          refine Or.inr ⟨List.mem_cons_of_mem _ hm, hu, fun c hc huc => ?_⟩
          rcases List.mem_cons.mp hc with rfl | hc
          · exact Or.inr (Or.inl hlt)
          · exact hmin c hc huc
        · rw [pick_of_not x _ (fun hh => hlt hh.2)]
          refine Or.inr ⟨by simp, hux, fun c hc huc => ?_⟩
          rcases List.mem_cons.mp hc with rfl | hc
          · exact Or.inl rfl
          · right
            have hle : x.score ≤ c.score := by
              rcases hmin c hc huc with e | l
              · rw [e]; exact not_lt.mp hlt
              · rcases l with l | ⟨e, _⟩
                · exact le_trans (not_lt.mp hlt) (le_of_lt l)
                · rw [← e]; exact not_lt.mp hlt
            rcases lt_or_eq_of_le hle with l | e
            · exact Or.inl l
            · exact Or.inr ⟨e, hx c hc hux huc⟩
    · rw [(pick_noFit_left big x).2 hux]
      have hp : pick (noFit big) (fitSeq big R) = fitSeq big R := by
        rcases fitSeq_cache big R with ⟨hN, _⟩ | ⟨_, hu, _⟩
        · rw [hN]; exact (pick_noFit_left big _).2 (noFit_not_usable big)
        · exact (pick_noFit_left big _).1 hu
      rw [hp]
      rcases ihR with ⟨e, hn⟩ | ⟨hm, hu, hmin⟩
      · refine Or.inl ⟨e, fun c hc => ?_⟩
        rcases List.mem_cons.mp hc with rfl | hc
        · exact hux
        · exact hn c hc
      · refine Or.inr ⟨List.mem_cons_of_mem _ hm, hu, fun c hc huc => ?_⟩
        rcases List.mem_cons.mp hc with rfl | hc
        · exact absurd huc hux
        · exact hmin c hc huc

/-- two usable caches with the same feature index are the same cache (different workers hold different features) -/
def DistinctC (big : α) (all : List (Cand α)) : Prop :=
  ∀ a ∈ all, ∀ b ∈ all, Usable big a → Usable big b → a.feature = b.feature → a = b

/-- the selection step of `std::min_element` with the comparison of `min_reduce_feature` -/
theorem sel_bestC (big : α) (P R : List (Cand α)) (best y : Cand α) (hP : BestC big P best) (hR : BestC big R y)
    (hd : DistinctC big (P ++ R)) : BestC big (P ++ R) (if lessSF y best then y else best) := by
  rcases hP with ⟨eP, hnP⟩ | ⟨hmP, huP, hminP⟩
  · rcases hR with ⟨eR, hnR⟩ | ⟨hmR, huR, hminR⟩
    · have : ¬ lessSF y best := by
        rw [eP, eR, lessSF_iff]
        exact fun h => lexLtC_asymm h h
      rw [if_neg this]
      refine Or.inl ⟨eP, fun c hc => ?_⟩
      rcases List.mem_append.mp hc with hc | hc
      · exact hnP c hc
      · exact hnR c hc
    · have : lessSF y best := by
        rw [eP]
        exact Or.inl huR.2
      rw [if_pos this]
      refine Or.inr ⟨List.mem_append_right _ hmR, huR, fun c hc huc => ?_⟩
      rcases List.mem_append.mp hc with hc | hc
      · exact absurd huc (hnP c hc)
      · exact hminR c hc huc
  · rcases hR with ⟨eR, hnR⟩ | ⟨hmR, huR, hminR⟩
    · have : ¬ lessSF y best := by
        rw [eR, lessSF_iff]
        rintro (h | ⟨h, _⟩)
        · exact absurd huP.2 (not_lt.mpr (le_of_lt h))
        · exact absurd huP.2 (by rw [← h]; exact lt_irrefl _)
      rw [if_neg this]
      refine Or.inr ⟨List.mem_append_left _ hmP, huP, fun c hc huc => ?_⟩
      rcases List.mem_append.mp hc with hc | hc
      · exact hminP c hc huc
      · exact absurd huc (hnR c hc)
    · by_cases hl : lessSF y best
      · rw [if_pos hl]
        have hba : lexLtC y best := (lessSF_iff y best).mp hl
        refine Or.inr ⟨List.mem_append_right _ hmR, huR, fun c hc huc => ?_⟩
        rcases List.mem_append.mp hc with hc | hc
        · rcases hminP c hc huc with e | l
          · right; rw [e]; exact hba
          · right; exact lexLtC_trans hba l
        · exact hminR c hc huc
      · rw [if_neg hl]
        have hnba : ¬ lexLtC y best := fun h => hl ((lessSF_iff y best).mpr h)
        have hab : y = best ∨ lexLtC best y := by
          by_cases hf : best.feature = y.feature
          · left
            exact (hd best (List.mem_append_left _ hmP) y (List.mem_append_right _ hmR) huP huR hf).symm
          · right
            rcases lt_trichotomy best.score y.score with h | h | h
            · exact Or.inl h
            · rcases Nat.lt_or_gt_of_ne hf with h' | h'
              · exact Or.inr ⟨h, h'⟩
              · exact absurd (Or.inr ⟨h.symm, h'⟩) hnba
            · exact absurd (Or.inl h) hnba
        refine Or.inr ⟨List.mem_append_left _ hmP, huP, fun c hc huc => ?_⟩
        rcases List.mem_append.mp hc with hc | hc
        · exact hminP c hc huc
        · rcases hminR c hc huc with e | l
          · rw [e]; exact hab
          · right
            rcases hab with e | l'
            · rw [← e]; exact l
            · exact lexLtC_trans l' l

theorem minReduce_bestC (big : α) (cache : List (Cand α) → Cand α) (ws : List (List (Cand α))) (P : List (Cand α))
    (best : Cand α) (hP : BestC big P best) (hb : ∀ w ∈ ws, BestC big w (cache w))
    (hd : DistinctC big (P ++ ws.flatten)) :
    BestC big (P ++ ws.flatten) (minReduce best (ws.map cache)) := by
  induction ws generalizing P best with
  | nil => simpa [minReduce] using hP
  | cons w ws ih =>
    have hflat : P ++ (w :: ws).flatten = (P ++ w) ++ ws.flatten := by simp
    rw [hflat] at hd ⊢
    rw [List.map_cons, minReduce]
    apply ih (P ++ w) _ _ (fun v hv => hb v (List.mem_cons_of_mem _ hv)) hd
    apply sel_bestC big P w best (cache w) hP (hb w (by simp))
    intro a ha b hb'
    exact hd a (List.mem_append_left _ ha) b (List.mem_append_left _ hb')

theorem featC_inj (feats : List (FeatC α)) (hf : (feats.map Prod.fst).Pairwise (· < ·)) (f g : FeatC α)
    (hff : f ∈ feats) (hgf : g ∈ feats) (h : f.1 = g.1) : f = g := by
  induction feats with
  | nil => simp at hff
  | cons x xs ih =>
    rw [List.map_cons, List.pairwise_cons] at hf
    obtain ⟨hx, hxs⟩ := hf
    rcases List.mem_cons.mp hff with e1 | hff' <;> rcases List.mem_cons.mp hgf with e2 | hgf'
    · rw [e1, e2]
    · have := hx g.1 (List.mem_map.mpr ⟨g, hgf', rfl⟩)
      rw [e1] at h
      omega
    · have := hx f.1 (List.mem_map.mpr ⟨f, hff', rfl⟩)
      rw [e2] at h
      omega
    · exact ih hxs hff' hgf'

/-- a usable per-feature best is a candidate of its feature -/
theorem rep_usable_mem (big : α) (p : FeatC α) (hu : Usable big (fitSeq big p.2)) : fitSeq big p.2 ∈ p.2 := by
  rcases fitSeq_cache big p.2 with ⟨hN, _⟩ | ⟨hm, _, _⟩
  · rw [hN] at hu; exact absurd hu (noFit_not_usable big)
  · exact hm

theorem repsC_sorted (big : α) (w : List (FeatC α)) (hidx : ∀ p ∈ w, ∀ c ∈ p.2, c.feature = p.1)
    (h : (w.map Prod.fst).Pairwise (· < ·)) : SortedC big (repsC big w) := by
  unfold SortedC repsC
  rw [List.pairwise_map] at h ⊢
  refine List.Pairwise.imp_of_mem ?_ h
  intro p q hp hq hpq hup huq
  rw [hidx p hp _ (rep_usable_mem big p hup), hidx q hq _ (rep_usable_mem big q huq)]
  exact hpq

/-- **The selected candidate does not depend on the assignment of features to workers** (no hypothesis on the scores:
    exact ties allowed) — see `fit_assignment_independent` in Props/C10.lean for the statement. -/
theorem fitAssigned_sorted (big : α) (feats : List (FeatC α)) (workers : List (List (FeatC α)))
    (hidx : ∀ p ∈ feats, ∀ c ∈ p.2, c.feature = p.1) (hinc : (feats.map Prod.fst).Pairwise (· < ·))
    (hperm : workers.flatten.Perm feats) (hsorted : ∀ w ∈ workers, (w.map Prod.fst).Pairwise (· < ·)) :
    BestC big (repsC big feats) (fitAssigned big (workers.map streamC)) := by
  have hsub : ∀ w ∈ workers, ∀ p ∈ w, p ∈ feats := fun w hw p hp =>
    hperm.subset (List.mem_flatten.mpr ⟨w, hw, hp⟩)
  have hmem : ∀ a, a ∈ (workers.map (repsC big)).flatten ↔ a ∈ repsC big feats := by
    intro a
    constructor
    · intro h
      obtain ⟨l, hl, ha⟩ := List.mem_flatten.mp h
      obtain ⟨w, hw, rfl⟩ := List.mem_map.mp hl
      obtain ⟨p, hp, rfl⟩ := List.mem_map.mp ha
      exact List.mem_map.mpr ⟨p, hsub w hw p hp, rfl⟩
    · intro h
      obtain ⟨p, hp, rfl⟩ := List.mem_map.mp h
      obtain ⟨w, hw, hpw⟩ := List.mem_flatten.mp (hperm.symm.subset hp)
      exact List.mem_flatten.mpr ⟨repsC big w, List.mem_map.mpr ⟨w, hw, rfl⟩, List.mem_map.mpr ⟨p, hpw, rfl⟩⟩
  have hd : DistinctC big (workers.map (repsC big)).flatten := by
    intro a ha b hb hua hub hab
    obtain ⟨p, hp, rfl⟩ := List.mem_map.mp ((hmem a).mp ha)
    obtain ⟨q, hq, rfl⟩ := List.mem_map.mp ((hmem b).mp hb)
    have hpq : p.1 = q.1 := by
      rw [← hidx p hp _ (rep_usable_mem big p hua), ← hidx q hq _ (rep_usable_mem big q hub)]
      exact hab
    rw [featC_inj feats hinc p q hp hq hpq]
  have hcaches : (workers.map streamC).map (fitSeq big) = (workers.map (repsC big)).map (fitSeq big) := by
    simp only [List.map_map]
    apply List.map_congr_left
    intro w _
    exact fitSeq_streamC big w
  have hs : ∀ v ∈ workers.map (repsC big), SortedC big v := by
    intro v hv
    obtain ⟨w, hw, rfl⟩ := List.mem_map.mp hv
    exact repsC_sorted big w (fun p hp => hidx p (hsub w hw p hp)) (hsorted w hw)
  apply bestC_congr big _ _ hmem
  unfold fitAssigned
  rw [hcaches]
  cases hws : workers.map (repsC big) with
  | nil => exact Or.inl ⟨rfl, fun c hc => by simp at hc⟩
  | cons v vs =>
    rw [hws] at hd hs
    simp only [List.map_cons, List.flatten_cons]
    rw [List.flatten_cons] at hd
    exact minReduce_bestC big (fitSeq big) vs v (fitSeq big v) (fitSeq_bestC big v (hs v (by simp)))
      (fun u hu => fitSeq_bestC big u (hs u (List.mem_cons_of_mem _ hu))) hd

/-- one thread that sees all features in index order -/
theorem fitSeq_sorted (big : α) (feats : List (FeatC α)) (hidx : ∀ p ∈ feats, ∀ c ∈ p.2, c.feature = p.1)
    (hinc : (feats.map Prod.fst).Pairwise (· < ·)) : BestC big (repsC big feats) (fitSeq big (streamC feats)) := by
  rw [fitSeq_streamC]
  exact fitSeq_bestC big _ (repsC_sorted big feats hidx hinc)

/-- `BestC` over the per-feature bests, spelled out over ALL candidates -/
theorem bestC_lexmin (big : α) (feats : List (FeatC α)) (hidx : ∀ p ∈ feats, ∀ c ∈ p.2, c.feature = p.1) (r : Cand α)
    (h : BestC big (repsC big feats) r) :
    (r = noFit big ∧ ∀ y ∈ streamC feats, ¬ Usable big y) ∨
    (r ∈ streamC feats ∧ Usable big r ∧ ∀ y ∈ streamC feats, Usable big y →
      r.score ≤ y.score ∧ (y.score = r.score → r.feature ≤ y.feature)) := by
  have hrep : ∀ y ∈ streamC feats, Usable big y → ∃ p ∈ feats, y ∈ p.2 ∧ Usable big (fitSeq big p.2) ∧
      (fitSeq big p.2).score ≤ y.score := by
    intro y hy huy
    unfold streamC at hy
    obtain ⟨p, hp, hyp⟩ := List.mem_flatMap.mp hy
    refine ⟨p, hp, hyp, ?_⟩
    rcases fitSeq_cache big p.2 with ⟨_, hn⟩ | ⟨_, hu, hmin⟩
    · exact absurd huy (hn y hyp)
    · exact ⟨hu, hmin y hyp huy⟩
  rcases h with ⟨e, hn⟩ | ⟨hm, hu, hmin⟩
  · refine Or.inl ⟨e, fun y hy huy => ?_⟩
    obtain ⟨p, hp, _, hup, _⟩ := hrep y hy huy
    exact hn _ (List.mem_map.mpr ⟨p, hp, rfl⟩) hup
  · right
    obtain ⟨p0, hp0, hr0⟩ := List.mem_map.mp hm
    have hr0' : fitSeq big p0.2 = r := hr0
    have hrin : r ∈ streamC feats := by
      unfold streamC
      refine List.mem_flatMap.mpr ⟨p0, hp0, ?_⟩
      rw [← hr0']
      exact rep_usable_mem big p0 (by rw [hr0']; exact hu)
    refine ⟨hrin, hu, fun y hy huy => ?_⟩
    obtain ⟨p, hp, hyp, hup, hle⟩ := hrep y hy huy
    have hbf : (fitSeq big p.2).feature = y.feature := by
      rw [hidx p hp _ (rep_usable_mem big p hup), hidx p hp y hyp]
    rcases hmin _ (List.mem_map.mpr ⟨p, hp, rfl⟩) hup with e | l
    · rw [← e]
      exact ⟨hle, fun _ => by omega⟩
    · rcases l with l | ⟨e, l⟩
      · exact ⟨le_trans (le_of_lt l) hle, fun hya => absurd (lt_of_lt_of_le l hle) (by rw [hya]; exact lt_irrefl _)⟩
      · exact ⟨e ▸ hle, fun _ => by omega⟩

/-! ### table learners: lexicographic caches (commit 5de0896) — no hypothesis on the order inside a worker -/

/-- what a cache can hold: nothing, or a storable candidate -/
def IsCache (big : α) (c : Cand α) : Prop := c = noFit big ∨ Usable big c

theorem isCache_score_le (big : α) (c : Cand α) (h : IsCache big c) : c.score ≤ big := by
  rcases h with rfl | h
  · exact le_refl _
  · exact le_of_lt h.2

/-- the selection step of `std::min_element` with the comparison of `min_reduce_feature` -/
def selC (a b : Cand α) : Cand α := if lessSF b a then b else a

theorem not_lexLtC_trans {a b c : Cand α} (h1 : ¬ lexLtC b a) (h2 : ¬ lexLtC c b) : ¬ lexLtC c a := by
  intro h
  rcases lt_trichotomy a.score b.score with hab | hab | hab
  · rcases lt_trichotomy b.score c.score with hbc | hbc | hbc
    · rcases h with h | ⟨e, _⟩
      · exact lt_asymm (lt_trans hab hbc) h
      · rw [e] at hbc; exact lt_asymm hab hbc
    · rcases h with h | ⟨e, _⟩
      · rw [← hbc] at h; exact lt_asymm hab h
      · rw [hbc, e] at hab; exact lt_irrefl _ hab
    · exact h2 (Or.inl hbc)
  · rcases lt_trichotomy b.score c.score with hbc | hbc | hbc
    · rcases h with h | ⟨e, _⟩
      · rw [hab] at h; exact lt_asymm hbc h
      · rw [e, hab] at hbc; exact lt_irrefl _ hbc
    · rcases h with h | ⟨_, hf⟩
      · rw [hab, hbc] at h; exact lt_irrefl _ h
      · have h1' : ¬ b.feature < a.feature := fun hf' => h1 (Or.inr ⟨hab.symm, hf'⟩)
        have h2' : ¬ c.feature < b.feature := fun hf' => h2 (Or.inr ⟨hbc.symm, hf'⟩)
        omega
    · exact h2 (Or.inl hbc)
  · exact h1 (Or.inl hab)

/-- the left-biased lexicographic minimum is associative -/
theorem selC_assoc (a b c : Cand α) : selC (selC a b) c = selC a (selC b c) := by
  unfold selC
  by_cases h1 : lessSF b a <;> by_cases h2 : lessSF c b
  · have h3 : lessSF c a := (lessSF_iff c a).mpr (lexLtC_trans ((lessSF_iff c b).mp h2) ((lessSF_iff b a).mp h1))
    simp [h1, h2, h3]
  · simp [h1, h2]
  · by_cases h3 : lessSF c a <;> simp [h1, h2, h3]
  · have h3 : ¬ lessSF c a := fun h => not_lexLtC_trans (fun hh => h1 ((lessSF_iff b a).mpr hh))
      (fun hh => h2 ((lessSF_iff c b).mpr hh)) ((lessSF_iff c a).mp h)
    simp [h1, h2, h3]

/-- a candidate as a cache sees it: itself when storable, nothing otherwise -/
def normC (big : α) (c : Cand α) : Cand α := if Usable big c then c else noFit big

theorem lessSF_noFit_iff (big : α) (c : Cand α) : lessSF c (noFit big) ↔ c.score < big := by
  unfold lessSF
  constructor
  · rintro (h | ⟨_, h⟩)
    · exact h
    · exact absurd h (Nat.not_lt_zero _)
  · exact fun h => Or.inl h

theorem pickLex_noFit (big : α) (c : Cand α) : pickLex (noFit big) c = normC big c := by
  unfold pickLex normC
  by_cases hu : Usable big c
  · rw [if_pos hu, if_pos ⟨hu.1, (lessSF_noFit_iff big c).mpr hu.2⟩]
  · rw [if_neg hu, if_neg (fun h => hu ⟨h.1, (lessSF_noFit_iff big c).mp h.2⟩)]

theorem normC_isCache (big : α) (c : Cand α) : IsCache big (normC big c) := by
  unfold normC
  split
  · rename_i h; exact Or.inr h
  · exact Or.inl rfl

theorem not_lessSF_noFit_cache (big : α) (b : Cand α) (hb : IsCache big b) : ¬ lessSF (noFit big) b := by
  rcases hb with rfl | hb
  · rw [lessSF_iff]; exact fun h => lexLtC_asymm h h
  · rintro (h | ⟨h, _⟩)
    · exact absurd hb.2 (not_lt.mpr (le_of_lt h))
    · exact h hb.2

/-- the cache update = the selection step on the normalised candidate -/
theorem pickLex_eq_selC (big : α) (b c : Cand α) (hb : IsCache big b) : pickLex b c = selC b (normC big c) := by
  unfold normC selC
  by_cases hu : Usable big c
  · rw [if_pos hu]
    unfold pickLex
    by_cases hl : lessSF c b
    · rw [if_pos ⟨hu.1, hl⟩, if_pos hl]
    · rw [if_neg (fun h => hl h.2), if_neg hl]
  · rw [if_neg hu, if_neg (not_lessSF_noFit_cache big b hb)]
    unfold pickLex
    rw [if_neg]
    rintro ⟨hf, hl⟩
    have hge : big ≤ c.score := not_lt.mp (fun h => hu ⟨hf, h⟩)
    rcases hl with hl | ⟨hl1, hl2⟩
    · exact absurd (lt_of_le_of_lt hge hl) (not_lt.mpr (isCache_score_le big b hb))
    · rcases hb with rfl | hb
      · exact absurd hl2 (Nat.not_lt_zero _)
      · exact hl1 (lt_of_lt_of_le hb.2 hge)

theorem selC_isCache (big : α) (a b : Cand α) (ha : IsCache big a) (hb : IsCache big b) : IsCache big (selC a b) := by
  unfold selC; split
  · exact hb
  · exact ha

theorem foldl_pickLex_isCache (big : α) (l : List (Cand α)) (b : Cand α) (hb : IsCache big b) :
    IsCache big (l.foldl pickLex b) := by
  induction l generalizing b with
  | nil => exact hb
  | cons c l ih =>
    rw [List.foldl_cons]
    apply ih
    rw [pickLex_eq_selC big b c hb]
    exact selC_isCache big _ _ hb (normC_isCache big c)

theorem fitSeqLex_isCache (big : α) (l : List (Cand α)) : IsCache big (fitSeqLex big l) :=
  foldl_pickLex_isCache big l _ (Or.inl rfl)

theorem selC_noFit_right (big : α) (b : Cand α) (hb : IsCache big b) : selC b (noFit big) = b := by
  unfold selC
  rw [if_neg (not_lessSF_noFit_cache big b hb)]

theorem selC_noFit_left (big : α) (b : Cand α) (hb : IsCache big b) : selC (noFit big) b = b := by
  unfold selC
  rcases hb with rfl | hb
  · split <;> rfl
  · rw [if_pos ((lessSF_noFit_iff big b).mpr hb.2)]

theorem foldl_pickLex_eq_selC (big : α) (l : List (Cand α)) (b : Cand α) (hb : IsCache big b) :
    l.foldl pickLex b = selC b (fitSeqLex big l) := by
  induction l generalizing b with
  | nil => exact (selC_noFit_right big b hb).symm
  | cons c l ih =>
    have hR : fitSeqLex big (c :: l) = selC (normC big c) (fitSeqLex big l) := by
      show (c :: l).foldl pickLex (noFit big) = _
      rw [List.foldl_cons, pickLex_noFit]
      exact ih _ (normC_isCache big c)
    rw [List.foldl_cons, hR, pickLex_eq_selC big b c hb, ← selC_assoc]
    exact ih _ (selC_isCache big _ _ hb (normC_isCache big c))

theorem fitSeqLex_append (big : α) (a b : List (Cand α)) :
    fitSeqLex big (a ++ b) = selC (fitSeqLex big a) (fitSeqLex big b) := by
  show (a ++ b).foldl pickLex (noFit big) = _
  rw [List.foldl_append]
  exact foldl_pickLex_eq_selC big b _ (fitSeqLex_isCache big a)

theorem fitSeqLex_cons (big : α) (x : Cand α) (l : List (Cand α)) :
    fitSeqLex big (x :: l) = selC (normC big x) (fitSeqLex big l) := by
  have := fitSeqLex_append big [x] l
  rw [List.singleton_append] at this
  rw [this]
  congr 1
  show pickLex (noFit big) x = _
  exact pickLex_noFit big x

/-- on the candidates of ONE feature the two cache updates coincide -/
theorem foldl_pickLex_same_feature (big : α) (i : Nat) (l : List (Cand α)) (hl : ∀ c ∈ l, c.feature = i) (b : Cand α)
    (hb : b = noFit big ∨ (Usable big b ∧ b.feature = i)) : l.foldl pickLex b = l.foldl pick b := by
  induction l generalizing b with
  | nil => rfl
  | cons c l ih =>
    have hc : c.feature = i := hl c (by simp)
    have hstep : pickLex b c = pick b c := by
      have hiff : lessSF c b ↔ c.score < b.score := by
        rcases hb with rfl | ⟨_, hbf⟩
        · exact lessSF_noFit_iff big c
        · unfold lessSF
          constructor
          · rintro (h | ⟨_, h⟩)
            · exact h
            · omega
          · exact fun h => Or.inl h
      unfold pickLex pick
      by_cases hc' : FinTest.isFin c.score = true ∧ c.score < b.score
      · rw [if_pos hc', if_pos ⟨hc'.1, hiff.mpr hc'.2⟩]
      · rw [if_neg hc', if_neg (fun h => hc' ⟨h.1, hiff.mp h.2⟩)]
    rw [List.foldl_cons, List.foldl_cons, hstep]
    apply ih (fun d hd => hl d (by simp [hd]))
    rcases pick_cases b c with ⟨h, hf, hlt⟩ | ⟨h, _⟩
    · rw [h]
      right
      refine ⟨⟨hf, lt_of_lt_of_le hlt ?_⟩, hc⟩
      rcases hb with rfl | ⟨hu, _⟩
      · exact le_refl _
      · exact le_of_lt hu.2
    · rw [h]; exact hb

theorem fitSeqLex_feature (big : α) (p : FeatC α) (hidx : ∀ c ∈ p.2, c.feature = p.1) :
    fitSeqLex big p.2 = fitSeq big p.2 :=
  foldl_pickLex_same_feature big p.1 p.2 hidx _ (Or.inl rfl)

theorem normC_of_isCache (big : α) (r : Cand α) (h : IsCache big r) : normC big r = r := by
  unfold normC
  rcases h with rfl | h
  · rw [if_neg (noFit_not_usable big)]
  · rw [if_pos h]

/-- a table worker's cache depends on the per-feature bests only -/
theorem fitSeqLex_streamC (big : α) (w : List (FeatC α)) (hidx : ∀ p ∈ w, ∀ c ∈ p.2, c.feature = p.1) :
    fitSeqLex big (streamC w) = fitSeqLex big (repsC big w) := by
  induction w with
  | nil => rfl
  | cons p w ih =>
    have h1 : streamC (p :: w) = p.2 ++ streamC w := by simp [streamC]
    have h2 : repsC big (p :: w) = fitSeq big p.2 :: repsC big w := by simp [repsC]
    rw [h1, h2, fitSeqLex_append, fitSeqLex_cons, ih (fun q hq => hidx q (List.mem_cons_of_mem _ hq)),
      fitSeqLex_feature big p (hidx p (by simp))]
    congr 1
    refine (normC_of_isCache big _ ?_).symm
    rcases fitSeq_cache big p.2 with ⟨hN, _⟩ | ⟨_, hu, _⟩
    · exact Or.inl hN
    · exact Or.inr hu

/-- one lexicographic cache over caches with distinct feature indices, in ANY order, holds THE best of them -/
theorem fitSeqLex_bestC (big : α) (R : List (Cand α)) (hd : DistinctC big R) : BestC big R (fitSeqLex big R) := by
  induction R with
  | nil => exact Or.inl ⟨rfl, fun c hc => by simp at hc⟩
  | cons x R ih =>
    rw [fitSeqLex_cons]
    have hR : DistinctC big R := fun a ha b hb => hd a (List.mem_cons_of_mem _ ha) b (List.mem_cons_of_mem _ hb)
    have h1 : BestC big [x] (normC big x) := by
      unfold normC
      by_cases hu : Usable big x
      · rw [if_pos hu]
        exact Or.inr ⟨by simp, hu, fun c hc _ => Or.inl (by simpa using hc)⟩
      · rw [if_neg hu]
        exact Or.inl ⟨rfl, fun c hc => by rw [List.mem_singleton.mp hc]; exact hu⟩
    exact sel_bestC big [x] R (normC big x) (fitSeqLex big R) h1 (ih hR) hd

theorem featC_inj_nodup (feats : List (FeatC α)) (hf : (feats.map Prod.fst).Nodup) (f g : FeatC α)
    (hff : f ∈ feats) (hgf : g ∈ feats) (h : f.1 = g.1) : f = g := by
  induction feats with
  | nil => simp at hff
  | cons x xs ih =>
    rw [List.map_cons, List.nodup_cons] at hf
    obtain ⟨hx, hxs⟩ := hf
    rcases List.mem_cons.mp hff with e1 | hff' <;> rcases List.mem_cons.mp hgf with e2 | hgf'
    · rw [e1, e2]
    · exact absurd (List.mem_map.mpr ⟨g, hgf', by rw [← h, e1]⟩) hx
    · exact absurd (List.mem_map.mpr ⟨f, hff', by rw [h, e2]⟩) hx
    · exact ih hxs hff' hgf'

/-- **Table fits: the selected candidate does not depend on the assignment of features to workers NOR on the order in which a
    worker sees them** — see `table_fit_assignment_independent` in Props/C10.lean. -/
theorem fitAssignedLex_any (big : α) (feats : List (FeatC α)) (workers : List (List (FeatC α)))
    (hidx : ∀ p ∈ feats, ∀ c ∈ p.2, c.feature = p.1) (hnd : (feats.map Prod.fst).Nodup)
    (hperm : workers.flatten.Perm feats) :
    BestC big (repsC big feats) (fitAssignedLex big (workers.map streamC)) := by
  have hsub : ∀ w ∈ workers, ∀ p ∈ w, p ∈ feats := fun w hw p hp =>
    hperm.subset (List.mem_flatten.mpr ⟨w, hw, hp⟩)
  have hmem : ∀ a, a ∈ (workers.map (repsC big)).flatten ↔ a ∈ repsC big feats := by
    intro a
    constructor
    · intro h
      obtain ⟨l, hl, ha⟩ := List.mem_flatten.mp h
      obtain ⟨w, hw, rfl⟩ := List.mem_map.mp hl
      obtain ⟨p, hp, rfl⟩ := List.mem_map.mp ha
      exact List.mem_map.mpr ⟨p, hsub w hw p hp, rfl⟩
    · intro h
      obtain ⟨p, hp, rfl⟩ := List.mem_map.mp h
      obtain ⟨w, hw, hpw⟩ := List.mem_flatten.mp (hperm.symm.subset hp)
      exact List.mem_flatten.mpr ⟨repsC big w, List.mem_map.mpr ⟨w, hw, rfl⟩, List.mem_map.mpr ⟨p, hpw, rfl⟩⟩
  have hd : DistinctC big (workers.map (repsC big)).flatten := by
    intro a ha b hb hua hub hab
    obtain ⟨p, hp, rfl⟩ := List.mem_map.mp ((hmem a).mp ha)
    obtain ⟨q, hq, rfl⟩ := List.mem_map.mp ((hmem b).mp hb)
    have hpq : p.1 = q.1 := by
      rw [← hidx p hp _ (rep_usable_mem big p hua), ← hidx q hq _ (rep_usable_mem big q hub)]
      exact hab
    rw [featC_inj_nodup feats hnd p q hp hq hpq]
  have hcaches : (workers.map streamC).map (fitSeqLex big) = (workers.map (repsC big)).map (fitSeqLex big) := by
    simp only [List.map_map]
    apply List.map_congr_left
    intro w hw
    exact fitSeqLex_streamC big w (fun p hp => hidx p (hsub w hw p hp))
  have hb : ∀ v ∈ workers.map (repsC big), BestC big v (fitSeqLex big v) := by
    intro v hv
    exact fitSeqLex_bestC big v (fun a ha b hb' =>
      hd a (List.mem_flatten.mpr ⟨v, hv, ha⟩) b (List.mem_flatten.mpr ⟨v, hv, hb'⟩))
  apply bestC_congr big _ _ hmem
  unfold fitAssignedLex
  rw [hcaches]
  cases hws : workers.map (repsC big) with
  | nil => exact Or.inl ⟨rfl, fun c hc => by simp at hc⟩
  | cons v vs =>
    rw [hws] at hd hb
    simp only [List.map_cons, List.flatten_cons]
    rw [List.flatten_cons] at hd
    exact minReduce_bestC big (fitSeqLex big) vs v (fitSeqLex big v) (hb v (by simp))
      (fun u hu => hb u (List.mem_cons_of_mem _ hu)) hd

/-- one table cache that sees all features in the given order -/
theorem fitSeqLex_any (big : α) (feats : List (FeatC α)) (hidx : ∀ p ∈ feats, ∀ c ∈ p.2, c.feature = p.1)
    (hnd : (feats.map Prod.fst).Nodup) : BestC big (repsC big feats) (fitSeqLex big (streamC feats)) := by
  have := fitAssignedLex_any big feats [feats] hidx hnd (by simp)
  simpa [fitAssignedLex, minReduce] using this

end NanoVerif.WLearner
