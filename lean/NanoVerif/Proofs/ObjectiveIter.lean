import NanoVerif.Model.ObjectiveIter
import NanoVerif.Proofs.Objective
import NanoVerif.Proofs.IteratorServe
/-!
  C09 — lemmas tying the objectives to the iterator: the row the callback of position `i` sees is row `i` of the served
  matrix (`servedRow_zip`), the definitions depend on the data of the first `n` positions only (`*_congr`), the value-only
  call of the linear objective accumulates the same values (`linearV_acc_canonical`).
-/
set_option linter.unusedSectionVars false
set_option linter.unusedSimpArgs false
set_option linter.unusedVariables false

namespace NanoVerif.Objective
open NanoVerif.Iterator NanoVerif.Scaling

theorem sliceOf_getD {β : Type} (X : List β) (d : β) (b e i : Nat) (h1 : b ≤ i) (h2 : i < e) :
    (sliceOf X b e).getD (i - b) d = X.getD i d := by
  have h3 : i - b < e - b := by omega
  have h4 : b + (i - b) = i := by omega
  simp [sliceOf, List.getD_eq_getElem?_getD, List.getElem?_take, List.getElem?_drop, h3, h4]

section core
variable {α : Type}

/-- the row the callback sees for position `i` is row `i` of the matrix the loop serves slices of -/
theorem servedRow_zip (X T : List (List α)) : ∀ (cs : List (Nat × Nat)) (ws : List Nat) (b0 n : Nat), Tiles b0 n cs →
    ws.length = cs.length → ∀ i, b0 ≤ i → i < n →
      servedRow Served.inputs (List.zipWith (mkServed X T) cs ws) i = X.getD i [] ∧
      servedRow Served.targets (List.zipWith (mkServed X T) cs ws) i = T.getD i [] := by
  intro cs
  induction cs with
  | nil =>
    intro ws b0 n h _ i h1 h2
    have : b0 = n := h
    omega
  | cons c cs ih =>
    intro ws b0 n h hws i h1 h2
    cases ws with
    | nil => simp at hws
    | cons w ws =>
      obtain ⟨cb, ce⟩ := c
      obtain ⟨hb, hle, hen, ht⟩ := h
      simp only at hb hle hen ht
      subst hb
      simp only [List.zipWith_cons_cons, servedRow, mkServed]
      by_cases hi : i < ce
      · simp only [h1, hi, and_self, if_true]
        exact ⟨sliceOf_getD X [] cb ce i h1 hi, sliceOf_getD T [] cb ce i h1 hi⟩
      · have hn : ¬ (cb ≤ i ∧ i < ce) := fun h => hi h.2
        simp only [hn, if_false]
        exact ih ws ce n ht (by simpa using hws) i (by omega) h2

end core

variable {α : Type} [Field α] [LinearOrder α] [IsStrictOrderedRing α]

/-! ### the definitions read the data of positions `< n` only -/

theorem linearDefValue_congr {t s : Nat} (l1 l2 : α) (W : Nat → Nat → α) (b : Nat → α) (L L' : Nat → Vector α t → α)
    (x x' : Nat → Nat → α) (n : Nat) (h : ∀ i, i < n → L i = L' i ∧ x i = x' i) :
    linearDefValue t s l1 l2 W b L x n = linearDefValue t s l1 l2 W b L' x' n := by
  unfold linearDefValue
  have : (List.range n).map (fun i => L i (predict t s W b (x i)))
      = (List.range n).map (fun i => L' i (predict t s W b (x' i))) :=
    List.map_congr_left fun i hi => by
      obtain ⟨h1, h2⟩ := h i (List.mem_range.1 hi)
      rw [h1, h2]
  rw [this]

theorem linearDefGradW_congr {t s : Nat} (l1 l2 : α) (W : Nat → Nat → α) (b : Nat → α)
    (dL dL' : Nat → Vector α t → Vector α t) (x x' : Nat → Nat → α) (n : Nat) (k : Fin t) (j : Nat)
    (h : ∀ i, i < n → dL i = dL' i ∧ x i = x' i) :
    linearDefGradW t s l1 l2 W b dL x n k j = linearDefGradW t s l1 l2 W b dL' x' n k j := by
  unfold linearDefGradW
  have : (List.range n).map (fun i => (dL i (predict t s W b (x i)))[k] * x i j)
      = (List.range n).map (fun i => (dL' i (predict t s W b (x' i)))[k] * x' i j) :=
    List.map_congr_left fun i hi => by
      obtain ⟨h1, h2⟩ := h i (List.mem_range.1 hi)
      rw [h1, h2]
  rw [this]

theorem linearDefGradB_congr {t s : Nat} (W : Nat → Nat → α) (b : Nat → α)
    (dL dL' : Nat → Vector α t → Vector α t) (x x' : Nat → Nat → α) (n : Nat) (k : Fin t)
    (h : ∀ i, i < n → dL i = dL' i ∧ x i = x' i) :
    linearDefGradB t s W b dL x n k = linearDefGradB t s W b dL' x' n k := by
  unfold linearDefGradB
  have : (List.range n).map (fun i => (dL i (predict t s W b (x i)))[k])
      = (List.range n).map (fun i => (dL' i (predict t s W b (x' i)))[k]) :=
    List.map_congr_left fun i hi => by
      obtain ⟨h1, h2⟩ := h i (List.mem_range.1 hi)
      rw [h1, h2]
  rw [this]

theorem meanOver_congr (n : Nat) (f g : Nat → α) (h : ∀ i, i < n → f i = g i) : meanOver n f = meanOver n g := by
  unfold meanOver
  rw [List.map_congr_left fun i hi => h i (List.mem_range.1 hi)]

/-! ### the value-only call of the linear objective -/

theorem linearV_acc_canonical {t s : Nat} (W : Nat → Nat → α) (b : Nat → α) (L : Nat → Vector α t → α)
    (x : Nat → Nat → α) (workers n batch : Nat) (asg : List Nat)
    (hw : 0 < workers) (hb : 0 < batch) (hasg : ValidAsg workers n batch asg) :
    mapReduce LinAcc.add LinAcc.zero LinAcc.divN (linStepV (s := s) W b L x) workers n batch asg
      = some (LinAcc.divN (msum LinAcc.add LinAcc.zero ((List.range n).map (linTermV W b L x))) n) :=
  mapReduce_eq laws_lin LinAcc.divN (linTermV W b L x) (fun _ _ _ => rfl) workers n batch asg hw hb hasg

end NanoVerif.Objective
