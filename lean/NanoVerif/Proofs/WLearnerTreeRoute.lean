import NanoVerif.Proofs.WLearnerTree
/-!
  C10 — the fitted decision tree: how `dtreeGroup` (the model of `dtree_wlearner_t::do_split`) walks a tree produced by
  `dtreeFit`, in terms of the ghost log (which cache was fitted at which node pair).
-/
set_option linter.unusedSectionVars false
set_option linter.unusedVariables false

namespace NanoVerif.WLearner
variable {α : Type} [Field α] [LinearOrder α] [IsStrictOrderedRing α]

/-- the three ways a walk through the node table can end: at a leaf, at a missing feature value, or "stuck" (out of fuel or
    an index out of range) — `dtreeGroup` reports the last two as `none` alike -/
inductive Route where
  | leaf (g : Nat)
  | missing
  | stuck
deriving DecidableEq

/-- `dtreeGroup` with the reason of a `none` -/
def dtreeRoute (nodes : List (Node α)) (s : Nat → FVal α) : Nat → Nat → Route
  | 0, _ => .stuck
  | fuel + 1, i =>
    match nodes[i]? with
    | none => .stuck
    | some nd =>
      match s nd.feature with
      | .num v =>
        let g := if v < nd.thr then 0 else 1
        if nd.next = 0 then .leaf (nd.table.toNat + g)
        else match nodes[i + g]? with
          | some nd' => dtreeRoute nodes s fuel nd'.next
          | none => .stuck
      | _ => .missing

theorem dtreeRoute_succ (nodes : List (Node α)) (s : Nat → FVal α) (fuel i : Nat) :
    dtreeRoute nodes s (fuel + 1) i =
      match nodes[i]? with
      | none => .stuck
      | some nd =>
        match s nd.feature with
        | .num v =>
          if nd.next = 0 then .leaf (nd.table.toNat + if v < nd.thr then 0 else 1)
          else match nodes[i + if v < nd.thr then 0 else 1]? with
            | some nd' => dtreeRoute nodes s fuel nd'.next
            | none => .stuck
        | _ => .missing := by
  rw [dtreeRoute]

def Route.toOption : Route → Option Nat
  | .leaf g => some g
  | _ => none

theorem dtreeGroup_eq_route (nodes : List (Node α)) (s : Nat → FVal α) (fuel i : Nat) :
    dtreeGroup nodes s fuel i = (dtreeRoute nodes s fuel i).toOption := by
  induction fuel generalizing i with
  | zero => rfl
  | succ fuel ih =>
    unfold dtreeGroup dtreeRoute
    cases nodes[i]? with
    | none => rfl
    | some nd =>
      simp only
      cases s nd.feature with
      | num v =>
        simp only
        by_cases hn : nd.next = 0
        · simp [hn, Route.toOption]
        · simp only [hn, if_false]
          cases nodes[i + if v < nd.thr then 0 else 1]? with
          | none => rfl
          | some nd' => exact ih _
      | cls h => rfl
      | missing => rfl

/-! ### one step of the walk on a fitted tree -/

section fitted
variable {cfg : TreeCfg α} {samples0 : List Nat} {st : TState α}

/-- on a finished fit the children of a non-terminal entry are processed entries further down the log -/
theorem TInv.child (h : TInv cfg samples0 st []) (j : Nat) (e : TEntry α) (he : st.log[j]? = some e)
    (hterm : e.terminal = false) (g : Nat) (hg : g < 2) :
    ∃ e', st.log[cidx st.log j g]? = some e' ∧ j < cidx st.log j g ∧
      e'.cache = ⟨childSamples cfg.N cfg.val e.cache.samples e.cand.feature e.cand.thr g, e.cache.depth + 1, 2 * j + g⟩ ∧
      ∃ nd, st.nodes[2 * j + g]? = some nd ∧ nd.next = 2 * cidx st.log j g := by
  obtain ⟨hc, nd, hnd, hnx⟩ := h.nonterm j e he hterm g hg
  simp only [allCaches, List.append_nil] at hc
  rw [List.getElem?_map] at hc
  cases he' : st.log[cidx st.log j g]? with
  | none => rw [he'] at hc; simp at hc
  | some e' =>
    rw [he'] at hc
    simp at hc
    have hlt : cidx st.log j g < st.log.length := (List.getElem?_eq_some_iff.mp he').1
    have hjlt : j < st.log.length := (List.getElem?_eq_some_iff.mp he).1
    refine ⟨e', rfl, ?_, hc, nd, hnd, ?_⟩
    · have := h.pre j hjlt
      unfold cidx; omega
    · rw [hnx, if_pos hlt]

theorem route_terminal (h : TInv cfg samples0 st []) (j : Nat) (e : TEntry α) (he : st.log[j]? = some e)
    (hterm : e.terminal = true) (s : Nat → FVal α) (v : α) (hv : s e.cand.feature = .num v) (fuel : Nat) :
    dtreeRoute st.nodes s (fuel + 1) (2 * j) = .leaf (tbase st.log j + sideOf v e.cand.thr) := by
  obtain ⟨nd, hnd, hnx, htab, _⟩ := h.term j e he hterm 0 (by omega)
  obtain ⟨nd', hnd', hf, ht⟩ := h.feat j e he 0 (by omega)
  rw [hnd] at hnd'; injection hnd' with hnd'; subst hnd'
  simp only [Nat.add_zero] at hnd
  rw [dtreeRoute_succ, hnd]
  simp only [hf, hv, hnx, if_true, htab, ht, sideOf]
  simp

theorem route_nonterminal (h : TInv cfg samples0 st []) (j : Nat) (e : TEntry α) (he : st.log[j]? = some e)
    (hterm : e.terminal = false) (s : Nat → FVal α) (v : α) (hv : s e.cand.feature = .num v) (fuel : Nat) :
    dtreeRoute st.nodes s (fuel + 1) (2 * j)
      = dtreeRoute st.nodes s fuel (2 * cidx st.log j (sideOf v e.cand.thr)) := by
  have hg : sideOf v e.cand.thr < 2 := by unfold sideOf; split <;> omega
  obtain ⟨e0, he0, hlt0, _, nd0, hnd0, hnx0⟩ := h.child j e he hterm 0 (by omega)
  obtain ⟨eg, heg, hltg, _, ndg, hndg, hnxg⟩ := h.child j e he hterm _ hg
  obtain ⟨nd', hnd', hf, ht⟩ := h.feat j e he 0 (by omega)
  rw [hnd0] at hnd'; injection hnd' with hnd'; subst hnd'
  simp only [Nat.add_zero] at hnd0
  have hne : nd0.next ≠ 0 := by rw [hnx0]; omega
  rw [dtreeRoute_succ, hnd0]
  simp only [hf, hv, hne, if_false, ht]
  have hside : (if v < e.cand.thr then 0 else 1) = sideOf v e.cand.thr := rfl
  rw [hside, hndg]
  simp only [hnxg]

theorem route_missing (h : TInv cfg samples0 st []) (j : Nat) (e : TEntry α) (he : st.log[j]? = some e)
    (s : Nat → FVal α) (hv : ∀ v, s e.cand.feature ≠ .num v) (fuel : Nat) :
    dtreeRoute st.nodes s (fuel + 1) (2 * j) = .missing := by
  obtain ⟨nd, hnd, hf, ht⟩ := h.feat j e he 0 (by omega)
  simp only [Nat.add_zero] at hnd
  rw [dtreeRoute_succ, hnd]
  simp only [hf]

/-! ### which samples reach which leaf -/

theorem stumpSide_eq_some (val : Nat → Nat → FVal α) (f : Nat) (thr : α) (i g : Nat) :
    stumpSide val f thr i = some g ↔ ∃ v, val i f = .num v ∧ sideOf v thr = g := by
  unfold stumpSide
  cases hv : val i f with
  | num x => simp
  | cls c => simp
  | missing => simp

theorem mem_childSamples (N : Nat) (val : Nat → Nat → FVal α) (samples : List Nat) (f : Nat) (thr : α) (g i : Nat) :
    i ∈ childSamples N val samples f thr g ↔ i < N ∧ i ∈ samples ∧ ∃ v, val i f = .num v ∧ sideOf v thr = g := by
  unfold childSamples
  rw [List.mem_filter, List.mem_range, Bool.and_eq_true, List.contains_iff_mem, beq_iff_eq, stumpSide_eq_some]

/-- sample `i` belongs to the sample list the terminal entry's stump was fitted on and falls on the side of table row `L` -/
def InLeaf (cfg : TreeCfg α) (st : TState α) (i L : Nat) : Prop :=
  ∃ (j : Nat) (e : TEntry α) (v : α), st.log[j]? = some e ∧ e.terminal = true ∧ i ∈ e.cache.samples ∧
    cfg.val i e.cand.feature = .num v ∧ L = tbase st.log j + sideOf v e.cand.thr

/-- sample `i` belongs to the sample list of some processed cache whose selected feature it misses -/
def LostAt (cfg : TreeCfg α) (st : TState α) (i : Nat) : Prop :=
  ∃ (j : Nat) (e : TEntry α), st.log[j]? = some e ∧ i ∈ e.cache.samples ∧ ∀ v, cfg.val i e.cand.feature ≠ .num v

/-- walking down from the node pair of entry `j` with a sample of its cache -/
theorem route_forward (h : TInv cfg samples0 st []) :
    ∀ (n j : Nat) (e : TEntry α), st.log[j]? = some e → st.log.length - j ≤ n → ∀ i, i < cfg.N → i ∈ e.cache.samples →
      ∀ fuel, st.log.length - j ≤ fuel →
        (∀ L, dtreeRoute st.nodes (cfg.val i) fuel (2 * j) = .leaf L → InLeaf cfg st i L) ∧
        dtreeRoute st.nodes (cfg.val i) fuel (2 * j) ≠ .stuck ∧
        (dtreeRoute st.nodes (cfg.val i) fuel (2 * j) = .missing → LostAt cfg st i) := by
  intro n
  induction n with
  | zero =>
    intro j e he hn
    have : j < st.log.length := (List.getElem?_eq_some_iff.mp he).1
    omega
  | succ n ih =>
    intro j e he hn i hi hmem fuel hfuel
    have hjlt : j < st.log.length := (List.getElem?_eq_some_iff.mp he).1
    obtain ⟨f, rfl⟩ : ∃ f, fuel = f + 1 := ⟨fuel - 1, by omega⟩
    by_cases hv : ∃ v, cfg.val i e.cand.feature = .num v
    · obtain ⟨v, hv⟩ := hv
      cases hterm : e.terminal with
      | true =>
        rw [route_terminal h j e he hterm _ v hv]
        refine ⟨?_, by simp, by simp⟩
        intro L hL
        injection hL with hL
        exact ⟨j, e, v, he, hterm, hmem, hv, hL.symm⟩
      | false =>
        rw [route_nonterminal h j e he hterm _ v hv]
        have hg : sideOf v e.cand.thr < 2 := by unfold sideOf; split <;> omega
        obtain ⟨e', he', hlt, hcache, _⟩ := h.child j e he hterm _ hg
        apply ih _ e' he' (by omega) i hi _ f (by omega)
        rw [hcache]
        exact (mem_childSamples _ _ _ _ _ _ _).mpr ⟨hi, hmem, v, hv, rfl⟩
    · have hv' : ∀ v, cfg.val i e.cand.feature ≠ .num v := fun v hh => hv ⟨v, hh⟩
      rw [route_missing h j e he _ hv']
      exact ⟨by simp, by simp, fun _ => ⟨j, e, he, hmem, hv'⟩⟩

/-- the root entry is the fitted sample list; a deeper entry was created by a non-terminal entry above it -/
theorem TInv.entry_origin (h : TInv cfg samples0 st []) (j : Nat) (e : TEntry α) (he : st.log[j]? = some e) :
    (j = 0 ∧ e.cache = ⟨samples0, 0, 0⟩) ∨
    (∃ (j' : Nat) (e' : TEntry α) (g : Nat), j' < j ∧ st.log[j']? = some e' ∧ e'.terminal = false ∧ g < 2 ∧
      cidx st.log j' g = j ∧
      e.cache = ⟨childSamples cfg.N cfg.val e'.cache.samples e'.cand.feature e'.cand.thr g, e'.cache.depth + 1, 2 * j' + g⟩) := by
  have hjlt : j < st.log.length := (List.getElem?_eq_some_iff.mp he).1
  by_cases hj : j = 0
  · left
    subst hj
    have hr := h.root
    simp only [allCaches, List.append_nil, List.getElem?_map, he] at hr
    simp at hr
    exact ⟨rfl, hr⟩
  · right
    obtain ⟨j', e', g, he', hterm, hg, hc⟩ := h.parent j (by omega) (by simp [allCaches]; exact hjlt)
    obtain ⟨e'', he'', hlt, hcache, _⟩ := h.child j' e' he' hterm g hg
    rw [hc, he] at he''
    injection he'' with he''
    subst he''
    exact ⟨j', e', g, by omega, he', hterm, hg, hc, hcache⟩

/-- the samples of every cache are fitted samples; below the root they are valid, distinct and increasing -/
theorem TInv.entry_samples (h : TInv cfg samples0 st []) :
    ∀ (n j : Nat) (e : TEntry α), j ≤ n → st.log[j]? = some e → ∀ i ∈ e.cache.samples, i ∈ samples0 ∧ (1 ≤ j → i < cfg.N) := by
  intro n
  induction n with
  | zero =>
    intro j e hj he i hi
    rcases h.entry_origin j e he with ⟨rfl, hc⟩ | ⟨j', _, _, hlt, _⟩
    · rw [hc] at hi; exact ⟨hi, by omega⟩
    · omega
  | succ n ih =>
    intro j e hj he i hi
    rcases h.entry_origin j e he with ⟨rfl, hc⟩ | ⟨j', e', g, hlt, he', _, _, _, hc⟩
    · rw [hc] at hi; exact ⟨hi, by omega⟩
    · rw [hc] at hi
      obtain ⟨hN, hm, _⟩ := (mem_childSamples _ _ _ _ _ _ _).mp hi
      exact ⟨(ih j' e' (by omega) he' i hm).1, fun _ => hN⟩

/-- the walk from the root with a sample of the cache of entry `j` passes through the node pair of entry `j` -/
theorem route_through (h : TInv cfg samples0 st []) :
    ∀ (n j : Nat) (e : TEntry α), j ≤ n → st.log[j]? = some e → ∀ i ∈ e.cache.samples, ∀ F, st.log.length ≤ F →
      ∃ F', st.log.length - j ≤ F' ∧
        dtreeRoute st.nodes (cfg.val i) F 0 = dtreeRoute st.nodes (cfg.val i) F' (2 * j) := by
  intro n
  induction n with
  | zero =>
    intro j e hj he i hi F hF
    have : j = 0 := by omega
    subst this
    exact ⟨F, by omega, rfl⟩
  | succ n ih =>
    intro j e hj he i hi F hF
    rcases h.entry_origin j e he with ⟨rfl, _⟩ | ⟨j', e', g, hlt, he', hterm, hg, hcx, hc⟩
    · exact ⟨F, by omega, rfl⟩
    · rw [hc] at hi
      obtain ⟨_, hm, v, hv, hside⟩ := (mem_childSamples _ _ _ _ _ _ _).mp hi
      obtain ⟨F'', hF'', heq⟩ := ih j' e' (by omega) he' i hm F hF
      have hj'lt : j' < st.log.length := (List.getElem?_eq_some_iff.mp he').1
      obtain ⟨f, rfl⟩ : ∃ f, F'' = f + 1 := ⟨F'' - 1, by omega⟩
      refine ⟨f, by omega, ?_⟩
      rw [heq, route_nonterminal h j' e' he' hterm _ v hv, hside, hcx]

end fitted

end NanoVerif.WLearner
