import NanoVerif.Proofs.LSearchQuadOver
/-!
  C07 — helper lemmas: CG_DESCENT on a convex quadratic `φ(t) = f0 + g0 t + h t²/2` from EVERY positive first trial step:
  `bracket` multiplies the step by `ro` while the slope is negative (the value is then below `φ(0)`, so the approximate
  Armijo test passes), stops at the first step `≥ t*`, and the first secant step of the main loop is exactly `t*`.
-/
namespace NanoVerif.LSearch
open NanoVerif.Gen.LsPredicates

set_option linter.unusedSectionVars false
set_option linter.unusedVariables false

variable {α : Type} [Field α] [LinearOrder α] [IsStrictOrderedRing α]

/-- below the minimiser the slope is negative and the value does not exceed the value at the origin -/
theorem quad_below_tstar {f0 g0 h t : α} (hh : 0 < h) (ht0 : 0 ≤ t) (ht : t < tstar g0 h) :
    (quadLine f0 g0 h t).g < 0 ∧ (quadLine f0 g0 h t).f ≤ f0 := by
  have e := h_tstar (g0 := g0) hh
  have h1 : h * t < h * tstar g0 h := mul_lt_mul_of_pos_left ht hh
  simp only [quadLine]
  refine ⟨by linarith, ?_⟩
  have : g0 * t = -(h * tstar g0 h * t) := by rw [e]; ring
  nlinarith [mul_nonneg (mul_nonneg (le_of_lt hh) ht0) (le_of_lt (sub_pos.mpr ht))]

/-- what `bracket` hands back on a quadratic -/
structure CgBracketed (cfg : Cfg α) (f0 g0 h : α) (s : CGS α) : Prop where
  budget : 0 < s.m
  cur : s.ctx.cur = quadLine f0 g0 h s.iv.t
  b_eq : s.iv.b = stepOf s.ctx s.iv.t
  over : tstar g0 h ≤ s.iv.t
  a_on : OnQuad f0 g0 h s.iv.a
  a_t0 : 0 ≤ s.iv.a.t
  a_lt : s.iv.a.t < tstar g0 h
  width : stpmin cfg.macheps < s.iv.t - s.iv.a.t

theorem cgBracket_quad (cfg : Cfg α) (f0 g0 h : α) (hg : g0 < 0) (hh : 0 < h) (hro : 1 < cfg.cgRo) (heps : 0 ≤ cfg.cgEpsilon)
    (hw : stpmin cfg.macheps * cfg.cgRo < (cfg.cgRo - 1) * tstar g0 h) :
    ∀ (m : Nat) (lastA : Step α) (iv : CG α) (ctx : Ctx α), (∃ k, k < m ∧ tstar g0 h ≤ cfg.cgRo ^ k * iv.t) → 0 < iv.t →
      ctx.cur = quadLine f0 g0 h iv.t → OnQuad f0 g0 h lastA → 0 ≤ lastA.t → lastA.t < tstar g0 h →
      (tstar g0 h ≤ iv.t → stpmin cfg.macheps < iv.t - lastA.t) →
      CgBracketed cfg f0 g0 h (cgBracket cfg (fun _ => quadLine f0 g0 h) ⟨f0, g0, true⟩ (cfg.cgEpsilon * absv f0) m lastA iv ctx) := by
  have hepsk : 0 ≤ cfg.cgEpsilon * absv f0 := by
    apply mul_nonneg heps; rw [absv_eq_abs]; exact abs_nonneg _
  have hp := tstar_pos hg hh
  intro m
  induction m with
  | zero => intro lastA iv ctx ⟨k, hk, _⟩; omega
  | succ m ih =>
    intro lastA iv ctx ⟨k, hk, hkt⟩ ht0 hc l1 l2 l3 l4
    have hok : ctx.cur.ok = true := by rw [hc]; rfl
    by_cases hover : tstar g0 h ≤ iv.t
    · have hnd : hasDescent ctx.cur.g = false := by
        have : 0 ≤ ctx.cur.g := by rw [hc]; exact quad_slope_nonneg hh hover
        simp [hasDescent, this]
      simp only [cgBracket, hok, hnd, if_true]
      exact ⟨Nat.succ_pos m, hc, rfl, hover, l1, l2, l3, l4 hover⟩
    · have hlt : iv.t < tstar g0 h := not_le.mp hover
      obtain ⟨q1, q2⟩ := quad_below_tstar (f0 := f0) hh (le_of_lt ht0) hlt
      have hdesc : ¬ hasDescent ctx.cur.g = false := by rw [hc]; simp [hasDescent, q1]
      have hA : ¬ hasApproxArmijo f0 ctx.cur.f (cfg.cgEpsilon * absv f0) = false := by
        rw [hc]; simp only [hasApproxArmijo]; simp; linarith
      have hk0 : k ≠ 0 := by
        intro h0; rw [h0] at hkt; simp at hkt; exact hover hkt
      obtain ⟨k', rfl⟩ : ∃ k', k = k' + 1 := ⟨k - 1, by omega⟩
      simp only [cgBracket, hok, hdesc, hA, if_true, cgMove]
      have hro0 : 0 < cfg.cgRo := by linarith
      refine ih (stepOf ctx iv.t) { iv with t := cfg.cgRo * iv.t } (ask (fun _ => quadLine f0 g0 h) ctx (cfg.cgRo * iv.t))
        ⟨k', by omega, ?_⟩ (mul_pos hro0 ht0) (by simp [ask]) (onQuad_stepOf f0 g0 h ctx iv.t hc) (le_of_lt ht0) hlt ?_
      · have : cfg.cgRo ^ (k' + 1) * iv.t = cfg.cgRo ^ k' * (cfg.cgRo * iv.t) := by ring
        rw [← this]; exact hkt
      · intro hge
        simp only [stepOf]
        -- `ro t - t > stpmin` from `ro t ≥ t*` and `stpmin · ro < (ro - 1) t*`
        have h1 : (cfg.cgRo - 1) * tstar g0 h ≤ (cfg.cgRo - 1) * (cfg.cgRo * iv.t) :=
          mul_le_mul_of_nonneg_left hge (by linarith)
        have h2 : stpmin cfg.macheps * cfg.cgRo < (cfg.cgRo * iv.t - iv.t) * cfg.cgRo := by nlinarith
        exact lt_of_mul_lt_mul_right h2 (le_of_lt hro0)

/-- CG_DESCENT on a convex quadratic from any positive first trial step `t` with `ro^k t ≥ t*` for some `k < max_iterations`:
    success with Wolfe or approximate Wolfe at a positive step; the state is the evaluation there -/
theorem cgdescent_quad_succeeds (cfg : Cfg α) (f0 g0 h : α) (hg : g0 < 0) (hh : 0 < h) (t : α) (ctx : Ctx α)
    (hc : ctx.cur = quadLine f0 g0 h t) (ht0 : 0 < t) (k : Nat) (hk : k < cfg.maxIter) (hkt : tstar g0 h ≤ cfg.cgRo ^ k * t)
    (hro : 1 < cfg.cgRo) (heps : 0 ≤ cfg.cgEpsilon) (hw : stpmin cfg.macheps * cfg.cgRo < (cfg.cgRo - 1) * tstar g0 h)
    (hw0 : stpmin cfg.macheps < t) (hc1 : cfg.c1 ≤ 1 / 2) (hc2 : 0 ≤ cfg.c2) (hfin : cfg.fin (tstar g0 h) = true) :
    (cgdescent cfg (fun _ => quadLine f0 g0 h) ⟨f0, g0, true⟩ t ctx).ok = true ∧
    0 < (cgdescent cfg (fun _ => quadLine f0 g0 h) ⟨f0, g0, true⟩ t ctx).t ∧
    (cgdescent cfg (fun _ => quadLine f0 g0 h) ⟨f0, g0, true⟩ t ctx).ctx.cur =
      quadLine f0 g0 h (cgdescent cfg (fun _ => quadLine f0 g0 h) ⟨f0, g0, true⟩ t ctx).t ∧
    (CgWolfe cfg ⟨f0, g0, true⟩ (cgdescent cfg (fun _ => quadLine f0 g0 h) ⟨f0, g0, true⟩ t ctx) ∨
      CgApprox cfg ⟨f0, g0, true⟩ (cgdescent cfg (fun _ => quadLine f0 g0 h) ⟨f0, g0, true⟩ t ctx)) := by
  have hp := tstar_pos hg hh
  have hok : ctx.cur.ok = true := by rw [hc]; rfl
  have hepsk : 0 ≤ cfg.cgEpsilon * absv f0 := by
    apply mul_nonneg heps; rw [absv_eq_abs]; exact abs_nonneg _
  simp only [cgdescent]
  split
  · rename_i hdone
    refine ⟨hok, ht0, hc, ?_⟩
    have hnf : ¬ ((false = true ∧ ((⟨0, f0, g0⟩ : Step α).f > f0 + cfg.cgEpsilon * absv f0 ∨ (stepOf ctx t).g < 0)) ∨
        ctx.cur.ok = false) := by
      rintro (⟨h1, _⟩ | h1)
      · cases h1
      · rw [hok] at h1; cases h1
    exact (cgDone_conditions cfg ⟨f0, g0, true⟩ ⟨⟨0, f0, g0⟩, stepOf ctx t, t⟩ ctx false hnf hdone).2
  · obtain ⟨b1, b2, b3, b4, b5, b6, b7, b8⟩ := cgBracket_quad cfg f0 g0 h hg hh hro heps hw cfg.maxIter ⟨0, f0, g0⟩
      ⟨⟨0, f0, g0⟩, stepOf ctx t, t⟩ ctx ⟨k, hk, hkt⟩ ht0 hc (onQuad_origin f0 g0 h) (le_refl _) hp
      (fun _ => by simpa using hw0)
    generalize cgBracket cfg (fun _ => quadLine f0 g0 h) ⟨f0, g0, true⟩ (cfg.cgEpsilon * absv f0) cfg.maxIter ⟨0, f0, g0⟩
      ⟨⟨0, f0, g0⟩, stepOf ctx t, t⟩ ctx = s at b1 b2 b3 b4 b5 b6 b7 b8 ⊢
    have hsok : s.ctx.cur.ok = true := by rw [b2]; rfl
    have hst0 : 0 < s.iv.t := lt_of_lt_of_le hp b4
    have haf : ¬ s.iv.a.f > f0 + cfg.cgEpsilon * absv f0 := by
      have : s.iv.a.f ≤ f0 := by
        have := (quad_below_tstar (f0 := f0) hh b6 b7).2
        simp only [quadLine] at this; rw [b5.1]; exact this
      exact not_lt.mpr (by linarith)
    have hbg : ¬ s.iv.b.g < 0 := by
      rw [b3]; simp only [stepOf, b2]; exact not_lt.mpr (quad_slope_nonneg hh b4)
    split
    · rename_i hdone
      refine ⟨hsok, hst0, b2, ?_⟩
      have hnf : ¬ ((true = true ∧ (s.iv.a.f > f0 + cfg.cgEpsilon * absv f0 ∨ s.iv.b.g < 0)) ∨ s.ctx.cur.ok = false) := by
        rintro (⟨_, h1 | h1⟩ | h1)
        · exact haf h1
        · exact hbg h1
        · rw [hsok] at h1; cases h1
      exact (cgDone_conditions cfg ⟨f0, g0, true⟩ s.iv s.ctx true hnf hdone).2
    · -- main loop: one secant step
      obtain ⟨m', hm'⟩ : ∃ m', s.m = m' + 1 := ⟨s.m - 1, by omega⟩
      have hbt : s.iv.b.t = s.iv.t := by rw [b3]; rfl
      have hbon : OnQuad f0 g0 h s.iv.b := by rw [b3]; exact onQuad_stepOf f0 g0 h s.ctx s.iv.t b2
      have hne : s.iv.a.t ≠ s.iv.b.t := by rw [hbt]; exact ne_of_lt (lt_of_lt_of_le b7 b4)
      have hsec : secant s.iv.a s.iv.b = tstar g0 h := secant_exact hh _ _ b5 hbon hne
      have hacc : cgDone cfg ⟨f0, g0, true⟩ (cfg.cgEpsilon * absv f0) true ⟨s.iv.a, s.iv.b, tstar g0 h⟩
          (ask (fun _ => quadLine f0 g0 h) s.ctx (tstar g0 h)) = true := by
        refine cgDone_accept cfg ⟨f0, g0, true⟩ (cfg.cgEpsilon * absv f0) true ⟨s.iv.a, s.iv.b, tstar g0 h⟩
          (ask (fun _ => quadLine f0 g0 h) s.ctx (tstar g0 h)) haf hbg ?_ ?_ ?_ ?_ ?_
        · simp [ask, quadLine]
        · exact le_of_lt b7
        · simpa [hbt] using b4
        · simpa [ask] using (armijo_at_tstar_iff hg hh).mpr hc1
        · simpa [ask] using (strongWolfe_at_tstar (f0 := f0) hg hh hc2).2
      rw [hm']
      simp only [cgLoop]
      have hcond : 0 < m' + 1 ∧ s.iv.b.t - s.iv.a.t > stpmin cfg.macheps := ⟨by omega, by rw [hbt]; exact b8⟩
      simp only [hcond, and_self, if_true, hsec, cgTry, hfin, cgMove, hacc, cgResult, Bool.true_eq_false, if_false]
      refine ⟨by simp [ask, quadLine], hp, by simp [ask], Or.inl ⟨?_, ?_⟩⟩
      · simpa [ask] using (armijo_at_tstar_iff hg hh).mpr hc1
      · simpa [ask] using (strongWolfe_at_tstar (f0 := f0) hg hh hc2).2

end NanoVerif.LSearch
