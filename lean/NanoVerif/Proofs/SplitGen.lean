import NanoVerif.Proofs.Split
import NanoVerif.Model.SplitSampler
import NanoVerif.Gen.SplitKFold
import NanoVerif.Gen.SplitRandom
/-!
  C12 — the hand-written model of the splitters (`Model/Split.lean`, `Model/SplitSampler.lean`) IS the text regenerated from
  `src/splitter/kfold.cpp` and `src/splitter/random.cpp` on every run (`tools/props/c12_translate.py` → `Gen/SplitKFold.lean`,
  `Gen/SplitRandom.lean`). The generated definitions live in `Int` (`tensor_size_t`, `/` = `Int.tdiv`); the model counts in `Nat`:
  the theorems state the equality through the casts, for every size / fold count / fold index.
-/
namespace NanoVerif.Split
open NanoVerif

theorem gen_tdiv (n k : Nat) : Int.tdiv (n : Int) (k : Int) = ((n / k : Nat) : Int) := by
  simp

/-! ### k-fold -/

theorem gen_validBegin_cast (n folds f : Nat) :
    (f : Int) * Int.tdiv (n : Int) (folds : Int) = ((validBegin n folds f : Nat) : Int) := by
  simp [validBegin, chunk]

theorem gen_validEnd_cast (n folds f : Nat) :
    (if (f : Int) + 1 < (folds : Int) then (f : Int) * Int.tdiv (n : Int) (folds : Int) + Int.tdiv (n : Int) (folds : Int) else (n : Int))
      = ((validEnd n folds f : Nat) : Int) := by
  unfold validEnd
  by_cases h : f + 1 < folds
  · have h' : (f : Int) + 1 < (folds : Int) := by omega
    rw [if_pos h, if_pos h', gen_validBegin_cast, gen_tdiv]
    simp [chunk]
  · have h' : ¬ (f : Int) + 1 < (folds : Int) := by omega
    rw [if_neg h, if_neg h']

theorem gen_validEnd_cast2 (n folds f : Nat) :
    (if (f : Int) + 1 < (folds : Int) then ((validBegin n folds f : Nat) : Int) + Int.tdiv (n : Int) (folds : Int) else (n : Int))
      = ((validEnd n folds f : Nat) : Int) := by
  rw [← gen_validBegin_cast, gen_validEnd_cast]

/-- `kfold.cpp`: the one piece of the validation part is `world.segment(valid_begin, valid_end - valid_begin)` with the model's
    `validBegin` / `validEnd` (the arithmetic `fold * (size / folds)`, `(fold + 1 < folds) ? … : size` is the generated one) -/
theorem model_kfold_validPieces_is_generated (n folds f : Nat) :
    Gen.SplitKFold.validPieces n folds f =
      [(0, (validEnd n folds f : Int) - validBegin n folds f, (validBegin n folds f : Int),
        (validEnd n folds f : Int) - validBegin n folds f)] := by
  simp only [Gen.SplitKFold.validPieces, gen_validBegin_cast, gen_validEnd_cast2]

/-- `kfold.cpp`: the training part is written in two pieces, `world.segment(0, valid_begin)` to offset 0 and
    `world.segment(valid_end, size - valid_end)` to offset `valid_begin` -/
theorem model_kfold_trainPieces_is_generated (n folds f : Nat) :
    Gen.SplitKFold.trainPieces n folds f =
      [(0, (validBegin n folds f : Int), 0, (validBegin n folds f : Int)),
       ((validBegin n folds f : Int), ((n : Int) - ((validEnd n folds f : Int) - validBegin n folds f)) - validBegin n folds f,
        (validEnd n folds f : Int), (n : Int) - validEnd n folds f)] := by
  simp only [Gen.SplitKFold.trainPieces, gen_validBegin_cast, gen_validEnd_cast2]

/-- declared sizes: `indices_t valid(valid_end - valid_begin)`, `indices_t train(samples.size() - valid.size())` -/
theorem model_kfold_sizes_is_generated (n folds f : Nat) :
    Gen.SplitKFold.validSize n folds f = (validEnd n folds f : Int) - validBegin n folds f ∧
    Gen.SplitKFold.trainSize n folds f = (n : Int) - ((validEnd n folds f : Int) - validBegin n folds f) := by
  simp only [Gen.SplitKFold.validSize, Gen.SplitKFold.trainSize, gen_validBegin_cast, gen_validEnd_cast2, and_self]

/-- the pieces of `kfold.cpp` tile their destination vectors (what Eigen's compiled-out size assertions would check): every piece
    has equal destination and source length, no length is negative, the first piece starts at 0, each next one where the previous
    ended, the last one ends at the declared size, and every source range lies inside `world` -/
theorem gen_kfold_pieces_tile (n folds f : Nat) (hf : f < folds) :
    (∀ p ∈ Gen.SplitKFold.trainPieces n folds f ++ Gen.SplitKFold.validPieces n folds f,
        p.2.1 = p.2.2.2 ∧ 0 ≤ p.2.1 ∧ 0 ≤ p.2.2.1 ∧ p.2.2.1 + p.2.2.2 ≤ (n : Int)) ∧
    (∃ a b, Gen.SplitKFold.trainPieces n folds f = [a, b] ∧ a.1 = 0 ∧ b.1 = a.1 + a.2.1 ∧
        b.1 + b.2.1 = Gen.SplitKFold.trainSize n folds f) ∧
    (∃ a, Gen.SplitKFold.validPieces n folds f = [a] ∧ a.1 = 0 ∧ a.2.1 = Gen.SplitKFold.validSize n folds f) := by
  have h1 := validBegin_le_validEnd n folds f hf
  have h2 := validEnd_le n folds f hf
  rw [model_kfold_trainPieces_is_generated, model_kfold_validPieces_is_generated, (model_kfold_sizes_is_generated n folds f).1,
    (model_kfold_sizes_is_generated n folds f).2]
  refine ⟨?_, ⟨_, _, rfl, rfl, by simp, by simp⟩, ⟨_, rfl, rfl, rfl⟩⟩
  intro p hp
  simp only [List.cons_append, List.nil_append, List.mem_cons, List.not_mem_nil, or_false] at hp
  rcases hp with rfl | rfl | rfl <;> refine ⟨?_, ?_, ?_, ?_⟩ <;> simp only <;> omega

/-- the hypothesis of `gen_kfold_pieces_tile` is satisfiable, and the statement has content there (10 samples, 3 folds, last fold) -/
example : (2 : Nat) < 3 ∧ Gen.SplitKFold.trainPieces 10 3 2 = [(0, 6, 0, 6), (6, 0, 10, 0)] ∧
    Gen.SplitKFold.validPieces 10 3 2 = [(0, 4, 6, 4)] := by decide

theorem gen_segment_kfold (w : List Int) (off len : Nat) :
    Gen.SplitKFold.segment w (off : Int) ((len : Nat) : Int) = (w.drop off).take len := by
  simp [Gen.SplitKFold.segment]

/-- one iteration of the k-fold loop: which part is the validation one, in which order the two training pieces are
    concatenated, both parts sorted, the pair is `(train, valid)` -/
theorem model_foldSplit_is_generated (sort : List Int → List Int) (perm : List Int) (folds f : Nat) :
    foldSplit sort perm folds f = Gen.SplitKFold.foldPair sort perm (folds : Int) (f : Int) := by
  have hseg : ∀ (off : Nat) (len : Int), Gen.SplitKFold.segment perm (off : Int) len = (perm.drop off).take len.toNat := by
    intro off len; simp [Gen.SplitKFold.segment]
  simp only [foldSplit, Gen.SplitKFold.foldPair, model_kfold_trainPieces_is_generated, model_kfold_validPieces_is_generated,
    Gen.SplitKFold.assemble, List.flatMap_cons, List.flatMap_nil, List.append_nil]
  rw [show ((0 : Int)) = ((0 : Nat) : Int) from rfl, hseg, hseg, hseg]
  congr 2
  · simp only [trainSlice, List.drop_zero, Int.toNat_natCast]
    congr 1
    rw [List.take_of_length_le]
    simp only [List.length_drop]; omega
  · simp only [validSlice]
    congr 1; omega

/-- `kfold_splitter_t::split`: ONE shuffle with `make_rng(seed)` before the loop, then one pair per fold -/
theorem model_kfold_is_generated {G : Type} (seedRng : Nat → G) (shuffle : G → List Int → List Int × G)
    (sort : List Int → List Int) (seed folds : Nat) (samples : List Int) :
    kfold sort (shuffle (seedRng seed) samples).1 folds =
      Gen.SplitKFold.split seedRng shuffle sort seed (folds : Int) samples := by
  simp only [kfold, Gen.SplitKFold.split, Int.toNat_natCast]
  exact List.map_congr_left (fun f _ => model_foldSplit_is_generated sort _ folds f)

/-! ### repeated random sub-sampling -/

theorem gen_idiv_nonneg (a : Nat) : 0 ≤ Gen.idiv (Int.ofNat a) 100 := by
  rw [idiv_100]; exact Int.natCast_nonneg _

/-- `train_size = idiv(train_perc * samples.size(), 100)` and `valid_size = samples.size() - train_size` -/
theorem model_random_sizes_is_generated (tp n : Nat) (folds : Int) :
    Gen.SplitRandom.outer0 n folds tp = ((trainSize tp n : Nat) : Int) ∧
    Gen.SplitRandom.outer1 n folds tp = (n : Int) - ((trainSize tp n : Nat) : Int) := by
  have h : Gen.idiv ((tp : Int) * (n : Int)) 100 = ((trainSize tp n : Nat) : Int) := by
    unfold trainSize
    have := gen_idiv_nonneg (tp * n)
    simp only [Int.ofNat_eq_natCast, Int.natCast_mul] at this ⊢
    omega
  simp only [Gen.SplitRandom.outer0, Gen.SplitRandom.outer1, h, and_self]

/-- one iteration: `train = segment(0, train_size)`, `valid = segment(train_size, valid_size)`, both sorted, pair `(train, valid)` -/
theorem model_randomFold_is_generated (sort : List Int → List Int) (perm : List Int) (ts : Nat) (folds tp fold : Int) :
    randomFold sort ts perm = Gen.SplitRandom.foldPair sort perm folds tp fold (ts : Int) ((perm.length : Int) - (ts : Int)) := by
  simp only [randomFold, Gen.SplitRandom.foldPair, Gen.SplitRandom.trainPieces, Gen.SplitRandom.validPieces,
    Gen.SplitRandom.assemble, List.flatMap_cons, List.flatMap_nil, List.append_nil, Gen.SplitRandom.segment]
  congr 2
  rw [Int.toNat_natCast, show ((perm.length : Int) - (ts : Int)).toNat = perm.length - ts by omega]

theorem gen_random_loop {G : Type} (shuffle : G → List Int → List Int × G) (sort : List Int → List Int)
    (hlen : ∀ g l, (shuffle g l).1.length = l.length) (folds tp : Int) (ts n : Nat) :
    ∀ (k : Nat) (g : G) (l : List Int) (fold : Nat), l.length = n →
      (randomPerms shuffle g l k).map (fun p => randomFold sort ts p) =
        Gen.SplitRandom.loop shuffle sort folds tp (ts : Int) ((n : Int) - (ts : Int)) g l fold k
  | 0, _, _, _, _ => rfl
  | k + 1, g, l, fold, hl => by
    have hl' : (shuffle g l).1.length = n := (hlen g l).trans hl
    simp only [randomPerms, Gen.SplitRandom.loop, List.map_cons]
    rw [gen_random_loop shuffle sort hlen folds tp ts n k _ _ (fold + 1) hl',
      model_randomFold_is_generated sort _ ts folds tp fold, hl']

/-- `random_splitter_t::split`: the sizes are computed once before the loop, ONE generator `make_rng(seed)` for the call, a shuffle
    in place at the start of every fold. (`hlen`: a shuffle keeps the number of samples — the model computes the training size
    from each shuffled list, the code once from the argument.) -/
theorem model_random_split_is_generated {G : Type} (seedRng : Nat → G) (shuffle : G → List Int → List Int × G)
    (sort : List Int → List Int) (hlen : ∀ g l, (shuffle g l).1.length = l.length) (seed folds tp : Nat) (samples : List Int) :
    randomSplit sort (randomPerms shuffle (seedRng seed) samples folds) tp =
      Gen.SplitRandom.split seedRng shuffle sort seed (folds : Int) (tp : Int) samples := by
  have hmem : ∀ (k : Nat) (g : G) (l : List Int), ∀ p ∈ randomPerms shuffle g l k, p.length = l.length := by
    intro k
    induction k with
    | zero => intro g l p hp; simp [randomPerms] at hp
    | succ k ih =>
      intro g l p hp
      simp only [randomPerms, List.mem_cons] at hp
      rcases hp with rfl | hp
      · exact hlen g l
      · exact (ih _ _ p hp).trans (hlen g l)
  simp only [randomSplit, Gen.SplitRandom.split, Int.toNat_natCast,
    (model_random_sizes_is_generated tp samples.length folds).1, (model_random_sizes_is_generated tp samples.length folds).2]
  rw [← gen_random_loop shuffle sort hlen folds tp (trainSize tp samples.length) samples.length folds _ _ 0 rfl]
  exact List.map_congr_left (fun p hp => by rw [hmem _ _ _ p hp])

/-- `hlen` is satisfiable (a reversal is a shuffle that keeps the length) -/
example : ∀ (g : Nat) (l : List Int), ((fun (g : Nat) (l : List Int) => (l.reverse, g + 1)) g l).1.length = l.length := by
  intro g l; simp

/-- the object level (`Splitter.split` of `Model/SplitSampler.lean`, run by the driver for the `hist` family) is the generated
    text of both `split` functions -/
theorem model_splitter_split_is_generated {G : Type} (seedRng : Nat → G) (shuffle : G → List Int → List Int × G)
    (sort : List Int → List Int) (hlen : ∀ g l, (shuffle g l).1.length = l.length) (s : Splitter) (samples : List Int) :
    s.split seedRng shuffle sort samples =
      match s.kind with
      | .kfold => Gen.SplitKFold.split seedRng shuffle sort s.seed (s.folds : Int) samples
      | .random => Gen.SplitRandom.split seedRng shuffle sort s.seed (s.folds : Int) (s.trainPer : Int) samples := by
  unfold Splitter.split
  cases s.kind
  · exact model_kfold_is_generated seedRng shuffle sort s.seed s.folds samples
  · exact model_random_split_is_generated seedRng shuffle sort hlen s.seed s.folds s.trainPer samples

end NanoVerif.Split
