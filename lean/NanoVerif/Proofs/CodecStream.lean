import NanoVerif.Model.WireStream
import NanoVerif.Proofs.Wire
/-!
  C15 — the procedures of `Model/WireStream.lean` (the readers as coded: sticky failure state, loops, early returns)
  implement the codecs of `Model/Codec.lean` / `Model/Wire.lean` (core Lean only).
-/
namespace NanoVerif.Codec.Stream
open NanoVerif.Codec NanoVerif.Gen.CodecConsts

/-- `R` implements `c`: started on a good stream over `bs`, it stores the decoded value and leaves exactly the rest,
    stream still good — or, exactly when the codec refuses `bs`, it ends with a failed stream or an exception;
    started on a failed stream it ends failed (nothing is ever "repaired") -/
def Impl {α : Type} (R : Reader α) (c : Codec α) : Prop :=
  (∀ bs, match c.dec bs with
    | some (v, r) => R ⟨bs, true⟩ = .val v ⟨r, true⟩
    | none => (R ⟨bs, true⟩).failed = true) ∧
  (∀ s, s.ok = false → (R s).failed = true)

theorem Impl.some {α : Type} {R : Reader α} {c : Codec α} (h : Impl R c) {bs : Bytes} {v : α} {r : Bytes}
    (hd : c.dec bs = some (v, r)) : R ⟨bs, true⟩ = .val v ⟨r, true⟩ := by
  have := h.1 bs; rw [hd] at this; exact this

theorem Impl.none {α : Type} {R : Reader α} {c : Codec α} (h : Impl R c) {bs : Bytes}
    (hd : c.dec bs = none) : (R ⟨bs, true⟩).failed = true := by
  have := h.1 bs; rw [hd] at this; exact this

theorem Impl.sticky {α : Type} {R : Reader α} {c : Codec α} (h : Impl R c) (buf : Bytes) :
    (R ⟨buf, false⟩).failed = true := h.2 ⟨buf, false⟩ rfl

/-- what `Impl` says about acceptance: the procedure ends with a good stream exactly when the codec decodes -/
theorem Impl.accepts_iff {α : Type} {R : Reader α} {c : Codec α} (h : Impl R c) (bs : Bytes) :
    (R ⟨bs, true⟩).failed = false ↔ (c.dec bs).isSome = true := by
  cases hd : c.dec bs with
  | none => simp [h.none hd]
  | some p => obtain ⟨v, r⟩ := p; simp [h.some hd, Res.failed]

/-! ### primitives -/

theorem impl_raw (n : Nat) : Impl (rdRaw n) (raw n) := by
  refine ⟨fun bs => ?_, fun s hs => ?_⟩
  · simp only [raw, rdRaw]
    cases h : takeN n bs with
    | none => simp [Res.failed]
    | some p => simp
  · simp [rdRaw, hs, Res.failed]

/-- `x ← R; return f x` implements `pmap c (some ∘ f) g` -/
theorem impl_map {α β : Type} {R : Reader α} {c : Codec α} (h : Impl R c) (f : α → β) (g : β → α) :
    Impl (bind R (fun x => ret (f x))) (pmap c (fun x => some (f x)) g) := by
  refine ⟨fun bs => ?_, fun s hs => ?_⟩
  · simp only [pmap, bind]
    cases hd : c.dec bs with
    | none =>
      have := h.none hd
      cases hr : R ⟨bs, true⟩ with
      | throw => simp [Res.failed]
      | val x s' => rw [hr] at this; simpa [ret, Res.failed] using this
    | some p => obtain ⟨v, r⟩ := p; simp [h.some hd, ret]
  · have := h.2 s hs
    simp only [bind]
    cases hr : R s with
    | throw => simp [Res.failed]
    | val x s' => rw [hr] at this; simpa [ret, Res.failed] using this

theorem impl_uint (k : Nat) : Impl (rdUInt k) (uintLE k) := impl_map (impl_raw k) leNat (leBytes k)

theorem impl_int (k : Nat) : Impl (rdInt k) (intLE k) := impl_map (impl_uint k) (toSigned k) (ofSigned k)

/-! ### strings: the character loop equals "read n bytes or fail" -/

theorem rdChars_failed : ∀ (n : Nat) (buf : Bytes), ∃ x, rdChars n ⟨buf, false⟩ = .val x ⟨buf, false⟩
  | 0, buf => ⟨[], rfl⟩
  | n + 1, buf => by
    obtain ⟨x, hx⟩ := rdChars_failed n buf
    exact ⟨0 :: x, by simp [rdChars, bind, rdRaw, hx, ret]⟩

/-- the loop `for (char& c : string) read(stream, c)` over a string of `n` characters on a good stream: all `n` bytes or
    a failed stream -/
theorem rdChars_spec : ∀ (n : Nat) (bs : Bytes),
    match takeN n bs with
    | some (x, r) => rdChars n ⟨bs, true⟩ = .val x ⟨r, true⟩
    | none => ∃ x, rdChars n ⟨bs, true⟩ = .val x ⟨[], false⟩
  | 0, bs => by simp [takeN, rdChars, ret]
  | n + 1, [] => by
    obtain ⟨x, hx⟩ := rdChars_failed n []
    simp [takeN, rdChars, bind, rdRaw, hx, ret]
  | n + 1, b :: bs => by
    have ih := rdChars_spec n bs
    simp only [takeN]
    cases h : takeN n bs with
    | none =>
      rw [h] at ih
      obtain ⟨x, hx⟩ := ih
      exact ⟨b :: x, by simp [rdChars, bind, rdRaw, takeN, hx, ret]⟩
    | some p =>
      obtain ⟨x, r⟩ := p
      rw [h] at ih
      simp [rdChars, bind, rdRaw, takeN, ih, ret]

theorem impl_string : Impl rdString str := by
  refine ⟨fun bs => ?_, fun s hs => ?_⟩
  · have hu := (impl_uint 4).1 bs
    simp only [str, pmap, dseq, u32, rdString]
    cases h4 : (uintLE 4).dec bs with
    | none =>
      rw [h4] at hu
      cases hr : rdUInt 4 ⟨bs, true⟩ with
      | throw => simp [Res.failed]
      | val x s' =>
        rw [hr] at hu
        have : s'.ok = false := by simpa [Res.failed] using hu
        simp [this, Res.failed]
    | some p =>
      obtain ⟨size, r⟩ := p
      rw [h4] at hu
      simp only [] at hu
      simp only [hu, raw, if_true]
      have hc := rdChars_spec size r
      cases ht : takeN size r with
      | none =>
        rw [ht] at hc
        obtain ⟨x, hx⟩ := hc
        simp [hx, Res.failed]
      | some q =>
        obtain ⟨x, r'⟩ := q
        rw [ht] at hc
        simp [hc]
  · obtain ⟨buf, ok⟩ := s
    simp only at hs; subst hs
    have := (impl_uint 4).sticky buf
    simp only [rdString]
    cases hr : rdUInt 4 ⟨buf, false⟩ with
    | throw => simp [Res.failed]
    | val x s' =>
      rw [hr] at this
      have : s'.ok = false := by simpa [Res.failed] using this
      simp [this, Res.failed]

/-! ### vectors: the loop with the early return -/

theorem rdElems_spec {α : Type} {R : Reader α} {c : Codec α} (h : Impl R c) : ∀ (n : Nat) (bs : Bytes),
    match decN c n bs with
    | some (xs, r) => rdElems R n ⟨bs, true⟩ = .val xs ⟨r, true⟩
    | none => (rdElems R n ⟨bs, true⟩).failed = true
  | 0, bs => by simp [decN, rdElems, ret]
  | n + 1, bs => by
    simp only [decN, rdElems]
    cases hd : c.dec bs with
    | none =>
      have := h.none hd
      cases hr : R ⟨bs, true⟩ with
      | throw => simp [Res.failed]
      | val x s' =>
        rw [hr] at this
        have : s'.ok = false := by simpa [Res.failed] using this
        simp [this, Res.failed]
    | some p =>
      obtain ⟨x, r⟩ := p
      simp only [h.some hd, if_true]
      have ih := rdElems_spec h n r
      cases hn : decN c n r with
      | none =>
        rw [hn] at ih
        cases hr : rdElems R n ⟨r, true⟩ with
        | throw => simp [Res.failed]
        | val xs s' => rw [hr] at ih; simpa [Res.failed] using ih
      | some q =>
        obtain ⟨xs, r'⟩ := q
        rw [hn] at ih
        simp [ih]

theorem impl_vec {α : Type} {R : Reader α} {c : Codec α} (h : Impl R c) : Impl (rdVec R) (vec c) := by
  refine ⟨fun bs => ?_, fun s hs => ?_⟩
  · have hu := (impl_uint 8).1 bs
    simp only [vec, pmap, dseq, u64, rdVec]
    cases h8 : (uintLE 8).dec bs with
    | none =>
      rw [h8] at hu
      cases hr : rdUInt 8 ⟨bs, true⟩ with
      | throw => simp [Res.failed]
      | val x s' =>
        rw [hr] at hu
        have : s'.ok = false := by simpa [Res.failed] using hu
        simp [this, Res.failed]
    | some p =>
      obtain ⟨size, r⟩ := p
      rw [h8] at hu
      simp only [] at hu
      simp only [hu, rep, if_true]
      have hc := rdElems_spec h size r
      cases ht : decN c size r with
      | none => rw [ht] at hc; simpa using hc
      | some q => obtain ⟨xs, r'⟩ := q; rw [ht] at hc; simp [hc]
  · obtain ⟨buf, ok⟩ := s
    simp only at hs; subst hs
    have := (impl_uint 8).sticky buf
    simp only [rdVec]
    cases hr : rdUInt 8 ⟨buf, false⟩ with
    | throw => simp [Res.failed]
    | val x s' =>
      rw [hr] at this
      have : s'.ok = false := by simpa [Res.failed] using this
      simp [this, Res.failed]

/-! ### factory objects: the look-up after a failed id read -/

theorem failed_of_not_ok {α : Type} (r : Res α) (h : r.failed = true) :
    r = .throw ∨ ∃ x buf, r = .val x ⟨buf, false⟩ := by
  cases r with
  | throw => exact Or.inl rfl
  | val x s =>
    obtain ⟨buf, ok⟩ := s
    have : ok = false := by simpa [Res.failed] using h
    subst this
    exact Or.inr ⟨x, buf, rfl⟩

theorem impl_factory {β : Type} [Inhabited β] {B : Reader β} {body : Codec β} (ids : List Bytes) (h : Impl B body) :
    Impl (rdFactory ids B) (factory ids body) := by
  refine ⟨fun bs => ?_, fun s hs => ?_⟩
  · simp only [factory, dseq, rdFactory]
    cases hd : str.dec bs with
    | none =>
      rcases failed_of_not_ok _ (impl_string.none hd) with e | ⟨id, buf, e⟩
      · simp [e, Res.failed]
      · simp only [e, setFail]
        by_cases hm : id ∈ ids
        · simp only [hm, if_true]
          rcases failed_of_not_ok _ (h.sticky buf) with e' | ⟨y, buf', e'⟩
          · simp [e', Res.failed]
          · simp [e', Res.failed]
        · simp [hm, Res.failed]
    | some p =>
      obtain ⟨id, r⟩ := p
      simp only [impl_string.some hd, if_true]
      by_cases hm : id ∈ ids
      · simp only [hm, if_true]
        cases hb : body.dec r with
        | none =>
          rcases failed_of_not_ok _ (h.none hb) with e' | ⟨y, buf', e'⟩
          · simp [e', Res.failed]
          · simp [e', Res.failed]
        | some q => obtain ⟨y, r'⟩ := q; simp [h.some hb]
      · simp [hm, fail, setFail, Res.failed]
  · obtain ⟨buf, ok⟩ := s
    simp only at hs; subst hs
    simp only [rdFactory]
    rcases failed_of_not_ok _ (impl_string.sticky buf) with e | ⟨id, buf1, e⟩
    · simp [e, Res.failed]
    · simp only [e, setFail]
      by_cases hm : id ∈ ids
      · simp only [hm, if_true]
        rcases failed_of_not_ok _ (h.sticky buf1) with e' | ⟨y, buf', e'⟩
        · simp [e', Res.failed]
        · simp [e', Res.failed]
      · simp [hm, Res.failed]

/-! ### sequences -/

/-- statement sequence `x ← A; y ← B x` implements `dseq` -/
theorem impl_dseq {α β : Type} {A : Reader α} {a : Codec α} {B : α → Reader β} {b : α → Codec β}
    (ha : Impl A a) (hb : ∀ x, Impl (B x) (b x)) :
    Impl (bind A (fun x => bind (B x) (fun y => ret (x, y)))) (dseq a b) := by
  refine ⟨fun bs => ?_, fun s hs => ?_⟩
  · simp only [dseq, bind]
    cases hd : a.dec bs with
    | none =>
      rcases failed_of_not_ok _ (ha.none hd) with e | ⟨x, buf, e⟩
      · simp [e, Res.failed]
      · simp only [e]
        rcases failed_of_not_ok _ ((hb x).sticky buf) with e' | ⟨y, buf', e'⟩
        · simp [e', Res.failed]
        · simp [e', ret, Res.failed]
    | some p =>
      obtain ⟨x, r⟩ := p
      simp only [ha.some hd]
      cases hd2 : (b x).dec r with
      | none =>
        rcases failed_of_not_ok _ ((hb x).none hd2) with e' | ⟨y, buf', e'⟩
        · simp [e', Res.failed]
        · simp [e', ret, Res.failed]
      | some q => obtain ⟨y, r'⟩ := q; simp [(hb x).some hd2, ret]
  · obtain ⟨buf, ok⟩ := s
    simp only at hs; subst hs
    simp only [bind]
    rcases failed_of_not_ok _ (ha.sticky buf) with e | ⟨x, buf1, e⟩
    · simp [e, Res.failed]
    · simp only [e]
      rcases failed_of_not_ok _ ((hb x).sticky buf1) with e' | ⟨y, buf', e'⟩
      · simp [e', Res.failed]
      · simp [e', ret, Res.failed]

/-- the `||` chain `!A || !B` (the second read is skipped once the stream failed) implements `dseq` as well -/
theorem impl_dseq_or {α β : Type} [Inhabited α] [Inhabited β] {A : Reader α} {a : Codec α} {B : α → Reader β}
    {b : α → Codec β} (ha : Impl A a) (hb : ∀ x, Impl (B x) (b x)) :
    Impl (bindOk A (fun x => bind (B x) (fun y => ret (x, y)))) (dseq a b) := by
  refine ⟨fun bs => ?_, fun s hs => ?_⟩
  · simp only [dseq, bindOk]
    cases hd : a.dec bs with
    | none =>
      rcases failed_of_not_ok _ (ha.none hd) with e | ⟨x, buf, e⟩
      · simp [e, Res.failed]
      · simp [e, Res.failed]
    | some p =>
      obtain ⟨x, r⟩ := p
      simp only [ha.some hd, if_true, bind]
      cases hd2 : (b x).dec r with
      | none =>
        rcases failed_of_not_ok _ ((hb x).none hd2) with e' | ⟨y, buf', e'⟩
        · simp [e', Res.failed]
        · simp [e', ret, Res.failed]
      | some q => obtain ⟨y, r'⟩ := q; simp [(hb x).some hd2, ret]
  · obtain ⟨buf, ok⟩ := s
    simp only at hs; subst hs
    simp only [bindOk]
    rcases failed_of_not_ok _ (ha.sticky buf) with e | ⟨x, buf1, e⟩
    · simp [e, Res.failed]
    · simp [e, Res.failed]

/-- `critical(<the stream failed>, …)` turns a failed stream into an exception: still an implementation -/
theorem impl_critical {α : Type} {R : Reader α} {c : Codec α} (h : Impl R c) : Impl (critical R) c := by
  refine ⟨fun bs => ?_, fun s hs => ?_⟩
  · simp only [critical]
    cases hd : c.dec bs with
    | none =>
      rcases failed_of_not_ok _ (h.none hd) with e | ⟨x, buf, e⟩
      · simp [e, Res.failed]
      · simp [e, Res.failed]
    | some p => obtain ⟨v, r⟩ := p; simp [h.some hd]
  · obtain ⟨buf, ok⟩ := s
    simp only at hs; subst hs
    simp only [critical]
    rcases failed_of_not_ok _ (h.sticky buf) with e | ⟨x, buf1, e⟩
    · simp [e, Res.failed]
    · simp [e, Res.failed]

/-- after a `critical` nothing continues on a failed stream: the outcome on a failed input is an exception -/
theorem critical_throws {α : Type} {R : Reader α} {c : Codec α} (h : Impl R c) (buf : Bytes) :
    critical R ⟨buf, false⟩ = .throw := by
  simp only [critical]
  rcases failed_of_not_ok _ (h.sticky buf) with e | ⟨x, buf1, e⟩
  · simp [e]
  · simp [e]

/-! ### tensors -/

theorem rdDims_failed : ∀ (n : Nat) (buf : Bytes), ∃ x, rdDims n ⟨buf, false⟩ = .val x ⟨buf, false⟩
  | 0, buf => ⟨[], rfl⟩
  | n + 1, buf => by
    obtain ⟨x, hx⟩ := rdDims_failed n buf
    exact ⟨toSigned 4 (leNat []) :: x, by simp [rdDims, rdInt, rdUInt, bind, rdRaw, hx, ret]⟩

theorem impl_dims : ∀ n : Nat, Impl (rdDims n) (rep i32 n)
  | 0 => ⟨fun bs => by simp [rep, decN, rdDims, ret], fun s hs => by simp [rdDims, ret, Res.failed, hs]⟩
  | n + 1 => by
    have ih := impl_dims n
    refine ⟨fun bs => ?_, fun s hs => ?_⟩
    · simp only [rep, decN, rdDims, bind, i32]
      cases hd : (intLE 4).dec bs with
      | none =>
        rcases failed_of_not_ok _ ((impl_int 4).none hd) with e | ⟨x, buf, e⟩
        · simp [e, Res.failed]
        · obtain ⟨y, hy⟩ := rdDims_failed n buf
          simp [e, hy, ret, Res.failed]
      | some p =>
        obtain ⟨x, r⟩ := p
        simp only [(impl_int 4).some hd]
        have h1 := ih.1 r
        simp only [rep, i32] at h1
        cases hn : decN (intLE 4) n r with
        | none =>
          rw [hn] at h1
          rcases failed_of_not_ok _ h1 with e' | ⟨y, buf', e'⟩
          · simp [e', Res.failed]
          · simp [e', ret, Res.failed]
        | some q => obtain ⟨xs, r'⟩ := q; rw [hn] at h1; simp only [] at h1; simp [h1, ret]
    · obtain ⟨buf, ok⟩ := s
      simp only at hs; subst hs
      obtain ⟨y, hy⟩ := rdDims_failed (n + 1) buf
      simp [hy, Res.failed]

/-- the header fields in wire order -/
def hdr5 (rank : Nat) : Codec (Nat × Nat × List Int × Nat × Nat) := seq u32 (seq u32 (seq (rep i32 rank) (seq u32 u64)))

theorem impl_tensorHeader (rank : Nat) : Impl (rdTensorHeader rank) (hdr5 rank) :=
  impl_dseq_or (impl_uint 4) (fun _ => impl_dseq_or (impl_uint 4) (fun _ => impl_dseq_or (impl_dims rank)
    (fun _ => impl_dseq_or (impl_uint 4) (fun _ => impl_uint 8))))

/-- the tensor codec (which compares each constant as soon as it is read) in terms of "all five fields, then compare" -/
theorem tensor_dec_via_header (k : Scalar) (rank : Nat) (bs : Bytes) :
    (tensor k rank).dec bs =
      match (hdr5 rank).dec bs with
      | none => none
      | some ((v, r, ds, sc, h), r5) =>
        if v = hashVersion ∧ r = rank ∧ sc = k.size then
          if dimsSize ds < 0 then none
          else
            match takeN ((dimsSize ds).toNat * k.size) r5 with
            | none => none
            | some (pl, r6) =>
              if h = (hashPayload k (dimsSize ds).toNat pl).toNat then some (⟨ds, pl⟩, r6) else none
        else none := by
  simp only [tensor, pmap, dseq, seq, tensorHeader, const, tensorBody, hdr5]
  cases h1 : u32.dec bs with
  | none => first | rfl | simp_all
  | some p1 =>
    obtain ⟨v, r1⟩ := p1
    simp only []
    by_cases hv : v = hashVersion
    · simp only [hv, if_true, true_and]
      cases h2 : u32.dec r1 with
      | none => first | rfl | simp_all
      | some p2 =>
        obtain ⟨r, r2⟩ := p2
        simp only []
        by_cases hr : r = rank
        · simp only [hr, if_true, true_and]
          cases h3 : (rep i32 rank).dec r2 with
          | none => first | rfl | simp_all
          | some p3 =>
            obtain ⟨ds, r3⟩ := p3
            simp only []
            cases h4 : u32.dec r3 with
            | none => first | rfl | simp_all
            | some p4 =>
              obtain ⟨sc, r4⟩ := p4
              simp only []
              by_cases hs : sc = k.size
              · simp only [hs, if_true]
                by_cases hneg : dimsSize ds < 0
                · simp only [hneg, if_true, fail]
                  cases u64.dec r4 with
                  | none => first | rfl | simp_all
                  | some p5 => first | rfl | (obtain ⟨_, _⟩ := p5; simp_all)
                · simp only [hneg, if_false, raw]
                  cases h5 : u64.dec r4 with
                  | none => first | rfl | simp_all
                  | some p5 =>
                    obtain ⟨h, r5⟩ := p5
                    simp only []
                    cases h6 : takeN ((dimsSize ds).toNat * k.size) r5 with
                    | none => first | rfl | simp_all
                    | some p6 =>
                      obtain ⟨pl, r6⟩ := p6
                      simp only []
                      by_cases hh : h = (hashPayload k (dimsSize ds).toNat pl).toNat
                      · simp [hh, hneg]
                      · simp [hh, hneg]
              · simp only [hs, if_false]
                cases u64.dec r4 with
                | none => first | rfl | simp_all
                | some p5 => first | rfl | (obtain ⟨_, _⟩ := p5; simp_all)
        · simp only [hr, if_false, false_and]
          cases (rep i32 rank).dec r2 with
          | none => first | rfl | simp_all
          | some p3 =>
            simp only []
            cases u32.dec p3.2 with
            | none => first | rfl | simp_all
            | some p4 =>
              simp only []
              cases u64.dec p4.2 with
              | none => first | rfl | simp_all
              | some p5 => first | rfl | (obtain ⟨_, _⟩ := p5; simp_all)
    · simp only [hv, if_false, false_and]
      cases u32.dec r1 with
      | none => first | rfl | simp_all
      | some p2 =>
        simp only []
        cases (rep i32 rank).dec p2.2 with
        | none => first | rfl | simp_all
        | some p3 =>
          simp only []
          cases u32.dec p3.2 with
          | none => first | rfl | simp_all
          | some p4 =>
            simp only []
            cases u64.dec p4.2 with
            | none => first | rfl | simp_all
            | some p5 => first | rfl | (obtain ⟨_, _⟩ := p5; simp_all)

theorem rdTensorHeader_failed (rank : Nat) (buf : Bytes) :
    ∃ x, rdTensorHeader rank ⟨buf, false⟩ = .val x ⟨buf, false⟩ := by
  refine ⟨default, ?_⟩
  simp [rdTensorHeader, bindOk, rdUInt, bind, rdRaw, ret]

/-- the tensor reader as coded (all header fields first, then the comparisons, `resize`, content, hash) implements the
    tensor codec -/
theorem impl_tensor (k : Scalar) (rank : Nat) : Impl (rdTensor k rank) (tensor k rank) := by
  refine ⟨fun bs => ?_, fun s hs => ?_⟩
  · rw [tensor_dec_via_header]
    simp only [rdTensor]
    cases hd : (hdr5 rank).dec bs with
    | none =>
      rcases failed_of_not_ok _ ((impl_tensorHeader rank).none hd) with e | ⟨x, buf, e⟩
      · simp [e, Res.failed]
      · obtain ⟨v, r, ds, sc, h⟩ := x
        simp [e, Res.failed, setFail]
    | some p =>
      obtain ⟨⟨v, r, ds, sc, h⟩, r5⟩ := p
      simp only [(impl_tensorHeader rank).some hd]
      by_cases hc : v = hashVersion ∧ r = rank ∧ sc = k.size
      · obtain ⟨hv, hr, hsz⟩ := hc
        subst hv hr hsz
        simp only [and_self, if_true, bne_self_eq_false, Bool.or_false, Bool.not_true, Bool.false_eq_true, if_false]
        by_cases hneg : dimsSize ds < 0
        · simp [hneg, setFail, Res.failed]
        · simp only [hneg, if_false, rdRaw, if_true]
          cases h6 : takeN ((dimsSize ds).toNat * k.size) r5 with
          | none => simp [Res.failed, setFail]
          | some p6 =>
            obtain ⟨pl, r6⟩ := p6
            by_cases hh : h = (hashPayload k (dimsSize ds).toNat pl).toNat
            · simp [hh]
            · simp [hh, Res.failed, setFail]
      · simp only [hc, if_false]
        have : (!true || v != hashVersion || r != rank || sc != k.size) = true := by
          by_cases hv : v = hashVersion
          · by_cases hr : r = rank
            · by_cases hsz : sc = k.size
              · exact absurd ⟨hv, hr, hsz⟩ hc
              · simp [hsz]
            · simp [hr]
          · simp [hv]
        have hc' : (¬v = hashVersion ∨ ¬r = rank) ∨ ¬sc = k.size := by
          by_cases hv : v = hashVersion <;> by_cases hr : r = rank <;> by_cases hsz : sc = k.size <;> simp_all
        simp [hc', Res.failed, setFail]
  · obtain ⟨buf, ok⟩ := s
    simp only at hs; subst hs
    obtain ⟨x, hx⟩ := rdTensorHeader_failed rank buf
    obtain ⟨v, r, ds, sc, h⟩ := x
    simp [rdTensor, hx, Res.failed, setFail]

/-! ### configurables: `critical` after the version triple, the version comparison, `critical` after the parameters -/

theorem impl_version3 : Impl rdVersion (seq i32 (seq i32 i32)) :=
  impl_critical (impl_dseq_or (impl_int 4) (fun _ => impl_dseq_or (impl_int 4) (fun _ => impl_int 4)))

/-- a `critical` never hands back a failed stream -/
theorem critical_val_ok {α : Type} (R : Reader α) (s : IStream) (x : α) (s' : IStream)
    (h : critical R s = .val x s') : s'.ok = true := by
  simp only [critical] at h
  split at h
  · cases h
  · split at h
    · cases h; assumption
    · cases h

theorem critical_failed_throw {α : Type} (R : Reader α) (s : IStream) (h : (critical R s).failed = true) :
    critical R s = .throw := by
  cases hr : critical R s with
  | throw => rfl
  | val x s' =>
    have := critical_val_ok R s x s' hr
    rw [hr] at h
    simp [Res.failed, this] at h

/-- `x ← R; critical(f x refuses)` implements `pmap c f g` -/
theorem impl_pmap_throw {α β : Type} {R : Reader α} {c : Codec α} (h : Impl R c) (f : α → Option β) (g : β → α) :
    Impl (bind R (criticalUnless f)) (pmap c f g) := by
  refine ⟨fun bs => ?_, fun s hs => ?_⟩
  · simp only [pmap, bind]
    cases hd : c.dec bs with
    | none =>
      rcases failed_of_not_ok _ (h.none hd) with e | ⟨x, buf, e⟩
      · simp [e, Res.failed]
      · simp only [e, criticalUnless]
        cases f x <;> simp [Res.failed]
    | some p =>
      obtain ⟨x, r⟩ := p
      simp only [h.some hd, criticalUnless]
      cases f x <;> simp [Res.failed]
  · obtain ⟨buf, ok⟩ := s
    simp only at hs; subst hs
    simp only [bind]
    rcases failed_of_not_ok _ (h.sticky buf) with e | ⟨x, buf1, e⟩
    · simp [e, Res.failed]
    · simp only [e, criticalUnless]
      cases f x <;> simp [Res.failed]

theorem impl_configurable {P : Reader Parameter} (hP : Impl P parameter) : Impl (rdConfigurable P) configurable :=
  impl_map (impl_dseq (impl_pmap_throw impl_version3 _ _) (fun _ => impl_critical (impl_vec hP))) _ _

/-! ### the model readers: sequences of `critical(!read(a) || !read(b) …)` -/

theorem impl_learner {P : Reader Parameter} {F : Reader Feature} (hP : Impl P parameter) (hF : Impl F feature) :
    Impl (rdLearner P F) learner :=
  impl_map (impl_dseq (impl_configurable hP) (fun _ => impl_critical (impl_dseq_or (impl_vec hF) (fun _ => hF)))) _ _

theorem impl_linear {P : Reader Parameter} {F : Reader Feature} (hP : Impl P parameter) (hF : Impl F feature) :
    Impl (rdLinear P F) linear :=
  impl_pmap_throw (impl_dseq (impl_learner hP hF)
    (fun _ => impl_critical (impl_dseq_or (impl_tensor .f64 1) (fun _ => impl_tensor .f64 2)))) _ _

theorem impl_gboost {P : Reader Parameter} {F : Reader Feature} {W : Reader WLearner} (hP : Impl P parameter)
    (hF : Impl F feature) (hW : Impl W wlearner) : Impl (rdGBoost P F W) gboost :=
  impl_map (impl_dseq (impl_learner hP hF)
    (fun _ => impl_critical (impl_dseq_or (impl_tensor .f64 1)
      (fun _ => impl_dseq_or (impl_vec hW) (fun _ => impl_vec hW))))) _ _

end NanoVerif.Codec.Stream
