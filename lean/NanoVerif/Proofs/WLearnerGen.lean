import NanoVerif.Model.WLearner
import NanoVerif.Model.WLearnerKTable
import NanoVerif.Gen.WLearnerTable
import NanoVerif.Gen.WLearnerCriterion
import NanoVerif.Gen.WLearnerAccumulator
import NanoVerif.Gen.WLearnerSweep
import Mathlib.Algebra.Order.Field.Basic
import Mathlib.Algebra.Order.Field.Rat
/-!
  C10 — the hand-written model text of Model/WLearner.lean IS the text regenerated from the C++ sources on every check
  (tools/props/c10_translate.py → Gen/WLearnerCriterion.lean, Gen/WLearnerAccumulator.lean, Gen/WLearnerSweep.lean).

  The theorems of the first section hold for EVERY scalar type that has the operations the model uses (no algebraic law is used:
  they are `rfl` up to unfolding / a case split on a decidable comparison), so they also hold at `Float`, where `driver_c10` runs the
  model against the implementation. The second section needs a linear ordered field: the C++ accumulator is written with the
  gradient (`r1 -= g`), the model with the residual `r = -g` (`r1 + r`), and the right hinge tests `value >= threshold` where the
  model says `¬ value < threshold`.

  An edit of one of the translated C++ formulas changes the generated text and breaks the corresponding theorem below.
-/
set_option linter.unusedSectionVars false
set_option linter.unusedVariables false

namespace NanoVerif.WLearner
open NanoVerif.Gen

/-- the model's criterion as the generated enumeration (`enum class wlearner_criterion`) -/
def Crit.toGen : Crit → WLearnerCriterion.Criterion
  | .rss => .rss
  | .aic => .aic
  | .aicc => .aicc
  | .bic => .bic

/-- the wire code of a criterion (`Crit.ofNat?`, the op line's `<crit>`) is its position in the C++ enumeration -/
theorem model_crit_code_is_generated (c : Crit) : Crit.ofNat? c.toGen.ctorIdx = some c := by
  cases c <;> rfl

example : Crit.ofNat? (Crit.toGen .bic).ctorIdx = some .bic := model_crit_code_is_generated _

section
variable {α : Type} [Add α] [Sub α] [Mul α] [Div α] [Neg α] [LT α] [LE α] [DecidableLT α] [DecidableLE α] [OfNat α 0] [OfNat α 1]
  [NatCast α] [Log α] [FinTest α]

/-! ### criteria — include/nano/core/stats.h, src/wlearner/criterion.cpp -/

/-- `aic` / `aicc` / `bic` of the model are the generated `AIC` / `AICc` / `BIC` -/
theorem model_aic_is_generated (rss : α) (k n : Nat) :
    aic rss k n = WLearnerCriterion.AIC Log.log rss k n ∧
    aicc rss k n = WLearnerCriterion.AICc Log.log rss k n ∧
    bic rss k n = WLearnerCriterion.BIC Log.log rss k n := ⟨rfl, rfl, rfl⟩

/-- `makeScore` of the model, at the floor `K = ε·1e3` regenerated from the source, is the generated `make_score` -/
theorem model_score_is_generated [OfNat α 1000] (eps : α) (c : Crit) (rss : α) (k n : Nat) :
    makeScore (WLearnerCriterion.scoreFloor eps) c rss k n = WLearnerCriterion.makeScore Log.log eps c.toGen rss k n := by
  cases c <;> rfl

/-! ### accumulator closed forms, affine — include/nano/wlearner/accumulator.h, src/wlearner/affine.cpp -/

theorem model_fitConstant_is_generated (m : Mom α) (o : Nat) :
    fitConstant m o = WLearnerAccumulator.fitConstant m.x0 (m.r1 o) := rfl

/-- the count update of both `update` overloads and the feature moments of the second one -/
theorem model_upd_moments_is_generated (m : Mom α) (x : α) (r : Vec α) :
    (m.upd0 r).x0 = WLearnerAccumulator.upd0_x0 m.x0 ∧ (m.upd x r).x0 = WLearnerAccumulator.upd0_x0 m.x0 ∧
    (m.upd x r).x1 = WLearnerAccumulator.upd_x1 m.x1 x ∧ (m.upd x r).x2 = WLearnerAccumulator.upd_x2 m.x2 x :=
  ⟨rfl, rfl, rfl, rfl⟩

theorem model_affineConst_is_generated (eps1 : α) (m : Mom α) :
    affineConst eps1 m = decide (WLearnerAccumulator.constant eps1 m.x0 m.x1 m.x2) := by
  unfold affineConst WLearnerAccumulator.constant
  exact decide_not.symm

theorem model_affineW_is_generated (eps1 : α) (m : Mom α) (o : Nat) :
    affineW eps1 m o = WLearnerAccumulator.w eps1 m.x0 m.x1 m.x2 (m.r1 o) (m.rx o) := by
  unfold affineW WLearnerAccumulator.w
  rw [model_affineConst_is_generated]
  by_cases h : WLearnerAccumulator.constant eps1 m.x0 m.x1 m.x2
  · simp only [h, decide_true, if_true]; rfl
  · simp only [h, decide_false, if_false, Bool.false_eq_true]; rfl

theorem model_affineB_is_generated (eps1 : α) (m : Mom α) (o : Nat) :
    affineB eps1 m o = WLearnerAccumulator.b eps1 m.x0 m.x1 m.x2 (m.r1 o) (m.rx o) := by
  unfold affineB WLearnerAccumulator.b
  rw [model_affineConst_is_generated]
  by_cases h : WLearnerAccumulator.constant eps1 m.x0 m.x1 m.x2
  · simp only [h, decide_true, if_true]; rfl
  · simp only [h, decide_false, if_false, Bool.false_eq_true]; rfl

theorem model_affineRss_is_generated (T : Nat) (m : Mom α) (w b : Vec α) :
    affineRss T m w b =
      vsum (fun o => WLearnerAccumulator.rssAffineTerm m.x0 m.x1 m.x2 (m.r1 o) (m.rx o) (m.r2 o) (w o) (b o)) T := rfl

/-- the candidate of the affine fit: the RSS handed to `make_score`, the parameter count `k`, the two table rows -/
theorem model_affineCand_is_generated (eps1 : α) (T : Nat) (K : α) (crit : Crit) (f : Nat) (rows : List (Row α)) :
    let m := (present rows).foldl Item.upd Mom.zero
    let ms := missedMom rows
    let c := affineCand eps1 T K crit f rows
    c.rss = WLearnerAccumulator.affineRss (affineRss T m (affineW eps1 m) (affineB eps1 m))
              (vsum (fun o => WLearnerAccumulator.rssZeroTerm (ms.r2 o)) T) ∧
    c.score = makeScore K crit c.rss (WLearnerAccumulator.affineK T) (m.n + ms.n) ∧
    c.tables = [affineW eps1 m, affineB eps1 m] := ⟨rfl, rfl, rfl⟩

/-- `w * value + b` of `affine_wlearner_t::do_predict` and of `hinge_wlearner_t::do_predict` -/
theorem model_lin_is_generated (tables : List (Vec α)) (x : α) (o : Nat) :
    lin tables x o = WLearnerAccumulator.affinePredict (tab tables 0 o) (tab tables 1 o) x ∧
    lin tables x o = WLearnerSweep.hingePredict (tab tables 0 o) (tab tables 1 o) x := ⟨rfl, rfl⟩

/-! ### stump — src/wlearner/stump.cpp -/

theorem model_sideScore_is_generated (T : Nat) (x0 : α) (r1 r2 out : Vec α) :
    sideScore T x0 r1 r2 out = vsum (fun o => WLearnerSweep.stumpScoreTerm x0 (r1 o) (r2 o) (out o)) T := rfl

/-- the sweep: the generated distinct-values rule and mid-point threshold of `stump_wlearner_t::do_fit` -/
theorem model_sweep_is_generated_stump (upd : Mom α → Item α → Mom α) (neg : Mom α) (a b : Item α) (rest : List (Item α)) :
    sweep upd neg (a :: b :: rest) =
      if WLearnerSweep.stumpDistinct a.v b.v then
        (WLearnerSweep.stumpThreshold a.v b.v, upd neg a) :: sweep upd (upd neg a) (b :: rest)
      else sweep upd (upd neg a) (b :: rest) := by
  rw [sweep]; rfl

/-- … and those of `hinge_wlearner_t::do_fit` -/
theorem model_sweep_is_generated_hinge (upd : Mom α → Item α → Mom α) (neg : Mom α) (a b : Item α) (rest : List (Item α)) :
    sweep upd neg (a :: b :: rest) =
      if WLearnerSweep.hingeDistinct a.v b.v then
        (WLearnerSweep.hingeThreshold a.v b.v, upd neg a) :: sweep upd (upd neg a) (b :: rest)
      else sweep upd (upd neg a) (b :: rest) := by
  rw [sweep]; rfl

/-- the positive side is `sum − neg`, attribute by attribute (`cache_t::x0_pos` … of stump.cpp and hinge.cpp) -/
theorem model_momSub_is_generated (a b : Mom α) (o : Nat) :
    (a.sub b).x0 = WLearnerSweep.stump_x0_pos a.x0 b.x0 ∧ (a.sub b).r1 o = WLearnerSweep.stump_r1_pos (a.r1 o) (b.r1 o) ∧
    (a.sub b).r2 o = WLearnerSweep.stump_r2_pos (a.r2 o) (b.r2 o) ∧
    (a.sub b).x0 = WLearnerSweep.hinge_x0_pos a.x0 b.x0 ∧ (a.sub b).x1 = WLearnerSweep.hinge_x1_pos a.x1 b.x1 ∧
    (a.sub b).x2 = WLearnerSweep.hinge_x2_pos a.x2 b.x2 ∧ (a.sub b).r1 o = WLearnerSweep.hinge_r1_pos (a.r1 o) (b.r1 o) ∧
    (a.sub b).rx o = WLearnerSweep.hinge_rx_pos (a.rx o) (b.rx o) ∧ (a.sub b).r2 o = WLearnerSweep.hinge_r2_pos (a.r2 o) (b.r2 o) :=
  ⟨rfl, rfl, rfl, rfl, rfl, rfl, rfl, rfl, rfl⟩

/-- one stump candidate: table rows, the RSS handed to `make_score`, the parameter count, the threshold -/
theorem model_stumpCand_is_generated (T : Nat) (K : α) (crit : Crit) (f : Nat) (sum : Mom α) (mrss : α) (mcnt : Nat)
    (c : α × Mom α) :
    let neg := c.2
    let pos := sum.sub neg
    let outN : Vec α := fun o => WLearnerSweep.stumpOutput_neg (neg.r1 o) neg.x0
    let outP : Vec α := fun o => WLearnerSweep.stumpOutput_pos (pos.r1 o) pos.x0
    let cand := stumpCand T K crit f sum mrss mcnt c
    cand.tables = [outN, outP] ∧
    cand.rss = WLearnerSweep.stumpRss (sideScore T neg.x0 neg.r1 neg.r2 outN) (sideScore T pos.x0 pos.r1 pos.r2 outP) mrss ∧
    cand.score = makeScore K crit cand.rss (WLearnerSweep.stumpK T) (sum.n + mcnt) ∧ cand.thr = c.1 := ⟨rfl, rfl, rfl, rfl⟩

/-- the cache update `if (std::isfinite(score) && score < cache.m_score)` of stump.cpp and hinge.cpp -/
theorem model_pick_is_generated (best c : Cand α) :
    pick best c = (if WLearnerSweep.stumpAccept FinTest.isFin c.score best.score then c else best) ∧
    pick best c = (if WLearnerSweep.hingeAccept FinTest.isFin c.score best.score then c else best) := ⟨rfl, rfl⟩

/-- `stump_wlearner_t::do_predict` / `split`: group and added vector of a sample whose feature value is `x` -/
theorem model_stump_predict_is_generated (f : Nat) (thr : α) (tables : List (Vec α)) (s : Nat → FVal α) (x : α)
    (h : s f = FVal.num x) :
    eval (.stump f thr tables) s =
      some (WLearnerSweep.stumpGroup x thr, fun o => WLearnerSweep.stumpPredict x thr (tab tables 0 o) (tab tables 1 o)) := by
  simp only [eval, h]
  unfold WLearnerSweep.stumpGroup WLearnerSweep.stumpPredict
  by_cases hx : x < thr
  · simp only [hx, if_true]
  · simp only [hx, if_false]

/-! ### hinge — src/wlearner/hinge.cpp -/

theorem model_hingeBeta_is_generated (m : Mom α) (t : α) (o : Nat) :
    hingeBeta m t o = WLearnerSweep.hingeBeta m.x0 m.x1 m.x2 (m.r1 o) (m.rx o) t := rfl

theorem model_hingeSide_is_generated (T : Nat) (m : Mom α) (t : α) (beta : Vec α) :
    hingeSide T m t beta =
      vsum (fun o => WLearnerSweep.hingeScoreTerm m.x0 m.x1 m.x2 (m.r1 o) (m.rx o) (m.r2 o) t (beta o)) T := rfl

/-- the two hinge candidates of one threshold: RSS handed to `make_score`, parameter count, slope and intercept rows -/
theorem model_hingeCands_is_generated (T : Nat) (K : α) (crit : Crit) (f : Nat) (sum : Mom α) (mrss : α) (mcnt : Nat)
    (c : α × Mom α) :
    let t := c.1
    let neg := c.2
    let pos := sum.sub neg
    let bN := hingeBeta neg t
    let bP := hingeBeta pos t
    let rssL := WLearnerSweep.hingeRss_neg (WLearnerSweep.hingeScore_neg (hingeSide T neg t bN) (hingeSide T pos t zeroV)) mrss
    let rssR := WLearnerSweep.hingeRss_pos (WLearnerSweep.hingeScore_pos (hingeSide T neg t zeroV) (hingeSide T pos t bP)) mrss
    hingeCands T K crit f sum mrss mcnt c =
      [ { score := makeScore K crit rssL (WLearnerSweep.hingeK_neg T) (neg.n + mcnt), rss := rssL, feature := f, thr := t, dir := 0,
          hashes := [], h2t := [], tables := [bN, fun o => WLearnerSweep.hingeIntercept t (bN o)] },
        { score := makeScore K crit rssR (WLearnerSweep.hingeK_pos T) (pos.n + mcnt), rss := rssR, feature := f, thr := t, dir := 1,
          hashes := [], h2t := [], tables := [bP, fun o => WLearnerSweep.hingeIntercept t (bP o)] } ] := rfl

/-! ### look-up tables — src/wlearner/table.cpp, src/wlearner/accumulator.cpp -/

/-- the per-bin RSS `cache_t::score(bin)`, the table rows of `score_dense` / `score_kbest`, the key of `accumulator_t::sort` -/
theorem model_binScore_is_generated (T : Nat) (m : Mom α) :
    binScore T m = vsum (fun o => WLearnerTable.binScoreTerm m.x0 (m.r1 o) (m.r2 o)) T ∧
    (∀ o, binMean m o = WLearnerTable.denseRow (m.r1 o) m.x0) ∧ (∀ o, binMean m o = WLearnerTable.kbestRow (m.r1 o) m.x0) ∧
    binDelta T m = WLearnerTable.binDelta (vsum (fun o => m.r1 o * m.r1 o) T) m.x0 := ⟨rfl, fun _ => rfl, fun _ => rfl, rfl⟩

/-- the per-cluster RSS of `score_ksplit` -/
theorem model_cluScore_is_generated (T : Nat) (c : Clu α) :
    cluScore T c = vsum (fun o => WLearnerTable.ksplitScoreTerm c.x0 (c.r1 o) (c.r2 o)) T := rfl

/-- the parameter counts `k` of the three table fits (`rows · T`) -/
theorem model_tableK_is_generated (T : Nat) (K big : α) (crit : Crit) (f : Nat) (rows : List (CRow α)) (rss : α) (bins : List Nat) :
    (denseCand T K crit f rows).score =
      makeScore K crit (denseCand T K crit f rows).rss (WLearnerTable.denseK (hashesOf rows).length T) rows.length ∧
    (kbestCandOf T K crit f rows rss bins).score = makeScore K crit rss (WLearnerTable.kbestK bins.length T) rows.length ∧
    ksplitCands T K big crit f rows =
      (cluTrials T big (hashesOf rows).length
          ((hashesOf rows).map fun h => Clu.ofBin (binMom rows h), List.range (hashesOf rows).length)).map fun st =>
        { score := makeScore K crit (sumL (cluScore T) st.1 (missRssC T rows)) (WLearnerTable.ksplitK st.1.length T) rows.length,
          rss := sumL (cluScore T) st.1 (missRssC T rows), feature := f, thr := 0, dir := 0,
          hashes := hashesOf rows, h2t := st.2, tables := st.1.map (·.rx) } := ⟨rfl, rfl, rfl⟩

end

/-! ### the statements that need a linear ordered field -/

section
variable {α : Type} [Field α] [LinearOrder α] [IsStrictOrderedRing α]

/-- the floor of `make_score` regenerated from criterion.cpp is `ε · 1000` (pins the constant: `clampK` of the driver is this
    definition at `Float`, so the model follows the source; the oracle's `CLAMP` is the independent copy) -/
theorem model_scoreFloor_is_generated (eps : α) : WLearnerCriterion.scoreFloor eps = eps * 1000 := rfl

example : WLearnerCriterion.scoreFloor (1 : ℚ) = 1000 := (model_scoreFloor_is_generated (1 : ℚ)).trans (one_mul _)

/-- `accumulator_t::update`, the residual sums: the code subtracts the gradient `g`, the model adds the residual `r = −g` -/
theorem model_upd_residuals_is_generated (m : Mom α) (x : α) (r : Vec α) (o : Nat) :
    (m.upd0 r).r1 o = WLearnerAccumulator.upd0_r1 (m.r1 o) (-(r o)) ∧
    (m.upd0 r).r2 o = WLearnerAccumulator.upd0_r2 (m.r2 o) (-(r o)) ∧
    (m.upd x r).r1 o = WLearnerAccumulator.upd0_r1 (m.r1 o) (-(r o)) ∧
    (m.upd x r).r2 o = WLearnerAccumulator.upd0_r2 (m.r2 o) (-(r o)) ∧
    (m.upd x r).rx o = WLearnerAccumulator.upd_rx (m.rx o) x (-(r o)) := by
  simp [Mom.upd0, Mom.upd, WLearnerAccumulator.upd0_r1, WLearnerAccumulator.upd0_r2, WLearnerAccumulator.upd_rx]

/-- `hinge_wlearner_t::do_predict` / `do_split`: the left hinge is active on `value < threshold`, the right one on
    `value >= threshold`, and both add `w * value + b` -/
theorem model_hinge_predict_is_generated (f : Nat) (thr : α) (left : Bool) (tables : List (Vec α)) (s : Nat → FVal α) (x : α)
    (h : s f = FVal.num x) :
    eval (.hinge f thr left tables) s =
      if (left = true ∧ WLearnerSweep.hingeActive_left x thr) ∨ (left = false ∧ WLearnerSweep.hingeActive_right x thr) then
        some (0, fun o => WLearnerSweep.hingePredict (tab tables 0 o) (tab tables 1 o) x)
      else none := by
  simp only [eval, h, WLearnerSweep.hingeActive_left, WLearnerSweep.hingeActive_right, ge_iff_le, not_lt]
  rfl

/-- the cache update of the table learners: the code compares `score == m_score`, the model says `¬ m_score < score` (next to
    `¬ score < m_score`); the same rule on a linear order -/
theorem model_pickLex_is_generated [FinTest α] (best c : Cand α) :
    pickLex best c =
      if WLearnerTable.tableAccept FinTest.isFin c.score best.score c.feature best.feature then c else best := by
  have h : (FinTest.isFin c.score = true ∧ lessSF c best) ↔
      WLearnerTable.tableAccept FinTest.isFin c.score best.score c.feature best.feature := by
    unfold lessSF WLearnerTable.tableAccept
    constructor
    · rintro ⟨h1, h2 | ⟨h2, h3⟩⟩
      · exact ⟨h1, Or.inl h2⟩
      · rcases lt_or_eq_of_le (not_lt.mp h2) with h4 | h4
        · exact ⟨h1, Or.inl h4⟩
        · exact ⟨h1, Or.inr ⟨h4, h3⟩⟩
    · rintro ⟨h1, h2 | ⟨h2, h3⟩⟩
      · exact ⟨h1, Or.inl h2⟩
      · exact ⟨h1, Or.inr ⟨by rw [h2]; exact lt_irrefl _, h3⟩⟩
  unfold pickLex
  by_cases hp : FinTest.isFin c.score = true ∧ lessSF c best
  · rw [if_pos hp, if_pos (h.mp hp)]
  · rw [if_neg hp, if_neg (fun hq => hp (h.mpr hq))]

example : ∃ (s : Nat → FVal ℚ), s 0 = FVal.num 1 := ⟨fun _ => FVal.num 1, rfl⟩

end

end NanoVerif.WLearner
