import NanoVerif.Proofs.DatasetStorage
import NanoVerif.Proofs.DatasetViews
import NanoVerif.Proofs.DatasetColumns
import NanoVerif.Proofs.DatasetGradient
/-!
  C08 — the flattened view: writing blocks of columns into the row buffer, `flatten` = horizontal concatenation of `encodeView (select)`
  Helper lemmas for `Props/C08.lean` (core Lean only; no Mathlib). Generated once from the development files; edit here.
-/
namespace NanoVerif.Dataset
open NanoVerif.Tensor NanoVerif.Mask

section
variable {α : Type} [Scalar α]

/-! ### the documented dense encoding of a per-feature view -/

/-- `cols` columns per sample. Labels: missing (−1) → NaN, label `l` → +1 in column `l`, −1 elsewhere, over `classes − 1`
    columns (the last class is all −1). Hit rows: missing (−1 everywhere) → NaN, else `2·hit − 1`. Scalars: the value.
    Tensors: the row-major values. -/
def encodeView (cols : Nat) : View α → List (List α)
  | .sclass v => v.map (fun l => if l < 0 then List.replicate cols Scalar.nan else oneHot cols l.toNat)
  | .mclass _ v => v.map (fun r => if r.any (· < 0) then List.replicate cols Scalar.nan
                                   else r.map (fun h => Scalar.sub (Scalar.mul (Scalar.ofInt 2) (Scalar.ofInt h)) (Scalar.ofInt 1)))
  | .scalar v => v.map (fun x => [x])
  | .struct _ _ _ v => v

/-- the stored values of categorical features are non-negative (label indices, 0/1 hits) -/
def ClassValuesOk (st : Storage) : Prop :=
  ∀ (f : Nat) (feat : Feature), st.feats[f]? = some feat → feat.isClass = true →
    ∀ (s : Nat) (v : List Int), st.stored f s = some v → ∀ x ∈ v, 0 ≤ x

/-- a stored value has one entry per component -/
def LenOk (st : Storage) : Prop :=
  ∀ (f s : Nat) (feat : Feature) (v : List Int), st.feats[f]? = some feat → st.stored f s = some v → v.length = feat.comps

theorem inputFeature_feats (st : Storage) (i : Nat) (f : Feature) (h : st.inputFeature i = some f) :
    st.feats[st.inputIndex i]? = some f := by
  unfold Storage.inputFeature at h
  split at h
  · exact h
  · cases h

theorem flatSclass_eq (cols : Nat) (x : Option (List Int)) (hx : ∀ v, x = some v → 0 ≤ headI v) :
    flatSclass (α := α) cols x =
      (if encSclass x < 0 then List.replicate cols Scalar.nan else oneHot cols (encSclass x).toNat) := by
  cases x with
  | none => simp [flatSclass, encSclass]
  | some v =>
    have h0 := hx v rfl
    have hn : ¬ (encSclass (some v) < 0) := by
      show ¬ (headI v < 0)
      omega
    rw [if_neg hn]
    rfl

theorem headI_nonneg (v : List Int) (h : ∀ x ∈ v, 0 ≤ x) : 0 ≤ headI v := by
  unfold headI
  cases v with
  | nil => simp
  | cons a as => simpa using h a List.mem_cons_self

theorem flatMclass_eq (cols : Nat) (x : Option (List Int)) (hx : ∀ v, x = some v → ∀ h ∈ v, 0 ≤ h) :
    flatMclass (α := α) cols x =
      (if (encMclass cols x).any (· < 0) then List.replicate cols Scalar.nan
       else (encMclass cols x).map (fun h => Scalar.sub (Scalar.mul (Scalar.ofInt 2) (Scalar.ofInt h)) (Scalar.ofInt 1))) := by
  cases x with
  | none =>
    simp only [flatMclass, encMclass]
    cases cols with
    | zero => simp
    | succ n => simp [List.replicate_succ]
  | some v =>
    have h0 := hx v rfl
    have hn : ¬ ((encMclass cols (some v)).any (· < 0) = true) := by
      show ¬ (v.any (· < 0) = true)
      simp only [List.any_eq_true, decide_eq_true_eq, not_exists, not_and]
      intro h hh
      have := h0 h hh
      omega
    rw [if_neg hn]
    rfl

/-- per generated feature: the block written by `flatten` is the documented encoding of the view returned by `select`
    (whatever the flag of the feature) -/
theorem segments_eq_encode (st : Storage) (hcls : ClassValuesOk st) (g : Gen) (hg : g.WF st) (i : Nat) (m : FMap)
    (hm : g.mapping[i]? = some m) (ss : List Nat) :
    ∃ view : View α, g.select st i ss = some view ∧ g.segments st i ss = encodeView (g.colsize i) view := by
  obtain ⟨f, hf, hacc, hdesc, _⟩ := hg.rows i m hm
  have hfeat := inputFeature_feats st _ f hf
  have hm' : g.mapping.getD i default = m := by simp [List.getD_eq_getElem?_getD, hm]
  unfold Gen.select Gen.segments
  simp only [hm, hm', Option.bind_eq_bind, Option.bind_some]
  by_cases hd : g.shouldDrop i = true
  · -- dropped: the block is NaN, the view is all markers
    simp only [hd, if_true]
    cases hk : g.kind with
    | sclassId =>
      refine ⟨_, rfl, ?_⟩
      simp [encodeView, List.map_replicate, List.map_const']
    | mclassId =>
      refine ⟨_, rfl, ?_⟩
      simp only [encodeView, List.map_replicate, List.map_const', Gen.colsize, hm', hk]
      congr 1
      cases m.classes with
      | zero => simp
      | succ n => simp [List.replicate_succ]
    | scalarId =>
      refine ⟨_, rfl, ?_⟩
      simp [encodeView, List.map_replicate, List.map_const', Gen.colsize, hk]
    | structId =>
      refine ⟨_, rfl, ?_⟩
      simp [encodeView, List.map_const', Gen.colsize, hk, hm]
    | product =>
      refine ⟨_, rfl, ?_⟩
      simp [encodeView, List.map_replicate, List.map_const', Gen.colsize, hk]
    | gradient k =>
      rw [hk] at hdesc
      obtain ⟨_, h0, _⟩ := hdesc
      refine ⟨_, rfl, ?_⟩
      simp [encodeView, List.map_const', Gen.colsize, hk, hm, h0]
    | custom c =>
      cases ho : c.out with
      | sclass =>
        simp only [ho]
        refine ⟨_, rfl, ?_⟩
        simp [encodeView, List.map_replicate, List.map_const']
      | mclass =>
        simp only [ho]
        refine ⟨_, rfl, ?_⟩
        simp [encodeView, List.map_replicate, List.map_const', Gen.colsize, hk, customCols, ho, List.replicate_succ]
      | scalar =>
        simp only [ho]
        refine ⟨_, rfl, ?_⟩
        simp [encodeView, List.map_replicate, List.map_const', Gen.colsize, hk, customCols, ho]
      | struct =>
        simp only [ho]
        refine ⟨_, rfl, ?_⟩
        simp [encodeView, List.map_const', Gen.colsize, hk, customCols, ho]
  · simp only [hd, Bool.false_eq_true, if_false]
    cases hk : g.kind with
    | sclassId =>
      refine ⟨_, rfl, ?_⟩
      rw [hk] at hacc
      simp only [encodeView, List.map_map]
      apply List.map_congr_left
      intro x hx
      simp only [iterate, List.mem_map] at hx
      obtain ⟨s, _, rfl⟩ := hx
      simp only [Function.comp]
      apply flatSclass_eq
      intro v hv
      exact headI_nonneg v (hcls _ f hfeat (by simpa [kindAccepts, Feature.isClass, Feature.isSclass] using Or.inl hacc) _ v hv)
    | mclassId =>
      refine ⟨_, rfl, ?_⟩
      rw [hk] at hacc
      simp only [encodeView, List.map_map]
      apply List.map_congr_left
      intro x hx
      simp only [iterate, List.mem_map] at hx
      obtain ⟨s, _, rfl⟩ := hx
      simp only [Function.comp]
      have hc : g.colsize i = m.classes := by simp [Gen.colsize, hk, hm]
      rw [hc]
      apply flatMclass_eq
      intro v hv
      exact hcls _ f hfeat (by simpa [kindAccepts, Feature.isClass, Feature.isMclass] using Or.inr hacc) _ v hv
    | scalarId =>
      refine ⟨_, rfl, ?_⟩
      simp [encodeView, List.map_map, Function.comp]
    | structId =>
      refine ⟨_, rfl, ?_⟩
      simp [encodeView, Gen.colsize, hk, hm]
    | product =>
      refine ⟨_, rfl, ?_⟩
      simp [encodeView, List.map_map, Function.comp]
    | gradient k =>
      refine ⟨_, rfl, ?_⟩
      simp [encodeView]
    | custom c =>
      cases ho : c.out with
      | sclass =>
        simp only [ho]
        refine ⟨_, rfl, ?_⟩
        simp only [encodeView, List.map_map, flatBy]
        apply List.map_congr_left
        intro x hx
        simp only [Function.comp]
        apply flatSclass_eq
        intro v hv
        obtain ⟨p, rfl⟩ := derived_mem st c m _ ss x hx v hv
        exact headI_nonneg _ (customOut_class_nonneg c p (Or.inl ho))
      | mclass =>
        simp only [ho]
        refine ⟨_, rfl, ?_⟩
        simp only [encodeView, List.map_map, flatBy]
        apply List.map_congr_left
        intro x hx
        simp only [Function.comp]
        have hc : g.colsize i = 2 := by simp [Gen.colsize, hk, customCols, ho]
        rw [hc]
        apply flatMclass_eq
        intro v hv
        obtain ⟨p, rfl⟩ := derived_mem st c m _ ss x hx v hv
        exact customOut_class_nonneg c p (Or.inr ho)
      | scalar =>
        simp only [ho]
        refine ⟨_, rfl, ?_⟩
        simp [encodeView, List.map_map, Function.comp, flatBy]
      | struct =>
        simp only [ho]
        refine ⟨_, rfl, ?_⟩
        simp [encodeView, Gen.colsize, hk, customCols, ho, flatBy]

end

section
variable {α : Type}

/-! ### writing blocks of columns into the row buffer -/

/-- horizontal concatenation of blocks of `n` rows -/
def hcatRows (n : Nat) : List (List (List α)) → List (List α)
  | [] => List.replicate n []
  | b :: bs => List.zipWith (· ++ ·) b (hcatRows n bs)

theorem hcatRows_length (n : Nat) : ∀ (bs : List (List (List α))), (∀ b ∈ bs, b.length = n) →
    (hcatRows n bs).length = n
  | [], _ => by simp [hcatRows]
  | b :: bs, h => by
    simp only [hcatRows, List.length_zipWith]
    rw [h b List.mem_cons_self, hcatRows_length n bs (fun b' hb' => h b' (List.mem_cons_of_mem _ hb'))]
    simp

/-- every row of the concatenation is as wide as the blocks together -/
theorem hcatRows_width (n : Nat) : ∀ (bs : List (List (List α))) (ws : List Nat), bs.length = ws.length →
    (∀ (k : Nat) (b : List (List α)) (w : Nat), bs[k]? = some b → ws[k]? = some w → b.length = n ∧ ∀ r ∈ b, r.length = w) →
    ∀ r ∈ hcatRows n bs, r.length = ws.sum
  | [], [], _, _ => by
    intro r hr
    simp [hcatRows] at hr
    simp [hr.2]
  | [], _ :: _, h, _ => by simp at h
  | _ :: _, [], h, _ => by simp at h
  | b :: bs, w :: ws, hl, h => by
    intro r hr
    simp only [hcatRows] at hr
    have ih := hcatRows_width n bs ws (by simpa using hl) (fun k b' w' hb hw => h (k + 1) b' w' (by simpa using hb) (by simpa using hw))
    obtain ⟨hb1, hb2⟩ := h 0 b w rfl rfl
    obtain ⟨k, hk, rfl⟩ := List.getElem_of_mem hr
    simp only [List.getElem_zipWith, List.length_append, List.sum_cons]
    rw [hb2 _ (List.getElem_mem _), ih _ (List.getElem_mem _)]

theorem writeAt_nil (row : List α) (c : Nat) : writeAt row c [] = row := by
  simp [writeAt]

theorem writeAt_length_le (row : List α) (c : Nat) (a : List α) (h : c + a.length ≤ row.length) :
    (writeAt row c a).length = row.length := by
  simp only [writeAt, List.length_append, List.length_take, List.length_drop]
  omega

theorem writeAt_writeAt (row : List α) (c : Nat) (a b : List α) (h : c ≤ row.length) :
    writeAt (writeAt row c a) (c + a.length) b = writeAt row c (a ++ b) := by
  have h1 : (row.take c).length = c := by simp [List.length_take]; omega
  unfold writeAt
  have e1 : (row.take c ++ a ++ row.drop (c + a.length)).take (c + a.length) = row.take c ++ a := by
    rw [List.take_append_of_le_length (by simp [h1])]
    rw [List.take_of_length_le (by simp [h1])]
  have e2 : (row.take c ++ a ++ row.drop (c + a.length)).drop (c + a.length + b.length) =
      row.drop (c + (a ++ b).length) := by
    have hl : (row.take c ++ a).length = c + a.length := by simp [h1]
    rw [List.drop_append, List.drop_of_length_le (by omega), List.nil_append, List.drop_drop, hl,
      List.length_append]
    congr 1
    omega
  rw [e1, e2]
  simp [List.append_assoc]

theorem writeAt_full (row full : List α) (h : full.length = row.length) : writeAt row 0 full = full := by
  simp [writeAt, h]

theorem writeColumns_length (buf : List (List α)) (c : Nat) (segs : List (List α)) (h : segs.length = buf.length) :
    (writeColumns buf c segs).length = buf.length := by
  simp [writeColumns, h]

theorem writeColumns_rows (buf : List (List α)) (c w n : Nat) (segs : List (List α))
    (hb : ∀ r ∈ buf, r.length = n) (hs : ∀ s ∈ segs, s.length = w) (hc : c + w ≤ n) :
    ∀ r ∈ writeColumns buf c segs, r.length = n := by
  intro r hr
  unfold writeColumns at hr
  obtain ⟨k, hk, rfl⟩ := List.getElem_of_mem hr
  simp only [List.getElem_zipWith]
  simp only [List.length_zipWith] at hk
  have h1 := hb _ (List.getElem_mem (l := buf) (n := k) (by omega))
  have h2 := hs _ (List.getElem_mem (l := segs) (n := k) (by omega))
  rw [writeAt_length_le _ _ _ (by omega), h1]

theorem writeColumns_nil_segs : ∀ (buf : List (List α)) (c : Nat),
    writeColumns buf c (List.replicate buf.length []) = buf
  | [], _ => rfl
  | r :: rs, c => by
    simp only [writeColumns, List.length_cons, List.replicate_succ, List.zipWith_cons_cons, writeAt_nil]
    congr 1
    exact writeColumns_nil_segs rs c

theorem writeColumns_append : ∀ (buf : List (List α)) (c w : Nat) (B R : List (List α)),
    B.length = buf.length → R.length = buf.length → (∀ b ∈ B, b.length = w) → (∀ r ∈ buf, c ≤ r.length) →
    writeColumns (writeColumns buf c B) (c + w) R = writeColumns buf c (List.zipWith (· ++ ·) B R)
  | [], _, _, _, _, _, _, _, _ => by simp [writeColumns]
  | row :: rest, c, w, [], _, hB, _, _, _ => by simp at hB
  | row :: rest, c, w, _ :: _, [], _, hR, _, _ => by simp at hR
  | row :: rest, c, w, b :: Bs, r :: Rs, hB, hR, hw, hc => by
    simp only [writeColumns, List.zipWith_cons_cons]
    have hb : b.length = w := hw b List.mem_cons_self
    rw [← hb, writeAt_writeAt row c b r (hc row List.mem_cons_self), hb]
    congr 1
    exact writeColumns_append rest c w Bs Rs (by simpa using hB) (by simpa using hR)
      (fun b' hb' => hw b' (List.mem_cons_of_mem _ hb')) (fun r' hr' => hc r' (List.mem_cons_of_mem _ hr'))

end

section
variable {α : Type} [Scalar α]

/-- the loop over the features of one generator writes the horizontal concatenation of their blocks at `column` -/
theorem flattenFrom_eq (st : Storage) (g : Gen) (ss : List Nat) (n : Nat) :
    ∀ (is : List Nat) (buf : List (List α)) (c : Nat),
    buf.length = ss.length →
    (∀ i ∈ is, ∀ seg ∈ g.segments (α := α) st i ss, seg.length = g.colsize i) →
    (∀ r ∈ buf, r.length = n) → c + (is.map g.colsize).sum ≤ n →
    g.flattenFrom st ss is buf c =
      writeColumns buf c (hcatRows buf.length (is.map (fun i => g.segments st i ss)))
  | [], buf, c, _, _, _, _ => by
    simp only [Gen.flattenFrom, List.map_nil, hcatRows]
    exact (writeColumns_nil_segs buf c).symm
  | i :: is, buf, c, hlen, hseg, hrows, hc => by
    have hsl : (g.segments (α := α) st i ss).length = buf.length := by
      rw [hlen]
      unfold Gen.segments
      split
      · simp
      · cases g.kind <;> simp [iterate, iterate2]
    simp only [List.map_cons, List.sum_cons] at hc
    simp only [Gen.flattenFrom, List.map_cons, hcatRows]
    have hsw := hseg i List.mem_cons_self
    rw [flattenFrom_eq st g ss n is _ _ (by rw [writeColumns_length _ _ _ hsl, hlen])
      (fun j hj => hseg j (List.mem_cons_of_mem _ hj))
      (writeColumns_rows buf c (g.colsize i) n _ hrows hsw (by omega)) (by omega)]
    rw [writeColumns_length _ _ _ hsl]
    apply writeColumns_append _ _ _ _ _ hsl
    · rw [hcatRows_length]
      intro b hb
      simp only [List.mem_map] at hb
      obtain ⟨j, _, rfl⟩ := hb
      rw [hlen]
      unfold Gen.segments
      split
      · simp
      · cases g.kind <;> simp [iterate, iterate2]
    · exact hsw
    · intro r hr
      rw [hrows r hr]; omega

end

/-- a dataset whose storage was built by `resize`/`set` and whose generators were added by `add` (fit) -/
structure Dataset.WF (ds : Dataset) : Prop where
  st : ds.st.WF
  gens : ∀ g ∈ ds.gens, g.WF ds.st

/-- no generated feature is the degenerate 1x1 gradient map (`Gen.NonDegenerate`); holds for every stack whose gradient
    generators see no structured feature of exactly 3x3 rows x columns (`nonDegenerate_iff`) -/
def Dataset.NonDegenerate (ds : Dataset) : Prop := ∀ g ∈ ds.gens, g.NonDegenerate

theorem lenOk_of_wf (st : Storage) (h : st.WF) : LenOk st :=
  fun f s feat v hf hv => stored_length_all st h f s feat v hf hv

section
variable {α : Type} [Scalar α]

theorem segments_length (st : Storage) (g : Gen) (i : Nat) (ss : List Nat) :
    (g.segments (α := α) st i ss).length = ss.length := by
  unfold Gen.segments
  split
  · simp
  · cases g.kind <;> simp [iterate, iterate2]

/-- every segment of generated feature `i` is `colsize i` wide -/
theorem segments_width (st : Storage) (hlen : LenOk st) (g : Gen) (hg : g.WF st) (i : Nat) (m : FMap)
    (hm : g.mapping[i]? = some m) (ss : List Nat) :
    ∀ seg ∈ g.segments (α := α) st i ss, seg.length = g.colsize i := by
  obtain ⟨f, hf, hacc, hdesc, _⟩ := hg.rows i m hm
  have hfeat := inputFeature_feats st _ f hf
  intro seg hseg
  unfold Gen.segments at hseg
  simp only [List.getD_eq_getElem?_getD, hm, Option.getD_some] at hseg
  split at hseg
  · simp only [List.mem_map] at hseg
    obtain ⟨_, _, rfl⟩ := hseg
    simp
  · cases hk : g.kind with
    | gradient k =>
      simp only [hk, iterate, List.map_map, List.mem_map, Function.comp] at hseg
      obtain ⟨s, _, rfl⟩ := hseg
      rw [hk] at hdesc
      rw [hf, Option.getD_some, encGradient_length k f m _ hdesc]
      simp [Gen.colsize, hk, hm]
    | custom c =>
      simp only [hk, List.mem_map] at hseg
      obtain ⟨x, hx, rfl⟩ := hseg
      have hcol : g.colsize i = customCols c.out := by simp [Gen.colsize, hk]
      rw [hcol]
      cases x with
      | none => cases ho : c.out <;> simp [flatBy, flatSclass, flatMclass, encStruct, customCols]
      | some v =>
        obtain ⟨p, rfl⟩ := derived_mem st c m _ ss _ hx v rfl
        cases ho : c.out with
        | sclass => simp [flatBy, flatSclass, customCols]
        | mclass =>
          have := customOut_length c p (Or.inl ho)
          rw [ho] at this
          simp [flatBy, flatMclass, this]
        | scalar => simp [flatBy, customCols]
        | struct =>
          have := customOut_length c p (Or.inr ho)
          rw [ho] at this
          simp [flatBy, encStruct, this]
    | sclassId =>
      simp only [hk, iterate, List.map_map, List.mem_map, Function.comp] at hseg
      obtain ⟨s, _, rfl⟩ := hseg
      cases st.stored (st.inputIndex m.orig) (iterSample (g.shuffledAll i) s) <;> simp [flatSclass]
    | mclassId =>
      simp only [hk, iterate, List.map_map, List.mem_map, Function.comp] at hseg
      obtain ⟨s, _, rfl⟩ := hseg
      rw [hk] at hacc hdesc
      obtain ⟨hc1, hc2, hc3, hc4⟩ := hdesc
      cases hv : st.stored (st.inputIndex m.orig) (iterSample (g.shuffledAll i) s) with
      | none => simp [flatMclass]
      | some v =>
        have := hlen _ _ f v hfeat hv
        simp only [kindAccepts, Feature.isMclass, decide_eq_true_eq] at hacc
        simp [flatMclass, this, Feature.comps, hacc, Gen.colsize, hk, hm, hc1]
    | scalarId =>
      simp only [hk, iterate, List.map_map, List.mem_map, Function.comp] at hseg
      obtain ⟨s, _, rfl⟩ := hseg
      simp [Gen.colsize, hk]
    | structId =>
      simp only [hk, iterate, List.map_map, List.mem_map, Function.comp] at hseg
      obtain ⟨s, _, rfl⟩ := hseg
      rw [hk] at hacc hdesc
      obtain ⟨hc1, hc2, hc3, hc4⟩ := hdesc
      cases hv : st.stored (st.inputIndex m.orig) (iterSample (g.shuffledAll i) s) with
      | none => simp [encStruct]
      | some v =>
        have := hlen _ _ f v hfeat hv
        simp only [kindAccepts, Feature.isStruct, Feature.isClass, Bool.and_eq_true, Bool.not_eq_true',
          Bool.or_eq_false_iff, decide_eq_false_iff_not, decide_eq_true_eq] at hacc
        have hcomps : f.comps = f.dimSize := by
          unfold Feature.comps
          cases hty : f.type <;> simp_all
        simp [encStruct, this, hcomps, Feature.dimSize, Gen.colsize, hk, hm, hc2, hc3, hc4]
    | product =>
      simp only [hk, iterate2, List.map_map, List.mem_map, Function.comp] at hseg
      obtain ⟨s, _, rfl⟩ := hseg
      simp [Gen.colsize, hk]

/-- width of the block of columns of a generator -/
def Gen.width (g : Gen) : Nat := ((List.range g.features).map g.colsize).sum

/-- the block of a generator: its features' segments side by side -/
def Gen.block (st : Storage) (g : Gen) (ss : List Nat) : List (List α) :=
  hcatRows ss.length ((List.range g.features).map (fun i => g.segments st i ss))

theorem block_length (st : Storage) (g : Gen) (ss : List Nat) : (g.block (α := α) st ss).length = ss.length := by
  unfold Gen.block
  apply hcatRows_length
  intro b hb
  simp only [List.mem_map] at hb
  obtain ⟨i, _, rfl⟩ := hb
  exact segments_length st g i ss

theorem block_width (st : Storage) (hlen : LenOk st) (g : Gen) (hg : g.WF st) (ss : List Nat) :
    ∀ r ∈ g.block (α := α) st ss, r.length = g.width := by
  unfold Gen.block Gen.width
  apply hcatRows_width
  · simp
  · intro k b w hb hw
    simp only [List.getElem?_map] at hb hw
    cases hr : (List.range g.features)[k]? with
    | none => simp [hr] at hb
    | some i =>
      simp only [hr, Option.map_some, Option.some.injEq] at hb hw
      subst hb hw
      have hi : i < g.mapping.length := by
        have := List.mem_of_getElem? hr
        simpa [Gen.features] using this
      exact ⟨segments_length st g i ss,
        segments_width st hlen g hg i g.mapping[i] (List.getElem?_eq_getElem hi) ss⟩

theorem genFlatten_eq (st : Storage) (hlen : LenOk st) (g : Gen) (hg : g.WF st) (ss : List Nat) (n : Nat)
    (buf : List (List α)) (c : Nat) (hb : buf.length = ss.length) (hrows : ∀ r ∈ buf, r.length = n)
    (hc : c + g.width ≤ n) :
    g.flatten st ss buf c = writeColumns buf c (g.block st ss) := by
  unfold Gen.flatten Gen.block
  rw [flattenFrom_eq st g ss n _ buf c hb _ hrows hc, hb]
  intro i hi
  have hi' : i < g.mapping.length := by simpa [Gen.features] using hi
  exact segments_width st hlen g hg i g.mapping[i] (List.getElem?_eq_getElem hi') ss

theorem flattenGens_eq (st : Storage) (hlen : LenOk st) (ss : List Nat) (n : Nat) :
    ∀ (gens : List Gen) (buf : List (List α)) (off : Nat),
    (∀ g ∈ gens, g.WF st) → buf.length = ss.length → (∀ r ∈ buf, r.length = n) →
    off + (gens.map Gen.width).sum ≤ n →
    flattenGens st ss gens (gens.map Gen.width) buf off =
      writeColumns buf off (hcatRows buf.length (gens.map (fun g => g.block st ss)))
  | [], buf, off, _, _, _, _ => by
    simp only [flattenGens, List.map_nil, hcatRows]
    exact (writeColumns_nil_segs buf off).symm
  | g :: gs, buf, off, hwf, hb, hrows, hc => by
    simp only [List.map_cons, List.sum_cons] at hc
    have hg := hwf g List.mem_cons_self
    simp only [flattenGens, List.map_cons, hcatRows]
    rw [genFlatten_eq st hlen g hg ss n buf off hb hrows (by omega)]
    have hbl : (g.block (α := α) st ss).length = buf.length := by rw [block_length, hb]
    rw [flattenGens_eq st hlen ss n gs _ _ (fun g' hg' => hwf g' (List.mem_cons_of_mem _ hg'))
      (by rw [writeColumns_length _ _ _ hbl, hb])
      (writeColumns_rows buf off g.width n _ hrows (block_width st hlen g hg ss) (by omega)) (by omega)]
    rw [writeColumns_length _ _ _ hbl]
    apply writeColumns_append _ _ _ _ _ hbl
    · rw [hcatRows_length]
      intro b hb'
      simp only [List.mem_map] at hb'
      obtain ⟨g', _, rfl⟩ := hb'
      rw [block_length, hb]
    · exact block_width st hlen g hg ss
    · intro r hr
      rw [hrows r hr]; omega

end

instance {α : Type} : Inhabited (View α) := ⟨.scalar []⟩

/-! ### dataset feature index ↔ (generator, local feature) -/

theorem featMapFrom_getElem? : ∀ (k : Nat) (gens : List Gen) (f gi i : Nat),
    (featMapFrom k gens)[f]? = some (gi, i) → k ≤ gi ∧ ∃ g, gens[gi - k]? = some g ∧ i < g.features
  | _, [], _, _, _, h => by simp [featMapFrom] at h
  | k, g :: gs, f, gi, i, h => by
    unfold featMapFrom at h
    by_cases hf : f < g.features
    · rw [List.getElem?_append_left (by simpa using hf)] at h
      simp only [List.getElem?_map] at h
      rw [List.getElem?_range hf] at h
      simp only [Option.map_some, Option.some.injEq, Prod.mk.injEq] at h
      obtain ⟨rfl, rfl⟩ := h
      exact ⟨Nat.le_refl _, g, by simp, hf⟩
    · rw [List.getElem?_append_right (by simpa using hf)] at h
      obtain ⟨h1, g', hg', hi⟩ := featMapFrom_getElem? (k + 1) gs _ gi i h
      refine ⟨by omega, g', ?_, hi⟩
      have : gi - k = (gi - (k + 1)) + 1 := by omega
      rw [this]
      simpa using hg'

theorem featMapFrom_map {β : Type} (Ψ : Gen → Nat → β) (Ψ' : Nat × Nat → β) : ∀ (k : Nat) (gens : List Gen),
    (∀ (j : Nat) (g : Gen) (i : Nat), gens[j]? = some g → Ψ' (k + j, i) = Ψ g i) →
    (featMapFrom k gens).map Ψ' = gens.flatMap (fun g => (List.range g.features).map (Ψ g))
  | _, [], _ => rfl
  | k, g :: gs, h => by
    simp only [featMapFrom, List.map_append, List.map_map, List.flatMap_cons]
    congr 1
    · apply List.map_congr_left
      intro i _
      simpa using h 0 g i rfl
    · apply featMapFrom_map Ψ Ψ' (k + 1) gs
      intro j g' i hg'
      have := h (j + 1) g' i (by simpa using hg')
      rw [← this]
      congr 2
      omega

theorem range_map_getElem? {β γ : Type} (l : List β) (h : Option β → γ) :
    (List.range l.length).map (fun f => h l[f]?) = l.map (fun p => h (some p)) := by
  apply List.ext_getElem
  · simp
  · intro n h1 h2
    simp only [List.length_map, List.length_range] at h1
    simp [List.getElem?_eq_getElem h1]

/-! ### the overload `dataset_t::select` is called with -/

def kindOverload : GKind → Overload
  | .sclassId => .sclass
  | .mclassId => .mclass
  | .scalarId => .scalar
  | .structId => .struct
  | .product => .scalar
  | .gradient _ => .struct
  | .custom c => c.out

theorem kindOverload_matches (st : Storage) (g : Gen) (hg : g.WF st) (hnd : g.NonDegenerate) (i : Nat) (desc : Feature)
    (hd : g.feature st i = some desc) : (kindOverload g.kind).matches desc = true := by
  unfold Gen.feature at hd
  cases hm : g.mapping[i]? with
  | none => simp [hm] at hd
  | some m =>
    obtain ⟨f, hf, hacc, hdesc, hprod⟩ := hg.rows i m hm
    simp only [hm, Option.bind_eq_bind, Option.bind_some] at hd
    cases hk : g.kind with
    | product =>
      obtain ⟨f2, hf2, _⟩ := hprod hk
      simp only [hk, hf, hf2, Option.bind_some, Option.pure_def, Option.some.injEq] at hd
      subst hd
      simp [kindOverload, Overload.matches, Feature.isScalar, Feature.isClass, Feature.dimSize]
    | gradient k =>
      have h1 := hnd k hk m (List.mem_of_getElem? hm)
      rw [hk] at hdesc
      obtain ⟨_, h0, _⟩ := hdesc
      simp only [hk, hf, Option.bind_some, Option.pure_def, Option.some.injEq] at hd
      subst hd
      simp [kindOverload, Overload.matches, Feature.isStruct, Feature.isClass, Feature.dimSize, h0, h1]
    | custom c =>
      have hmatch : ∀ name, c.out.matches (customDesc c.out name) = true := by
        intro name
        cases c.out <;>
          simp [customDesc, Overload.matches, Feature.isSclass, Feature.isMclass, Feature.isScalar, Feature.isStruct,
            Feature.isClass, Feature.dimSize]
      cases hc2 : c.in2 with
      | none =>
        simp only [hk, hf, hc2, Option.bind_some, Option.pure_def, Option.some.injEq] at hd
        subst hd
        exact hmatch _
      | some k2 =>
        obtain ⟨f2, hf2, _⟩ := hg.rows2 c k2 hk hc2 i m hm
        simp only [hk, hf, hf2, hc2, Option.bind_some, Option.pure_def, Option.some.injEq] at hd
        subst hd
        exact hmatch _
    | sclassId | mclassId | scalarId | structId =>
      all_goals
        simp only [hk, hf, Option.some.injEq] at hd
        subst hd
        rw [hk] at hacc
        simpa [kindOverload, Overload.matches, kindAccepts] using hacc

section
variable {α : Type} [Scalar α]

/-- `dataset_t::select` on a valid call is the `select` of the owning generator -/
theorem select_eq_gen (ds : Dataset) (hwf : ds.WF) (samples : List Int)
    (ss : List Nat) (hs : ds.checkSamples samples = some ss) (f gi i : Nat) (hfm : ds.featMap[f]? = some (gi, i))
    (hnd : ∀ g, ds.gens[gi]? = some g → g.NonDegenerate) :
    ∃ g desc, ds.gens[gi]? = some g ∧ i < g.features ∧ ds.feature f = some desc ∧
      featureColumns desc = g.colsize i ∧
      ds.select (α := α) samples (f : Int) (kindOverload g.kind) = g.select ds.st i ss := by
  obtain ⟨_, g, hg, hi⟩ := featMapFrom_getElem? 0 ds.gens f gi i hfm
  simp only [Nat.sub_zero] at hg
  have hgwf := hwf.gens g (List.mem_of_getElem? hg)
  obtain ⟨desc, hd, hc⟩ := featureColumns_eq_colsize ds.st g hgwf i hi
  have hfeat : ds.feature f = some desc := by
    simp [Dataset.feature, hfm, hg, hd]
  have hflt : f < ds.features := by
    unfold Dataset.features
    exact (List.getElem?_eq_some_iff.1 hfm).1
  have hcf : ds.checkFeature (f : Int) = some f := by
    unfold Dataset.checkFeature
    rw [if_pos ⟨by omega, by simpa using hflt⟩]
    simp
  have hmatch := kindOverload_matches ds.st g hgwf (hnd g hg) i desc hd
  refine ⟨g, desc, hg, hi, hfeat, hc, ?_⟩
  simp [Dataset.select, hs, hcf, hfeat, hmatch, hfm, hg]

end

section
variable {α : Type}

theorem zipWith_append_assoc : ∀ (a b c : List (List α)),
    List.zipWith (· ++ ·) a (List.zipWith (· ++ ·) b c) = List.zipWith (· ++ ·) (List.zipWith (· ++ ·) a b) c
  | [], _, _ => by simp
  | _ :: _, [], _ => by simp
  | _ :: _, _ :: _, [] => by simp
  | x :: a, y :: b, z :: c => by
    simp only [List.zipWith_cons_cons, List.append_assoc]
    congr 1
    exact zipWith_append_assoc a b c

theorem zipWith_nil_rows : ∀ (n : Nat) (x : List (List α)), x.length = n →
    List.zipWith (· ++ ·) (List.replicate n []) x = x
  | 0, [], _ => rfl
  | n + 1, r :: rs, h => by
    simp only [List.replicate_succ, List.zipWith_cons_cons, List.nil_append]
    congr 1
    exact zipWith_nil_rows n rs (by simpa using h)
  | 0, _ :: _, h => by simp at h
  | _ + 1, [], h => by simp at h

theorem hcatRows_append (n : Nat) : ∀ (A B : List (List (List α))), (∀ b ∈ B, b.length = n) →
    hcatRows n (A ++ B) = List.zipWith (· ++ ·) (hcatRows n A) (hcatRows n B)
  | [], B, hB => by
    simp only [List.nil_append, hcatRows]
    exact (zipWith_nil_rows n _ (hcatRows_length n B hB)).symm
  | a :: A, B, hB => by
    simp only [List.cons_append, hcatRows, hcatRows_append n A B hB, zipWith_append_assoc]

theorem hcatRows_flatMap {ι : Type} (n : Nat) (F : ι → List (List (List α))) : ∀ (L : List ι),
    (∀ x ∈ L, ∀ b ∈ F x, b.length = n) →
    hcatRows n (L.flatMap F) = hcatRows n (L.map (fun x => hcatRows n (F x)))
  | [], _ => rfl
  | x :: xs, h => by
    have hxs : ∀ y ∈ xs, ∀ b ∈ F y, b.length = n := fun y hy => h y (List.mem_cons_of_mem _ hy)
    simp only [List.flatMap_cons, List.map_cons, hcatRows]
    rw [hcatRows_append n (F x) _ (by
      intro b hb
      simp only [List.mem_flatMap] at hb
      obtain ⟨y, hy, hb⟩ := hb
      exact hxs y hy b hb)]
    rw [hcatRows_flatMap n F xs hxs]

theorem writeColumns_full : ∀ (buf full : List (List α)), full.length = buf.length →
    (∀ (k : Nat) (r f : List α), buf[k]? = some r → full[k]? = some f → f.length = r.length) →
    writeColumns buf 0 full = full
  | [], [], _, _ => rfl
  | [], _ :: _, h, _ => by simp at h
  | _ :: _, [], h, _ => by simp at h
  | r :: rs, f :: fs, hl, h => by
    simp only [writeColumns, List.zipWith_cons_cons]
    rw [writeAt_full r f (h 0 r f rfl rfl)]
    congr 1
    exact writeColumns_full rs fs (by simpa using hl)
      (fun k r' f' hr hf => h (k + 1) r' f' (by simpa using hr) (by simpa using hf))

end

section
variable {α : Type} [Scalar α]

/-- the view `dataset_t::select` returns for dataset feature `f` when called with the overload of the feature's kind -/
def Dataset.selectAuto (ds : Dataset) (samples : List Int) (f : Nat) : View α :=
  match ds.featMap[f]? with
  | some (gi, _) => ((ds.gens[gi]?).bind (fun g => ds.select samples (f : Int) (kindOverload g.kind))).getD default
  | none => default

/-- the columns `update()` reserves for dataset feature `f` -/
def Dataset.featureCols (ds : Dataset) (f : Nat) : Nat := ((ds.feature f).map featureColumns).getD 0

/-- generator form of the theorem: the flattened view is the horizontal concatenation, in generator and feature order, of
    the blocks written for the generated features; every column of the buffer is overwritten -/
theorem flatten_blocks (ds : Dataset) (hwf : ds.WF) (samples : List Int) (ss : List Nat)
    (hs : ds.checkSamples samples = some ss) (buf0 : List (List α)) (hlen : buf0.length = ss.length)
    (hrows : ∀ r ∈ buf0, r.length = ds.columns) :
    ds.flattenInto samples buf0 = some (hcatRows ss.length
      (ds.gens.flatMap (fun g => (List.range g.features).map (fun i => g.segments ds.st i ss)))) := by
  have hl := lenOk_of_wf ds.st hwf.st
  obtain ⟨_, hsum, _, hcols⟩ := columns_total' ds
  have hgc := hcols hwf.gens
  have hw : (ds.gens.map Gen.width).sum = ds.columns := by
    rw [← hsum, hgc]; rfl
  unfold Dataset.flattenInto
  simp only [hs, Option.bind_eq_bind, Option.bind_some, Option.pure_def, Option.some.injEq]
  rw [hgc]
  have := flattenGens_eq (α := α) ds.st hl ss ds.columns ds.gens buf0 0 hwf.gens hlen hrows (by omega)
  unfold Gen.width at this
  rw [this, hlen]
  have hfl := hcatRows_flatMap (α := α) ss.length
    (fun g : Gen => (List.range g.features).map (fun i => g.segments (α := α) ds.st i ss)) ds.gens (by
      intro g _ b hb
      simp only [List.mem_map] at hb
      obtain ⟨i, _, rfl⟩ := hb
      exact segments_length ds.st g i ss)
  rw [hfl]
  apply writeColumns_full
  · rw [hcatRows_length, hlen]
    intro b hb
    simp only [List.mem_map] at hb
    obtain ⟨g, _, rfl⟩ := hb
    exact hcatRows_length _ _ (by
      intro b hb
      simp only [List.mem_map] at hb
      obtain ⟨i, _, rfl⟩ := hb
      exact segments_length ds.st g i ss)
  · intro k r f hr hf
    rw [hrows r (List.mem_of_getElem? hr), ← hw]
    refine hcatRows_width ss.length _ (ds.gens.map Gen.width) (by simp) ?_ f (List.mem_of_getElem? hf)
    intro j b w hb hw'
    simp only [List.getElem?_map] at hb hw'
    cases hg : ds.gens[j]? with
    | none => simp [hg] at hb
    | some g =>
      simp only [hg, Option.map_some, Option.some.injEq] at hb hw'
      subst hb hw'
      have hgwf := hwf.gens g (List.mem_of_getElem? hg)
      exact ⟨block_length ds.st g ss, block_width ds.st hl g hgwf ss⟩

end

end NanoVerif.Dataset
