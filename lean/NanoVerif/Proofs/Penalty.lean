import NanoVerif.Model.Penalty
import Mathlib.Algebra.Order.Field.Basic
import Mathlib.Tactic.Ring
import Mathlib.Tactic.Linarith
/-!
  C05 — helper lemmas and specification-side definitions for `Props/C05.lean`: the model of `Model/Constraint.lean` and
  `Model/Penalty.lean` instantiated at an arbitrary linear ordered field.

  The specification side is written from the header comments of `include/nano/function/penalty.h`:
    linear    q(c, x) = f(x) + c * sum(|h_j(x)|, j) + c * sum(max(0, g_i(x)), i)
    quadratic q(c, x) = f(x) + c * sum(h_j(x)^2, j) + c * sum(max(0, g_i(x))^2, i)
    AL        q(c, x) = f(x) + ro/2 * sum((h_j(x) + lambda_j/ro)^2, j) + ro/2 * sum(max(0, g_i(x) + miu_i/ro)^2, i)
  with `List.sum`, `|·|`, `max` of Mathlib, and the gradients obtained from them by the chain rule, component by
  component (`gradient i = ∂f/∂x_i + Σ_k φ_k'(c_k(x)) ∂c_k/∂x_i`).
-/
namespace NanoVerif.Penalty
open NanoVerif.Constraint
set_option linter.unusedSectionVars false

variable {α : Type} [Field α] [LinearOrder α] [IsStrictOrderedRing α]

/-! ### the model's comparisons in exact arithmetic -/

theorem cmax_eq_max (a b : α) : cmax a b = max a b := by
  unfold cmax; split
  · rw [max_eq_right (le_of_lt ‹_›)]
  · rw [max_eq_left (not_lt.mp ‹_›)]

theorem cmin_eq_min (a b : α) : cmin a b = min a b := by
  unfold cmin; split
  · rw [min_eq_right (le_of_lt ‹_›)]
  · rw [min_eq_left (not_lt.mp ‹_›)]

theorem absv_eq_abs (x : α) : absv x = |x| := by
  unfold absv; split
  · rw [abs_of_neg ‹_›]
  · rw [abs_of_nonneg (not_lt.mp ‹_›)]

theorem half_eq : (half : α) = 1 / 2 := rfl

/-! ### specification-side definitions -/

/-- the equality constraints of an evaluated constraint list, in order -/
def eqs (es : List (Eval α)) : List (Eval α) := es.filter (fun e => e.isEq)

/-- the inequality constraints of an evaluated constraint list, in order -/
def ineqs (es : List (Eval α)) : List (Eval α) := es.filter (fun e => !e.isEq)

/-- the sub-gradient of `|·|` chosen by the code: `+1` at `0` -/
def sgn (y : α) : α := if 0 ≤ y then 1 else -1

/-- the sub-gradient of `max(0, ·)` chosen by the code: `0` at `0` -/
def step (y : α) : α := if 0 < y then 1 else 0

/-- `q(c, x) = f(x) + c * sum(|h_j(x)|, j) + c * sum(max(0, g_i(x)), i)` -/
def linearDef (c fx : α) (es : List (Eval α)) : α :=
  fx + c * ((eqs es).map (fun e => |e.fc|)).sum + c * ((ineqs es).map (fun e => max 0 e.fc)).sum

/-- component `i` of `∇f + c * sum(sgn(h_j) ∇h_j, j) + c * sum(step(g_i) ∇g_i, i)` -/
def linearDefGrad (c : α) (gf : List α) (es : List (Eval α)) (i : Nat) : α :=
  gf.getD i 0 + c * ((eqs es).map (fun e => sgn e.fc * e.gc.getD i 0)).sum
    + c * ((ineqs es).map (fun e => step e.fc * e.gc.getD i 0)).sum

/-- `q(c, x) = f(x) + c * sum(h_j(x)^2, j) + c * sum(max(0, g_i(x))^2, i)` -/
def quadraticDef (c fx : α) (es : List (Eval α)) : α :=
  fx + c * ((eqs es).map (fun e => e.fc ^ 2)).sum + c * ((ineqs es).map (fun e => (max 0 e.fc) ^ 2)).sum

/-- component `i` of `∇f + c * sum(2 h_j ∇h_j, j) + c * sum(2 max(0, g_i) ∇g_i, i)` -/
def quadraticDefGrad (c : α) (gf : List α) (es : List (Eval α)) (i : Nat) : α :=
  gf.getD i 0 + c * ((eqs es).map (fun e => 2 * e.fc * e.gc.getD i 0)).sum
    + c * ((ineqs es).map (fun e => 2 * max 0 e.fc * e.gc.getD i 0)).sum

/-- `q(c, x) = f(x) + ro/2 * sum((h_j(x) + lambda_j/ro)^2, j) + ro/2 * sum(max(0, g_i(x) + miu_i/ro)^2, i)` -/
def alDef (ro : α) (lambda miu : List α) (fx : α) (es : List (Eval α)) : α :=
  fx + ro / 2 * (List.zipWith (fun e l => (e.fc + l / ro) ^ 2) (eqs es) lambda).sum
    + ro / 2 * (List.zipWith (fun e m => (max 0 (e.fc + m / ro)) ^ 2) (ineqs es) miu).sum

/-- component `i` of `∇f + ro * sum((h_j + lambda_j/ro) ∇h_j, j) + ro * sum(max(0, g_i + miu_i/ro) ∇g_i, i)` -/
def alDefGrad (ro : α) (lambda miu : List α) (gf : List α) (es : List (Eval α)) (i : Nat) : α :=
  gf.getD i 0 + ro * (List.zipWith (fun e l => (e.fc + l / ro) * e.gc.getD i 0) (eqs es) lambda).sum
    + ro * (List.zipWith (fun e m => max 0 (e.fc + m / ro) * e.gc.getD i 0) (ineqs es) miu).sum

/-- `x` is feasible: every equality is zero, every inequality is non-positive -/
def Feasible (es : List (Eval α)) : Prop := ∀ e ∈ es, if e.isEq then e.fc = 0 else e.fc ≤ 0

/-! ### `gx += s * gc` -/

theorem axpy_length (s : α) (gc gx : List α) (h : gc.length = gx.length) : (axpy s gc gx).length = gx.length := by
  simp [axpy, h]

theorem axpy_getD (s : α) : ∀ (gx gc : List α) (i : Nat), gc.length = gx.length →
    (axpy s gc gx).getD i 0 = gx.getD i 0 + s * gc.getD i 0
  | [], [], i, _ => by simp [axpy]
  | [], _ :: _, _, h => by simp at h
  | _ :: _, [], _, h => by simp at h
  | g :: gx, c :: gc, 0, _ => by simp [axpy]
  | g :: gx, c :: gc, i + 1, h => by
    have ih := axpy_getD s gx gc i (by simpa using h)
    simpa [axpy] using ih

/-! ### the fold of `penalty_vgrad` -/

theorem eqs_cons (e : Eval α) (es : List (Eval α)) :
    eqs (e :: es) = if e.isEq then e :: eqs es else eqs es := by
  unfold eqs; rw [List.filter_cons]

theorem ineqs_cons (e : Eval α) (es : List (Eval α)) :
    ineqs (e :: es) = if e.isEq then ineqs es else e :: ineqs es := by
  unfold ineqs; rw [List.filter_cons]; cases e.isEq <;> simp

/-- the generic statement about `penalty_vgrad` with `op(fc, gc) = (φ fc, gx += ψ fc * gc)` -/
theorem penaltyVgrad_spec (φ ψ : α → α) (n : Nat) :
    ∀ (es : List (Eval α)) (fx : α) (gx : List α), gx.length = n → (∀ e ∈ es, e.gc.length = n) →
    let r := penaltyVgrad (fun fc gc gx => (φ fc, axpy (ψ fc) gc gx)) fx gx es
    r.1 = fx + ((eqs es).map (fun e => φ e.fc)).sum
            + ((ineqs es).map (fun e => if 0 < e.fc then φ e.fc else 0)).sum ∧
    r.2.length = n ∧
    ∀ i, r.2.getD i 0 = gx.getD i 0 + ((eqs es).map (fun e => ψ e.fc * e.gc.getD i 0)).sum
            + ((ineqs es).map (fun e => if 0 < e.fc then ψ e.fc * e.gc.getD i 0 else 0)).sum := by
  intro es
  induction es with
  | nil => intro fx gx hgx _; simp [penaltyVgrad, eqs, ineqs, hgx]
  | cons e es ih =>
    intro fx gx hgx hes
    have hel : e.gc.length = n := hes e (by simp)
    have hes' : ∀ e' ∈ es, e'.gc.length = n := fun e' he' => hes e' (by simp [he'])
    have hax : (axpy (ψ e.fc) e.gc gx).length = n := by rw [axpy_length _ _ _ (by rw [hel, hgx]), hgx]
    have hget : ∀ i, (axpy (ψ e.fc) e.gc gx).getD i 0 = gx.getD i 0 + ψ e.fc * e.gc.getD i 0 :=
      fun i => axpy_getD _ gx e.gc i (by rw [hel, hgx])
    simp only [penaltyVgrad, eqs_cons, ineqs_cons]
    cases heq : e.isEq with
    | true =>
      obtain ⟨h1, h2, h3⟩ := ih (fx + φ e.fc) (axpy (ψ e.fc) e.gc gx) hax hes'
      simp only [Bool.true_or, if_true, List.map_cons, List.sum_cons]
      refine ⟨by rw [h1]; ring, h2, fun i => by rw [h3 i, hget i]; ring⟩
    | false =>
      by_cases hpos : 0 < e.fc
      · obtain ⟨h1, h2, h3⟩ := ih (fx + φ e.fc) (axpy (ψ e.fc) e.gc gx) hax hes'
        simp only [Bool.false_or, hpos, decide_true, if_true, Bool.false_eq_true, if_false, List.map_cons,
          List.sum_cons]
        refine ⟨by rw [h1]; ring, h2, fun i => by rw [h3 i, hget i]; ring⟩
      · obtain ⟨h1, h2, h3⟩ := ih fx gx hgx hes'
        simp only [Bool.false_or, hpos, decide_false, Bool.false_eq_true, if_false, List.map_cons, List.sum_cons]
        refine ⟨by rw [h1]; ring, h2, fun i => by rw [h3 i]; ring⟩


/-! ### the fold of `augmented_lagrangian_function_t::do_vgrad` -/

theorem alVgrad_cons (ro : α) (lambda miu : List α) (fx : α) (gx : List α) (e : Eval α) (es : List (Eval α)) :
    alVgrad ro lambda miu fx gx (e :: es) =
      if e.isEq then
        match lambda with
        | [] => none
        | l :: lambda' =>
          alVgrad ro lambda' miu (fx + half * ro * (e.fc + l / ro) * (e.fc + l / ro))
            (axpy (ro * (e.fc + l / ro)) e.gc gx) es
      else
        match miu with
        | [] => none
        | m :: miu' =>
          if 0 < e.fc + m / ro then
            alVgrad ro lambda miu' (fx + half * ro * (e.fc + m / ro) * (e.fc + m / ro))
              (axpy (ro * (e.fc + m / ro)) e.gc gx) es
          else alVgrad ro lambda miu' fx gx es := by
  cases lambda <;> cases miu <;> simp [alVgrad]

theorem alVgrad_spec (ro : α) (n : Nat) :
    ∀ (es : List (Eval α)) (lambda miu : List α) (fx : α) (gx : List α), gx.length = n →
    (∀ e ∈ es, e.gc.length = n) → lambda.length = (eqs es).length → miu.length = (ineqs es).length →
    ∃ r, alVgrad ro lambda miu fx gx es = some r ∧
      r.1 = fx + ro / 2 * (List.zipWith (fun e l => (e.fc + l / ro) ^ 2) (eqs es) lambda).sum
              + ro / 2 * (List.zipWith (fun e m => (max 0 (e.fc + m / ro)) ^ 2) (ineqs es) miu).sum ∧
      r.2.length = n ∧
      ∀ i, r.2.getD i 0 = gx.getD i 0
              + ro * (List.zipWith (fun e l => (e.fc + l / ro) * e.gc.getD i 0) (eqs es) lambda).sum
              + ro * (List.zipWith (fun e m => max 0 (e.fc + m / ro) * e.gc.getD i 0) (ineqs es) miu).sum := by
  intro es
  induction es with
  | nil =>
    intro lambda miu fx gx hgx _ hl hm
    have hl' : lambda = [] := by simpa [eqs] using hl
    have hm' : miu = [] := by simpa [ineqs] using hm
    subst hl' hm'
    exact ⟨(fx, gx), by simp [alVgrad], by simp [eqs, ineqs], hgx, by simp [eqs, ineqs]⟩
  | cons e es ih =>
    intro lambda miu fx gx hgx hes hl hm
    have hel : e.gc.length = n := hes e (by simp)
    have hes' : ∀ e' ∈ es, e'.gc.length = n := fun e' he' => hes e' (by simp [he'])
    have hax : ∀ s : α, (axpy s e.gc gx).length = n := fun s => by
      rw [axpy_length _ _ _ (by rw [hel, hgx]), hgx]
    have hget : ∀ (s : α) i, (axpy s e.gc gx).getD i 0 = gx.getD i 0 + s * e.gc.getD i 0 :=
      fun s i => axpy_getD _ gx e.gc i (by rw [hel, hgx])
    rw [eqs_cons] at hl
    rw [ineqs_cons] at hm
    simp only [eqs_cons, ineqs_cons]
    cases heq : e.isEq with
    | true =>
      simp only [heq, if_true, List.length_cons] at hl hm
      cases lambda with
      | nil => simp at hl
      | cons l lambda' =>
        obtain ⟨r, hr, h1, h2, h3⟩ := ih lambda' miu (fx + half * ro * (e.fc + l / ro) * (e.fc + l / ro))
          (axpy (ro * (e.fc + l / ro)) e.gc gx) (hax _) hes' (by simpa using hl) hm
        refine ⟨r, by rw [alVgrad_cons]; simp only [heq, if_true]; exact hr, ?_, h2, fun i => ?_⟩
        · simp only [if_true, List.zipWith_cons_cons, List.sum_cons]
          rw [h1, half_eq]; ring
        · simp only [if_true, List.zipWith_cons_cons, List.sum_cons]
          rw [h3 i, hget]; ring
    | false =>
      simp only [heq, Bool.false_eq_true, if_false, List.length_cons] at hl hm
      cases miu with
      | nil => simp at hm
      | cons m miu' =>
        by_cases hpos : 0 < e.fc + m / ro
        · obtain ⟨r, hr, h1, h2, h3⟩ := ih lambda miu' (fx + half * ro * (e.fc + m / ro) * (e.fc + m / ro))
            (axpy (ro * (e.fc + m / ro)) e.gc gx) (hax _) hes' hl (by simpa using hm)
          refine ⟨r, by rw [alVgrad_cons]; simp only [heq, Bool.false_eq_true, if_false, hpos, if_true]; exact hr, ?_, h2,
            fun i => ?_⟩
          · simp only [Bool.false_eq_true, if_false, List.zipWith_cons_cons, List.sum_cons,
              max_eq_right (le_of_lt hpos)]
            rw [h1, half_eq]; ring
          · simp only [Bool.false_eq_true, if_false, List.zipWith_cons_cons, List.sum_cons,
              max_eq_right (le_of_lt hpos)]
            rw [h3 i, hget]; ring
        · obtain ⟨r, hr, h1, h2, h3⟩ := ih lambda miu' fx gx hgx hes' hl (by simpa using hm)
          refine ⟨r, by rw [alVgrad_cons]; simp only [heq, Bool.false_eq_true, if_false, hpos]; exact hr, ?_, h2,
            fun i => ?_⟩
          · simp only [Bool.false_eq_true, if_false, List.zipWith_cons_cons, List.sum_cons,
              max_eq_left (not_lt.mp hpos)]
            rw [h1]; ring
          · simp only [Bool.false_eq_true, if_false, List.zipWith_cons_cons, List.sum_cons,
              max_eq_left (not_lt.mp hpos)]
            rw [h3 i]; ring

/-- the error branch: when a constructor assert of `augmented_lagrangian_function_t` fails the model has no value -/
theorem alVgrad_none (ro : α) :
    ∀ (es : List (Eval α)) (lambda miu : List α) (fx : α) (gx : List α),
    (lambda.length ≠ (eqs es).length ∨ miu.length ≠ (ineqs es).length) →
    alVgrad ro lambda miu fx gx es = none := by
  intro es
  induction es with
  | nil =>
    intro lambda miu fx gx h
    cases lambda <;> cases miu <;> simp_all [alVgrad, eqs, ineqs]
  | cons e es ih =>
    intro lambda miu fx gx h
    rw [eqs_cons, ineqs_cons] at h
    cases heq : e.isEq with
    | true =>
      simp only [heq, if_true, List.length_cons] at h
      cases lambda with
      | nil => rw [alVgrad_cons]; simp [heq]
      | cons l lambda' =>
        rw [alVgrad_cons]; simp only [heq, if_true]
        apply ih
        rcases h with h | h
        · left; simpa using h
        · right; exact h
    | false =>
      simp only [heq, Bool.false_eq_true, if_false, List.length_cons] at h
      cases miu with
      | nil => rw [alVgrad_cons]; simp [heq]
      | cons m miu' =>
        have h' : lambda.length ≠ (eqs es).length ∨ miu'.length ≠ (ineqs es).length := by
          rcases h with h | h
          · left; exact h
          · right; simpa using h
        rw [alVgrad_cons]; simp only [heq, Bool.false_eq_true, if_false]
        split
        · exact ih _ _ _ _ h'
        · exact ih _ _ _ _ h'

theorem sum_map_mul_left {β : Type} (c : α) (f : β → α) (l : List β) :
    (l.map (fun b => c * f b)).sum = c * (l.map f).sum := by
  induction l with
  | nil => simp
  | cons b bs ih => simp only [List.map_cons, List.sum_cons, ih]; ring

theorem sum_map_congr {β : Type} (f g : β → α) (l : List β) (h : ∀ b ∈ l, f b = g b) :
    (l.map f).sum = (l.map g).sum := by
  induction l with
  | nil => simp
  | cons b bs ih =>
    simp only [List.map_cons, List.sum_cons]
    rw [h b (by simp), ih (fun b' hb' => h b' (by simp [hb']))]

theorem sum_map_zero {β : Type} (f : β → α) (l : List β) (h : ∀ b ∈ l, f b = 0) : (l.map f).sum = 0 := by
  induction l with
  | nil => simp
  | cons b bs ih =>
    simp only [List.map_cons, List.sum_cons]
    rw [h b (by simp), ih (fun b' hb' => h b' (by simp [hb'])), add_zero]

theorem mem_eqs {es : List (Eval α)} {e : Eval α} (h : e ∈ eqs es) : e ∈ es ∧ e.isEq = true := by
  simpa [eqs] using h

theorem mem_ineqs {es : List (Eval α)} {e : Eval α} (h : e ∈ ineqs es) : e ∈ es ∧ e.isEq = false := by
  simpa [ineqs] using h

end NanoVerif.Penalty
