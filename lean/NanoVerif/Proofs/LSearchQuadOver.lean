import NanoVerif.Proofs.LSearchQuadRuns
/-!
  C07 — helper lemmas: the four bracketing searches on a convex quadratic `φ(t) = f0 + g0 t + h t²/2` whose first trial step
  OVERSHOOTS. One interpolation (exact on quadratic data) lands on the minimiser `t* = -g0/h`, which is accepted when
  `c1 ≤ 1/2` (Armijo at `t*` ⇔ `c1 ≤ 1/2`, `armijo_at_tstar_iff`) and `0 ≤ c2`, provided the safeguards do not clamp it.
-/
namespace NanoVerif.LSearch
open NanoVerif.Gen.LsPredicates

set_option linter.unusedSectionVars false
set_option linter.unusedVariables false

variable {α : Type} [Field α] [LinearOrder α] [IsStrictOrderedRing α]

/-- `get` on an always-valid line function when the second loop does not fire: `do_get` is entered at `initialStep` -/
theorem get_line_nogrow (ψ : α → Eval α) (hok : ∀ t, (ψ t).ok = true) (m : Method) (cfg : Cfg α) (s0 : Eval α) (t0 : α)
    (hg : s0.g < 0) (hM : 0 < cfg.maxIter)
    (hng : ¬ absv ((ψ (initialStep cfg t0)).f - s0.f) < cfg.eps1) :
    get m cfg (fun _ => ψ) s0 t0 =
      doGet m cfg (fun _ => ψ) s0 (initialStep cfg t0) ⟨ψ (initialStep cfg t0), [initialStep cfg t0]⟩ := by
  obtain ⟨n, hn⟩ : ∃ n, cfg.maxIter = n + 1 := ⟨cfg.maxIter - 1, by omega⟩
  have hd : hasDescent s0.g = true := by simp [hasDescent, hg]
  simp only [get, hd, if_true]
  rw [hn, shrink_valid ψ hok, ← hn]
  have h1 : (ask (fun _ => ψ) ⟨s0, []⟩ (initialStep cfg t0)) = ⟨ψ (initialStep cfg t0), [initialStep cfg t0]⟩ := by simp [ask]
  rw [h1]
  simp only [hok, if_true]
  rw [hn]
  simp only [grow, hng, if_false]

/-- the slope of the quadratic is non-negative from the minimiser on -/
theorem quad_slope_nonneg {f0 g0 h t : α} (hh : 0 < h) (ht : tstar g0 h ≤ t) : 0 ≤ (quadLine f0 g0 h t).g := by
  have e := h_tstar (g0 := g0) hh
  have := mul_le_mul_of_nonneg_left ht (le_of_lt hh)
  simp only [quadLine]; linarith

/-! ### CG_DESCENT -/

theorem cgDone_bracketed_eq (cfg : Cfg α) (s0 : Eval α) (epsk : α) (iv : CG α) (ctx : Ctx α)
    (h1 : ¬ iv.a.f > s0.f + epsk) (h2 : ¬ iv.b.g < 0) :
    cgDone cfg s0 epsk true iv ctx = cgDone cfg s0 epsk false iv ctx := by
  simp [cgDone, h1, h2]

theorem cgDone_accept (cfg : Cfg α) (s0 : Eval α) (epsk : α) (br : Bool) (iv : CG α) (ctx : Ctx α)
    (h1 : ¬ iv.a.f > s0.f + epsk) (h2 : ¬ iv.b.g < 0) (hok : ctx.cur.ok = true) (ha : iv.a.t ≤ iv.t) (hb : iv.t ≤ iv.b.t)
    (hA : hasArmijo s0.f s0.g ctx.cur.f iv.t cfg.c1 = true) (hW : hasWolfe s0.g ctx.cur.g cfg.c2 = true) :
    cgDone cfg s0 epsk br iv ctx = true := by
  simp [cgDone, h1, h2, hok, not_lt.mpr ha, not_lt.mpr hb, hA, hW]

/-- CG_DESCENT entered at a step `t ≥ t*` (non-negative slope): success at `t` itself or, after one secant step, at `t*` -/
theorem cgdescent_quad_overshoot (cfg : Cfg α) (f0 g0 h : α) (hg : g0 < 0) (hh : 0 < h) (t : α) (ctx : Ctx α)
    (hc : ctx.cur = quadLine f0 g0 h t) (ht : tstar g0 h ≤ t) (hc1 : cfg.c1 ≤ 1 / 2) (hc2 : 0 ≤ cfg.c2)
    (heps : 0 ≤ cfg.cgEpsilon) (hfin : cfg.fin (tstar g0 h) = true) (hM : 0 < cfg.maxIter) (hw : stpmin cfg.macheps < t) :
    (cgdescent cfg (fun _ => quadLine f0 g0 h) ⟨f0, g0, true⟩ t ctx).ok = true ∧
    ((cgdescent cfg (fun _ => quadLine f0 g0 h) ⟨f0, g0, true⟩ t ctx).t = t ∨
      (cgdescent cfg (fun _ => quadLine f0 g0 h) ⟨f0, g0, true⟩ t ctx).t = tstar g0 h) ∧
    (cgdescent cfg (fun _ => quadLine f0 g0 h) ⟨f0, g0, true⟩ t ctx).ctx.cur =
      quadLine f0 g0 h (cgdescent cfg (fun _ => quadLine f0 g0 h) ⟨f0, g0, true⟩ t ctx).t ∧
    (CgWolfe cfg ⟨f0, g0, true⟩ (cgdescent cfg (fun _ => quadLine f0 g0 h) ⟨f0, g0, true⟩ t ctx) ∨
      CgApprox cfg ⟨f0, g0, true⟩ (cgdescent cfg (fun _ => quadLine f0 g0 h) ⟨f0, g0, true⟩ t ctx)) := by
  have hp := tstar_pos hg hh
  have ht0 : 0 < t := lt_of_lt_of_le hp ht
  have hok : ctx.cur.ok = true := by rw [hc]; rfl
  have hepsk : 0 ≤ cfg.cgEpsilon * absv f0 := by
    apply mul_nonneg heps; rw [absv_eq_abs]; exact abs_nonneg _
  have hgt : 0 ≤ ctx.cur.g := by rw [hc]; exact quad_slope_nonneg hh ht
  have hnd : hasDescent ctx.cur.g = false := by simp [hasDescent, hgt]
  obtain ⟨m, hm⟩ : ∃ m, cfg.maxIter = m + 1 := ⟨cfg.maxIter - 1, by omega⟩
  simp only [cgdescent]
  split
  · rename_i hdone
    refine ⟨hok, Or.inl rfl, hc, ?_⟩
    have hnf : ¬ ((false = true ∧ ((⟨0, f0, g0⟩ : Step α).f > f0 + cfg.cgEpsilon * absv f0 ∨ (stepOf ctx t).g < 0)) ∨
        ctx.cur.ok = false) := by
      rintro (⟨h1, _⟩ | h1)
      · cases h1
      · rw [hok] at h1; cases h1
    exact (cgDone_conditions cfg ⟨f0, g0, true⟩ ⟨⟨0, f0, g0⟩, stepOf ctx t, t⟩ ctx false hnf hdone).2
  · rename_i hdone
    -- `bracket` returns at once: the first trial has no descent
    have hbr : cgBracket cfg (fun _ => quadLine f0 g0 h) ⟨f0, g0, true⟩ (cfg.cgEpsilon * absv f0) cfg.maxIter ⟨0, f0, g0⟩
        ⟨⟨0, f0, g0⟩, stepOf ctx t, t⟩ ctx = ⟨cfg.maxIter, ⟨⟨0, f0, g0⟩, stepOf ctx t, t⟩, ctx⟩ := by
      rw [hm]; simp only [cgBracket, hok, hnd, if_true]
    rw [hbr]
    have ha : ¬ (⟨0, f0, g0⟩ : Step α).f > f0 + cfg.cgEpsilon * absv f0 := by simp; linarith
    have hb : ¬ (stepOf ctx t).g < 0 := by simp [stepOf]; exact hgt
    have hdone2 : ¬ cgDone cfg ⟨f0, g0, true⟩ (cfg.cgEpsilon * absv f0) true ⟨⟨0, f0, g0⟩, stepOf ctx t, t⟩ ctx = true := by
      rw [cgDone_bracketed_eq cfg _ _ _ _ ha hb]; exact hdone
    simp only [hdone2]
    -- the loop: one secant step
    have hsec : secant ⟨0, f0, g0⟩ (stepOf ctx t) = tstar g0 h :=
      secant_exact hh _ _ (onQuad_origin f0 g0 h) (onQuad_stepOf f0 g0 h ctx t hc) (ne_of_lt ht0)
    have hacc : cgDone cfg ⟨f0, g0, true⟩ (cfg.cgEpsilon * absv f0) true ⟨⟨0, f0, g0⟩, stepOf ctx t, tstar g0 h⟩
        (ask (fun _ => quadLine f0 g0 h) ctx (tstar g0 h)) = true := by
      apply cgDone_accept cfg _ _ _ _ _ ha hb
      · simp [ask, quadLine]
      · exact le_of_lt hp
      · simpa [stepOf] using ht
      · simpa [ask] using (armijo_at_tstar_iff hg hh).mpr hc1
      · simpa [ask] using (strongWolfe_at_tstar (f0 := f0) hg hh hc2).2
    rw [hm]
    simp only [cgLoop]
    have hcond : 0 < m + 1 ∧ (stepOf ctx t).t - (0 : α) > stpmin cfg.macheps := ⟨by omega, by simpa [stepOf] using hw⟩
    simp only [hcond, and_self, if_true, hsec, cgTry, hfin, cgMove, hacc, cgResult, Bool.true_eq_false, Bool.false_eq_true, if_false]
    refine ⟨by simp [ask, quadLine], Or.inr trivial, by simp [ask], Or.inl ⟨?_, ?_⟩⟩
    · simpa [ask] using (armijo_at_tstar_iff hg hh).mpr hc1
    · simpa [ask] using (strongWolfe_at_tstar (f0 := f0) hg hh hc2).2

/-! ### the interpolation contract on quadratic data, and the real `interpolate` satisfies it -/

/-- the interpolation of the configuration returns the minimiser on quadratic data -/
def InterpExact (cfg : Cfg α) (f0 g0 h : α) : Prop :=
  ∀ u v : Step α, OnQuad f0 g0 h u → OnQuad f0 g0 h v → u.t ≠ v.t → cfg.interp u v = tstar g0 h

/-- `lsearch_step_t::interpolate` in mode `quadratic`, and in mode `cubic` with any square root that is one on
    non-negative arguments, is exact on quadratic data as soon as `isfinite(t*)` -/
theorem interpolate_exact [Sqrt α] (hs : ∀ x : α, 0 ≤ x → 0 ≤ Sqrt.sqrt x ∧ Sqrt.sqrt x * Sqrt.sqrt x = x)
    (fin : α → Bool) {f0 g0 h : α} (hh : 0 < h) (hfin : fin (tstar g0 h) = true) (mode : Interp) (hm : mode ≠ .bisection)
    (u v : Step α) (hu : OnQuad f0 g0 h u) (hv : OnQuad f0 g0 h v) (hne : u.t ≠ v.t) :
    interpolate fin mode u v = tstar g0 h := by
  have e1 := cubic_exact hs hh u v hu hv hne
  have e2 := quadratic_exact hh u v hu hv hne
  cases mode with
  | bisection => exact absurd rfl hm
  | quadratic => simp [interpolate, e2, hfin]
  | cubic => simp [interpolate, e1, hfin]

/-! ### LeMaréchal -/

/-- LeMaréchal entered at a step `t` where Armijo fails (`t > 2(1 - c1) t*`) and the safeguards `[s·t, (1 - s)·t]` contain
    `t*`: the interpolated step is `t*` and it is accepted -/
theorem lemarechal_quad_overshoot (cfg : Cfg α) (f0 g0 h : α) (hg : g0 < 0) (hh : 0 < h) (hI : InterpExact cfg f0 g0 h)
    (n : Nat) (t : α) (ctx : Ctx α) (hc : ctx.cur = quadLine f0 g0 h t) (ht : 2 * (1 - cfg.c1) * tstar g0 h < t)
    (hlo : cfg.safeguard * t ≤ tstar g0 h) (hhi : tstar g0 h ≤ (1 - cfg.safeguard) * t) (hc1 : cfg.c1 ≤ 1 / 2)
    (hc2 : 0 ≤ cfg.c2) :
    lemarechal cfg (fun _ => quadLine f0 g0 h) ⟨f0, g0, true⟩ (n + 2) ⟨0, f0, g0⟩ ⟨0, f0, g0⟩ t ctx =
      ⟨true, tstar g0 h, ask (fun _ => quadLine f0 g0 h) ctx (tstar g0 h)⟩ := by
  have hp := tstar_pos hg hh
  have ht0 : 0 < t := lt_of_le_of_lt (mul_nonneg (by linarith) (le_of_lt hp)) ht
  have hA : ¬ hasArmijo f0 g0 ctx.cur.f t cfg.c1 = true := by
    rw [hc, armijo_quad_iff hh ht0]; exact not_le.mpr ht
  have hint : lemInterp cfg ⟨0, f0, g0⟩ (stepOf ctx t) = tstar g0 h := by
    unfold lemInterp
    rw [hI _ _ (onQuad_origin f0 g0 h) (onQuad_stepOf f0 g0 h ctx t hc) (ne_of_lt ht0)]
    apply clamp_id
    · simp only [stepOf]; linarith
    · simp only [stepOf]; linarith
  have hA2 : hasArmijo f0 g0 (quadLine f0 g0 h (tstar g0 h)).f (tstar g0 h) cfg.c1 = true := (armijo_at_tstar_iff hg hh).mpr hc1
  have hW2 := (strongWolfe_at_tstar (f0 := f0) hg hh hc2).2
  simp only [lemarechal, hA, hint]
  simp [ask, quadLine] at hA2 hW2 ⊢
  simp [hA2, hW2]

/-! ### Fletcher -/

/-- Fletcher entered at a step `t` where Armijo fails and the zoom safeguards `[min(tau2, c2)·t, (1 - tau3)·t]` contain `t*`:
    the first zoom step is `t*` and it is accepted -/
theorem fletcher_quad_overshoot (cfg : Cfg α) (f0 g0 h : α) (hg : g0 < 0) (hh : 0 < h) (hI : InterpExact cfg f0 g0 h)
    (n : Nat) (t : α) (ctx : Ctx α) (hc : ctx.cur = quadLine f0 g0 h t) (ht : 2 * (1 - cfg.c1) * tstar g0 h < t)
    (ht0 : 0 < t) (hlo : min cfg.tau2 cfg.c2 * t ≤ tstar g0 h) (hhi : tstar g0 h ≤ (1 - cfg.tau3) * t)
    (hc1 : cfg.c1 ≤ 1 / 2) (hc2 : 0 ≤ cfg.c2) (hM : 0 < cfg.maxIter) (heps : cfg.eps0 < t) :
    fletcher cfg (fun _ => quadLine f0 g0 h) ⟨f0, g0, true⟩ (n + 1) ⟨0, f0, g0⟩ (stepOf ctx t) t ctx =
      ⟨true, tstar g0 h, ask (fun _ => quadLine f0 g0 h) ctx (tstar g0 h)⟩ := by
  have hp := tstar_pos hg hh
  obtain ⟨m, hm⟩ : ∃ m, cfg.maxIter = m + 1 := ⟨cfg.maxIter - 1, by omega⟩
  have hA : hasArmijo f0 g0 ctx.cur.f t cfg.c1 = false := by
    have : ¬ hasArmijo f0 g0 ctx.cur.f t cfg.c1 = true := by
      rw [hc, armijo_quad_iff hh ht0]; exact not_le.mpr ht
    simpa using this
  have hw : absv ((⟨0, f0, g0⟩ : Step α).t - (stepOf ctx t).t) > cfg.eps0 := by
    simp only [stepOf, absv_eq_abs, zero_sub, abs_neg, abs_of_pos ht0]; exact heps
  have hclamp : clamp (cfg.interp ⟨0, f0, g0⟩ (stepOf ctx t))
      (cmin (⟨0, f0, g0⟩ : Step α).t (stepOf ctx t).t + cmin cfg.tau2 cfg.c2 * absv ((stepOf ctx t).t - (⟨0, f0, g0⟩ : Step α).t))
      (cmax (⟨0, f0, g0⟩ : Step α).t (stepOf ctx t).t - cfg.tau3 * absv ((stepOf ctx t).t - (⟨0, f0, g0⟩ : Step α).t))
      = tstar g0 h := by
    rw [hI _ _ (onQuad_origin f0 g0 h) (onQuad_stepOf f0 g0 h ctx t hc) (ne_of_lt ht0)]
    simp only [stepOf, cmin_eq_min, cmax_eq_max, absv_eq_abs, sub_zero, abs_of_pos ht0, min_eq_left (le_of_lt ht0),
      max_eq_right (le_of_lt ht0)]
    apply clamp_id <;> linarith
  have hA2 : hasArmijo f0 g0 (quadLine f0 g0 h (tstar g0 h)).f (tstar g0 h) cfg.c1 = true := (armijo_at_tstar_iff hg hh).mpr hc1
  have hS2 := (strongWolfe_at_tstar (f0 := f0) hg hh hc2).1
  have hlt := quadLine_tstar_lt (f0 := f0) hg hh
  simp only [fletcher, hA, true_or, if_true]
  rw [hm]
  simp only [zoom, hw, if_true, hclamp]
  simp [ask, quadLine] at hA2 hS2 hlt ⊢
  simp [hA2, hS2, not_le.mpr hlt]

/-! ### Moré–Thuente -/

/-- Moré–Thuente entered at a step `t > 2 t*` (the value increased): `dcstep` brackets `[0, t]`, its cubic and quadratic
    steps are both `t*`, and the next iteration returns `{true, t*}` (convergence test) -/
theorem morethuente_quad_overshoot (cfg : Cfg α) (f0 g0 h : α) (hg : g0 < 0) (hh : 0 < h)
    (hC : ∀ u v : Step α, OnQuad f0 g0 h u → OnQuad f0 g0 h v → u.t ≠ v.t → cfg.cubic u v = tstar g0 h)
    (n : Nat) (t : α) (ctx : Ctx α) (hc : ctx.cur = quadLine f0 g0 h t) (ht : 2 * tstar g0 h < t)
    (hlo : stpmin cfg.macheps ≤ tstar g0 h) (hhi : tstar g0 h ≤ stpmax cfg.macheps)
    (hbis : t < 2 * (stpmax cfg.macheps - stpmin cfg.macheps) * (66 / 100))
    (hc10 : 0 ≤ cfg.c1) (hc1 : cfg.c1 ≤ 1 / 2) (hc2 : 0 ≤ cfg.c2) (heps : cfg.eps0 < 1) :
    morethuente cfg (fun _ => quadLine f0 g0 h) ⟨f0, g0, true⟩ (n + 2) (morethuenteInit cfg ⟨f0, g0, true⟩ t) ctx =
      ⟨true, tstar g0 h, ask (fun _ => quadLine f0 g0 h) ctx (tstar g0 h)⟩ := by
  have hp := tstar_pos hg hh
  have ht0 : 0 < t := by linarith
  have e := h_tstar (g0 := g0) hh
  -- the value at `t` exceeds the value at the origin
  have hf : f0 < ctx.cur.f := by
    rw [hc]; simp only [quadLine]
    have : g0 * t = -(h * tstar g0 h * t) := by rw [e]; ring
    nlinarith [mul_pos (mul_pos hh ht0) (sub_pos.mpr ht)]
  have hftest : ¬ ctx.cur.f ≤ f0 + t * (cfg.c1 * g0) := by
    have : t * (cfg.c1 * g0) ≤ 0 := by
      have := mul_nonneg hc10 (le_of_lt (neg_pos.mpr hg)); nlinarith
    intro h'; linarith
  have hstpmin : ¬ t ≤ stpmin cfg.macheps := by linarith
  -- first iteration: neither converged nor given up
  have hx0 : mtConverged cfg ⟨f0, g0, true⟩ (morethuenteInit cfg ⟨f0, g0, true⟩ t) ctx.cur.f ctx.cur.g = false := by
    rw [Bool.eq_false_iff]; intro hx
    exact hftest (by simpa [morethuenteInit] using ((mtConverged_iff ..).mp hx).1)
  have hg0' : mtGiveUp cfg ⟨f0, g0, true⟩ (morethuenteInit cfg ⟨f0, g0, true⟩ t) ctx.cur.f ctx.cur.g = false := by
    simp [mtGiveUp, morethuenteInit, hftest, hstpmin]
  -- `dcstep`: case 1
  have hX : OnQuad f0 g0 h ⟨0, f0, g0⟩ := onQuad_origin f0 g0 h
  have hP : OnQuad f0 g0 h ⟨t, ctx.cur.f, ctx.cur.g⟩ := onQuad_stepOf f0 g0 h ctx t hc
  have hcub : cfg.cubic ⟨0, f0, g0⟩ ⟨t, ctx.cur.f, ctx.cur.g⟩ = tstar g0 h := hC _ _ hX hP (ne_of_lt ht0)
  have hquad : quadratic ⟨0, f0, g0⟩ ⟨t, ctx.cur.f, ctx.cur.g⟩ = tstar g0 h := quadratic_exact hh _ _ hX hP (ne_of_lt ht0)
  have hnext : mtNext cfg ⟨f0, g0, true⟩ (morethuenteInit cfg ⟨f0, g0, true⟩ t) ctx.cur.f ctx.cur.g =
      ⟨true, ⟨0, f0, g0, t, ctx.cur.f, ctx.cur.g, tstar g0 h, true⟩, 0, t, t, stpmax cfg.macheps - stpmin cfg.macheps⟩ := by
    have hnb : ¬ t ≥ 2 * (stpmax cfg.macheps - stpmin cfg.macheps) * (66 / 100) := not_le.mpr hbis
    have hcl : clamp (tstar g0 h) (stpmin cfg.macheps) (stpmax cfg.macheps) = tstar g0 h := clamp_id hlo hhi
    have hfb : ¬ ((tstar g0 h ≤ 0 ∨ tstar g0 h ≥ t) ∨ t ≤ cfg.eps0 * t) := by
      rintro ((h' | h') | h')
      · linarith
      · have : tstar g0 h ≥ t := h'; linarith
      · nlinarith
    have hnle : ¬ ctx.cur.f ≤ f0 := not_le.mpr hf
    simp only [mtNext, morethuenteInit, mtDcstep, hftest, hnle, false_and, and_false, if_false, dcstep, gt_iff_lt, hf, if_true,
      hcub, hquad, lt_irrefl, sub_self, zero_div, add_zero, mtBounds, cmin_eq_min, cmax_eq_max,
      min_eq_left (le_of_lt ht0), max_eq_right (le_of_lt ht0), true_and, absv_eq_abs, sub_zero, abs_of_pos ht0]
    rw [if_neg hnb, hcl, if_neg hfb]
  -- second iteration: the convergence test holds at `t*`
  have hA2 : (quadLine f0 g0 h (tstar g0 h)).f ≤ f0 + tstar g0 h * (cfg.c1 * g0) :=
    (armijo_of_ftest ..).mp ((armijo_at_tstar_iff hg hh).mpr hc1)
  have hg2 : (quadLine f0 g0 h (tstar g0 h)).g = 0 := quadLine_tstar_g hh
  have hx1 : mtConverged cfg ⟨f0, g0, true⟩
      ⟨true, ⟨0, f0, g0, t, ctx.cur.f, ctx.cur.g, tstar g0 h, true⟩, 0, t, t, stpmax cfg.macheps - stpmin cfg.macheps⟩
      (quadLine f0 g0 h (tstar g0 h)).f (quadLine f0 g0 h (tstar g0 h)).g = true := by
    have : absv (0 : α) ≤ cfg.c2 * -g0 := by
      rw [absv_eq_abs, abs_zero]; exact mul_nonneg hc2 (le_of_lt (neg_pos.mpr hg))
    rw [mtConverged_iff, hg2]
    exact ⟨hA2, this⟩
  have hok : (ask (fun _ => quadLine f0 g0 h) ctx (tstar g0 h)).cur.ok = true := by simp [ask, quadLine]
  simp only [morethuente, hx0, hg0', Bool.false_eq_true, if_false, hnext, hok, if_true]
  have hcur : (ask (fun _ => quadLine f0 g0 h) ctx (tstar g0 h)).cur = quadLine f0 g0 h (tstar g0 h) := by simp [ask]
  rw [hcur, hx1]
  simp

end NanoVerif.LSearch
