import NanoVerif.Proofs.LSearchQuad
/-!
  C07 — helper lemmas: runs of the line searches on line functions that are always valid (the preamble of
  `lsearchk_t::get`) and on convex quadratics `φ(t) = f0 + g0 t + h t²/2` (backtracking: termination with an explicit
  iteration count; the other four: the overshooting first trial, after which one interpolation lands on the minimiser).
-/
namespace NanoVerif.LSearch
open NanoVerif.Gen.LsPredicates

set_option linter.unusedSectionVars false
set_option linter.unusedVariables false

variable {α : Type} [Field α] [LinearOrder α] [IsStrictOrderedRing α]

theorem clamp_le (v lo hi : α) : clamp v lo hi ≤ max lo hi := by
  unfold clamp; split
  · exact le_max_left _ _
  · split
    · exact le_max_right _ _
    · exact le_trans (not_lt.mp ‹¬ hi < v›) (le_max_right _ _)

theorem clamp_mem {v lo hi : α} (h : lo ≤ hi) : lo ≤ clamp v lo hi ∧ clamp v lo hi ≤ hi := by
  have h1 := clamp_ge v lo hi
  have h2 := clamp_le v lo hi
  rw [min_eq_left h] at h1
  rw [max_eq_right h] at h2
  exact ⟨h1, h2⟩

theorem clamp_id {v lo hi : α} (h1 : lo ≤ v) (h2 : v ≤ hi) : clamp v lo hi = v := by
  unfold clamp
  rw [if_neg (not_lt.mpr h1), if_neg (not_lt.mpr h2)]

/-! ### the preamble of `get` on an always-valid line function -/

theorem shrink_valid (ψ : α → Eval α) (hok : ∀ t, (ψ t).ok = true) (n : Nat) (t : α) (ctx : Ctx α) :
    shrink (fun _ => ψ) (n + 1) t ctx = (t, ask (fun _ => ψ) ctx t) := by
  simp [shrink, ask, hok]

/-- second loop of `get`: the step is tripled while `|φ(t) - φ(0)| < epsilon1`; it never fails on a valid line function -/
theorem grow_valid (ψ : α → Eval α) (hok : ∀ t, (ψ t).ok = true) (eps1 f0 : α) :
    ∀ (n : Nat) (t : α) (ctx : Ctx α), 0 < t → ctx.cur = ψ t →
      ∃ t' ctx', grow (fun _ => ψ) eps1 f0 n t ctx = .inr (t', ctx') ∧ ctx'.cur = ψ t' ∧ t ≤ t' ∧
        (t' = t ∨ ∃ t'', t ≤ t'' ∧ t' = t'' * 3 ∧ absv ((ψ t'').f - f0) < eps1) := by
  intro n
  induction n with
  | zero => intro t ctx ht hc; exact ⟨t, ctx, rfl, hc, le_refl _, Or.inl rfl⟩
  | succ n ih =>
    intro t ctx ht hc
    by_cases hlt : absv (ctx.cur.f - f0) < eps1
    · have hok' : (ask (fun _ => ψ) ctx (t * 3)).cur.ok = true := by simp [ask, hok]
      obtain ⟨t', ctx', e1, e2, e3, e4⟩ := ih (t * 3) (ask (fun _ => ψ) ctx (t * 3)) (by positivity) (by simp [ask])
      refine ⟨t', ctx', ?_, e2, by nlinarith, Or.inr ?_⟩
      · simp only [grow, hlt, hok', if_true]; exact e1
      · rcases e4 with e4 | ⟨t'', a1, a2, a3⟩
        · exact ⟨t, le_refl _, e4, by rw [← hc]; exact hlt⟩
        · exact ⟨t'', by nlinarith, a2, a3⟩
    · exact ⟨t, ctx, by simp only [grow, hlt, if_false], hc, le_refl _, Or.inl rfl⟩

/-- `get` on an always-valid line function along a descent direction is `do_get` entered at a step `t ≥ initialStep`, which is
    `initialStep` itself unless the second loop tripled it (then `|φ(t/3) - φ(0)| < epsilon1`) -/
theorem get_line_eq_doGet (ψ : α → Eval α) (hok : ∀ t, (ψ t).ok = true) (m : Method) (cfg : Cfg α) (s0 : Eval α) (t0 : α)
    (hg : s0.g < 0) (hM : 0 < cfg.maxIter) (he : 0 < cfg.macheps) :
    ∃ t ctx, get m cfg (fun _ => ψ) s0 t0 = doGet m cfg (fun _ => ψ) s0 t ctx ∧ ctx.cur = ψ t ∧ initialStep cfg t0 ≤ t ∧
      (t = initialStep cfg t0 ∨ ∃ t'', initialStep cfg t0 ≤ t'' ∧ t = t'' * 3 ∧ absv ((ψ t'').f - s0.f) < cfg.eps1) := by
  obtain ⟨n, hn⟩ : ∃ n, cfg.maxIter = n + 1 := ⟨cfg.maxIter - 1, by omega⟩
  have hd : hasDescent s0.g = true := by simp [hasDescent, hg]
  have hp := initialStep_pos cfg t0 he
  obtain ⟨t', ctx', e1, e2, e3, e4⟩ := grow_valid ψ hok cfg.eps1 s0.f cfg.maxIter (initialStep cfg t0)
    (ask (fun _ => ψ) ⟨s0, []⟩ (initialStep cfg t0)) hp (by simp [ask])
  refine ⟨t', ctx', ?_, e2, e3, e4⟩
  simp only [get, hd, if_true]
  rw [hn, shrink_valid ψ hok, ← hn]
  have : (ask (fun _ => ψ) ⟨s0, []⟩ (initialStep cfg t0)).cur.ok = true := by simp [ask, hok]
  simp only [this, if_true, e1]

/-! ### quadratics: how far the second loop of `get` can push the step -/

/-- `|φ(t) - φ(0)| < epsilon1` bounds `t` on a convex quadratic: for any `B ≥ 4 t*` with `epsilon1 ≤ h B²/4` -/
theorem quad_small_change_lt {f0 g0 h eps1 B t : α} (hg : g0 < 0) (hh : 0 < h) (hB : 4 * tstar g0 h ≤ B)
    (hB2 : eps1 ≤ h * B * B / 4) (ht : absv ((quadLine f0 g0 h t).f - f0) < eps1) : t < B := by
  by_contra hc
  have hc := not_lt.mp hc
  have hp := tstar_pos hg hh
  have e := h_tstar (g0 := g0) hh
  rw [absv_eq_abs] at ht
  have h1 : (quadLine f0 g0 h t).f - f0 = h * t * (t - 2 * tstar g0 h) / 2 := by
    simp only [quadLine]
    have : g0 * t = -(h * tstar g0 h * t) := by rw [e]; ring
    linarith [this]
  rw [h1] at ht
  have hB0 : 0 < B := by linarith
  have ht0 : 0 < t := lt_of_lt_of_le hB0 hc
  have h2 : t / 2 ≤ t - 2 * tstar g0 h := by linarith
  have h3 : h * t * (t / 2) / 2 ≤ h * t * (t - 2 * tstar g0 h) / 2 := by
    have := mul_le_mul_of_nonneg_left h2 (le_of_lt (mul_pos hh ht0))
    linarith
  have h4 : h * B * B / 4 ≤ h * t * (t / 2) / 2 := by
    have : B * B ≤ t * t := mul_le_mul hc hc (le_of_lt hB0) (le_of_lt ht0)
    have := mul_le_mul_of_nonneg_left this (le_of_lt hh)
    linarith
  have h5 := le_abs_self (h * t * (t - 2 * tstar g0 h) / 2)
  linarith

/-! ### backtracking on a convex quadratic: success within `k + 1` iterations when `(1 - safeguard)^k · t ≤ 2 (1 - c1) t*` -/

theorem backtrack_quad_run (cfg : Cfg α) (f0 g0 h : α) (hg : g0 < 0) (hh : 0 < h) (hs0 : 0 < cfg.safeguard)
    (hs1 : cfg.safeguard ≤ 1 / 2) :
    ∀ (k n : Nat) (t : α) (ctx : Ctx α), k < n → 0 < t → ctx.cur = quadLine f0 g0 h t →
      (1 - cfg.safeguard) ^ k * t ≤ 2 * (1 - cfg.c1) * tstar g0 h →
      (backtrack cfg (fun _ => quadLine f0 g0 h) ⟨f0, g0, true⟩ n t ctx).ok = true ∧
      0 < (backtrack cfg (fun _ => quadLine f0 g0 h) ⟨f0, g0, true⟩ n t ctx).t ∧
      (backtrack cfg (fun _ => quadLine f0 g0 h) ⟨f0, g0, true⟩ n t ctx).t ≤ t ∧
      (backtrack cfg (fun _ => quadLine f0 g0 h) ⟨f0, g0, true⟩ n t ctx).ctx.cur =
        quadLine f0 g0 h (backtrack cfg (fun _ => quadLine f0 g0 h) ⟨f0, g0, true⟩ n t ctx).t := by
  intro k
  induction k with
  | zero =>
    intro n t ctx hn ht hc hk
    obtain ⟨n', rfl⟩ : ∃ n', n = n' + 1 := ⟨n - 1, by omega⟩
    have hA : hasArmijo f0 g0 ctx.cur.f t cfg.c1 = true := by
      rw [hc, armijo_quad_iff hh ht]; simpa using hk
    have hok : ctx.cur.ok = true := by rw [hc]; rfl
    simp only [backtrack, hok, hA, if_true]
    exact ⟨trivial, ht, le_refl _, hc⟩
  | succ k ih =>
    intro n t ctx hn ht hc hk
    obtain ⟨n', rfl⟩ : ∃ n', n = n' + 1 := ⟨n - 1, by omega⟩
    have hok : ctx.cur.ok = true := by rw [hc]; rfl
    by_cases hA : hasArmijo f0 g0 ctx.cur.f t cfg.c1 = true
    · simp only [backtrack, hok, hA, if_true]
      exact ⟨trivial, ht, le_refl _, hc⟩
    · have hlo : cmin 0 t = 0 := by rw [cmin_eq_min, min_eq_left (le_of_lt ht)]
      have hhi : cmax 0 t = t := by rw [cmax_eq_max, max_eq_right (le_of_lt ht)]
      have hle : 0 + cfg.safeguard * (t - 0) ≤ t - cfg.safeguard * (t - 0) := by nlinarith
      obtain ⟨c1, c2⟩ := clamp_mem (v := cfg.interp ⟨0, f0, g0⟩ (stepOf ctx t)) hle
      have ht' : 0 < clamp (cfg.interp ⟨0, f0, g0⟩ (stepOf ctx t)) (0 + cfg.safeguard * (t - 0)) (t - cfg.safeguard * (t - 0)) :=
        lt_of_lt_of_le (by nlinarith) c1
      have hk' : (1 - cfg.safeguard) ^ k *
          clamp (cfg.interp ⟨0, f0, g0⟩ (stepOf ctx t)) (0 + cfg.safeguard * (t - 0)) (t - cfg.safeguard * (t - 0))
          ≤ 2 * (1 - cfg.c1) * tstar g0 h := by
        have hp : 0 ≤ (1 - cfg.safeguard) ^ k := pow_nonneg (by linarith) k
        have := mul_le_mul_of_nonneg_left c2 hp
        have e : (1 - cfg.safeguard) ^ (k + 1) * t = (1 - cfg.safeguard) ^ k * (t - cfg.safeguard * (t - 0)) := by ring
        linarith
      obtain ⟨r1, r2, r3, r4⟩ := ih n' _ (ask (fun _ => quadLine f0 g0 h) ctx
        (clamp (cfg.interp ⟨0, f0, g0⟩ (stepOf ctx t)) (0 + cfg.safeguard * (t - 0)) (t - cfg.safeguard * (t - 0))))
        (by omega) ht' (by simp [ask]) hk'
      have hok' : (ask (fun _ => quadLine f0 g0 h) ctx
        (clamp (cfg.interp ⟨0, f0, g0⟩ (stepOf ctx t)) (0 + cfg.safeguard * (t - 0)) (t - cfg.safeguard * (t - 0)))).cur.ok = true := by
        simp [ask, quadLine]
      simp only [backtrack, hok, hA, hlo, hhi, hok', if_true]
      refine ⟨r1, r2, le_trans r3 (le_trans c2 (by nlinarith)), r4⟩

end NanoVerif.LSearch
