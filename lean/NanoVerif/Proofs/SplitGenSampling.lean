import NanoVerif.Proofs.SplitSampler
import NanoVerif.Gen.SplitSampling
/-!
  C12 — the hand-written model of the sampling utilities (`sampleWithout`, `sampleWith`, `withoutG`, `withG`, `wwithG` of
  `Model/Split.lean` / `Model/SplitSampler.lean`) IS the text regenerated from `src/core/sampling.cpp`, `src/core/random.cpp`
  and `include/nano/core/random.h` on every run (`tools/props/c12_translate.py` → `Gen/SplitSampling.lean`).
-/
namespace NanoVerif.Split
open NanoVerif
open NanoVerif.Gen.SplitSampling (generate pickAll slice)

theorem gen_generate_eq {G : Type} (draw : G → Nat × G) : ∀ (k : Nat) (g : G), generate draw k g = drawsG draw k g
  | 0, _ => rfl
  | k + 1, g => by simp only [generate, drawsG, gen_generate_eq draw k]

theorem gen_pickAll_eq (samples : List Int) : ∀ (draws : List Nat), pickAll samples draws = pick samples draws
  | [] => rfl
  | d :: ds => by
    simp only [pickAll, pick, gen_pickAll_eq samples ds]
    cases samples[d]? <;> cases pick samples ds <;> rfl

/-- `make_rng(seed)`: the engine is seeded from the argument exactly when the optional holds a value — for EVERY value, 0
    included — and with that value unchanged (`Splitter.split` / `Sampler.make` use `seedRng seed` for every seed) -/
theorem model_make_rng_is_generated :
    (∀ s : Nat, Gen.SplitSampling.makeRngSeeded (some s) = true) ∧ Gen.SplitSampling.makeRngSeeded none = false ∧
    (∀ s : Int, Gen.SplitSampling.makeRngSeedValue s = s) :=
  ⟨fun _ => rfl, rfl, fun _ => rfl⟩

/-- `make_udist(min, max)`: the assert is `min ≤ max`, the range is handed over unchanged; `sample_with_replacement` asks for
    `[0, size - 1]` (the model's `L.uniform g (samples.length - 1)`) -/
theorem model_udist_is_generated (n : Nat) (count lo hi : Int) :
    Gen.SplitSampling.udistGuard lo hi = decide (lo ≤ hi) ∧ Gen.SplitSampling.udistBounds lo hi = (lo, hi) ∧
    Gen.SplitSampling.withDist n count = .uniform 0 ((n : Int) - 1) ∧
    Gen.SplitSampling.weightedDist n count = .discrete ∧
    (Gen.SplitSampling.withGuards n count = [true] ↔ 0 < n) := by
  refine ⟨rfl, rfl, rfl, rfl, ?_⟩
  simp only [Gen.SplitSampling.withGuards, Gen.SplitSampling.udistGuard, List.cons.injEq, and_true, decide_eq_true_eq]
  omega

/-- `sample_without_replacement(samples, count, rng)`: the guard `count ≤ size`, then copy – shuffle – `slice(0, count)` – sort.
    (`hlen`: a shuffle keeps the number of samples — the model tests the guard on the shuffled copy.) -/
theorem model_withoutG_is_generated {G α : Type} (L : StdLib G α) (hlen : ∀ g l, (L.shuffle g l).1.length = l.length)
    (sort : List Int → List Int) (samples : List Int) (count : Nat) (g : G) :
    withoutG L sort samples count g =
      (if (Gen.SplitSampling.withoutGuards samples.length count).all id
        then some (Gen.SplitSampling.withoutBody L.shuffle sort samples count g).1 else none,
       (Gen.SplitSampling.withoutBody L.shuffle sort samples count g).2) := by
  simp only [withoutG, sampleWithout, Gen.SplitSampling.withoutGuards, Gen.SplitSampling.withoutBody, slice, hlen,
    List.all_cons, List.all_nil, Bool.and_true, id, decide_eq_true_eq, Int.toNat_zero, List.drop_zero, Int.sub_zero,
    Int.toNat_natCast, Int.ofNat_le]

/-- the guard as the model states it -/
theorem model_sampleWithout_is_generated (sort : List Int → List Int) (perm : List Int) (count : Nat) :
    sampleWithout sort perm count =
      if (Gen.SplitSampling.withoutGuards perm.length count).all id then some (sort (slice perm 0 count)) else none := by
  simp only [sampleWithout, Gen.SplitSampling.withoutGuards, slice, List.all_cons, List.all_nil, Bool.and_true, id,
    decide_eq_true_eq, Int.toNat_zero, List.drop_zero, Int.sub_zero, Int.toNat_natCast, Int.ofNat_le]

/-- `sample_with_replacement(samples, count, rng)`: `count` draws from `udist(0, size - 1)`, `selection[k] = samples(draw_k)`, sort -/
theorem model_withG_is_generated {G α : Type} (L : StdLib G α) (sort : List Int → List Int) (samples : List Int) (count : Nat) (g : G) :
    withG L sort samples count g =
      Gen.SplitSampling.withBody (fun g => L.uniform g (samples.length - 1)) sort samples count g := by
  simp only [withG, sampleWith, Gen.SplitSampling.withBody, Int.toNat_natCast, gen_generate_eq, gen_pickAll_eq, drawsG_length,
    if_true]

/-- `sample_with_replacement(samples, weights, count, rng)`: the same skeleton with the discrete distribution over `weights` -/
theorem model_wwithG_is_generated {G α : Type} [Add α] [Div α] [LT α] [DecidableLT α] [OfNat α 0] [OfNat α 1]
    (L : StdLib G α) (sort : List Int → List Int) (samples : List Int) (weights : List α) (count : Nat) (g : G) :
    wwithG L sort samples weights count g =
      Gen.SplitSampling.weightedBody (ddDrawG L (ddCp weights).toArray) sort samples count g := by
  simp only [wwithG, sampleWith, Gen.SplitSampling.weightedBody, Int.toNat_natCast, gen_generate_eq, gen_pickAll_eq,
    drawsG_length, if_true]

/-- `hlen` of `model_withoutG_is_generated` is satisfiable -/
example : ∀ (g : Nat) (l : List Int), ((fun (g : Nat) (l : List Int) => (l.reverse, g + 1)) g l).1.length = l.length := by
  intro g l; simp

/-- the three overloads without a generator are wrappers (`make_rng()` = the `std::random_device` branch) -/
theorem gen_unseeded_wrappers :
    Gen.SplitSampling.unseededWrappers =
      [("sample_with_replacement", 2), ("sample_with_replacement", 3), ("sample_without_replacement", 2)] := rfl

end NanoVerif.Split
