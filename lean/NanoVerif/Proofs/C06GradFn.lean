import NanoVerif.Proofs.C06Line
import NanoVerif.Proofs.C06Fn
/-!
  C06 — the gradient of the smooth benchmark functions is the derivative of the value along every line (part 1:
  separable and radial functions): sphere, axis-ellipsoid, schumer-steiglitz, qing, styblinski-tang, chung-reynolds,
  sargan, zakharov, exponential, cauchy.
-/
set_option linter.unusedSectionVars false
set_option linter.unusedVariables false

namespace NanoVerif.C06
open NanoVerif.Loss NanoVerif.Fn

/-- normalise the derivative values produced by `HasDerivAt.mul/add/sub` (applications of pointwise operations) and close
    the goal by `ring` -/
macro "pring" : tactic =>
  `(tactic| (try simp only [Pi.mul_apply, Pi.add_apply, Pi.sub_apply]
             try push_cast
             ring))

/-! ### scalar polynomials -/

theorem sq_mul_deriv (c y : ℝ) : HasDerivAt (fun y : ℝ => y * y * c) (2 * y * c) y := by
  have h := ((hasDerivAt_id' y).mul (hasDerivAt_id' y)).mul_const c
  exact h.congr_deriv (by pring)

theorem quartic_deriv (y : ℝ) : HasDerivAt (fun y : ℝ => y * y * (y * y)) (4 * (y * y * y)) y := by
  have h2 := (hasDerivAt_id' y).mul (hasDerivAt_id' y)
  have h := h2.mul h2
  exact h.congr_deriv (by pring)

theorem qing_k_deriv (c y : ℝ) : HasDerivAt (fun y : ℝ => (y * y - c) * (y * y - c)) (4 * (y * y - c) * y) y := by
  have h2 := ((hasDerivAt_id' y).mul (hasDerivAt_id' y)).sub_const c
  have h := h2.mul h2
  exact h.congr_deriv (by pring)

theorem styblinski_k_deriv (p q y : ℝ) :
    HasDerivAt (fun y : ℝ => y * y * (y * y) - p * (y * y) + q * y) (4 * (y * y * y) - 2 * p * y + q) y := by
  have h2 := (hasDerivAt_id' y).mul (hasDerivAt_id' y)
  have h := ((quartic_deriv y).sub (h2.const_mul p)).add ((hasDerivAt_id' y).const_mul q)
  exact h.congr_deriv (by pring)

/-! ### separable functions -/

theorem sphere_grad (x d : List ℝ) (hd : d.length = x.length) :
    HasDerivAt (fun t : ℝ => sphereF (line x d t)) (dot (sphereG x) d) 0 := by
  unfold sphereF sphereG
  rw [dot_smul_left]
  exact dot_self_line_deriv x d hd

theorem axis_grad (x d : List ℝ) (hd : d.length = x.length) :
    HasDerivAt (fun t : ℝ => axisF (line x d t)) (dot (axisG x) d) 0 := by
  unfold axisF axisG
  exact sumIdx_line_deriv _ _ (fun i y => sq_mul_deriv _ y) 0 x d hd

theorem schumer_grad (x d : List ℝ) (hd : d.length = x.length) :
    HasDerivAt (fun t : ℝ => schumerF (line x d t)) (dot (schumerG x) d) 0 := by
  unfold schumerF schumerG
  exact sumIdx_line_deriv _ _ (fun _ y => quartic_deriv y) 0 x d hd

theorem qing_grad (x d : List ℝ) (hd : d.length = x.length) :
    HasDerivAt (fun t : ℝ => qingF (line x d t)) (dot (qingG x) d) 0 := by
  unfold qingF qingG
  exact sumIdx_line_deriv _ _ (fun i y => qing_k_deriv _ y) 0 x d hd

theorem styblinski_grad (x d : List ℝ) (hd : d.length = x.length) :
    HasDerivAt (fun t : ℝ => styblinskiF (line x d t)) (dot (styblinskiG x) d) 0 := by
  unfold styblinskiF styblinskiG
  refine sumIdx_line_deriv _ _ (fun _ y => ?_) 0 x d hd
  have h := styblinski_k_deriv ((16 : Nat) : ℝ) ((5 : Nat) : ℝ) y
  refine h.congr_deriv ?_
  push_cast; ring

/-! ### radial functions: a scalar function of `u = x·x` (and `v = x·bias`) -/

theorem chung_grad (x d : List ℝ) (hd : d.length = x.length) :
    HasDerivAt (fun t : ℝ => chungF (line x d t)) (dot (chungG x) d) 0 := by
  unfold chungF chungG
  rw [dot_smul_left]
  have hu := dot_self_line_deriv x d hd
  have h := hu.mul hu
  refine h.congr_deriv ?_
  simp only [line_zero x d hd]; ring

theorem sargan_grad (x d : List ℝ) (hd : d.length = x.length) :
    HasDerivAt (fun t : ℝ => sarganF (line x d t)) (dot (sarganG x) d) 0 := by
  unfold sarganF sarganG
  rw [dot_smul_left]
  have hu := dot_self_line_deriv x d hd
  have h := (hu.const_mul (((6 : Nat) : ℝ) / ((10 : Nat) : ℝ))).add ((hu.mul hu).const_mul (4 / ((10 : Nat) : ℝ)))
  refine h.congr_deriv ?_
  simp only [line_zero x d hd]; push_cast; ring

theorem zakharov_grad (x d : List ℝ) (hd : d.length = x.length) :
    HasDerivAt (fun t : ℝ => zakharovF (line x d t)) (dot (zakharovG x) d) 0 := by
  unfold zakharovF zakharovG
  simp only [line_length x d _ hd]
  rw [dot_vadd_left _ _ _ (by rw [smul_length, smul_length, zakBias_length]), dot_smul_left, dot_smul_left]
  have hu := dot_self_line_deriv x d hd
  have hv := dot_const_line_deriv x d (zakBias x.length) hd
  have h := (hu.add (hv.mul hv)).add ((hv.mul hv).mul (hv.mul hv))
  refine h.congr_deriv ?_
  simp only [line_zero x d hd, Pi.mul_apply]; ring

theorem expfn_grad (x d : List ℝ) (hd : d.length = x.length) :
    HasDerivAt (fun t : ℝ => expfnF (line x d t)) (dot (expfnG x) d) 0 := by
  unfold expfnG
  rw [dot_smul_left]
  unfold expfnF
  simp only [texp_eq, line_length x d _ hd]
  have hu := dot_self_line_deriv x d hd
  have h1 := (hu.mul_const (1 / (x.length : ℝ))).const_add 1
  have h := h1.exp
  refine h.congr_deriv ?_
  simp only [line_zero x d hd]; ring

theorem cauchyfn_grad (x d : List ℝ) (hd : d.length = x.length) :
    HasDerivAt (fun t : ℝ => Fn.cauchyF (line x d t)) (dot (Fn.cauchyG x) d) 0 := by
  have hg : dot (Fn.cauchyG x) d = 2 * dot x d / (1 + dot x x) := by
    unfold Fn.cauchyG
    generalize 1 + dot x x = s
    clear hd
    induction x generalizing d with
    | nil => simp [dot_nil_left]
    | cons a x ih =>
      cases d with
      | nil => simp [dot]
      | cons b d => simp only [List.map, dot]; rw [ih d]; ring
  rw [hg]
  unfold Fn.cauchyF
  simp only [tlog1p_eq]
  have hu := dot_self_line_deriv x d hd
  have hpos : (1 + dot (line x d 0) (line x d 0)) ≠ 0 := by
    have := dot_self_nonneg (line x d 0); linarith
  have h := (hu.const_add 1).log hpos
  refine h.congr_deriv ?_
  simp only [line_zero x d hd]

end NanoVerif.C06
