import NanoVerif.Proofs.Wire
/-!
  C15 — what the content hash of a tensor stream detects (core Lean only).
  `hashCombine` is the definition generated from `include/nano/core/hash.h` (`Gen/CodecConsts.lean`).
-/
namespace NanoVerif.Codec
open NanoVerif.Gen.CodecConsts

theorem xor_cancel_left (s a b : UInt64) (h : s ^^^ a = s ^^^ b) : a = b := by
  have h' := congrArg (fun x => s ^^^ x) h
  simpa [← UInt64.xor_assoc] using h'

/-- for a fixed running hash, `hash_combine` is injective in the element -/
theorem hashCombine_inj_right (s h1 h2 : UInt64) (h : hashCombine s h1 = hashCombine s h2) : h1 = h2 := by
  unfold hashCombine at h
  have h' := xor_cancel_left _ _ _ h
  exact (UInt64.add_left_inj _).mp ((UInt64.add_left_inj _).mp ((UInt64.add_left_inj _).mp h'))

theorem hashList_last (pre : List UInt64) (a b : UInt64) (hab : a ≠ b) :
    hashList (pre ++ [a]) ≠ hashList (pre ++ [b]) := by
  unfold hashList
  simp only [List.foldl_append, List.foldl_cons, List.foldl_nil]
  intro h
  exact hab (hashCombine_inj_right _ a b h)

/-! ### elements: distinct bytes give distinct 64-bit values -/

theorem leNat_inj (c1 c2 : Bytes) (hl : c1.length = c2.length) (h : leNat c1 = leNat c2) : c1 = c2 := by
  rw [← leBytes_leNat c1, ← leBytes_leNat c2, hl, h]

theorem ext_inj (M : Nat) (hM : M ≤ 2 ^ 64) (sg : Bool) (u1 u2 : Nat) (h1 : u1 < M) (h2 : u2 < M)
    (h : (if sg && decide (M / 2 ≤ u1) then UInt64.ofNat (u1 + (2 ^ 64 - M)) else UInt64.ofNat u1) =
         (if sg && decide (M / 2 ≤ u2) then UInt64.ofNat (u2 + (2 ^ 64 - M)) else UInt64.ofNat u2)) : u1 = u2 := by
  have h' := congrArg UInt64.toNat h
  have e : (2 : Nat) ^ 64 = 18446744073709551616 := by decide
  rw [e] at hM
  by_cases c1 : (sg && decide (M / 2 ≤ u1)) = true <;> by_cases c2 : (sg && decide (M / 2 ≤ u2)) = true
  · rw [if_pos c1, if_pos c2] at h'
    simp only [UInt64.toNat_ofNat', e] at h'
    rw [Nat.mod_eq_of_lt (by omega), Nat.mod_eq_of_lt (by omega)] at h'
    omega
  · rw [if_pos c1, if_neg c2] at h'
    simp only [UInt64.toNat_ofNat', e] at h'
    rw [Nat.mod_eq_of_lt (by omega), Nat.mod_eq_of_lt (by omega)] at h'
    simp only [Bool.and_eq_true, decide_eq_true_eq, not_and, Nat.not_le] at c1 c2
    have := c2 c1.1
    omega
  · rw [if_neg c1, if_pos c2] at h'
    simp only [UInt64.toNat_ofNat', e] at h'
    rw [Nat.mod_eq_of_lt (by omega), Nat.mod_eq_of_lt (by omega)] at h'
    simp only [Bool.and_eq_true, decide_eq_true_eq, not_and, Nat.not_le] at c1 c2
    have := c1 c2.1
    omega
  · rw [if_neg c1, if_neg c2] at h'
    simp only [UInt64.toNat_ofNat', e] at h'
    rw [Nat.mod_eq_of_lt (by omega), Nat.mod_eq_of_lt (by omega)] at h'
    exact h'

theorem scalar_pow_le (k : Scalar) : 256 ^ k.size ≤ 2 ^ 64 := by cases k <;> decide

/-- two different elements (same scalar type) never hash to the same 64-bit value -/
theorem elemHash_inj (k : Scalar) (c1 c2 : Bytes) (h1 : c1.length = k.size) (h2 : c2.length = k.size)
    (h : elemHash k c1 = elemHash k c2) : c1 = c2 := by
  apply leNat_inj c1 c2 (h1.trans h2.symm)
  have l1 := leNat_lt c1
  have l2 := leNat_lt c2
  rw [h1] at l1; rw [h2] at l2
  exact ext_inj (256 ^ k.size) (scalar_pow_le k) k.signed _ _ l1 l2 h

/-! ### chunking -/

theorem chunkN_append_last (sz : Nat) : ∀ (n : Nat) (pre a : Bytes), pre.length = n * sz → a.length = sz →
    chunkN sz (n + 1) (pre ++ a) = chunkN sz n pre ++ [a]
  | 0, pre, a, hp, ha => by
    have : pre = [] := List.length_eq_zero_iff.mp (by simpa using hp)
    subst this
    simp [chunkN, ← ha]
  | n + 1, pre, a, hp, ha => by
    have hle : sz ≤ pre.length := by rw [hp, Nat.succ_mul]; omega
    have hd : (pre.drop sz).length = n * sz := by rw [List.length_drop, hp, Nat.succ_mul]; omega
    have ih := chunkN_append_last sz n (pre.drop sz) a hd ha
    rw [chunkN, List.take_append_of_le_length hle, List.drop_append_of_le_length hle, ih]
    simp [chunkN]

/-! ### the tensor reader on a stream whose payload was replaced -/

/-- the stream `nano::write` produces for dimensions `ds` and payload `pl`, with the payload bytes replaced by `pl'`
    (header and stored hash untouched) -/
def tensorStreamWith (k : Scalar) (rank : Nat) (ds : List Int) (pl pl' : Bytes) : Bytes :=
  (tensorHeader k rank).enc ds ++ (u64.enc (hashPayload k (dimsSize ds).toNat pl).toNat ++ pl')

theorem tensor_enc_eq (k : Scalar) (rank : Nat) (ds : List Int) (pl : Bytes) (h0 : 0 ≤ dimsSize ds) :
    (tensor k rank).enc ⟨ds, pl⟩ = tensorStreamWith k rank ds pl pl := by
  have h : ¬ dimsSize ds < 0 := by omega
  simp [tensor, pmap, dseq, seq, tensorBody, raw, tensorStreamWith, h]

theorem tensor_dec_with (k : Scalar) (rank : Nat) (hr : rank < 4294967296) (ds : List Int) (pl pl' rest : Bytes)
    (hl : ds.length = rank) (hd : ∀ d ∈ ds, I32 d) (h0 : 0 ≤ dimsSize ds)
    (hp : pl'.length = (dimsSize ds).toNat * k.size) :
    (tensor k rank).dec (tensorStreamWith k rank ds pl pl' ++ rest) =
      if hashPayload k (dimsSize ds).toNat pl = hashPayload k (dimsSize ds).toNat pl' then some (⟨ds, pl'⟩, rest)
      else none := by
  have hneg : ¬ dimsSize ds < 0 := by omega
  have hH := (tensorHeader_good k rank hr).rt ds
    (u64.enc (hashPayload k (dimsSize ds).toNat pl).toNat ++ pl' ++ rest) ⟨hl, hd⟩
  have hB := (seq_good u64_good (raw_good ((dimsSize ds).toNat * k.size))).rt
    ((hashPayload k (dimsSize ds).toNat pl).toNat, pl') rest ⟨UInt64.toNat_lt _, hp⟩
  have hB' : (seq u64 (raw ((dimsSize ds).toNat * k.size))).dec
      (u64.enc (hashPayload k (dimsSize ds).toNat pl).toNat ++ pl' ++ rest) =
      some (((hashPayload k (dimsSize ds).toNat pl).toNat, pl'), rest) := hB
  unfold tensor tensorStreamWith
  simp only [pmap, dseq]
  rw [List.append_assoc, hH]
  simp only [hneg, if_false, tensorBody, pmap]
  rw [hB']
  simp only [UInt64.toNat_inj]
  by_cases he : hashPayload k (dimsSize ds).toNat pl = hashPayload k (dimsSize ds).toNat pl'
  · simp only [he, if_true]
  · simp only [he, if_false]

/-! ### header fields -/

theorem const_dec {α : Type} [DecidableEq α] {c : Codec α} {w : α → Prop} (h : Good c w) (v x : α) (hx : w x)
    (rest : Bytes) : (const c v).dec (c.enc x ++ rest) = if x = v then some ((), rest) else none := by
  simp only [const, pmap]
  rw [h.rt x rest hx]
  by_cases e : x = v <;> simp [e]

/-- a stream whose version, rank or sizeof(scalar) field differs from what the reader's tensor type expects is refused,
    whatever follows -/
theorem tensor_header_mismatch (k : Scalar) (rank : Nat) (v r s : Nat) (ds : List Int) (tail : Bytes)
    (hv : U32 v) (hr : U32 r) (hs : U32 s) (hl : ds.length = rank) (hd : ∀ d ∈ ds, I32 d)
    (hne : v ≠ hashVersion ∨ r ≠ rank ∨ s ≠ k.size) :
    (tensor k rank).dec (u32.enc v ++ (u32.enc r ++ ((rep i32 rank).enc ds ++ (u32.enc s ++ tail)))) = none := by
  simp only [tensor, pmap, dseq, tensorHeader, seq]
  rw [const_dec u32_good hashVersion v hv]
  by_cases e1 : v = hashVersion
  · simp only [e1, if_true]
    rw [const_dec u32_good rank r hr]
    by_cases e2 : r = rank
    · simp only [e2, if_true]
      rw [(rep_good i32_good rank).rt ds _ ⟨hl, hd⟩]
      simp only []
      rw [const_dec u32_good k.size s hs]
      have e3 : s ≠ k.size := by
        rcases hne with h | h | h
        · exact absurd e1 h
        · exact absurd e2 h
        · exact h
      simp only [e3, if_false]
    · simp only [e2, if_false]
  · simp only [e1, if_false]

end NanoVerif.Codec
