import NanoVerif.Proofs.WLearnerStump
/-!
  C10 — the affine learner: the closed form solves the normal equations (regular branch of `cache_t::constant()`), the
  constant fit is optimal on a feature that is constant over the fitted samples, the reported RSS is the RSS of the
  stored coefficients' predictions (both branches).
-/
set_option linter.unusedSectionVars false
set_option linter.unusedVariables false

namespace NanoVerif.WLearner
variable {α : Type} [Field α] [LinearOrder α] [IsStrictOrderedRing α]

/-! ### the full accumulator (`update(value, vgrad)`) as sums -/

theorem foldl_upd_x0 (items : List (Item α)) (m : Mom α) :
    (items.foldl Item.upd m).x0 = m.x0 + countOf items := by
  induction items generalizing m with
  | nil => simp [countOf_nil]
  | cons it items ih => simp only [List.foldl_cons]; rw [ih, countOf_cons]; simp only [Item.upd, Mom.upd]; ring

theorem foldl_upd_n (items : List (Item α)) (m : Mom α) :
    (items.foldl Item.upd m).n = m.n + items.length := by
  induction items generalizing m with
  | nil => simp
  | cons it items ih => simp only [List.foldl_cons]; rw [ih]; simp only [Item.upd, Mom.upd, List.length_cons]; omega

theorem foldl_upd_x1 (items : List (Item α)) (m : Mom α) :
    (items.foldl Item.upd m).x1 = m.x1 + lsum (items.map fun it => it.v) := by
  induction items generalizing m with
  | nil => simp
  | cons it items ih =>
    simp only [List.foldl_cons]; rw [ih]; simp only [Item.upd, Mom.upd, List.map_cons, lsum_cons]; ring

theorem foldl_upd_x2 (items : List (Item α)) (m : Mom α) :
    (items.foldl Item.upd m).x2 = m.x2 + lsum (items.map fun it => it.v * it.v) := by
  induction items generalizing m with
  | nil => simp
  | cons it items ih =>
    simp only [List.foldl_cons]; rw [ih]; simp only [Item.upd, Mom.upd, List.map_cons, lsum_cons]; ring

theorem foldl_upd_r1 (items : List (Item α)) (m : Mom α) (o : Nat) :
    (items.foldl Item.upd m).r1 o = m.r1 o + lsum (items.map fun it => it.r o) := by
  induction items generalizing m with
  | nil => simp
  | cons it items ih =>
    simp only [List.foldl_cons]; rw [ih]; simp only [Item.upd, Mom.upd, List.map_cons, lsum_cons]; ring

theorem foldl_upd_rx (items : List (Item α)) (m : Mom α) (o : Nat) :
    (items.foldl Item.upd m).rx o = m.rx o + lsum (items.map fun it => it.r o * it.v) := by
  induction items generalizing m with
  | nil => simp
  | cons it items ih =>
    simp only [List.foldl_cons]; rw [ih]; simp only [Item.upd, Mom.upd, List.map_cons, lsum_cons]; ring

theorem foldl_upd_r2 (items : List (Item α)) (m : Mom α) (o : Nat) :
    (items.foldl Item.upd m).r2 o = m.r2 o + lsum (items.map fun it => it.r o * it.r o) := by
  induction items generalizing m with
  | nil => simp
  | cons it items ih =>
    simp only [List.foldl_cons]; rw [ih]; simp only [Item.upd, Mom.upd, List.map_cons, lsum_cons]; ring

/-- the accumulator of a list of present values -/
def fullMom (items : List (Item α)) : Mom α := items.foldl Item.upd Mom.zero

theorem fullMom_x0 (items : List (Item α)) : (fullMom items).x0 = countOf items := by
  unfold fullMom; rw [foldl_upd_x0]; simp [Mom.zero]
theorem fullMom_n (items : List (Item α)) : (fullMom items).n = items.length := by
  unfold fullMom; rw [foldl_upd_n]; simp [Mom.zero]
theorem fullMom_x1 (items : List (Item α)) : (fullMom items).x1 = lsum (items.map fun it => it.v) := by
  unfold fullMom; rw [foldl_upd_x1]; simp [Mom.zero]
theorem fullMom_x2 (items : List (Item α)) : (fullMom items).x2 = lsum (items.map fun it => it.v * it.v) := by
  unfold fullMom; rw [foldl_upd_x2]; simp [Mom.zero]
theorem fullMom_r1 (items : List (Item α)) (o : Nat) : (fullMom items).r1 o = lsum (items.map fun it => it.r o) := by
  unfold fullMom; rw [foldl_upd_r1]; simp [Mom.zero, zeroV]
theorem fullMom_rx (items : List (Item α)) (o : Nat) :
    (fullMom items).rx o = lsum (items.map fun it => it.r o * it.v) := by
  unfold fullMom; rw [foldl_upd_rx]; simp [Mom.zero, zeroV]
theorem fullMom_r2 (items : List (Item α)) (o : Nat) :
    (fullMom items).r2 o = lsum (items.map fun it => it.r o * it.r o) := by
  unfold fullMom; rw [foldl_upd_r2]; simp [Mom.zero, zeroV]

theorem fullMom_x0_nonneg (items : List (Item α)) : 0 ≤ (fullMom items).x0 := by
  rw [fullMom_x0]; exact countOf_nonneg items

theorem fullMom_x2_nonneg (items : List (Item α)) : 0 ≤ (fullMom items).x2 := by
  rw [fullMom_x2]; exact lsum_map_nonneg _ _ (fun it _ => mul_self_nonneg _)

/-- `Σ (r − w x − b)²` expanded in the moments (the expression of `rss_affine()`), for any coefficients -/
theorem lsum_affine_expand (items : List (Item α)) (o : Nat) (w b : α) :
    lsum (items.map fun it => (it.r o - (w * it.v + b)) * (it.r o - (w * it.v + b))) =
      (fullMom items).r2 o + w * w * (fullMom items).x2 + b * b * (fullMom items).x0 - 2 * w * (fullMom items).rx o
        - 2 * b * (fullMom items).r1 o + 2 * w * b * (fullMom items).x1 := by
  rw [fullMom_r2, fullMom_x2, fullMom_x0, fullMom_rx, fullMom_r1, fullMom_x1]
  induction items with
  | nil => simp [countOf_nil]
  | cons it items ih => simp only [List.map_cons, lsum_cons, countOf_cons, ih]; ring

/-- `rss_affine()` is the squared error of `w·x + b` over the present values, for any coefficients -/
theorem affineRss_eq (T : Nat) (items : List (Item α)) (w b : Vec α) :
    affineRss T (fullMom items) w b = lsum (items.map fun it => sqErr T it.r (fun o => w o * it.v + b o)) := by
  unfold affineRss sqErr
  rw [← vsum_lsum (fun it o => (it.r o - (w o * it.v + b o)) * (it.r o - (w o * it.v + b o))) items T]
  apply vsum_congr; intro o _
  rw [lsum_affine_expand]; unfold two; ring

/-- `rss_zero(bin_missed)` -/
theorem missedMom_r2 (T : Nat) (rows : List (Row α)) : vsum (missedMom rows).r2 T = missSum T rows := by
  unfold missedMom missSum
  suffices h : ∀ m : Mom α, vsum (rows.foldl (fun m row => match row.x with
      | none => m.upd0 row.r
      | some _ => m) m).r2 T = vsum m.r2 T + lsum (rows.map fun row => match row.x with
      | none => sqErr T row.r zeroV
      | some _ => 0) by
    refine (h Mom.zero).trans ?_
    have z : vsum (Mom.zero : Mom α).r2 T = 0 := vsum_const_zero T
    rw [z, zero_add]
    rfl
  induction rows with
  | nil => intro m; simp
  | cons row rows ih =>
    intro m
    simp only [List.foldl_cons, List.map_cons, lsum_cons]
    rw [ih]
    cases hx : row.x with
    | none =>
      simp only [Mom.upd0, sqErr_zero]
      rw [vsum_add]; ring
    | some v => simp only; ring

theorem missedMom_n (rows : List (Row α)) : (missedMom rows).n + (present rows).length = rows.length := by
  unfold missedMom
  suffices h : ∀ m : Mom α, (rows.foldl (fun m row => match row.x with
      | none => m.upd0 row.r
      | some _ => m) m).n + (present rows).length = m.n + rows.length by
    refine (h Mom.zero).trans ?_
    simp [Mom.zero]
  induction rows with
  | nil => intro m; simp [present]
  | cons row rows ih =>
    intro m
    simp only [List.foldl_cons, List.length_cons]
    cases hx : row.x with
    | none => rw [present_cons_none row rows hx]; simp only; rw [ih]; simp only [Mom.upd0]; omega
    | some v => rw [present_cons_some row rows v hx]; simp only [List.length_cons]; have := ih m; omega

/-- the RSS of an affine predictor over the rows of one feature: for ANY coefficients it is the `rss_affine()` expression
    in the accumulated moments plus the squared residuals of the samples whose value is missing -/
theorem rssOf_affine (T : Nat) (rows : List (Row α)) (w b : Vec α) :
    rssOf T rows (affinePred w b) = affineRss T (fullMom (present rows)) w b + missSum T rows := by
  rw [rssOf_split T rows (affinePred w b) (fun x => fun o => w o * x + b o) rfl (fun x => rfl), affineRss_eq]
  ring

/-! ### the regular branch: the normal equations -/

theorem affineConst_false {eps1 : α} (heps : 0 ≤ eps1) (items : List (Item α))
    (h : affineConst eps1 (fullMom items) = false) :
    0 < affineDen (fullMom items) ∧ 0 < (fullMom items).x0 := by
  unfold affineConst at h
  simp only [Bool.not_eq_false', decide_eq_true_eq] at h
  have h0 := fullMom_x0_nonneg items
  have h2 := fullMom_x2_nonneg items
  have hD : 0 < affineDen (fullMom items) := by
    unfold affineDen
    have : 0 ≤ eps1 * ((fullMom items).x2 * (fullMom items).x0) := mul_nonneg heps (mul_nonneg h2 h0)
    linarith
  refine ⟨hD, ?_⟩
  rcases lt_or_eq_of_le h0 with hpos | hz
  · exact hpos
  · unfold affineDen at hD
    rw [← hz] at hD
    have : 0 ≤ (fullMom items).x1 * (fullMom items).x1 := mul_self_nonneg _
    linarith

/-- one output: the closed form minimises the quadratic `Q(w,b) = r2 + w²x2 + b²x0 − 2w·rx − 2b·r1 + 2wb·x1` when
    `x2·x0 − x1² > 0` -/
theorem affine_scalar_optimal (x0 x1 x2 r1 rx r2 w' b' : α) (hD : 0 < x2 * x0 - x1 * x1) (hx0 : 0 < x0) :
    let w := (rx * x0 - r1 * x1) / (x2 * x0 - x1 * x1)
    let b := (r1 * x2 - rx * x1) / (x2 * x0 - x1 * x1)
    r2 + w * w * x2 + b * b * x0 - 2 * w * rx - 2 * b * r1 + 2 * w * b * x1
      ≤ r2 + w' * w' * x2 + b' * b' * x0 - 2 * w' * rx - 2 * b' * r1 + 2 * w' * b' * x1 := by
  intro w b
  have hDne : x2 * x0 - x1 * x1 ≠ 0 := ne_of_gt hD
  have hx0ne : x0 ≠ 0 := ne_of_gt hx0
  -- the normal equations
  have n1 : x2 * w + x1 * b = rx := by
    have e : x2 * w + x1 * b = rx * (x2 * x0 - x1 * x1) / (x2 * x0 - x1 * x1) := by
      simp only [w, b]; ring
    rw [e, mul_div_assoc, div_self hDne, mul_one]
  have n2 : x1 * w + x0 * b = r1 := by
    have e : x1 * w + x0 * b = r1 * (x2 * x0 - x1 * x1) / (x2 * x0 - x1 * x1) := by
      simp only [w, b]; ring
    rw [e, mul_div_assoc, div_self hDne, mul_one]
  have key : (r2 + w' * w' * x2 + b' * b' * x0 - 2 * w' * rx - 2 * b' * r1 + 2 * w' * b' * x1)
      - (r2 + w * w * x2 + b * b * x0 - 2 * w * rx - 2 * b * r1 + 2 * w * b * x1)
      = x2 * (w' - w) * (w' - w) + 2 * x1 * (w' - w) * (b' - b) + x0 * (b' - b) * (b' - b) := by
    rw [← n1, ← n2]; ring
  have pos : 0 ≤ x2 * (w' - w) * (w' - w) + 2 * x1 * (w' - w) * (b' - b) + x0 * (b' - b) * (b' - b) := by
    have e : x0 * (x2 * (w' - w) * (w' - w) + 2 * x1 * (w' - w) * (b' - b) + x0 * (b' - b) * (b' - b))
        = (x0 * (b' - b) + x1 * (w' - w)) * (x0 * (b' - b) + x1 * (w' - w))
          + (x2 * x0 - x1 * x1) * ((w' - w) * (w' - w)) := by ring
    have hr : 0 ≤ (x0 * (b' - b) + x1 * (w' - w)) * (x0 * (b' - b) + x1 * (w' - w))
          + (x2 * x0 - x1 * x1) * ((w' - w) * (w' - w)) :=
      add_nonneg (mul_self_nonneg _) (mul_nonneg (le_of_lt hD) (mul_self_nonneg _))
    rw [← e] at hr
    exact nonneg_of_mul_nonneg_right hr hx0
  linarith

end NanoVerif.WLearner

namespace NanoVerif.WLearner
variable {α : Type} [Field α] [LinearOrder α] [IsStrictOrderedRing α]

theorem affineCand_rss [Log α] (eps1 : α) (T : Nat) (K : α) (crit : Crit) (f : Nat) (rows : List (Row α)) :
    (affineCand eps1 T K crit f rows).rss =
      affineRss T (fullMom (present rows)) (affineW eps1 (fullMom (present rows))) (affineB eps1 (fullMom (present rows)))
        + missSum T rows := by
  simp only [affineCand]
  rw [missedMom_r2]; rfl

/-- `fit_predict_reproduces_rss` for the affine learner (both branches of `constant()`): the value handed to `make_score`
    is the RSS of the stored coefficients' predictions -/
theorem affineCand_rss_eq [Log α] (eps1 : α) (T : Nat) (K : α) (crit : Crit) (f : Nat) (rows : List (Row α)) :
    (affineCand eps1 T K crit f rows).rss =
      rssOf T rows (affinePred (tab (affineCand eps1 T K crit f rows).tables 0)
                               (tab (affineCand eps1 T K crit f rows).tables 1)) := by
  rw [affineCand_rss, rssOf_affine]
  rfl

/-- regular branch: no affine map of the feature has a smaller RSS -/
theorem affineCand_optimal_regular [Log α] {eps1 : α} (heps : 0 ≤ eps1) (T : Nat) (K : α) (crit : Crit) (f : Nat)
    (rows : List (Row α)) (hreg : affineConst eps1 (fullMom (present rows)) = false) (w' b' : Vec α) :
    (affineCand eps1 T K crit f rows).rss ≤ rssOf T rows (affinePred w' b') := by
  obtain ⟨hD, hx0⟩ := affineConst_false heps (present rows) hreg
  rw [affineCand_rss, rssOf_affine]
  have : affineRss T (fullMom (present rows)) (affineW eps1 (fullMom (present rows)))
      (affineB eps1 (fullMom (present rows))) ≤ affineRss T (fullMom (present rows)) w' b' := by
    unfold affineRss
    apply vsum_le; intro o _
    simp only [affineW, affineB, hreg, Bool.false_eq_true, if_false]
    have := affine_scalar_optimal (fullMom (present rows)).x0 (fullMom (present rows)).x1 (fullMom (present rows)).x2
      ((fullMom (present rows)).r1 o) ((fullMom (present rows)).rx o) ((fullMom (present rows)).r2 o) (w' o) (b' o) hD hx0
    simp only [two, one_add_one_eq_two, affineDen]
    exact this
  linarith

theorem fullMom_const (items : List (Item α)) (c : α) (h : ∀ it ∈ items, it.v = c) :
    (fullMom items).x1 = c * countOf items ∧ (fullMom items).x2 = c * c * countOf items := by
  rw [fullMom_x1, fullMom_x2]
  induction items with
  | nil => simp [countOf_nil]
  | cons it items ih =>
    obtain ⟨h1, h2⟩ := ih (fun x hx => h x (by simp [hx]))
    have hv := h it (by simp)
    simp only [List.map_cons, lsum_cons, countOf_cons, h1, h2, hv]
    constructor <;> ring

theorem cmax_one_count {β : Type} (l : List β) (h : l ≠ []) : cmax (1 : α) (countOf l) = countOf l := by
  rw [cmax_eq_max]
  apply max_eq_right
  cases l with
  | nil => exact absurd rfl h
  | cons x xs => rw [countOf_cons]; have := countOf_nonneg (α := α) xs; linarith

/-- degenerate branch: on a feature that is constant over the fitted samples `constant()` holds, the constant fit is
    returned, and it is optimal in the affine class (every affine map of a constant feature is a constant) -/
theorem affineCand_optimal_constant [Log α] {eps1 : α} (heps : 0 ≤ eps1) (T : Nat) (K : α) (crit : Crit) (f : Nat)
    (rows : List (Row α)) (c : α) (hconst : ∀ it ∈ present rows, it.v = c) (w' b' : Vec α) :
    affineConst eps1 (fullMom (present rows)) = true ∧
    (affineCand eps1 T K crit f rows).rss ≤ rssOf T rows (affinePred w' b') := by
  obtain ⟨h1, h2⟩ := fullMom_const (present rows) c hconst
  have hc : affineConst eps1 (fullMom (present rows)) = true := by
    unfold affineConst
    simp only [Bool.not_eq_true', decide_eq_false_iff_not, not_lt]
    rw [h1, h2, fullMom_x0]
    have : 0 ≤ eps1 * (c * c * countOf (present rows) * countOf (present rows)) :=
      mul_nonneg heps (mul_nonneg (mul_nonneg (mul_self_nonneg c) (countOf_nonneg _)) (countOf_nonneg _))
    have e : c * c * countOf (present rows) * countOf (present rows)
        - c * countOf (present rows) * (c * countOf (present rows)) = (0 : α) := by ring
    rw [e]; exact this
  refine ⟨hc, ?_⟩
  rw [affineCand_rss_eq]
  rw [rssOf_split T rows (affinePred w' b') (fun x => fun o => w' o * x + b' o) rfl (fun x => rfl)]
  rw [rssOf_split T rows (affinePred _ _) (fun x => fun o => tab (affineCand eps1 T K crit f rows).tables 0 o * x
      + tab (affineCand eps1 T K crit f rows).tables 1 o) rfl (fun x => rfl)]
  -- both predictors are constant on the present values
  have e1 : (present rows).map (fun it => sqErr T it.r (fun o => w' o * it.v + b' o))
      = ((present rows).map (·.r)).map (fun r => sqErr T r (fun o => w' o * c + b' o)) := by
    rw [List.map_map]; apply List.map_congr_left; intro it hit
    simp only [Function.comp]; rw [hconst it hit]
  have htab0 : ∀ o, tab (affineCand eps1 T K crit f rows).tables 0 o = 0 := by
    intro o
    simp only [affineCand, tab, List.getD_cons_zero, affineW]
    have : affineConst eps1 (List.foldl Item.upd Mom.zero (present rows)) = true := hc
    rw [this]; rfl
  have htab1 : ∀ o, tab (affineCand eps1 T K crit f rows).tables 1 o = fitConstant (fullMom (present rows)) o := by
    intro o
    simp only [affineCand, tab, affineB]
    have : affineConst eps1 (List.foldl Item.upd Mom.zero (present rows)) = true := hc
    simp only [List.getD_cons_succ, List.getD_cons_zero, this, if_true]
    rfl
  by_cases hne : present rows = []
  · rw [hne]; simp
  · have hrs : (present rows).map (·.r) ≠ [] := by simpa using hne
    have hmean : ∀ o, fitConstant (fullMom (present rows)) o = binMean (momOf ((present rows).map (·.r))) o := by
      intro o
      simp only [fitConstant, binMean]
      rw [fullMom_x0, cmax_one_count _ hne, fullMom_r1, momOf_r1, momOf_x0, countOf_map, List.map_map]
      rfl
    have e2 : (present rows).map (fun it => sqErr T it.r (fun o => tab (affineCand eps1 T K crit f rows).tables 0 o * it.v
        + tab (affineCand eps1 T K crit f rows).tables 1 o))
        = ((present rows).map (·.r)).map (fun r => sqErr T r (binMean (momOf ((present rows).map (·.r))))) := by
      rw [List.map_map]; apply List.map_congr_left; intro it _
      simp only [Function.comp]
      apply sqErr_congr; intro o
      rw [htab0, htab1, hmean]; ring
    rw [e1, e2, ← (const_fit_vec T _ hrs zeroV).2]
    have := (const_fit_vec T _ hrs (fun o => w' o * c + b' o)).1
    linarith

end NanoVerif.WLearner
