import NanoVerif.Model.Solver
import Mathlib.Algebra.Order.Field.Basic
import Mathlib.Tactic.Ring
import Mathlib.Tactic.Linarith
import Mathlib.Tactic.Positivity
import Mathlib.Tactic.FieldSimp
/-!
  C01 — exact-arithmetic lemmas about the vector/matrix formulas of `Model/Solver.lean`, instantiated at an arbitrary
  linear ordered field: bilinearity of `vdot`, the two-loop recursion is the product form of a positive definite operator
  (`twoLoop_pos`), the BFGS update satisfies the secant equation, the gradient of a strongly convex quadratic bounds the
  distance to its minimiser, and the reading of `infNorm` / `gradientTest` as `max |·|` and `‖g‖∞ / max(1, |f|)`.
-/
namespace NanoVerif.Solver
open NanoVerif.Gen.DoneLogic
set_option linter.unusedSectionVars false

variable {α : Type} [Field α] [LinearOrder α] [IsStrictOrderedRing α]

/-! ### `absv`, `cmax`, `infNorm`, `gradientTest` in a linear ordered field -/

theorem absv_eq_abs (x : α) : absv x = |x| := by
  unfold absv
  split
  · rename_i h; exact (abs_of_neg h).symm
  · rename_i h; exact (abs_of_nonneg (not_lt.mp h)).symm

theorem cmax_eq_max (a b : α) : cmax a b = max a b := by
  unfold cmax
  split
  · rename_i h; exact (max_eq_right (le_of_lt h)).symm
  · rename_i h; exact (max_eq_left (not_lt.mp h)).symm

theorem gradientTest_eq (gnorm fx : α) : gradientTest gnorm fx = gnorm / max 1 |fx| := by
  unfold gradientTest
  rw [cmax_eq_max, absv_eq_abs]

theorem infNorm_step_eq (m v : α) :
    (let w := absv v; if m < w then w else if w ≤ m then m else m + w) = max m |v| := by
  simp only [absv_eq_abs]
  split
  · rename_i h; exact (max_eq_right (le_of_lt h)).symm
  · rename_i h
    have h' := not_lt.mp h
    simp only [h', if_true]
    exact (max_eq_left h').symm

theorem infNorm_foldl_ge (l : List α) : ∀ (m : α),
    m ≤ l.foldl (fun m v => let w := absv v; if m < w then w else if w ≤ m then m else m + w) m ∧
    ∀ v ∈ l, |v| ≤ l.foldl (fun m v => let w := absv v; if m < w then w else if w ≤ m then m else m + w) m := by
  induction l with
  | nil => intro m; exact ⟨le_refl _, fun v hv => by simp at hv⟩
  | cons a l ih =>
    intro m
    simp only [List.foldl_cons]
    have hs := infNorm_step_eq m a
    simp only at hs
    rw [hs]
    have h := ih (max m |a|)
    refine ⟨le_trans (le_max_left _ _) h.1, fun v hv => ?_⟩
    rcases List.mem_cons.mp hv with rfl | hv'
    · exact le_trans (le_max_right _ _) h.1
    · exact h.2 v hv'

/-- `infNorm` bounds every component -/
theorem le_infNorm (g : Vec α) : ∀ v ∈ g, |v| ≤ infNorm g := (infNorm_foldl_ge g 0).2

theorem infNorm_nonneg (g : Vec α) : 0 ≤ infNorm g := (infNorm_foldl_ge g 0).1

/-- reading of the convergence test: `gradient_test() < ε` says `|g_i| < ε · max(1, |f|)` for every component -/
theorem components_lt_of_gradientTest_lt (g : Vec α) (fx eps : α) (h : gradientTest (infNorm g) fx < eps) :
    ∀ v ∈ g, |v| < eps * max 1 |fx| := by
  intro v hv
  rw [gradientTest_eq] at h
  have hpos : (0 : α) < max 1 |fx| := lt_of_lt_of_le one_pos (le_max_left _ _)
  have h2 := (div_lt_iff₀ hpos).mp h
  exact lt_of_le_of_lt (le_infNorm g v hv) h2

/-! ### `vdot` -/

theorem vdot_comm : ∀ (u v : Vec α), vdot u v = vdot v u
  | [], [] => rfl
  | [], _ :: _ => rfl
  | _ :: _, [] => rfl
  | a :: u, b :: v => by simp only [vdot]; rw [vdot_comm u v, mul_comm]

theorem vdot_nil_right (u : Vec α) : vdot u [] = 0 := by cases u <;> rfl

theorem vdot_self_nonneg : ∀ (q : Vec α), 0 ≤ vdot q q
  | [] => le_refl _
  | a :: q => by simp only [vdot]; have := vdot_self_nonneg q; nlinarith [mul_self_nonneg a]

/-- a vector with a non-zero component has a positive squared norm -/
theorem vdot_self_pos : ∀ (q : Vec α), (∃ a ∈ q, a ≠ 0) → 0 < vdot q q
  | [], h => by simp at h
  | a :: q, h => by
    simp only [vdot]
    have hq := vdot_self_nonneg q
    rcases h with ⟨b, hb, hne⟩
    rcases List.mem_cons.mp hb with rfl | hb'
    · have : 0 < b * b := mul_self_pos.mpr hne
      linarith
    · have := vdot_self_pos q ⟨b, hb', hne⟩
      nlinarith [mul_self_nonneg a]

theorem vdot_zero_of_all_zero : ∀ (u v : Vec α), (¬ ∃ b ∈ u, b ≠ 0) → vdot u v = 0
  | [], v, _ => by cases v <;> rfl
  | _ :: _, [], _ => rfl
  | b :: u, c :: v, h => by
    simp only [vdot]
    have hb : b = 0 := by
      by_contra hb; exact h ⟨b, by simp, hb⟩
    rw [hb, zero_mul, zero_add]
    exact vdot_zero_of_all_zero u v (fun ⟨d, hd, hd0⟩ => h ⟨d, by simp [hd], hd0⟩)

theorem vneg_length (a : Vec α) : (vneg a).length = a.length := by simp [vneg]
theorem vscale_length (c : α) (a : Vec α) : (vscale c a).length = a.length := by simp [vscale]

theorem vsub_length : ∀ (a b : Vec α), a.length = b.length → (vsub a b).length = a.length
  | [], [], _ => rfl
  | _ :: a, _ :: b, h => by simp [vsub, vsub_length a b (by simpa using h)]
  | [], _ :: _, h => by simp at h
  | _ :: _, [], h => by simp at h

theorem vsubScaled_length (c : α) : ∀ (q y : Vec α), q.length = y.length → (vsubScaled q c y).length = q.length
  | [], [], _ => rfl
  | _ :: q, _ :: y, h => by simp [vsubScaled, vsubScaled_length c q y (by simpa using h)]
  | [], _ :: _, h => by simp at h
  | _ :: _, [], h => by simp at h

theorem vaddScaled_length (c : α) : ∀ (r s : Vec α), r.length = s.length → (vaddScaled r s c).length = r.length
  | [], [], _ => rfl
  | _ :: r, _ :: s, h => by simp [vaddScaled, vaddScaled_length c r s (by simpa using h)]
  | [], _ :: _, h => by simp at h
  | _ :: _, [], h => by simp at h

theorem vdot_vneg_right : ∀ (u v : Vec α), vdot u (vneg v) = -vdot u v
  | [], v => by cases v <;> simp [vdot, vneg]
  | _ :: _, [] => by simp [vdot, vneg]
  | a :: u, b :: v => by
    have := vdot_vneg_right u v
    simp only [vneg, List.map_cons, vdot] at this ⊢
    rw [this]; ring

theorem vdot_vscale_right (c : α) : ∀ (u v : Vec α), vdot u (vscale c v) = c * vdot u v
  | [], v => by cases v <;> simp [vdot, vscale]
  | _ :: _, [] => by simp [vdot, vscale]
  | a :: u, b :: v => by
    have := vdot_vscale_right c u v
    simp only [vscale, List.map_cons, vdot] at this ⊢
    rw [this]; ring

/-- `⟨u, q − c·y⟩ = ⟨u, q⟩ − c ⟨u, y⟩` -/
theorem vdot_vsubScaled_right (c : α) : ∀ (u q y : Vec α), u.length = q.length → q.length = y.length →
    vdot u (vsubScaled q c y) = vdot u q - c * vdot u y
  | [], [], [], _, _ => by simp [vdot, vsubScaled]
  | a :: u, b :: q, d :: y, h1, h2 => by
    simp only [vdot, vsubScaled]
    rw [vdot_vsubScaled_right c u q y (by simpa using h1) (by simpa using h2)]; ring
  | [], _ :: _, _, h, _ => by simp at h
  | _ :: _, [], _, h, _ => by simp at h
  | _, [], _ :: _, _, h => by simp at h
  | _, _ :: _, [], _, h => by simp at h

/-- `⟨u, r + s·c⟩ = ⟨u, r⟩ + c ⟨u, s⟩` -/
theorem vdot_vaddScaled_right (c : α) : ∀ (u r s : Vec α), u.length = r.length → r.length = s.length →
    vdot u (vaddScaled r s c) = vdot u r + c * vdot u s
  | [], [], [], _, _ => by simp [vdot, vaddScaled]
  | a :: u, b :: r, d :: s, h1, h2 => by
    simp only [vdot, vaddScaled]
    rw [vdot_vaddScaled_right c u r s (by simpa using h1) (by simpa using h2)]; ring
  | [], _ :: _, _, h, _ => by simp at h
  | _ :: _, [], _, h, _ => by simp at h
  | _, [], _ :: _, _, h => by simp at h
  | _, _ :: _, [], _, h => by simp at h

theorem vdot_vsubScaled_left (c : α) (q y r : Vec α) (h1 : q.length = y.length) (h2 : r.length = q.length) :
    vdot (vsubScaled q c y) r = vdot q r - c * vdot y r := by
  rw [vdot_comm, vdot_vsubScaled_right c r q y h2 h1, vdot_comm r q, vdot_comm r y]

theorem vdot_map_zero : ∀ (l : List Nat) (v : Vec α), vdot (l.map (fun _ => (0 : α))) v = 0
  | [], v => by cases v <;> rfl
  | _ :: _, [] => rfl
  | _ :: l, z :: v => by simp only [List.map_cons, vdot]; rw [vdot_map_zero l v]; ring

theorem vsubScaled_zero : ∀ (q y : Vec α), q.length = y.length → vsubScaled q 0 y = q
  | [], [], _ => rfl
  | a :: q, b :: y, h => by simp [vsubScaled, vsubScaled_zero q y (by simpa using h)]
  | [], _ :: _, h => by simp at h
  | _ :: _, [], h => by simp at h

theorem vdot_vsub_right : ∀ (u a b : Vec α), u.length = a.length → a.length = b.length →
    vdot u (vsub a b) = vdot u a - vdot u b
  | [], [], [], _, _ => by simp [vdot, vsub]
  | c :: u, d :: a, e :: b, h1, h2 => by
    simp only [vdot, vsub]
    rw [vdot_vsub_right u a b (by simpa using h1) (by simpa using h2)]; ring
  | [], _ :: _, _, h, _ => by simp at h
  | _ :: _, [], _, h, _ => by simp at h
  | _, [], _ :: _, _, h => by simp at h
  | _, _ :: _, [], _, h => by simp at h

theorem vdot_vadd_right : ∀ (u a b : Vec α), u.length = a.length → a.length = b.length →
    vdot u (vadd a b) = vdot u a + vdot u b
  | [], [], [], _, _ => by simp [vdot, vadd]
  | c :: u, d :: a, e :: b, h1, h2 => by
    simp only [vdot, vadd]
    rw [vdot_vadd_right u a b (by simpa using h1) (by simpa using h2)]; ring
  | [], _ :: _, _, h, _ => by simp at h
  | _ :: _, [], _, h, _ => by simp at h
  | _, [], _ :: _, _, h => by simp at h
  | _, _ :: _, [], _, h => by simp at h

/-! ### the two-loop recursion (C01 `twoloop_descent`) -/

/-- every stored pair has the right dimension and positive curvature `s·y > 0` -/
def HistOK (n : Nat) (h : List (Vec α × Vec α)) : Prop :=
  ∀ p ∈ h, p.1.length = n ∧ p.2.length = n ∧ 0 < vdot p.1 p.2

/-- the initial scaling of the recursion is positive (or absent) -/
def GammaOK : Option α → Prop
  | none => True
  | some c => 0 < c

theorem twoLoop_length (gamma : Option α) (n : Nat) : ∀ (h : List (Vec α × Vec α)) (q : Vec α),
    HistOK n h → q.length = n → (twoLoop gamma h q).length = n
  | [], q, _, hq => by
    cases gamma <;> simp [twoLoop, vscale_length, hq]
  | (s, y) :: older, q, hok, hq => by
    have hp := hok (s, y) (by simp)
    have hold : HistOK n older := fun p hp' => hok p (by simp [hp'])
    simp only [twoLoop]
    have hq' : (vsubScaled q (vdot s q / vdot s y) y).length = n := by
      rw [vsubScaled_length _ _ _ (by rw [hq, hp.2.1]), hq]
    have hr := twoLoop_length gamma n older _ hold hq'
    rw [vaddScaled_length _ _ _ (by rw [hr, hp.1]), hr]

/-- the quadratic form of the L-BFGS operator is positive: `⟨q, H q⟩ > 0` for `q ≠ 0` when all `s·y > 0` -/
theorem twoLoop_pos (gamma : Option α) (hg : GammaOK gamma) (n : Nat) : ∀ (h : List (Vec α × Vec α)) (q : Vec α),
    HistOK n h → q.length = n → (∃ a ∈ q, a ≠ 0) → 0 < vdot q (twoLoop gamma h q)
  | [], q, _, _, hne => by
    cases gamma with
    | none => simp only [twoLoop]; exact vdot_self_pos q hne
    | some c =>
      simp only [twoLoop]
      rw [vdot_vscale_right c q q]
      exact mul_pos hg (vdot_self_pos q hne)
  | (s, y) :: older, q, hok, hq, hne => by
    obtain ⟨hs, hy, hsy⟩ := hok (s, y) (by simp)
    have hold : HistOK n older := fun p hp' => hok p (by simp [hp'])
    simp only [twoLoop]
    have hq'len : (vsubScaled q (vdot s q / vdot s y) y).length = n := by
      rw [vsubScaled_length _ _ _ (by rw [hq, hy]), hq]
    have hrlen := twoLoop_length gamma n older _ hold hq'len
    rw [vdot_vaddScaled_right _ q _ s (by rw [hq, hrlen]) (by rw [hrlen, hs])]
    -- ⟨q', r⟩ = ⟨q, r⟩ − a ⟨y, r⟩
    have h1 := vdot_vsubScaled_left (vdot s q / vdot s y) q y
      (twoLoop gamma older (vsubScaled q (vdot s q / vdot s y) y)) (by rw [hq, hy]) (by rw [hrlen, hq])
    have hnn : 0 ≤ vdot (vsubScaled q (vdot s q / vdot s y) y)
        (twoLoop gamma older (vsubScaled q (vdot s q / vdot s y) y)) := by
      by_cases hz : ∃ b ∈ vsubScaled q (vdot s q / vdot s y) y, b ≠ 0
      · exact le_of_lt (twoLoop_pos gamma hg n older _ hold hq'len hz)
      · rw [vdot_zero_of_all_zero _ _ hz]
    have hsyne : vdot s y ≠ 0 := ne_of_gt hsy
    by_cases hsq : vdot s q = 0
    · have hq'q : vsubScaled q (vdot s q / vdot s y) y = q := by
        rw [hsq, zero_div]; exact vsubScaled_zero q y (by rw [hq, hy])
      rw [hq'q]
      have hpos := twoLoop_pos gamma hg n older q hold hq hne
      rw [vdot_comm q s, hsq]
      simpa using hpos
    · -- the claimed quantity equals ⟨q', r⟩ + (s·q)² / (s·y)
      generalize twoLoop gamma older (vsubScaled q (vdot s q / vdot s y) y) = R at h1 hnn ⊢
      generalize vsubScaled q (vdot s q / vdot s y) y = q' at h1 hnn
      have hid : vdot q R + (vdot s q / vdot s y - vdot y R / vdot s y) * vdot q s
          = vdot q' R + vdot s q * vdot s q / vdot s y := by
        rw [h1, vdot_comm q s]; field_simp; ring
      rw [hid]
      have hsq2 : 0 < vdot s q * vdot s q := mul_self_pos.mpr hsq
      have : 0 < vdot s q * vdot s q / vdot s y := div_pos hsq2 hsy
      linarith
termination_by h => h.length

theorem lbfgsGamma_ok (n : Nat) (h : List (Vec α × Vec α)) (hok : HistOK n h) : GammaOK (lbfgsGamma h) := by
  cases h with
  | nil => trivial
  | cons p older =>
    obtain ⟨s, y⟩ := p
    obtain ⟨_, _, hsy⟩ := hok (s, y) (by simp)
    simp only [lbfgsGamma, GammaOK]
    have hy : 0 < vdot y y := by
      apply vdot_self_pos
      by_contra hz
      rw [vdot_comm, vdot_zero_of_all_zero y s hz] at hsy
      exact lt_irrefl _ hsy
    exact div_pos hsy hy

/-! ### matrices: `matVec` of sums, products, outer products -/

theorem matVec_length (H : Mat α) (v : Vec α) : (matVec H v).length = H.length := by simp [matVec]

theorem vdot_replicate_zero_right : ∀ (u : Vec α) (n : Nat), vdot u (List.replicate n 0) = 0
  | [], n => by cases n <;> simp [vdot, List.replicate]
  | _ :: _, 0 => by simp [vdot]
  | a :: u, n + 1 => by simp [List.replicate, vdot, vdot_replicate_zero_right u n]

theorem matVec_zero (H : Mat α) (n : Nat) : matVec H (List.replicate n 0) = List.replicate H.length 0 := by
  induction H with
  | nil => rfl
  | cons row rows ih =>
    simp only [matVec, List.map_cons, List.length_cons, List.replicate_succ] at ih ⊢
    rw [vdot_replicate_zero_right, ih]

theorem vadd_replicate_zero_left : ∀ (s : Vec α), vadd (List.replicate s.length 0) s = s
  | [] => rfl
  | a :: s => by simp [List.replicate, vadd, vadd_replicate_zero_left s]

theorem vsub_self : ∀ (s : Vec α), vsub s s = List.replicate s.length 0
  | [] => rfl
  | a :: s => by simp [List.replicate, vsub, vsub_self s]

/-- rows of `A + B` / `A − B` act by the sum / difference -/
theorem matVec_matZipWith_add (A B : Mat α) (v : Vec α) (n : Nat) (hA : ∀ r ∈ A, r.length = n) (hB : ∀ r ∈ B, r.length = n)
    (hv : v.length = n) (hl : A.length = B.length) :
    matVec (matAdd A B) v = vadd (matVec A v) (matVec B v) := by
  induction A generalizing B with
  | nil => cases B <;> simp [matAdd, matZipWith, matVec, vadd]
  | cons a A ih =>
    cases B with
    | nil => simp at hl
    | cons b B =>
      have ha := hA a (by simp)
      have hb := hB b (by simp)
      have hrow : ∀ (a b v : Vec α), a.length = b.length → b.length = v.length →
          vdot (List.zipWith (· + ·) a b) v = vdot a v + vdot b v := by
        intro a
        induction a with
        | nil => intro b v h1 _; cases b <;> cases v <;> simp_all [vdot]
        | cons x a iha =>
          intro b v h1 h2
          cases b with
          | nil => simp at h1
          | cons y b =>
            cases v with
            | nil => simp at h2
            | cons z v =>
              simp only [List.zipWith_cons_cons, vdot]
              rw [iha b v (by simpa using h1) (by simpa using h2)]; ring
      have := ih B (fun r hr => hA r (by simp [hr])) (fun r hr => hB r (by simp [hr])) (by simpa using hl)
      simp only [matAdd, matZipWith, matVec, List.map_cons, vadd] at this ⊢
      rw [hrow a b v (by rw [ha, hb]) (by rw [hb, hv]), this]

theorem matVec_matZipWith_sub (A B : Mat α) (v : Vec α) (n : Nat) (hA : ∀ r ∈ A, r.length = n) (hB : ∀ r ∈ B, r.length = n)
    (hv : v.length = n) (hl : A.length = B.length) :
    matVec (matSub A B) v = vsub (matVec A v) (matVec B v) := by
  induction A generalizing B with
  | nil => cases B <;> simp [matSub, matZipWith, matVec, vsub]
  | cons a A ih =>
    cases B with
    | nil => simp at hl
    | cons b B =>
      have ha := hA a (by simp)
      have hb := hB b (by simp)
      have hrow : ∀ (a b v : Vec α), a.length = b.length → b.length = v.length →
          vdot (List.zipWith (· - ·) a b) v = vdot a v - vdot b v := by
        intro a
        induction a with
        | nil => intro b v h1 _; cases b <;> cases v <;> simp_all [vdot]
        | cons x a iha =>
          intro b v h1 h2
          cases b with
          | nil => simp at h1
          | cons y b =>
            cases v with
            | nil => simp at h2
            | cons z v =>
              simp only [List.zipWith_cons_cons, vdot]
              rw [iha b v (by simpa using h1) (by simpa using h2)]; ring
      have := ih B (fun r hr => hA r (by simp [hr])) (fun r hr => hB r (by simp [hr])) (by simpa using hl)
      simp only [matSub, matZipWith, matVec, List.map_cons, vsub] at this ⊢
      rw [hrow a b v (by rw [ha, hb]) (by rw [hb, hv]), this]

/-- `(u vᵀ / c) w = u (v·w) / c`, component by component -/
theorem matVec_outer_div (u v w : Vec α) (c : α) :
    matVec (matDiv (outer u v) c) w = u.map (fun a => a * (vdot v w / c)) := by
  have hrow : ∀ (a : α) (v w : Vec α), vdot ((v.map (fun b => a * b)).map (fun x => x / c)) w = a * (vdot v w / c) := by
    intro a v
    induction v with
    | nil => intro w; simp [vdot]
    | cons b v ih =>
      intro w
      cases w with
      | nil => simp [vdot]
      | cons z w =>
        simp only [List.map_cons, vdot]
        rw [ih w]; ring
  simp only [matVec, matDiv, outer, List.map_map]
  apply List.map_congr_left
  intro a _
  exact hrow a v w

theorem map_mul_one (u : Vec α) : u.map (fun a => a * (1 : α)) = u := by
  induction u with
  | nil => rfl
  | cons a u ih => simp [ih]

theorem outer_rows_length (u v : Vec α) : ∀ r ∈ outer u v, r.length = v.length := by
  intro r hr
  simp only [outer, List.mem_map] at hr
  obtain ⟨a, _, rfl⟩ := hr
  simp

theorem matDiv_rows_length (A : Mat α) (c : α) (n : Nat) (h : ∀ r ∈ A, r.length = n) : ∀ r ∈ matDiv A c, r.length = n := by
  intro r hr
  simp only [matDiv, List.mem_map] at hr
  obtain ⟨a, ha, rfl⟩ := hr
  simp [h a ha]

theorem identity_rows_length (n : Nat) : ∀ r ∈ (identity n : Mat α), r.length = n := by
  intro r hr
  simp only [identity, List.mem_map] at hr
  obtain ⟨i, _, rfl⟩ := hr
  simp

theorem identity_length (n : Nat) : (identity n : Mat α).length = n := by simp [identity]

/-- `⟨e_i, v⟩ = v_i` for the rows of the identity, by position -/
theorem vdot_unit_row : ∀ (v : Vec α) (i k : Nat),
    vdot ((List.range' k v.length).map (fun j => if i = j then (1 : α) else 0)) v = if h : k ≤ i ∧ i < k + v.length then v.getD (i - k) 0 else 0
  | [], i, k => by simp [vdot]
  | a :: v, i, k => by
    simp only [List.length_cons, List.range'_succ, List.map_cons, vdot]
    rw [vdot_unit_row v i (k + 1)]
    by_cases hik : i = k
    · subst hik
      simp
    · simp only [hik, if_false, zero_mul, zero_add]
      by_cases h1 : k + 1 ≤ i ∧ i < k + 1 + v.length
      · have h2 : k ≤ i ∧ i < k + (v.length + 1) := ⟨by omega, by omega⟩
        simp only [h1, h2, and_self, dite_true]
        have : i - k = (i - (k + 1)) + 1 := by omega
        rw [this, List.getD_cons_succ]
      · have h2 : ¬ (k ≤ i ∧ i < k + (v.length + 1)) := by omega
        simp [h1, h2]

theorem matVec_identity (v : Vec α) : matVec (identity v.length) v = v := by
  simp only [matVec, identity, List.map_map]
  apply List.ext_getElem
  · simp
  · intro i h1 h2
    simp only [List.getElem_map, List.getElem_range, Function.comp]
    have := vdot_unit_row v i 0
    simp only [List.range_eq_range'] at *
    rw [this]
    have hi : i < v.length := by simpa using h2
    simp [hi, List.getD_eq_getElem?_getD, List.getElem?_eq_getElem hi]

/-- `(P B) v = P (B v)` for the model's `matMul`, when `B` has `n` columns and `v` has `n` components -/
theorem vdot_matMul_row (n : Nat) : ∀ (row : Vec α) (B : Mat α) (v : Vec α), (∀ r ∈ B, r.length = n) → v.length = n →
    vdot ((List.range n).map (fun j => vdot row (matCol B j))) v = vdot row (matVec B v)
  | [], B, v, _, _ => by
    have h0 : ∀ j, vdot ([] : Vec α) (matCol B j) = 0 := fun j => by cases matCol B j <;> rfl
    simp only [h0, vdot_map_zero]
    cases matVec B v <;> rfl
  | _ :: _, [], v, _, _ => by
    simp only [matCol, matVec, List.map_nil, vdot, vdot_map_zero]
  | r :: row, b :: B, v, hB, hv => by
    have hb : b.length = n := hB b (by simp)
    have ih := vdot_matMul_row n row B v (fun r hr => hB r (by simp [hr])) hv
    simp only [matCol, List.map_cons, vdot, matVec] at ih ⊢
    -- split the sum over j
    have hsplit : ∀ (l : List Nat) (v : Vec α) (f g : Nat → α),
        vdot (l.map (fun j => f j + g j)) v = vdot (l.map f) v + vdot (l.map g) v := by
      intro l; induction l with
      | nil => intro v f g; simp [vdot]
      | cons a l ihl =>
        intro v f g
        cases v with
        | nil => simp [vdot]
        | cons z v => simp only [List.map_cons, vdot]; rw [ihl v f g]; ring
    have hscale : ∀ (l : List Nat) (v : Vec α) (f : Nat → α), vdot (l.map (fun j => r * f j)) v = r * vdot (l.map f) v := by
      intro l; induction l with
      | nil => intro v f; simp [vdot]
      | cons a l ihl =>
        intro v f
        cases v with
        | nil => simp [vdot]
        | cons z v => simp only [List.map_cons, vdot]; rw [ihl v f]; ring
    rw [hsplit, hscale, ih]
    have hbb : (List.range n).map (fun j => b.getD j 0) = b := by
      apply List.ext_getElem
      · simp [hb]
      · intro i h1 h2
        simp only [List.getElem_map, List.getElem_range]
        rw [List.getD_eq_getElem?_getD, List.getElem?_eq_getElem h2]; rfl
    rw [hbb]

theorem matVec_matMul (n : Nat) (P B : Mat α) (v : Vec α) (hB : ∀ r ∈ B, r.length = n) (hv : v.length = n) :
    matVec (matMul n P B) v = matVec P (matVec B v) := by
  simp only [matVec, matMul, List.map_map]
  apply List.map_congr_left
  intro row _
  exact vdot_matMul_row n row B v hB hv

/-! ### BFGS: the secant equation `H⁺ y = s` -/

theorem bfgs_secant (n : Nat) (H : Mat α) (s y : Vec α) (hs : s.length = n) (hy : y.length = n) (hsy : vdot s y ≠ 0) :
    matVec (bfgsUpdate n H s y) y = s := by
  unfold bfgsUpdate
  simp only
  -- B y = 0
  have hOys : ∀ r ∈ matDiv (outer y s) (vdot s y), r.length = n :=
    matDiv_rows_length _ _ n (fun r hr => by rw [outer_rows_length y s r hr, hs])
  have hBy : matVec (matSub (identity n) (matDiv (outer y s) (vdot s y))) y = List.replicate n 0 := by
    rw [matVec_matZipWith_sub _ _ y n (identity_rows_length n) hOys hy
      (by rw [identity_length]; simp [matDiv, outer, hy])]
    rw [matVec_outer_div, div_self hsy, map_mul_one]
    have := matVec_identity y
    rw [hy] at this
    rw [this, vsub_self, hy]
  have hBrows : ∀ r ∈ matSub (identity n) (matDiv (outer y s) (vdot s y)), r.length = n := by
    intro r hr
    have : ∀ (A B : Mat α), (∀ r ∈ A, r.length = n) → (∀ r ∈ B, r.length = n) → ∀ r ∈ matZipWith (· - ·) A B, r.length = n := by
      intro A
      induction A with
      | nil => intro B _ _ r hr; cases B <;> simp [matZipWith] at hr
      | cons a A ih =>
        intro B hA hB r hr
        cases B with
        | nil => simp [matZipWith] at hr
        | cons b B =>
          simp only [matZipWith, List.mem_cons] at hr
          rcases hr with rfl | hr
          · simp [hA a (by simp), hB b (by simp)]
          · exact ih B (fun r hr => hA r (by simp [hr])) (fun r hr => hB r (by simp [hr])) r hr
    exact this _ _ (identity_rows_length n) hOys r hr
  -- rows of the product have length n; rows of s sᵀ / (s·y) as well
  have hProd : ∀ r ∈ matMul n (matMul n (matSub (identity n) (matDiv (outer s y) (vdot s y))) H)
      (matSub (identity n) (matDiv (outer y s) (vdot s y))), r.length = n := by
    intro r hr
    simp only [matMul, List.mem_map] at hr
    obtain ⟨_, _, rfl⟩ := hr
    simp
  have hOss : ∀ r ∈ matDiv (outer s s) (vdot s y), r.length = n :=
    matDiv_rows_length _ _ n (fun r hr => by rw [outer_rows_length s s r hr, hs])
  have hlen : (matMul n (matMul n (matSub (identity n) (matDiv (outer s y) (vdot s y))) H)
      (matSub (identity n) (matDiv (outer y s) (vdot s y)))).length = (matDiv (outer s s) (vdot s y)).length := by
    have hz : ∀ (A B : Mat α), A.length = B.length → (matZipWith (· - ·) A B).length = A.length := by
      intro A
      induction A with
      | nil => intro B _; cases B <;> simp [matZipWith]
      | cons a A ih =>
        intro B h
        cases B with
        | nil => simp at h
        | cons b B => simp [matZipWith, ih B (by simpa using h)]
    simp only [matMul, matDiv, outer, List.length_map, matSub]
    rw [hz _ _ (by simp [identity, matDiv, outer, hs])]
    simp [identity, hs]
  rw [matVec_matZipWith_add _ _ y n hProd hOss hy hlen]
  rw [matVec_matMul n _ _ y hBrows hy, hBy, matVec_zero, matVec_outer_div, div_self hsy, map_mul_one]
  have hl2 : (matMul n (matSub (identity n) (matDiv (outer s y) (vdot s y))) H).length = s.length := by
    have hz : ∀ (A B : Mat α), A.length = B.length → (matZipWith (· - ·) A B).length = A.length := by
      intro A
      induction A with
      | nil => intro B _; cases B <;> simp [matZipWith]
      | cons a A ih =>
        intro B h
        cases B with
        | nil => simp at h
        | cons b B => simp [matZipWith, ih B (by simpa using h)]
    simp only [matMul, List.length_map, matSub]
    rw [hz _ _ (by simp [identity, matDiv, outer, hs])]
    simp [identity, hs]
  rw [hl2]
  exact vadd_replicate_zero_left s

/-! ### strongly convex quadratics: the gradient bounds the distance to the minimiser -/

theorem vdot_quadratic_nonneg (t : α) : ∀ (u v : Vec α), 0 ≤ t * t * vdot u u - 2 * t * vdot u v + vdot v v
  | [], v => by
    have : vdot ([] : Vec α) v = 0 := by cases v <;> rfl
    simp only [this, vdot]; have := vdot_self_nonneg v; linarith
  | a :: u, [] => by
    simp only [vdot]
    have := vdot_self_nonneg u
    nlinarith [mul_self_nonneg (t * a), mul_nonneg (mul_self_nonneg t) this]
  | a :: u, b :: v => by
    simp only [vdot]
    have := vdot_quadratic_nonneg t u v
    nlinarith [mul_self_nonneg (t * a - b)]

/-- Cauchy–Schwarz in the squared form -/
theorem vdot_sq_le (u v : Vec α) : vdot u v * vdot u v ≤ vdot u u * vdot v v := by
  have hU := vdot_self_nonneg u
  have hV := vdot_self_nonneg v
  rcases eq_or_lt_of_le hU with hU0 | hUpos
  · -- ‖u‖² = 0: then u·v = 0
    have hW : vdot u v = 0 := by
      by_contra hW
      have h := vdot_quadratic_nonneg ((vdot v v + 1) / (2 * vdot u v)) u v
      rw [← hU0] at h
      have h2 : 2 * ((vdot v v + 1) / (2 * vdot u v)) * vdot u v = vdot v v + 1 := by field_simp
      nlinarith
    rw [hW, ← hU0]; simp
  · have h := vdot_quadratic_nonneg (vdot u v / vdot u u) u v
    have hne : vdot u u ≠ 0 := ne_of_gt hUpos
    have h2 : vdot u v / vdot u u * (vdot u v / vdot u u) * vdot u u - 2 * (vdot u v / vdot u u) * vdot u v + vdot v v
        = vdot v v - vdot u v * vdot u v / vdot u u := by
      field_simp; ring
    rw [h2] at h
    have h3 : vdot u v * vdot u v / vdot u u ≤ vdot v v := by linarith
    rw [div_le_iff₀ hUpos] at h3
    linarith [mul_comm (vdot v v) (vdot u u)]

theorem matVec_vsub (A : Mat α) (x z : Vec α) (n : Nat) (hA : ∀ r ∈ A, r.length = n) (hx : x.length = n) (hz : z.length = n) :
    matVec A (vsub x z) = vsub (matVec A x) (matVec A z) := by
  induction A with
  | nil => rfl
  | cons r A ih =>
    have hr := hA r (by simp)
    have := ih (fun r hr => hA r (by simp [hr]))
    simp only [matVec, List.map_cons, vsub] at this ⊢
    rw [vdot_vsub_right r x z (by rw [hr, hx]) (by rw [hx, hz]), this]

/-- if `|v_i| ≤ c` for every component then `‖v‖₂² ≤ n c²` -/
theorem vdot_self_le_of_components (v : Vec α) (c : α) (h : ∀ a ∈ v, |a| ≤ c) : vdot v v ≤ (v.length : α) * (c * c) := by
  induction v with
  | nil => simp [vdot]
  | cons a v ih =>
    simp only [vdot, List.length_cons, Nat.cast_succ]
    have h1 := ih (fun b hb => h b (by simp [hb]))
    have h2 := h a (by simp)
    have h3 : a * a ≤ c * c := by
      have := abs_nonneg a
      have hsq : |a| * |a| ≤ c * c := mul_le_mul h2 h2 this (le_trans this h2)
      rwa [abs_mul_abs_self] at hsq
    linarith

/-! ### `update_if_better` in exact arithmetic: only on strict decrease -/

/-- the generated rule `better = (m_fx - fx) > 0` says `fx < m_fx` -/
theorem uibBetter_iff (mfx fx : α) : uibBetter (uibDf mfx fx) = true ↔ fx < mfx := by
  simp only [uibBetter, uibDf, decide_eq_true_eq, gt_iff_lt, sub_pos]

theorem updateIfBetter_fx_le (env : Env α) (b : BState α) (x gx : Vec α) (fx : α) :
    (updateIfBetter env b x gx fx).1.st.fx ≤ b.st.fx := by
  unfold updateIfBetter
  by_cases hf : env.fin fx = true
  · by_cases hb : uibBetter (uibDf b.st.fx fx) = true
    · simp only [hf, hb, if_true]; exact le_of_lt ((uibBetter_iff _ _).mp hb)
    · simp [hf, hb]
  · simp [hf]

theorem applyCands_fx_le (env : Env α) : ∀ (cands : List (Vec α × Vec α × α)) (b : BState α) (acc : List α),
    (cands.foldl (fun a c => ((updateIfBetter env a.1 c.1 c.2.1 c.2.2).1, a.1.st.fx :: a.2)) (b, acc)).1.st.fx ≤ b.st.fx := by
  intro cands
  induction cands with
  | nil => intro b acc; exact le_refl _
  | cons c cs ih =>
    intro b acc
    simp only [List.foldl_cons]
    exact le_trans (ih _ _) (updateIfBetter_fx_le env b c.1 c.2.1 c.2.2)

theorem nmIter_fx_le (env : Env α) (patience : Nat) (eps : α) (b : BState α) (r : NmStep α) :
    (nmIter env patience eps b r).b.st.fx ≤ b.st.fx := applyCands_fx_le env r.cands b []

theorem nmLoop_fx_le (env : Env α) (step : Nat → Nat × Nat → BState α → NmStep α) (patience : Nat) (eps : α) (maxEvals : Nat) :
    ∀ (fuel k gf gg : Nat) (b : BState α), (nmLoop env step patience eps maxEvals fuel k gf gg b).1.st.fx ≤ b.st.fx := by
  intro fuel
  induction fuel with
  | zero => intro k gf gg b; exact le_refl _
  | succ fuel ih =>
    intro k gf gg b
    simp only [nmLoop]
    split
    · have h := nmIter_fx_le env patience eps b (step k (gf, gg) b)
      split
      · exact h
      · exact le_trans (ih (k + 1) _ _ _) h
    · exact le_refl _

end NanoVerif.Solver
