import NanoVerif.Proofs.ProgramVec
import Mathlib.Tactic.FieldSimp
/-!
  C04 — lemmas about `Model/Program.lean` over an arbitrary linear ordered field: what the normalisations do to the
  feasible set and to the objective, the step-length invariants, the status decision, the duality-gap inequality.
  The property theorems are in `Props/C04.lean`.
-/
set_option linter.unusedSectionVars false
set_option linter.unusedVariables false

namespace NanoVerif.Program
variable {α : Type} [Field α] [LinearOrder α] [IsStrictOrderedRing α]

/-! ### the mathematical program -/

/-- componentwise `≤` of two vectors of the same length -/
def LeV : List α → List α → Prop
  | [], [] => True
  | a :: as, b :: bs => a ≤ b ∧ LeV as bs
  | _, _ => False

/-- `A x = b` and `G x ≤ h` -/
def Feasible (P : Prog α) (x : List α) : Prop := mv P.A x = P.b ∧ LeV (mv P.G x) P.h

/-- `x` is a minimiser of the objective over the feasible set -/
def IsArgmin (P : Prog α) (x : List α) : Prop := Feasible P x ∧ ∀ y, Feasible P y → objective P x ≤ objective P y

/-- shapes: every row has `n = c.size()` entries, `Q` is empty (LP) or `n × n` -/
structure WF (P : Prog α) : Prop where
  Qrows : ∀ r ∈ P.Q, r.length = P.n
  Qlen : P.Q = [] ∨ P.Q.length = P.n
  Arows : ∀ r ∈ P.A, r.length = P.n
  Grows : ∀ r ∈ P.G, r.length = P.n

/-- the quadratic form is symmetric and positive semidefinite on vectors of length `n` -/
structure Convex (P : Prog α) : Prop where
  symm : ∀ a b : List α, a.length = P.n → b.length = P.n → dot a (mv P.Q b) = dot b (mv P.Q a)
  psd : ∀ d : List α, d.length = P.n → 0 ≤ dot d (mv P.Q d)

@[simp] theorem LeV_nil : LeV ([] : List α) [] := trivial
@[simp] theorem LeV_cons (a b : α) (x y : List α) : LeV (a :: x) (b :: y) ↔ a ≤ b ∧ LeV x y := Iff.rfl
@[simp] theorem LeV_nil_cons (b : α) (y : List α) : ¬ LeV ([] : List α) (b :: y) := fun h => h
@[simp] theorem LeV_cons_nil (a : α) (x : List α) : ¬ LeV (a :: x) ([] : List α) := fun h => h

theorem LeV_length : ∀ (x y : List α), LeV x y → x.length = y.length
  | [], [], _ => rfl
  | [], _ :: _, h => absurd h (LeV_nil_cons _ _)
  | _ :: _, [], h => absurd h (LeV_cons_nil _ _)
  | _ :: x, _ :: y, h => by simp [LeV_length x y h.2]

/-! ### division by a positive number -/

theorem vdivs_inj (d : α) (hd : d ≠ 0) : ∀ (a b : List α), vdivs a d = vdivs b d ↔ a = b
  | [], [] => by simp [vdivs]
  | [], _ :: _ => by simp [vdivs]
  | _ :: _, [] => by simp [vdivs]
  | x :: a, y :: b => by
    have ih := vdivs_inj d hd a b
    simp only [vdivs, List.map_cons, List.cons.injEq] at ih ⊢
    rw [ih, div_left_inj' hd]

theorem LeV_vdivs (d : α) (hd : 0 < d) : ∀ (a b : List α), LeV (vdivs a d) (vdivs b d) ↔ LeV a b
  | [], [] => by simp [vdivs]
  | [], _ :: _ => by simp [vdivs]
  | _ :: _, [] => by simp [vdivs]
  | x :: a, y :: b => by
    have ih := LeV_vdivs d hd a b
    simp only [vdivs, List.map_cons, LeV_cons] at ih ⊢
    rw [ih, div_le_div_iff_of_pos_right hd]

theorem normDenom_pos [Sqrt α] (minNorm : α) (h : 0 < minNorm) (A : List (List α)) (b : List α) :
    0 < normDenom minNorm A b :=
  lt_of_lt_of_le h (le_cmax3_first _ _ _)

/-- equalities divided by `d ≠ 0`: same solutions -/
theorem eq_rows_vdivs (d : α) (hd : d ≠ 0) (A : List (List α)) (b x : List α) :
    mv (A.map (fun r => vdivs r d)) x = vdivs b d ↔ mv A x = b := by
  rw [mv_rows_vdivs, vdivs_inj d hd]

/-- inequalities divided by `d > 0`: same solutions -/
theorem le_rows_vdivs (d : α) (hd : 0 < d) (G : List (List α)) (h x : List α) :
    LeV (mv (G.map (fun r => vdivs r d)) x) (vdivs h d) ↔ LeV (mv G x) h := by
  rw [mv_rows_vdivs, LeV_vdivs d hd]

theorem feasible_normalize [Sqrt α] (minNorm : α) (hmin : 0 < minNorm) (P : Prog α) (x : List α) :
    Feasible (normalize minNorm P).2 x ↔ Feasible P x := by
  have hA := normDenom_pos minNorm hmin P.A P.b
  have hG := normDenom_pos minNorm hmin P.G P.h
  simp only [Feasible, normalize, normalizePair]
  rw [eq_rows_vdivs _ (ne_of_gt hA), le_rows_vdivs _ hG]

/-! ### the objective -/

theorem objective_eq (P : Prog α) (x : List α) :
    objective P x = (1 / 2) * dot x (mv P.Q x) + dot x P.c := by
  unfold objective
  split
  · rename_i h
    have : P.Q = [] := by simpa using h
    simp [this, mv]
  · rfl

theorem isEmpty_map {β γ : Type} (f : β → γ) (l : List β) : (l.map f).isEmpty = l.isEmpty := by
  cases l <;> rfl

theorem objective_normalize [Sqrt α] (minNorm : α) (hmin : 0 < minNorm) (P : Prog α) (x : List α) :
    objective (normalize minNorm P).2 x = objective P x / (normalize minNorm P).1 := by
  rw [objective_eq, objective_eq]
  simp only [normalize, normalizePair]
  rw [mv_rows_vdivs, dot_vdivs_right, dot_vdivs_right]
  ring

theorem mufx_pos [Sqrt α] (minNorm : α) (hmin : 0 < minNorm) (P : Prog α) : 0 < (normalize minNorm P).1 := by
  simp only [normalize, normalizePair]
  exact normDenom_pos minNorm hmin P.Q P.c

theorem update_fx (P : Prog α) (mufx miu : α) (x u v : List α) (st : St α) :
    (update P mufx miu x u v st).fx = objective P x * mufx := rfl

/-! ### `maxCoeff` -/

theorem foldl_cmax_lt (c : α) : ∀ (as : List α) (a : α), as.foldl cmax a < c ↔ a < c ∧ ∀ b ∈ as, b < c
  | [], a => by simp
  | b :: as, a => by
    rw [List.foldl_cons, foldl_cmax_lt c as (cmax a b), cmax_eq_max, max_lt_iff]
    constructor
    · rintro ⟨⟨h1, h2⟩, h3⟩
      exact ⟨h1, fun y hy => by
        rcases List.mem_cons.mp hy with rfl | hy'
        · exact h2
        · exact h3 y hy'⟩
    · rintro ⟨h1, h2⟩
      exact ⟨⟨h1, h2 b (by simp)⟩, fun y hy => h2 y (by simp [hy])⟩

theorem maxLt_iff (v : List α) (c : α) : maxLt v c = true ↔ ∀ a ∈ v, a < c := by
  cases v with
  | nil => simp [maxLt, maxCoeff]
  | cons a as =>
    simp only [maxLt, maxCoeff, decide_eq_true_eq]
    rw [foldl_cmax_lt]
    constructor
    · rintro ⟨h1, h2⟩ y hy
      rcases List.mem_cons.mp hy with rfl | hy'
      · exact h1
      · exact h2 y hy'
    · intro h
      exact ⟨h a (by simp), fun y hy => h y (by simp [hy])⟩

/-! ### step lengths -/

theorem smaxLoop_le_acc : ∀ (u du : List α) (acc : α), smaxLoop acc u du ≤ acc
  | [], _, acc => by simp [smaxLoop]
  | _ :: _, [], acc => by simp [smaxLoop]
  | a :: u, d :: du, acc => by
    simp only [smaxLoop]
    split
    · exact le_trans (smaxLoop_le_acc u du _) (by rw [cmin_eq_min]; exact min_le_left _ _)
    · exact smaxLoop_le_acc u du acc

/-- `smax ≤ -uᵢ/duᵢ` for every `i` with `duᵢ < 0` -/
theorem smaxLoop_le : ∀ (u du : List α) (acc : α) (p : α × α), p ∈ u.zip du → p.2 < 0 →
    smaxLoop acc u du ≤ -p.1 / p.2
  | [], _, _, p, h, _ => by simp at h
  | _ :: _, [], _, p, h, _ => by simp at h
  | a :: u, d :: du, acc, p, h, hp => by
    simp only [List.zip_cons_cons, List.mem_cons] at h
    simp only [smaxLoop]
    rcases h with rfl | h
    · simp only at hp ⊢
      rw [if_pos hp]
      exact le_trans (smaxLoop_le_acc u du _) (by rw [cmin_eq_min]; exact min_le_right _ _)
    · exact smaxLoop_le u du _ p h hp

theorem makeSmax_le (big : α) (u du : List α) (p : α × α) (h : p ∈ u.zip du) (hp : p.2 < 0) :
    makeSmax big u du ≤ -p.1 / p.2 := by
  unfold makeSmax
  rw [cmin_eq_min]
  exact le_trans (min_le_left _ _) (smaxLoop_le u du big p h hp)

theorem makeSmax_le_one (big : α) (u du : List α) : makeSmax big u du ≤ 1 := by
  unfold makeSmax
  rw [cmin_eq_min]
  exact min_le_right _ _

theorem move_pos : ∀ (u du : List α) (s : α), 0 ≤ s → (∀ a ∈ u, 0 < a) →
    (∀ p ∈ u.zip du, p.2 < 0 → s * (-p.2) < p.1) → ∀ a ∈ move u s du, 0 < a
  | [], _, s, _, _, _, a, ha => by simp [move, vadd] at ha
  | _ :: _, [], s, _, _, _, a, ha => by simp [move, vadd, smul] at ha
  | b :: u, d :: du, s, hs, hu, hp, a, ha => by
    simp only [move, vadd, smul, List.map_cons, List.zipWith_cons_cons, List.mem_cons] at ha
    rcases ha with rfl | ha
    · have hb : 0 < b := hu b (by simp)
      rcases lt_or_ge d 0 with hd | hd
      · have := hp (b, d) (by simp) hd
        simp only at this
        linarith
      · have : 0 ≤ s * d := mul_nonneg hs hd
        linarith
    · exact move_pos u du s hs (fun y hy => hu y (by simp [hy]))
        (fun p hp' hlt => hp p (by simp [hp']) hlt) a (by simpa [move, vadd, smul] using ha)

theorem stage1_spec (P : Prog α) (beta : α) (hb0 : 0 ≤ beta) (hb1 : beta ≤ 1) (x dx : List α) :
    ∀ (k : Nat) (s0 s : α), 0 ≤ s0 → stage1 P beta x dx k s0 = some s →
      maxLt (slack P (move x s dx)) 0 = true ∧ 0 ≤ s ∧ s ≤ s0
  | 0, _, _, _, h => by simp [stage1] at h
  | k + 1, s0, s, hs0, h => by
    simp only [stage1] at h
    split at h
    · rename_i hc
      cases h
      exact ⟨hc, hs0, le_refl _⟩
    · obtain ⟨h1, h2, h3⟩ := stage1_spec P beta hb0 hb1 x dx k (s0 * beta) s (mul_nonneg hs0 hb0) h
      exact ⟨h1, h2, le_trans h3 (by nlinarith)⟩

theorem stage2_spec [Sqrt α] (P : Prog α) (mufx miu alpha beta : α) (hb0 : 0 ≤ beta) (hb1 : beta ≤ 1)
    (x u v dx du dv : List α) (r0 : α) :
    ∀ (k : Nat) (s1 s : α) (st st' : St α), 0 ≤ s1 →
      stage2 P mufx miu alpha beta x u v dx du dv r0 k s1 st = (some s, st') →
      0 ≤ s ∧ s ≤ s1 ∧ (∃ stp, st' = update P mufx miu (move x s dx) (move u s du) (move v s dv) stp) ∧
        residual st' ≤ (1 - alpha * s) * r0
  | 0, _, _, _, _, _, h => by simp [stage2] at h
  | k + 1, s1, s, st, st', hs1, h => by
    simp only [stage2] at h
    split at h
    · rename_i hc
      simp only [Prod.mk.injEq, Option.some.injEq] at h
      obtain ⟨rfl, rfl⟩ := h
      exact ⟨hs1, le_refl _, ⟨st, rfl⟩, hc⟩
    · obtain ⟨h1, h2, h3, h4⟩ := stage2_spec P mufx miu alpha beta hb0 hb1 x u v dx du dv r0 k (s1 * beta) s _ st'
        (mul_nonneg hs1 hb0) h
      exact ⟨h1, le_trans h2 (by nlinarith), h3, h4⟩

/-- `G x < h` is kept along the segment between two points where it holds -/
theorem slack_interp : ∀ (G : List (List α)) (h x dx : List α) (s1 s2 : α), x.length = dx.length →
    (∀ a ∈ vsub (mv G x) h, a < 0) → (∀ a ∈ vsub (mv G (move x s1 dx)) h, a < 0) → 0 ≤ s2 → s2 ≤ s1 →
    ∀ a ∈ vsub (mv G (move x s2 dx)) h, a < 0
  | [], _, _, _, _, _, _, _, _, _, _, a, ha => by simp [mv, vsub] at ha
  | _ :: _, [], _, _, _, _, _, _, _, _, _, a, ha => by simp [mv, vsub] at ha
  | r :: G, hh :: h, x, dx, s1, s2, hl, h0, h1, hs2, hs21, a, ha => by
    simp only [mv, vsub, List.map_cons, List.zipWith_cons_cons, List.mem_cons] at h0 h1 ha
    rcases ha with rfl | ha
    · have e0 := h0 (dot r x - hh) (Or.inl rfl)
      have e1 := h1 (dot r (move x s1 dx) - hh) (Or.inl rfl)
      rw [dot_move r x dx s1 hl] at e1
      rw [dot_move r x dx s2 hl]
      rcases le_or_gt (dot r dx) 0 with ht | ht
      · have : s2 * dot r dx ≤ 0 := mul_nonpos_of_nonneg_of_nonpos hs2 ht
        linarith
      · have : s2 * dot r dx ≤ s1 * dot r dx := mul_le_mul_of_nonneg_right hs21 (le_of_lt ht)
        linarith
    · exact slack_interp G h x dx s1 s2 hl (fun y hy => h0 y (Or.inr (by simpa [mv, vsub] using hy)))
        (fun y hy => h1 y (Or.inr (by simpa [mv, vsub] using hy))) hs2 hs21 a (by simpa [mv, vsub] using ha)

/-! ### the residuals as sums (whatever the `if (p > 0)` / `if (m > 0)` guards skip) -/

theorem gradObj_length (P : Prog α) (wf : WF P) (x : List α) (hx : x.length = P.n) : (gradObj P x).length = P.n := by
  unfold gradObj
  split
  · rfl
  · rename_i h
    rcases wf.Qlen with h0 | h0
    · simp [h0] at h
    · simp [h0, Prog.n]

theorem dot_gradObj (P : Prog α) (wf : WF P) (x d : List α) (hx : x.length = P.n) :
    dot (gradObj P x) d = dot (mv P.Q x) d + dot P.c d := by
  unfold gradObj
  split
  · rename_i h
    have : P.Q = [] := by simpa using h
    simp [this, mv]
  · rename_i h
    rcases wf.Qlen with h0 | h0
    · simp [h0] at h
    · rw [dot_vadd_left _ _ _ (by simp [h0, Prog.n])]

theorem dot_rdual (P : Prog α) (wf : WF P) (mufx miu : α) (x u v d : List α) (st : St α)
    (hx : x.length = P.n) (hd : d.length = P.n) (hu : u.length = P.G.length) (hv : v.length = P.A.length) :
    dot (update P mufx miu x u v st).rdual d =
      dot (gradObj P x) d + dot v (mv P.A d) + dot u (mv P.G d) := by
  have hg := gradObj_length P wf x hx
  have hA : (tmv P.n P.A v).length = P.n := tmv_length _ _ _ wf.Arows
  have hG : (tmv P.n P.G u).length = P.n := tmv_length _ _ _ wf.Grows
  have eA : dot (tmv P.n P.A v) d = dot v (mv P.A d) := tmv_adjoint _ _ _ _ wf.Arows hd hv.symm
  have eG : dot (tmv P.n P.G u) d = dot u (mv P.G d) := tmv_adjoint _ _ _ _ wf.Grows hd hu.symm
  simp only [update]
  by_cases ha : P.A.isEmpty <;> by_cases hg' : P.G.isEmpty
  · have h1 : P.A = [] := by simpa using ha
    have h2 : P.G = [] := by simpa using hg'
    simp [h1, h2, mv]
  · have h1 : P.A = [] := by simpa using ha
    simp only [ha, hg', if_true, if_false, Bool.false_eq_true]
    rw [dot_vadd_left _ _ _ (by rw [hg, hG]), eG]
    simp [h1, mv]
  · have h2 : P.G = [] := by simpa using hg'
    simp only [ha, hg', if_true, if_false, Bool.false_eq_true]
    rw [dot_vadd_left _ _ _ (by rw [hg, hA]), eA]
    simp [h2, mv]
  · simp only [ha, hg', if_false, Bool.false_eq_true]
    rw [dot_vadd_left _ _ _ (by simp [hg, hA, hG]), dot_vadd_left _ _ _ (by rw [hg, hA]), eA, eG]

/-- `u ≥ 0`, `g ≤ h` componentwise ⇒ `u·(g − h) ≤ 0` -/
theorem dot_slack_nonpos : ∀ (u g h : List α), (∀ a ∈ u, 0 ≤ a) → LeV g h → dot u (vsub g h) ≤ 0
  | [], _, _, _, _ => by simp
  | _ :: _, [], [], _, _ => by simp [vsub]
  | _ :: _, [], _ :: _, _, hl => absurd hl (LeV_nil_cons _ _)
  | _ :: _, _ :: _, [], _, hl => absurd hl (LeV_cons_nil _ _)
  | a :: u, x :: g, y :: h, hu, hl => by
    have ih := dot_slack_nonpos u g h (fun b hb => hu b (by simp [hb])) hl.2
    have ha : 0 ≤ a := hu a (by simp)
    have hxy : x ≤ y := hl.1
    simp only [vsub, List.zipWith_cons_cons, dot_cons] at ih ⊢
    have : a * (x - y) ≤ 0 := mul_nonpos_of_nonneg_of_nonpos ha (by linarith)
    linarith

end NanoVerif.Program
