import NanoVerif.Model.FunctionsBase
import Mathlib.Tactic.Linarith
/-!
  C06 — the `function_t` base class (`Model/FunctionsBase.lean`): which constraints a function accepts, what it stores, what
  `valid` answers and what the call counters count, for every history of operations; the size rules of `make(dims, summands)`.
-/
set_option linter.unusedSectionVars false
set_option linter.unusedVariables false

namespace NanoVerif.C06
open NanoVerif.FnBase NanoVerif.Constraint

/-! ### `size()` of `make(dims, summands)` -/

/-- powell: a positive multiple of four, the largest one not above `dims` (4 for `dims < 4`) -/
theorem powell_size_spec (d : Nat) :
    4 ∣ sizeBy .powell d ∧ 4 ≤ sizeBy .powell d ∧ sizeBy .powell d ≤ max 4 d ∧ (4 ≤ d → d < sizeBy .powell d + 4) := by
  simp only [sizeBy]
  refine ⟨?_, ?_, ?_, ?_⟩ <;> omega

theorem atLeast2_size_spec (d : Nat) : 2 ≤ sizeBy .atLeast2 d ∧ (2 ≤ d → sizeBy .atLeast2 d = d) := by
  simp only [sizeBy]
  constructor <;> omega

/-- whatever the rule, a prototype asked for `dims ≥ 1` has at least one dimension -/
theorem size_pos (r : SizeRule) (d : Nat) (hd : 1 ≤ d) : 1 ≤ sizeBy r d := by
  cases r <;> simp only [sizeBy] <;> omega

section
variable {α : Type} [Add α] [Sub α] [Mul α] [Div α] [Neg α] [LT α] [DecidableLT α]
  [OfNat α 0] [OfNat α 1] [OfNat α 2]

/-- the class invariant: every stored constraint is compatible with the function (so `vgrad` / `valid` of a stored
    constraint at a point of the function's size is well-defined: dimensions in range, coefficient sizes right) -/
def BaseInv (s : St α) : Prop := ∀ c ∈ s.cons, c.compatible s.size = true

theorem boxFrom_compatible (lo hi : α) (n : Nat) : ∀ (k i : Nat), i + k ≤ n → ∀ c ∈ boxFrom lo hi k i, c.compatible n = true
  | 0, _, _, c, hc => by simp [boxFrom] at hc
  | k + 1, i, h, c, hc => by
    simp only [boxFrom, List.mem_cons] at hc
    rcases hc with rfl | rfl | hc
    · simp [C.compatible]; omega
    · simp [C.compatible]; omega
    · exact boxFrom_compatible lo hi n k (i + 1) (by omega) c hc

theorem boxVec_compatible (n : Nat) : ∀ (lo hi : List α) (i : Nat), i + lo.length ≤ n →
    ∀ c ∈ boxVec lo hi i, c.compatible n = true
  | [], _, _, _, c, hc => by simp [boxVec] at hc
  | _ :: _, [], _, _, c, hc => by simp [boxVec] at hc
  | l :: ls, h :: hs, i, hl, c, hc => by
    simp only [boxVec, List.mem_cons] at hc
    simp only [List.length_cons] at hl
    rcases hc with rfl | rfl | hc
    · simp [C.compatible]; omega
    · simp [C.compatible]; omega
    · exact boxVec_compatible n ls hs (i + 1) (by omega) c hc

theorem boxFrom_length (lo hi : α) : ∀ (k i : Nat), (boxFrom lo hi k i).length = 2 * k
  | 0, _ => rfl
  | k + 1, i => by simp [boxFrom, boxFrom_length lo hi k (i + 1)]; omega

theorem boxFrom_isEq (lo hi : α) : ∀ (k i : Nat), ∀ c ∈ boxFrom lo hi k i, c.isEq = false
  | 0, _, c, hc => by simp [boxFrom] at hc
  | k + 1, i, c, hc => by
    simp only [boxFrom, List.mem_cons] at hc
    rcases hc with rfl | rfl | hc
    · rfl
    · rfl
    · exact boxFrom_isEq lo hi k (i + 1) c hc

/-- `count_equalities + count_inequalities` = the number of stored constraints -/
theorem count_total (cs : List (C α)) : countEq cs + countIneq cs = cs.length := by
  unfold countEq countIneq
  induction cs with
  | nil => rfl
  | cons c cs ih =>
    simp only [List.filter_cons, List.length_cons]
    cases c.isEq <;> simp <;> omega

theorem step_size (eps : α) (s : St α) (op : Op α) : (step eps s op).1.size = s.size := by
  cases op <;> simp only [step] <;> (try split) <;> rfl

/-- constraints are only ever appended: what was accepted stays, in order -/
theorem step_cons_append (eps : α) (s : St α) (op : Op α) : ∃ added, (step eps s op).1.cons = s.cons ++ added := by
  cases op <;> simp only [step] <;> (try split) <;> first | exact ⟨_, rfl⟩ | exact ⟨[], by simp⟩

theorem step_inv (eps : α) (s : St α) (op : Op α) (h : BaseInv s) : BaseInv (step eps s op).1 := by
  cases op with
  | cg c =>
    simp only [step]
    split
    · rename_i hc
      intro c' hc'
      simp only [List.mem_append, List.mem_singleton] at hc'
      rcases hc' with hc' | rfl
      · exact h c' hc'
      · exact hc
    · exact h
  | cb lo hi =>
    simp only [step]
    split
    · intro c hc
      simp only [List.mem_append] at hc
      rcases hc with hc | hc
      · exact h c hc
      · exact boxFrom_compatible lo hi s.size s.size 0 (by omega) c hc
    · exact h
  | cd lo hi dim =>
    simp only [step]
    split
    · rename_i hc
      obtain ⟨_, h0, h1⟩ := hc
      have hd : dim.toNat < s.size := by omega
      intro c hc'
      simp only [List.mem_append, List.mem_cons, List.mem_nil_iff, or_false] at hc'
      rcases hc' with hc' | rfl | rfl
      · exact h c hc'
      · simp [C.compatible, hd]
      · simp [C.compatible, hd]
    · exact h
  | cv lo hi =>
    simp only [step]
    split
    · rename_i hc
      intro c hc'
      simp only [List.mem_append] at hc'
      rcases hc' with hc' | hc'
      · exact h c hc'
      · exact boxVec_compatible s.size lo hi 0 (by omega) c hc'
    · exact h
  | valid x => exact h
  | eval k => exact h
  | clr => exact h

theorem run_size (eps : α) : ∀ (ops : List (Op α)) (s : St α), (run eps s ops).1.size = s.size
  | [], _ => rfl
  | op :: ops, s => by simp only [run]; rw [run_size eps ops, step_size]

/-- for EVERY history of operations on a fresh function: every stored constraint is compatible with it -/
theorem run_inv (eps : α) : ∀ (ops : List (Op α)) (s : St α), BaseInv s → BaseInv (run eps s ops).1
  | [], _, h => h
  | op :: ops, s, h => by simp only [run]; exact run_inv eps ops _ (step_inv eps s op h)

theorem fresh_inv (n : Nat) : BaseInv (fresh n : St α) := by intro c hc; simp [fresh] at hc

theorem run_cons_append (eps : α) : ∀ (ops : List (Op α)) (s : St α), ∃ added, (run eps s ops).1.cons = s.cons ++ added
  | [], s => ⟨[], by simp [run]⟩
  | op :: ops, s => by
    simp only [run]
    obtain ⟨a1, h1⟩ := step_cons_append eps s op
    obtain ⟨a2, h2⟩ := run_cons_append eps ops (step eps s op).1
    exact ⟨a1 ++ a2, by rw [h2, h1, List.append_assoc]⟩

/-! ### acceptance rules of the four `constrain` overloads -/

theorem cg_accepted_iff (eps : α) (s : St α) (c : C α) :
    ((step eps s (.cg c)).2 = some true ↔ c.compatible s.size = true) ∧
    ((step eps s (.cg c)).2 = some true → (step eps s (.cg c)).1.cons = s.cons ++ [c]) ∧
    ((step eps s (.cg c)).2 ≠ some true → (step eps s (.cg c)).1 = s) := by
  simp only [step]
  by_cases h : c.compatible s.size = true <;> simp [h]

theorem cb_accepted_iff (eps : α) (s : St α) (lo hi : α) :
    ((step eps s (.cb lo hi)).2 = some true ↔ lo < hi) ∧
    ((step eps s (.cb lo hi)).2 = some true → (step eps s (.cb lo hi)).1.cons = s.cons ++ boxFrom lo hi s.size 0) ∧
    ((step eps s (.cb lo hi)).2 ≠ some true → (step eps s (.cb lo hi)).1 = s) := by
  simp only [step]
  by_cases h : lo < hi <;> simp [h]

theorem cd_accepted_iff (eps : α) (s : St α) (lo hi : α) (dim : Int) :
    ((step eps s (.cd lo hi dim)).2 = some true ↔ (lo < hi ∧ 0 ≤ dim ∧ dim < (s.size : Int))) ∧
    ((step eps s (.cd lo hi dim)).2 = some true →
      (step eps s (.cd lo hi dim)).1.cons = s.cons ++ [C.minimum lo dim.toNat, C.maximum hi dim.toNat]) ∧
    ((step eps s (.cd lo hi dim)).2 ≠ some true → (step eps s (.cd lo hi dim)).1 = s) := by
  simp only [step]
  by_cases h : (lo < hi ∧ 0 ≤ dim ∧ dim < (s.size : Int)) <;> simp [h]

theorem cv_accepted_iff (eps : α) (s : St α) (lo hi : List α) :
    ((step eps s (.cv lo hi)).2 = some true ↔ (lo.length = s.size ∧ hi.length = s.size ∧ allPos lo hi = true)) ∧
    ((step eps s (.cv lo hi)).2 = some true → (step eps s (.cv lo hi)).1.cons = s.cons ++ boxVec lo hi 0) ∧
    ((step eps s (.cv lo hi)).2 ≠ some true → (step eps s (.cv lo hi)).1 = s) := by
  simp only [step]
  by_cases h : (lo.length = s.size ∧ hi.length = s.size ∧ allPos lo hi = true) <;> simp [h]

/-- an accepted `constrain(min, max)` adds `2 · size` inequalities and no equality -/
theorem cb_counts (eps : α) (s : St α) (lo hi : α) (h : lo < hi) :
    countIneq (step eps s (.cb lo hi)).1.cons = countIneq s.cons + 2 * s.size ∧
    countEq (step eps s (.cb lo hi)).1.cons = countEq s.cons := by
  simp only [step, h, if_true]
  unfold countIneq countEq
  rw [List.filter_append, List.filter_append, List.length_append, List.length_append]
  have hall := boxFrom_isEq lo hi s.size 0
  have e1 : (boxFrom lo hi s.size 0).filter (fun c => !c.isEq) = boxFrom lo hi s.size 0 := by
    apply List.filter_eq_self.2
    intro c hc; simp [hall c hc]
  have e2 : (boxFrom lo hi s.size 0).filter C.isEq = [] := by
    apply List.filter_eq_nil_iff.2
    intro c hc; simp [hall c hc]
  rw [e1, e2, boxFrom_length]
  simp

/-- `function_t::valid(x)`: every stored constraint is violated by less than the machine epsilon -/
theorem valid_answer_iff (eps : α) (s : St α) (x : List α) :
    (step eps s (.valid x)).2 = some true ↔ ∀ c ∈ s.cons, c.valid x < eps := by
  simp [step, List.all_eq_true]

/-! ### the call counters -/

/-- `vgrad` calls of a history -/
def evalCount : List (Op α) → Nat
  | [] => 0
  | .eval _ :: ops => evalCount ops + 1
  | _ :: ops => evalCount ops

/-- `vgrad` calls of a history that asked for the gradient (`gx.size() == size()`) -/
def gradCount (n : Nat) : List (Op α) → Nat
  | [] => 0
  | .eval k :: ops => gradCount n ops + (if k = n then 1 else 0)
  | _ :: ops => gradCount n ops

def noClr : List (Op α) → Bool
  | [] => true
  | .clr :: _ => false
  | _ :: ops => noClr ops

/-- between two `clear_statistics`: `fcalls` counts every `vgrad` call, `gcalls` those with a gradient buffer of the
    function's size -/
theorem run_calls (eps : α) : ∀ (ops : List (Op α)) (s : St α), noClr ops = true →
    (run eps s ops).1.fcalls = s.fcalls + evalCount ops ∧ (run eps s ops).1.gcalls = s.gcalls + gradCount s.size ops
  | [], s, _ => by simp [run, evalCount, gradCount]
  | op :: ops, s, h => by
    cases op with
    | clr => simp [noClr] at h
    | eval k =>
      have ih := run_calls eps ops (step eps s (.eval k)).1 (by simpa [noClr] using h)
      simp only [run]
      rw [ih.1, ih.2, step_size]
      simp only [step, evalCount, gradCount]
      constructor <;> omega
    | cg c =>
      have ih := run_calls eps ops (step eps s (.cg c)).1 (by simpa [noClr] using h)
      simp only [run]; rw [ih.1, ih.2, step_size]
      simp only [step, evalCount, gradCount]
      split <;> exact ⟨rfl, rfl⟩
    | cb lo hi =>
      have ih := run_calls eps ops (step eps s (.cb lo hi)).1 (by simpa [noClr] using h)
      simp only [run]; rw [ih.1, ih.2, step_size]
      simp only [step, evalCount, gradCount]
      split <;> exact ⟨rfl, rfl⟩
    | cd lo hi d =>
      have ih := run_calls eps ops (step eps s (.cd lo hi d)).1 (by simpa [noClr] using h)
      simp only [run]; rw [ih.1, ih.2, step_size]
      simp only [step, evalCount, gradCount]
      split <;> exact ⟨rfl, rfl⟩
    | cv lo hi =>
      have ih := run_calls eps ops (step eps s (.cv lo hi)).1 (by simpa [noClr] using h)
      simp only [run]; rw [ih.1, ih.2, step_size]
      simp only [step, evalCount, gradCount]
      split <;> exact ⟨rfl, rfl⟩
    | valid x =>
      have ih := run_calls eps ops (step eps s (.valid x)).1 (by simpa [noClr] using h)
      simp only [run]; rw [ih.1, ih.2, step_size]
      exact ⟨rfl, rfl⟩

theorem step_calls_le (eps : α) (s : St α) (op : Op α) (h : s.gcalls ≤ s.fcalls) :
    (step eps s op).1.gcalls ≤ (step eps s op).1.fcalls := by
  cases op <;> simp only [step] <;> (try split) <;> (try exact h) <;> (try exact Nat.le_refl 0) <;> omega

/-- for EVERY history (with or without `clear_statistics`): never more gradient calls than calls -/
theorem run_calls_le (eps : α) : ∀ (ops : List (Op α)) (s : St α), s.gcalls ≤ s.fcalls →
    (run eps s ops).1.gcalls ≤ (run eps s ops).1.fcalls
  | [], _, h => h
  | op :: ops, s, h => by simp only [run]; exact run_calls_le eps ops _ (step_calls_le eps s op h)

end
end NanoVerif.C06
