import NanoVerif.Model.Tuner
import NanoVerif.Proofs.TunerGrid
import Mathlib.Order.Defs.LinearOrder
import Mathlib.Data.List.Perm.Basic
/-!
  C13 — invariants of `evaluate` and of the loops of the tuners (helper lemmas of `Props/C13.lean`).

  Everything is stated for an arbitrary callback `f`, an arbitrary finiteness predicate `fin`, an arbitrary `sortFn`
  satisfying `SortSpec` and an arbitrary surrogate oracle, over an arbitrary linear order of values.
-/
namespace NanoVerif.Tuner

variable {α : Type}

/-! ### the sort -/

section sort
variable [LinearOrder α]

theorem mergeSort_sortSpec : SortSpec (sortSteps : List (Step α) → List (Step α)) := by
  intro l
  refine ⟨List.mergeSort_perm l _, ?_⟩
  have h := List.pairwise_mergeSort (le := fun (a b : Step α) => !(decide (b.value < a.value)))
    (by
      intro a b c hab hbc
      simp only [Bool.not_eq_true', decide_eq_false_iff_not, not_lt] at *
      exact le_trans hab hbc)
    (by
      intro a b
      simp only [Bool.or_eq_true, Bool.not_eq_true', decide_eq_false_iff_not, not_lt]
      exact le_total _ _) l
  refine h.imp ?_
  intro a b hab
  simpa using hab

theorem perm_cons_eraseP {β : Type} (p : β → Bool) : ∀ (l : List β) (x : β), l.find? p = some x →
    l.Perm (x :: l.eraseP p)
  | [], _, h => by simp at h
  | y :: l, x, h => by
    by_cases hy : p y = true
    · simp only [List.find?_cons, hy] at h
      cases h
      simp [hy]
    · have hy' : p y = false := by simpa using hy
      simp only [List.find?_cons, hy'] at h
      have ih := perm_cons_eraseP p l x h
      simp only [List.eraseP_cons, hy', cond_false]
      exact (ih.cons y).trans (List.Perm.swap x y _)

theorem hintedSort_sortSpec (hints : List (Nat × IGrid)) :
    SortSpec (hintedSort hints : List (Step α) → List (Step α)) := by
  intro l
  obtain ⟨hp, hs⟩ := mergeSort_sortSpec (α := α) l
  unfold hintedSort
  simp only
  split
  · rename_i g h rest hl hsort
    split
    · rename_i x hx
      split
      · exact ⟨hp, hs⟩
      · rename_i hne
        have hxh : x.value = h.value := by
          rcases lt_trichotomy x.value h.value with h1 | h1 | h1
          · exact absurd (Or.inl h1) hne
          · exact h1
          · exact absurd (Or.inr h1) hne
        have hperm := perm_cons_eraseP (fun (y : Step α) => y.igrid == g) (sortSteps l) x hx
        refine ⟨hperm.symm.trans hp, ?_⟩
        rw [List.pairwise_cons]
        refine ⟨?_, hs.sublist List.eraseP_sublist⟩
        intro y hy
        have hy' : y ∈ sortSteps l := List.eraseP_sublist.subset hy
        rw [hsort] at hy' hs
        rw [hxh]
        rcases List.mem_cons.mp hy' with rfl | hy''
        · exact lt_irrefl _
        · exact (List.pairwise_cons.mp hs).1 y hy''
    · exact ⟨hp, hs⟩
  · exact ⟨hp, hs⟩

end sort

/-! ### `evaluate` -/

/-- the points of `igrids` not yet evaluated -/
def freshOf (igrids : List IGrid) (steps : List (Step α)) : List IGrid :=
  igrids.filter fun g => !(steps.any fun s => s.igrid == g)

theorem mem_freshOf {igrids : List IGrid} {steps : List (Step α)} {g : IGrid} :
    g ∈ freshOf igrids steps ↔ g ∈ igrids ∧ g ∉ steps.map (·.igrid) := by
  simp only [freshOf, List.mem_filter, Bool.not_eq_true', List.any_eq_false, beq_iff_eq, List.mem_map, not_exists,
    not_and]

theorem evaluate_ok {fin : α → Bool} {f : IGrid → α} {sortFn : List (Step α) → List (Step α)} {igrids : List IGrid}
    {steps steps' : List (Step α)} {batch : List IGrid} (h : evaluate fin f sortFn igrids steps = .ok steps' batch) :
    batch = freshOf igrids steps ∧ batch ≠ [] ∧ (∀ g ∈ batch, fin (f g) = true) ∧
      steps' = sortFn (steps ++ batch.map fun g => ⟨g, f g⟩) := by
  unfold evaluate at h
  simp only at h
  split at h
  · cases h
  · rename_i hne
    split at h
    · rename_i hall
      cases h
      refine ⟨rfl, ?_, ?_, rfl⟩
      · intro h0
        apply hne
        rw [List.isEmpty_iff]
        exact h0
      · exact List.all_eq_true.mp hall
    · cases h

theorem evaluate_bad {fin : α → Bool} {f : IGrid → α} {sortFn : List (Step α) → List (Step α)} {igrids : List IGrid}
    {steps : List (Step α)} {batch : List IGrid} (h : evaluate fin f sortFn igrids steps = .bad batch) :
    batch = freshOf igrids steps ∧ ∃ g ∈ batch, fin (f g) = false := by
  unfold evaluate at h
  simp only at h
  split at h
  · cases h
  · split at h
    · cases h
    · rename_i hall
      cases h
      refine ⟨rfl, ?_⟩
      by_contra hcon
      apply hall
      rw [List.all_eq_true]
      intro g hg
      cases hfg : fin (f g) with
      | true => rfl
      | false => exact absurd ⟨g, hg, hfg⟩ hcon

theorem evaluate_unchanged {fin : α → Bool} {f : IGrid → α} {sortFn : List (Step α) → List (Step α)}
    {igrids : List IGrid} {steps : List (Step α)} (h : evaluate fin f sortFn igrids steps = .unchanged) :
    ∀ g ∈ igrids, g ∈ steps.map (·.igrid) := by
  unfold evaluate at h
  simp only at h
  split at h
  · rename_i he
    intro g hg
    by_contra hng
    have : g ∈ freshOf igrids steps := mem_freshOf.mpr ⟨hg, hng⟩
    rw [List.isEmpty_iff] at he
    unfold freshOf at this
    rw [he] at this
    simp at this
  · split at h <;> cases h

/-- `evaluate` is `.bad` exactly when some not yet evaluated point gets a non-finite value: non-finite values are
    rejected, finite ones never are -/
theorem evaluate_bad_iff (fin : α → Bool) (f : IGrid → α) (sortFn : List (Step α) → List (Step α))
    (igrids : List IGrid) (steps : List (Step α)) :
    (∃ b, evaluate fin f sortFn igrids steps = .bad b) ↔ ∃ g ∈ freshOf igrids steps, fin (f g) = false := by
  constructor
  · rintro ⟨b, hb⟩
    obtain ⟨rfl, h⟩ := evaluate_bad hb
    exact h
  · rintro ⟨g, hg, hfin⟩
    refine ⟨freshOf igrids steps, ?_⟩
    unfold evaluate
    simp only
    have hne : ¬ (freshOf igrids steps).isEmpty = true := by
      rw [List.isEmpty_iff]
      intro h0
      rw [h0] at hg
      simp at hg
    have hall : ¬ (freshOf igrids steps).all (fun g => fin (f g)) = true := by
      rw [List.all_eq_true]
      intro h
      have := h g hg
      rw [hfin] at this
      cases this
    unfold freshOf at hne hall ⊢
    rw [if_neg hne, if_neg hall]

/-! ### the invariant of the steps and of the trace of callback batches -/

/-! ### a sort that the kernel can evaluate (for the non-vacuity examples) -/

def insertStep [LT α] [DecidableLT α] (x : Step α) : List (Step α) → List (Step α)
  | [] => [x]
  | y :: ys => if x.value < y.value then x :: y :: ys else y :: insertStep x ys

def insertionSort [LT α] [DecidableLT α] : List (Step α) → List (Step α)
  | [] => []
  | x :: xs => insertStep x (insertionSort xs)

section inv
variable [LinearOrder α]

structure Inv (c : Cfg α) (steps : List (Step α)) (tr : List (List IGrid)) : Prop where
  grid : ∀ s ∈ steps, inGrid c.mn c.mx s.igrid = true
  nodup : (steps.map (·.igrid)).Nodup
  sorted : steps.Pairwise (fun a b => ¬ b.value < a.value)
  vals : ∀ s ∈ steps, c.fin s.value = true ∧ s.value = c.f s.igrid
  budget : steps.length ≤ c.maxEvals + 3 ^ c.mn.length
  trace : (steps.map (·.igrid)).Perm tr.flatten

/-- what the callback has been handed so far: grid points only, none twice, within the budget -/
structure TInv (c : Cfg α) (tr : List (List IGrid)) : Prop where
  grid : ∀ g ∈ tr.flatten, inGrid c.mn c.mx g = true
  nodup : tr.flatten.Nodup
  budget : tr.flatten.length ≤ c.maxEvals + 3 ^ c.mn.length

theorem Inv.tinv {c : Cfg α} {steps : List (Step α)} {tr : List (List IGrid)} (h : Inv c steps tr) : TInv c tr := by
  refine ⟨?_, h.trace.nodup_iff.mp h.nodup, ?_⟩
  · intro g hg
    have : g ∈ steps.map (·.igrid) := h.trace.symm.subset hg
    obtain ⟨s, hs, rfl⟩ := List.mem_map.mp this
    exact h.grid s hs
  · have := h.trace.length_eq
    rw [List.length_map] at this
    rw [← this]
    exact h.budget

omit [LinearOrder α] in
theorem flatten_snoc (tr : List (List IGrid)) (b : List IGrid) : (tr ++ [b]).flatten = tr.flatten ++ b := by
  simp

/-- the proposed points: in the box, no point twice, at most `3^d` -/
structure Proposal (c : Cfg α) (igrids : List IGrid) : Prop where
  grid : ∀ g ∈ igrids, inGrid c.mn c.mx g = true
  nodup : igrids.Nodup
  card : igrids.length ≤ 3 ^ c.mn.length

omit [LinearOrder α] in
theorem proposal_localSearch (c : Cfg α) (src : IGrid) (r : Int) (hr : r ≠ 0) :
    Proposal c (localSearch c.mn c.mx src r) :=
  ⟨localSearch_inGrid _ _ _ _, localSearch_nodup _ _ _ _ hr, localSearch_length_le _ _ _ _⟩

omit [LinearOrder α] in
theorem freshOf_sublist (igrids : List IGrid) (steps : List (Step α)) : (freshOf igrids steps).Sublist igrids :=
  List.filter_sublist

/-- the trace invariant after a batch, whether or not its values are accepted -/
theorem tinv_snoc {c : Cfg α} {steps : List (Step α)} {tr : List (List IGrid)} {igrids : List IGrid}
    (hinv : Inv c steps tr) (hp : Proposal c igrids) (hlen : steps.length < c.maxEvals ∨ steps.length + igrids.length ≤ c.maxEvals + 3 ^ c.mn.length) :
    TInv c (tr ++ [freshOf igrids steps]) := by
  have hsub := freshOf_sublist igrids steps
  have ht := hinv.tinv
  refine ⟨?_, ?_, ?_⟩
  · intro g hg
    rw [flatten_snoc, List.mem_append] at hg
    rcases hg with hg | hg
    · exact ht.grid g hg
    · exact hp.grid g (hsub.subset hg)
  · rw [flatten_snoc, List.nodup_append]
    refine ⟨ht.nodup, hp.nodup.sublist hsub, ?_⟩
    intro a ha b hb hab
    subst hab
    exact (mem_freshOf.mp hb).2 (hinv.trace.symm.subset ha)
  · rw [flatten_snoc, List.length_append]
    have h1 := hinv.trace.length_eq
    rw [List.length_map] at h1
    have h2 := hsub.length_le
    have h3 := hp.card
    rcases hlen with h | h <;> omega

/-- `evaluate` keeps the invariant and strictly extends the steps -/
theorem inv_evaluate {c : Cfg α} (hs : SortSpec c.sortFn) {steps steps' : List (Step α)} {tr : List (List IGrid)}
    {igrids batch : List IGrid} (hinv : Inv c steps tr) (hp : Proposal c igrids)
    (hlen : steps.length < c.maxEvals ∨ steps.length + igrids.length ≤ c.maxEvals + 3 ^ c.mn.length)
    (h : evaluate c.fin c.f c.sortFn igrids steps = .ok steps' batch) :
    Inv c steps' (tr ++ [batch]) ∧ steps.length < steps'.length := by
  obtain ⟨hb, hne, hfin, hst⟩ := evaluate_ok h
  obtain ⟨hperm, hsorted⟩ := hs (steps ++ batch.map fun g => ⟨g, c.f g⟩)
  rw [← hst] at hperm hsorted
  have hsub : batch.Sublist igrids := hb ▸ freshOf_sublist igrids steps
  have hmem : ∀ s, s ∈ steps' ↔ s ∈ steps ∨ ∃ g ∈ batch, s = ⟨g, c.f g⟩ := by
    intro s
    rw [hperm.mem_iff, List.mem_append, List.mem_map]
    constructor
    · rintro (h | ⟨g, hg, rfl⟩)
      · exact Or.inl h
      · exact Or.inr ⟨g, hg, rfl⟩
    · rintro (h | ⟨g, hg, rfl⟩)
      · exact Or.inl h
      · exact Or.inr ⟨g, hg, rfl⟩
  have hmap : (steps'.map (·.igrid)).Perm (steps.map (·.igrid) ++ batch) := by
    have := hperm.map (·.igrid)
    rw [List.map_append, List.map_map] at this
    have hid : ((fun (x : Step α) => x.igrid) ∘ fun g => (⟨g, c.f g⟩ : Step α)) = id := by
      funext g; rfl
    rw [hid, List.map_id] at this
    exact this
  have hlen' : steps'.length = steps.length + batch.length := by
    have := hperm.length_eq
    rw [List.length_append, List.length_map] at this
    exact this
  refine ⟨⟨?_, ?_, hsorted, ?_, ?_, ?_⟩, ?_⟩
  · intro s hs'
    rcases (hmem s).mp hs' with h1 | ⟨g, hg, rfl⟩
    · exact hinv.grid s h1
    · exact hp.grid g (hsub.subset hg)
  · rw [hmap.nodup_iff, List.nodup_append]
    refine ⟨hinv.nodup, hp.nodup.sublist hsub, ?_⟩
    intro a ha b hb' hab
    subst hab
    rw [hb] at hb'
    exact (mem_freshOf.mp hb').2 ha
  · intro s hs'
    rcases (hmem s).mp hs' with h1 | ⟨g, hg, rfl⟩
    · exact hinv.vals s h1
    · exact ⟨hfin g hg, rfl⟩
  · have h2 := hsub.length_le
    have h3 := hp.card
    rcases hlen with h | h <;> omega
  · rw [flatten_snoc]
    exact hmap.trans (hinv.trace.append (List.Perm.refl _))
  · have : 0 < batch.length := List.length_pos_iff.mpr hne
    omega

/-! ### one loop iteration, the loops -/

def phaseRank : Phase → Nat
  | .coarse _ => 3
  | .main => 2
  | .done => 1

/-- radius of the coarse loop is never 0 (it starts at 2 and doubles) -/
def PhaseOk : Phase → Prop
  | .coarse r => r ≠ 0
  | _ => True

/-- how much fuel a state still needs at most -/
def measure (c : Cfg α) (st : St α) : Nat := (gridCard c.mn c.mx - st.steps.length) + phaseRank st.phase

theorem inv_length_le_gridCard {c : Cfg α} {steps : List (Step α)} {tr : List (List IGrid)} (h : Inv c steps tr) :
    steps.length ≤ gridCard c.mn c.mx := by
  have := length_le_gridCard c.mn c.mx (steps.map (·.igrid)) h.nodup (by
    intro g hg
    obtain ⟨s, hs, rfl⟩ := List.mem_map.mp hg
    exact h.grid s hs)
  rwa [List.length_map] at this

omit [LinearOrder α] in
theorem addBatch_nil (tr : List (List IGrid)) : addBatch tr [] = tr := by simp [addBatch]

omit [LinearOrder α] in
theorem addBatch_ne_nil (tr : List (List IGrid)) {b : List IGrid} (h : b ≠ []) : addBatch tr b = tr ++ [b] := by
  cases b with
  | nil => exact absurd rfl h
  | cons x xs => simp [addBatch]

/-- a `.next` iteration keeps the invariant and lowers the measure (unless the tuner is done) -/
theorem step_next {c : Cfg α} (hs : SortSpec c.sortFn) {st st' : St α} {tr : List (List IGrid)} {b : List IGrid}
    (hinv : Inv c st.steps tr) (hph : PhaseOk st.phase) (hnd : st.phase ≠ .done) (h : step c st = .next st' b) :
    Inv c st'.steps (addBatch tr b) ∧ PhaseOk st'.phase ∧ measure c st' < measure c st := by
  obtain ⟨steps, phase⟩ := st
  simp only at hinv hph hnd
  cases phase with
  | done => exact absurd rfl hnd
  | coarse r =>
    simp only [step] at h
    cases steps with
    | nil =>
      simp only at h
      cases h
      exact ⟨by simpa [addBatch_nil] using hinv, trivial, by simp [measure, phaseRank]⟩
    | cons s rest =>
      simp only at h
      split at h
      · rename_i hlt
        split at h
        · cases h
          exact ⟨by simpa [addBatch_nil] using hinv, trivial, by simp [measure, phaseRank]⟩
        · rename_i steps' batch hev
          simp only [Out.next.injEq] at h
          obtain ⟨h1, h2⟩ := h
          subst h1 h2
          have hp := proposal_localSearch c s.igrid r hph
          have hlt' : (s :: rest).length < c.maxEvals := by
            have : c.maxEvals / 2 ≤ c.maxEvals := Nat.div_le_self _ _
            omega
          obtain ⟨hinv', hgrow⟩ := inv_evaluate hs hinv hp (Or.inl hlt') hev
          have hne : batch ≠ [] := (evaluate_ok hev).2.1
          rw [addBatch_ne_nil tr hne]
          refine ⟨hinv', ?_, ?_⟩
          · show r * 2 ≠ 0
            have : r ≠ 0 := hph
            omega
          · have := inv_length_le_gridCard hinv'
            simp only [measure, phaseRank]
            omega
        · cases h
      · cases h
        exact ⟨by simpa [addBatch_nil] using hinv, trivial, by simp [measure, phaseRank]⟩
  | main =>
    simp only [step] at h
    cases steps with
    | nil =>
      simp only at h
      cases h
      exact ⟨by simpa [addBatch_nil] using hinv, trivial, by simp [measure, phaseRank]⟩
    | cons s rest =>
      simp only at h
      split at h
      · rename_i hlt
        split at h
        · cases h
        · rename_i centre hc
          split at h
          · cases h
            exact ⟨by simpa [addBatch_nil] using hinv, trivial, by simp [measure, phaseRank]⟩
          · rename_i steps' batch hev
            simp only [Out.next.injEq] at h
            obtain ⟨h1, h2⟩ := h
            subst h1 h2
            have hp := proposal_localSearch c centre 1 (by decide)
            obtain ⟨hinv', hgrow⟩ := inv_evaluate hs hinv hp (Or.inl hlt) hev
            have hne : batch ≠ [] := (evaluate_ok hev).2.1
            rw [addBatch_ne_nil tr hne]
            refine ⟨hinv', trivial, ?_⟩
            have := inv_length_le_gridCard hinv'
            simp only [measure, phaseRank]
            omega
          · cases h
      · cases h
        exact ⟨by simpa [addBatch_nil] using hinv, trivial, by simp [measure, phaseRank]⟩

/-- a `.bad` iteration: the batch that was handed over keeps the trace invariant and contains a non-finite value -/
theorem step_bad {c : Cfg α} {st : St α} {tr : List (List IGrid)} {b : List IGrid}
    (hinv : Inv c st.steps tr) (hph : PhaseOk st.phase) (h : step c st = .bad b) :
    TInv c (tr ++ [b]) ∧ ∃ g ∈ b, c.fin (c.f g) = false := by
  obtain ⟨steps, phase⟩ := st
  simp only at hinv hph
  cases phase with
  | done => simp [step] at h
  | coarse r =>
    simp only [step] at h
    cases steps with
    | nil => simp at h
    | cons s rest =>
      simp only at h
      split at h
      · rename_i hlt
        split at h
        · cases h
        · cases h
        · rename_i batch hev
          simp only [Out.bad.injEq] at h
          subst h
          have hp := proposal_localSearch c s.igrid r hph
          have hlt' : (s :: rest).length < c.maxEvals := by
            have : c.maxEvals / 2 ≤ c.maxEvals := Nat.div_le_self _ _
            omega
          obtain ⟨hb, hbad⟩ := evaluate_bad hev
          exact ⟨hb ▸ tinv_snoc hinv hp (Or.inl hlt'), hbad⟩
      · cases h
  | main =>
    simp only [step] at h
    cases steps with
    | nil => simp at h
    | cons s rest =>
      simp only at h
      split at h
      · rename_i hlt
        split at h
        · cases h
        · rename_i centre hc
          split at h
          · cases h
          · cases h
          · rename_i batch hev
            simp only [Out.bad.injEq] at h
            subst h
            have hp := proposal_localSearch c centre 1 (by decide)
            obtain ⟨hb, hbad⟩ := evaluate_bad hev
            exact ⟨hb ▸ tinv_snoc hinv hp (Or.inl hlt), hbad⟩
      · cases h

/-- the trace of a result -/
def Res.trace : Res α → List (List IGrid)
  | .ok _ tr => tr
  | .bad tr => tr
  | .fail tr => tr
  | .fuel => []
  | .noSpaces => []

/-- everything the theorems say about a finished run -/
structure Good (c : Cfg α) (res : Res α) : Prop where
  ok : ∀ steps tr, res = .ok steps tr → Inv c steps tr
  tinv : TInv c res.trace
  bad : ∀ tr, res = .bad tr → ∃ g ∈ tr.flatten, c.fin (c.f g) = false
  noSpaces : res ≠ .noSpaces

omit [LinearOrder α] in
theorem tinv_nil (c : Cfg α) : TInv c [] := ⟨by simp, by simp, by simp⟩

theorem run_good {c : Cfg α} (hs : SortSpec c.sortFn) : ∀ (n : Nat) (st : St α) (tr : List (List IGrid)),
    Inv c st.steps tr → PhaseOk st.phase → Good c (run c n st tr)
  | 0, st, tr, _, _ => by
    simp only [run]
    exact ⟨(by intro _ _ h; cases h), tinv_nil c, (by intro _ h; cases h), (by intro h; cases h)⟩
  | n + 1, st, tr, hinv, hph => by
    by_cases hd : st.phase = .done
    · have : run c (n + 1) st tr = .ok st.steps tr := by
        simp [run, hd]
      rw [this]
      exact ⟨(by intro _ _ h; cases h; exact hinv), hinv.tinv, (by intro _ h; cases h), (by intro h; cases h)⟩
    · cases hstep : step c st with
      | next st' b =>
        have hrun : run c (n + 1) st tr = run c n st' (addBatch tr b) := by
          cases hp : st.phase with
          | done => exact absurd hp hd
          | coarse r => simp [run, hp, hstep]
          | main => simp [run, hp, hstep]
        rw [hrun]
        obtain ⟨hinv', hph', _⟩ := step_next hs hinv hph hd hstep
        exact run_good hs n st' _ hinv' hph'
      | bad b =>
        have hrun : run c (n + 1) st tr = .bad (tr ++ [b]) := by
          cases hp : st.phase with
          | done => exact absurd hp hd
          | coarse r => simp [run, hp, hstep]
          | main => simp [run, hp, hstep]
        rw [hrun]
        obtain ⟨ht, g, hg, hbad⟩ := step_bad hinv hph hstep
        refine ⟨(by intro _ _ h; cases h), ht, ?_, (by intro h; cases h)⟩
        intro tr' h
        cases h
        exact ⟨g, by rw [flatten_snoc]; exact List.mem_append_right _ hg, hbad⟩
      | fail =>
        have hrun : run c (n + 1) st tr = .fail tr := by
          cases hp : st.phase with
          | done => exact absurd hp hd
          | coarse r => simp [run, hp, hstep]
          | main => simp [run, hp, hstep]
        rw [hrun]
        exact ⟨(by intro _ _ h; cases h), hinv.tinv, (by intro _ h; cases h), (by intro h; cases h)⟩

/-- enough fuel: the run never stops for lack of fuel -/
theorem run_fuel {c : Cfg α} (hs : SortSpec c.sortFn) : ∀ (n : Nat) (st : St α) (tr : List (List IGrid)),
    Inv c st.steps tr → PhaseOk st.phase → measure c st ≤ n → run c n st tr ≠ .fuel
  | 0, st, tr, _, _, hm => by
    exfalso
    have : 1 ≤ phaseRank st.phase := by cases st.phase <;> simp [phaseRank]
    simp only [measure] at hm
    omega
  | n + 1, st, tr, hinv, hph, hm => by
    by_cases hd : st.phase = .done
    · simp [run, hd]
    · cases hstep : step c st with
      | next st' b =>
        have hrun : run c (n + 1) st tr = run c n st' (addBatch tr b) := by
          cases hp : st.phase with
          | done => exact absurd hp hd
          | coarse r => simp [run, hp, hstep]
          | main => simp [run, hp, hstep]
        rw [hrun]
        obtain ⟨hinv', hph', hlt⟩ := step_next hs hinv hph hd hstep
        exact run_fuel hs n st' _ hinv' hph' (by omega)
      | bad b =>
        cases hp : st.phase with
        | done => exact absurd hp hd
        | coarse r => simp [run, hp, hstep]
        | main => simp [run, hp, hstep]
      | fail =>
        cases hp : st.phase with
        | done => exact absurd hp hd
        | coarse r => simp [run, hp, hstep]
        | main => simp [run, hp, hstep]

theorem inv_nil (c : Cfg α) : Inv c [] [] :=
  ⟨by simp, by simp, by simp, by simp, by simp, by simp⟩

omit [LinearOrder α] in
theorem proposal_single (c : Cfg α) (avg : IGrid) (havg : inGrid c.mn c.mx avg = true) : Proposal c [avg] := by
  refine ⟨by simpa using havg, by simp, ?_⟩
  simp only [List.length_singleton]
  exact Nat.pow_pos (by decide)


/-- `tuner_t::optimize`: the initial evaluation of the average grid point, then the loops -/
theorem optimize_good {c : Cfg α} (hs : SortSpec c.sortFn) (avg : IGrid) (havg : inGrid c.mn c.mx avg = true)
    (fuel : Nat) : Good c (optimize c avg fuel) := by
  unfold optimize
  have hp := proposal_single c avg havg
  have hlen : ([] : List (Step α)).length < c.maxEvals ∨
      ([] : List (Step α)).length + [avg].length ≤ c.maxEvals + 3 ^ c.mn.length := by
    right
    have : 1 ≤ 3 ^ c.mn.length := Nat.pow_pos (by decide)
    simp only [List.length_nil, List.length_singleton]
    omega
  split
  · exact ⟨(by intro _ _ h; cases h; exact inv_nil c), tinv_nil c, (by intro _ h; cases h), (by intro h; cases h)⟩
  · rename_i b hev
    obtain ⟨hb, g, hg, hbad⟩ := evaluate_bad hev
    have ht : TInv c ([] ++ [freshOf [avg] ([] : List (Step α))]) := tinv_snoc (inv_nil c) hp hlen
    rw [← hb] at ht
    refine ⟨(by intro _ _ h; cases h), (by simpa [Res.trace] using ht), ?_, (by intro h; cases h)⟩
    intro tr h
    cases h
    exact ⟨g, by simpa using hg, hbad⟩
  · rename_i steps b hev
    obtain ⟨hinv, _⟩ := inv_evaluate (tr := []) hs (inv_nil c) hp hlen hev
    have hinv' : Inv c steps [b] := by simpa using hinv
    exact run_good hs fuel ⟨steps, .coarse 2⟩ _ hinv' (by show (2 : Int) ≠ 0; decide)

theorem optimize_fuel {c : Cfg α} (hs : SortSpec c.sortFn) (avg : IGrid) (havg : inGrid c.mn c.mx avg = true)
    (fuel : Nat) (hfuel : gridCard c.mn c.mx + 2 ≤ fuel) : optimize c avg fuel ≠ .fuel := by
  unfold optimize
  have hp := proposal_single c avg havg
  have hlen : ([] : List (Step α)).length < c.maxEvals ∨
      ([] : List (Step α)).length + [avg].length ≤ c.maxEvals + 3 ^ c.mn.length := by
    right
    have : 1 ≤ 3 ^ c.mn.length := Nat.pow_pos (by decide)
    simp only [List.length_nil, List.length_singleton]
    omega
  split
  · intro h; cases h
  · intro h; cases h
  · rename_i steps b hev
    obtain ⟨hinv, hgrow⟩ := inv_evaluate (tr := []) hs (inv_nil c) hp hlen hev
    have hinv' : Inv c steps [b] := by simpa using hinv
    refine run_fuel hs fuel ⟨steps, .coarse 2⟩ _ hinv' (by show (2 : Int) ≠ 0; decide) ?_
    have h1 := inv_length_le_gridCard hinv'
    simp only [List.length_nil] at hgrow
    simp only [measure, phaseRank]
    omega

omit [LinearOrder α] in
/-- the loops only ever append to the trace -/
theorem run_trace_prefix (c : Cfg α) : ∀ (n : Nat) (st : St α) (tr : List (List IGrid)) (steps : List (Step α))
    (tr' : List (List IGrid)), run c n st tr = .ok steps tr' → ∃ suffix, tr' = tr ++ suffix
  | 0, _, _, _, _, h => by simp [run] at h
  | n + 1, st, tr, steps, tr', h => by
    cases hp : st.phase with
    | done =>
      simp only [run, hp, Res.ok.injEq] at h
      exact ⟨[], by simp [h.2]⟩
    | coarse r =>
      simp only [run, hp] at h
      split at h
      · rename_i st' b _
        obtain ⟨suffix, hsuf⟩ := run_trace_prefix c n st' _ steps tr' h
        refine ⟨(if b.isEmpty then [] else [b]) ++ suffix, ?_⟩
        rw [hsuf]
        unfold addBatch
        split <;> simp
      · cases h
      · cases h
    | main =>
      simp only [run, hp] at h
      split at h
      · rename_i st' b _
        obtain ⟨suffix, hsuf⟩ := run_trace_prefix c n st' _ steps tr' h
        refine ⟨(if b.isEmpty then [] else [b]) ++ suffix, ?_⟩
        rw [hsuf]
        unfold addBatch
        split <;> simp
      · cases h
      · cases h

omit [LinearOrder α] in
/-- a successful `optimize` has evaluated the average grid point first -/
theorem optimize_first_batch {c : Cfg α} (avg : IGrid) (fuel : Nat) {steps : List (Step α)} {tr : List (List IGrid)}
    (h : optimize c avg fuel = .ok steps tr) : (steps = [] ∧ tr = []) ∨ ∃ suffix, tr = [avg] :: suffix := by
  unfold optimize at h
  split at h
  · cases h
    exact Or.inl ⟨rfl, rfl⟩
  · cases h
  · rename_i steps0 b hev
    obtain ⟨hb, _, _, _⟩ := evaluate_ok hev
    obtain ⟨suffix, hsuf⟩ := run_trace_prefix c fuel _ _ _ _ h
    right
    refine ⟨suffix, ?_⟩
    rw [hsuf, hb]
    simp [freshOf]

theorem insertStep_perm (x : Step α) : ∀ l : List (Step α), (insertStep x l).Perm (x :: l)
  | [] => List.Perm.refl _
  | y :: ys => by
    unfold insertStep
    split
    · exact List.Perm.refl _
    · exact ((insertStep_perm x ys).cons y).trans (List.Perm.swap x y ys)

theorem insertStep_sorted (x : Step α) : ∀ l : List (Step α), l.Pairwise (fun a b => ¬ b.value < a.value) →
    (insertStep x l).Pairwise (fun a b => ¬ b.value < a.value)
  | [], _ => by simp [insertStep]
  | y :: ys, h => by
    unfold insertStep
    obtain ⟨hy, hys⟩ := List.pairwise_cons.mp h
    split
    · rename_i hlt
      refine List.pairwise_cons.mpr ⟨?_, h⟩
      intro z hz
      rcases List.mem_cons.mp hz with rfl | hz'
      · exact not_lt.mpr (le_of_lt hlt)
      · exact not_lt.mpr (le_trans (le_of_lt hlt) (not_lt.mp (hy z hz')))
    · rename_i hnlt
      refine List.pairwise_cons.mpr ⟨?_, insertStep_sorted x ys hys⟩
      intro z hz
      rcases List.mem_cons.mp ((insertStep_perm x ys).subset hz) with rfl | hz'
      · exact hnlt
      · exact hy z hz'

theorem insertionSort_sortSpec : SortSpec (insertionSort : List (Step α) → List (Step α)) := by
  intro l
  induction l with
  | nil => exact ⟨List.Perm.refl _, List.Pairwise.nil⟩
  | cons x xs ih =>
    exact ⟨(insertStep_perm x _).trans (ih.1.cons x), insertStep_sorted x _ ih.2⟩

end inv

end NanoVerif.Tuner
