import NanoVerif.Model.TensorView
/-!
  C16 — helper lemmas for the non-owning tensors of `Model/TensorView.lean`: overwriting a range of a buffer,
  the row loop of `indexed`, and the integral commuting with additive maps. Core Lean only.
-/
namespace NanoVerif.Tensor

/-! ### `splice`: overwrite `buf[off, off + |vals|)` -/

theorem splice_length {α} (buf : List α) (off : Nat) (vals : List α) (h : off + vals.length ≤ buf.length) :
    (splice buf off vals).length = buf.length := by
  simp only [splice, List.length_append, List.length_take, List.length_drop]
  omega

theorem splice_get_inside {α} (buf : List α) (off : Nat) (vals : List α) (h : off ≤ buf.length) (j : Nat)
    (hj : j < vals.length) : (splice buf off vals)[off + j]? = vals[j]? := by
  have hA : (buf.take off).length = off := by rw [List.length_take]; omega
  unfold splice
  rw [List.append_assoc, List.getElem?_append_right (by omega), hA, Nat.add_sub_cancel_left,
    List.getElem?_append_left hj]

theorem splice_get_before {α} (buf : List α) (off : Nat) (vals : List α) (h : off ≤ buf.length) (o : Nat)
    (ho : o < off) : (splice buf off vals)[o]? = buf[o]? := by
  have hA : (buf.take off).length = off := by rw [List.length_take]; omega
  unfold splice
  rw [List.append_assoc, List.getElem?_append_left (by omega), List.getElem?_take, if_pos ho]

theorem splice_get_after {α} (buf : List α) (off : Nat) (vals : List α) (h : off ≤ buf.length) (o : Nat)
    (ho : off + vals.length ≤ o) : (splice buf off vals)[o]? = buf[o]? := by
  have hA : (buf.take off).length = off := by rw [List.length_take]; omega
  unfold splice
  rw [List.append_assoc, List.getElem?_append_right (by omega), List.getElem?_append_right (by omega),
    List.getElem?_drop, hA]
  congr 1
  omega

/-- the first `off + |vals|` elements after the overwrite: the untouched prefix, then the new values -/
theorem splice_take {α} (buf : List α) (off : Nat) (vals : List α) (h : off ≤ buf.length) :
    (splice buf off vals).take (off + vals.length) = buf.take off ++ vals := by
  unfold splice
  apply List.take_left'
  rw [List.length_append, List.length_take]
  omega

/-! ### the row loop of `indexed` -/

/-- after the loop the output holds, from sub-tensor `k` on, the selected sub-tensors of the source in the order
    of the indices; what lies before sub-tensor `k` is untouched -/
theorem gatherRows_spec {α} (n : Nat) (src : List α) : ∀ (I : List Nat) (k : Nat) (out : List α),
    out.length = (k + I.length) * n → (∀ i ∈ I, ((src.drop (i * n)).take n).length = n) →
    gatherRows n src I k out = out.take (k * n) ++ I.flatMap (fun i => (src.drop (i * n)).take n)
  | [], k, out, hl, _ => by
    simp only [List.length_nil, Nat.add_zero] at hl
    simp [gatherRows, List.take_of_length_le (Nat.le_of_eq hl)]
  | i :: is, k, out, hl, hrow => by
    have hr := hrow i (by simp)
    have hkn : k * n + n ≤ out.length := by
      rw [hl, List.length_cons, Nat.add_mul, Nat.add_mul, Nat.one_mul]; omega
    have hl' : (splice out (k * n) ((src.drop (i * n)).take n)).length = (k + 1 + is.length) * n := by
      rw [splice_length _ _ _ (by rw [hr]; exact hkn), hl, List.length_cons]
      congr 1; omega
    have htake : (splice out (k * n) ((src.drop (i * n)).take n)).take ((k + 1) * n)
        = out.take (k * n) ++ (src.drop (i * n)).take n := by
      have := splice_take out (k * n) ((src.drop (i * n)).take n) (by omega)
      rw [hr] at this
      rw [Nat.add_mul, Nat.one_mul]
      exact this
    rw [gatherRows, gatherRows_spec n src is (k + 1) _ hl' (fun x hx => hrow x (by simp [hx])), htake]
    simp [List.flatMap_cons, List.append_assoc]

/-- a sub-tensor along the first axis of a well-formed buffer has the inner size -/
theorem row_length {α} (src : List α) (d n i : Nat) (hl : src.length = d * n) (hi : i < d) :
    ((src.drop (i * n)).take n).length = n := by
  rw [List.length_take, List.length_drop, hl]
  have : i * n + n ≤ d * n := by
    calc i * n + n = (i + 1) * n := by rw [Nat.add_mul, Nat.one_mul]
      _ ≤ d * n := Nat.mul_le_mul_right _ hi
  omega

theorem resizeBuf_length {α} (junk : α) (buf : List α) (n : Nat) : (resizeBuf junk buf n).length = n := by
  unfold resizeBuf
  split
  · assumption
  · simp

/-! ### the integral commutes with every map that preserves `+` (conversion to a wider type, reduction modulo `2^w`) -/

section hom
variable {α β : Type} [Add α] [Add β] (h : α → β) (hadd : ∀ a b, h (a + b) = h a + h b)
include hadd

theorem prefixSums_map : ∀ (xs : List α) (acc : α),
    prefixSums (h acc) (xs.map h) = (prefixSums acc xs).map h
  | [], _ => by simp [prefixSums]
  | x :: xs, acc => by
    simp only [List.map_cons, prefixSums]
    rw [← hadd, prefixSums_map xs (acc + x)]

theorem prefixSums1_map : ∀ (xs : List α), prefixSums1 (xs.map h) = (prefixSums1 xs).map h
  | [] => by simp [prefixSums1]
  | x :: xs => by simp only [List.map_cons, prefixSums1]; rw [prefixSums_map h hadd xs x]

theorem zipAdd_map : ∀ (xs ys : List α), zipAdd (xs.map h) (ys.map h) = (zipAdd xs ys).map h
  | [], _ => by simp [zipAdd]
  | _ :: _, [] => by simp [zipAdd]
  | x :: xs, y :: ys => by simp only [List.map_cons, zipAdd]; rw [← hadd, zipAdd_map xs ys]

theorem accRows_map : ∀ (rs : List (List α)) (prev : List α),
    accRows (prev.map h) (rs.map (List.map h)) = (accRows prev rs).map (List.map h)
  | [], _ => by simp [accRows]
  | r :: rs, prev => by
    simp only [List.map_cons, accRows]
    rw [zipAdd_map h hadd r prev, accRows_map rs (zipAdd r prev)]

theorem accRows1_map : ∀ (rs : List (List α)), accRows1 (rs.map (List.map h)) = (accRows1 rs).map (List.map h)
  | [] => by simp [accRows1]
  | r :: rs => by simp only [List.map_cons, accRows1]; rw [accRows_map h hadd rs r]

omit hadd [Add α] [Add β] in
theorem rows_map (n : Nat) : ∀ (k : Nat) (xs : List α), rows n k (xs.map h) = (rows n k xs).map (List.map h)
  | 0, _ => by simp [rows]
  | k + 1, xs => by
    simp only [rows, List.map_cons]
    rw [← List.map_drop, rows_map n k (xs.drop n), List.map_take]

/-- **the integral commutes with additive maps**: converting (or wrapping) every input first and integrating in
    the target arithmetic gives the converted (wrapped) exact integral -/
theorem integralData_hom : ∀ (dims : List Nat) (xs : List α),
    integralData dims (xs.map h) = (integralData dims xs).map h
  | [], xs => by simp [integralData]
  | [_], xs => by simp only [integralData]; exact prefixSums1_map h hadd xs
  | d :: d2 :: ds, xs => by
    simp only [integralData]
    rw [rows_map h, List.map_map]
    have hpt : (rows (size (d2 :: ds)) d xs).map (integralData (d2 :: ds) ∘ List.map h)
        = ((rows (size (d2 :: ds)) d xs).map (integralData (d2 :: ds))).map (List.map h) := by
      rw [List.map_map]
      apply List.map_congr_left
      intro r _
      exact integralData_hom (d2 :: ds) r
    rw [hpt, accRows1_map h hadd, List.map_flatten]

end hom

end NanoVerif.Tensor
