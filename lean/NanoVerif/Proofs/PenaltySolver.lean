import NanoVerif.Model.PenaltySolver
import NanoVerif.Proofs.AugLag
import Mathlib.Data.List.Induction
/-!
  C05 — the outer loop of the two exterior-penalty solvers (`penStep`, `penLoop` of `Model/PenaltySolver.lean`) in exact
  arithmetic: the well-formedness of the ghost log of inner-solver calls (`Sched`), the invariant of the running loop
  (`PRun`) and what holds of the state the loop returns (`PFin`). The inner solver is universally quantified.
-/
namespace NanoVerif.Penalty
open NanoVerif.Constraint
set_option linter.unusedSectionVars false

variable {α : Type} [Field α] [LinearOrder α] [IsStrictOrderedRing α]

/-! ### the ghost log -/

/-- the point the outer loop holds after a sequence of inner-solver calls: the last valid answer, `x0` when none -/
def lastValid (x0 : List α) (calls : List (PCall α)) : List α :=
  calls.foldl (fun x c => if c.iterOk then c.cx else x) x0

theorem lastValid_nil (x0 : List α) : lastValid x0 [] = x0 := rfl

theorem lastValid_snoc (x0 : List α) (l : List (PCall α)) (c : PCall α) :
    lastValid x0 (l ++ [c]) = if c.iterOk then c.cx else lastValid x0 l := by
  simp [lastValid, List.foldl_append]

/-- the last valid answer is `x0` or the point of one of the valid answers -/
theorem lastValid_mem (x0 : List α) (l : List (PCall α)) :
    lastValid x0 l = x0 ∨ ∃ c ∈ l, c.iterOk = true ∧ lastValid x0 l = c.cx := by
  induction l using List.reverseRecOn with
  | nil => exact Or.inl rfl
  | append_singleton l c ih =>
    rw [lastValid_snoc]
    cases hc : c.iterOk
    · simp only [Bool.false_eq_true, if_false]
      rcases ih with h | ⟨d, hd, hok, he⟩
      · exact Or.inl h
      · exact Or.inr ⟨d, by simp [hd], hok, he⟩
    · simp only [if_true]
      exact Or.inr ⟨c, by simp, hc, rfl⟩

/-- a call after which the loop goes on: the inner solver failed, or it succeeded, the iterate still moved and the new
    `bstate` is valid -/
def NonStop (c : PCall α) : Prop := c.iterOk = true → c.xconv = false ∧ c.bvalid = true

/-- well-formedness of the log, call by call (`l` = the calls made before `c`): the penalty parameter passed is
    `penalty0 * eta^k`, the inner precision `epsilon0 * epsilonK^(valid answers so far)`, the starting point the last valid
    answer; the record is the oracle's answer in a loop state carrying exactly these values; `xconv` is the stopping test
    of `nano::converged` between the starting point and the answer -/
inductive Sched (p : PParams α) (penalty0 eps0 : α) (x0 : List α) (inner : Nat → PState α → PAnswer α) :
    List (PCall α) → Prop
  | nil : Sched p penalty0 eps0 x0 inner []
  | snoc (l : List (PCall α)) (c : PCall α) : Sched p penalty0 eps0 x0 inner l →
      c.penalty = penalty0 * p.eta ^ l.length →
      c.innerEps = eps0 * p.epsK ^ (l.countP (fun d => d.iterOk)) →
      c.start = lastValid x0 l →
      c.xconv = xConverged c.start c.cx p.eps →
      (∃ s : PState α, s.iters = l.length ∧ s.penalty = c.penalty ∧ s.innerEps = c.innerEps ∧ s.best.x = c.start ∧
        inner l.length s = ⟨c.cx, c.iterOk, c.bvalid⟩) →
      Sched p penalty0 eps0 x0 inner (l ++ [c])

/-- what `Sched` says of one call of the log -/
structure CallOk (p : PParams α) (penalty0 eps0 : α) (x0 : List α) (inner : Nat → PState α → PAnswer α)
    (l : List (PCall α)) (c : PCall α) : Prop where
  penalty_eq : c.penalty = penalty0 * p.eta ^ l.length
  innerEps_eq : c.innerEps = eps0 * p.epsK ^ (l.countP (fun d => d.iterOk))
  start_eq : c.start = lastValid x0 l
  xconv_eq : c.xconv = xConverged c.start c.cx p.eps
  answer : ∃ s : PState α, s.iters = l.length ∧ s.penalty = c.penalty ∧ s.innerEps = c.innerEps ∧ s.best.x = c.start ∧
    inner l.length s = ⟨c.cx, c.iterOk, c.bvalid⟩

/-- every call of a well-formed log, with the calls before it -/
theorem Sched.call {p : PParams α} {penalty0 eps0 : α} {x0 : List α} {inner : Nat → PState α → PAnswer α}
    {calls : List (PCall α)} (h : Sched p penalty0 eps0 x0 inner calls) :
    ∀ (l1 : List (PCall α)) (c : PCall α) (l2 : List (PCall α)), calls = l1 ++ c :: l2 →
      CallOk p penalty0 eps0 x0 inner l1 c := by
  induction h with
  | nil => intro l1 c l2 h; simp at h
  | snoc l c' hl h1 h2 h3 h4 h5 ih =>
    intro l1 c l2 heq
    rcases (by simpa using l2.eq_nil_or_concat : l2 = [] ∨ ∃ L b, l2 = L ++ [b]) with h0 | ⟨L, b, hL⟩
    · subst h0
      have := List.append_inj' heq (by simp)
      obtain ⟨e1, e2⟩ := this
      have e3 : c' = c := by simpa using e2
      subst e1; subst e3
      exact ⟨h1, h2, h3, h4, h5⟩
    · subst hL
      have heq' : l ++ [c'] = (l1 ++ c :: L) ++ [b] := by rw [heq]; simp
      have := List.append_inj' heq' (by simp)
      exact ih l1 c L this.1

/-! ### one step -/

/-- the ghost record `penStep` appends -/
def callOf (p : PParams α) (s : PState α) (a : PAnswer α) : PCall α :=
  ⟨s.penalty, s.innerEps, s.best.x, a.cx, a.iterOk, a.bvalid, xConverged s.best.x a.cx p.eps⟩

@[simp] theorem callOf_iterOk (p : PParams α) (s : PState α) (a : PAnswer α) : (callOf p s a).iterOk = a.iterOk := rfl
@[simp] theorem callOf_bvalid (p : PParams α) (s : PState α) (a : PAnswer α) : (callOf p s a).bvalid = a.bvalid := rfl
@[simp] theorem callOf_cx (p : PParams α) (s : PState α) (a : PAnswer α) : (callOf p s a).cx = a.cx := rfl
@[simp] theorem callOf_xconv (p : PParams α) (s : PState α) (a : PAnswer α) :
    (callOf p s a).xconv = xConverged s.best.x a.cx p.eps := rfl
@[simp] theorem callOf_penalty (p : PParams α) (s : PState α) (a : PAnswer α) : (callOf p s a).penalty = s.penalty := rfl

theorem penStep_fail (cs : List (C α)) (p : PParams α) (s : PState α) (a : PAnswer α) (h : a.iterOk = false) :
    penStep cs p s a = ({ s with penalty := s.penalty * p.eta, iters := s.iters + 1, calls := s.calls ++ [callOf p s a] }, false) := by
  simp [penStep, callOf, h]

theorem penStep_stop (cs : List (C α)) (p : PParams α) (s : PState α) (a : PAnswer α) (h : a.iterOk = true)
    (h2 : (xConverged s.best.x a.cx p.eps || !a.bvalid) = true) :
    penStep cs p s a = ({ s with best := mkState cs a.cx, iters := s.iters + 1, status := if xConverged s.best.x a.cx p.eps then 1 else 2, calls := s.calls ++ [callOf p s a] }, true) := by
  simp only [penStep, callOf, h, Bool.not_true, Bool.false_eq_true, if_false, h2, if_true]

theorem penStep_go (cs : List (C α)) (p : PParams α) (s : PState α) (a : PAnswer α) (h : a.iterOk = true)
    (h2 : (xConverged s.best.x a.cx p.eps || !a.bvalid) = false) :
    penStep cs p s a = ({ best := mkState cs a.cx, penalty := s.penalty * p.eta, innerEps := s.innerEps * p.epsK, iters := s.iters + 1, status := s.status, calls := s.calls ++ [callOf p s a] }, false) := by
  simp only [penStep, callOf, h, Bool.not_true, Bool.false_eq_true, if_false, h2]

/-! ### the invariant of the running loop and the description of the returned state -/

/-- invariant of the loop while it runs (`status` still the default `max_iters`) -/
structure PRun (cs : List (C α)) (p : PParams α) (penalty0 eps0 : α) (x0 : List α)
    (inner : Nat → PState α → PAnswer α) (s : PState α) : Prop where
  status_eq : s.status = 0
  calls_len : s.calls.length = s.iters
  sched : Sched p penalty0 eps0 x0 inner s.calls
  best_eq : s.best = mkState cs (lastValid x0 s.calls)
  penalty_eq : s.penalty = penalty0 * p.eta ^ s.iters
  innerEps_eq : s.innerEps = eps0 * p.epsK ^ (s.calls.countP (fun d => d.iterOk))
  nonstop : ∀ c ∈ s.calls, NonStop c

/-- what holds of every state the loop returns -/
structure PFin (cs : List (C α)) (p : PParams α) (penalty0 eps0 : α) (x0 : List α)
    (inner : Nat → PState α → PAnswer α) (r : PState α) : Prop where
  calls_len : r.calls.length = r.iters
  sched : Sched p penalty0 eps0 x0 inner r.calls
  best_eq : r.best = mkState cs (lastValid x0 r.calls)
  running : r.status = 0 → (∀ c ∈ r.calls, NonStop c) ∧ r.penalty = penalty0 * p.eta ^ r.iters
  stopped : r.status ≠ 0 → ∃ (init : List (PCall α)) (last : PCall α), r.calls = init ++ [last] ∧
    (∀ c ∈ init, NonStop c) ∧ last.iterOk = true ∧ r.best.x = last.cx ∧ r.penalty = last.penalty ∧
    ((r.status = 1 ∧ last.xconv = true) ∨ (r.status = 2 ∧ last.xconv = false ∧ last.bvalid = false))

theorem penInit_run (cs : List (C α)) (p : PParams α) (penalty0 eps0 : α) (x0 : List α)
    (inner : Nat → PState α → PAnswer α) : PRun cs p penalty0 eps0 x0 inner (penInit cs x0 penalty0 eps0) :=
  ⟨rfl, rfl, Sched.nil, rfl, by simp [penInit], by simp [penInit], by simp [penInit]⟩

theorem PRun.fin {cs : List (C α)} {p : PParams α} {penalty0 eps0 : α} {x0 : List α}
    {inner : Nat → PState α → PAnswer α} {s : PState α} (h : PRun cs p penalty0 eps0 x0 inner s) :
    PFin cs p penalty0 eps0 x0 inner s :=
  ⟨h.calls_len, h.sched, h.best_eq, fun _ => ⟨h.nonstop, h.penalty_eq⟩, fun hne => absurd h.status_eq hne⟩

/-- the log after one more call is well formed -/
theorem sched_step {cs : List (C α)} {p : PParams α} {penalty0 eps0 : α} {x0 : List α}
    {inner : Nat → PState α → PAnswer α} {s : PState α} (h : PRun cs p penalty0 eps0 x0 inner s) :
    Sched p penalty0 eps0 x0 inner (s.calls ++ [callOf p s (inner s.iters s)]) := by
  have hx : s.best.x = lastValid x0 s.calls := by rw [h.best_eq]; rfl
  refine Sched.snoc _ _ h.sched ?_ ?_ hx rfl ⟨s, h.calls_len.symm, rfl, rfl, rfl, ?_⟩
  · show s.penalty = _
    rw [h.penalty_eq, h.calls_len]
  · exact h.innerEps_eq
  · rw [h.calls_len]; rfl

theorem penStep_run {cs : List (C α)} {p : PParams α} {penalty0 eps0 : α} {x0 : List α}
    {inner : Nat → PState α → PAnswer α} {s : PState α} (h : PRun cs p penalty0 eps0 x0 inner s) :
    ((penStep cs p s (inner s.iters s)).2 = false → PRun cs p penalty0 eps0 x0 inner (penStep cs p s (inner s.iters s)).1) ∧
    ((penStep cs p s (inner s.iters s)).2 = true → PFin cs p penalty0 eps0 x0 inner (penStep cs p s (inner s.iters s)).1) ∧
    (penStep cs p s (inner s.iters s)).1.iters = s.iters + 1 ∧
    ((penStep cs p s (inner s.iters s)).2 = true → (penStep cs p s (inner s.iters s)).1.status ≠ 0) := by
  have hsched := sched_step h
  generalize ha : inner s.iters s = a at hsched
  cases hok : a.iterOk with
  | false =>
    rw [penStep_fail cs p s a hok]
    refine ⟨fun _ => ?_, (by simp), rfl, (by simp)⟩
    refine ⟨h.status_eq, by simp [h.calls_len], hsched, ?_, ?_, ?_, ?_⟩
    · show s.best = _
      rw [lastValid_snoc]; simp only [callOf_iterOk, hok, Bool.false_eq_true, if_false]; exact h.best_eq
    · show s.penalty * p.eta = _
      rw [h.penalty_eq, pow_succ, mul_assoc]
    · show s.innerEps = _
      rw [List.countP_append]; simp [hok, h.innerEps_eq]
    · intro c hc
      rcases List.mem_append.mp hc with hc | hc
      · exact h.nonstop c hc
      · simp only [List.mem_singleton] at hc
        subst hc
        intro hh; simp [hok] at hh
  | true =>
    cases hstop : (xConverged s.best.x a.cx p.eps || !a.bvalid) with
    | true =>
      rw [penStep_stop cs p s a hok hstop]
      refine ⟨(by simp), fun _ => ?_, rfl, fun _ => ?_⟩
      · refine ⟨by simp [h.calls_len], hsched, ?_, ?_, ?_⟩
        · show mkState cs a.cx = _
          rw [lastValid_snoc]; simp only [callOf_iterOk, callOf_cx, hok, if_true]
        · intro hst
          exfalso
          simp only at hst
          split at hst <;> simp at hst
        · intro _
          refine ⟨s.calls, _, rfl, h.nonstop, hok, rfl, rfl, ?_⟩
          simp only
          cases hconv : xConverged s.best.x a.cx p.eps with
          | true => left; exact ⟨by simp, hconv⟩
          | false =>
            right
            simp only [hconv, Bool.false_or, Bool.not_eq_true'] at hstop
            exact ⟨by simp, hconv, hstop⟩
      · simp only
        split <;> simp
    | false =>
      rw [penStep_go cs p s a hok hstop]
      refine ⟨fun _ => ?_, (by simp), rfl, (by simp)⟩
      simp only [Bool.or_eq_false_iff, Bool.not_eq_false'] at hstop
      refine ⟨h.status_eq, by simp [h.calls_len], hsched, ?_, ?_, ?_, ?_⟩
      · show mkState cs a.cx = _
        rw [lastValid_snoc]; simp only [callOf_iterOk, callOf_cx, hok, if_true]
      · show s.penalty * p.eta = _
        rw [h.penalty_eq, pow_succ, mul_assoc]
      · show s.innerEps * p.epsK = _
        rw [List.countP_append]; simp [hok, h.innerEps_eq, pow_succ, mul_assoc]
      · intro c hc
        rcases List.mem_append.mp hc with hc | hc
        · exact h.nonstop c hc
        · simp only [List.mem_singleton] at hc
          subst hc
          intro _; exact ⟨hstop.1, hstop.2⟩

/-- the loop from a running state: the returned state is described by `PFin`, at most `fuel` more iterations are made,
    and exactly `fuel` when the status stays `max_iters` -/
theorem penLoop_fin (cs : List (C α)) (p : PParams α) (penalty0 eps0 : α) (x0 : List α)
    (inner : Nat → PState α → PAnswer α) :
    ∀ (fuel : Nat) (s : PState α), PRun cs p penalty0 eps0 x0 inner s →
      PFin cs p penalty0 eps0 x0 inner (penLoop cs p inner fuel s) ∧
      (penLoop cs p inner fuel s).iters ≤ s.iters + fuel ∧
      ((penLoop cs p inner fuel s).status = 0 → (penLoop cs p inner fuel s).iters = s.iters + fuel) ∧
      ((penLoop cs p inner fuel s).status ≠ 0 → s.iters < (penLoop cs p inner fuel s).iters) := by
  intro fuel
  induction fuel with
  | zero =>
    intro s h
    exact ⟨h.fin, le_refl _, fun _ => rfl, fun hne => absurd h.status_eq hne⟩
  | succ fuel ih =>
    intro s h
    obtain ⟨h1, h2, h3, h4⟩ := penStep_run h
    simp only [penLoop]
    cases hstop : (penStep cs p s (inner s.iters s)).2 with
    | true =>
      simp only [if_true]
      refine ⟨h2 hstop, by omega, fun h0 => absurd h0 (h4 hstop), fun _ => by omega⟩
    | false =>
      simp only [Bool.false_eq_true, if_false]
      obtain ⟨i1, i2, i3, i4⟩ := ih _ (h1 hstop)
      refine ⟨i1, by omega, fun h0 => by have := i3 h0; omega, fun hne => by have := i4 hne; omega⟩

end NanoVerif.Penalty
