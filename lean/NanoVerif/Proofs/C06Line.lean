import NanoVerif.Proofs.C06Deriv
/-!
  C06 — "the returned gradient is the derivative of the returned value": the small calculus library for list-vectors.

  `line x d t = x + t • d` (pointwise on lists). A pair value `f` / gradient `g` of the model satisfies the first clause
  of the property when, for all `x d` of equal length,

      HasDerivAt (fun t : ℝ => f (line x d t)) (dot (g x) d) 0

  i.e. the directional derivative of the value along EVERY direction `d` is the inner product of the returned gradient
  with `d` (this is what the central differences along random directions of the oracle estimate). This file contains
  the algebra of `line` and the HasDerivAt rules for the list combinators of the models (`dot`, `sumIdx`/`mapIdx`,
  `sum2`/`map2`, `pairSum`/`pairGrad`, `mulVec`/`tmulVec`, `sumL ∘ map`).
-/
set_option linter.unusedSectionVars false
set_option linter.unusedVariables false

namespace NanoVerif.C06
open NanoVerif.Loss NanoVerif.Fn

/-- the point `x + t • d` -/
noncomputable def line (x d : List ℝ) (t : ℝ) : List ℝ := vadd x (smul t d)

@[simp] theorem line_nil (t : ℝ) : line [] [] t = [] := rfl

@[simp] theorem line_cons (x : ℝ) (xs : List ℝ) (d : ℝ) (ds : List ℝ) (t : ℝ) :
    line (x :: xs) (d :: ds) t = (x + t * d) :: line xs ds t := by
  simp [line, vadd, smul]

theorem line_length : ∀ (x d : List ℝ) (t : ℝ), d.length = x.length → (line x d t).length = x.length
  | [], [], _, _ => rfl
  | x :: xs, d :: ds, t, h => by
    rw [line_cons]; simp [line_length xs ds t (by simpa using h)]
  | [], _ :: _, _, h => by simp at h
  | _ :: _, [], _, h => by simp at h

theorem line_zero : ∀ (x d : List ℝ), d.length = x.length → line x d 0 = x
  | [], [], _ => rfl
  | x :: xs, d :: ds, h => by
    rw [line_cons, line_zero xs ds (by simpa using h)]; simp
  | [], _ :: _, h => by simp at h
  | _ :: _, [], h => by simp at h

/-- `(x + t₀ d) + s d = x + (t₀ + s) d` -/
theorem line_line : ∀ (x d : List ℝ) (t0 s : ℝ), d.length = x.length →
    line (line x d t0) d s = line x d (t0 + s)
  | [], [], _, _, _ => rfl
  | x :: xs, d :: ds, t0, s, h => by
    rw [line_cons, line_cons, line_cons, line_line xs ds t0 s (by simpa using h)]
    congr 1; ring
  | [], _ :: _, _, _, h => by simp at h
  | _ :: _, [], _, _, h => by simp at h

/-! ### algebra of `dot`, `mulVec`, `vadd` along a line -/

theorem dot_line_left : ∀ (x d c : List ℝ) (t : ℝ), d.length = x.length →
    dot (line x d t) c = dot x c + t * dot d c
  | [], [], c, t, _ => by simp [dot_nil_left]
  | x :: xs, d :: ds, [], t, _ => by simp [dot]
  | x :: xs, d :: ds, c :: cs, t, h => by
    rw [line_cons]; simp only [dot]
    rw [dot_line_left xs ds cs t (by simpa using h)]; ring
  | [], _ :: _, _, _, h => by simp at h
  | _ :: _, [], _, _, h => by simp at h

theorem dot_line_right (c x d : List ℝ) (t : ℝ) (h : d.length = x.length) :
    dot c (line x d t) = dot c x + t * dot c d := by
  rw [dot_comm, dot_line_left x d c t h, dot_comm x c, dot_comm d c]

/-- `(x + t d)·(y + t e) = x·y + t (x·e + d·y) + t² d·e` -/
theorem dot_line_line : ∀ (x d y e : List ℝ) (t : ℝ), d.length = x.length → e.length = y.length →
    dot (line x d t) (line y e t) = dot x y + t * (dot x e + dot d y) + t * t * dot d e
  | [], [], y, e, t, _, _ => by simp [dot_nil_left]
  | x :: xs, d :: ds, [], [], t, _, _ => by simp [dot]
  | x :: xs, d :: ds, y :: ys, e :: es, t, h, h' => by
    rw [line_cons, line_cons]; simp only [dot]
    rw [dot_line_line xs ds ys es t (by simpa using h) (by simpa using h')]; ring
  | [], _ :: _, _, _, _, h, _ => by simp at h
  | _ :: _, [], _, _, _, h, _ => by simp at h
  | _, _, [], _ :: _, _, _, h => by simp at h
  | _, _, _ :: _, [], _, _, h => by simp at h

theorem mulVec_line : ∀ (A : List (List ℝ)) (x d : List ℝ) (t : ℝ), d.length = x.length →
    mulVec A (line x d t) = line (mulVec A x) (mulVec A d) t
  | [], _, _, _, _ => by simp [mulVec]
  | r :: A, x, d, t, h => by
    have ih := mulVec_line A x d t h
    simp only [mulVec, List.map] at *
    rw [line_cons, ih, dot_line_right r x d t h]

theorem vadd_line : ∀ (a u w : List ℝ) (t : ℝ), u.length = a.length → w.length = a.length →
    vadd a (line u w t) = line (vadd a u) w t
  | [], [], [], _, _, _ => rfl
  | a :: as, u :: us, w :: ws, t, hu, hw => by
    rw [line_cons]; simp only [vadd]; rw [line_cons, vadd_line as us ws t (by simpa using hu) (by simpa using hw)]
    congr 1; ring
  | [], _ :: _, _, _, h, _ => by simp at h
  | [], _, _ :: _, _, _, h => by simp at h
  | _ :: _, [], _, _, h, _ => by simp at h
  | _ :: _, _, [], _, _, h => by simp at h

theorem getD_line : ∀ (x d : List ℝ) (k : Nat) (t : ℝ), d.length = x.length →
    (line x d t).getD k 0 = x.getD k 0 + t * d.getD k 0
  | [], [], k, t, _ => by simp
  | x :: xs, d :: ds, 0, t, _ => by rw [line_cons]; simp
  | x :: xs, d :: ds, k + 1, t, h => by
    rw [line_cons]; simpa using getD_line xs ds k t (by simpa using h)
  | [], _ :: _, _, _, h => by simp at h
  | _ :: _, [], _, _, h => by simp at h

/-! ### scalar building blocks -/

/-- one coordinate of the line -/
theorem coord_deriv (x d : ℝ) : HasDerivAt (fun t : ℝ => x + t * d) d 0 := by
  have h := ((hasDerivAt_id' (0 : ℝ)).mul_const d).const_add x
  simpa using h

/-- chain rule along one coordinate -/
theorem comp_coord {φ : ℝ → ℝ} {φ' : ℝ} (x d : ℝ) (h : HasDerivAt φ φ' x) :
    HasDerivAt (fun t : ℝ => φ (x + t * d)) (φ' * d) 0 := by
  have hx : HasDerivAt φ φ' (x + 0 * d) := by simpa using h
  exact HasDerivAt.comp (0 : ℝ) hx (coord_deriv x d)

/-- chain rule: a scalar function after a scalar function of `t` whose value at `0` is known -/
theorem comp_at {φ u : ℝ → ℝ} {φ' u' u0 : ℝ} (hu0 : u 0 = u0) (h : HasDerivAt φ φ' u0) (hu : HasDerivAt u u' 0) :
    HasDerivAt (fun t : ℝ => φ (u t)) (φ' * u') 0 := by
  have hx : HasDerivAt φ φ' (u 0) := by rw [hu0]; exact h
  exact HasDerivAt.comp (0 : ℝ) hx hu

/-- the derivative at `t₀` from the derivative at `0` (at the point `x + t₀ d`) -/
theorem line_deriv_at (f : List ℝ → ℝ) (x d : List ℝ) (t0 f' : ℝ) (hd : d.length = x.length)
    (h : HasDerivAt (fun s : ℝ => f (line (line x d t0) d s)) f' 0) :
    HasDerivAt (fun t : ℝ => f (line x d t)) f' t0 := by
  have e : (fun t : ℝ => f (line x d t)) = fun t => (fun s : ℝ => f (line (line x d t0) d s)) (t - t0) := by
    funext t; simp only; rw [line_line x d t0 (t - t0) hd]; congr 2; ring
  rw [e]
  have hs : HasDerivAt (fun t : ℝ => t - t0) 1 t0 := (hasDerivAt_id' t0).sub_const t0
  have h0 : HasDerivAt (fun s : ℝ => f (line (line x d t0) d s)) f' ((fun t : ℝ => t - t0) t0) := by simpa using h
  have := HasDerivAt.comp (h₂ := fun s : ℝ => f (line (line x d t0) d s)) (h := fun t : ℝ => t - t0) t0 h0 hs
  rw [mul_one] at this
  exact this

/-! ### `dot` -/

theorem dot_self_line_deriv (x d : List ℝ) (hd : d.length = x.length) :
    HasDerivAt (fun t : ℝ => dot (line x d t) (line x d t)) (2 * dot x d) 0 := by
  have e : (fun t : ℝ => dot (line x d t) (line x d t)) =
      fun t => dot x x + t * (dot x d + dot d x) + t * t * dot d d := by
    funext t; exact dot_line_line x d x d t hd hd
  rw [e]
  have h1 : HasDerivAt (fun t : ℝ => t * (dot x d + dot d x)) (dot x d + dot d x) 0 := by
    simpa using (hasDerivAt_id' (0 : ℝ)).mul_const (dot x d + dot d x)
  have h2 : HasDerivAt (fun t : ℝ => t * t * dot d d) 0 0 := by
    have := ((hasDerivAt_id' (0 : ℝ)).mul (hasDerivAt_id' (0 : ℝ))).mul_const (dot d d)
    simpa using this
  have h := (h1.const_add (dot x x)).add h2
  refine h.congr_deriv ?_
  rw [dot_comm d x]; ring

theorem dot_const_line_deriv (x d c : List ℝ) (hd : d.length = x.length) :
    HasDerivAt (fun t : ℝ => dot (line x d t) c) (dot c d) 0 := by
  have e : (fun t : ℝ => dot (line x d t) c) = fun t => dot x c + t * dot d c := by
    funext t; exact dot_line_left x d c t hd
  rw [e, dot_comm c d]
  simpa using ((hasDerivAt_id' (0 : ℝ)).mul_const (dot d c)).const_add (dot x c)

/-- bilinear form `x·(A x)` along a line -/
theorem bilin_line_deriv (A : List (List ℝ)) (x d : List ℝ) (hd : d.length = x.length) :
    HasDerivAt (fun t : ℝ => dot (line x d t) (mulVec A (line x d t)))
      (dot x (mulVec A d) + dot d (mulVec A x)) 0 := by
  have e : (fun t : ℝ => dot (line x d t) (mulVec A (line x d t))) =
      fun t => dot x (mulVec A x) + t * (dot x (mulVec A d) + dot d (mulVec A x)) + t * t * dot d (mulVec A d) := by
    funext t
    rw [mulVec_line A x d t hd]
    exact dot_line_line x d (mulVec A x) (mulVec A d) t hd (by rw [mulVec_length, mulVec_length])
  rw [e]
  have h1 : HasDerivAt (fun t : ℝ => t * (dot x (mulVec A d) + dot d (mulVec A x)))
      (dot x (mulVec A d) + dot d (mulVec A x)) 0 := by
    simpa using (hasDerivAt_id' (0 : ℝ)).mul_const (dot x (mulVec A d) + dot d (mulVec A x))
  have h2 : HasDerivAt (fun t : ℝ => t * t * dot d (mulVec A d)) 0 0 := by
    have := ((hasDerivAt_id' (0 : ℝ)).mul (hasDerivAt_id' (0 : ℝ))).mul_const (dot d (mulVec A d))
    simpa using this
  have h := (h1.const_add (dot x (mulVec A x))).add h2
  exact h.congr_deriv (by ring)

/-! ### separable sums -/

/-- `Σ_i φ_i(x_i)` with `[φ_i'(x_i)]_i` -/
theorem sumIdx_line_deriv (φ γ : Nat → ℝ → ℝ) (h : ∀ i y, HasDerivAt (φ i) (γ i y) y) :
    ∀ (i : Nat) (x d : List ℝ), d.length = x.length →
      HasDerivAt (fun t : ℝ => sumIdx φ i (line x d t)) (dot (mapIdx γ i x) d) 0
  | _, [], [], _ => by
    simp only [line_nil, sumIdx, mapIdx, dot]; exact hasDerivAt_const _ _
  | i, x :: xs, d :: ds, hl => by
    have ih := sumIdx_line_deriv φ γ h (i + 1) xs ds (by simpa using hl)
    have h0 := comp_coord x d (h i x)
    simp only [line_cons, sumIdx, mapIdx, dot]
    exact h0.add ih
  | _, [], _ :: _, h => by simp at h
  | _, _ :: _, [], h => by simp at h

/-- `c Σ_i k(t_i, o_i)` with `[g(t_i, o_i)]_i` (the multi-output losses) -/
theorem sum2_line_deriv (c : ℝ) (k g : ℝ → ℝ → ℝ) (h : ∀ t o, HasDerivAt (fun o => c * k t o) (g t o) o) :
    ∀ (t o d : List ℝ), o.length = t.length → d.length = t.length →
      HasDerivAt (fun s : ℝ => c * sum2 k t (line o d s)) (dot (map2 g t o) d) 0
  | [], [], [], _, _ => by
    simp only [sum2, map2, dot, mul_zero]; exact hasDerivAt_const _ _
  | t :: ts, o :: os, d :: ds, ho, hd => by
    have ih := sum2_line_deriv c k g h ts os ds (by simpa using ho) (by simpa using hd)
    have h0 := comp_coord o d (h t o)
    simp only [line_cons, sum2, map2, dot]
    have e : (fun s : ℝ => c * (k t (o + s * d) + sum2 k ts (line os ds s))) =
        fun s => c * k t (o + s * d) + c * sum2 k ts (line os ds s) := by funext s; ring
    rw [e]
    exact h0.add ih
  | [], _ :: _, _, h, _ => by simp at h
  | [], _, _ :: _, _, h => by simp at h
  | _ :: _, [], _, h, _ => by simp at h
  | _ :: _, _, [], _, h => by simp at h

theorem sumL_map_eq_sumIdx (φ : ℝ → ℝ) : ∀ (i : Nat) (l : List ℝ), sumL (l.map φ) = sumIdx (fun _ => φ) i l
  | _, [] => rfl
  | i, a :: l => by simp only [List.map, sumL, sumIdx]; rw [sumL_map_eq_sumIdx φ (i + 1) l]

theorem map_eq_mapIdx (γ : ℝ → ℝ) : ∀ (i : Nat) (l : List ℝ), l.map γ = mapIdx (fun _ => γ) i l
  | _, [] => rfl
  | i, a :: l => by simp only [List.map, mapIdx]; rw [map_eq_mapIdx γ (i + 1) l]

/-- `Σ_k φ(u_k)` with `[φ'(u_k)]_k` -/
theorem sumL_map_line_deriv (φ γ : ℝ → ℝ) (h : ∀ y, HasDerivAt φ (γ y) y) (u w : List ℝ) (hw : w.length = u.length) :
    HasDerivAt (fun t : ℝ => sumL ((line u w t).map φ)) (dot (u.map γ) w) 0 := by
  have e : (fun t : ℝ => sumL ((line u w t).map φ)) = fun t => sumIdx (fun _ => φ) 0 (line u w t) := by
    funext t; exact sumL_map_eq_sumIdx φ 0 _
  rw [e, map_eq_mapIdx γ 0 u]
  exact sumIdx_line_deriv (fun _ => φ) (fun _ => γ) (fun _ y => h y) 0 u w hw

/-! ### sums over consecutive pairs -/

/-- `Σ_i v(x_i, x_{i+1})` with the gradient accumulated pair by pair (`pairGrad`); `carry` is what a previous pair
    has already added to the head entry -/
theorem pair_line_deriv_aux (v : ℝ → ℝ → ℝ) (c : ℝ → ℝ → ℝ × ℝ)
    (hv : ∀ a b da db, HasDerivAt (fun t : ℝ => v (a + t * da) (b + t * db)) ((c a b).1 * da + (c a b).2 * db) 0) :
    ∀ (xs ds : List ℝ) (a da carry : ℝ), ds.length = xs.length →
      HasDerivAt (fun t : ℝ => pairSum v (line (a :: xs) (da :: ds) t))
        (dot (pairGrad c carry (a :: xs)) (da :: ds) - carry * da) 0
  | [], [], a, da, carry, _ => by
    simp only [line_cons, line_nil, pairSum, pairGrad, dot]
    exact (hasDerivAt_const _ _).congr_deriv (by ring)
  | b :: xs, db :: ds, a, da, carry, hl => by
    have ih := pair_line_deriv_aux v c hv xs ds b db (c a b).2 (by simpa using hl)
    have h0 := hv a b da db
    simp only [line_cons, pairSum, pairGrad, dot] at ih ⊢
    exact (h0.add ih).congr_deriv (by ring)
  | [], _ :: _, _, _, _, h => by simp at h
  | _ :: _, [], _, _, _, h => by simp at h

theorem pair_line_deriv (v : ℝ → ℝ → ℝ) (c : ℝ → ℝ → ℝ × ℝ)
    (hv : ∀ a b da db, HasDerivAt (fun t : ℝ => v (a + t * da) (b + t * db)) ((c a b).1 * da + (c a b).2 * db) 0)
    (x d : List ℝ) (hd : d.length = x.length) :
    HasDerivAt (fun t : ℝ => pairSum v (line x d t)) (dot (pairGrad c 0 x) d) 0 := by
  match x, d, hd with
  | [], [], _ => simp only [line_nil, pairSum, pairGrad, dot]; exact hasDerivAt_const _ _
  | a :: xs, da :: ds, h =>
    have := pair_line_deriv_aux v c hv xs ds a da 0 (by simpa using h)
    exact this.congr_deriv (by ring)
  | [], _ :: _, h => simp at h
  | _ :: _, [], h => simp at h

/-! ### `Aᵀu` -/

/-- `(Aᵀu)·d = u·(A d)` in the form used by the gradients `tmulVec n A u` -/
theorem dot_tmulVec (n : Nat) (A : List (List ℝ)) (u d : List ℝ) (hrows : ∀ r ∈ A, r.length = n)
    (hl : A.length = u.length) : dot (tmulVec n A u) d = dot u (mulVec A d) :=
  tmulVec_adjoint n A u d hrows hl

end NanoVerif.C06
