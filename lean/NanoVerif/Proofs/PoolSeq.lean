import NanoVerif.Proofs.PoolStep
/-!
  C17 — invariant of the sequential path of `map` (ghost counters `sexec`, `sthrew`) and the lemmas about `chunks`.
  Core Lean only.
-/
namespace NanoVerif.Pool

/-- how often operator call `k` has been started when `i` calls are over and (`b`) call `i` is in progress -/
def seqCount (i : Nat) (b : Bool) (k : Nat) : Nat := if k < i ∨ (k = i ∧ b = true) then 1 else 0

structure SeqInv (s : St) : Prop where
  idle_zero : ∀ c, s.cpc c = .idle → ∀ k, s.sexec c k = 0 ∧ s.sthrew c k = false
  seq_ok : ∀ c n i b err, s.cpc c = .seq n i b err →
    i ≤ n ∧ (b = true → i < n) ∧ (∀ k, s.sexec c k = seqCount i b k) ∧ (∀ k, i ≤ k → s.sthrew c k = false) ∧
    err = (List.range i).find? (fun k => s.sthrew c k)

theorem seq_init (nw : Nat) : SeqInv (init nw) := by
  refine ⟨?_, ?_⟩ <;> simp [init]

theorem find?_ext {α} (p q : α → Bool) : ∀ (l : List α), (∀ x ∈ l, p x = q x) → l.find? p = l.find? q
  | [], _ => rfl
  | a :: l, h => by
    have ha : p a = q a := h a (by simp)
    have ih := find?_ext p q l (fun x hx => h x (by simp [hx]))
    simp only [List.find?_cons, ha, ih]

/-- the client's pc does not change, nor the ghost state -/
theorem seq_same (s s' : St) (hs : SeqInv s) (hc : s'.cpc = s.cpc) (hse : s'.sexec = s.sexec) (hst : s'.sthrew = s.sthrew) :
    SeqInv s' := by
  refine ⟨?_, ?_⟩
  · rw [hc, hse, hst]; exact hs.idle_zero
  · rw [hc, hse, hst]; exact hs.seq_ok

/-- one client moves to a state that is neither `idle` nor `seq` -/
theorem seq_frame (s s' : St) (c : Nat) (x : CPc) (hs : SeqInv s) (hc : s'.cpc = upd s.cpc c x) (hse : s'.sexec = s.sexec)
    (hst : s'.sthrew = s.sthrew) (hx1 : x ≠ .idle) (hx2 : ∀ n i b err, x ≠ .seq n i b err) : SeqInv s' := by
  refine ⟨?_, ?_⟩
  · intro c' hc'
    rw [hse, hst]
    rw [hc] at hc'
    by_cases hcc : c' = c
    · subst hcc; rw [upd_same] at hc'; exact absurd hc' hx1
    · rw [upd_other _ _ _ _ hcc] at hc'; exact hs.idle_zero c' hc'
  · intro c' n i b err hc'
    rw [hse, hst]
    rw [hc] at hc'
    by_cases hcc : c' = c
    · subst hcc; rw [upd_same] at hc'; exact absurd hc' (hx2 n i b err)
    · rw [upd_other _ _ _ _ hcc] at hc'; exact hs.seq_ok c' n i b err hc'

theorem seq_step (s s' : St) (e : Ev) (hs : SeqInv s) (h : step s e = some s') : SeqInv s' := by
  cases e with
  | wTake w => obtain ⟨_, _, _, t, q, _, rfl⟩ := step_wTake h; exact seq_same s _ hs rfl rfl rfl
  | wSleep w => obtain ⟨_, _, _, _, rfl⟩ := step_wSleep h; exact seq_same s _ hs rfl rfl rfl
  | wExit w => obtain ⟨_, _, _, rfl⟩ := step_wExit h; exact seq_same s _ hs rfl rfl rfl
  | wRunEnd w b => obtain ⟨_, t, _, rfl⟩ := step_wRunEnd h; exact seq_same s _ hs rfl rfl rfl
  | wWake w => obtain ⟨_, _, rfl⟩ := step_wWake h; exact seq_same s _ hs rfl rfl rfl
  | cPush c ts all =>
    obtain ⟨_, _, _, _, rfl⟩ := step_cPush h
    exact seq_frame s _ c _ hs rfl rfl rfl (by simp) (by simp)
  | cNotify c w =>
    rcases step_cNotify h with ⟨ts, _, rfl⟩ | ⟨ts, v, _, _, _, _, rfl⟩ | ⟨ts, _, _, _, rfl⟩ | ⟨_, rfl⟩
    · exact seq_frame s _ c _ hs rfl rfl rfl (by simp) (by simp)
    · exact seq_frame s _ c _ hs rfl rfl rfl (by simp) (by simp)
    · exact seq_frame s _ c _ hs rfl rfl rfl (by simp) (by simp)
    · exact seq_frame s _ c _ hs rfl rfl rfl (by simp) (by simp)
  | cReturn c =>
    obtain ⟨ts, _, _, rfl⟩ := step_cReturn h
    exact seq_frame s _ c _ hs rfl rfl rfl (by simp) (by simp)
  | dStop c =>
    obtain ⟨_, rfl⟩ := step_dStop h
    exact seq_frame s _ c _ hs rfl rfl rfl (by simp) (by simp)
  | dJoined c =>
    obtain ⟨_, _, rfl⟩ := step_dJoined h
    exact seq_frame s _ c _ hs rfl rfl rfl (by simp) (by simp)
  | sReturn c =>
    obtain ⟨n, err, _, rfl⟩ := step_sReturn h
    exact seq_frame s _ c _ hs rfl rfl rfl (by simp) (by simp)
  | sStart c n =>
    obtain ⟨hpc, rfl⟩ := step_sStart h
    refine ⟨?_, ?_⟩
    · intro c' hc'
      have hc'' : upd s.cpc c (.seq n 0 false none) c' = .idle := hc'
      by_cases hcc : c' = c
      · subst hcc; rw [upd_same] at hc''; cases hc''
      · rw [upd_other _ _ _ _ hcc] at hc''; exact hs.idle_zero c' hc''
    · intro c' n' i b err hc'
      have hc'' : upd s.cpc c (.seq n 0 false none) c' = .seq n' i b err := hc'
      by_cases hcc : c' = c
      · subst hcc; rw [upd_same] at hc''
        cases hc''
        have hz := hs.idle_zero c' hpc
        refine ⟨Nat.zero_le _, by simp, ?_, ?_, by simp⟩
        · intro k; show s.sexec c' k = seqCount 0 false k; simp [seqCount, (hz k).1]
        · intro k _; exact (hz k).2
      · rw [upd_other _ _ _ _ hcc] at hc''; exact hs.seq_ok c' n' i b err hc''
  | sOpBegin c =>
    obtain ⟨n, i, err, hpc, hi, rfl⟩ := step_sOpBegin h
    obtain ⟨hle, _, hcnt, hthr, herr⟩ := hs.seq_ok c n i false err hpc
    refine ⟨?_, ?_⟩
    · intro c' hc'
      have hc'' : upd s.cpc c (.seq n i true err) c' = .idle := hc'
      by_cases hcc : c' = c
      · subst hcc; rw [upd_same] at hc''; cases hc''
      · rw [upd_other _ _ _ _ hcc] at hc''
        intro k
        show (if c' = c ∧ k = i then s.sexec c i + 1 else s.sexec c' k) = 0 ∧ s.sthrew c' k = false
        simp only [hcc, false_and, if_false]
        exact hs.idle_zero c' hc'' k
    · intro c' n' i' b err' hc'
      have hc'' : upd s.cpc c (.seq n i true err) c' = .seq n' i' b err' := hc'
      by_cases hcc : c' = c
      · subst hcc; rw [upd_same] at hc''
        cases hc''
        refine ⟨hle, fun _ => hi, ?_, hthr, herr⟩
        intro k
        show (if c' = c' ∧ k = i then s.sexec c' i + 1 else s.sexec c' k) = seqCount i true k
        by_cases hk : k = i
        · subst hk
          have := hcnt k
          simp [seqCount] at this
          simp [seqCount, this]
        · have := hcnt k
          simp only [hk, and_false, if_false]
          rw [this]; simp [seqCount, hk]
      · rw [upd_other _ _ _ _ hcc] at hc''
        obtain ⟨h1, h2, h3, h4, h5⟩ := hs.seq_ok c' n' i' b err' hc''
        refine ⟨h1, h2, ?_, h4, h5⟩
        intro k
        show (if c' = c ∧ k = i then s.sexec c i + 1 else s.sexec c' k) = seqCount i' b k
        simp only [hcc, false_and, if_false]
        exact h3 k
  | sOpEnd c b =>
    obtain ⟨n, i, err, hpc, rfl⟩ := step_sOpEnd h
    obtain ⟨hle, hlt, hcnt, hthr, herr⟩ := hs.seq_ok c n i true err hpc
    refine ⟨?_, ?_⟩
    · intro c' hc'
      have hc'' : upd s.cpc c (.seq n (i + 1) false (firstErr err i b)) c' = .idle := hc'
      by_cases hcc : c' = c
      · subst hcc; rw [upd_same] at hc''; cases hc''
      · rw [upd_other _ _ _ _ hcc] at hc''
        intro k
        show s.sexec c' k = 0 ∧ (if c' = c ∧ k = i then b else s.sthrew c' k) = false
        simp only [hcc, false_and]
        exact hs.idle_zero c' hc'' k
    · intro c' n' i' b' err' hc'
      have hc'' : upd s.cpc c (.seq n (i + 1) false (firstErr err i b)) c' = .seq n' i' b' err' := hc'
      by_cases hcc : c' = c
      · subst hcc; rw [upd_same] at hc''
        cases hc''
        refine ⟨hlt rfl, by simp, ?_, ?_, ?_⟩
        · intro k
          show s.sexec c' k = seqCount (i + 1) false k
          rw [hcnt k]
          simp only [seqCount]
          by_cases h1 : k < i
          · have : k < i + 1 := by omega
            simp [h1, this]
          · by_cases h2 : k = i
            · subst h2; simp
            · have : ¬ k < i + 1 := by omega
              simp [h1, h2, this]
        · intro k hk
          show (if c' = c' ∧ k = i then b else s.sthrew c' k) = false
          have hki : k ≠ i := by omega
          simp only [hki, and_false]
          exact hthr k (by omega)
        · show firstErr err i b = (List.range (i + 1)).find? (fun k => if c' = c' ∧ k = i then b else s.sthrew c' k)
          rw [List.range_succ, List.find?_append]
          have h1 : (List.range i).find? (fun k => if c' = c' ∧ k = i then b else s.sthrew c' k)
              = (List.range i).find? (fun k => s.sthrew c' k) := by
            apply find?_ext
            intro x hx
            have : x ≠ i := by have := List.mem_range.mp hx; omega
            simp [this]
          rw [h1, ← herr]
          cases err with
          | some p => simp [firstErr]
          | none => cases b <;> simp [firstErr]
      · rw [upd_other _ _ _ _ hcc] at hc''
        obtain ⟨h1, h2, h3, h4, h5⟩ := hs.seq_ok c' n' i' b' err' hc''
        refine ⟨h1, h2, h3, ?_, ?_⟩
        · intro k hk
          show (if c' = c ∧ k = i then b else s.sthrew c' k) = false
          simp only [hcc, false_and]
          exact h4 k hk
        · show err' = (List.range i').find? (fun k => if c' = c ∧ k = i then b else s.sthrew c' k)
          simp only [hcc, false_and]
          exact h5

/-! ### chunks -/

theorem rangeList_append (a b c : Nat) (h1 : a ≤ b) (h2 : b ≤ c) : rangeList a b ++ rangeList b c = rangeList a c := by
  unfold rangeList
  have : c - a = (b - a) + (c - b) := by omega
  rw [this, List.range_add, List.map_append, List.map_map]
  congr 1
  apply List.map_congr_left
  intro x _
  simp only [Function.comp]
  omega

theorem chunksFrom_nil_of_ge (n c fuel b : Nat) (h : n ≤ b) : chunksFrom n c fuel b = [] := by
  cases fuel with
  | zero => rfl
  | succ f =>
    simp only [chunksFrom]
    split
    · omega
    · rfl

/-- the chunks starting at `b` tile `[b, n)` -/
theorem chunksFrom_tile (n c : Nat) (hc : 0 < c) : ∀ (fuel b : Nat), n ≤ b + fuel * c → b ≤ n →
    ((chunksFrom n c fuel b).map fun p => rangeList p.1 p.2).flatten = rangeList b n := by
  intro fuel
  induction fuel with
  | zero =>
    intro b h hb
    have : b = n := by omega
    subst this
    simp [chunksFrom, rangeList]
  | succ fuel ih =>
    intro b h hb
    by_cases hlt : b < n
    · simp only [chunksFrom, hlt, if_true, List.map_cons, List.flatten_cons]
      by_cases hbc : b + c ≤ n
      · rw [Nat.min_eq_left hbc]
        rw [ih (b + c) (by rw [Nat.succ_mul] at h; omega) hbc]
        exact rangeList_append b (b + c) n (by omega) hbc
      · rw [Nat.min_eq_right (by omega)]
        rw [chunksFrom_nil_of_ge n c fuel (b + c) (by omega)]
        simp
    · have : b = n := by omega
      subst this
      simp [chunksFrom, rangeList]

/-- the `k`-th chunk starting at `b` is `[b + k·c, min(b + k·c + c, n))` -/
theorem chunksFrom_get (n c : Nat) : ∀ (fuel b k : Nat), n ≤ b + fuel * c →
    (chunksFrom n c fuel b)[k]? = if b + k * c < n then some (b + k * c, min (b + k * c + c) n) else none := by
  intro fuel
  induction fuel with
  | zero =>
    intro b k h
    have : ¬ b + k * c < n := by omega
    simp [chunksFrom, this]
  | succ fuel ih =>
    intro b k h
    by_cases hlt : b < n
    · simp only [chunksFrom, hlt, if_true]
      cases k with
      | zero => simp [hlt]
      | succ k =>
        rw [List.getElem?_cons_succ, ih (b + c) k (by rw [Nat.succ_mul] at h; omega)]
        have : b + c + k * c = b + (k + 1) * c := by rw [Nat.succ_mul]; omega
        rw [this]
    · have : ¬ b + k * c < n := by omega
      simp [chunksFrom, hlt, this]

theorem chunks_get' (n c k : Nat) (hc : 0 < c) :
    (chunks n c)[k]? = if k * c < n then some (k * c, min (k * c + c) n) else none := by
  unfold chunks
  rw [chunksFrom_get n c n 0 k (by have : n ≤ n * c := Nat.le_mul_of_pos_right n hc; omega)]
  simp

theorem chunks_length (n c : Nat) (hc : 0 < c) : (chunks n c).length = (n + c - 1) / c := by
  have hget := fun k => chunks_get' n c k hc
  -- the length is the least k with no k-th chunk
  have h1 : n ≤ (chunks n c).length * c := by
    have := hget (chunks n c).length
    rw [List.getElem?_eq_none (Nat.le_refl _)] at this
    by_cases hlt : (chunks n c).length * c < n
    · simp [hlt] at this
    · omega
  have h2 : ∀ k, k < (chunks n c).length → k * c < n := by
    intro k hk
    have := hget k
    by_cases hlt : k * c < n
    · exact hlt
    · rw [if_neg hlt] at this
      have h3 := List.getElem?_eq_none_iff.mp this
      omega
  apply Eq.symm
  apply (Nat.div_eq_iff hc).mpr
  cases hL : (chunks n c).length with
  | zero =>
    rw [hL] at h1
    constructor <;> omega
  | succ L =>
    have := h2 L (by omega)
    rw [hL] at h1
    rw [Nat.succ_mul] at h1
    constructor
    · rw [Nat.succ_mul]; omega
    · rw [Nat.succ_mul]; omega

end NanoVerif.Pool
