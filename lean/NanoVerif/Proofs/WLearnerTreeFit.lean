import NanoVerif.Proofs.WLearnerBrute
import NanoVerif.Proofs.WLearnerTreeRoute
/-!
  C10 — the stump fitted at a node of the tree: its two tables are the mean residuals of the two sides; the fuel of
  `dtreeFit` suffices; a tree of depth 1.
-/
set_option linter.unusedSectionVars false
set_option linter.unusedVariables false

namespace NanoVerif.WLearner
variable {α : Type} [Field α] [LinearOrder α] [IsStrictOrderedRing α]

/-- the two tables of every stump candidate are the mean residuals of the samples left / right of its threshold, and both
    sides are non-empty (any criterion: the tables do not depend on it) -/
theorem stumpCands_means [Log α] (sort : List (Item α) → List (Item α)) (hsort : SortSpec sort)
    (T : Nat) (K : α) (crit : Crit) (f : Nat) (rows : List (Row α)) (c : Cand α)
    (hc : c ∈ stumpCands sort T K crit f rows) :
    c.feature = f ∧ c.tables.length = 2 ∧
    (∀ o, tab c.tables 0 o = meanOf ((leftRows c.thr rows).map (·.r)) o) ∧
    (∀ o, tab c.tables 1 o = meanOf ((rightRows c.thr rows).map (·.r)) o) ∧
    leftRows c.thr rows ≠ [] ∧ rightRows c.thr rows ≠ [] := by
  unfold stumpCands at hc
  obtain ⟨sc, hsc, rfl⟩ := List.mem_map.mp hc
  have hperm := hsort.perm (present rows)
  have hsorted := hsort.sorted (present rows)
  have hspec := sweep_sound Item.upd0 Mom.zero [] (sort (present rows)) (by simpa using hsorted) sc (by simpa using hsc)
  simp only [List.nil_append] at hspec
  obtain ⟨hacc, _, hlne, hrne, _, _⟩ := hspec
  have hneg : sc.2 = momOf ((leftOf sc.1 (sort (present rows))).map (·.r)) := by
    rw [hacc, foldl_itemUpd0]; rfl
  have hsum : (present rows).foldl Item.upd0 Mom.zero = momOf ((present rows).map (·.r)) := by
    rw [foldl_itemUpd0]; rfl
  obtain ⟨hp0, hp1, _⟩ := sub_momOf (present rows) (sort (present rows)) hperm sc.1
  have hthr : (stumpCand T K crit f ((present rows).foldl Item.upd0 Mom.zero) (missRss T rows) (missCnt rows) sc).thr
      = sc.1 := rfl
  rw [hthr]
  refine ⟨rfl, rfl, ?_, ?_, ?_, ?_⟩
  · intro o
    simp only [stumpCand, tab, List.getD_cons_zero]
    rw [hneg, momOf_r1, momOf_x0, leftRows_map]
    unfold meanOf
    rw [List.map_map, List.map_map, countOf_map, countOf_map]
    unfold countOf
    rw [lsum_leftOf_perm _ _ hperm sc.1 (fun _ => (1 : α))]
    have := lsum_leftOf_perm _ _ hperm sc.1 (fun it => it.r o)
    simp only [Function.comp_def]
    rw [this]
  · intro o
    simp only [stumpCand, tab]
    show (((present rows).foldl Item.upd0 Mom.zero).sub sc.2).r1 o / (((present rows).foldl Item.upd0 Mom.zero).sub sc.2).x0 = _
    rw [hsum, hneg, hp0, hp1, momOf_r1, momOf_x0, rightRows_map]
    unfold meanOf
    rw [List.map_map, List.map_map, countOf_map, countOf_map]
    unfold countOf
    rw [lsum_rightOf_perm _ _ hperm sc.1 (fun _ => (1 : α))]
    have := lsum_rightOf_perm _ _ hperm sc.1 (fun it => it.r o)
    simp only [Function.comp_def]
    rw [this]
  · intro he
    have h1 : (leftRows sc.1 rows).map (·.r) = [] := by rw [he]; rfl
    rw [leftRows_map] at h1
    have h2 : leftOf sc.1 (present rows) = [] := by simpa using h1
    obtain ⟨x, hx⟩ := List.exists_mem_of_ne_nil _ hlne
    have : x ∈ leftOf sc.1 (present rows) := (hperm.filter _).subset hx
    rw [h2] at this; simp at this
  · intro he
    have h1 : (rightRows sc.1 rows).map (·.r) = [] := by rw [he]; rfl
    rw [rightRows_map] at h1
    have h2 : rightOf sc.1 (present rows) = [] := by simpa using h1
    obtain ⟨x, hx⟩ := List.exists_mem_of_ne_nil _ hrne
    have : x ∈ rightOf sc.1 (present rows) := (hperm.filter _).subset hx
    rw [h2] at this; simp at this

/-- a fitted node: the candidate is a stump candidate of one of the features, on the rows of the cache's samples -/
theorem stumpFitOn_mem [Log α] [FinTest α] (sort : List (Item α) → List (Item α)) (T : Nat) (K big : α) (crit : Crit)
    (feats : List Nat) (val : Nat → Nat → FVal α) (resid : Nat → Vec α) (sel : List Nat) (c : Cand α)
    (h : stumpFitOn sort T K big crit feats val resid sel = some c) :
    c.score < big ∧ ∃ f ∈ feats, c ∈ stumpCands sort T K crit f (rowsOf val resid sel f) := by
  unfold stumpFitOn at h
  simp only at h
  split at h
  · rename_i hfit
    injection h with h
    subst h
    have hlt : (fitSeq big (feats.flatMap fun f => stumpCands sort T K crit f (rowsOf val resid sel f))).score < big := by
      simpa [Cand.fitted] using hfit
    refine ⟨hlt, ?_⟩
    rcases fitSeq_cache big (feats.flatMap fun f => stumpCands sort T K crit f (rowsOf val resid sel f)) with ⟨he, _⟩ | ⟨hm, _, _⟩
    · rw [he] at hlt; exact absurd hlt (lt_irrefl _)
    · exact List.mem_flatMap.mp hm
  · simp at h

/-- the residuals of the rows left of a threshold are the residuals of the samples `stump.split` puts into group 0 -/
theorem leftRows_rowsOf (val : Nat → Nat → FVal α) (resid : Nat → Vec α) (sel : List Nat) (f : Nat) (thr : α) :
    (leftRows thr (rowsOf val resid sel f)).map (·.r)
      = (sel.filter fun i => stumpSide val f thr i == some 0).map resid := by
  unfold leftRows rowsOf
  induction sel with
  | nil => rfl
  | cons i sel ih =>
    simp only [List.map_cons, List.filter_cons]
    cases hv : val i f with
    | num x =>
      by_cases hx : x < thr
      · simp [stumpSide, hv, sideOf, hx, ih]
      · simp [stumpSide, hv, sideOf, hx, ih]
    | cls c => simp [stumpSide, hv, ih]
    | missing => simp [stumpSide, hv, ih]

theorem rightRows_rowsOf (val : Nat → Nat → FVal α) (resid : Nat → Vec α) (sel : List Nat) (f : Nat) (thr : α) :
    (rightRows thr (rowsOf val resid sel f)).map (·.r)
      = (sel.filter fun i => stumpSide val f thr i == some 1).map resid := by
  unfold rightRows rowsOf
  induction sel with
  | nil => rfl
  | cons i sel ih =>
    simp only [List.map_cons, List.filter_cons]
    cases hv : val i f with
    | num x =>
      by_cases hx : x < thr
      · simp [stumpSide, hv, sideOf, hx, ih]
      · simp [stumpSide, hv, sideOf, hx, ih]
    | cls c => simp [stumpSide, hv, ih]
    | missing => simp [stumpSide, hv, ih]


/-! ### the fuel of `dtreeFit` suffices -/

/-- an upper bound of the number of caches still to be processed: a cache at depth `d` spawns at most `2^(m−d) − 1` -/
def qweight (m : Nat) : List TCache → Nat
  | [] => 0
  | c :: q => (2 ^ (m - c.depth) - 1) + qweight m q

theorem qweight_append (m : Nat) (a b : List TCache) : qweight m (a ++ b) = qweight m a + qweight m b := by
  induction a with
  | nil => simp [qweight]
  | cons c a ih => simp [qweight, ih]; omega

theorem dtreeLoop_fuel (cfg : TreeCfg α) :
    ∀ (fuel : Nat) (queue : List TCache) (st : TState α), (∀ c ∈ queue, c.depth < cfg.maxDepth) →
      qweight cfg.maxDepth queue ≤ fuel → dtreeLoop cfg fuel queue st ≠ .fuel := by
  intro fuel
  induction fuel with
  | zero =>
    intro queue st hd hw
    cases queue with
    | nil => simp [dtreeLoop]
    | cons c rest =>
      exfalso
      have hc := hd c (by simp)
      have : 2 ^ 1 ≤ 2 ^ (cfg.maxDepth - c.depth) := Nat.pow_le_pow_right (by omega) (by omega)
      simp [qweight] at hw
      omega
  | succ fuel ih =>
    intro queue st hd hw
    cases queue with
    | nil => simp [dtreeLoop]
    | cons c rest =>
      simp only [dtreeLoop]
      cases hf : cfg.fit c.samples with
      | none => simp
      | some cand =>
        simp only
        obtain ⟨term, _, _, hT, hN⟩ := dtreeStep_spec cfg st c cand
        have hc := hd c (by simp)
        have h2 : 2 ^ 1 ≤ 2 ^ (cfg.maxDepth - c.depth) := Nat.pow_le_pow_right (by omega) (by omega)
        simp only [qweight] at hw
        apply ih
        · intro c' hc'
          rcases List.mem_append.mp hc' with hc' | hc'
          · exact hd c' (by simp [hc'])
          · cases term with
            | true => rw [(hT rfl).2.2.2] at hc'; simp at hc'
            | false =>
              obtain ⟨_, hdd, _, hpush⟩ := hN rfl
              rw [hpush] at hc'
              simp at hc'
              rcases hc' with rfl | rfl <;> exact hdd
        · rw [qweight_append]
          cases term with
          | true => rw [(hT rfl).2.2.2]; simp [qweight]; omega
          | false =>
            obtain ⟨_, hdd, _, hpush⟩ := hN rfl
            rw [hpush]
            simp only [qweight]
            have hpow : 2 ^ (cfg.maxDepth - c.depth) = 2 * 2 ^ (cfg.maxDepth - (c.depth + 1)) := by
              have : cfg.maxDepth - c.depth = (cfg.maxDepth - (c.depth + 1)) + 1 := by omega
              rw [this, Nat.pow_succ]; omega
            have h3 : 2 ^ 1 ≤ 2 ^ (cfg.maxDepth - (c.depth + 1)) := Nat.pow_le_pow_right (by omega) (by omega)
            omega

/-- do_fit ends by itself: the model's fuel `2^max_depth` is never exhausted -/
theorem dtreeFit_fuel_enough' (cfg : TreeCfg α) (hd : 1 ≤ cfg.maxDepth) (samples : List Nat) :
    dtreeFit cfg samples ≠ .fuel := by
  unfold dtreeFit
  apply dtreeLoop_fuel cfg
  · intro c hc; simp at hc; subst hc; exact hd
  · simp [qweight]

/-! ### a walk never gets stuck on a fitted tree, whatever the sample -/

theorem route_not_stuck {cfg : TreeCfg α} {samples0 : List Nat} {st : TState α} (h : TInv cfg samples0 st []) :
    ∀ (n j : Nat) (e : TEntry α), st.log[j]? = some e → st.log.length - j ≤ n → ∀ (s : Nat → FVal α) (fuel : Nat),
      st.log.length - j ≤ fuel → dtreeRoute st.nodes s fuel (2 * j) ≠ .stuck := by
  intro n
  induction n with
  | zero =>
    intro j e he hn
    have : j < st.log.length := (List.getElem?_eq_some_iff.mp he).1
    omega
  | succ n ih =>
    intro j e he hn s fuel hfuel
    have hjlt : j < st.log.length := (List.getElem?_eq_some_iff.mp he).1
    obtain ⟨f, rfl⟩ : ∃ f, fuel = f + 1 := ⟨fuel - 1, by omega⟩
    by_cases hv : ∃ v, s e.cand.feature = .num v
    · obtain ⟨v, hv⟩ := hv
      cases hterm : e.terminal with
      | true => rw [route_terminal h j e he hterm _ v hv]; simp
      | false =>
        rw [route_nonterminal h j e he hterm _ v hv]
        have hg : sideOf v e.cand.thr < 2 := by unfold sideOf; split <;> omega
        obtain ⟨e', he', hlt, _, _⟩ := h.child j e he hterm _ hg
        exact ih _ e' he' (by omega) s f (by omega)
    · have hv' : ∀ v, s e.cand.feature ≠ .num v := fun v hh => hv ⟨v, hh⟩
      rw [route_missing h j e he _ hv']; simp

end NanoVerif.WLearner
