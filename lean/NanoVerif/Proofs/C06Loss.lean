import NanoVerif.Proofs.C06Vec
/-!
  C06 — the piecewise-polynomial loss kernels (mae, mse, hinge, squared hinge, pinball) over an arbitrary linear ordered
  field: tangent inequalities of the scalar kernels, non-negativity, and the error measures of `error.h`.
-/
set_option linter.unusedSectionVars false
set_option linter.unusedVariables false

namespace NanoVerif.C06
open NanoVerif.Loss NanoVerif.Fn

variable {α : Type} [Field α] [LinearOrder α] [IsStrictOrderedRing α]

/-! ### scalar helpers -/

theorem abs'_eq (x : α) : abs' x = |x| := by
  unfold abs'; split
  · rename_i h; rw [abs_of_neg h]
  · rename_i h; rw [abs_of_nonneg (not_lt.mp h)]

theorem abs'_nonneg (x : α) : 0 ≤ abs' x := by rw [abs'_eq]; exact abs_nonneg x

theorem max0_eq (x : α) : max0 x = max x 0 := by
  unfold max0; split
  · rename_i h; rw [max_eq_left (le_of_lt h)]
  · rename_i h; rw [max_eq_right (not_lt.mp h)]

theorem max0_nonneg (x : α) : 0 ≤ max0 x := by rw [max0_eq]; exact le_max_right _ _
theorem le_max0 (x : α) : x ≤ max0 x := by rw [max0_eq]; exact le_max_left _ _

/-! ### tangent inequalities of the scalar kernels -/

theorem maeK_subgrad (t x z : α) : maeV t z ≥ maeV t x + maeG t x * (z - x) := by
  unfold maeV maeG abs' sign'
  split_ifs <;> nlinarith

theorem mseK_subgrad (t x z : α) : 1 / 2 * mseV t z ≥ 1 / 2 * mseV t x + mseG t x * (z - x) := by
  unfold mseV mseG
  nlinarith [sq_nonneg (z - x)]

theorem hingeK_subgrad (t x z : α) : hingeV t z ≥ hingeV t x + hingeG t x * (z - x) := by
  unfold hingeV hingeG max0 sign'
  split_ifs <;> nlinarith

theorem sqhingeK_subgrad (t x z : α) : sqhingeV t z ≥ sqhingeV t x + sqhingeG t x * (z - x) := by
  unfold sqhingeV sqhingeG max0
  split_ifs with h1 h2 h2
  · nlinarith [sq_nonneg (t * z - t * x)]
  · nlinarith [sq_nonneg (1 - t * x)]
  · nlinarith [sq_nonneg (1 - t * z)]
  · nlinarith

theorem pinballK_subgrad (a : α) (h0 : 0 ≤ a) (h1 : a ≤ 1) (t x z : α) :
    pinballV a t z ≥ pinballV a t x + pinballG a t x * (z - x) := by
  unfold pinballV pinballG max0 sign'
  split_ifs <;> nlinarith

/-! ### non-negativity of the kernels -/

theorem maeV_nonneg (t o : α) : 0 ≤ maeV t o := abs'_nonneg _
theorem mseV_nonneg (t o : α) : 0 ≤ mseV t o := mul_self_nonneg _
theorem hingeV_nonneg (t o : α) : 0 ≤ hingeV t o := max0_nonneg _
theorem sqhingeV_nonneg (t o : α) : 0 ≤ sqhingeV t o := mul_self_nonneg _
theorem pinballV_nonneg (a : α) (h0 : 0 ≤ a) (h1 : a ≤ 1) (t o : α) : 0 ≤ pinballV a t o := by
  unfold pinballV
  have := max0_nonneg (t - o); have := max0_nonneg (o - t)
  have : 0 ≤ 1 - a := by linarith
  positivity

/-! ### error measures -/

theorem absdiffE_nonneg (t o : List α) : 0 ≤ absdiffE t o :=
  sum2_nonneg _ (fun _ _ => abs'_nonneg _) t o

theorem mclassE_nonneg (eps : α) (t o : List α) : 0 ≤ mclassE eps t o := by
  unfold mclassE; exact Nat.cast_nonneg _

theorem sclassE_nonneg (eps : α) (t o : List α) : 0 ≤ sclassE eps t o := by
  unfold sclassE
  split
  · split
    · split <;> norm_num
    · norm_num
  · exact mclassE_nonneg eps t o

/-- the decision rule behind `target * output < eps` for a `±1` target: the label is predicted positive when
    `output ≥ eps`, negative when `output ≤ -eps`; an output inside `(-eps, eps)` is always counted as an error -/
theorem edge_lt_iff (eps t o : α) (ht : t = 1 ∨ t = -1) :
    t * o < eps ↔ ¬ ((t = 1 ∧ eps ≤ o) ∨ (t = -1 ∧ o ≤ -eps)) := by
  rcases ht with h | h <;> subst h
  · constructor
    · intro h1 h2
      rcases h2 with ⟨_, h3⟩ | ⟨h3, _⟩
      · linarith
      · linarith
    · intro h1
      by_contra h2
      exact h1 (Or.inl ⟨rfl, by linarith⟩)
  · constructor
    · intro h1 h2
      rcases h2 with ⟨h3, _⟩ | ⟨_, h3⟩
      · linarith
      · linarith
    · intro h1
      by_contra h2
      exact h1 (Or.inr ⟨rfl, by linarith⟩)

/-- number of positions whose output does not decide for the target's label -/
def countWrong (eps : α) : List α → List α → Nat
  | t :: ts, o :: os =>
    (if (t = 1 ∧ eps ≤ o) ∨ (t = -1 ∧ o ≤ -eps) then 0 else 1) + countWrong eps ts os
  | _, _ => 0

theorem countEdges_eq_countWrong (eps : α) : ∀ (t o : List α), (∀ v ∈ t, v = 1 ∨ v = -1) →
    countEdges eps t o = countWrong eps t o
  | [], _, _ => by simp [countEdges, countWrong]
  | _ :: _, [], _ => by simp [countEdges, countWrong]
  | t :: ts, o :: os, h => by
    have ih := countEdges_eq_countWrong eps ts os (fun v hv => h v (by simp [hv]))
    have ht := h t (by simp)
    simp only [countEdges, countWrong, ih]
    congr 1
    by_cases hc : t * o < eps
    · have := (edge_lt_iff eps t o ht).1 hc
      simp [hc, this]
    · have : (t = 1 ∧ eps ≤ o) ∨ (t = -1 ∧ o ≤ -eps) := by
        by_contra h2; exact hc ((edge_lt_iff eps t o ht).2 h2)
      simp [hc, this]

/-! ### `maxCoeff` -/

theorem maxCoeff_foldl_mem : ∀ (xs : List α) (x : α),
    xs.foldl (fun m y => if m < y then y else m) x ∈ x :: xs
  | [], x => by simp
  | y :: ys, x => by
    simp only [List.foldl]
    have ih := maxCoeff_foldl_mem ys (if x < y then y else x)
    split at ih
    · simp only [List.mem_cons] at ih ⊢
      rcases ih with h | h
      · right; left; rename_i hh; simp only [hh, if_true]; exact h
      · right; right; rename_i hh; simp only [hh, if_true]; exact h
    · simp only [List.mem_cons] at ih ⊢
      rename_i hh
      rcases ih with h | h
      · left; simp only [hh, if_false]; exact h
      · right; right; simp only [hh, if_false]; exact h

theorem maxCoeff_mem (o : List α) (hne : o ≠ []) : maxCoeff o ∈ o := by
  cases o with
  | nil => exact absurd rfl hne
  | cons x xs => exact maxCoeff_foldl_mem xs x

theorem maxCoeff_foldl_ge : ∀ (xs : List α) (x : α), ∀ v ∈ x :: xs,
    v ≤ xs.foldl (fun m y => if m < y then y else m) x
  | [], x, v, hv => by simp at hv; simp [hv]
  | y :: ys, x, v, hv => by
    simp only [List.foldl]
    have ih := maxCoeff_foldl_ge ys (if x < y then y else x)
    have hstep : x ≤ (if x < y then y else x) ∧ y ≤ (if x < y then y else x) := by
      split
      · rename_i h; exact ⟨le_of_lt h, le_refl _⟩
      · rename_i h; exact ⟨le_refl _, not_lt.mp h⟩
    have hm := ih (if x < y then y else x) (by simp)
    simp only [List.mem_cons] at hv
    rcases hv with h | h | h
    · rw [h]; exact le_trans hstep.1 hm
    · rw [h]; exact le_trans hstep.2 hm
    · exact ih v (by simp [h])

theorem maxCoeff_ge (o : List α) : ∀ v ∈ o, v ≤ maxCoeff o := by
  cases o with
  | nil => intro v hv; simp at hv
  | cons x xs => exact maxCoeff_foldl_ge xs x

/-! ### arg-max -/

theorem argmaxAux_spec : ∀ (ys : List α) (m : α) (best cur : Nat) (pre : List α),
    pre.length = cur → best < cur → pre[best]? = some m → (∀ (j : Nat) (v : α), pre[j]? = some v → v ≤ m) →
    (∀ (j : Nat), j < best → ∀ (v : α), pre[j]? = some v → v < m) →
    let r := argmaxAux ys m best cur
    ∃ mv, (pre ++ ys)[r]? = some mv ∧ (∀ (j : Nat) (v : α), (pre ++ ys)[j]? = some v → v ≤ mv) ∧
      (∀ (j : Nat), j < r → ∀ (v : α), (pre ++ ys)[j]? = some v → v < mv)
  | [], m, best, cur, pre, hl, hb, hm, hmax, hfirst => by
    simp only [argmaxAux, List.append_nil]
    exact ⟨m, hm, fun j v hv => hmax j v hv, hfirst⟩
  | y :: ys, m, best, cur, pre, hl, hb, hm, hmax, hfirst => by
    simp only [argmaxAux]
    have happ : pre ++ y :: ys = (pre ++ [y]) ++ ys := by simp
    split
    · rename_i hlt
      rw [happ]
      apply argmaxAux_spec ys y cur (cur + 1) (pre ++ [y])
      · simp [hl]
      · omega
      · rw [List.getElem?_append_right (by omega)]; simp [hl]
      · intro j v hv
        by_cases hj : j < pre.length
        · rw [List.getElem?_append_left hj] at hv
          exact le_of_lt (lt_of_le_of_lt (hmax j v hv) hlt)
        · rw [List.getElem?_append_right (by omega)] at hv
          have : j - pre.length = 0 := by
            by_contra hne
            have : (([y] : List α))[j - pre.length]? = none := by
              apply List.getElem?_eq_none; simp; omega
            rw [this] at hv; cases hv
          rw [this] at hv; simp at hv; rw [← hv]
      · intro j hj v hv
        have hj' : j < pre.length := by omega
        rw [List.getElem?_append_left hj'] at hv
        exact lt_of_le_of_lt (hmax j v hv) hlt
    · rename_i hnlt
      rw [happ]
      apply argmaxAux_spec ys m best (cur + 1) (pre ++ [y])
      · simp [hl]
      · omega
      · rw [List.getElem?_append_left (by omega)]; exact hm
      · intro j v hv
        by_cases hj : j < pre.length
        · rw [List.getElem?_append_left hj] at hv; exact hmax j v hv
        · rw [List.getElem?_append_right (by omega)] at hv
          have : j - pre.length = 0 := by
            by_contra hne
            have : (([y] : List α))[j - pre.length]? = none := by
              apply List.getElem?_eq_none; simp; omega
            rw [this] at hv; cases hv
          rw [this] at hv; simp at hv; rw [← hv]; exact not_lt.mp hnlt
      · intro j hj v hv
        have hj' : j < pre.length := by omega
        rw [List.getElem?_append_left hj'] at hv
        exact hfirst j hj v hv

/-- `argmax o` is the index of the first maximum of a non-empty list -/
theorem argmax_spec_aux (o : List α) (hne : o ≠ []) :
    ∃ mv, o[argmax o]? = some mv ∧ (∀ (j : Nat) (v : α), o[j]? = some v → v ≤ mv) ∧
      (∀ (j : Nat), j < argmax o → ∀ (v : α), o[j]? = some v → v < mv) := by
  cases o with
  | nil => exact absurd rfl hne
  | cons x xs =>
    have := argmaxAux_spec xs x 0 1 [x] rfl (by omega) (by simp)
      (by intro j v hv; cases j with
          | zero => simp at hv; rw [← hv]
          | succ j => simp at hv)
      (by intro j hj; omega)
    simpa [argmax] using this

end NanoVerif.C06
