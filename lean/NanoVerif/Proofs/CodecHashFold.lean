import NanoVerif.Proofs.TensorHash
/-!
  C15 — how far the content hash of a tensor stream (`hash.h`: the `hash_combine` fold from 0) detects a changed
  element that is NOT the last one (core Lean only).

  `hash_combine(seed, ·)` is injective, `hash_combine(·, h)` is not (`hashCombine_collision`). What survives:
  write `seed = 4·u + r`; for fixed `r` the low 62 bits of `hash_combine(seed, h)` are a triangular (bit `i` of the
  result = bit `i` of `u` xor a function of the lower bits) function of `u`. Hence two running hashes whose lowest
  differing bit is `p ≥ 2` are mapped to running hashes whose lowest differing bit is `p - 2`: a difference survives
  `p / 2` further folds for sure. Differences in bit 0 or 1 can be cancelled by the next fold (the collisions).
-/
namespace NanoVerif.Codec
open NanoVerif.Gen.CodecConsts

/-- the low `p` bits agree -/
def LowAgree (p : Nat) (x y : UInt64) : Prop := x.toNat % 2 ^ p = y.toNat % 2 ^ p

/-- the lowest bit in which `x` and `y` differ is bit `p` -/
def LowDiff (p : Nat) (x y : UInt64) : Prop := LowAgree p x y ∧ ¬ LowAgree (p + 1) x y

instance (p : Nat) (x y : UInt64) : Decidable (LowDiff p x y) := by unfold LowDiff LowAgree; infer_instance

/-! ### arithmetic modulo powers of two -/

theorem mod_add_cancel (Q E E' u v : Nat) (hQ : 0 < Q) (hE : E % Q = E' % Q) (h : (E + u) % Q = (E' + v) % Q) :
    u % Q = v % Q := by
  rw [Nat.add_mod E u, Nat.add_mod E' v, ← hE] at h
  have he : E % Q < Q := Nat.mod_lt _ hQ
  have hu : u % Q < Q := Nat.mod_lt _ hQ
  have hv : v % Q < Q := Nat.mod_lt _ hQ
  generalize E % Q = e at h he
  generalize u % Q = a at h hu ⊢
  generalize v % Q = b at h hv ⊢
  by_cases c1 : e + a < Q <;> by_cases c2 : e + b < Q
  · rw [Nat.mod_eq_of_lt c1, Nat.mod_eq_of_lt c2] at h; omega
  · rw [Nat.mod_eq_of_lt c1, Nat.mod_eq_sub_mod (by omega), Nat.mod_eq_of_lt (by omega)] at h; omega
  · rw [Nat.mod_eq_sub_mod (by omega), Nat.mod_eq_of_lt (by omega), Nat.mod_eq_of_lt c2] at h; omega
  · rw [Nat.mod_eq_sub_mod (by omega), Nat.mod_eq_of_lt (by omega), Nat.mod_eq_sub_mod (by omega),
      Nat.mod_eq_of_lt (by omega)] at h; omega

theorem mod_add_congr (Q a a' b b' : Nat) (ha : a % Q = a' % Q) (hb : b % Q = b' % Q) :
    (a + b) % Q = (a' + b') % Q := by
  rw [Nat.add_mod a b, Nat.add_mod a' b', ha, hb]

theorem mod_pow_le {p q : Nat} (h : q ≤ p) {a b : Nat} (hab : a % 2 ^ p = b % 2 ^ p) : a % 2 ^ q = b % 2 ^ q := by
  have hd : 2 ^ q ∣ 2 ^ p := Nat.pow_dvd_pow 2 h
  rw [← Nat.mod_mod_of_dvd a hd, ← Nat.mod_mod_of_dvd b hd, hab]

/-- `(a >> 2) mod 2^q` is `(a mod 2^(q+2)) >> 2` -/
theorem div4_mod (a q : Nat) : a / 4 % 2 ^ q = a % 2 ^ (q + 2) / 4 := by
  have e : 2 ^ (q + 2) = 4 * 2 ^ q := by rw [Nat.pow_add]; omega
  rw [e, Nat.mod_mul_right_div_self]

theorem xor_cancel_nat (a x y : Nat) (h : a ^^^ x = a ^^^ y) : x = y := by
  have h' := congrArg (fun t => a ^^^ t) h
  simpa [← Nat.xor_assoc] using h'

/-! ### `hash_combine` on naturals -/

/-- the value `hash + 0x9e3779b9 + (seed << 6) + (seed >> 2)` before the reduction modulo `2^64` -/
def mixSum (s h : Nat) : Nat := h + 2654435769 + s * 64 + s / 4

theorem hashCombine_toNat (s h : UInt64) :
    (hashCombine s h).toNat = s.toNat ^^^ (mixSum s.toNat h.toNat % 2 ^ 64) := by
  unfold hashCombine mixSum
  simp only [UInt64.toNat_xor, UInt64.toNat_add, UInt64.toNat_shiftLeft, UInt64.toNat_shiftRight,
    Nat.shiftLeft_eq, Nat.shiftRight_eq_div_pow]
  have e6 : (6 : UInt64).toNat % 64 = 6 := by decide
  have e2 : (2 : UInt64).toNat % 64 = 2 := by decide
  have eC : (2654435769 : UInt64).toNat = 2654435769 := by decide
  rw [e6, e2, eC]
  congr 1
  have e64 : (2 : Nat) ^ 64 = 18446744073709551616 := by decide
  have e26 : (2 : Nat) ^ 6 = 64 := by decide
  have e22 : (2 : Nat) ^ 2 = 4 := by decide
  rw [e64, e26, e22]
  omega

theorem low_of_hashCombine (q : Nat) (hq : q ≤ 64) (s h : UInt64) :
    (hashCombine s h).toNat % 2 ^ q = s.toNat % 2 ^ q ^^^ mixSum s.toNat h.toNat % 2 ^ q := by
  rw [hashCombine_toNat, Nat.xor_mod_two_pow, Nat.mod_mod_of_dvd _ (Nat.pow_dvd_pow 2 hq)]

theorem lowDiff_le (p : Nat) (x y : UInt64) (h : LowDiff p x y) : p + 1 ≤ 64 := by
  rcases Nat.lt_or_ge p 64 with c | c
  · omega
  · exfalso
    apply h.2
    have hx : x.toNat < 2 ^ 64 := x.toNat_lt
    have hy : y.toNat < 2 ^ 64 := y.toNat_lt
    have hp : 2 ^ 64 ≤ 2 ^ p := Nat.pow_le_pow_right (by decide) c
    have hp1 : 2 ^ 64 ≤ 2 ^ (p + 1) := Nat.pow_le_pow_right (by decide) (by omega)
    have := h.1
    unfold LowAgree at this ⊢
    rw [Nat.mod_eq_of_lt (by omega), Nat.mod_eq_of_lt (by omega)] at this
    rw [this]

theorem lowDiff_ne (p : Nat) (x y : UInt64) (h : LowDiff p x y) : x ≠ y := by
  intro e; subst e; exact h.2 rfl

/-- the changed element: the difference enters the running hash at the same bit -/
theorem hashCombine_lowDiff_right (p : Nat) (s a b : UInt64) (h : LowDiff p a b) :
    LowDiff p (hashCombine s a) (hashCombine s b) := by
  have hp := lowDiff_le p a b h
  have hs : ∀ q, (s.toNat * 64 + s.toNat / 4 + 2654435769) % 2 ^ q = (s.toNat * 64 + s.toNat / 4 + 2654435769) % 2 ^ q :=
    fun _ => rfl
  have em : ∀ x : Nat, mixSum s.toNat x = (s.toNat * 64 + s.toNat / 4 + 2654435769) + x := by
    intro x; unfold mixSum; omega
  refine ⟨?_, ?_⟩
  · unfold LowAgree
    rw [low_of_hashCombine p (by omega), low_of_hashCombine p (by omega), em, em]
    rw [mod_add_congr _ _ _ _ _ (hs p) h.1]
  · intro hc
    apply h.2
    unfold LowAgree at hc ⊢
    rw [low_of_hashCombine (p + 1) (by omega), low_of_hashCombine (p + 1) (by omega), em, em] at hc
    exact mod_add_cancel _ _ _ _ _ (Nat.pow_pos (by decide)) (hs (p + 1)) (xor_cancel_nat _ _ _ hc)

/-- one more fold: running hashes whose lowest differing bit is `p + 2` become running hashes whose lowest differing
    bit is `p` -/
theorem hashCombine_lowDiff_left (p : Nat) (s1 s2 h : UInt64) (hd : LowDiff (p + 2) s1 s2) :
    LowDiff p (hashCombine s1 h) (hashCombine s2 h) := by
  have hp := lowDiff_le (p + 2) s1 s2 hd
  obtain ⟨hag, hne⟩ := hd
  unfold LowAgree at hag hne
  have em : ∀ s : Nat, mixSum s h.toNat = (h.toNat + 2654435769 + s * 64) + s / 4 := by
    intro s; unfold mixSum; omega
  have h64 : ∀ q, q ≤ p + 2 → (h.toNat + 2654435769 + s1.toNat * 64) % 2 ^ q = (h.toNat + 2654435769 + s2.toNat * 64) % 2 ^ q := by
    intro q hq
    apply mod_add_congr _ _ _ _ _ rfl
    rw [Nat.mul_mod s1.toNat, Nat.mul_mod s2.toNat, mod_pow_le hq hag]
  refine ⟨?_, ?_⟩
  · unfold LowAgree
    rw [low_of_hashCombine p (by omega), low_of_hashCombine p (by omega), em, em, mod_pow_le (by omega) hag]
    congr 1
    apply mod_add_congr _ _ _ _ _ (h64 p (by omega))
    rw [div4_mod, div4_mod, hag]
  · intro hc
    apply hne
    unfold LowAgree at hc
    rw [low_of_hashCombine (p + 1) (by omega), low_of_hashCombine (p + 1) (by omega), em, em,
      mod_pow_le (by omega : p + 1 ≤ p + 2) hag] at hc
    have hc' := mod_add_cancel _ _ _ _ _ (Nat.pow_pos (by decide)) (h64 (p + 1) (by omega)) (xor_cancel_nat _ _ _ hc)
    rw [div4_mod, div4_mod] at hc'
    -- the low two bits agree, the quotients by 4 agree
    have h4 : s1.toNat % 2 ^ (p + 1 + 2) % 4 = s2.toNat % 2 ^ (p + 1 + 2) % 4 := by
      have d4 : 4 ∣ 2 ^ (p + 1 + 2) := by
        have : (4 : Nat) = 2 ^ 2 := by decide
        rw [this]; exact Nat.pow_dvd_pow 2 (by omega)
      rw [Nat.mod_mod_of_dvd _ d4, Nat.mod_mod_of_dvd _ d4]
      have d4' : 4 ∣ 2 ^ (p + 2) := by
        have : (4 : Nat) = 2 ^ 2 := by decide
        rw [this]; exact Nat.pow_dvd_pow 2 (by omega)
      rw [← Nat.mod_mod_of_dvd s1.toNat d4', ← Nat.mod_mod_of_dvd s2.toNat d4', hag]
    have e : p + 2 + 1 = p + 1 + 2 := by omega
    rw [e]
    omega

/-- `m` further folds keep a difference whose lowest bit is at least `2 m` -/
theorem foldl_lowDiff (post : List UInt64) : ∀ (p : Nat) (s1 s2 : UInt64), LowDiff (p + 2 * post.length) s1 s2 →
    LowDiff p (post.foldl hashCombine s1) (post.foldl hashCombine s2) := by
  induction post with
  | nil => intro p s1 s2 h; simpa using h
  | cons x xs ih =>
    intro p s1 s2 h
    simp only [List.foldl_cons]
    apply ih
    apply hashCombine_lowDiff_left
    have e : p + 2 * (x :: xs).length = p + 2 * xs.length + 2 := by simp [List.length_cons]; omega
    rw [e] at h; exact h

/-- the fold over the elements detects the replacement of one element by another whose lowest changed bit `p` is at
    least twice the number of elements that follow -/
theorem hashList_lowDiff (pre post : List UInt64) (a b : UInt64) (p : Nat) (h : LowDiff p a b)
    (hp : 2 * post.length ≤ p) : hashList (pre ++ a :: post) ≠ hashList (pre ++ b :: post) := by
  unfold hashList
  simp only [List.foldl_append, List.foldl_cons]
  have h1 := hashCombine_lowDiff_right p (pre.foldl hashCombine 0) a b h
  have e : p = (p - 2 * post.length) + 2 * post.length := by omega
  rw [e] at h1
  exact lowDiff_ne _ _ _ (foldl_lowDiff post _ _ _ h1)

/-- `hash_combine` is NOT injective in the running hash: two different running hashes, one element, one result -/
theorem hashCombine_collision :
    (0x9e3779b9 : UInt64) ≠ 0xc246d47cd128ea84 ∧ hashCombine 0x9e3779b9 0 = hashCombine 0xc246d47cd128ea84 0 := by
  decide

/-! ### chunking in the middle of a payload -/

theorem chunkN_append (sz : Nat) : ∀ (n m : Nat) (x y : Bytes), x.length = n * sz →
    chunkN sz (n + m) (x ++ y) = chunkN sz n x ++ chunkN sz m y
  | 0, m, x, y, hx => by
    have : x = [] := List.length_eq_zero_iff.mp (by simpa using hx)
    subst this
    simp [chunkN]
  | n + 1, m, x, y, hx => by
    have hle : sz ≤ x.length := by rw [hx, Nat.succ_mul]; omega
    have hd : (x.drop sz).length = n * sz := by rw [List.length_drop, hx, Nat.succ_mul]; omega
    have e : n + 1 + m = (n + m) + 1 := by omega
    rw [e, chunkN, List.take_append_of_le_length hle, List.drop_append_of_le_length hle,
      chunkN_append sz n m (x.drop sz) y hd]
    simp [chunkN]

theorem chunkN_length (sz : Nat) : ∀ (n : Nat) (bs : Bytes), (chunkN sz n bs).length = n
  | 0, _ => rfl
  | n + 1, bs => by simp [chunkN, chunkN_length sz n]

theorem chunkN_one (sz : Nat) (a : Bytes) (ha : a.length = sz) : chunkN sz 1 a = [a] := by
  simp [chunkN, ← ha]

/-- flipping bit `q` of a 64-bit value: the lowest differing bit is `q` -/
theorem lowDiff_flip (x : UInt64) (q : Nat) (hq : q < 64) : LowDiff q x (x ^^^ UInt64.ofNat (2 ^ q)) := by
  have e : (UInt64.ofNat (2 ^ q)).toNat = 2 ^ q := by
    rw [UInt64.toNat_ofNat']
    exact Nat.mod_eq_of_lt (Nat.pow_lt_pow_right (by decide) hq)
  unfold LowDiff LowAgree
  rw [UInt64.toNat_xor, e]
  refine ⟨?_, ?_⟩
  · rw [Nat.xor_mod_two_pow, Nat.mod_self, Nat.xor_zero]
  · intro h
    rw [Nat.xor_mod_two_pow] at h
    have h2 : 2 ^ q % 2 ^ (q + 1) = 2 ^ q := Nat.mod_eq_of_lt (Nat.pow_lt_pow_right (by decide) (by omega))
    rw [h2] at h
    have h0 := xor_cancel_nat (x.toNat % 2 ^ (q + 1)) 0 (2 ^ q) (by rw [Nat.xor_zero]; exact h)
    have : 0 < 2 ^ q := Nat.pow_pos (by decide)
    omega

/-- the tensor reader on a stream whose payload had one element replaced: refused whenever the lowest changed bit of
    the element (as the 64-bit value the hash sees) is at least twice the number of elements that follow it -/
theorem tensor_element_replaced (k : Scalar) (rank : Nat) (hr : rank < 4294967296) (ds : List Int)
    (i m p : Nat) (pre a b post rest : Bytes) (hl : ds.length = rank) (hd : ∀ d ∈ ds, I32 d)
    (hn : dimsSize ds = ((i + (1 + m) : Nat) : Int)) (hpre : pre.length = i * k.size) (ha : a.length = k.size)
    (hb : b.length = k.size) (hpost : post.length = m * k.size)
    (hdiff : LowDiff p (elemHash k a) (elemHash k b)) (hp : 2 * m ≤ p) :
    (tensor k rank).dec (tensorStreamWith k rank ds (pre ++ (a ++ post)) (pre ++ (b ++ post)) ++ rest) = none := by
  have h0 : 0 ≤ dimsSize ds := by omega
  have hN : (dimsSize ds).toNat = i + (1 + m) := by omega
  have hlen : (pre ++ (b ++ post)).length = (dimsSize ds).toNat * k.size := by
    rw [hN, List.length_append, List.length_append, hpre, hb, hpost, Nat.add_mul, Nat.add_mul]; omega
  rw [tensor_dec_with k rank hr ds _ _ rest hl hd h0 hlen, hN, if_neg]
  unfold hashPayload
  rw [chunkN_append k.size i (1 + m) pre (a ++ post) hpre, chunkN_append k.size i (1 + m) pre (b ++ post) hpre,
    chunkN_append k.size 1 m a post (by omega), chunkN_append k.size 1 m b post (by omega),
    chunkN_one k.size a ha, chunkN_one k.size b hb]
  simp only [List.map_append, List.map_cons, List.singleton_append]
  refine hashList_lowDiff _ _ _ _ p hdiff ?_
  rw [List.length_map, chunkN_length]; exact hp


end NanoVerif.Codec
