import NanoVerif.Proofs.LSearchQuadOver
/-!
  C07 — helper lemmas: LeMaréchal on a convex quadratic `φ(t) = f0 + g0 t + h t²/2` from EVERY positive first trial step, with
  an interpolation that is exact on quadratic data (`InterpExact`), `c1 ≤ 1/2`, `0 < c2 < 1`.

  Write `A = (1 - c2) t*` (Wolfe ⇔ `A ≤ t`), `T = 2 (1 - c1) t*` (Armijo ⇔ `t ≤ T`), `A < t* ≤ T`.
  * expansion phase (`R` unset): the step is multiplied by `tau1` while `t < A`; it ends with an accepted step or with `R = t > T`;
  * bracket phase (`L.t < A`, `T < R.t`): the trial is `clamp(t*, L.t + s W, R.t - s W)`, `W = R.t - L.t`; it is accepted, or it was
    clamped and becomes the new `R` (resp. `L`), and the width of the bracket is multiplied by `s = safeguard`. Since the bracket
    always contains `[A, T]`, this can happen at most `j` times when `s^j W < T - A`.
-/
namespace NanoVerif.LSearch
open NanoVerif.Gen.LsPredicates

set_option linter.unusedSectionVars false
set_option linter.unusedVariables false

variable {α : Type} [Field α] [LinearOrder α] [IsStrictOrderedRing α]

/-- success on the quadratic: a positive step, the state is the evaluation there (the acceptance conditions then follow from the
    general `…_spec` theorems) -/
def QuadOK (f0 g0 h : α) (r : Res α) : Prop := r.ok = true ∧ 0 < r.t ∧ r.ctx.cur = quadLine f0 g0 h r.t

theorem clamp_lt_cases {v lo hi : α} (h : lo ≤ hi) :
    (clamp v lo hi = v ∧ lo ≤ v ∧ v ≤ hi) ∨ (clamp v lo hi = lo ∧ v < lo) ∨ (clamp v lo hi = hi ∧ hi < v) := by
  unfold clamp
  by_cases h1 : v < lo
  · right; left; simp [h1]
  · by_cases h2 : hi < v
    · right; right; simp [h1, h2]
    · left; simp [h1, h2]; exact ⟨not_lt.mp h1, not_lt.mp h2⟩

theorem lemInterp_quad (cfg : Cfg α) (f0 g0 h : α) (hI : InterpExact cfg f0 g0 h) (L R : Step α) (hL : OnQuad f0 g0 h L)
    (hR : OnQuad f0 g0 h R) (hne : L.t ≠ R.t) :
    lemInterp cfg L R = clamp (tstar g0 h) (L.t + cfg.safeguard * (R.t - L.t)) (R.t - cfg.safeguard * (R.t - L.t)) := by
  unfold lemInterp; rw [hI L R hL hR hne]

section
variable (cfg : Cfg α) (f0 g0 h : α) (hg : g0 < 0) (hh : 0 < h) (hI : InterpExact cfg f0 g0 h)
  (hs0 : 0 < cfg.safeguard) (hs1 : cfg.safeguard ≤ 1 / 2) (hc1 : cfg.c1 ≤ 1 / 2) (hc20 : 0 < cfg.c2) (hc21 : cfg.c2 < 1)
  (heps0 : 0 < cfg.eps0) (heps1 : cfg.eps0 ≤ 2 * (1 - cfg.c1) * tstar g0 h)
include hg hh hI hs0 hs1 hc1 hc20 hc21 heps0 heps1

/-- bracket phase -/
theorem lemarechal_quad_bracket :
    ∀ (j n : Nat) (L R : Step α) (t : α) (ctx : Ctx α), j < n → OnQuad f0 g0 h L → OnQuad f0 g0 h R → 0 ≤ L.t →
      L.t < (1 - cfg.c2) * tstar g0 h → 2 * (1 - cfg.c1) * tstar g0 h < R.t → t = lemInterp cfg L R →
      ctx.cur = quadLine f0 g0 h t →
      cfg.safeguard ^ j * (R.t - L.t) < 2 * (1 - cfg.c1) * tstar g0 h - (1 - cfg.c2) * tstar g0 h →
      QuadOK f0 g0 h (lemarechal cfg (fun _ => quadLine f0 g0 h) ⟨f0, g0, true⟩ n L R t ctx) := by
  have hp := tstar_pos hg hh
  have hAT : (1 - cfg.c2) * tstar g0 h < tstar g0 h ∧ tstar g0 h ≤ 2 * (1 - cfg.c1) * tstar g0 h := by
    constructor <;> nlinarith
  intro j
  induction j with
  | zero =>
    intro n L R t ctx _ _ _ _ h4 h5 _ _ h8
    exfalso; simp at h8; linarith
  | succ j ih =>
    intro n L R t ctx hn hL hR h3 h4 h5 h6 h7 h8
    obtain ⟨n', rfl⟩ : ∃ n', n = n' + 1 := ⟨n - 1, by omega⟩
    have hW : 0 < R.t - L.t := by linarith
    have hne : L.t ≠ R.t := ne_of_lt (by linarith)
    have hlohi : L.t + cfg.safeguard * (R.t - L.t) ≤ R.t - cfg.safeguard * (R.t - L.t) := by nlinarith
    rw [lemInterp_quad cfg f0 g0 h hI L R hL hR hne] at h6
    have hsW : 0 < cfg.safeguard * (R.t - L.t) := mul_pos hs0 hW
    obtain ⟨c1, c2⟩ := clamp_mem (v := tstar g0 h) hlohi
    rw [← h6] at c1 c2
    have ht0 : 0 < t := by linarith
    have hLt : L.t < t := by linarith
    have htR : t < R.t := by linarith
    by_cases hA : hasArmijo f0 g0 ctx.cur.f t cfg.c1 = true
    · by_cases hWf : hasWolfe g0 ctx.cur.g cfg.c2 = true
      · simp only [lemarechal, hA, hWf, if_true]
        exact ⟨rfl, ht0, h7⟩
      · -- Armijo, not Wolfe: `t < A < t*`, so the clamp returned its upper bound
        have htA : t < (1 - cfg.c2) * tstar g0 h := by
          rw [h7, wolfe_quad_iff hh] at hWf; exact not_le.mp hWf
        have hthi : t = R.t - cfg.safeguard * (R.t - L.t) := by
          rcases clamp_lt_cases (v := tstar g0 h) hlohi with ⟨e, _, _⟩ | ⟨e, hlt⟩ | ⟨e, _⟩
          · rw [e] at h6; linarith
          · rw [e] at h6; linarith
          · rw [e] at h6; exact h6
        have hReps : ¬ R.t < cfg.eps0 := not_lt.mpr (by linarith)
        have hok' : ∀ x, (ask (fun _ => quadLine f0 g0 h) ctx x).cur.ok = true := fun x => by simp [ask, quadLine]
        simp only [lemarechal, hA, hWf, hReps, if_true, if_false, hok']
        refine ih n' (stepOf ctx t) R _ _ (by omega) (onQuad_stepOf f0 g0 h ctx t h7) hR (le_of_lt ht0) htA h5 rfl
          (by simp [ask]) ?_
        simp only [stepOf]
        have : R.t - t = cfg.safeguard * (R.t - L.t) := by linarith
        rw [this]
        calc cfg.safeguard ^ j * (cfg.safeguard * (R.t - L.t)) = cfg.safeguard ^ (j + 1) * (R.t - L.t) := by ring
          _ < _ := h8
    · -- not Armijo: `t > T ≥ t*`, so the clamp returned its lower bound
      have htT : 2 * (1 - cfg.c1) * tstar g0 h < t := by
        rw [h7, armijo_quad_iff hh ht0] at hA; exact not_le.mp hA
      have htlo : t = L.t + cfg.safeguard * (R.t - L.t) := by
        rcases clamp_lt_cases (v := tstar g0 h) hlohi with ⟨e, _, _⟩ | ⟨e, _⟩ | ⟨e, hlt⟩
        · rw [e] at h6; linarith
        · rw [e] at h6; exact h6
        · rw [e] at h6; linarith
      have hok' : ∀ x, (ask (fun _ => quadLine f0 g0 h) ctx x).cur.ok = true := fun x => by simp [ask, quadLine]
      simp only [lemarechal, hA, hok', if_true]
      refine ih n' L (stepOf ctx t) _ _ (by omega) hL (onQuad_stepOf f0 g0 h ctx t h7) h3 h4 htT rfl (by simp [ask]) ?_
      simp only [stepOf]
      have : t - L.t = cfg.safeguard * (R.t - L.t) := by linarith
      rw [this]
      calc cfg.safeguard ^ j * (cfg.safeguard * (R.t - L.t)) = cfg.safeguard ^ (j + 1) * (R.t - L.t) := by ring
        _ < _ := h8

/-- expansion phase, from any positive trial step with `R` unset -/
theorem lemarechal_quad_expand (htau : 1 < cfg.tau1) (J : Nat) :
    ∀ (k n : Nat) (L : Step α) (t : α) (ctx : Ctx α), k + J + 1 < n → OnQuad f0 g0 h L → 0 ≤ L.t →
      L.t < (1 - cfg.c2) * tstar g0 h → L.t < t → ctx.cur = quadLine f0 g0 h t →
      (1 - cfg.c2) * tstar g0 h ≤ cfg.tau1 ^ k * t →
      cfg.safeguard ^ J * max t (cfg.tau1 * ((1 - cfg.c2) * tstar g0 h)) <
        2 * (1 - cfg.c1) * tstar g0 h - (1 - cfg.c2) * tstar g0 h →
      QuadOK f0 g0 h (lemarechal cfg (fun _ => quadLine f0 g0 h) ⟨f0, g0, true⟩ n L ⟨0, f0, g0⟩ t ctx) := by
  have hp := tstar_pos hg hh
  intro k
  induction k with
  | zero =>
    intro n L t ctx hn hL h3 h4 h5 h7 hk hJ
    obtain ⟨n', rfl⟩ : ∃ n', n = n' + 1 := ⟨n - 1, by omega⟩
    have ht0 : 0 < t := by linarith
    have hWf : hasWolfe g0 ctx.cur.g cfg.c2 = true := by
      rw [h7, wolfe_quad_iff hh]; simpa using hk
    by_cases hA : hasArmijo f0 g0 ctx.cur.f t cfg.c1 = true
    · simp only [lemarechal, hA, hWf, if_true]
      exact ⟨rfl, ht0, h7⟩
    · have htT : 2 * (1 - cfg.c1) * tstar g0 h < t := by
        rw [h7, armijo_quad_iff hh ht0] at hA; exact not_le.mp hA
      have hok' : ∀ x, (ask (fun _ => quadLine f0 g0 h) ctx x).cur.ok = true := fun x => by simp [ask, quadLine]
      simp only [lemarechal, hA, hok', if_true]
      refine lemarechal_quad_bracket cfg f0 g0 h hg hh hI hs0 hs1 hc1 hc20 hc21 heps0 heps1 J n' L (stepOf ctx t) _ _ (by omega)
        hL (onQuad_stepOf f0 g0 h ctx t h7) h3 h4 htT rfl (by simp [ask]) ?_
      simp only [stepOf]
      have h1 : t - L.t ≤ max t (cfg.tau1 * ((1 - cfg.c2) * tstar g0 h)) := le_trans (by linarith) (le_max_left _ _)
      exact lt_of_le_of_lt (mul_le_mul_of_nonneg_left h1 (pow_nonneg (le_of_lt hs0) J)) hJ
  | succ k ih =>
    intro n L t ctx hn hL h3 h4 h5 h7 hk hJ
    obtain ⟨n', rfl⟩ : ∃ n', n = n' + 1 := ⟨n - 1, by omega⟩
    have ht0 : 0 < t := by linarith
    have hok' : ∀ x, (ask (fun _ => quadLine f0 g0 h) ctx x).cur.ok = true := fun x => by simp [ask, quadLine]
    by_cases hA : hasArmijo f0 g0 ctx.cur.f t cfg.c1 = true
    · by_cases hWf : hasWolfe g0 ctx.cur.g cfg.c2 = true
      · simp only [lemarechal, hA, hWf, if_true]
        exact ⟨rfl, ht0, h7⟩
      · have htA : t < (1 - cfg.c2) * tstar g0 h := by
          rw [h7, wolfe_quad_iff hh] at hWf; exact not_le.mp hWf
        have hR0 : (⟨0, f0, g0⟩ : Step α).t < cfg.eps0 := heps0
        simp only [lemarechal, hA, hWf, hR0, if_true, hok']
        have htau0 : 0 < cfg.tau1 := by linarith
        refine ih n' (stepOf ctx t) (cfg.tau1 * (stepOf ctx t).t) _ (by omega) (onQuad_stepOf f0 g0 h ctx t h7) (le_of_lt ht0)
          htA ?_ (by simp [ask]) ?_ ?_
        · simp only [stepOf]; nlinarith
        · simp only [stepOf]
          have : cfg.tau1 ^ (k + 1) * t = cfg.tau1 ^ k * (cfg.tau1 * t) := by ring
          rw [← this]; exact hk
        · simp only [stepOf]
          have h1 : max (cfg.tau1 * t) (cfg.tau1 * ((1 - cfg.c2) * tstar g0 h)) ≤
              max t (cfg.tau1 * ((1 - cfg.c2) * tstar g0 h)) := by
            apply max_le
            · exact le_trans (mul_le_mul_of_nonneg_left (le_of_lt htA) (le_of_lt htau0)) (le_max_right _ _)
            · exact le_max_right _ _
          exact lt_of_le_of_lt (mul_le_mul_of_nonneg_left h1 (pow_nonneg (le_of_lt hs0) J)) hJ
    · have htT : 2 * (1 - cfg.c1) * tstar g0 h < t := by
        rw [h7, armijo_quad_iff hh ht0] at hA; exact not_le.mp hA
      simp only [lemarechal, hA, hok', if_true]
      refine lemarechal_quad_bracket cfg f0 g0 h hg hh hI hs0 hs1 hc1 hc20 hc21 heps0 heps1 J n' L (stepOf ctx t) _ _ (by omega)
        hL (onQuad_stepOf f0 g0 h ctx t h7) h3 h4 htT rfl (by simp [ask]) ?_
      simp only [stepOf]
      have h1 : t - L.t ≤ max t (cfg.tau1 * ((1 - cfg.c2) * tstar g0 h)) := le_trans (by linarith) (le_max_left _ _)
      exact lt_of_le_of_lt (mul_le_mul_of_nonneg_left h1 (pow_nonneg (le_of_lt hs0) J)) hJ

end

end NanoVerif.LSearch
