import NanoVerif.Proofs.WLearnerKBest
/-!
  C10 — fit–predict consistency of the k-best table: the RSS handed to `make_score` for every candidate is the RSS of the
  predictions of the table learner stored for it (binary search on the kept hashes, zero for every other label set).
-/
set_option linter.unusedSectionVars false
set_option linter.unusedVariables false

namespace NanoVerif.WLearner
variable {α : Type} [Field α] [LinearOrder α] [IsStrictOrderedRing α]

/-! ### `std::sort(bins_kbest)` -/

theorem insertAsc_perm (a : Nat) (l : List Nat) : (insertAsc a l).Perm (a :: l) := by
  induction l with
  | nil => exact List.Perm.refl _
  | cons b l ih =>
    unfold insertAsc
    split
    · exact List.Perm.refl _
    · exact (List.Perm.cons b ih).trans (List.Perm.swap a b l)

theorem sortAsc_perm (l : List Nat) : (sortAsc l).Perm l := by
  unfold sortAsc
  induction l with
  | nil => exact List.Perm.refl _
  | cons a l ih => exact (insertAsc_perm a _).trans (List.Perm.cons a ih)

theorem insertAsc_sorted (a : Nat) (l : List Nat) (h : l.Pairwise (· ≤ ·)) : (insertAsc a l).Pairwise (· ≤ ·) := by
  induction l with
  | nil => simp [insertAsc]
  | cons b l ih =>
    unfold insertAsc
    have hb := List.pairwise_cons.mp h
    split
    · rename_i hab
      exact List.pairwise_cons.mpr ⟨fun x hx => by
        rcases List.mem_cons.mp hx with rfl | hx
        · exact hab
        · exact le_trans hab (hb.1 x hx), h⟩
    · rename_i hab
      refine List.pairwise_cons.mpr ⟨fun x hx => ?_, ih hb.2⟩
      rcases List.mem_cons.mp ((insertAsc_perm a l).subset hx) with rfl | hx
      · omega
      · exact hb.1 x hx

theorem sortAsc_sorted (l : List Nat) : (sortAsc l).Pairwise (· ≤ ·) := by
  unfold sortAsc
  induction l with
  | nil => exact List.Pairwise.nil
  | cons a l ih => exact insertAsc_sorted a _ ih

theorem sortAsc_strict (l : List Nat) (hnd : l.Nodup) : (sortAsc l).Pairwise (· < ·) := by
  have hs := sortAsc_sorted l
  have hn : (sortAsc l).Nodup := (sortAsc_perm l).nodup_iff.mpr hnd
  exact (hs.and hn).imp (fun ⟨h1, h2⟩ => lt_of_le_of_ne h1 h2)

/-! ### the table that keeps the bins `B` -/

/-- the table of a k-best candidate as a function of the hash: the bin mean on the kept label sets, zero elsewhere -/
def subsetTable (rows : List (CRow α)) (B : List Nat) : Nat → Vec α := fun h =>
  if h ∈ B.map (fun b => (hashesOf rows).getD b 0) then binMean (binMom rows h) else zeroV

theorem kept_sorted (rows : List (CRow α)) (B : List Nat) (hB : B.Pairwise (· < ·)) (hv : ∀ b ∈ B, b < (hashesOf rows).length) :
    (B.map fun b => (hashesOf rows).getD b 0).Pairwise (· < ·) := by
  rw [List.pairwise_map]
  refine List.Pairwise.imp_of_mem ?_ hB
  intro a b ha hb hab
  have hal := hv a ha
  have hbl := hv b hb
  rw [List.getD_eq_getElem?_getD, List.getD_eq_getElem?_getD, List.getElem?_eq_getElem hal, List.getElem?_eq_getElem hbl]
  exact (sorted_lt_iff _ (hashesOf_sorted rows) a b hal hbl).mpr hab

theorem findHash_not_mem (l : List Nat) (h : Nat) (hm : h ∉ l) : findHash l h = none := by
  unfold findHash
  simp only
  split
  · rename_i he
    exact absurd (List.mem_of_getElem? he) hm
  · rfl

/-- what the stored learner of a k-best candidate predicts -/
theorem kbest_contrib [Log α] (T : Nat) (K : α) (crit : Crit) (f : Nat) (rows : List (CRow α)) (rss : α) (B : List Nat)
    (hB : B.Pairwise (· < ·)) (hv : ∀ b ∈ B, b < (hashesOf rows).length) (s : Nat → FVal α) (oh : Option Nat)
    (hs : s f = clsVal oh) :
    contrib (kbestCandOf T K crit f rows rss B).toTable s = tablePred (subsetTable rows B) oh := by
  unfold contrib Cand.toTable
  simp only [kbestCandOf, eval, hs]
  cases oh with
  | none => rfl
  | some h =>
    simp only [clsVal, tablePred, subsetTable]
    set kept := B.map fun b => (hashesOf rows).getD b 0 with hkept
    by_cases hm : h ∈ kept
    · rw [if_pos hm]
      obtain ⟨j, hj⟩ := List.mem_iff_getElem?.mp hm
      obtain ⟨hjlt, hjeq⟩ := List.getElem?_eq_some_iff.mp hj
      have hfind : findHash kept h = some j := by
        rw [← hjeq]; exact findHash_sorted _ (kept_sorted rows B hB hv) j hjlt
      rw [hfind]
      have hjB : j < B.length := by simpa [hkept] using hjlt
      simp only [List.getElem?_range hjB]
      funext o
      have hjh : (hashesOf rows).getD B[j] 0 = h := by
        rw [← hjeq]; simp [hkept]
      simp only [tab, List.getD_eq_getElem?_getD, List.getElem?_map, List.getElem?_eq_getElem hjB, Option.map_some,
        Option.getD_some]
      rw [← List.getD_eq_getElem?_getD, hjh]
    · rw [if_neg hm, findHash_not_mem kept h hm]

/-- a sum over the bins restricted to the kept ones, re-indexed by the kept bin indices -/
theorem lsum_kept (hs : List Nat) (hnd : hs.Nodup) (F : Nat → α) : ∀ (B : List Nat), B.Nodup → (∀ b ∈ B, b < hs.length) →
    lsum (hs.map fun h => if h ∈ B.map (fun b => hs.getD b 0) then F h else 0) = lsum (B.map fun b => F (hs.getD b 0)) := by
  intro B
  induction B with
  | nil => intro _ _; simp only [List.map_nil, List.not_mem_nil, if_false]; exact lsum_map_zero hs
  | cons b B ih =>
    intro hB hv
    have hb := List.nodup_cons.mp hB
    have hbl : b < hs.length := hv b (by simp)
    have hgb : hs.getD b 0 = hs[b] := by rw [List.getD_eq_getElem?_getD, List.getElem?_eq_getElem hbl]; rfl
    have hnot : hs.getD b 0 ∉ B.map (fun b => hs.getD b 0) := by
      intro hm
      obtain ⟨b', hb', he⟩ := List.mem_map.mp hm
      have hb'l : b' < hs.length := hv b' (by simp [hb'])
      rw [hgb, List.getD_eq_getElem?_getD, List.getElem?_eq_getElem hb'l] at he
      have : b' = b := (List.Nodup.getElem_inj_iff hnd).mp (by simpa using he)
      exact hb.1 (this ▸ hb')
    have hsplit : (hs.map fun h => if h ∈ (b :: B).map (fun b => hs.getD b 0) then F h else 0)
        = hs.map fun h => (if h = hs.getD b 0 then F (hs.getD b 0) else 0)
          + (if h ∈ B.map (fun b => hs.getD b 0) then F h else 0) := by
      apply List.map_congr_left
      intro h _
      simp only [List.map_cons, List.mem_cons]
      by_cases h1 : h = hs.getD b 0
      · rw [if_pos (Or.inl h1), if_pos h1, if_neg (h1 ▸ hnot), add_zero, h1]
      · rw [if_neg h1, zero_add]
        by_cases h2 : h ∈ B.map (fun b => hs.getD b 0)
        · rw [if_pos (Or.inr h2), if_pos h2]
        · rw [if_neg (not_or.mpr ⟨h1, h2⟩), if_neg h2]
    rw [hsplit, lsum_map_add, lsum_ite_eq hs hnd _ (by rw [hgb]; exact List.getElem_mem _),
      ih hb.2 (fun b' hb' => hv b' (by simp [hb']))]
    rfl

/-- the RSS (from the definition) of the table that keeps the bins `B` -/
theorem rssOfC_subsetTable (T : Nat) (rows : List (CRow α)) (B : List Nat) (hB : B.Nodup)
    (hv : ∀ b ∈ B, b < (hashesOf rows).length) :
    rssOfC T rows (tablePred (subsetTable rows B))
      = dstepRss0 T rows + lsum (B.map fun b => binDelta T (binMom rows ((hashesOf rows).getD b 0))) := by
  rw [rssOfC_table, dstepRss0_eq, ← lsum_kept (hashesOf rows) (hashesOf_nodup rows) (fun h => binDelta T (binMom rows h)) B hB hv,
    add_assoc, ← lsum_map_add]
  congr 2
  apply List.map_congr_left
  intro h hm
  have hne : (binRows rows h).map (·.r) ≠ [] := by simpa using binRows_ne_nil rows h hm
  simp only [subsetTable]
  split
  · rw [binMom_eq, ← (const_fit_vec T _ hne zeroV).2, binScore_eq_delta]
  · rw [lsum_sqErr_zero, add_zero]


/-- the entries of `accumulator_t::sort()`: entry `(d, b)` is the delta of bin `b` -/
theorem mem_binDeltas (T : Nat) (rows : List (CRow α)) (p : α × Nat) (hp : p ∈ binDeltas T rows) :
    p.2 < (hashesOf rows).length ∧ p.1 = binDelta T (binMom rows ((hashesOf rows).getD p.2 0)) := by
  unfold binDeltas at hp
  have h := List.mem_zipIdx_iff_getElem?.mp (show (p.1, p.2) ∈ _ from hp)
  rw [List.getElem?_map] at h
  cases hh : (hashesOf rows)[p.2]? with
  | none => rw [hh] at h; simp at h
  | some x =>
    rw [hh] at h
    simp at h
    have hlt : p.2 < (hashesOf rows).length := (List.getElem?_eq_some_iff.mp hh).1
    refine ⟨hlt, ?_⟩
    rw [List.getD_eq_getElem?_getD, hh]
    exact h.symm

/-- fit–predict consistency of every k-best candidate (every criterion; `std::sort` = any permutation): the RSS handed to
    `make_score` is the RSS, from the definition, of the predictions of the table learner the fit stores for it -/
theorem kbestCands_predict [Log α] (sortP : List (α × Nat) → List (α × Nat)) (hperm : ∀ l, (sortP l).Perm l)
    (T : Nat) (K : α) (crit : Crit) (f : Nat) (rows : List (CRow α)) (c : Cand α)
    (hc : c ∈ kbestCands sortP T K crit f rows 0) :
    c.rss = predRssC T c.toTable f rows := by
  simp only [kbestCands, Nat.lt_irrefl, if_true, Nat.lt_one_iff] at hc
  obtain ⟨i, hi, rfl⟩ := List.mem_map.mp hc
  set pre := (sortP (binDeltas T rows)).take (i + 1) with hpre
  set B := sortAsc (pre.map (·.2)) with hBdef
  have hsubl : pre.Sublist (sortP (binDeltas T rows)) := List.take_sublist _ _
  have hmem : ∀ p ∈ pre, p ∈ binDeltas T rows := fun p hp => (hperm _).subset (hsubl.subset hp)
  -- the bins of the prefix are distinct and valid
  have hnd : (pre.map (·.2)).Nodup := by
    have h1 : ((sortP (binDeltas T rows)).map (·.2)).Nodup := by
      refine ((hperm _).map _).nodup_iff.mpr ?_
      unfold binDeltas
      rw [List.zipIdx_map_snd]
      exact List.nodup_range'
    exact h1.sublist (hsubl.map _)
  have hBnd : B.Nodup := (sortAsc_perm _).nodup_iff.mpr hnd
  have hBstrict : B.Pairwise (· < ·) := sortAsc_strict _ hnd
  have hBv : ∀ b ∈ B, b < (hashesOf rows).length := by
    intro b hb
    obtain ⟨p, hp, rfl⟩ := List.mem_map.mp ((sortAsc_perm _).subset hb)
    exact (mem_binDeltas T rows p (hmem p hp)).1
  -- the running RSS in terms of the kept bins
  have hrss : kbestRss T rows pre
      = dstepRss0 T rows + lsum (B.map fun b => binDelta T (binMom rows ((hashesOf rows).getD b 0))) := by
    rw [kbestRss_eq]
    congr 1
    rw [lsum_perm ((sortAsc_perm (pre.map (·.2))).map _), List.map_map]
    apply lsum_map_congr
    intro p hp
    exact (mem_binDeltas T rows p (hmem p hp)).2
  show kbestRss T rows pre = _
  rw [hrss, ← rssOfC_subsetTable T rows B hBnd hBv]
  unfold rssOfC predRssC
  apply lsum_map_congr
  intro row _
  apply sqErr_congr
  intro o
  rw [predictOne_zero, kbest_contrib T K crit f rows _ B hBstrict hBv _ row.h (sampleOf_self f _)]

end NanoVerif.WLearner
