import NanoVerif.Model.Tuner
import Mathlib.Data.List.Nodup
import Mathlib.Data.List.Perm.Subperm
/-!
  C13 — the combinatorics of the tuners' grid: the `3^d` combinations, `local_search` (points of the box, no point
  twice), the number of points of the box, the start point, `map_to_grid`.
-/
namespace NanoVerif.Tuner

/-! ### `combos3` -/

theorem combos3_succ (d : Nat) :
    combos3 (d + 1) = (combos3 d).map (fun rest => (0 : Int) :: rest) ++ ((combos3 d).map (fun rest => (1 : Int) :: rest)
      ++ (combos3 d).map (fun rest => (2 : Int) :: rest)) := by
  simp [combos3]

theorem combos3_length (d : Nat) : (combos3 d).length = 3 ^ d := by
  induction d with
  | zero => rfl
  | succ d ih =>
    rw [combos3_succ]
    simp only [List.length_append, List.length_map, ih]
    omega

theorem combos3_mem_length {d : Nat} {c : List Int} (h : c ∈ combos3 d) : c.length = d := by
  induction d generalizing c with
  | zero => simp [combos3] at h; simp [h]
  | succ d ih =>
    rw [combos3_succ] at h
    simp only [List.mem_append, List.mem_map] at h
    rcases h with ⟨x, hx, rfl⟩ | ⟨x, hx, rfl⟩ | ⟨x, hx, rfl⟩ <;> simp [ih hx]

theorem combos3_nodup (d : Nat) : (combos3 d).Nodup := by
  induction d with
  | zero => simp [combos3]
  | succ d ih =>
    rw [combos3_succ]
    have hc : ∀ a : Int, ((combos3 d).map (fun rest => a :: rest)).Nodup := fun a =>
      ih.map (fun x y h => (List.cons.inj h).2)
    refine List.Nodup.append (hc 0) (List.Nodup.append (hc 1) (hc 2) ?_) ?_
    · intro x h1 h2
      simp only [List.mem_map] at h1 h2
      obtain ⟨_, _, rfl⟩ := h1
      obtain ⟨_, _, h⟩ := h2
      simp at h
    · intro x h1 h2
      simp only [List.mem_append, List.mem_map] at h1 h2
      obtain ⟨_, _, rfl⟩ := h1
      rcases h2 with ⟨_, _, h⟩ | ⟨_, _, h⟩ <;> simp at h

/-! ### `inGrid` -/

theorem inGrid_cons (a : Int) (mn : IGrid) (b : Int) (mx : IGrid) (x : Int) (g : IGrid) :
    inGrid (a :: mn) (b :: mx) (x :: g) = true ↔ a ≤ x ∧ x ≤ b ∧ inGrid mn mx g = true := by
  simp [inGrid, and_assoc]

theorem inGrid_length {mn mx g : IGrid} (h : inGrid mn mx g = true) : g.length = mn.length ∧ mx.length = mn.length := by
  induction mn generalizing mx g with
  | nil =>
    cases mx <;> cases g <;> simp_all [inGrid]
  | cons a mn ih =>
    cases mx with
    | nil => simp [inGrid] at h
    | cons b mx =>
      cases g with
      | nil => simp [inGrid] at h
      | cons x g =>
        rw [inGrid_cons] at h
        have := ih h.2.2
        simp [this.1, this.2]

/-! ### `localSearch` -/

/-- every proposed point lies in the box -/
theorem localSearch_inGrid (mn mx src : IGrid) (r : Int) : ∀ g ∈ localSearch mn mx src r, inGrid mn mx g = true := by
  intro g hg
  exact (List.mem_filter.1 hg).2

theorem addScaled_length (src : IGrid) (r : Int) (c : List Int) :
    (addScaled src r c).length = min c.length src.length := by
  simp [addScaled]

theorem addScaled_inj {r : Int} (hr : r ≠ 0) : ∀ (c₁ c₂ : List Int) (src : IGrid), c₁.length = c₂.length →
    c₁.length ≤ src.length → addScaled src r c₁ = addScaled src r c₂ → c₁ = c₂
  | [], [], _, _, _, _ => rfl
  | [], _ :: _, _, h, _, _ => by simp at h
  | _ :: _, [], _, h, _, _ => by simp at h
  | _ :: _, _ :: _, [], _, h, _ => by simp at h
  | x :: c₁, y :: c₂, s :: src, hl, hs, h => by
    simp only [addScaled, List.zipWith_cons_cons, List.cons.injEq] at h
    have h1 : x = y := by
      have : (x - 1) * r = (y - 1) * r := by omega
      have := Int.eq_of_mul_eq_mul_right hr this
      omega
    have h2 := addScaled_inj hr c₁ c₂ src (by simpa using hl) (by simpa using hs) h.2
    rw [h1, h2]

/-- no point is proposed twice (radius ≠ 0), whatever the source point (also of the wrong length) -/
theorem localSearch_nodup (mn mx src : IGrid) (r : Int) (hr : r ≠ 0) : (localSearch mn mx src r).Nodup := by
  unfold localSearch
  rw [List.filter_map]
  refine List.Nodup.map_on ?_ ((combos3_nodup _).filter _)
  intro x hx y hy hxy
  rw [List.mem_filter] at hx hy
  have hxl := combos3_mem_length hx.1
  have hyl := combos3_mem_length hy.1
  have hg := (inGrid_length hx.2).1
  rw [addScaled_length] at hg
  exact addScaled_inj hr x y src (hxl.trans hyl.symm) (by omega) hxy

theorem localSearch_length_le (mn mx src : IGrid) (r : Int) : (localSearch mn mx src r).length ≤ 3 ^ mn.length := by
  unfold localSearch
  refine Nat.le_trans (List.length_filter_le _ _) ?_
  rw [List.length_map, combos3_length]
  exact Nat.le_refl _

/-! ### the points of the box -/

/-- the integers of `[a, b]` -/
def rangeZ (a b : Int) : List Int := (List.range (b - a + 1).toNat).map fun (k : Nat) => a + (k : Int)

theorem mem_rangeZ {a b x : Int} (h1 : a ≤ x) (h2 : x ≤ b) : x ∈ rangeZ a b := by
  unfold rangeZ
  rw [List.mem_map]
  exact ⟨(x - a).toNat, by rw [List.mem_range]; omega, by omega⟩

/-- all the points of the box `[mn, mx]` (where the sizes differ: as many as `gridCard` counts) -/
def allGrid : IGrid → IGrid → List IGrid
  | a :: mn, b :: mx => (rangeZ a b).flatMap fun x => (allGrid mn mx).map fun g => x :: g
  | _, _ => [[]]

theorem length_flatMap_const {α β : Type} (l : List α) (f : α → List β) (n : Nat) (h : ∀ x ∈ l, (f x).length = n) :
    (l.flatMap f).length = l.length * n := by
  induction l with
  | nil => simp
  | cons x l ih =>
    rw [List.flatMap_cons, List.length_append, ih (fun y hy => h y (List.mem_cons_of_mem _ hy)),
      h x List.mem_cons_self, List.length_cons, Nat.succ_mul, Nat.add_comm]

theorem allGrid_length : ∀ mn mx : IGrid, (allGrid mn mx).length = gridCard mn mx
  | [], [] => rfl
  | [], _ :: _ => rfl
  | _ :: _, [] => rfl
  | a :: mn, b :: mx => by
    rw [allGrid, gridCard, length_flatMap_const _ _ (gridCard mn mx)]
    · simp [rangeZ]
    · intro x _
      rw [List.length_map, allGrid_length mn mx]

theorem mem_allGrid_of_inGrid : ∀ (mn mx g : IGrid), inGrid mn mx g = true → g ∈ allGrid mn mx
  | [], [], [], _ => by simp [allGrid]
  | [], [], _ :: _, h => by simp [inGrid] at h
  | [], _ :: _, _, h => by simp [inGrid] at h
  | _ :: _, [], _, h => by simp [inGrid] at h
  | _ :: _, _ :: _, [], h => by simp [inGrid] at h
  | a :: mn, b :: mx, x :: g, h => by
    rw [inGrid_cons] at h
    rw [allGrid, List.mem_flatMap]
    exact ⟨x, mem_rangeZ h.1 h.2.1, List.mem_map.2 ⟨g, mem_allGrid_of_inGrid mn mx g h.2.2, rfl⟩⟩

/-- a duplicate-free list of points of the box has at most `gridCard` elements -/
theorem length_le_gridCard (mn mx : IGrid) (l : List IGrid) (hnd : l.Nodup) (hin : ∀ g ∈ l, inGrid mn mx g = true) :
    l.length ≤ gridCard mn mx := by
  rw [← allGrid_length]
  exact (List.subperm_of_subset hnd (fun g hg => mem_allGrid_of_inGrid mn mx g (hin g hg))).length_le

/-! ### `minOf`, `maxOf`, `avgOf`, `mapToGrid` -/

theorem minOf_length (sizes : List Nat) : (minOf sizes).length = sizes.length := by
  simp [minOf]

/-- the start point of the tuners lies in the grid (every grid has at least one value) -/
theorem avgOf_inGrid (sizes : List Nat) (h : ∀ n ∈ sizes, 1 ≤ n) :
    inGrid (minOf sizes) (maxOf sizes) (avgOf sizes) = true := by
  induction sizes with
  | nil => rfl
  | cons n sizes ih =>
    have hn := h n List.mem_cons_self
    have := ih (fun m hm => h m (List.mem_cons_of_mem _ hm))
    simp only [minOf, maxOf, avgOf, List.map_cons] at this ⊢
    rw [inGrid_cons]
    refine ⟨?_, ?_, this⟩
    · simp only [Int.ofNat_eq_natCast]; omega
    · simp only [Int.ofNat_eq_natCast]; omega

/-- a point of the index box maps to hyper-parameter values that are values of the respective grids -/
theorem mapToGrid_of_inGrid {α : Type} (spaces : List (List α)) (g : IGrid)
    (h : inGrid (minOf (spaces.map List.length)) (maxOf (spaces.map List.length)) g = true) :
    ∃ vs, mapToGrid spaces g = some vs ∧ List.Forall₂ (fun v vals => v ∈ vals) vs spaces := by
  induction spaces generalizing g with
  | nil =>
    cases g with
    | nil => exact ⟨[], rfl, List.Forall₂.nil⟩
    | cons x g => simp [minOf, maxOf, inGrid] at h
  | cons vals spaces ih =>
    cases g with
    | nil => simp [minOf, maxOf, inGrid] at h
    | cons i g =>
      simp only [minOf, maxOf, List.map_cons] at h ih
      rw [inGrid_cons] at h
      obtain ⟨h0, h1, h2⟩ := h
      obtain ⟨vs, hvs, hall⟩ := ih g h2
      have hlt : i.toNat < vals.length := by
        simp only [Int.ofNat_eq_natCast] at h1; omega
      refine ⟨vals[i.toNat] :: vs, ?_, List.Forall₂.cons (List.getElem_mem hlt) hall⟩
      simp [mapToGrid, h0, hvs, List.getElem?_eq_getElem hlt]

/-! ### non-vacuity -/

example : localSearch [0, 0] [4, 4] [2, 0] 1 = [[1, 0], [1, 1], [2, 0], [2, 1], [3, 0], [3, 1]] := by decide
example : (combos3 2).length = 9 := by decide
example : combos3 1 = [[0], [1], [2]] := by decide
example : gridCard [0, 0] [4, 4] = 25 := by decide
example : avgOf [7, 4] = [3, 2] := by decide
example : minOf [7, 4] = [0, 0] ∧ maxOf [7, 4] = [6, 3] := by decide
example : inGrid (minOf [7, 4]) (maxOf [7, 4]) (avgOf [7, 4]) = true := by decide
example : mapToGrid [[10, 20, 30], [1, 2]] [2, 0] = some [30, 1] := by decide
example : (localSearch [0, 0] [4, 4] [2, 0] 0).Nodup = False := by decide
example : localSearch [0, 0] [4, 4] [2] 1 = [] := by decide

end NanoVerif.Tuner
