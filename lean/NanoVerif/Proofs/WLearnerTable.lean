import NanoVerif.Proofs.WLearnerStump
/-!
  C10 — the dense look-up table: the bins are the distinct label sets of the fitted samples, every bin stores its mean,
  the reported RSS is the RSS of that table and no table does better; the discrete step keeps the best single bin.
-/
set_option linter.unusedSectionVars false
set_option linter.unusedVariables false

namespace NanoVerif.WLearner
variable {α : Type} [Field α] [LinearOrder α] [IsStrictOrderedRing α]

/-! ### the sorted set of hashes -/

theorem mem_insertUniq (h x : Nat) (l : List Nat) : x ∈ insertUniq h l ↔ x = h ∨ x ∈ l := by
  induction l with
  | nil => simp [insertUniq]
  | cons a as ih =>
    simp only [insertUniq]
    split
    · simp
    · split
      · rename_i _ heq; subst heq; simp
      · simp only [List.mem_cons, ih]
        constructor
        · rintro (h1 | h1 | h1)
          · exact Or.inr (Or.inl h1)
          · exact Or.inl h1
          · exact Or.inr (Or.inr h1)
        · rintro (h1 | h1 | h1)
          · exact Or.inr (Or.inl h1)
          · exact Or.inl h1
          · exact Or.inr (Or.inr h1)

theorem sorted_insertUniq (h : Nat) (l : List Nat) (hs : l.Pairwise (· < ·)) : (insertUniq h l).Pairwise (· < ·) := by
  induction l with
  | nil => simp [insertUniq]
  | cons a as ih =>
    simp only [insertUniq]
    have ha := (List.pairwise_cons.mp hs).1
    have has := (List.pairwise_cons.mp hs).2
    split
    · rename_i hlt
      refine List.pairwise_cons.mpr ⟨?_, hs⟩
      intro x hx
      rcases List.mem_cons.mp hx with rfl | hx
      · exact hlt
      · exact Nat.lt_trans hlt (ha x hx)
    · split
      · exact hs
      · rename_i hnlt hne
        refine List.pairwise_cons.mpr ⟨?_, ih has⟩
        intro x hx
        rcases (mem_insertUniq h x as).mp hx with rfl | hx
        · omega
        · exact ha x hx

theorem hashesOf_aux (rows : List (CRow α)) (acc : List Nat) (hacc : acc.Pairwise (· < ·)) :
    let res := rows.foldl (fun acc row => match row.h with
      | some h => insertUniq h acc
      | none => acc) acc
    res.Pairwise (· < ·) ∧ ∀ x, x ∈ res ↔ (x ∈ acc ∨ ∃ row ∈ rows, row.h = some x) := by
  induction rows generalizing acc with
  | nil => simp [hacc]
  | cons row rows ih =>
    simp only [List.foldl_cons]
    cases hh : row.h with
    | none =>
      obtain ⟨h1, h2⟩ := ih acc hacc
      refine ⟨h1, fun x => ?_⟩
      rw [h2 x]
      constructor
      · rintro (h | ⟨r, hr, hx⟩)
        · exact Or.inl h
        · exact Or.inr ⟨r, List.mem_cons_of_mem _ hr, hx⟩
      · rintro (h | ⟨r, hr, hx⟩)
        · exact Or.inl h
        · rcases List.mem_cons.mp hr with rfl | hr
          · rw [hh] at hx; simp at hx
          · exact Or.inr ⟨r, hr, hx⟩
    | some h =>
      obtain ⟨h1, h2⟩ := ih (insertUniq h acc) (sorted_insertUniq h acc hacc)
      refine ⟨h1, fun x => ?_⟩
      rw [h2 x, mem_insertUniq]
      constructor
      · rintro ((h | h) | ⟨r, hr, hx⟩)
        · exact Or.inr ⟨row, by simp, by rw [hh, h]⟩
        · exact Or.inl h
        · exact Or.inr ⟨r, List.mem_cons_of_mem _ hr, hx⟩
      · rintro (h' | ⟨r, hr, hx⟩)
        · exact Or.inl (Or.inr h')
        · rcases List.mem_cons.mp hr with rfl | hr
          · rw [hh] at hx; simp at hx; exact Or.inl (Or.inl hx.symm)
          · exact Or.inr ⟨r, hr, hx⟩

theorem hashesOf_sorted (rows : List (CRow α)) : (hashesOf rows).Pairwise (· < ·) :=
  (hashesOf_aux rows [] List.Pairwise.nil).1

theorem mem_hashesOf (rows : List (CRow α)) (x : Nat) : x ∈ hashesOf rows ↔ ∃ row ∈ rows, row.h = some x := by
  have := (hashesOf_aux rows [] List.Pairwise.nil).2 x
  simp only [List.not_mem_nil, false_or] at this
  exact this

theorem hashesOf_nodup (rows : List (CRow α)) : (hashesOf rows).Nodup :=
  (hashesOf_sorted rows).imp (fun h => Nat.ne_of_lt h)

/-! ### bins -/

/-- the fitted samples of one bin -/
def binRows (rows : List (CRow α)) (h : Nat) : List (CRow α) := rows.filter fun row => decide (row.h = some h)

theorem binMom_eq (rows : List (CRow α)) (h : Nat) : binMom rows h = momOf ((binRows rows h).map (·.r)) := by
  unfold binMom momOf binRows
  suffices hgen : ∀ m : Mom α, rows.foldl (fun m row => if row.h = some h then m.upd0 row.r else m) m
      = ((rows.filter fun row => decide (row.h = some h)).map (·.r)).foldl Mom.upd0 m from hgen _
  induction rows with
  | nil => intro m; rfl
  | cons row rows ih =>
    intro m
    simp only [List.foldl_cons, List.filter_cons]
    by_cases hr : row.h = some h
    · simp only [hr, if_true, decide_true, List.map_cons, List.foldl_cons]; exact ih _
    · simp only [hr, if_false, decide_false]; exact ih _

theorem binRows_ne_nil (rows : List (CRow α)) (h : Nat) (hm : h ∈ hashesOf rows) : binRows rows h ≠ [] := by
  obtain ⟨row, hr, hh⟩ := (mem_hashesOf rows h).mp hm
  intro hnil
  have : row ∈ binRows rows h := by
    unfold binRows; exact List.mem_filter.mpr ⟨hr, by simp [hh]⟩
  rw [hnil] at this; simp at this

/-- `Σ` over the samples whose value is missing of `‖r‖²` -/
def missSumC (T : Nat) (rows : List (CRow α)) : α :=
  lsum (rows.map fun row => match row.h with
    | none => sqErr T row.r zeroV
    | some _ => 0)

theorem missRssC_eq (T : Nat) (rows : List (CRow α)) : missRssC T rows = missSumC T rows := by
  unfold missRssC missSumC
  suffices h : ∀ a : α, rows.foldl (fun acc row => match row.h with
      | none => acc + vsum (fun o => row.r o * row.r o) T
      | some _ => acc) a = a + lsum (rows.map fun row => match row.h with
      | none => sqErr T row.r zeroV
      | some _ => 0) by
    exact (h 0).trans (zero_add _)
  induction rows with
  | nil => intro a; simp
  | cons row rows ih =>
    intro a
    simp only [List.foldl_cons, List.map_cons, lsum_cons]
    rw [ih]
    cases hx : row.h with
    | none => simp only [sqErr_zero]; ring
    | some v => simp only; ring

theorem lsum_map_zero {β : Type} (l : List β) : lsum (l.map fun _ => (0 : α)) = 0 := by
  induction l with
  | nil => rfl
  | cons x xs ih => simp only [List.map_cons, lsum_cons, ih, add_zero]

theorem lsum_ite_eq (hs : List Nat) (hnd : hs.Nodup) (h0 : Nat) (hm : h0 ∈ hs) (a : α) :
    lsum (hs.map fun h => if h = h0 then a else 0) = a := by
  induction hs with
  | nil => simp at hm
  | cons x xs ih =>
    have hx : x ∉ xs := (List.nodup_cons.mp hnd).1
    have hnd' := (List.nodup_cons.mp hnd).2
    simp only [List.map_cons, lsum_cons]
    rcases List.mem_cons.mp hm with rfl | hm'
    · have : lsum (xs.map fun h => if h = h0 then a else 0) = 0 := by
        have : xs.map (fun h => if h = h0 then a else (0 : α)) = xs.map (fun _ => (0 : α)) := by
          apply List.map_congr_left; intro y hy
          have : y ≠ h0 := fun e => hx (e ▸ hy)
          simp [this]
        rw [this]
        exact lsum_map_zero xs
      rw [this]; simp
    · have : x ≠ h0 := fun e => hx (e ▸ hm')
      rw [ih hnd' hm']; simp [this]

/-- a sum over the fitted samples, grouped by label set -/
theorem lsum_by_bins (rows : List (CRow α)) (hs : List Nat) (hnd : hs.Nodup)
    (hall : ∀ row ∈ rows, ∀ h, row.h = some h → h ∈ hs) (G : CRow α → α) :
    lsum (rows.map G) = lsum ((rows.filter fun row => row.h.isNone).map G)
      + lsum (hs.map fun h => lsum ((binRows rows h).map G)) := by
  induction rows with
  | nil =>
    simp only [List.map_nil, lsum_nil, List.filter_nil, binRows, zero_add]
    exact (lsum_map_zero hs).symm
  | cons row rows ih =>
    have ih' := ih (fun r hr => hall r (List.mem_cons_of_mem _ hr))
    simp only [List.map_cons, lsum_cons, List.filter_cons]
    cases hh : row.h with
    | none =>
      have : (hs.map fun h => lsum ((binRows (row :: rows) h).map G)) = hs.map fun h => lsum ((binRows rows h).map G) := by
        apply List.map_congr_left; intro h _
        unfold binRows; simp [List.filter_cons, hh]
      rw [this, ih']
      simp only [Option.isNone_none, if_true, List.map_cons, lsum_cons]; ring
    | some h0 =>
      have hm : h0 ∈ hs := hall row (by simp) h0 hh
      have : (hs.map fun h => lsum ((binRows (row :: rows) h).map G))
          = hs.map fun h => (if h = h0 then G row else 0) + lsum ((binRows rows h).map G) := by
        apply List.map_congr_left; intro h _
        unfold binRows
        by_cases e : h = h0
        · subst e; simp [List.filter_cons, hh]
        · have : ¬ (some h0 = some h) := fun e' => e (Option.some.inj e').symm
          simp [List.filter_cons, hh, e, this]
      rw [this, lsum_map_add, lsum_ite_eq hs hnd h0 hm, ih']
      simp only [Option.isNone_some, Bool.false_eq_true, if_false]; ring

theorem lsum_filter_none (rows : List (CRow α)) (G : CRow α → α) :
    lsum ((rows.filter fun row => row.h.isNone).map G) = lsum (rows.map fun row => match row.h with
      | none => G row
      | some _ => 0) := by
  induction rows with
  | nil => rfl
  | cons row rows ih =>
    simp only [List.filter_cons, List.map_cons, lsum_cons]
    cases hh : row.h with
    | none => simp only [Option.isNone_none, if_true, List.map_cons, lsum_cons, ih]
    | some h => simp only [Option.isNone_some, Bool.false_eq_true, if_false, zero_add, ih]

/-- the RSS of a table over the rows of one categorical feature -/
theorem rssOfC_table (T : Nat) (rows : List (CRow α)) (tbl : Nat → Vec α) :
    rssOfC T rows (tablePred tbl) = missSumC T rows
      + lsum ((hashesOf rows).map fun h => lsum (((binRows rows h).map (·.r)).map fun r => sqErr T r (tbl h))) := by
  unfold rssOfC
  rw [lsum_by_bins rows (hashesOf rows) (hashesOf_nodup rows)
    (fun row hr h hh => (mem_hashesOf rows h).mpr ⟨row, hr, hh⟩)]
  congr 1
  · unfold missSumC
    rw [lsum_filter_none]
    apply lsum_map_congr; intro row _
    cases hh : row.h with
    | none => simp [tablePred]
    | some h => rfl
  · congr 1
    apply List.map_congr_left; intro h _
    rw [List.map_map]
    apply lsum_map_congr; intro row hrow
    have : row.h = some h := by
      unfold binRows at hrow
      have := (List.mem_filter.mp hrow).2
      simpa using this
    simp [this, tablePred]

/-! ### the dense table -/

theorem denseCand_rss [Log α] (T : Nat) (K : α) (crit : Crit) (f : Nat) (rows : List (CRow α)) :
    (denseCand T K crit f rows).rss = missSumC T rows
      + lsum ((hashesOf rows).map fun h => binScore T (momOf ((binRows rows h).map (·.r)))) := by
  simp only [denseCand]
  rw [sumL_eq, missRssC_eq]
  congr 2
  apply List.map_congr_left; intro h _
  rw [binMom_eq]

/-- the table of bin means, as a function of the hash -/
def denseTable (rows : List (CRow α)) : Nat → Vec α := fun h => binMean (binMom rows h)

/-- the value handed to `make_score` is the RSS of the table of bin means, and no table has a smaller RSS -/
theorem denseCand_spec [Log α] (T : Nat) (K : α) (crit : Crit) (f : Nat) (rows : List (CRow α)) :
    (denseCand T K crit f rows).rss = rssOfC T rows (tablePred (denseTable rows)) ∧
    ∀ tbl : Nat → Vec α, (denseCand T K crit f rows).rss ≤ rssOfC T rows (tablePred tbl) := by
  constructor
  · rw [denseCand_rss, rssOfC_table]
    congr 2
    apply List.map_congr_left; intro h hm
    have hne : (binRows rows h).map (·.r) ≠ [] := by simpa using binRows_ne_nil rows h hm
    rw [(const_fit_vec T _ hne zeroV).2]
    simp only [denseTable, binMom_eq]
  · intro tbl
    rw [denseCand_rss, rssOfC_table]
    have : lsum ((hashesOf rows).map fun h => binScore T (momOf ((binRows rows h).map (·.r))))
        ≤ lsum ((hashesOf rows).map fun h => lsum (((binRows rows h).map (·.r)).map fun r => sqErr T r (tbl h))) := by
      apply lsum_map_le; intro h hm
      have hne : (binRows rows h).map (·.r) ≠ [] := by simpa using binRows_ne_nil rows h hm
      exact (const_fit_vec T _ hne (tbl h)).1
    linarith

end NanoVerif.WLearner
