import NanoVerif.Model.PenaltyState
import NanoVerif.Proofs.AugLag
/-!
  C05 — the constraint bookkeeping of `solver_state_t` (`Model/PenaltyState.lean`) in exact arithmetic: the gradient of the
  Lagrangian accumulated by `update_constraints`, the five KKT residuals, and the multipliers the augmented-Lagrangian loop
  stores in the state it returns.
-/
namespace NanoVerif.Penalty
open NanoVerif.Constraint
set_option linter.unusedSectionVars false

variable {α : Type} [Field α] [LinearOrder α] [IsStrictOrderedRing α]

/-! ### `m_lgx` -/

theorem foldl_axpy_spec (n : Nat) : ∀ (ps : List (α × List α)) (gx : List α), gx.length = n →
    (∀ p ∈ ps, p.2.length = n) →
    (ps.foldl (fun g p => axpy p.1 p.2 g) gx).length = n ∧
    ∀ i, (ps.foldl (fun g p => axpy p.1 p.2 g) gx).getD i 0
      = gx.getD i 0 + (ps.map (fun p => p.1 * p.2.getD i 0)).sum
  | [], gx, h, _ => ⟨h, fun i => by simp⟩
  | p :: ps, gx, h, hp => by
    have hpl : p.2.length = gx.length := by rw [hp p (by simp), h]
    have hl : (axpy p.1 p.2 gx).length = n := by rw [axpy_length _ _ _ hpl, h]
    obtain ⟨h1, h2⟩ := foldl_axpy_spec n ps (axpy p.1 p.2 gx) hl (fun q hq => hp q (by simp [hq]))
    refine ⟨h1, fun i => ?_⟩
    simp only [List.foldl_cons, List.map_cons, List.sum_cons]
    rw [h2 i, axpy_getD _ _ _ _ hpl]
    ring

theorem assignMult_spec (n : Nat) : ∀ (es : List (Eval α)) (meq mineq : List α),
    meq.length = (eqs es).length → mineq.length = (ineqs es).length → (∀ e ∈ es, e.gc.length = n) →
    ∃ ps, assignMult es meq mineq = some ps ∧ (∀ p ∈ ps, p.2.length = n) ∧
      ∀ i, (ps.map (fun p => p.1 * p.2.getD i 0)).sum
        = (List.zipWith (fun e m => m * e.gc.getD i 0) (eqs es) meq).sum
          + (List.zipWith (fun e m => m * e.gc.getD i 0) (ineqs es) mineq).sum
  | [], meq, mineq, _, _, _ => ⟨[], rfl, by simp, fun i => by simp [eqs, ineqs]⟩
  | e :: es, meq, mineq, hl, hm, hes => by
    have hes' : ∀ e' ∈ es, e'.gc.length = n := fun e' he' => hes e' (by simp [he'])
    cases he : e.isEq with
    | true =>
      rw [eqs_cons, he, if_pos rfl] at hl
      rw [ineqs_cons, he, if_pos rfl] at hm
      match meq, hl with
      | m :: meq', hl =>
        obtain ⟨ps, h1, h2, h3⟩ := assignMult_spec n es meq' mineq (by simpa using hl) hm hes'
        refine ⟨(m, e.gc) :: ps, by simp [assignMult, he, h1], ?_, fun i => ?_⟩
        · intro p hp
          rcases List.mem_cons.mp hp with rfl | hp
          · exact hes e (by simp)
          · exact h2 p hp
        · rw [eqs_cons, he, if_pos rfl, ineqs_cons, he, if_pos rfl]
          simp only [List.map_cons, List.sum_cons, List.zipWith_cons_cons]
          rw [h3 i]; ring
    | false =>
      rw [eqs_cons, he, if_neg (by simp)] at hl
      rw [ineqs_cons, he, if_neg (by simp)] at hm
      match mineq, hm with
      | m :: mineq', hm =>
        obtain ⟨ps, h1, h2, h3⟩ := assignMult_spec n es meq mineq' hl (by simpa using hm) hes'
        refine ⟨(m, e.gc) :: ps, by simp [assignMult, he, h1], ?_, fun i => ?_⟩
        · intro p hp
          rcases List.mem_cons.mp hp with rfl | hp
          · exact hes e (by simp)
          · exact h2 p hp
        · rw [eqs_cons, he, if_neg (by simp), ineqs_cons, he, if_neg (by simp)]
          simp only [List.map_cons, List.sum_cons, List.zipWith_cons_cons]
          rw [h3 i]; ring

/-! ### the residuals -/

theorem maxL_le_iff {l : List α} {b : α} (hb : 0 ≤ b) : maxL l ≤ b ↔ ∀ x ∈ l, x ≤ b :=
  ⟨fun h _ hx => le_trans (le_maxL hx) h, fun h => maxL_le hb h⟩

theorem maxL_eq_zero_iff {l : List α} (hl : ∀ x ∈ l, 0 ≤ x) : maxL l = 0 ↔ ∀ x ∈ l, x = 0 := by
  constructor
  · intro h x hx
    exact le_antisymm (by rw [← h]; exact le_maxL hx) (hl x hx)
  · intro h
    exact le_antisymm (maxL_le (le_refl _) (fun x hx => le_of_eq (h x hx))) (maxL_nonneg l)

/-! ### the multipliers stored by the augmented-Lagrangian loop -/

theorem storeMult_length (stored given : List α) : (storeMult stored given).length = stored.length := by
  unfold storeMult; split
  · assumption
  · rfl

theorem storeMult_mem {stored given : List α} {P : α → Prop} (h1 : ∀ m ∈ stored, P m) (h2 : ∀ m ∈ given, P m) :
    ∀ m ∈ storeMult stored given, P m := by
  unfold storeMult; split
  · exact h2
  · exact h1

theorem alStep_miu_nonneg' (cs : List (C α)) (p : Params α) (hmiuMax : 0 ≤ p.miuMax) (s : ALState α) (a : Answer α)
    (hs : ∀ m ∈ s.miu, 0 ≤ m) : ∀ m ∈ (alStep cs p s a).1.miu, 0 ≤ m := by
  unfold alStep
  simp only
  split
  · exact hs
  · intro m hm
    obtain ⟨i, hi, rfl⟩ := List.mem_iff_getElem.mp hm
    simp only [List.getElem_zipWith, cmin_eq_min, cmax_eq_max]
    exact le_min (le_max_right _ _) hmiuMax

/-- invariant of the stored multipliers -/
structure MultInv (cs : List (C α)) (s : ALState α) : Prop where
  miu_nonneg : ∀ m ∈ s.miu, 0 ≤ m
  bmineq_nonneg : ∀ m ∈ s.bmineq, 0 ≤ m
  bmeq_len : s.bmeq.length = countEq cs
  bmineq_len : s.bmineq.length = countIneq cs

theorem alInit_multInv (cs : List (C α)) (x0 : List α) (ro1 : α) : MultInv cs (alInit cs x0 ro1) := by
  refine ⟨?_, ?_, ?_, ?_⟩
  · intro m hm
    simp only [alInit, List.mem_map] at hm
    obtain ⟨_, _, rfl⟩ := hm
    exact le_refl _
  · intro m hm
    simp only [alInit, List.mem_map] at hm
    obtain ⟨_, _, rfl⟩ := hm
    exact le_refl _
  · simp [alInit, mkState, evalEq_length]
  · simp [alInit, mkState, evalIneq_length]

theorem alStep_multInv (cs : List (C α)) (p : Params α) (hmiuMax : 0 ≤ p.miuMax) (s : ALState α) (a : Answer α)
    (h : MultInv cs s) : MultInv cs (alStep cs p s a).1 := by
  have hb : ∀ m ∈ (if alImproved s a then storeMult s.bmineq s.miu else s.bmineq), 0 ≤ m := by
    split
    · exact storeMult_mem h.bmineq_nonneg h.miu_nonneg
    · exact h.bmineq_nonneg
  have hl1 : (if alImproved s a then storeMult s.bmeq s.lambda else s.bmeq).length = countEq cs := by
    split
    · rw [storeMult_length]; exact h.bmeq_len
    · exact h.bmeq_len
  have hl2 : (if alImproved s a then storeMult s.bmineq s.miu else s.bmineq).length = countIneq cs := by
    split
    · rw [storeMult_length]; exact h.bmineq_len
    · exact h.bmineq_len
  refine ⟨alStep_miu_nonneg' cs p hmiuMax s a h.miu_nonneg, ?_, ?_, ?_⟩
  · unfold alStep; simp only; split <;> exact hb
  · unfold alStep; simp only; split <;> exact hl1
  · unfold alStep; simp only; split <;> exact hl2

theorem alLoop_multInv (cs : List (C α)) (p : Params α) (hmiuMax : 0 ≤ p.miuMax)
    (inner : Nat → ALState α → Answer α) : ∀ (fuel : Nat) (s : ALState α), MultInv cs s →
    MultInv cs (alLoop cs p inner fuel s) := by
  intro fuel
  induction fuel with
  | zero => intro s h; exact h
  | succ fuel ih =>
    intro s h
    have := alStep_multInv cs p hmiuMax s (inner s.iters s) h
    simp only [alLoop]
    split
    · exact this
    · exact ih _ this

end NanoVerif.Penalty
