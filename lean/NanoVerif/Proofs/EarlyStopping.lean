import NanoVerif.Model.EarlyStopping
import Mathlib.Algebra.Order.Field.Basic
import Mathlib.Tactic.Linarith
import Mathlib.Data.List.Induction
/-!
  C11 — helper lemmas about the generated step function `Gen.EarlyStopping.done` and the history functions of
  `Model/EarlyStopping.lean`. The three step lemmas are the only place where the generated text is unfolded; every
  property theorem goes through them.
-/
namespace NanoVerif.EarlyStopping
open NanoVerif.Gen.EarlyStopping

set_option linter.unusedSectionVars false

variable {α : Type} [Field α] [LinearOrder α] [IsStrictOrderedRing α]

/-- an accepted call is recorded: round, value and snapshot are those of this call -/
theorem done_state_of_improves (eps : α) (pat : Nat) (s : State α) (c : Call α) (h : Improves eps s.value c) :
    (done eps pat s c).1 = record c := by
  unfold Improves at h
  unfold done record
  by_cases h1 : c.train < eps
  · simp [h1]
  · have h2 : c.valid < s.value - eps ∨ c.nvalid = 0 := h.resolve_left h1
    simp [h1, h2]

/-- a call that is not accepted leaves the state alone -/
theorem done_state_of_not_improves (eps : α) (pat : Nat) (s : State α) (c : Call α) (h : ¬ Improves eps s.value c) :
    (done eps pat s c).1 = s := by
  unfold Improves at h
  have h1 : ¬ c.train < eps := fun x => h (Or.inl x)
  have h2 : ¬ (c.valid < s.value - eps ∨ c.nvalid = 0) := fun x => h (Or.inr x)
  unfold done
  by_cases h3 : c.n < s.round + pat <;> simp [h1, h2, h3]

/-- the answer: stop ⇔ the training error is below ε, or the call is not accepted and at least `patience` learners
    were added since the recorded round -/
theorem done_stop_iff (eps : α) (pat : Nat) (s : State α) (c : Call α) :
    (done eps pat s c).2 = true ↔ (c.train < eps ∨ (¬ Improves eps s.value c ∧ s.round + pat ≤ c.n)) := by
  unfold Improves done
  by_cases h1 : c.train < eps
  · rw [if_pos h1]; simp [h1]
  · rw [if_neg h1]
    by_cases h2 : c.valid < s.value - eps ∨ c.nvalid = 0
    · rw [if_pos h2]
      constructor
      · intro h; exact absurd h (by simp)
      · rintro (h | ⟨hn, _⟩)
        · exact absurd h h1
        · exact absurd (Or.inr h2) hn
    · rw [if_neg h2]
      by_cases h3 : c.n < s.round + pat
      · rw [if_pos h3]
        constructor
        · intro h; exact absurd h (by simp)
        · rintro (h | ⟨_, hle⟩)
          · exact absurd h h1
          · omega
      · rw [if_neg h3]
        constructor
        · intro _
          refine Or.inr ⟨?_, by omega⟩
          rintro (a | b)
          · exact h1 a
          · exact h2 b
        · intro _; rfl

theorem done_state_cases (eps : α) (pat : Nat) (s : State α) (c : Call α) :
    ((done eps pat s c).1 = s ∧ ¬ Improves eps s.value c) ∨ ((done eps pat s c).1 = record c ∧ Improves eps s.value c) := by
  by_cases h : Improves eps s.value c
  · exact Or.inr ⟨done_state_of_improves eps pat s c h, h⟩
  · exact Or.inl ⟨done_state_of_not_improves eps pat s c h, h⟩

/-! ### histories -/

theorem stateAfter_append (eps : α) (pat : Nat) (s : State α) (l1 l2 : List (Call α)) :
    stateAfter eps pat s (l1 ++ l2) = stateAfter eps pat (stateAfter eps pat s l1) l2 := by
  induction l1 generalizing s with
  | nil => rfl
  | cons c cs ih => simp only [List.cons_append, stateAfter]; exact ih _

theorem stateAfter_snoc (eps : α) (pat : Nat) (s : State α) (l : List (Call α)) (c : Call α) :
    stateAfter eps pat s (l ++ [c]) = (done eps pat (stateAfter eps pat s l) c).1 := by
  rw [stateAfter_append]; rfl

theorem answers_append (eps : α) (pat : Nat) (s : State α) (l1 l2 : List (Call α)) :
    answers eps pat s (l1 ++ l2) = answers eps pat s l1 ++ answers eps pat (stateAfter eps pat s l1) l2 := by
  induction l1 generalizing s with
  | nil => rfl
  | cons c cs ih => simp only [List.cons_append, answers, stateAfter]; rw [ih]

theorem answers_length (eps : α) (pat : Nat) (s : State α) (l : List (Call α)) :
    (answers eps pat s l).length = l.length := by
  induction l generalizing s with
  | nil => rfl
  | cons c cs ih => simp [answers, ih]

/-- every answer of a history is the answer of `done` to one of its calls in the state the calls before it left -/
theorem mem_answers (eps : α) (pat : Nat) (s : State α) (l : List (Call α)) (b : Bool) (hb : b ∈ answers eps pat s l) :
    ∃ pre c post, l = pre ++ c :: post ∧ b = (done eps pat (stateAfter eps pat s pre) c).2 := by
  induction l using List.reverseRecOn with
  | nil => simp [answers] at hb
  | append_singleton l c ih =>
    rw [answers_append] at hb
    rcases List.mem_append.mp hb with hb | hb
    · obtain ⟨pre, d, post, e, hd⟩ := ih hb
      exact ⟨pre, d, post ++ [c], by rw [e]; simp, hd⟩
    · simp only [answers, List.mem_singleton] at hb
      exact ⟨l, c, [], rfl, hb⟩

/-- calls that do not improve on the stored value leave the state alone -/
theorem stateAfter_of_no_improve (eps : α) (pat : Nat) (s : State α) (l : List (Call α))
    (h : ∀ d ∈ l, ¬ Improves eps s.value d) : stateAfter eps pat s l = s := by
  induction l with
  | nil => rfl
  | cons c cs ih =>
    have hc := done_state_of_not_improves eps pat s c (h c (by simp))
    simp only [stateAfter, hc]
    exact ih (fun d hd => h d (by simp [hd]))

end NanoVerif.EarlyStopping
