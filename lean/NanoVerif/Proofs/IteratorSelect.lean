import NanoVerif.Model.IteratorSelect
import NanoVerif.Proofs.Iterator
/-!
  C09 — `select_iterator_t` (`Model/IteratorSelect.lean`): the chunk size is always `≥ 1`, the loop over a feature list calls
  the callback for every feature of the list exactly once (in list order when the chunks are read in queue order), each by the
  scheduled worker; `make_features` lists exactly the features of the kind, increasing. Core Lean only.
-/
set_option linter.unusedSectionVars false
set_option linter.unusedSimpArgs false
set_option linter.unusedVariables false

namespace NanoVerif.Iterator
open NanoVerif.Objective

/-- `features_per_thread ≥ 1` for every number of features (0 included) and every pool size: `map` never sees a zero chunk -/
theorem featuresPerThread_pos (n c : Nat) : 0 < featuresPerThread n c := by
  unfold featuresPerThread
  have : (1 : Int) ≤ max 1 (NanoVerif.Gen.idiv (n : Int) (c : Int)) := Int.le_max_left ..
  omega

/-- with at most as many features as twice the pool size … the value itself: `round(n / c)` clamped below by 1 -/
theorem featuresPerThread_eq (n c : Nat) (hc : 0 < c) : featuresPerThread n c = max 1 ((n + c / 2) / c) := by
  unfold featuresPerThread NanoVerif.Gen.idiv
  have h1 : Int.tdiv (c : Int) 2 = ((c / 2 : Nat) : Int) := by
    rw [Int.tdiv_eq_ediv_of_nonneg (by omega)]; rfl
  have h2 : Int.tdiv ((n : Int) + ((c / 2 : Nat) : Int)) (c : Int) = (((n + c / 2) / c : Nat) : Int) := by
    rw [Int.tdiv_eq_ediv_of_nonneg (by omega)]
    norm_cast
  rw [h1, h2]
  omega

theorem makeFeatures_mem (kinds : List FKind) (k : FKind) (i : Nat) : i ∈ makeFeatures kinds k ↔ kinds[i]? = some k := by
  unfold makeFeatures
  simp only [List.mem_filter, List.mem_range, beq_iff_eq]
  constructor
  · exact fun h => h.2
  · intro h
    refine ⟨?_, h⟩
    by_cases hl : i < kinds.length
    · exact hl
    · rw [List.getElem?_eq_none (by omega)] at h
      cases h

theorem makeFeatures_sorted (kinds : List FKind) (k : FKind) : (makeFeatures kinds k).Pairwise (· < ·) := by
  unfold makeFeatures
  exact List.Pairwise.filter _ List.pairwise_lt_range

/-- a loop over a chain of ranges with a valid schedule: one call per feature position, in order, by the scheduled worker -/
theorem selectLoop_eq (features : List Nat) (workers : Nat) : ∀ (cs : List (Nat × Nat)) (ws : List Nat) (b n : Nat),
    Tiles b n cs → ws.length = cs.length → (∀ w ∈ ws, w < workers) →
    ∃ calls, selectLoop features workers cs ws = some calls ∧
      calls.map Call.ifeature = sliceOf features b n ∧ ∀ c ∈ calls, c.tnum < workers := by
  intro cs
  induction cs with
  | nil =>
    intro ws b n h hws _
    have : b = n := h
    subst this
    cases ws with
    | nil => exact ⟨[], rfl, by simp [sliceOf_self], fun _ h => by cases h⟩
    | cons _ _ => simp at hws
  | cons c cs ih =>
    intro ws b n h hws hall
    cases ws with
    | nil => simp at hws
    | cons w ws =>
      obtain ⟨cb, ce⟩ := c
      obtain ⟨h1, h2, h3, h4⟩ := h
      simp only at h1 h2 h3 h4
      subst h1
      have hw : w < workers := hall w (List.mem_cons_self ..)
      obtain ⟨rest, hrest, hmap, htn⟩ := ih ws ce n h4 (by simpa using hws) (fun w' hw' => hall w' (List.mem_cons_of_mem _ hw'))
      refine ⟨(sliceOf features cb ce).map (fun f => (⟨f, w⟩ : Call)) ++ rest, ?_, ?_, ?_⟩
      · simp [selectLoop, hw, hrest]
      · rw [List.map_append, List.map_map, hmap]
        have : (Call.ifeature ∘ fun f => (⟨f, w⟩ : Call)) = id := rfl
        rw [this, List.map_id]
        exact sliceOf_append features cb ce n h2 h3
      · intro c hc
        rcases List.mem_append.1 hc with hc | hc
        · simp only [List.mem_map] at hc
          obtain ⟨f, _, rfl⟩ := hc
          exact hw
        · exact htn c hc

/-- **`select_iterator_t::loop(samples, features, callback)`**: for every feature list (any order, repetitions, empty), every
    pool size `≥ 1` and every schedule naming one existing worker per chunk, the callback is called for exactly the features of
    the list, each position once (`calls.map ifeature = features`), always with an existing buffer index -/
theorem loopList_visits (features : List Nat) (workers : Nat) (asg : List Nat)
    (hasg : ValidAsg workers features.length (featuresPerThread features.length workers) asg) :
    ∃ calls, loopList features workers asg = some calls ∧ calls.map Call.ifeature = features ∧
      ∀ c ∈ calls, c.tnum < workers := by
  obtain ⟨calls, h1, h2, h3⟩ := selectLoop_eq features workers _ asg 0 features.length
    (chunks_tiles features.length _ (featuresPerThread_pos features.length workers)) hasg.1 hasg.2
  exact ⟨calls, h1, by rw [h2, sliceOf_full], h3⟩

/-- `loop(samples, callback)`: exactly the dataset's features of the callback's kind, each once -/
theorem loopKind_visits (kinds : List FKind) (k : FKind) (workers : Nat) (asg : List Nat)
    (hasg : ValidAsg workers (makeFeatures kinds k).length (featuresPerThread (makeFeatures kinds k).length workers) asg) :
    ∃ calls, loopKind kinds k workers asg = some calls ∧
      (∀ i, i ∈ calls.map Call.ifeature ↔ kinds[i]? = some k) ∧ (calls.map Call.ifeature).Pairwise (· < ·) := by
  obtain ⟨calls, h1, h2, _⟩ := loopList_visits (makeFeatures kinds k) workers asg hasg
  refine ⟨calls, h1, ?_, ?_⟩
  · intro i; rw [h2]; exact makeFeatures_mem kinds k i
  · rw [h2]; exact makeFeatures_sorted kinds k

-- 5 features on a pool of 2: chunks of round(5/2) = 3; 1 feature on a pool of 16: one chunk of 1; no feature: no call
example : featuresPerThread 5 2 = 3 ∧ featuresPerThread 1 16 = 1 ∧ featuresPerThread 0 4 = 1 := by decide
example : loopList [7, 3, 3, 9, 1] 2 [1, 0] = some [⟨7, 1⟩, ⟨3, 1⟩, ⟨3, 1⟩, ⟨9, 0⟩, ⟨1, 0⟩] := by decide
example : ValidAsg 2 5 (featuresPerThread 5 2) [1, 0] := by decide
example : loopList [] 4 [] = some [] := by decide
example : loopList [7, 3] 1 [1] = none := by decide
example : makeFeatures [.scalar, .sclass, .scalar, .struct] .scalar = [0, 2] := by decide

end NanoVerif.Iterator
