import NanoVerif.Proofs.PoolStep
/-!
  C17 — the bookkeeping invariant `Inv` of the pool protocol model and its preservation by all fourteen events.
  Core Lean only.
-/
namespace NanoVerif.Pool

/-- bookkeeping of tasks: the queue holds exactly the queued tasks, once each; a task is `running w` exactly when worker
    `w` is running it; a task has been started once if it is running or done, never otherwise -/
structure Inv (s : St) : Prop where
  q_nodup : s.queue.Nodup
  q_iff : ∀ t, t ∈ s.queue ↔ s.ts t = .queued
  run_iff : ∀ t w, s.ts t = .running w ↔ (w < s.nw ∧ s.wpc w = .running t)
  exec_le : ∀ t, s.exec t = (match s.ts t with | .running _ => 1 | .done => 1 | _ => 0)

theorem inv_init (nw : Nat) : Inv (init nw) := by
  refine ⟨?_, ?_, ?_, ?_⟩ <;> simp [init]

/-- changing only non-running pcs to non-running pcs preserves the running bookkeeping -/
theorem run_iff_of_wpc_eq (s : St) (wpc' : Nat → WPc) (hi : Inv s)
    (h : ∀ v t, wpc' v = .running t ↔ s.wpc v = .running t) :
    ∀ t w, s.ts t = .running w ↔ (w < s.nw ∧ wpc' w = .running t) := by
  intro t w
  rw [hi.run_iff t w, h w t]

theorem inv_wTake (s s' : St) (w : Nat) (hi : Inv s) (h : step s (.wTake w) = some s') : Inv s' := by
  obtain ⟨hw, hpc, _, t, q, hq, rfl⟩ := step_wTake h
  have hnd := hi.q_nodup
  rw [hq] at hnd
  have htq : s.ts t = .queued := (hi.q_iff t).mp (by rw [hq]; simp)
  have htnq : t ∉ q := (List.nodup_cons.mp hnd).1
  refine ⟨?_, ?_, ?_, ?_⟩
  · exact (List.nodup_cons.mp hnd).2
  · intro u
    show u ∈ q ↔ upd s.ts t (.running w) u = .queued
    by_cases hu : u = t
    · subst hu; simp [upd_same, htnq]
    · rw [upd_other _ _ _ _ hu, ← hi.q_iff u, hq]; simp [hu]
  · intro u v
    show upd s.ts t (.running w) u = .running v ↔ (v < s.nw ∧ upd s.wpc w (.running t) v = .running u)
    by_cases hu : u = t
    · subst hu
      rw [upd_same]
      constructor
      · intro h1; cases h1; exact ⟨hw, by rw [upd_same]⟩
      · rintro ⟨hv, h2⟩
        by_cases hvw : v = w
        · subst hvw; rfl
        · rw [upd_other _ _ _ _ hvw] at h2
          have := (hi.run_iff u v).mpr ⟨hv, h2⟩
          rw [htq] at this; cases this
    · rw [upd_other _ _ _ _ hu]
      by_cases hvw : v = w
      · subst hvw
        rw [upd_same]
        constructor
        · intro h1
          have := ((hi.run_iff u v).mp h1).2
          rw [hpc] at this; cases this
        · rintro ⟨_, h2⟩; cases h2; exact absurd rfl hu
      · rw [upd_other _ _ _ _ hvw]; exact hi.run_iff u v
  · intro u
    show upd s.exec t (s.exec t + 1) u = (match upd s.ts t (.running w) u with | .running _ => 1 | .done => 1 | _ => 0)
    by_cases hu : u = t
    · subst hu; simp only [upd_same]
      have := hi.exec_le u; rw [htq] at this; simp at this; omega
    · rw [upd_other _ _ _ _ hu, upd_other _ _ _ _ hu]; exact hi.exec_le u

/-- a worker that is not running a task changes its pc to another non-running pc -/
theorem inv_wpc_nonrunning (s : St) (w : Nat) (p : WPc) (hi : Inv s) (hnr : ∀ t, s.wpc w ≠ .running t)
    (hp : ∀ t, p ≠ .running t) : Inv { s with wpc := upd s.wpc w p } := by
  refine ⟨hi.q_nodup, hi.q_iff, ?_, hi.exec_le⟩
  apply run_iff_of_wpc_eq s _ hi
  intro v t
  show upd s.wpc w p v = .running t ↔ s.wpc v = .running t
  by_cases hv : v = w
  · subst hv; rw [upd_same]
    constructor
    · intro h1; exact absurd h1 (hp t)
    · intro h1; exact absurd h1 (hnr t)
  · rw [upd_other _ _ _ _ hv]

theorem inv_wSleep (s s' : St) (w : Nat) (hi : Inv s) (h : step s (.wSleep w) = some s') : Inv s' := by
  obtain ⟨_, hpc, _, _, rfl⟩ := step_wSleep h
  exact inv_wpc_nonrunning s w _ hi (by intro t; rw [hpc]; simp) (by intro t; simp)

theorem inv_wWake (s s' : St) (w : Nat) (hi : Inv s) (h : step s (.wWake w) = some s') : Inv s' := by
  obtain ⟨_, hpc, rfl⟩ := step_wWake h
  exact inv_wpc_nonrunning s w _ hi (by intro t; rw [hpc]; simp) (by intro t; simp)

theorem inv_wRunEnd (s s' : St) (w : Nat) (b : Bool) (hi : Inv s) (h : step s (.wRunEnd w b) = some s') : Inv s' := by
  obtain ⟨hw, t, hpc, rfl⟩ := step_wRunEnd h
  have hts : s.ts t = .running w := (hi.run_iff t w).mpr ⟨hw, hpc⟩
  refine ⟨hi.q_nodup, ?_, ?_, ?_⟩
  · intro u
    show u ∈ s.queue ↔ upd s.ts t .done u = .queued
    by_cases hu : u = t
    · subst hu; rw [upd_same]
      constructor
      · intro hm; have := (hi.q_iff u).mp hm; rw [hts] at this; cases this
      · intro h1; cases h1
    · rw [upd_other _ _ _ _ hu]; exact hi.q_iff u
  · intro u v
    show upd s.ts t .done u = .running v ↔ (v < s.nw ∧ upd s.wpc w .ready v = .running u)
    by_cases hu : u = t
    · subst hu; rw [upd_same]
      constructor
      · intro h1; cases h1
      · rintro ⟨hv, h2⟩
        by_cases hvw : v = w
        · subst hvw; rw [upd_same] at h2; cases h2
        · rw [upd_other _ _ _ _ hvw] at h2
          have := (hi.run_iff u v).mpr ⟨hv, h2⟩
          rw [hts] at this; cases this; exact absurd rfl hvw
    · rw [upd_other _ _ _ _ hu]
      by_cases hvw : v = w
      · subst hvw; rw [upd_same]
        constructor
        · intro h1
          have := ((hi.run_iff u v).mp h1).2
          rw [hpc] at this; cases this; exact absurd rfl hu
        · rintro ⟨_, h2⟩; cases h2
      · rw [upd_other _ _ _ _ hvw]; exact hi.run_iff u v
  · intro u
    show s.exec u = (match upd s.ts t .done u with | .running _ => 1 | .done => 1 | _ => 0)
    by_cases hu : u = t
    · subst hu; rw [upd_same]
      have := hi.exec_le u; rw [hts] at this; simpa using this
    · rw [upd_other _ _ _ _ hu]; exact hi.exec_le u

theorem inv_wExit (s s' : St) (w : Nat) (hi : Inv s) (h : step s (.wExit w) = some s') : Inv s' := by
  obtain ⟨_, hpc, _, rfl⟩ := step_wExit h
  refine ⟨List.nodup_nil, ?_, ?_, ?_⟩
  · intro t
    show t ∈ ([] : List Nat) ↔ drop (s.ts t) = .queued
    simp [drop_queued]
  · intro t v
    show drop (s.ts t) = .running v ↔ (v < s.nw ∧ (if v = w then WPc.exited else wake (s.wpc v)) = .running t)
    rw [drop_running, hi.run_iff t v]
    by_cases hvw : v = w
    · subst hvw; simp [hpc]
    · simp [hvw, wake_running]
  · intro t
    show s.exec t = (match drop (s.ts t) with | .running _ => 1 | .done => 1 | _ => 0)
    have := hi.exec_le t
    cases hq : s.ts t <;> simp [hq, drop] at this ⊢ <;> exact this

theorem inv_cPush (s s' : St) (c : Nat) (ts : List Nat) (all : Bool) (hi : Inv s)
    (h : step s (.cPush c ts all) = some s') : Inv s' := by
  obtain ⟨_, hfresh, hnd, _, rfl⟩ := step_cPush h
  refine ⟨?_, ?_, ?_, ?_⟩
  · refine List.nodup_append.mpr ⟨hi.q_nodup, hnd, ?_⟩
    intro a ha b hb hab
    subst hab
    have h1 := (hi.q_iff a).mp ha
    rw [hfresh a hb] at h1; cases h1
  · intro t
    show t ∈ s.queue ++ ts ↔ (if t ∈ ts then TS.queued else s.ts t) = .queued
    by_cases ht : t ∈ ts
    · simp [ht]
    · simp [ht, hi.q_iff t]
  · intro t v
    show (if t ∈ ts then TS.queued else s.ts t) = .running v ↔ (v < s.nw ∧ s.wpc v = .running t)
    by_cases ht : t ∈ ts
    · simp only [ht, if_true]
      constructor
      · intro h1; cases h1
      · intro h2
        have := (hi.run_iff t v).mpr h2
        rw [hfresh t ht] at this; cases this
    · simp only [ht, if_false]; exact hi.run_iff t v
  · intro t
    show s.exec t = (match (if t ∈ ts then TS.queued else s.ts t) with | .running _ => 1 | .done => 1 | _ => 0)
    have := hi.exec_le t
    by_cases ht : t ∈ ts
    · simp only [ht, if_true]; rw [hfresh t ht] at this; exact this
    · simp only [ht, if_false]; exact this

/-- events that touch only client pcs / the ghost state of the sequential path / `stop` keep the bookkeeping -/
theorem inv_of_same (s s' : St) (hi : Inv s) (hq : s'.queue = s.queue) (hts : s'.ts = s.ts) (hw : s'.wpc = s.wpc)
    (hn : s'.nw = s.nw) (he : s'.exec = s.exec) : Inv s' := by
  refine ⟨?_, ?_, ?_, ?_⟩
  · rw [hq]; exact hi.q_nodup
  · rw [hq, hts]; exact hi.q_iff
  · rw [hts, hw, hn]; exact hi.run_iff
  · rw [hts, he]; exact hi.exec_le

theorem inv_wake_all (s : St) (cpc' : Nat → CPc) (hi : Inv s) :
    Inv { s with wpc := fun v => wake (s.wpc v), cpc := cpc' } := by
  refine ⟨hi.q_nodup, hi.q_iff, ?_, hi.exec_le⟩
  apply run_iff_of_wpc_eq s _ hi
  intro v t
  exact wake_running _ _

theorem inv_cNotify (s s' : St) (c : Nat) (w : Option Nat) (hi : Inv s) (h : step s (.cNotify c w) = some s') : Inv s' := by
  rcases step_cNotify h with ⟨ts, _, rfl⟩ | ⟨ts, v, _, _, _, hs, rfl⟩ | ⟨ts, _, _, _, rfl⟩ | ⟨_, rfl⟩
  · exact inv_wake_all s _ hi
  · have := inv_wpc_nonrunning s v .ready hi (by intro t; rw [hs]; simp) (by intro t; simp)
    exact inv_of_same _ _ this rfl rfl rfl rfl rfl
  · exact inv_of_same _ _ hi rfl rfl rfl rfl rfl
  · exact inv_wake_all s _ hi

theorem inv_step (s s' : St) (e : Ev) (hi : Inv s) (h : step s e = some s') : Inv s' := by
  cases e with
  | wTake w => exact inv_wTake s s' w hi h
  | wSleep w => exact inv_wSleep s s' w hi h
  | wExit w => exact inv_wExit s s' w hi h
  | wRunEnd w b => exact inv_wRunEnd s s' w b hi h
  | wWake w => exact inv_wWake s s' w hi h
  | cPush c ts all => exact inv_cPush s s' c ts all hi h
  | cNotify c w => exact inv_cNotify s s' c w hi h
  | cReturn c => obtain ⟨_, _, _, rfl⟩ := step_cReturn h; exact inv_of_same _ _ hi rfl rfl rfl rfl rfl
  | dStop c => obtain ⟨_, rfl⟩ := step_dStop h; exact inv_of_same _ _ hi rfl rfl rfl rfl rfl
  | dJoined c => obtain ⟨_, _, rfl⟩ := step_dJoined h; exact inv_of_same _ _ hi rfl rfl rfl rfl rfl
  | sStart c n => obtain ⟨_, rfl⟩ := step_sStart h; exact inv_of_same _ _ hi rfl rfl rfl rfl rfl
  | sOpBegin c => obtain ⟨_, _, _, _, _, rfl⟩ := step_sOpBegin h; exact inv_of_same _ _ hi rfl rfl rfl rfl rfl
  | sOpEnd c b => obtain ⟨_, _, _, _, rfl⟩ := step_sOpEnd h; exact inv_of_same _ _ hi rfl rfl rfl rfl rfl
  | sReturn c => obtain ⟨_, _, _, rfl⟩ := step_sReturn h; exact inv_of_same _ _ hi rfl rfl rfl rfl rfl

end NanoVerif.Pool
