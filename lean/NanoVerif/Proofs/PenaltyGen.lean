import NanoVerif.Model.PenaltySolver
import NanoVerif.Gen.PenaltyKernels
import NanoVerif.Gen.AugLagStep
import NanoVerif.Gen.DoneLogic
/-!
  C05 — the hand-written model IS the text regenerated from the C++ source (translation round; DESIGN.md §2.3.a).

  `Gen/PenaltyKernels.lean` and `Gen/AugLagStep.lean` are re-translated by `tools/props/c05_translate.py` from
  `src/function/penalty.cpp`, `src/solver/augmented.cpp`, `src/solver/penalty.cpp`, `src/solver.cpp` on every check. Each theorem
  below states, for EVERY scalar type with the core classes of the model (so for `Float` in `driver_c05` and for the ordered fields of
  Props/C05.lean alike), that a definition of `Model/Penalty.lean` / `Model/PenaltySolver.lean` equals the one built from the generated
  kernels. An edit of a translated C++ formula changes the generated text and breaks the corresponding theorem.
  No Mathlib; no hypotheses (the theorems are equations of programs), the `example`s at the end instantiate them at `Float` and `Int`.
-/
namespace NanoVerif.Penalty
open NanoVerif.Constraint
open NanoVerif.Gen
set_option linter.unusedSectionVars false

section kernels
variable {α : Type} [Add α] [Sub α] [Mul α] [Div α] [Neg α] [LT α] [LE α] [DecidableLT α] [DecidableLE α]
  [OfNat α 0] [OfNat α 1] [OfNat α 2]

/-- `penalty_vgrad` (penalty.cpp): a constraint contributes `op(fc, gc)` exactly under the generated guard `eq || fc > 0.0` -/
theorem model_penaltyVgrad_is_generated (op : α → List α → List α → α × List α) (fx : α) (gx : List α) (e : Eval α)
    (es : List (Eval α)) :
    penaltyVgrad op fx gx (e :: es) =
      if PenaltyKernels.penaltyActive e.isEq e.fc then penaltyVgrad op (fx + (op e.fc e.gc gx).1) (op e.fc e.gc gx).2 es
      else penaltyVgrad op fx gx es := rfl

/-- the lambda of `linear_penalty_function_t::do_vgrad`: value and gradient factor are the generated formulas -/
theorem model_linearOp_is_generated (c fc : α) (gc gx : List α) :
    linearOp c fc gc gx = (PenaltyKernels.linearValue c fc, axpy (PenaltyKernels.linearFactor c fc) gc gx) := rfl

/-- the lambda of `quadratic_penalty_function_t::do_vgrad`: value and gradient factor are the generated formulas -/
theorem model_quadraticOp_is_generated (c fc : α) (gc gx : List α) :
    quadraticOp c fc gc gx = (PenaltyKernels.quadraticValue c fc, axpy (PenaltyKernels.quadraticFactor c fc) gc gx) := rfl

/-- `augmented_lagrangian_function_t::do_vgrad`, an equality: it consumes the next `lambda`, the generated guard holds (`eq || …`) and
    the generated value / gradient factor are added -/
theorem model_alVgrad_eq_is_generated (ro l : α) (lambda miu : List α) (fx fc : α) (gx gc : List α) (es : List (Eval α)) :
    PenaltyKernels.alActive true ro fc l = true ∧
    alVgrad ro (l :: lambda) miu fx gx (⟨true, fc, gc⟩ :: es) =
      alVgrad ro lambda miu (fx + PenaltyKernels.alValue ro fc l) (axpy (PenaltyKernels.alFactor ro fc l) gc gx) es :=
  ⟨rfl, rfl⟩

/-- `augmented_lagrangian_function_t::do_vgrad`, an inequality: it consumes the next `miu` and contributes the generated value /
    gradient factor exactly under the generated guard `eq || fc + mu / ro > 0.0` -/
theorem model_alVgrad_ineq_is_generated (ro m : α) (lambda miu : List α) (fx fc : α) (gx gc : List α) (es : List (Eval α)) :
    alVgrad ro lambda (m :: miu) fx gx (⟨false, fc, gc⟩ :: es) =
      if PenaltyKernels.alActive false ro fc m then
        alVgrad ro lambda miu (fx + PenaltyKernels.alValue ro fc m) (axpy (PenaltyKernels.alFactor ro fc m) gc gx) es
      else alVgrad ro lambda miu fx gx es := by
  have h' : PenaltyKernels.alActive false ro fc m = decide ((0 : α) < fc + m / ro) := rfl
  have step : alVgrad ro lambda (m :: miu) fx gx (⟨false, fc, gc⟩ :: es) =
      if (0 : α) < fc + m / ro then
        alVgrad ro lambda miu (fx + half * ro * (fc + m / ro) * (fc + m / ro)) (axpy (ro * (fc + m / ro)) gc gx) es
      else alVgrad ro lambda miu fx gx es := by cases lambda <;> rfl
  by_cases h : (0 : α) < fc + m / ro
  · rw [h', decide_eq_true h, if_pos rfl]
    exact step.trans (if_pos h)
  · rw [h', decide_eq_false h, if_neg Bool.false_ne_true]
    exact step.trans (if_neg h)

/-- `solver_t::more_precise` + the growth rule and the two decisions of `solver_penalty_t::minimize` (solver/penalty.cpp): one outer
    iteration of the model is the generated `!iter_ok` branch, the generated `converged`, `solver_t::done`'s generated branch condition
    (Gen/DoneLogic.lean), the generated penalty growth and epsilon schedule -/
theorem model_penStep_is_generated (cs : List (C α)) (p : PParams α) (s : PState α) (a : PAnswer α) :
    penStep cs p s a =
      (let xconv := xConverged s.best.x a.cx p.eps
       let call : PCall α := ⟨s.penalty, s.innerEps, s.best.x, a.cx, a.iterOk, a.bvalid, xconv⟩
       let conv := AugLagStep.penConverged a.iterOk xconv
       if AugLagStep.penFailed a.iterOk then
         ({ s with penalty := AugLagStep.penaltyOnFail s.penalty p.eta, iters := s.iters + 1, calls := s.calls ++ [call] }, false)
       else if DoneLogic.doneCond a.iterOk conv a.bvalid then
         ({ s with best := mkState cs a.cx, iters := s.iters + 1, status := if conv then 1 else 2, calls := s.calls ++ [call] }, true)
       else
         ({ best := mkState cs a.cx, penalty := AugLagStep.penaltyNext s.penalty p.eta,
            innerEps := AugLagStep.morePrecise s.innerEps p.epsK, iters := s.iters + 1, status := s.status,
            calls := s.calls ++ [call] }, false)) := by
  cases a with
  | mk cx ok bv => cases ok <;> rfl

end kernels

section step
variable {α : Type} [Add α] [Sub α] [Mul α] [Div α] [Neg α] [LT α] [LE α] [DecidableLT α] [DecidableLE α] [∀ n, OfNat α n]

/-- `make_ro1` (augmented.cpp): the model with the literal `1e-6` of the source is the generated scalar formula applied to the two dot
    products, `G` being the generated element-wise image of the inequalities -/
theorem model_makeRo1_is_generated (fx : α) (s : St α) (roMin roMax : α) :
    makeRo1 fx s (1 / 1000000) roMin roMax =
      AugLagStep.makeRo1 fx (dot s.ceq s.ceq) (dot (s.cineq.map AugLagStep.ro1Elem) (s.cineq.map AugLagStep.ro1Elem)) roMin roMax := rfl

/-- `make_criterion` (augmented.cpp): `max` of the two infinity norms over the generated element maps -/
theorem model_criterion_is_generated (c : St α) (miu : List α) (ro : α) :
    criterion c miu ro =
      AugLagStep.criterionOf (maxL (c.ceq.map (fun h => absv (AugLagStep.criterionEqElem h))))
        (maxL (List.zipWith (fun g m => absv (AugLagStep.criterionIneqElem g m ro)) c.cineq miu)) := rfl

/-- the variables before the loop of `solver_augmented_lagrangian_t::do_minimize`: the generated initial multipliers -/
theorem model_alInit_is_generated (cs : List (C α)) (x0 : List α) (ro1 : α) :
    alInit cs x0 ro1 =
      (let b := mkState cs x0
       let miu := b.cineq.map (fun _ => (AugLagStep.miuInit : α))
       let lambda := b.ceq.map (fun _ => (AugLagStep.lambdaInit : α))
       { best := b, bmeq := lambda, bmineq := miu, ro := ro1, lambda := lambda, miu := miu, oldCrit := criterion b miu ro1, iters := 0,
         status := 0 }) := rfl

/-- `nano::converged(bstate, cstate, epsilon)` (state.cpp) — the step test of all three solvers — is the scalar form regenerated into
    Gen/DoneLogic.lean (`dx < epsilon * std::max(1.0, |bstate.x|_inf)`) applied to the two infinity norms -/
theorem model_xConverged_is_generated (bx cx : List α) (eps : α) :
    xConverged bx cx eps = DoneLogic.convergedDx (maxL ((vsub cx bx).map absv)) eps (maxL (bx.map absv)) := rfl

/-- `converged` of the augmented-Lagrangian loop is the generated conjunction -/
theorem model_alConverged_is_generated (p : Params α) (s : ALState α) (a : Answer α) :
    alConverged p s a =
      AugLagStep.alConverged a.iterOk (criterion a.cstate s.miu s.ro) p.eps (xConverged s.best.x a.cstate.x p.eps) := rfl

/-- the guard of the best-state update is the generated one -/
theorem model_alImproved_is_generated (s : ALState α) (a : Answer α) :
    alImproved s a = AugLagStep.alImproved a.iterOk (criterion a.cstate s.miu s.ro) s.oldCrit := rfl

/-- the loop stops exactly under `solver_t::done`'s generated branch condition on the generated `converged` -/
theorem model_alStep_stop_is_generated (cs : List (C α)) (p : Params α) (s : ALState α) (a : Answer α) :
    (alStep cs p s a).2 = DoneLogic.doneCond a.iterOk (alConverged p s a) a.bvalid := by
  have hd : DoneLogic.doneCond a.iterOk (alConverged p s a) a.bvalid = (alConverged p s a || !(a.iterOk && a.bvalid)) := rfl
  rw [hd]
  unfold alStep
  dsimp only
  by_cases hc : (alConverged p s a || !(a.iterOk && a.bvalid)) = true
  · rw [if_pos hc, hc]
  · rw [if_neg hc]
    exact (Bool.eq_false_iff.mpr hc).symm

/-- when the loop goes on, `ro`, `old_criterion`, `lambda`, `miu` are updated by the generated rules (the multipliers with the `ro` of
    BEFORE its update, element by element) -/
theorem model_alStep_updates_are_generated (cs : List (C α)) (p : Params α) (s : ALState α) (a : Answer α)
    (h : (alStep cs p s a).2 = false) :
    (alStep cs p s a).1.ro = AugLagStep.roNext s.iters (criterion a.cstate s.miu s.ro) p.tau s.oldCrit p.gamma s.ro ∧
    (alStep cs p s a).1.oldCrit = AugLagStep.oldCritNext (criterion a.cstate s.miu s.ro) ∧
    (alStep cs p s a).1.lambda =
      List.zipWith (fun l hj => AugLagStep.lambdaNext l s.ro hj p.lambdaMin p.lambdaMax) s.lambda a.cstate.ceq ∧
    (alStep cs p s a).1.miu = List.zipWith (fun m g => AugLagStep.miuNext m s.ro g p.miuMax) s.miu a.cstate.cineq := by
  have hro : (if 0 < s.iters ∧ p.tau * s.oldCrit < criterion a.cstate s.miu s.ro then p.gamma * s.ro else s.ro) =
      AugLagStep.roNext s.iters (criterion a.cstate s.miu s.ro) p.tau s.oldCrit p.gamma s.ro := by
    unfold AugLagStep.roNext
    by_cases h1 : 0 < s.iters <;> by_cases h2 : p.tau * s.oldCrit < criterion a.cstate s.miu s.ro <;> simp [h1, h2]
  unfold alStep at h ⊢
  dsimp only at h ⊢
  by_cases hc : (alConverged p s a || !(a.iterOk && a.bvalid)) = true
  · rw [if_pos hc] at h
    exact absurd (show true = false from h) (by decide)
  · rw [if_neg hc]
    exact ⟨hro, rfl, rfl, rfl⟩

end step

/-! ### the theorems have no hypotheses; they apply to the scalar types the model is run and proved at -/

example : linearOp (2 : Float) (-3) [1] [0] = (PenaltyKernels.linearValue 2 (-3), axpy (PenaltyKernels.linearFactor 2 (-3)) [1] [0]) :=
  model_linearOp_is_generated _ _ _ _
example (s : St Int) : True := by have := model_makeRo1_is_generated (3 : Int) s 1 10; trivial
example (s : ALState Float) (a : Answer Float) : True := by have := model_alImproved_is_generated s a; trivial

end NanoVerif.Penalty
