import NanoVerif.Proofs.Tuner
import NanoVerif.Proofs.TunerSpace
/-!
  C13 — one iteration of the loop of `surrogate_tuner_t::do_optimize` with the centre derived as in the code
  (`Tuner.surrogateCentre`): the only oracle left is the pair of L-BFGS runs (`Tuner.Solver`).
-/
set_option linter.unusedSectionVars false

namespace NanoVerif.Tuner

section
variable {α : Type} [Field α] [LinearOrder α] [IsStrictOrderedRing α] [Log10 α]

theorem surrogateCentre_some (top : α) (spaces : List (Space α)) (solver : Solver α) (steps : List (Step α))
    (centre : IGrid) (h : surrogateCentre top spaces solver steps = some centre) :
    ∃ x0 ps ys m x, fitData spaces steps = some (x0 :: ps, ys) ∧ ys = steps.map (·.value) ∧
      solver.fit ((x0 :: ps).map quadTerms) ys = some m ∧ solver.opt m x0 = some x ∧
      centreOf top spaces x = some centre := by
  unfold surrogateCentre at h
  split at h
  · rename_i x0 ps ys hfd
    split at h
    · rename_i m hm
      split at h
      · rename_i x hx
        refine ⟨x0, ps, ys, m, x, hfd, ?_, hm, hx, h⟩
        unfold fitData at hfd
        cases hmm : (steps.mapM fun s => (mapToGrid (spaces.map (·.grid)) s.igrid).bind (toSurrogateVec spaces)) with
        | none => simp [hmm] at hfd
        | some v => simp [hmm] at hfd; exact hfd.2.symm
      · cases h
    · cases h
  · cases h

/-- **the surrogate tuner's batch**: when an iteration of the main loop hands a batch to the callback, the two solver
    runs succeeded (fit `m` on the quadratic features of the evaluated steps and their values, minimiser `x` started at
    the best step), the centre is the image of the minimiser (per coordinate the closest grid point in surrogate
    coordinates), it lies in the grid box, and the batch is its radius-1 neighbourhood minus the evaluated points -/
theorem surrogate_step_centre (c : Cfg α) (top : α) (spaces : List (Space α)) (solver : Solver α)
    (hkind : c.kind = .surrogate) (horacle : c.oracle = surrogateCentre top spaces solver)
    (hne : ∀ s ∈ spaces, s.grid ≠ []) (st st' : St α) (hmain : st.phase = .main) (batch : List IGrid)
    (hb : batch ≠ []) (h : step c st = .next st' batch) :
    ∃ x0 ps m x centre,
      fitData spaces st.steps = some (x0 :: ps, st.steps.map (·.value)) ∧
      solver.fit ((x0 :: ps).map quadTerms) (st.steps.map (·.value)) = some m ∧ solver.opt m x0 = some x ∧
      centreOf top spaces x = some centre ∧
      inGrid (minOf (spaces.map (·.grid.length))) (maxOf (spaces.map (·.grid.length))) centre = true ∧
      batch = freshOf (localSearch c.mn c.mx centre 1) st.steps := by
  unfold step at h
  rw [hmain] at h
  simp only at h
  split at h
  · simp only [Out.next.injEq] at h; exact absurd h.2.symm hb
  · rename_i s rest hsteps
    split at h
    · rw [hkind, horacle] at h
      simp only at h
      split at h
      · cases h
      · rename_i centre hc
        obtain ⟨x0, ps, ys, m, x, hfd, hys, hm, hx, hcen⟩ :=
          surrogateCentre_some top spaces solver st.steps centre hc
        subst hys
        split at h
        · simp only [Out.next.injEq] at h; exact absurd h.2.symm hb
        · rename_i steps' b hev
          simp only [Out.next.injEq] at h
          obtain ⟨hbatch, _⟩ := evaluate_ok hev
          refine ⟨x0, ps, m, x, centre, hfd, hm, hx, hcen, centreOf_inGrid top spaces x centre hne hcen, ?_⟩
          rw [← h.2, hbatch]
        · cases h
    · simp only [Out.next.injEq] at h; exact absurd h.2.symm hb

end

end NanoVerif.Tuner
