import NanoVerif.Model.Bundle
import NanoVerif.Gen.BundleStep
import Mathlib.Algebra.Order.Field.Basic
import Mathlib.Tactic.Ring
/-!
  C03 (translation round) — the part of the tie between Model/Bundle.lean and the regenerated Gen/BundleStep.lean whose two sides differ
  in shape: the analytic two-row branch of `bundle_t::solve` writes `0.5 * x` where the model writes `x / 2`. Equal in every field
  (and bit for bit in IEEE arithmetic, where halving and multiplying by 0.5 are the same exact operation up to underflow).
-/
set_option linter.unusedSectionVars false
namespace NanoVerif.Bundle
open NanoVerif.Gen
variable {α : Type} [Field α] [LinearOrder α] [IsStrictOrderedRing α]

/-- bundle.cpp:37-40 -/
theorem model_solve1_is_generated : (solve1 : List α) = BundleStep.solve1 := rfl

/-- bundle.cpp:41-55: the minimiser of the two-row quadratic over the segment, with `Q(i,j)` the dot products of the rows and
    `c = miu * e` -/
theorem model_solve2_is_generated (fin : α → Bool) (miu : α) (p0 p1 : Pair α) :
    solve2 fin miu p0 p1 =
      BundleStep.solve2 fin miu (dot p0.s p0.s) (dot p0.s p1.s) (dot p1.s p0.s) (dot p1.s p1.s) p0.e p1.e := by
  have h : ∀ x : α, (1 : α) / 2 * x = x / 2 := fun x => by ring
  simp only [solve2, BundleStep.solve2, h]

end NanoVerif.Bundle
