import NanoVerif.Proofs.WLearnerAffine
/-!
  C10 — the hinge: for every candidate threshold (mid-point between two consecutive distinct values) and both directions
  the stored slope is the least-squares slope of `β·(x − t)` on the active side, the reported RSS is the RSS of the stored
  hinge, and every such threshold / direction is tried.
-/
set_option linter.unusedSectionVars false
set_option linter.unusedVariables false

namespace NanoVerif.WLearner
variable {α : Type} [Field α] [LinearOrder α] [IsStrictOrderedRing α]

/-- `Σ (x − t)²` over a list of present values -/
def devSq (t : α) (items : List (Item α)) : α := lsum (items.map fun it => (it.v - t) * (it.v - t))

theorem hingeDen_eq (items : List (Item α)) (t : α) :
    hingeDenB (fullMom items) t = devSq t items ∧ hingeDenS (fullMom items) t = devSq t items := by
  unfold hingeDenB hingeDenS devSq two
  rw [fullMom_x2, fullMom_x0, fullMom_x1]
  constructor
  · induction items with
    | nil => simp [countOf_nil]
    | cons it items ih =>
      simp only [List.map_cons, lsum_cons, countOf_cons] at *
      rw [← ih]; ring
  · induction items with
    | nil => simp [countOf_nil]
    | cons it items ih =>
      simp only [List.map_cons, lsum_cons, countOf_cons] at *
      rw [← ih]; ring

theorem devSq_pos (t : α) (items : List (Item α)) (hne : items ≠ []) (hv : ∀ it ∈ items, it.v ≠ t) :
    0 < devSq t items := by
  unfold devSq
  cases items with
  | nil => exact absurd rfl hne
  | cons it rest =>
    simp only [List.map_cons, lsum_cons]
    have h1 : 0 < (it.v - t) * (it.v - t) := mul_self_pos.mpr (sub_ne_zero.mpr (hv it (by simp)))
    have h2 : 0 ≤ lsum (rest.map fun it => (it.v - t) * (it.v - t)) :=
      lsum_map_nonneg _ _ (fun x _ => mul_self_nonneg _)
    linarith

/-- `::score(…, beta)` is the squared error of `β·(x − t)` over the samples of the accumulator, for any slope -/
theorem hingeSide_eq (T : Nat) (items : List (Item α)) (t : α) (beta : Vec α) :
    hingeSide T (fullMom items) t beta
      = lsum (items.map fun it => sqErr T it.r (fun o => beta o * (it.v - t))) := by
  unfold hingeSide sqErr
  rw [← vsum_lsum (fun it o => (it.r o - beta o * (it.v - t)) * (it.r o - beta o * (it.v - t))) items T]
  apply vsum_congr; intro o _
  unfold hingeDenS two
  rw [fullMom_r2, fullMom_x2, fullMom_x0, fullMom_x1, fullMom_rx, fullMom_r1]
  induction items with
  | nil => simp [countOf_nil]
  | cons it items ih =>
    simp only [List.map_cons, lsum_cons, countOf_cons] at *
    rw [← ih]; ring

/-- one output: the slope `num / den` minimises `r2 + β²·den − 2β·num` when `den > 0` -/
theorem hinge_scalar_optimal (r2 num den beta : α) (hden : 0 < den) :
    r2 + num / den * (num / den) * den - 2 * (num / den) * num ≤ r2 + beta * beta * den - 2 * beta * num := by
  have hne : den ≠ 0 := ne_of_gt hden
  have e : (r2 + beta * beta * den - 2 * beta * num) - (r2 + num / den * (num / den) * den - 2 * (num / den) * num)
      = den * ((beta - num / den) * (beta - num / den)) := by
    field_simp; ring
  have : 0 ≤ den * ((beta - num / den) * (beta - num / den)) := mul_nonneg (le_of_lt hden) (mul_self_nonneg _)
  linarith

/-- the stored slope is optimal on its side -/
theorem hingeSide_optimal (T : Nat) (items : List (Item α)) (t : α) (hpos : 0 < devSq t items) (beta : Vec α) :
    hingeSide T (fullMom items) t (hingeBeta (fullMom items) t) ≤ hingeSide T (fullMom items) t beta := by
  unfold hingeSide hingeBeta
  apply vsum_le; intro o _
  rw [(hingeDen_eq items t).1, (hingeDen_eq items t).2]
  have := hinge_scalar_optimal ((fullMom items).r2 o) ((fullMom items).rx o - (fullMom items).r1 o * t) (devSq t items)
    (beta o) hpos
  simp only [two, one_add_one_eq_two]
  exact this

theorem hingeSide_congr (T : Nat) (m m' : Mom α) (t : α) (beta : Vec α) (h0 : m.x0 = m'.x0) (h1 : m.x1 = m'.x1)
    (h2 : m.x2 = m'.x2) (hr1 : ∀ o, m.r1 o = m'.r1 o) (hrx : ∀ o, m.rx o = m'.rx o) (hr2 : ∀ o, m.r2 o = m'.r2 o) :
    hingeSide T m t beta = hingeSide T m' t beta := by
  unfold hingeSide hingeDenS
  apply vsum_congr; intro o _; rw [h0, h1, h2, hr1, hrx, hr2]

theorem hingeBeta_congr (m m' : Mom α) (t : α) (h0 : m.x0 = m'.x0) (h1 : m.x1 = m'.x1)
    (h2 : m.x2 = m'.x2) (hr1 : ∀ o, m.r1 o = m'.r1 o) (hrx : ∀ o, m.rx o = m'.rx o) (o : Nat) :
    hingeBeta m t o = hingeBeta m' t o := by
  unfold hingeBeta hingeDenB; rw [h0, h1, h2, hr1, hrx]

/-- `m_acc_sum − m_acc_neg` is the accumulator of the right side (all six moments) -/
theorem sub_fullMom (items sorted : List (Item α)) (hperm : sorted.Perm items) (t : α) :
    let pos := (fullMom items).sub (fullMom (leftOf t sorted))
    let R := fullMom (rightOf t sorted)
    pos.x0 = R.x0 ∧ pos.x1 = R.x1 ∧ pos.x2 = R.x2 ∧ (∀ o, pos.r1 o = R.r1 o) ∧ (∀ o, pos.rx o = R.rx o) ∧
      (∀ o, pos.r2 o = R.r2 o) ∧ pos.n = R.n := by
  simp only [Mom.sub]
  refine ⟨?_, ?_, ?_, ?_, ?_, ?_, ?_⟩
  · rw [fullMom_x0, fullMom_x0, fullMom_x0]
    have := lsum_items_partition items sorted hperm t (fun _ => 1)
    unfold countOf; rw [this]; ring
  · rw [fullMom_x1, fullMom_x1, fullMom_x1, lsum_items_partition items sorted hperm t]; ring
  · rw [fullMom_x2, fullMom_x2, fullMom_x2, lsum_items_partition items sorted hperm t]; ring
  · intro o; rw [fullMom_r1, fullMom_r1, fullMom_r1, lsum_items_partition items sorted hperm t]; ring
  · intro o; rw [fullMom_rx, fullMom_rx, fullMom_rx, lsum_items_partition items sorted hperm t]; ring
  · intro o; rw [fullMom_r2, fullMom_r2, fullMom_r2, lsum_items_partition items sorted hperm t]; ring
  · rw [fullMom_n, fullMom_n, fullMom_n]
    have h1 : items.length = sorted.length := hperm.length_eq.symm
    have h2 : sorted.length = (leftOf t sorted).length + (rightOf t sorted).length := by
      unfold leftOf rightOf
      have := List.length_eq_length_filter_add (l := sorted) (fun it => decide (it.v < t))
      simpa using this
    omega

/-! ### the RSS of a hinge -/

theorem rssOf_hinge_left (T : Nat) (rows : List (Row α)) (t : α) (beta : Vec α) :
    rssOf T rows (hingePred t true beta) = missSum T rows
      + lsum ((leftOf t (present rows)).map fun it => sqErr T it.r (fun o => beta o * (it.v - t)))
      + lsum ((rightOf t (present rows)).map fun it => sqErr T it.r zeroV) := by
  rw [rssOf_split T rows (hingePred t true beta)
    (fun x => if x < t then (fun o => beta o * (x - t)) else zeroV) rfl (fun x => by simp [hingePred])]
  have : (present rows).map (fun it => sqErr T it.r (if it.v < t then (fun o => beta o * (it.v - t)) else zeroV))
       = (present rows).map (fun it => if (decide (it.v < t)) = true then sqErr T it.r (fun o => beta o * (it.v - t))
            else sqErr T it.r zeroV) := by
    apply List.map_congr_left; intro it _
    by_cases h : it.v < t <;> simp [h]
  rw [this, lsum_filter_split]
  unfold leftOf rightOf
  ring

theorem rssOf_hinge_right (T : Nat) (rows : List (Row α)) (t : α) (beta : Vec α) :
    rssOf T rows (hingePred t false beta) = missSum T rows
      + lsum ((leftOf t (present rows)).map fun it => sqErr T it.r zeroV)
      + lsum ((rightOf t (present rows)).map fun it => sqErr T it.r (fun o => beta o * (it.v - t))) := by
  rw [rssOf_split T rows (hingePred t false beta)
    (fun x => if x < t then zeroV else (fun o => beta o * (x - t))) rfl
    (fun x => by by_cases h : x < t <;> simp [hingePred, h])]
  have : (present rows).map (fun it => sqErr T it.r (if it.v < t then zeroV else (fun o => beta o * (it.v - t))))
       = (present rows).map (fun it => if (decide (it.v < t)) = true then sqErr T it.r zeroV
            else sqErr T it.r (fun o => beta o * (it.v - t))) := by
    apply List.map_congr_left; intro it _
    by_cases h : it.v < t <;> simp [h]
  rw [this, lsum_filter_split]
  unfold leftOf rightOf
  ring

theorem hingeSide_zero (T : Nat) (items : List (Item α)) (t : α) :
    hingeSide T (fullMom items) t zeroV = lsum (items.map fun it => sqErr T it.r zeroV) := by
  rw [hingeSide_eq]
  apply lsum_map_congr; intro it _
  apply sqErr_congr; intro o; simp [zeroV]

/-! ### the candidates of one feature -/

structure HingeCandSpec (T : Nat) (K : α) (f : Nat) (rows : List (Row α)) (c : Cand α) : Prop where
  feature : c.feature = f
  /-- `fit_predict_reproduces_rss` -/
  rss_eq : c.rss = rssOf T rows (hingePred c.thr (c.dir == 0) (tab c.tables 0))
  /-- the stored slope is the least-squares slope for the stored threshold and direction -/
  coeff_opt : ∀ beta : Vec α, c.rss ≤ rssOf T rows (hingePred c.thr (c.dir == 0) beta)
  /-- `tables[1] = −threshold · tables[0]`: `w·x + b = β·(x − t)` -/
  offset : ∀ o, tab c.tables 1 o = -c.thr * tab c.tables 0 o
  score : c.score = cmax c.rss K

theorem hingeCands_spec [Log α] (sort : List (Item α) → List (Item α)) (hsort : SortSpec sort)
    (T : Nat) (K : α) (f : Nat) (rows : List (Row α)) (c : Cand α)
    (hc : c ∈ hingeFeatureCands sort T K Crit.rss f rows) : HingeCandSpec T K f rows c := by
  unfold hingeFeatureCands at hc
  obtain ⟨sc, hsc, hc⟩ := List.mem_flatMap.mp hc
  set items := present rows with hitems
  have hperm := hsort.perm items
  have hsorted := hsort.sorted items
  have hspec := sweep_sound Item.upd Mom.zero [] (sort items) (by simpa using hsorted) sc (by simpa using hsc)
  simp only [List.nil_append] at hspec
  obtain ⟨hacc, _, hlne, hrne, _, hnethr⟩ := hspec
  have hneg : sc.2 = fullMom (leftOf sc.1 (sort items)) := hacc
  have hsum : items.foldl Item.upd Mom.zero = fullMom items := rfl
  obtain ⟨p0, p1, p2, pr1, prx, pr2, pn⟩ := sub_fullMom items (sort items) hperm sc.1
  set L := leftOf sc.1 (sort items) with hL
  set R := rightOf sc.1 (sort items) with hR
  have hLpos : 0 < devSq sc.1 L :=
    devSq_pos sc.1 L hlne (fun it hit => hnethr it (List.mem_of_mem_filter hit))
  have hRpos : 0 < devSq sc.1 R :=
    devSq_pos sc.1 R hrne (fun it hit => hnethr it (List.mem_of_mem_filter hit))
  -- the sides over the unsorted present values
  have hLperm : ∀ F : Item α → α, lsum (L.map F) = lsum ((leftOf sc.1 items).map F) :=
    fun F => lsum_leftOf_perm items (sort items) hperm sc.1 F
  have hRperm : ∀ F : Item α → α, lsum (R.map F) = lsum ((rightOf sc.1 items).map F) :=
    fun F => lsum_rightOf_perm items (sort items) hperm sc.1 F
  simp only [hingeCands, List.mem_cons, List.mem_nil_iff, or_false] at hc
  rw [hsum, hneg] at hc
  rcases hc with rfl | rfl
  · -- the left hinge
    have hrss : ∀ beta : Vec α, hingeSide T (fullMom L) sc.1 beta + hingeSide T ((fullMom items).sub (fullMom L)) sc.1 zeroV
        + missRss T rows = rssOf T rows (hingePred sc.1 true beta) := by
      intro beta
      rw [hingeSide_congr T _ (fullMom R) sc.1 zeroV p0 p1 p2 pr1 prx pr2, hingeSide_eq, hingeSide_zero, missRss_eq,
        rssOf_hinge_left, hLperm, hRperm]
      ring
    refine ⟨rfl, ?_, ?_, ?_, ?_⟩
    · simp only [tab, List.getD_cons_zero, beq_self_eq_true]
      exact hrss _
    · intro beta
      simp only [beq_self_eq_true]
      rw [← hrss beta]
      have := hingeSide_optimal T L sc.1 hLpos beta
      linarith
    · intro o; simp [tab]
    · simp only [makeScore]
  · -- the right hinge
    have hrss : ∀ beta : Vec α, hingeSide T (fullMom L) sc.1 zeroV + hingeSide T ((fullMom items).sub (fullMom L)) sc.1 beta
        + missRss T rows = rssOf T rows (hingePred sc.1 false beta) := by
      intro beta
      rw [hingeSide_congr T _ (fullMom R) sc.1 beta p0 p1 p2 pr1 prx pr2, hingeSide_zero, hingeSide_eq, missRss_eq,
        rssOf_hinge_right, hLperm, hRperm]
      ring
    have hbeta : ∀ o, hingeBeta ((fullMom items).sub (fullMom L)) sc.1 o = hingeBeta (fullMom R) sc.1 o :=
      fun o => hingeBeta_congr _ _ sc.1 p0 p1 p2 pr1 prx o
    have hd : ((1 : Nat) == 0) = false := rfl
    refine ⟨rfl, ?_, ?_, ?_, ?_⟩
    · simp only [tab, List.getD_cons_zero, hd]
      exact hrss _
    · intro beta
      simp only [hd]
      rw [← hrss beta]
      have h1 := hingeSide_optimal T R sc.1 hRpos beta
      have h2 : hingeSide T ((fullMom items).sub (fullMom L)) sc.1 (hingeBeta ((fullMom items).sub (fullMom L)) sc.1)
          = hingeSide T (fullMom R) sc.1 (hingeBeta (fullMom R) sc.1) := by
        rw [hingeSide_congr T _ (fullMom R) sc.1 _ p0 p1 p2 pr1 prx pr2]
        unfold hingeSide
        apply vsum_congr; intro o _; rw [hbeta o]
      have h3 := hingeSide_congr T ((fullMom items).sub (fullMom L)) (fullMom R) sc.1 beta p0 p1 p2 pr1 prx pr2
      linarith
    · intro o; simp [tab]
    · simp only [makeScore]

/-- completeness: for every pair of consecutive distinct present values both hinges at their mid-point are candidates -/
theorem hingeCands_complete [Log α] (sort : List (Item α) → List (Item α)) (hsort : SortSpec sort)
    (T : Nat) (K : α) (crit : Crit) (f : Nat) (rows : List (Row α)) (a b : Item α)
    (ha : a ∈ present rows) (hb : b ∈ present rows) (hab : a.v < b.v)
    (hcons : ∀ z ∈ present rows, ¬ (a.v < z.v ∧ z.v < b.v)) (dir : Nat) (hdir : dir = 0 ∨ dir = 1) :
    ∃ c ∈ hingeFeatureCands sort T K crit f rows, c.thr = half * (a.v + b.v) ∧ c.dir = dir := by
  have hperm := hsort.perm (present rows)
  have hat := lt_mid hab
  have hbt := mid_lt hab
  obtain ⟨sc, hsc, _, x, y, hx, hy, hcm, hxt, hyt, hxmax, hymin⟩ :=
    sweep_complete Item.upd (half * (a.v + b.v)) (sort (present rows)) Mom.zero (hsort.sorted _)
      ⟨a, hperm.symm.subset ha, hat⟩ ⟨b, hperm.symm.subset hb, not_lt.mpr (le_of_lt hbt)⟩
  -- x is the largest value left of the mid-point: it is a; y is the smallest value right of it: it is b
  have hxa : x.v = a.v := by
    apply le_antisymm
    · by_contra hgt
      exact hcons x (hperm.subset hx) ⟨not_le.mp hgt, lt_trans hxt hbt⟩
    · exact hxmax a (hperm.symm.subset ha) hat
  have hyb : y.v = b.v := by
    apply le_antisymm
    · exact hymin b (hperm.symm.subset hb) (not_lt.mpr (le_of_lt hbt))
    · by_contra hlt
      have hylt : y.v < b.v := not_le.mp hlt
      have : a.v < y.v := lt_of_lt_of_le hat (not_lt.mp hyt)
      exact hcons y (hperm.subset hy) ⟨this, hylt⟩
  have hthr : sc.1 = half * (a.v + b.v) := by rw [hcm, hxa, hyb]
  rcases hdir with rfl | rfl
  · refine ⟨_, List.mem_flatMap.mpr ⟨sc, hsc, by simp only [hingeCands]; exact List.mem_cons_self⟩, hthr, rfl⟩
  · refine ⟨_, List.mem_flatMap.mpr ⟨sc, hsc, by simp only [hingeCands]; exact List.mem_cons_of_mem _ List.mem_cons_self⟩,
      hthr, rfl⟩

end NanoVerif.WLearner
