import NanoVerif.Proofs.StatsExp
import Mathlib.Analysis.SpecialFunctions.Log.Basic
/-!
  C20 — `make_from_exponents` over `ℝ` with `std::log = Real.log`, `std::pow(b, e) = b ^ (e : ℤ)`, `std::fabs = |·|`:
  the exponent `get_exponent` computes for a value brackets the value, `base^e ≤ |v| < base^(e+1)`, hence every value
  (clamped by `epsilon` as coded) sits in the bin that starts at ITS OWN threshold.
-/
namespace NanoVerif.Stats
set_option linter.unusedSectionVars false

noncomputable instance libmReal : Libm ℝ := ⟨Real.log, fun b e => b ^ e, fun x => |x|⟩

theorem powSpec_real : PowSpec (α := ℝ) := fun _ _ => rfl

/-- **get_exponent brackets the value**: `e = ⌊log|v| / log base⌋` gives `base^e ≤ |v| < base^(e+1)` -/
theorem getExponent_bracket (base v : ℝ) (hb : 1 < base) (hv : v ≠ 0) :
    base ^ (getExponent base v) ≤ |v| ∧ |v| < base ^ (getExponent base v + 1) := by
  have hb0 : 0 < base := lt_trans zero_lt_one hb
  have hL : 0 < Real.log base := Real.log_pos hb
  have hav : 0 < |v| := abs_pos.mpr hv
  have he : getExponent base v = ⌊Real.log |v| / Real.log base⌋ := rfl
  have h1 : ((⌊Real.log |v| / Real.log base⌋ : ℤ) : ℝ) ≤ Real.log |v| / Real.log base := Int.floor_le _
  have h2 : Real.log |v| / Real.log base < (⌊Real.log |v| / Real.log base⌋ : ℤ) + 1 := Int.lt_floor_add_one _
  rw [he]
  set e := ⌊Real.log |v| / Real.log base⌋ with hedef
  rw [le_div_iff₀ hL] at h1
  rw [div_lt_iff₀ hL] at h2
  constructor
  · rw [← Real.log_le_log_iff (zpow_pos hb0 e) hav, Real.log_zpow]
    exact h1
  · rw [← Real.log_lt_log_iff hav (zpow_pos hb0 (e + 1)), Real.log_zpow]
    push_cast
    exact h2

/-- **every value is bracketed by its own threshold.** For a value `v ≥ 0` of the data, with `c = max(v, ε)` the
    clamped value and `e` its exponent: `base^e` is one of the thresholds and `base^e ≤ c < base^(e+1)`; for `v < 0`,
    with `c = min(v, -ε)`: `-base^e` is one of the thresholds and `-base^(e+1) < c ≤ -base^e`. -/
theorem exponents_value_bracketed (vs : List ℝ) (base eps : ℝ) (hb : 1 < base) (he : 0 < eps) (T : List ℝ)
    (hT : thresholdsFromExponents vs base eps = some T) (v : ℝ) (hv : v ∈ vs) :
    (0 ≤ v → ∃ e : ℤ, base ^ e ∈ T ∧ base ^ e ≤ max v eps ∧ max v eps < base ^ (e + 1)) ∧
    (v < 0 → ∃ e : ℤ, -base ^ e ∈ T ∧ -base ^ (e + 1) < min v (-eps) ∧ min v (-eps) ≤ -base ^ e) := by
  have hne : vs ≠ [] := List.ne_nil_of_mem hv
  obtain ⟨T', hT', hmem⟩ := (thresholdsFromExponents_spec vs base eps).2 hne hb he
  rw [hT] at hT'
  cases hT'
  obtain ⟨m1, m2⟩ := hmem v hv
  constructor
  · intro h0
    have hside : exponentOf base eps v = (false, getExponent base (cmax v eps)) := by
      unfold exponentOf
      rw [if_neg (not_lt.mpr h0)]
    have hc : cmax v eps = max v eps := by
      unfold cmax
      split
      · rename_i h; exact (max_eq_right (le_of_lt h)).symm
      · rename_i h; exact (max_eq_left (not_lt.mp h)).symm
    have hpos : 0 < max v eps := lt_of_lt_of_le he (le_max_right _ _)
    rw [hside] at m2
    have hm := m2 rfl
    simp only at hm
    rw [hc] at hm
    obtain ⟨b1, b2⟩ := getExponent_bracket base (max v eps) hb (ne_of_gt hpos)
    rw [abs_of_pos hpos] at b1 b2
    exact ⟨_, hm, b1, b2⟩
  · intro h0
    have hside : exponentOf base eps v = (true, getExponent base (cmin v (-eps))) := by
      unfold exponentOf
      rw [if_pos h0]
    have hc : cmin v (-eps) = min v (-eps) := by
      unfold cmin
      split
      · rename_i h; exact (min_eq_right (le_of_lt h)).symm
      · rename_i h; exact (min_eq_left (not_lt.mp h)).symm
    have hneg : min v (-eps) < 0 := lt_of_le_of_lt (min_le_left _ _) h0
    rw [hside] at m1
    have hm := m1 rfl
    simp only at hm
    rw [hc] at hm
    obtain ⟨b1, b2⟩ := getExponent_bracket base (min v (-eps)) hb (ne_of_lt hneg)
    rw [abs_of_neg hneg] at b1 b2
    exact ⟨_, hm, by linarith, by linarith⟩

end NanoVerif.Stats
