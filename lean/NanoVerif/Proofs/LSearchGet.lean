import NanoVerif.Proofs.LSearchMT
import NanoVerif.Proofs.LSearchCG
/-!
  C07 — helper lemmas, part 2: CG_DESCENT (request counts; the returned state is the oracle's answer at the returned step)
  and the composition of the five `do_get` with the preamble of `lsearchk_t::get`.
  (Moré–Thuente's loop: `Proofs/LSearchMT.lean`; the success cases of CG_DESCENT: `Proofs/LSearchCG.lean`.)
-/
namespace NanoVerif.LSearch
open NanoVerif.Gen.LsPredicates

set_option linter.unusedSectionVars false

variable {α : Type} [Field α] [LinearOrder α] [IsStrictOrderedRing α]

theorem post_weaken {φ : Oracle α} {Q Q' : Res α → Prop} {ctx : Ctx α} {t : α} {n : Nat} {r : Res α}
    (h : Post φ Q ctx t n r) (hq : ∀ r, Q r → Q' r) : Post φ Q' ctx t n r :=
  ⟨h.1, fun hok => ⟨hq r (h.2 hok).1, (h.2 hok).2⟩⟩

theorem sameOrCons_trans {φ : Oracle α} {a b c : Ctx α} {ta tb tc : α}
    (h1 : SameOrCons φ a ta b tb) (h2 : SameOrCons φ b tb c tc) : SameOrCons φ a ta c tc := by
  rcases h2 with ⟨e1, e2⟩ | h2
  · rw [e1, e2]; exact h1
  · exact Or.inr h2

theorem sameOrCons_refl {φ : Oracle α} {a : Ctx α} {t : α} : SameOrCons φ a t a t := Or.inl ⟨rfl, rfl⟩

/-! ### CG_DESCENT -/

/-- outcome `s` of a helper entered with budget `m`, interval `iv`, state `ctx`: the budget does not grow, at most
    `(m - s.m) + extra` requests were made, and the state belongs to the interval's step -/
def CgPost (φ : Oracle α) (m : Nat) (iv : CG α) (ctx : Ctx α) (extra : Nat) (s : CGS α) : Prop :=
  s.m ≤ m ∧ s.ctx.trace.length + s.m ≤ ctx.trace.length + m + extra ∧ SameOrCons φ ctx iv.t s.ctx s.iv.t

theorem cgPost_refl {φ : Oracle α} {m : Nat} {iv iv' : CG α} {ctx : Ctx α} {extra : Nat} (h : iv'.t = iv.t) :
    CgPost φ m iv ctx extra ⟨m, iv', ctx⟩ :=
  ⟨le_refl _, by simp, Or.inl ⟨rfl, h⟩⟩

/-- after one `move` (a request at `t'`, budget `m'` left with `m' + k ≤ m`) followed by a helper -/
theorem cgPost_after_move {φ : Oracle α} {m m' : Nat} {iv iv' : CG α} {ctx : Ctx α} {t' : α} {e e' : Nat} {s : CGS α}
    (h : CgPost φ m' iv' (ask φ ctx t') e s) (ht : iv'.t = t') (hm : m' ≤ m) (he : (m - m') + e' ≥ e + 1 ∨ e + 1 ≤ e' + (m - m')) :
    CgPost φ m iv ctx e' s := by
  obtain ⟨h1, h2, h3⟩ := h
  refine ⟨by omega, by simp only [ask_trace_length] at h2; omega, Or.inr ?_⟩
  rcases h3 with ⟨c1, c2⟩ | c
  · rw [c1, c2, ht]; exact cons_ask φ ctx t'
  · exact c

theorem cgUpdateU_spec (cfg : Cfg α) (φ : Oracle α) (s0 : Eval α) (epsk : α) : ∀ (m : Nat) (iv : CG α) (ctx : Ctx α),
    CgPost φ m iv ctx 1 (cgUpdateU cfg φ s0 epsk m iv ctx) := by
  intro m
  induction m with
  | zero => intro iv ctx; exact cgPost_refl rfl
  | succ m ih =>
    intro iv ctx
    simp only [cgUpdateU, cgMove]
    refine ite_post (fun _ => ite_post (fun _ => ?_) (fun _ => ite_post (fun _ => ?_)
      (fun _ => ite_post (fun _ => ?_) (fun _ => ?_)))) (fun _ => cgPost_refl rfl)
    · exact ⟨le_refl _, by simp only [ask_trace_length]; omega, Or.inr (cons_ask φ ctx _)⟩
    · exact ⟨le_refl _, by simp only [ask_trace_length]; omega, Or.inr (cons_ask φ ctx _)⟩
    · exact cgPost_after_move (ih _ _) rfl (by omega) (by omega)
    · exact cgPost_after_move (ih _ _) rfl (by omega) (by omega)

theorem cgUpdate_spec (cfg : Cfg α) (φ : Oracle α) (s0 : Eval α) (epsk : α) (m : Nat) (iv : CG α) (ctx : Ctx α) :
    CgPost φ m iv ctx 1 (cgUpdate cfg φ s0 epsk m iv ctx) := by
  simp only [cgUpdate]
  refine ite_post (fun _ => cgPost_refl rfl) (fun _ => ite_post (fun _ => cgPost_refl rfl)
    (fun _ => ite_post (fun _ => cgPost_refl rfl) (fun _ => ?_)))
  have := cgUpdateU_spec cfg φ s0 epsk m { iv with b := stepOf ctx iv.t } ctx
  exact this

theorem cgBracket_spec (cfg : Cfg α) (φ : Oracle α) (s0 : Eval α) (epsk : α) :
    ∀ (m : Nat) (lastA : Step α) (iv : CG α) (ctx : Ctx α),
    CgPost φ m iv ctx 1 (cgBracket cfg φ s0 epsk m lastA iv ctx) := by
  intro m
  induction m with
  | zero => intro lastA iv ctx; exact cgPost_refl rfl
  | succ m ih =>
    intro lastA iv ctx
    simp only [cgBracket, cgMove]
    refine ite_post (fun _ => ite_post (fun _ => cgPost_refl rfl) (fun _ => ite_post (fun _ => ?_) (fun _ => ?_)))
      (fun _ => cgPost_refl rfl)
    · have := cgUpdateU_spec cfg φ s0 epsk (m + 1) { iv with a := ⟨0, s0.f, s0.g⟩, b := stepOf ctx iv.t } ctx
      exact this
    · exact cgPost_after_move (ih _ _ _) rfl (by omega) (by omega)

theorem cgTry_spec (cfg : Cfg α) (φ : Oracle α) (s0 : Eval α) (epsk : α) (m : Nat) (iv : CG α) (ctx : Ctx α) (t : α) :
    CgPost φ m iv ctx 2 (cgTry cfg φ s0 epsk m iv ctx t).2 := by
  simp only [cgTry, cgMove]
  refine ite_post (P := fun r : Bool × CGS α => CgPost φ m iv ctx 2 r.2) (fun _ => cgPost_refl rfl)
    (fun _ => ite_post (P := fun r : Bool × CGS α => CgPost φ m iv ctx 2 r.2) (fun _ => ?_) (fun _ => ?_))
  · exact ⟨le_refl _, by simp only [ask_trace_length]; omega, Or.inr (cons_ask φ ctx _)⟩
  · exact cgPost_after_move (m' := m) (cgUpdate_spec cfg φ s0 epsk m _ _) rfl (le_refl _) (by omega)

theorem cgPost_trans {φ : Oracle α} {m : Nat} {iv : CG α} {ctx : Ctx α} {e e' : Nat} {s s' : CGS α}
    (h1 : CgPost φ m iv ctx e s) (h2 : CgPost φ s.m s.iv s.ctx e' s') : CgPost φ m iv ctx (e + e') s' := by
  obtain ⟨a1, a2, a3⟩ := h1
  obtain ⟨b1, b2, b3⟩ := h2
  exact ⟨by omega, by omega, sameOrCons_trans a3 b3⟩

theorem cgSecond_spec (cfg : Cfg α) (φ : Oracle α) (s0 : Eval α) (epsk : α) (a0 b0 : Step α) (tc : α) (s : CGS α) :
    CgPost φ s.m s.iv s.ctx 2 (cgSecond cfg φ s0 epsk a0 b0 tc s).2 := by
  simp only [cgSecond]
  exact ite_post (P := fun r : Bool × CGS α => CgPost φ s.m s.iv s.ctx 2 r.2) (fun _ => cgTry_spec ..)
    (fun _ => ite_post (P := fun r : Bool × CGS α => CgPost φ s.m s.iv s.ctx 2 r.2) (fun _ => cgTry_spec ..)
      (fun _ => cgPost_refl rfl))

/-- a `CgPost` outcome turned into the result `{state.valid(), interval.step_size}` -/
theorem post_of_cgPost {φ : Oracle α} {m : Nat} {iv : CG α} {ctx : Ctx α} {e n : Nat} {s : CGS α}
    (h : CgPost φ m iv ctx e s) (hn : m + e ≤ n) : Post φ (fun _ => True) ctx iv.t n (cgResult s) := by
  obtain ⟨a1, a2, a3⟩ := h
  exact ⟨by simp only [cgResult]; omega, fun _ => ⟨trivial, a3⟩⟩

/-- a loop outcome after a helper -/
theorem post_after_cgPost {φ : Oracle α} {m : Nat} {iv : CG α} {ctx : Ctx α} {e n k : Nat} {s : CGS α} {r : Res α}
    (h : CgPost φ m iv ctx e s) (hr : Post φ (fun _ => True) s.ctx s.iv.t k r) (hn : (m - s.m) + e + k ≤ n) :
    Post φ (fun _ => True) ctx iv.t n r := by
  obtain ⟨a1, a2, a3⟩ := h
  obtain ⟨b1, b2⟩ := hr
  exact ⟨by omega, fun hok => ⟨trivial, sameOrCons_trans a3 (b2 hok).2⟩⟩

theorem cgLoop_spec (cfg : Cfg α) (φ : Oracle α) (s0 : Eval α) (epsk : α) :
    ∀ (fuel i m : Nat) (iv : CG α) (ctx : Ctx α),
    Post φ (fun _ => True) ctx iv.t (6 * fuel + m) (cgLoop cfg φ s0 epsk fuel i m iv ctx) := by
  intro fuel
  induction fuel with
  | zero => intro i m iv ctx; exact post_fail (by simp)
  | succ fuel ih =>
    intro i m iv ctx
    simp only [cgLoop]
    refine ite_post (fun _ => ?_) (fun _ => post_fail (by simp))
    have h1 := cgTry_spec cfg φ s0 epsk m iv ctx (secant iv.a iv.b)
    generalize cgTry cfg φ s0 epsk m iv ctx (secant iv.a iv.b) = r1 at h1 ⊢
    refine ite_post (fun _ => post_of_cgPost h1 (by omega)) (fun _ => ?_)
    have h2 := cgPost_trans h1 (cgSecond_spec cfg φ s0 epsk iv.a iv.b (secant iv.a iv.b) r1.2)
    generalize cgSecond cfg φ s0 epsk iv.a iv.b (secant iv.a iv.b) r1.2 = r2 at h2 ⊢
    refine ite_post (fun _ => post_of_cgPost h2 (by omega)) (fun _ => ite_post (fun _ => ?_) (fun _ => ?_))
    · have h3 := cgPost_trans h2 (cgTry_spec cfg φ s0 epsk r2.2.m r2.2.iv r2.2.ctx ((r2.2.iv.a.t + r2.2.iv.b.t) / 2))
      generalize cgTry cfg φ s0 epsk r2.2.m r2.2.iv r2.2.ctx ((r2.2.iv.a.t + r2.2.iv.b.t) / 2) = r3 at h3 ⊢
      refine ite_post (fun _ => post_of_cgPost h3 (by omega)) (fun _ => ?_)
      have := h3.1
      exact post_after_cgPost h3 (ih (i + 1) r3.2.m r3.2.iv r3.2.ctx) (by omega)
    · have := h2.1
      exact post_after_cgPost h2 (ih (i + 1) r2.2.m r2.2.iv r2.2.ctx) (by omega)

theorem cgdescent_spec (cfg : Cfg α) (φ : Oracle α) (s0 : Eval α) (t : α) (ctx : Ctx α) :
    Post φ (fun _ => True) ctx t (7 * cfg.maxIter + 1) (cgdescent cfg φ s0 t ctx) := by
  simp only [cgdescent]
  refine ite_post (fun _ => ⟨by simp, fun _ => ⟨trivial, sameOrCons_refl⟩⟩) (fun _ => ?_)
  have hb := cgBracket_spec cfg φ s0 (cfg.cgEpsilon * absv s0.f) cfg.maxIter ⟨0, s0.f, s0.g⟩
    ⟨⟨0, s0.f, s0.g⟩, stepOf ctx t, t⟩ ctx
  generalize cgBracket cfg φ s0 (cfg.cgEpsilon * absv s0.f) cfg.maxIter ⟨0, s0.f, s0.g⟩
    ⟨⟨0, s0.f, s0.g⟩, stepOf ctx t, t⟩ ctx = s at hb ⊢
  have hm := hb.1
  refine ite_post (fun _ => post_of_cgPost hb (by omega)) (fun _ => ?_)
  exact post_after_cgPost hb (cgLoop_spec cfg φ s0 _ s.m 0 s.m s.iv s.ctx) (by omega)

/-! ### `do_get` of the five methods and `lsearchk_t::get` -/

/-- bound on the requests made inside `do_get` as a function of `max_iterations` -/
def doGetBound : Method → Nat → Nat
  | .backtrack, M => M
  | .lemarechal, M => M - 1
  | .fletcher, M => (M - 1) + M
  | .morethuente, M => M
  | .cgdescent, M => 7 * M + 1

/-- what a success of `do_get` guarantees, stated with the generated predicates -/
def Advertised (m : Method) (cfg : Cfg α) (s0 : Eval α) (r : Res α) : Prop :=
  match m with
  | .backtrack => hasArmijo s0.f s0.g r.ctx.cur.f r.t cfg.c1 = true ∧ r.ctx.cur.ok = true
  | .lemarechal => hasArmijo s0.f s0.g r.ctx.cur.f r.t cfg.c1 = true ∧ hasWolfe s0.g r.ctx.cur.g cfg.c2 = true
  | .fletcher => hasArmijo s0.f s0.g r.ctx.cur.f r.t cfg.c1 = true ∧ hasStrongWolfe s0.g r.ctx.cur.g cfg.c2 = true
  | .morethuente => MtConv cfg s0 r
  | .cgdescent => True

/-- `do_get` entered along a descent direction -/
theorem doGet_spec (m : Method) (cfg : Cfg α) (φ : Oracle α) (s0 : Eval α) (t : α) (ctx : Ctx α) (hg : s0.g < 0) :
    Post φ (Advertised m cfg s0) ctx t (doGetBound m cfg.maxIter) (doGet m cfg φ s0 t ctx) := by
  cases m with
  | backtrack => exact backtrack_spec cfg φ s0 _ t ctx
  | lemarechal => exact lemarechal_spec cfg φ s0 _ _ _ t ctx
  | fletcher => exact fletcher_spec cfg φ s0 _ _ _ t ctx
  | morethuente => exact morethuente_spec cfg φ s0 hg _ (morethuenteInit cfg s0 t) ctx
  | cgdescent => exact cgdescent_spec cfg φ s0 t ctx

/-- `get` along a non-descent direction -/
theorem get_nondescent (m : Method) (cfg : Cfg α) (φ : Oracle α) (s0 : Eval α) (t0 : α) (h : ¬ s0.g < 0) :
    get m cfg φ s0 t0 = ⟨false, t0, ⟨s0, []⟩⟩ := by
  simp [get, hasDescent, h]

/-- `get` as a whole: request count, the advertised predicates, and — thanks to the validity guard between the two
    loops of the preamble — the returned state is the oracle's answer at the returned step -/
theorem get_spec (m : Method) (cfg : Cfg α) (φ : Oracle α) (s0 : Eval α) (t0 : α) (hM : 0 < cfg.maxIter) :
    (get m cfg φ s0 t0).ctx.trace.length ≤ 2 * cfg.maxIter + doGetBound m cfg.maxIter ∧
    ((get m cfg φ s0 t0).ok = true →
      Advertised m cfg s0 (get m cfg φ s0 t0) ∧ Cons φ (get m cfg φ s0 t0).ctx (get m cfg φ s0 t0).t) := by
  by_cases hd : hasDescent s0.g = true
  · obtain ⟨h1, _, h3⟩ := shrink_spec φ cfg.maxIter (initialStep cfg t0) ⟨s0, []⟩
    simp only [get, hd, if_true]
    generalize shrink φ cfg.maxIter (initialStep cfg t0) ⟨s0, []⟩ = p at h1 h3 ⊢
    by_cases hok : p.2.cur.ok = true
    · simp only [hok, if_true]
      have hc : Cons φ p.2 p.1 := by
        rcases h3 with ⟨_, h0⟩ | h3 | h3
        · omega
        · rw [hok] at h3; cases h3
        · exact h3
      have hg := grow_spec φ cfg.eps1 s0.f cfg.maxIter p.1 p.2
      generalize grow φ cfg.eps1 s0.f cfg.maxIter p.1 p.2 = g at hg ⊢
      cases g with
      | inl q =>
        simp only [GrowPost] at hg
        exact ⟨by simp at h1 ⊢; omega, fun h => by simp at h⟩
      | inr q =>
        obtain ⟨g1, _, g3⟩ := hg
        have hq : Cons φ q.2 q.1 := by
          rcases g3 with ⟨e1, e2⟩ | g3
          · rw [e1, e2]; exact hc
          · exact g3
        obtain ⟨d1, d2⟩ := doGet_spec m cfg φ s0 q.1 q.2 (by simpa [hasDescent] using hd)
        refine ⟨by simp at h1 ⊢; omega, fun h => ?_⟩
        obtain ⟨a, c⟩ := d2 h
        refine ⟨a, ?_⟩
        rcases c with ⟨e1, e2⟩ | c
        · rw [e1, e2]; exact hq
        · exact c
    · simp only [hok]
      exact ⟨by simp at h1 ⊢; omega, fun h => by simp at h⟩
  · simp only [get, hd]
    exact ⟨by simp, fun h => by simp at h⟩

/-- a successful `get` is a `do_get` entered along a descent direction with a positive step (when `macheps > 0`) and the
    state being the oracle's answer at that step -/
theorem get_eq_doGet (m : Method) (cfg : Cfg α) (φ : Oracle α) (s0 : Eval α) (t0 : α) (hM : 0 < cfg.maxIter)
    (h : (get m cfg φ s0 t0).ok = true) :
    ∃ t ctx, (0 < cfg.macheps → 0 < t) ∧ Cons φ ctx t ∧ s0.g < 0 ∧ get m cfg φ s0 t0 = doGet m cfg φ s0 t ctx := by
  by_cases hd : hasDescent s0.g = true
  · obtain ⟨_, h2, h3⟩ := shrink_spec φ cfg.maxIter (initialStep cfg t0) ⟨s0, []⟩
    revert h
    simp only [get, hd, if_true]
    generalize shrink φ cfg.maxIter (initialStep cfg t0) ⟨s0, []⟩ = p at h2 h3 ⊢
    by_cases hok : p.2.cur.ok = true
    · simp only [hok, if_true]
      have hc : Cons φ p.2 p.1 := by
        rcases h3 with ⟨h3, h0⟩ | h3 | h3
        · omega
        · rw [hok] at h3; cases h3
        · exact h3
      have hg := grow_spec φ cfg.eps1 s0.f cfg.maxIter p.1 p.2
      generalize grow φ cfg.eps1 s0.f cfg.maxIter p.1 p.2 = g at hg ⊢
      cases g with
      | inl q => intro h; simp at h
      | inr q =>
        obtain ⟨_, g2, g3⟩ := hg
        intro _
        refine ⟨q.1, q.2, fun he => g2 (h2 (initialStep_pos cfg t0 he)), ?_, by simpa [hasDescent] using hd, rfl⟩
        rcases g3 with ⟨e1, e2⟩ | g3
        · rw [e1, e2]; exact hc
        · exact g3
    · simp only [hok]
      intro h; simp at h
  · revert h
    simp only [get, hd]
    intro h; simp at h

/-- a property of the returned step carried through the preamble (which hands a positive step to `do_get`) -/
theorem get_step_prop (P : α → Prop) (m : Method) (cfg : Cfg α) (φ : Oracle α) (s0 : Eval α) (t0 : α)
    (he : 0 < cfg.macheps)
    (hdo : ∀ t ctx, 0 < t → (doGet m cfg φ s0 t ctx).ok = true → P (doGet m cfg φ s0 t ctx).t) :
    (get m cfg φ s0 t0).ok = true → P (get m cfg φ s0 t0).t := by
  by_cases hd : hasDescent s0.g = true
  · obtain ⟨_, h2, _⟩ := shrink_spec φ cfg.maxIter (initialStep cfg t0) ⟨s0, []⟩
    have hp := h2 (initialStep_pos cfg t0 he)
    simp only [get, hd, if_true]
    generalize shrink φ cfg.maxIter (initialStep cfg t0) ⟨s0, []⟩ = p at hp ⊢
    by_cases hok : p.2.cur.ok = true
    · simp only [hok, if_true]
      have hg := grow_spec φ cfg.eps1 s0.f cfg.maxIter p.1 p.2
      generalize grow φ cfg.eps1 s0.f cfg.maxIter p.1 p.2 = g at hg ⊢
      cases g with
      | inl q => intro h; simp at h
      | inr q =>
        obtain ⟨_, g2, _⟩ := hg
        exact hdo q.1 q.2 (g2 hp)
    · simp only [hok]
      intro h; simp at h
  · simp only [get, hd]
    intro h; simp at h

/-- positivity of the returned step through the preamble -/
theorem get_pos (m : Method) (cfg : Cfg α) (φ : Oracle α) (s0 : Eval α) (t0 : α) (he : 0 < cfg.macheps)
    (hdo : ∀ t ctx, 0 < t → (doGet m cfg φ s0 t ctx).ok = true → 0 < (doGet m cfg φ s0 t ctx).t) :
    (get m cfg φ s0 t0).ok = true → 0 < (get m cfg φ s0 t0).t :=
  get_step_prop (fun x => 0 < x) m cfg φ s0 t0 he hdo

/-! ### Moré–Thuente: the trial step never becomes negative (it can become 0 through the `stp = stx` fallback, and such a
  step is accepted only if the oracle's answer at 0 passes the convergence test) -/

theorem dcstep_stx_nonneg (cfg : Cfg α) (s : DC α) (fp dp lo hi : α) (h1 : 0 ≤ s.stx) (h2 : 0 ≤ s.stp) :
    0 ≤ (dcstep cfg s fp dp lo hi).stx := by
  unfold dcstep
  exact ite_post (P := fun d : DC α => 0 ≤ d.stx) (fun _ => h1)
    (fun _ => ite_post (P := fun d : DC α => 0 ≤ d.stx) (fun _ => h2) (fun _ => h2))

theorem mtDcstep_stx_nonneg (cfg : Cfg α) (s0 : Eval α) (m : MT α) (f g : α) (b : Bool) (h1 : 0 ≤ m.dc.stx)
    (h2 : 0 ≤ m.dc.stp) : 0 ≤ (mtDcstep cfg s0 m f g b).stx := by
  unfold mtDcstep
  exact ite_post (P := fun d : DC α => 0 ≤ d.stx) (fun _ => dcstep_stx_nonneg cfg _ _ _ _ _ h1 h2)
    (fun _ => dcstep_stx_nonneg cfg _ _ _ _ _ h1 h2)

theorem mtBounds_nonneg (cfg : Cfg α) (m : MT α) (b : Bool) (dc : DC α) (he : 0 < cfg.macheps) (h1 : 0 ≤ dc.stx) :
    0 ≤ (mtBounds cfg m b dc).dc.stx ∧ 0 ≤ (mtBounds cfg m b dc).dc.stp := by
  unfold mtBounds
  refine ⟨h1, ?_⟩
  have hmin : 0 < stpmin cfg.macheps := stpmin_pos _ he
  have hmax : 0 < stpmax cfg.macheps := by unfold stpmax; exact div_pos one_pos hmin
  exact ite_post (P := fun x : α => 0 ≤ x) (fun _ => h1) (fun _ => le_of_lt (clamp_pos _ _ _ hmin hmax))

theorem morethuente_nonneg (cfg : Cfg α) (φ : Oracle α) (s0 : Eval α) (he : 0 < cfg.macheps) :
    ∀ (n : Nat) (m : MT α) (ctx : Ctx α), 0 ≤ m.dc.stx → 0 ≤ m.dc.stp → 0 ≤ (morethuente cfg φ s0 n m ctx).t := by
  intro n
  induction n with
  | zero => intro m ctx _ h; simpa [morethuente] using h
  | succ n ih =>
    intro m ctx h1 h2
    have hn := mtBounds_nonneg cfg m
      (if m.stage1 = true ∧ ctx.cur.f ≤ s0.f + m.dc.stp * (cfg.c1 * s0.g) ∧ ctx.cur.g ≥ 0 then false else m.stage1)
      (mtDcstep cfg s0 m ctx.cur.f ctx.cur.g
        (if m.stage1 = true ∧ ctx.cur.f ≤ s0.f + m.dc.stp * (cfg.c1 * s0.g) ∧ ctx.cur.g ≥ 0 then false else m.stage1))
      he (mtDcstep_stx_nonneg cfg s0 m _ _ _ h1 h2)
    simp only [morethuente]
    exact ite_post (P := fun r : Res α => 0 ≤ r.t) (fun _ => h2)
      (fun _ => ite_post (P := fun r : Res α => 0 ≤ r.t) (fun _ => h2)
        (fun _ => ite_post (P := fun r : Res α => 0 ≤ r.t) (fun _ => ih _ _ hn.1 hn.2) (fun _ => hn.2)))

end NanoVerif.LSearch
