import NanoVerif.Model.Dataset
/-!
  C08 — storage layer: bit mask, row ranges of the typed pools, the view handed out by `visit`, `set`
  Helper lemmas for `Props/C08.lean` (core Lean only; no Mathlib). Generated once from the development files; edit here.
-/
namespace NanoVerif.Dataset
open NanoVerif.Tensor NanoVerif.Mask

/-!
  C08 — proofs about the storage layer of `Model/Dataset.lean`: row ranges of the typed pools, the view handed out by
  `visit`, `set` and the presence mask.  (helper lemmas + the storage theorems re-exported by Props/C08.lean)
-/

/-! ### bit mask -/

theorem and_bitOf_ne_zero (x s : Nat) : ((x &&& bitOf s) != 0) = x.testBit (7 - s % 8) := by
  unfold bitOf
  rw [Nat.one_shiftLeft]
  cases h : x.testBit (7 - s % 8)
  · have : x &&& 2 ^ (7 - s % 8) = 0 := by
      apply Nat.eq_of_testBit_eq
      intro i
      rw [Nat.testBit_and, Nat.testBit_two_pow]
      by_cases hi : 7 - s % 8 = i
      · subst hi; simp [h]
      · simp [hi]
    simp [this]
  · have : (x &&& 2 ^ (7 - s % 8)).testBit (7 - s % 8) = true := by
      rw [Nat.testBit_and, Nat.testBit_two_pow]; simp [h]
    have hne : x &&& 2 ^ (7 - s % 8) ≠ 0 := by
      intro h0; rw [h0] at this; simp at this
    simp [hne]

theorem getbit_setbit' (m : List Nat) (s s' : Nat) (hs : s / 8 < m.length) :
    getbit (setbit m s) s' = (decide (s = s') || getbit m s') := by
  unfold getbit setbit
  rw [and_bitOf_ne_zero, and_bitOf_ne_zero]
  by_cases hb : s' / 8 = s / 8
  · rw [hb]
    rw [List.getD_eq_getElem?_getD, List.getElem?_set_self hs]
    simp only [Option.getD_some]
    rw [Nat.testBit_or]
    unfold bitOf
    rw [Nat.one_shiftLeft, Nat.testBit_two_pow]
    by_cases hss : s = s'
    · subst hss; simp
    · have : ¬ (7 - s % 8 = 7 - s' % 8) := by omega
      simp [hss, this, List.getD_eq_getElem?_getD]
  · have hne : s ≠ s' := by intro h; subst h; exact hb rfl
    rw [List.getD_eq_getElem?_getD, List.getElem?_set_ne (by omega)]
    simp [hne, List.getD_eq_getElem?_getD]

/-! ### ranges -/

theorem pool_code_lt (f : Feature) : f.pool.code < 10 := by
  unfold Feature.pool
  cases h : f.type <;> simp only [FType.code] <;> try omega
  by_cases h1 : f.classes ≤ 2 ^ 8
  · simp [h1]
  · by_cases h2 : f.classes ≤ 2 ^ 16
    · simp [h1, h2]
    · by_cases h3 : f.classes ≤ 2 ^ 32
      · simp [h1, h2, h3]
      · simp [h1, h2, h3]

theorem code_inj (a b : FType) (h : a.code = b.code) : a = b := by
  cases a <;> cases b <;> first | rfl | (simp [FType.code] at h)

/-- the ranges handed out to the features stored in pool `p`, in feature order -/
def poolRanges (p : Nat) : List Feature → List (Nat × Nat) → List (Nat × Nat)
  | f :: fs, r :: rs => if f.pool.code = p then r :: poolRanges p fs rs else poolRanges p fs rs
  | _, _ => []

/-- `[a, b)` is tiled by the consecutive ranges -/
def Tile : Nat → Nat → List (Nat × Nat) → Prop
  | a, b, [] => a = b
  | a, b, r :: rs => r.1 = a ∧ r.1 ≤ r.2 ∧ Tile r.2 b rs

theorem getD_set_nat (l : List Nat) (p q e : Nat) (hp : p < l.length) :
    (l.set p e).getD q 0 = if p = q then e else l.getD q 0 := by
  rw [List.getD_eq_getElem?_getD, List.getD_eq_getElem?_getD]
  by_cases h : p = q
  · subst h; simp [List.getElem?_set_self hp]
  · simp [List.getElem?_set_ne h, h]

theorem assignRanges_spec (feats : List Feature) : ∀ (sizes : List Nat),
    (∀ f ∈ feats, f.pool.code < sizes.length) →
    (assignRanges sizes feats).1.length = feats.length ∧
    (assignRanges sizes feats).2.length = sizes.length ∧
    (∀ q, sizes.getD q 0 ≤ (assignRanges sizes feats).2.getD q 0) ∧
    (∀ (i : Nat) (f : Feature) (r : Nat × Nat), feats[i]? = some f → (assignRanges sizes feats).1[i]? = some r →
      sizes.getD f.pool.code 0 ≤ r.1 ∧ r.2 = r.1 + f.comps ∧
      r.2 ≤ (assignRanges sizes feats).2.getD f.pool.code 0) ∧
    (∀ (i j : Nat) (fi fj : Feature) (ri rj : Nat × Nat), i < j → feats[i]? = some fi → feats[j]? = some fj →
      fi.pool.code = fj.pool.code → (assignRanges sizes feats).1[i]? = some ri →
      (assignRanges sizes feats).1[j]? = some rj → ri.2 ≤ rj.1) := by
  induction feats with
  | nil => intro sizes _; simp [assignRanges]
  | cons f fs ih =>
    intro sizes hp
    have hpf : f.pool.code < sizes.length := hp f (by simp)
    have hp' : ∀ g ∈ fs, g.pool.code < (sizes.set f.pool.code (sizes.getD f.pool.code 0 + f.comps)).length := by
      intro g hg; rw [List.length_set]; exact hp g (by simp [hg])
    obtain ⟨ih1, ih2, ih3, ih4, ih5⟩ := ih (sizes.set f.pool.code (sizes.getD f.pool.code 0 + f.comps)) hp'
    have hmono : ∀ q, sizes.getD q 0 ≤ (sizes.set f.pool.code (sizes.getD f.pool.code 0 + f.comps)).getD q 0 := by
      intro q; rw [getD_set_nat _ _ _ _ hpf]; split
      · subst_vars; omega
      · omega
    simp only [assignRanges]
    refine ⟨by simp only [List.length_cons, ih1], by rw [ih2, List.length_set], fun q => Nat.le_trans (hmono q) (ih3 q), ?_, ?_⟩
    · intro i g r hg hr
      cases i with
      | zero =>
        simp at hg hr; subst hg; subst hr
        refine ⟨Nat.le_refl _, rfl, ?_⟩
        have := ih3 f.pool.code
        rw [getD_set_nat _ _ _ _ hpf] at this
        simpa using this
      | succ i =>
        simp at hg hr
        obtain ⟨a, b, c⟩ := ih4 i g r hg hr
        exact ⟨Nat.le_trans (hmono _) a, b, c⟩
    · intro i j fi fj ri rj hij hfi hfj hcode hri hrj
      cases j with
      | zero => omega
      | succ j =>
        simp at hfj hrj
        cases i with
        | zero =>
          simp at hfi hri; subst hfi; subst hri
          obtain ⟨a, _, _⟩ := ih4 j fj rj hfj hrj
          rw [getD_set_nat _ _ _ _ hpf] at a
          simpa [hcode] using a
        | succ i =>
          simp at hfi hri
          exact ih5 i j fi fj ri rj (by omega) hfi hfj hcode hri hrj

theorem assignRanges_tile (p : Nat) (feats : List Feature) : ∀ (sizes : List Nat),
    (∀ f ∈ feats, f.pool.code < sizes.length) →
    Tile (sizes.getD p 0) ((assignRanges sizes feats).2.getD p 0) (poolRanges p feats (assignRanges sizes feats).1) := by
  induction feats with
  | nil => intro sizes _; simp [assignRanges, poolRanges, Tile]
  | cons f fs ih =>
    intro sizes hp
    have hpf : f.pool.code < sizes.length := hp f (by simp)
    have hp' : ∀ g ∈ fs, g.pool.code < (sizes.set f.pool.code (sizes.getD f.pool.code 0 + f.comps)).length := by
      intro g hg; rw [List.length_set]; exact hp g (by simp [hg])
    have := ih (sizes.set f.pool.code (sizes.getD f.pool.code 0 + f.comps)) hp'
    rw [getD_set_nat _ _ _ _ hpf] at this
    simp only [assignRanges, poolRanges]
    by_cases hc : f.pool.code = p
    · simp only [hc, if_true, Tile] at this ⊢
      subst hc
      exact ⟨trivial, by omega, this⟩
    · simpa only [hc, if_false] using this

/-! ### list windows, `writeAt` -/

theorem writeAt_length {α} (xs : List α) (off : Nat) (v : List α) (h : off + v.length ≤ xs.length) :
    (writeAt xs off v).length = xs.length := by
  simp [writeAt]; omega

theorem writeAt_getElem? {α} (xs : List α) (off : Nat) (v : List α) (h : off + v.length ≤ xs.length) (i : Nat) :
    (writeAt xs off v)[i]? = if i < off then xs[i]? else if i < off + v.length then v[i - off]? else xs[i]? := by
  unfold writeAt
  have hl : (List.take off xs).length = off := by simp; omega
  by_cases h1 : i < off
  · rw [List.append_assoc, List.getElem?_append_left (by omega)]
    simp [h1]
  · rw [List.append_assoc, List.getElem?_append_right (by omega), hl]
    by_cases h2 : i < off + v.length
    · rw [List.getElem?_append_left (by omega)]; simp [h1, h2]
    · rw [List.getElem?_append_right (by omega)]
      simp [h1, h2]
      congr 1; omega

theorem drop_take_getElem? {α} (l : List α) (a n i : Nat) :
    ((l.drop a).take n)[i]? = if i < n then l[a + i]? else none := by
  by_cases h : i < n
  · simp [h, List.getElem?_take_of_lt h]
  · simp [h, List.getElem?_take_eq_none (Nat.le_of_not_lt h)]

theorem writeAt_window_same {α} (xs : List α) (off : Nat) (v : List α) (h : off + v.length ≤ xs.length) :
    ((writeAt xs off v).drop off).take v.length = v := by
  apply List.ext_getElem?
  intro i
  rw [drop_take_getElem?, writeAt_getElem? _ _ _ h]
  by_cases hi : i < v.length
  · have h1 : ¬ off + i < off := by omega
    have h2 : off + i < off + v.length := by omega
    simp [hi, h1, h2]
  · simp [hi]

theorem writeAt_window_other {α} (xs : List α) (off : Nat) (v : List α) (h : off + v.length ≤ xs.length)
    (o m : Nat) (hd : o + m ≤ off ∨ off + v.length ≤ o) :
    ((writeAt xs off v).drop o).take m = (xs.drop o).take m := by
  apply List.ext_getElem?
  intro i
  rw [drop_take_getElem?, drop_take_getElem?, writeAt_getElem? _ _ _ h]
  by_cases hi : i < m
  · simp only [hi, if_true]
    rcases hd with hd | hd
    · have : o + i < off := by omega
      simp [this]
    · have h1 : ¬ o + i < off := by omega
      have h2 : ¬ o + i < off + v.length := by omega
      simp [h1, h2]
  · simp [hi]

theorem drop_take_drop_take {α} (l : List α) (a n i m : Nat) (h : i + m ≤ n) :
    (((l.drop a).take n).drop i).take m = (l.drop (a + i)).take m := by
  apply List.ext_getElem?
  intro j
  rw [drop_take_getElem? l (a + i) m j, drop_take_getElem? ((l.drop a).take n) i m j]
  by_cases hj : j < m
  · rw [if_pos hj, if_pos hj, drop_take_getElem?]
    have : i + j < n := by omega
    rw [if_pos this, Nat.add_assoc]
  · rw [if_neg hj, if_neg hj]

/-! ### well-formed storages -/

/-- invariant of a storage built by `resize` and updated by `set` -/
structure Storage.WF (st : Storage) : Prop where
  samples_pos : 0 < st.samples
  ranges_len : st.ranges.length = st.feats.length
  masks_len : st.masks.length = st.feats.length
  mask_size : ∀ (f : Nat) (m : List Nat), st.masks[f]? = some m → m.length = (st.samples + 7) / 8
  pools : ∀ (f : Nat) (feat : Feature) (r : Nat × Nat), st.feats[f]? = some feat → st.ranges[f]? = some r →
    r.2 = r.1 + feat.comps ∧
    ∃ t rows, st.pools[feat.pool.code]? = some t ∧ t.dims = [rows, st.samples] ∧
      t.data.length = rows * st.samples ∧ r.2 ≤ rows
  disjoint : ∀ (f g : Nat) (ff fg : Feature) (rf rg : Nat × Nat), f ≠ g → st.feats[f]? = some ff → st.feats[g]? = some fg → ff.pool = fg.pool →
    st.ranges[f]? = some rf → st.ranges[g]? = some rg → rf.2 ≤ rg.1 ∨ rg.2 ≤ rf.1


theorem ranges_some (st : Storage) (h : st.WF) (f : Nat) (feat : Feature) (hf : st.feats[f]? = some feat) :
    ∃ r, st.ranges[f]? = some r := by
  have hlt : f < st.feats.length := by
    rcases Nat.lt_or_ge f st.feats.length with h1 | h1
    · exact h1
    · rw [List.getElem?_eq_none h1] at hf; cases hf
  rw [← h.ranges_len] at hlt
  exact ⟨st.ranges[f], List.getElem?_eq_getElem hlt⟩

theorem pool_some (st : Storage) (h : st.WF) (f : Nat) (feat : Feature) (hf : st.feats[f]? = some feat) :
    ∃ t, st.pools[feat.pool.code]? = some t := by
  obtain ⟨r, hr⟩ := ranges_some st h f feat hf
  obtain ⟨_, t, _, ht, _⟩ := h.pools f feat r hf hr
  exact ⟨t, ht⟩

theorem offset_window (st : Storage) (h : st.WF) (f s : Nat) (feat : Feature) (r : Nat × Nat)
    (hf : st.feats[f]? = some feat) (hr : st.ranges[f]? = some r) (hs : s < st.samples) :
    st.offset f s = r.1 * st.samples + s * feat.comps ∧
    r.1 * st.samples ≤ st.offset f s ∧ st.offset f s + feat.comps ≤ r.2 * st.samples := by
  have ho : st.offset f s = r.1 * st.samples + s * feat.comps := by
    simp [Storage.offset, List.getD_eq_getElem?_getD, hf, hr]
  obtain ⟨h2, _⟩ := h.pools f feat r hf hr
  have e1 : (s + 1) * feat.comps ≤ st.samples * feat.comps := Nat.mul_le_mul_right _ hs
  rw [Nat.succ_mul] at e1
  have e2 : r.2 * st.samples = r.1 * st.samples + st.samples * feat.comps := by
    rw [h2, Nat.add_mul, Nat.mul_comm feat.comps]
  refine ⟨ho, by omega, by omega⟩

theorem offset_bound (st : Storage) (h : st.WF) (f s : Nat) (feat : Feature) (t : T Int)
    (hf : st.feats[f]? = some feat) (hp : st.pools[feat.pool.code]? = some t) (hs : s < st.samples) :
    st.offset f s + feat.comps ≤ t.data.length := by
  obtain ⟨r, hr⟩ := ranges_some st h f feat hf
  obtain ⟨_, _, hw⟩ := offset_window st h f s feat r hf hr hs
  obtain ⟨_, t', rows, ht', _, hlen, hle⟩ := h.pools f feat r hf hr
  rw [hp] at ht'; cases ht'
  have : r.2 * st.samples ≤ rows * st.samples := Nat.mul_le_mul_right _ hle
  omega

theorem set_eq (st st' : Storage) (s f : Nat) (v : List Int) (hset : st.set s f v = some st') :
    ∃ feat, st.feats[f]? = some feat ∧ s < st.samples ∧ v.length = feat.comps ∧
      st' = { st with
        pools := st.pools.modify feat.pool.code (fun t => ⟨t.dims, writeAt t.data (st.offset f s) v⟩)
        masks := st.masks.modify f (fun m => setbit m s) } := by
  unfold Storage.set at hset
  cases hf : st.feats[f]? with
  | none => rw [hf] at hset; cases hset
  | some feat =>
    rw [hf] at hset
    simp only at hset
    split at hset
    · rename_i hg
      cases hset
      exact ⟨feat, rfl, hg.1, hg.2.1, rfl⟩
    · cases hset

/-- `set` changes neither the schema nor the ranges -/
theorem set_schema (st st' : Storage) (s f : Nat) (v : List Int) (hset : st.set s f v = some st') :
    st'.samples = st.samples ∧ st'.feats = st.feats ∧ st'.ranges = st.ranges ∧ st'.target = st.target := by
  obtain ⟨feat, _, _, _, rfl⟩ := set_eq st st' s f v hset
  exact ⟨rfl, rfl, rfl, rfl⟩

theorem resize_wf (n : Nat) (feats : List Feature) (target : Nat) (hn : 0 < n) : (resize n feats target).WF := by
  have hp : ∀ f ∈ feats, f.pool.code < (List.replicate 10 0).length := by
    intro f _; rw [List.length_replicate]; exact pool_code_lt f
  obtain ⟨h1, h2, _, h4, h5⟩ := assignRanges_spec feats (List.replicate 10 0) hp
  rw [List.length_replicate] at h2
  refine ⟨hn, h1, by simp [resize], ?_, ?_, ?_⟩
  · intro f m hm
    simp only [resize, List.getElem?_map] at hm
    cases hf : feats[f]? with
    | none => simp [hf] at hm
    | some g => simp [hf] at hm; subst hm; simp [zeros, resize]
  · intro f feat r hf hr
    simp only [resize] at hf hr ⊢
    obtain ⟨_, b, c⟩ := h4 f feat r hf hr
    refine ⟨b, ?_⟩
    have hlt : feat.pool.code < (assignRanges (List.replicate 10 0) feats).2.length := by
      rw [h2]; exact pool_code_lt feat
    refine ⟨⟨[(assignRanges (List.replicate 10 0) feats).2[feat.pool.code], n], List.replicate ((assignRanges (List.replicate 10 0) feats).2[feat.pool.code] * n) 0⟩, (assignRanges (List.replicate 10 0) feats).2[feat.pool.code], ?_, rfl, ?_, ?_⟩
    · rw [List.getElem?_map, List.getElem?_eq_getElem hlt]; rfl
    · simp
    · rw [List.getD_eq_getElem?_getD, List.getElem?_eq_getElem hlt] at c; simpa using c
  · intro f g ff fg rf rg hfg hff hfg' hpool hrf hrg
    simp only [resize] at hff hfg' hrf hrg
    rcases Nat.lt_or_gt_of_ne hfg with hlt | hlt
    · exact Or.inl (h5 f g ff fg rf rg hlt hff hfg' (by rw [hpool]) hrf hrg)
    · exact Or.inr (h5 g f fg ff rg rf hlt hfg' hff (by rw [hpool]) hrg hrf)

theorem setbit_length (m : List Nat) (s : Nat) : (setbit m s).length = m.length := by
  simp [setbit]

theorem set_wf (st st' : Storage) (h : st.WF) (s f : Nat) (v : List Int) (hset : st.set s f v = some st') : st'.WF := by
  obtain ⟨feat, hf, hs, hv, rfl⟩ := set_eq st st' s f v hset
  refine ⟨h.samples_pos, h.ranges_len, ?_, ?_, ?_, h.disjoint⟩
  · simp only [List.length_modify]; exact h.masks_len
  · intro g m hm
    simp only [List.getElem?_modify] at hm
    cases hg : st.masks[g]? with
    | none => rw [hg] at hm; cases hm
    | some m0 =>
      rw [hg] at hm
      simp only [Option.map_eq_map, Option.map_some, Option.some.injEq] at hm
      have := h.mask_size g m0 hg
      subst hm
      split
      · rw [setbit_length]; exact this
      · exact this
  · intro g feat' r hg hr
    obtain ⟨h2, t, rows, ht, hd, hlen, hle⟩ := h.pools g feat' r hg hr
    refine ⟨h2, ?_⟩
    simp only [List.getElem?_modify, ht]
    by_cases hc : feat.pool.code = feat'.pool.code
    · refine ⟨⟨t.dims, writeAt t.data (st.offset f s) v⟩, rows, by simp [hc], hd, ?_, hle⟩
      have hb := offset_bound st h f s feat t hf (by rw [hc]; exact ht) hs
      simp only
      rw [writeAt_length _ _ _ (by omega)]; exact hlen
    · exact ⟨t, rows, by simp [hc], hd, hlen, hle⟩

/-! ### the view -/

theorem reshapeDims_infer1 (total : Nat) : reshapeDims total [-1] = some [total] := by
  simp [reshapeDims, reshapeInfer, iprod]

theorem reshapeDims_infer2 (N C total : Nat) (hN : 0 < N) (ht : total = C * N) :
    reshapeDims total [Int.ofNat N, -1] = some [N, C] := by
  have h1 : ¬ ((N : Int) = -1) := by omega
  have h2 : ¬ (N = 0) := by omega
  subst ht
  simp [reshapeDims, reshapeInfer, iprod, h1, h2, Int.mul_comm]
  
theorem reshapeDims_full (N a b c total : Nat) (ht : total = N * (a * b * c)) :
    reshapeDims total [Int.ofNat N, Int.ofNat a, Int.ofNat b, Int.ofNat c] = some [N, a, b, c] := by
  have h1 : ∀ n : Nat, ¬ ((n : Int) = -1) := by intro n; omega
  subst ht
  simp [reshapeDims, reshapeInfer, iprod, h1, Int.mul_assoc]

theorem slice_two {α} (t : T α) (rows N b e : Nat) (hd : t.dims = [rows, N]) (hbe : b ≤ e) (he : e ≤ rows) :
    t.slice b e = some ⟨[e - b, N], (t.data.drop (b * N)).take ((e - b) * N)⟩ := by
  simp [T.slice, hd, hbe, he, index, size]

theorem sub_one {α} (N : Nat) (ds : List Nat) (data : List α) (s : Nat) (hs : s < N) :
    (T.mk (N :: ds) data).sub [s] = some ⟨ds, (data.drop (s * size ds)).take (size ds)⟩ := by
  simp [T.sub, ValidPrefix, hs, dims0, index]

theorem view_eq (st : Storage) (h : st.WF) (f : Nat) (feat : Feature) (r : Nat × Nat) (t : T Int)
    (hf : st.feats[f]? = some feat) (hr : st.ranges[f]? = some r) (hp : st.pools[feat.pool.code]? = some t) :
    ∃ ds, size ds = feat.comps ∧
      st.view f = some ⟨st.samples :: ds, (t.data.drop (r.1 * st.samples)).take (feat.comps * st.samples)⟩ := by
  obtain ⟨h2, t', rows, ht', hd, hlen, hle⟩ := h.pools f feat r hf hr
  rw [hp] at ht'; cases ht'
  have hsl := slice_two t rows st.samples r.1 r.2 hd (by omega) hle
  have hsub : r.2 - r.1 = feat.comps := by omega
  rw [hsub] at hsl
  have hN := h.samples_pos
  unfold Storage.view
  simp only [hf, hr, hp, hsl, Option.bind_eq_bind, Option.bind_some]
  cases hty : feat.type
  case sclass =>
    have hc : feat.comps = 1 := by simp [Feature.comps, hty]
    refine ⟨[], by simp [size, hc], ?_⟩
    simp only [T.reshape, reshapeDims_infer1, hc]
    simp [size]
  case mclass =>
    have hc : feat.comps = feat.classes := by simp [Feature.comps, hty]
    refine ⟨[feat.classes], by simp [size, hc], ?_⟩
    simp only [T.reshape]
    rw [reshapeDims_infer2 st.samples feat.classes _ hN (by simp [size, hc])]; rfl
  all_goals (
    have hc : feat.comps = feat.d0 * feat.d1 * feat.d2 := by simp [Feature.comps, hty, Feature.dimSize]
    refine ⟨[feat.d0, feat.d1, feat.d2], by simp [size, hc, Nat.mul_assoc], ?_⟩
    simp only [T.reshape]
    rw [reshapeDims_full st.samples feat.d0 feat.d1 feat.d2 _ (by simp [size, hc, Nat.mul_comm])]; rfl)

/-- the view handed out by `visit` (slice of the pool, reshaped — through the C16 model) aliases the pool from
    `offset f s`: the row of sample `s` is the window of `comps` elements starting there -/
theorem row_eq (st : Storage) (h : st.WF) (f s : Nat) (feat : Feature) (t : T Int)
    (hf : st.feats[f]? = some feat) (hp : st.pools[feat.pool.code]? = some t) (hs : s < st.samples) :
    st.row f s = some ((t.data.drop (st.offset f s)).take feat.comps) ∧
    st.offset f s + feat.comps ≤ t.data.length := by
  refine ⟨?_, offset_bound st h f s feat t hf hp hs⟩
  obtain ⟨r, hr⟩ := ranges_some st h f feat hf
  obtain ⟨ds, hds, hv⟩ := view_eq st h f feat r t hf hr hp
  obtain ⟨ho, _, _⟩ := offset_window st h f s feat r hf hr hs
  unfold Storage.row
  simp only [hv, Option.bind_eq_bind, Option.bind_some, sub_one _ _ _ _ hs, hds, Option.pure_def]
  rw [ho]
  have e1 : (s + 1) * feat.comps ≤ st.samples * feat.comps := Nat.mul_le_mul_right _ hs
  rw [Nat.succ_mul] at e1
  rw [drop_take_drop_take _ _ _ _ _ (by rw [Nat.mul_comm feat.comps]; exact e1)]

/-- a stored value has one entry per component -/
theorem stored_length (st : Storage) (h : st.WF) (f s : Nat) (feat : Feature) (v : List Int)
    (hf : st.feats[f]? = some feat) (hs : s < st.samples) (hv : st.stored f s = some v) : v.length = feat.comps := by
  obtain ⟨t, ht⟩ := pool_some st h f feat hf
  obtain ⟨hrow, hb⟩ := row_eq st h f s feat t hf ht hs
  unfold Storage.stored at hv
  split at hv
  · rw [hrow] at hv
    cases hv
    rw [List.length_take, List.length_drop]; omega
  · cases hv

/-- same without the bound on the sample: a sample outside the storage is never stored -/
theorem stored_length_all (st : Storage) (h : st.WF) (f s : Nat) (feat : Feature) (v : List Int)
    (hf : st.feats[f]? = some feat) (hv : st.stored f s = some v) : v.length = feat.comps := by
  by_cases hs : s < st.samples
  · exact stored_length st h f s feat v hf hs hv
  · exfalso
    obtain ⟨t, ht⟩ := pool_some st h f feat hf
    obtain ⟨r, hr⟩ := ranges_some st h f feat hf
    obtain ⟨ds, _, hview⟩ := view_eq st h f feat r t hf hr ht
    have hrow : st.row f s = none := by
      unfold Storage.row
      simp [hview, T.sub, ValidPrefix, hs]
    unfold Storage.stored at hv
    rw [hrow] at hv
    split at hv <;> cases hv

theorem windows_disjoint (st : Storage) (h : st.WF) (f s f' s' : Nat) (feat feat' : Feature)
    (hf : st.feats[f]? = some feat) (hf' : st.feats[f']? = some feat') (hs : s < st.samples) (hs' : s' < st.samples)
    (hpool : feat.pool = feat'.pool) (hne : ¬ (f' = f ∧ s' = s)) :
    st.offset f' s' + feat'.comps ≤ st.offset f s ∨ st.offset f s + feat.comps ≤ st.offset f' s' := by
  obtain ⟨r, hr⟩ := ranges_some st h f feat hf
  obtain ⟨r', hr'⟩ := ranges_some st h f' feat' hf'
  obtain ⟨ho, hlo, hhi⟩ := offset_window st h f s feat r hf hr hs
  obtain ⟨ho', hlo', hhi'⟩ := offset_window st h f' s' feat' r' hf' hr' hs'
  by_cases hff : f' = f
  · subst hff
    rw [hf] at hf'; cases hf'
    rw [hr] at hr'; cases hr'
    have hss : s' ≠ s := fun e => hne ⟨rfl, e⟩
    rw [ho, ho']
    rcases Nat.lt_or_gt_of_ne hss with hlt | hlt
    · left
      have e1 : (s' + 1) * feat.comps ≤ s * feat.comps := Nat.mul_le_mul_right _ hlt
      rw [Nat.succ_mul] at e1
      omega
    · right
      have e1 : (s + 1) * feat.comps ≤ s' * feat.comps := Nat.mul_le_mul_right _ hlt
      rw [Nat.succ_mul] at e1
      omega
  · rcases h.disjoint f f' feat feat' r r' (fun e => hff e.symm) hf hf' hpool hr hr' with hd | hd
    · right
      have : r.2 * st.samples ≤ r'.1 * st.samples := Nat.mul_le_mul_right _ hd
      omega
    · left
      have : r'.2 * st.samples ≤ r.1 * st.samples := Nat.mul_le_mul_right _ hd
      omega

theorem set_given (st st' : Storage) (h : st.WF) (s f : Nat) (v : List Int) (hset : st.set s f v = some st')
    (f' s' : Nat) :
    st'.given f' s' = (decide (f' = f ∧ s' = s) || st.given f' s') := by
  obtain ⟨feat, hf, hs, hv, rfl⟩ := set_eq st st' s f v hset
  simp only [Storage.given, List.getD_eq_getElem?_getD, List.getElem?_modify]
  by_cases hff : f = f'
  · subst hff
    have hlt : f < st.masks.length := by
      rw [h.masks_len]
      rcases Nat.lt_or_ge f st.feats.length with h1 | h1
      · exact h1
      · rw [List.getElem?_eq_none h1] at hf; cases hf
    have hm : st.masks[f]? = some st.masks[f] := List.getElem?_eq_getElem hlt
    have hlen := h.mask_size f _ hm
    rw [hm]
    simp only [if_true, Option.map_eq_map, Option.map_some, Option.getD_some, true_and]
    rw [getbit_setbit' _ _ _ (by omega)]
    by_cases hss : s = s'
    · subst hss; simp
    · have : ¬ s' = s := fun e => hss e.symm
      simp [hss, this]
  · have : ¬ f' = f := fun e => hff e.symm
    simp [hff, this]

theorem set_row (st st' : Storage) (h : st.WF) (s f : Nat) (v : List Int) (hset : st.set s f v = some st')
    (f' s' : Nat) (hf' : f' < st.feats.length) (hs' : s' < st.samples) :
    st'.row f' s' = if f' = f ∧ s' = s then some v else st.row f' s' := by
  have h' := set_wf st st' h s f v hset
  obtain ⟨feat, hf, hs, hv, hst'⟩ := set_eq st st' s f v hset
  have hfeats : st'.feats = st.feats := by rw [hst']
  have hsamples : st'.samples = st.samples := by rw [hst']
  have hoff : ∀ a b, st'.offset a b = st.offset a b := by intro a b; rw [hst']; rfl
  have hpools : st'.pools = st.pools.modify feat.pool.code (fun t => ⟨t.dims, writeAt t.data (st.offset f s) v⟩) := by
    rw [hst']
  have hfeat' : st.feats[f']? = some st.feats[f'] := List.getElem?_eq_getElem hf'
  generalize st.feats[f'] = feat' at hfeat'
  obtain ⟨t', ht'⟩ := pool_some st h f' feat' hfeat'
  obtain ⟨hrow, hb'⟩ := row_eq st h f' s' feat' t' hfeat' ht' hs'
  have hpool' : st'.pools[feat'.pool.code]? =
      some (if feat.pool.code = feat'.pool.code then ⟨t'.dims, writeAt t'.data (st.offset f s) v⟩ else t') := by
    rw [hpools, List.getElem?_modify, ht']
    by_cases hc : feat.pool.code = feat'.pool.code <;> simp [hc]
  obtain ⟨hrow', _⟩ := row_eq st' h' f' s' feat' _ (by rw [hfeats]; exact hfeat') hpool' (by rw [hsamples]; exact hs')
  rw [hrow', hrow, hoff]
  by_cases hc : feat.pool.code = feat'.pool.code
  · have ht : st.pools[feat.pool.code]? = some t' := by rw [hc]; exact ht'
    have hb := offset_bound st h f s feat t' hf ht hs
    rw [← hv] at hb
    simp only [hc, if_true]
    by_cases hsame : f' = f ∧ s' = s
    · obtain ⟨rfl, rfl⟩ := hsame
      rw [hf] at hfeat'; cases hfeat'
      simp only [and_self, if_true]
      rw [← hv, writeAt_window_same _ _ _ hb]
    · simp only [hsame, if_false]
      rw [writeAt_window_other _ _ _ hb]
      have := windows_disjoint st h f s f' s' feat feat' hf hfeat' hs hs' (code_inj _ _ hc) hsame
      rw [hv]; exact this
  · have hsame : ¬ (f' = f ∧ s' = s) := by
      rintro ⟨rfl, _⟩
      rw [hf] at hfeat'; cases hfeat'
      exact hc rfl
    simp only [hc, hsame, if_false]

/-- **storage refines the abstract map** `D : feature → sample → Option value`: `set` is a point update of `D` -/
theorem storage_refines' (st st' : Storage) (h : st.WF) (s f : Nat) (v : List Int) (hset : st.set s f v = some st')
    (f' s' : Nat) (hf' : f' < st.feats.length) (hs' : s' < st.samples) :
    st'.stored f' s' = if f' = f ∧ s' = s then some v else st.stored f' s' := by
  unfold Storage.stored
  rw [set_given st st' h s f v hset f' s', set_row st st' h s f v hset f' s' hf' hs']
  by_cases hsame : f' = f ∧ s' = s
  · simp [hsame]
  · simp [hsame]

/-- never set ⇒ missing -/
theorem stored_never_set' (n : Nat) (feats : List Feature) (target f s : Nat) :
    (resize n feats target).stored f s = none := by
  have hg : (resize n feats target).given f s = false := by
    simp only [Storage.given, resize, getbit, List.getD_eq_getElem?_getD, List.getElem?_map]
    cases feats[f]? with
    | none => simp
    | some g =>
      simp only [Option.map_some, Option.getD_some, zeros, List.getElem?_replicate]
      split <;> simp
  simp [Storage.stored, hg]

end NanoVerif.Dataset
