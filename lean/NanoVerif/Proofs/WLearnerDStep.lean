import NanoVerif.Proofs.WLearnerTable
/-!
  C10 — the discrete-step table (`score_kbest(…, 1)`): the single label set whose mean reduces the RSS most.
-/
set_option linter.unusedSectionVars false
set_option linter.unusedVariables false

namespace NanoVerif.WLearner
variable {α : Type} [Field α] [LinearOrder α] [IsStrictOrderedRing α]

/-- the hypothesis class of the discrete step: one label set `h0` gets the vector `c`, everything else zero -/
def stepPred (h0 : Nat) (c : Vec α) : Option Nat → Vec α :=
  tablePred fun h => if h = h0 then c else zeroV

theorem argminFirst_spec (l : List (α × Nat)) :
    (l = [] → argminFirst l = none) ∧
    (l ≠ [] → ∃ q, argminFirst l = some q ∧ q ∈ l ∧ ∀ p ∈ l, q.1 ≤ p.1) := by
  induction l with
  | nil => simp [argminFirst]
  | cons p ps ih =>
    refine ⟨by simp, fun _ => ?_⟩
    simp only [argminFirst]
    cases hps : ps with
    | nil => simp [argminFirst]
    | cons p' ps' =>
      obtain ⟨q, hq, hqm, hqmin⟩ := ih.2 (by rw [hps]; simp)
      rw [hps] at hq hqm hqmin
      rw [hq]
      simp only
      split
      · rename_i hlt
        refine ⟨q, rfl, List.mem_cons_of_mem _ hqm, ?_⟩
        intro x hx
        rcases List.mem_cons.mp hx with rfl | hx
        · exact le_of_lt hlt
        · exact hqmin x hx
      · rename_i hnlt
        refine ⟨p, rfl, by simp, ?_⟩
        intro x hx
        rcases List.mem_cons.mp hx with rfl | hx
        · exact le_refl _
        · exact le_trans (not_lt.mp hnlt) (hqmin x hx)

theorem vsum_div (b : Vec α) (x : α) (T : Nat) : vsum (fun o => b o / x) T = vsum b T / x := by
  induction T with
  | zero => simp
  | succ T ih => rw [vsum_succ, vsum_succ, ih]; ring

/-- `Σ` of the squared residuals of a list of samples -/
theorem lsum_sqErr_zero (T : Nat) (rs : List (Vec α)) :
    lsum (rs.map fun r => sqErr T r zeroV) = vsum (momOf rs).r2 T := by
  rw [lsum_sqErr]
  apply vsum_congr; intro o _
  rw [momOf_r2]
  apply lsum_map_congr; intro r _
  simp [zeroV]

/-- `score(bin) = Σ r² + delta(bin)` -/
theorem binScore_eq_delta (T : Nat) (m : Mom α) : binScore T m = vsum m.r2 T + binDelta T m := by
  unfold binScore binDelta
  rw [vsum_sub, vsum_div]; ring

theorem binDelta_nonpos (T : Nat) (rs : List (Vec α)) : binDelta T (momOf rs) ≤ 0 := by
  unfold binDelta
  have h1 : 0 ≤ vsum (fun o => (momOf rs).r1 o * (momOf rs).r1 o) T :=
    vsum_nonneg T (fun o _ => mul_self_nonneg _)
  have h2 : 0 ≤ (momOf rs).x0 := by rw [momOf_x0]; exact countOf_nonneg rs
  rw [neg_div]
  exact neg_nonpos.mpr (div_nonneg h1 h2)

theorem dstepRss0_eq (T : Nat) (rows : List (CRow α)) :
    dstepRss0 T rows = missSumC T rows
      + lsum ((hashesOf rows).map fun h => vsum (momOf ((binRows rows h).map (·.r))).r2 T) := by
  unfold dstepRss0
  rw [sumL_eq, missRssC_eq]
  congr 2
  apply List.map_congr_left; intro h _
  rw [binMom_eq]

/-- the RSS of a one-label-set table whose label set is present among the fitted samples -/
theorem rssOfC_step_mem (T : Nat) (rows : List (CRow α)) (h0 : Nat) (hm : h0 ∈ hashesOf rows) (c : Vec α) :
    rssOfC T rows (stepPred h0 c) = dstepRss0 T rows
      - vsum (momOf ((binRows rows h0).map (·.r))).r2 T
      + lsum (((binRows rows h0).map (·.r)).map fun r => sqErr T r c) := by
  unfold stepPred
  rw [rssOfC_table, dstepRss0_eq]
  have : ((hashesOf rows).map fun h => lsum (((binRows rows h).map (·.r)).map fun r =>
      sqErr T r (if h = h0 then c else zeroV)))
      = (hashesOf rows).map fun h => vsum (momOf ((binRows rows h).map (·.r))).r2 T
        + (if h = h0 then lsum (((binRows rows h0).map (·.r)).map fun r => sqErr T r c)
            - vsum (momOf ((binRows rows h0).map (·.r))).r2 T else 0) := by
    apply List.map_congr_left; intro h _
    by_cases e : h = h0
    · subst e; simp only [if_true]; ring
    · simp only [e, if_false, add_zero]; exact lsum_sqErr_zero T _
  rw [this, lsum_map_add, lsum_ite_eq _ (hashesOf_nodup rows) h0 hm]
  ring

/-- … and of one whose label set does not occur: nothing is predicted -/
theorem rssOfC_step_not_mem (T : Nat) (rows : List (CRow α)) (h0 : Nat) (hm : h0 ∉ hashesOf rows) (c : Vec α) :
    rssOfC T rows (stepPred h0 c) = dstepRss0 T rows := by
  unfold stepPred
  rw [rssOfC_table, dstepRss0_eq]
  congr 2
  apply List.map_congr_left; intro h hh
  have : h ≠ h0 := fun e => hm (e ▸ hh)
  simp only [this, if_false]
  exact lsum_sqErr_zero T _

theorem dstepCandOf_rss [Log α] (T : Nat) (K : α) (crit : Crit) (f : Nat) (rows : List (CRow α)) (h : Nat) :
    (dstepCandOf T K crit f rows h).rss = dstepRss0 T rows + binDelta T (momOf ((binRows rows h).map (·.r))) := by
  simp only [dstepCandOf, binMom_eq]

/-- the candidate of label set `h` is the best table on `h` alone -/
theorem dstepCandOf_spec [Log α] (T : Nat) (K : α) (crit : Crit) (f : Nat) (rows : List (CRow α)) (h : Nat)
    (hm : h ∈ hashesOf rows) :
    (dstepCandOf T K crit f rows h).rss = rssOfC T rows (stepPred h (tab (dstepCandOf T K crit f rows h).tables 0)) ∧
    ∀ c : Vec α, (dstepCandOf T K crit f rows h).rss ≤ rssOfC T rows (stepPred h c) := by
  have hne : (binRows rows h).map (·.r) ≠ [] := by simpa using binRows_ne_nil rows h hm
  have hd := binScore_eq_delta T (momOf ((binRows rows h).map (·.r)))
  constructor
  · rw [dstepCandOf_rss, rssOfC_step_mem T rows h hm]
    have htab : tab (dstepCandOf T K crit f rows h).tables 0 = binMean (momOf ((binRows rows h).map (·.r))) := by
      simp only [dstepCandOf, tab, List.getD_cons_zero, binMom_eq]
    rw [htab, ← (const_fit_vec T _ hne zeroV).2, hd]; ring
  · intro c
    rw [dstepCandOf_rss, rssOfC_step_mem T rows h hm]
    have := (const_fit_vec T _ hne c).1
    rw [hd] at this
    linarith

/-- `score_kbest(…, 1)`: no fit exactly when no value is present; otherwise the stored one-row table is on a present
    label set, its reported RSS is the RSS of its predictions, and no one-label-set table has a smaller RSS -/
theorem dstepCand_spec [Log α] (T : Nat) (K : α) (crit : Crit) (f : Nat) (rows : List (CRow α)) :
    (hashesOf rows = [] → dstepCand T K crit f rows = none) ∧
    (hashesOf rows ≠ [] → ∃ h0 ∈ hashesOf rows, dstepCand T K crit f rows = some (dstepCandOf T K crit f rows h0) ∧
      ∀ (h' : Nat) (c' : Vec α), (dstepCandOf T K crit f rows h0).rss ≤ rssOfC T rows (stepPred h' c')) := by
  constructor
  · intro h
    simp [dstepCand, h, argminFirst]
  · intro hne
    set hs := hashesOf rows with hhs
    set ds := (hs.map fun h => binDelta T (binMom rows h)).zipIdx with hds
    have hdne : ds ≠ [] := by
      rw [hds]; intro e
      have := congrArg List.length e
      simp at this
      exact hne this
    obtain ⟨q, hq, hqm, hqmin⟩ := (argminFirst_spec ds).2 hdne
    have hqi : (hs.map fun h => binDelta T (binMom rows h))[q.2]? = some q.1 := List.mem_zipIdx_iff_getElem?.mp hqm
    rw [List.getElem?_map] at hqi
    cases hget : hs[q.2]? with
    | none => rw [hget] at hqi; simp at hqi
    | some h0 =>
      rw [hget] at hqi
      simp at hqi
      have hm0 : h0 ∈ hs := List.mem_iff_getElem?.mpr ⟨q.2, hget⟩
      refine ⟨h0, hm0, ?_, ?_⟩
      · simp only [dstepCand]
        rw [← hhs, ← hds, hq]
        simp only
        rw [hget]; rfl
      · intro h' c'
        have hle : ∀ h ∈ hs, binDelta T (momOf ((binRows rows h0).map (·.r))) ≤ binDelta T (momOf ((binRows rows h).map (·.r))) := by
          intro h hh
          obtain ⟨i, hi⟩ := List.mem_iff_getElem?.mp hh
          have hmem : (binDelta T (binMom rows h), i) ∈ ds := by
            rw [hds]; apply List.mem_zipIdx_iff_getElem?.mpr
            simp [List.getElem?_map, hi]
          have := hqmin _ hmem
          simp only at this
          rw [← hqi, binMom_eq, binMom_eq] at this
          exact this
        rw [dstepCandOf_rss]
        by_cases hm' : h' ∈ hs
        · have h1 := (dstepCandOf_spec T K crit f rows h' hm').2 c'
          rw [dstepCandOf_rss] at h1
          have := hle h' hm'
          linarith
        · rw [rssOfC_step_not_mem T rows h' hm' c']
          have := binDelta_nonpos T ((binRows rows h0).map (·.r))
          linarith

end NanoVerif.WLearner
