import NanoVerif.Model.Tensor
/-!
  C16 — helper lemmas for `reshape` (the `-1` inference loop of `treshape`). Core Lean only.
-/
namespace NanoVerif.Tensor

theorem size_append : ∀ (a b : List Nat), size (a ++ b) = size a * size b
  | [], b => by simp [size]
  | x :: a, b => by simp [size, size_append a b, Nat.mul_assoc]

theorem iprod_append : ∀ (a b : List Int), iprod (a ++ b) = iprod a * iprod b
  | [], b => by simp [iprod]
  | x :: a, b => by simp [iprod, iprod_append a b, Int.mul_assoc]

theorem iprod_ofNat : ∀ (a : List Nat), iprod (a.map Int.ofNat) = Int.ofNat (size a)
  | [] => rfl
  | x :: a => by simp [iprod, size, iprod_ofNat a]

theorem size_pos_of_pos : ∀ (a : List Nat), (∀ d ∈ a, 0 < d) → 0 < size a
  | [], _ => by simp [size]
  | x :: a, h => by
    have h1 := h x (by simp)
    have h2 := size_pos_of_pos a (fun d hd => h d (by simp [hd]))
    simp only [size]
    exact Nat.mul_pos h1 h2

theorem map_toNat_ofNat (a : List Nat) : (a.map Int.ofNat).map Int.toNat = a := by
  induction a with
  | nil => rfl
  | cons x a ih => simp [ih]

theorem all_nonneg_ofNat (a : List Nat) : (a.map Int.ofNat).all (· ≥ 0) = true := by
  simp [List.all_eq_true]

/-- explicit (non-negative) entries are copied by the inference loop -/
theorem reshapeInfer_explicit (total : Int) : ∀ (xs : List Nat) (acc rest : List Int),
    reshapeInfer total acc (xs.map Int.ofNat ++ rest) = reshapeInfer total (acc ++ xs.map Int.ofNat) rest
  | [], acc, rest => by simp
  | x :: xs, acc, rest => by
    have h1 : ¬ (Int.ofNat x = -1) := by simp
    have h2 : Int.ofNat x ≥ 0 := by simp
    simp only [List.map_cons, List.cons_append, reshapeInfer, h1, h2, if_false, if_true]
    rw [reshapeInfer_explicit total xs (acc ++ [Int.ofNat x]) rest]
    simp

theorem reshapeInfer_nil (total : Int) (acc : List Int) : reshapeInfer total acc [] = some acc := by
  simp [reshapeInfer]

/-- `-size() / size(dimensions)` with one `-1` among positive entries: truncating division of `-total` by
    `-P` is the natural-number quotient `total / P` -/
theorem tdiv_neg_neg_ofNat (t p : Nat) : Int.tdiv (-(Int.ofNat t)) (-(Int.ofNat p)) = Int.ofNat (t / p) := by
  rw [Int.tdiv_neg, Int.neg_tdiv, Int.neg_neg]
  simp

end NanoVerif.Tensor

namespace NanoVerif.Tensor

theorem iprod_one_neg (pre post : List Nat) :
    iprod (pre.map Int.ofNat ++ -1 :: post.map Int.ofNat) = -(Int.ofNat (size pre * size post)) := by
  rw [iprod_append, iprod, iprod_ofNat, iprod_ofNat]
  simp [Int.mul_neg, Int.neg_mul]

theorem size_insert (pre post : List Nat) (q : Nat) : size (pre ++ q :: post) = size pre * size post * q := by
  rw [size_append, size]
  rw [Nat.mul_assoc, Nat.mul_comm (size post) q]

/-- complete description of `treshape` for one `-1` among positive entries -/
theorem reshapeDims_one (total : Nat) (pre post : List Nat) (hpre : ∀ d ∈ pre, 0 < d)
    (hpost : ∀ d ∈ post, 0 < d) :
    reshapeDims total (pre.map Int.ofNat ++ -1 :: post.map Int.ofNat)
      = if size pre * size post * (total / (size pre * size post)) = total
        then some (pre ++ total / (size pre * size post) :: post) else none := by
  have hP : 0 < size pre * size post := Nat.mul_pos (size_pos_of_pos pre hpre) (size_pos_of_pos post hpost)
  have hne : ¬ (-(Int.ofNat (size pre * size post)) = 0) := by
    simp only [Int.ofNat_eq_natCast, Int.neg_eq_zero]; omega
  unfold reshapeDims
  have h := reshapeInfer_explicit (Int.ofNat total) pre [] (-1 :: post.map Int.ofNat)
  rw [h]
  simp only [List.nil_append]
  rw [reshapeInfer]
  simp only [if_true, iprod_one_neg, hne, if_false, tdiv_neg_neg_ofNat]
  have h2 := reshapeInfer_explicit (Int.ofNat total) post
    (pre.map Int.ofNat ++ [Int.ofNat (total / (size pre * size post))]) []
  simp only [List.append_nil] at h2
  rw [h2, reshapeInfer_nil]
  have hl : pre.map Int.ofNat ++ [Int.ofNat (total / (size pre * size post))] ++ post.map Int.ofNat
      = (pre ++ total / (size pre * size post) :: post).map Int.ofNat := by simp
  simp only [hl, all_nonneg_ofNat, iprod_ofNat, map_toNat_ofNat, true_and, size_insert]
  by_cases hc : size pre * size post * (total / (size pre * size post)) = total
  · simp [hc]
  · have : ¬ (Int.ofNat (size pre * size post * (total / (size pre * size post))) = Int.ofNat total) :=
      fun e => hc (Int.ofNat.inj e)
    rw [if_neg this, if_neg hc]

end NanoVerif.Tensor
