import NanoVerif.Proofs.DatasetFlatten
import NanoVerif.Model.Iterator
/-!
  C09 ↔ C08 — the contract the iterator model (`Model/Iterator.lean`, `Data.flat` / `Data.targ`) makes about the dataset,
  PROVED for the C08 dataset model (`Model/Dataset.lean`): `dataset_t::flatten(samples, buffer)` and
  `dataset_t::targets(samples, buffer)` are SAMPLE-WISE — row `r` of the result depends on `samples[r]` only, it is the row
  `flatRow ds samples[r]` / `targetRow desc (stored t samples[r])`, whatever the other samples of the batch, the batch's
  size and the previous contents of the (reused) buffer. Hence slicing the sample list per batch and flattening the
  slices (what the iterators and `make_*_stats` do) yields the slices of the rows of the whole list (`flatten_slice`).
  `dataOfDataset` is the `Data` of a C08 dataset (cells: `fin x` ⇒ `some x`, else missing — the NaN of `Scalar.nan`).
  Core Lean only.
-/
set_option linter.unusedSectionVars false
set_option linter.unusedSimpArgs false
set_option linter.unusedVariables false

namespace NanoVerif.Iterator
open NanoVerif.Dataset

section
variable {α : Type} [Scalar α]

/-- the per-sample segment writers of the dataset, in generator and feature order: `F s` is the block of columns feature
    `(g, i)` writes for stored sample `s` -/
def segFns (ds : Dataset) : List (Nat → List α) :=
  ds.gens.flatMap fun g => (List.range g.features).map fun i s => (g.segments (α := α) ds.st i [s]).headD []

/-- the flattened row of ONE stored sample -/
def flatRow (ds : Dataset) (s : Nat) : List α := ((segFns (α := α) ds).map (· s)).flatten

theorem segments_samplewise (st : Storage) (g : Gen) (i : Nat) (ss : List Nat) :
    g.segments (α := α) st i ss = ss.map fun s => (g.segments (α := α) st i [s]).headD [] := by
  unfold Gen.segments
  simp only
  split
  · simp
  · split <;> simp [iterate, iterate2, derived, List.map_map, Function.comp]
    all_goals (try (split <;> simp [iterate, iterate2, List.map_map, Function.comp]))

theorem hcatRows_samplewise {ι : Type} (ss : List ι) : ∀ (Fs : List (ι → List α)),
    hcatRows ss.length (Fs.map fun F => ss.map F) = ss.map fun s => (Fs.map (· s)).flatten
  | [] => by
    simp only [List.map_nil, hcatRows, List.flatten_nil]
    induction ss with
    | nil => rfl
    | cons s ss ih => simp [List.replicate_succ, ih]
  | F :: Fs => by
    simp only [List.map_cons, hcatRows, hcatRows_samplewise ss Fs, List.flatten_cons, List.zipWith_map, List.zipWith_self]

/-- **`dataset_t::flatten` is sample-wise** (C08 model): for any sample list (any order, repetitions) and any buffer of the
    right shape, row `r` of the flattened view is `flatRow ds samples[r]` -/
theorem flatten_samplewise (ds : Dataset) (hwf : ds.WF) (samples : List Int) (ss : List Nat)
    (hs : ds.checkSamples samples = some ss) (buf0 : List (List α)) (hlen : buf0.length = ss.length)
    (hrows : ∀ r ∈ buf0, r.length = ds.columns) :
    ds.flattenInto samples buf0 = some (ss.map (flatRow (α := α) ds)) := by
  rw [flatten_blocks ds hwf samples ss hs buf0 hlen hrows]
  have h : (ds.gens.flatMap fun g => (List.range g.features).map fun i => g.segments (α := α) ds.st i ss)
      = (segFns (α := α) ds).map fun F => ss.map F := by
    unfold segFns
    rw [List.map_flatMap]
    congr 1
    funext g
    rw [List.map_map]
    apply List.map_congr_left
    intro i _
    exact segments_samplewise ds.st g i ss
  rw [h, hcatRows_samplewise]
  rfl

theorem checkSamples_slice (ds : Dataset) (samples : List Int) (ss : List Nat) (hs : ds.checkSamples samples = some ss)
    (b e : Nat) : ds.checkSamples (sliceOf samples b e) = some (sliceOf ss b e) := by
  unfold Dataset.checkSamples at hs ⊢
  split at hs
  · rename_i hall
    have hall' : (sliceOf samples b e).all (fun s => decide (0 ≤ s ∧ s < Int.ofNat ds.st.samples)) = true := by
      rw [List.all_eq_true] at hall ⊢
      intro x hx
      exact hall x (List.mem_of_mem_drop (List.mem_of_mem_take hx))
    rw [if_pos hall']
    cases hs
    simp [sliceOf, List.map_take, List.map_drop]
  · cases hs

/-- **batching commutes with flattening**: what `dataset.flatten(samples.slice(range), buffer)` returns is rows `[b, e)` of
    what `dataset.flatten(samples, …)` returns, whatever the buffer held -/
theorem flatten_slice (ds : Dataset) (hwf : ds.WF) (samples : List Int) (ss : List Nat)
    (hs : ds.checkSamples samples = some ss) (b e : Nat) (buf0 : List (List α))
    (hlen : buf0.length = (sliceOf ss b e).length) (hrows : ∀ r ∈ buf0, r.length = ds.columns) :
    ds.flattenInto (sliceOf samples b e) buf0 = some (sliceOf (ss.map (flatRow (α := α) ds)) b e) := by
  rw [flatten_samplewise ds hwf _ _ (checkSamples_slice ds samples ss hs b e) buf0 hlen hrows]
  simp [sliceOf, List.map_take, List.map_drop]

/-- **`dataset_t::targets` is sample-wise** (restating C08's `targets_spec`) -/
theorem targets_samplewise (ds : Dataset) (samples : List Int) (ss : List Nat) (hs : ds.checkSamples samples = some ss)
    (t : Nat) (desc : Feature) (ht : ds.st.target = some t) (hd : ds.target = some desc) :
    ds.targets (α := α) samples = some (ds.targetDims, ss.map fun s => targetRow desc (ds.st.stored t s)) := by
  simp [Dataset.targets, hs, ht, hd]

/-- a cell of the dense views as the statistics / scaling see it: a non-finite value is a missing one -/
def cellOf (fin : α → Bool) (x : α) : Option α := if fin x then some x else none

/-- the `Data` of a C08 dataset with target `t` described by `desc` -/
def dataOfDataset (fin : α → Bool) (ds : Dataset) (t : Nat) (desc : Feature) (enF enT : List Bool) : Data α :=
  ⟨fun s => (flatRow (α := α) ds s).map (cellOf fin), fun s => (targetRow desc (ds.st.stored t s)).map (cellOf fin), enF, enT⟩

/-- the rows `Data.flat` hands to the iterator model are, cell by cell, the rows C08's `flatten` produces for the batch -/
theorem data_flat_is_dataset_flatten (fin : α → Bool) (ds : Dataset) (hwf : ds.WF) (t : Nat) (desc : Feature)
    (enF enT : List Bool) (samples : List Int) (ss : List Nat) (hs : ds.checkSamples samples = some ss) (b e : Nat)
    (buf0 : List (List α)) (hlen : buf0.length = (sliceOf ss b e).length) (hrows : ∀ r ∈ buf0, r.length = ds.columns) :
    (ds.flattenInto (sliceOf samples b e) buf0).map (fun rows => rows.map fun r => r.map (cellOf fin))
      = some ((sliceOf ss b e).map (dataOfDataset fin ds t desc enF enT).flat) := by
  rw [flatten_slice ds hwf samples ss hs b e buf0 hlen hrows]
  simp [sliceOf, dataOfDataset, List.map_take, List.map_drop]
  rfl

end

-- the hypotheses are satisfiable: a well-formed (feature-less) dataset of two samples, the sample list `[0, 1]` is accepted
example : ∃ ds : Dataset, ds.WF ∧ ds.checkSamples [0, 1] = some [0, 1] :=
  ⟨⟨resize 2 [] 0, []⟩, ⟨resize_wf 2 [] 0 (by decide), by simp⟩, by decide⟩
-- the cell view: a finite value is given, a non-finite one (the NaN of the dense views) is missing
example : cellOf (fun x : Option Int => x.isSome) (some 3) = some (some 3) ∧
    cellOf (fun x : Option Int => x.isSome) none = none := by decide

end NanoVerif.Iterator
