import NanoVerif.Proofs.DatasetGradient
import Mathlib.Tactic.Ring
import Mathlib.Tactic.FieldSimp
import Mathlib.Tactic.NormNum
import Mathlib.Algebra.Order.Field.Basic
import Mathlib.Analysis.Real.Sqrt
/-!
  C08 — the image-gradient kernels over an ordered field / ℝ (exact arithmetic instead of binary64): `make_gx` / `make_gy`
  of gradient.h are the 3x3 correlations with the masks `w ⊗ (−1, 0, 1)` and its transpose, the smoothing weights are
  normalised, hence a constant image has zero gradient and an affine image `a·col + b·row + c` has gradient `(2a, 2b)`
  (central differences over two pixels); over ℝ the magnitude is the Euclidean norm of `(gx, gy)`.
  The same model definitions (`makeKernel`, `gxAt`, `gyAt`, `gradMode` of Model/DatasetGenGradient.lean and
  Proofs/DatasetGradient.lean) are instantiated at the field through `fieldScalar`.
-/
namespace NanoVerif.Dataset

section
variable {α : Type} [Field α] [LinearOrder α] [IsStrictOrderedRing α]

/-- `scalar_t` read as an ordered field: `+ − × ÷` are the field operations, stored integers are cast; NaN, `sqrt` and
    `atan2` are parameters (they do not occur in `gx`, `gy`) -/
@[reducible] def fieldScalar (nan : α) (sqrt : α → α) (atan2 : α → α → α) : Scalar α :=
  ⟨fun n => (n : α), nan, (· * ·), (· - ·), (· + ·), (· / ·), sqrt, atan2⟩

/-- the smoothing weight `i` of the kernel as a number -/
def weight (k : Kernel3) (i : Nat) : α :=
  (match i with | 0 => (k.nums.1 : α) | 1 => (k.nums.2.1 : α) | _ => (k.nums.2.2 : α)) / (k.den : α)

/-- the derivative stencil `(−1, 0, +1)` -/
def stencil (j : Nat) : α := match j with | 0 => -1 | 1 => 0 | _ => 1

/-- the 3x3 mask of the horizontal gradient `w ⊗ (−1, 0, 1)`; the vertical one is its transpose -/
def maskX (k : Kernel3) (i j : Nat) : α := weight k i * stencil j
def maskY (k : Kernel3) (i j : Nat) : α := maskX k j i

/-- 3x3 correlation of the image `P` with a mask at `(r, c)` -/
def corr3 (M : Nat → Nat → α) (P : Nat → Nat → α) (r c : Nat) : α :=
  M 0 0 * P r c + M 0 1 * P r (c + 1) + M 0 2 * P r (c + 2) +
  M 1 0 * P (r + 1) c + M 1 1 * P (r + 1) (c + 1) + M 1 2 * P (r + 1) (c + 2) +
  M 2 0 * P (r + 2) c + M 2 1 * P (r + 2) (c + 1) + M 2 2 * P (r + 2) (c + 2)

theorem den_ne_zero (k : Kernel3) : (k.den : α) ≠ 0 := by
  cases k <;> simp [Kernel3.den]

/-- **the kernels are normalised**: the three smoothing weights of every kernel sum to one -/
theorem weights_normalised (k : Kernel3) : weight (α := α) k 0 + weight k 1 + weight k 2 = 1 := by
  cases k <;> simp [weight, Kernel3.nums, Kernel3.den] <;> norm_num

/-- **`make_gx` / `make_gy` as coded are the 3x3 correlations** with `w ⊗ (−1, 0, 1)` and with its transpose -/
theorem gx_gy_are_correlations (nan : α) (sq : α → α) (at2 : α → α → α) (k : Kernel3) (P : Nat → Nat → α) (r c : Nat) :
    letI := fieldScalar nan sq at2
    gxAt (makeKernel k) P r c = corr3 (maskX k) P r c ∧ gyAt (makeKernel k) P r c = corr3 (maskY k) P r c ∧
    (∀ i j, maskY (α := α) k i j = maskX k j i) := by
  refine ⟨?_, ?_, fun _ _ => rfl⟩
  · simp only [gxAt, makeGG, makeKernel, corr3, maskX, weight, stencil, Scalar.add, Scalar.mul, Scalar.sub, Scalar.div,
      Scalar.ofInt]
    ring
  · simp only [gyAt, makeGG, makeKernel, corr3, maskY, maskX, weight, stencil, Scalar.add, Scalar.mul, Scalar.sub,
      Scalar.div, Scalar.ofInt]
    ring

/-- **what the kernels compute on an affine image**: for `P(i, j) = a·j + b·i + c0` (any kernel, any position)
    `gx = 2a` and `gy = 2b`; in particular a constant image has zero gradient -/
theorem gradient_of_affine (nan : α) (sq : α → α) (at2 : α → α → α) (k : Kernel3) (a b c0 : α) (r c : Nat) :
    letI := fieldScalar nan sq at2
    gxAt (makeKernel k) (fun i j => a * (j : α) + b * (i : α) + c0) r c = 2 * a ∧
    gyAt (makeKernel k) (fun i j => a * (j : α) + b * (i : α) + c0) r c = 2 * b := by
  have hw := weights_normalised (α := α) k
  have hd := den_ne_zero (α := α) k
  simp only [weight] at hw
  constructor
  · simp only [gxAt, makeGG, makeKernel, Scalar.add, Scalar.mul, Scalar.sub, Scalar.div, Scalar.ofInt]
    push_cast
    have : (k.nums.1 : α) / k.den * (a * ((c : α) + 2) + b * r + c0 - (a * c + b * r + c0)) +
        (k.nums.2.1 : α) / k.den * (a * ((c : α) + 2) + b * ((r : α) + 1) + c0 - (a * c + b * ((r : α) + 1) + c0)) +
        (k.nums.2.2 : α) / k.den * (a * ((c : α) + 2) + b * ((r : α) + 2) + c0 - (a * c + b * ((r : α) + 2) + c0)) =
        ((k.nums.1 : α) / k.den + (k.nums.2.1 : α) / k.den + (k.nums.2.2 : α) / k.den) * (2 * a) := by ring
    rw [this, hw, one_mul]
  · simp only [gyAt, makeGG, makeKernel, Scalar.add, Scalar.mul, Scalar.sub, Scalar.div, Scalar.ofInt]
    push_cast
    have : (k.nums.1 : α) / k.den * (a * c + b * ((r : α) + 2) + c0 - (a * c + b * r + c0)) +
        (k.nums.2.1 : α) / k.den * (a * ((c : α) + 1) + b * ((r : α) + 2) + c0 - (a * ((c : α) + 1) + b * r + c0)) +
        (k.nums.2.2 : α) / k.den * (a * ((c : α) + 2) + b * ((r : α) + 2) + c0 - (a * ((c : α) + 2) + b * r + c0)) =
        ((k.nums.1 : α) / k.den + (k.nums.2.1 : α) / k.den + (k.nums.2.2 : α) / k.den) * (2 * b) := by ring
    rw [this, hw, one_mul]

end

/-- **magnitude over ℝ**: with `std::sqrt` read as `Real.sqrt`, mode 2 is the Euclidean norm of `(gx, gy)`: non-negative,
    its square is `gx² + gy²`, and it vanishes exactly when both gradients do -/
theorem magnitude_is_norm (nan : ℝ) (at2 : ℝ → ℝ → ℝ) (gx gy : ℝ) :
    letI := fieldScalar nan Real.sqrt at2
    0 ≤ gradMode 2 gx gy ∧ gradMode 2 gx gy * gradMode 2 gx gy = gx * gx + gy * gy ∧
    (gradMode 2 gx gy = 0 ↔ gx = 0 ∧ gy = 0) ∧ gradMode 0 gx gy = gx ∧ gradMode 1 gx gy = gy ∧
    gradMode 3 gx gy = at2 gy gx := by
  have hnn : 0 ≤ gx * gx + gy * gy := by nlinarith [mul_self_nonneg gx, mul_self_nonneg gy]
  refine ⟨?_, ?_, ?_, rfl, rfl, rfl⟩
  · exact Real.sqrt_nonneg _
  · show Real.sqrt (gx * gx + gy * gy) * Real.sqrt (gx * gx + gy * gy) = _
    exact Real.mul_self_sqrt hnn
  · show Real.sqrt (gx * gx + gy * gy) = 0 ↔ _
    rw [Real.sqrt_eq_zero hnn]
    constructor
    · intro h
      constructor <;> nlinarith [mul_self_nonneg gx, mul_self_nonneg gy]
    · rintro ⟨rfl, rfl⟩; ring

/-! non-vacuity: the statements are instantiated at ℝ (an ordered field) -/
example : weight (α := ℝ) .scharr 0 + weight .scharr 1 + weight .scharr 2 = 1 := weights_normalised .scharr
example :
    letI := fieldScalar (0 : ℝ) Real.sqrt (fun _ _ => 0)
    gxAt (makeKernel .prewitt) (fun i j => (3 : ℝ) * (j : ℝ) + 5 * (i : ℝ) + 1) 2 4 = 2 * 3 :=
  (gradient_of_affine (0 : ℝ) Real.sqrt (fun _ _ => 0) .prewitt 3 5 1 2 4).1
example :
    letI := fieldScalar (0 : ℝ) Real.sqrt (fun _ _ => 0)
    gradMode 2 (3 : ℝ) 4 * gradMode 2 (3 : ℝ) 4 = 3 * 3 + 4 * 4 :=
  (magnitude_is_norm 0 (fun _ _ => 0) 3 4).2.1

end NanoVerif.Dataset
