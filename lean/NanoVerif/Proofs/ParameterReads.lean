import NanoVerif.Gen.ParamReads
import NanoVerif.Gen.FactoryParams
import NanoVerif.Model.Factory
/-!
  C19 — the typed reads of the library (`Gen/ParamReads.lean`, regenerated from the sources on every run) against the
  parameters the factories register (`Gen/FactoryParams.lean`, regenerated from a run of the implementation): evaluated
  by the kernel. Kept in a file of its own: it is re-checked only when one of the two tables changes (~50 s).
-/
namespace NanoVerif.Param
open NanoVerif.Gen

/-- every registered parameter of every object of the 11 factories and of the default constructed owners
    (`ml::params_t`, `gboost_model_t`) with the objects they own -/
def allParams : List (String × Storage XF) :=
  (FactoryParams.table.flatMap (·.params)) ++ (FactoryParams.owners.flatMap (fun o => o.2.flatParams))

/-- the generator's classification of the read types is the model's -/
theorem reads_kinds_checked : ∀ r ∈ ParamReads.reads, r.kind = RKind.ofType r.ty := by decide +kernel

/-- every typed read of the library, against every registered parameter of that name: the read is of the kind of the
    parameter and its conversion is exact on the whole declared domain -/
theorem reads_fit_table :
    ∀ r ∈ ParamReads.reads, ∀ p ∈ allParams, p.1 = r.name → fitsRead r.pair r.kind p.2 = true := by
  decide +kernel

end NanoVerif.Param
