import NanoVerif.Proofs.WLearnerTable
import NanoVerif.Proofs.WLearnerPredict
/-!
  C10 — `nano::find` (bisection) on the sorted hashes of a dense table returns the bin of every fitted label set, so the
  fitted dense table predicts the bin means.
-/
set_option linter.unusedSectionVars false
set_option linter.unusedVariables false

namespace NanoVerif.WLearner
variable {α : Type} [Field α] [LinearOrder α] [IsStrictOrderedRing α]

theorem sorted_lt_iff (l : List Nat) (hs : l.Pairwise (· < ·)) (a b : Nat) (ha : a < l.length) (hb : b < l.length) :
    l[a] < l[b] ↔ a < b := by
  have hp := List.pairwise_iff_getElem.mp hs
  constructor
  · intro h
    by_contra hn
    rcases Nat.lt_or_ge b a with h1 | h1
    · have := hp b a hb ha h1; omega
    · have : a = b := by omega
      subst this; omega
  · intro h; exact hp a b ha hb h

/-- the bisection finds the position of an element of a strictly sorted list -/
theorem lowerBound_sorted (l : List Nat) (hs : l.Pairwise (· < ·)) (j : Nat) (hj : j < l.length) :
    ∀ fuel first len, len ≤ fuel → first ≤ j → j ≤ first + len → first + len ≤ l.length →
      lowerBound l l[j] fuel first len = j := by
  intro fuel
  induction fuel with
  | zero => intro first len hl h1 h2 _; simp only [lowerBound]; omega
  | succ fuel ih =>
    intro first len hl h1 h2 h3
    simp only [lowerBound]
    split
    · omega
    · rename_i hlen
      have hmid : first + len / 2 < l.length := by
        have : len / 2 < len := Nat.div_lt_self (by omega) (by omega)
        omega
      have hget : l.getD (first + len / 2) 0 = l[first + len / 2] := by
        simp [List.getD_eq_getElem?_getD, List.getElem?_eq_getElem hmid]
      rw [hget]
      split
      · rename_i hlt
        have := (sorted_lt_iff l hs _ _ hmid hj).mp hlt
        apply ih <;> omega
      · rename_i hnlt
        have : ¬ first + len / 2 < j := fun h => hnlt ((sorted_lt_iff l hs _ _ hmid hj).mpr h)
        apply ih <;> omega

theorem findHash_sorted (l : List Nat) (hs : l.Pairwise (· < ·)) (j : Nat) (hj : j < l.length) :
    findHash l l[j] = some j := by
  unfold findHash
  have := lowerBound_sorted l hs j hj l.length 0 l.length (le_refl _) (by omega) (by omega) (by omega)
  simp only [this, List.getElem?_eq_getElem hj, if_true]

/-- the value of a feature as the learners see it -/
def clsVal : Option Nat → FVal α
  | some h => FVal.cls h
  | none => FVal.missing

/-- the fitted dense table predicts the mean of the bin of every fitted label set, nothing for a missing value -/
theorem dense_contrib [Log α] (T : Nat) (K : α) (crit : Crit) (f : Nat) (rows : List (CRow α)) (s : Nat → FVal α)
    (oh : Option Nat) (hs : s f = clsVal oh) (hmem : ∀ h, oh = some h → h ∈ hashesOf rows) :
    contrib (denseCand T K crit f rows).toTable s = tablePred (denseTable rows) oh := by
  unfold contrib Cand.toTable
  simp only [denseCand, eval, hs]
  cases oh with
  | none => rfl
  | some h =>
    simp only [clsVal, tablePred]
    obtain ⟨j, hj⟩ := List.mem_iff_getElem?.mp (hmem h rfl)
    obtain ⟨hjlt, hjeq⟩ := List.getElem?_eq_some_iff.mp hj
    have hfind : findHash (hashesOf rows) h = some j := by
      rw [← hjeq]; exact findHash_sorted _ (hashesOf_sorted rows) j hjlt
    rw [hfind]
    simp only [List.getElem?_range hjlt]
    funext o
    simp only [tab, List.getD_eq_getElem?_getD, List.getElem?_map, hj, Option.map_some, Option.getD_some, denseTable]

end NanoVerif.WLearner
