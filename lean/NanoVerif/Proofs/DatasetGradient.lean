import NanoVerif.Proofs.DatasetColumns
import NanoVerif.Proofs.DatasetViews
/-!
  C08 — the gradient generator: addressing of the image through the C16 tensor model, the output map of `gradient3x3`,
  the per-sample tensor `encGradient`. Helper lemmas for `Props/C08.lean` (core Lean only; no Mathlib).
-/
namespace NanoVerif.Dataset
open NanoVerif.Tensor NanoVerif.Mask

/-! ### row-major double loops -/

section
variable {β : Type}

theorem flatMap_congr_mem {γ : Type} : ∀ (l : List γ) (f g : γ → List β), (∀ a ∈ l, f a = g a) → l.flatMap f = l.flatMap g
  | [], _, _, _ => rfl
  | a :: l, f, g, h => by
    rw [List.flatMap_cons, List.flatMap_cons, h a List.mem_cons_self,
      flatMap_congr_mem l f g (fun b hb => h b (List.mem_cons_of_mem _ hb))]

theorem loop2_length (rows cols : Nat) (f : Nat → Nat → β) :
    ((List.range rows).flatMap (fun r => (List.range cols).map (fun c => f r c))).length = rows * cols := by
  induction rows with
  | zero => simp
  | succ n ih =>
    rw [List.range_succ, List.flatMap_append, List.length_append, ih]
    simp [Nat.succ_mul]

/-- the element written by iteration `(r, c)` of `for r < rows: for c < cols` sits at the row-major offset `r * cols + c` -/
theorem loop2_getElem? (rows cols : Nat) (f : Nat → Nat → β) (r c : Nat) (hr : r < rows) (hc : c < cols) :
    ((List.range rows).flatMap (fun r => (List.range cols).map (fun c => f r c)))[r * cols + c]? = some (f r c) := by
  induction rows with
  | zero => omega
  | succ n ih =>
    rw [List.range_succ, List.flatMap_append]
    by_cases hrn : r < n
    · rw [List.getElem?_append_left]
      · exact ih hrn
      · rw [loop2_length]
        calc r * cols + c < r * cols + cols := by omega
          _ = (r + 1) * cols := by rw [Nat.succ_mul]
          _ ≤ n * cols := Nat.mul_le_mul_right _ hrn
    · have hrn' : r = n := by omega
      subst hrn'
      rw [List.getElem?_append_right (by rw [loop2_length]; omega), loop2_length]
      simp [hc]

end

/-! ### the image of one channel -/

section
variable {α : Type} [Scalar α]

/-- the pixel `(r, c)` of channel `ch` read directly from the sample's row-major `(d0, d1, d2)` buffer at the offset the C16
    tensor model assigns to the index `(ch, r, c)` -/
def srcPixel (f : Feature) (v : List Int) (ch r c : Nat) : α :=
  Scalar.ofInt (v.getD (index [f.d0, f.d1, f.d2] [ch, r, c]) 0)

theorem index3 (d0 d1 d2 ch r c : Nat) : index [d0, d1, d2] [ch, r, c] = ch * (d1 * d2) + (r * d2 + c) := by
  simp [index, size]

/-- the offset of a valid index is inside the buffer (nothing outside the sample's values is read) -/
theorem index3_lt (d0 d1 d2 ch r c : Nat) (hch : ch < d0) (hr : r < d1) (hc : c < d2) :
    index [d0, d1, d2] [ch, r, c] < d0 * d1 * d2 := by
  rw [index3]
  have h1 : r * d2 + c < d1 * d2 := by
    calc r * d2 + c < r * d2 + d2 := by omega
      _ = (r + 1) * d2 := by rw [Nat.succ_mul]
      _ ≤ d1 * d2 := Nat.mul_le_mul_right _ hr
  calc ch * (d1 * d2) + (r * d2 + c) < ch * (d1 * d2) + d1 * d2 := by omega
    _ = (ch + 1) * (d1 * d2) := by rw [Nat.succ_mul]
    _ ≤ d0 * (d1 * d2) := Nat.mul_le_mul_right _ hch
    _ = d0 * d1 * d2 := by rw [Nat.mul_assoc]

/-- `values.tensor(channel)`: the `(d1, d2)` image of channel `ch`, aliasing `d1 * d2` consecutive values -/
theorem sub_channel (d0 d1 d2 ch : Nat) (v : List Int) (hch : ch < d0) :
    (⟨[d0, d1, d2], v⟩ : T Int).sub [ch] = some ⟨[d1, d2], (v.drop (ch * (d1 * d2))).take (d1 * d2)⟩ := by
  unfold T.sub
  rw [if_pos (by simp [ValidPrefix, hch])]
  simp [dims0, index, size]

/-- `input(r, c)` of the channel image is the value at `index (ch, r, c)` of the sample's buffer -/
theorem pixel_channel (f : Feature) (v : List Int) (ch r c : Nat) (hr : r < f.d1) (hc : c < f.d2) :
    pixel (α := α) ⟨[f.d1, f.d2], (v.drop (ch * (f.d1 * f.d2))).take (f.d1 * f.d2)⟩ r c = srcPixel f v ch r c := by
  unfold pixel srcPixel T.get?
  rw [if_pos (by simp [Valid, hr, hc]), index3]
  have hin : r * f.d2 + c < f.d1 * f.d2 := by
    calc r * f.d2 + c < r * f.d2 + f.d2 := by omega
      _ = (r + 1) * f.d2 := by rw [Nat.succ_mul]
      _ ≤ f.d1 * f.d2 := Nat.mul_le_mul_right _ hr
  have hidx : index [f.d1, f.d2] [r, c] = r * f.d2 + c := by simp [index, size]
  simp only [hidx]
  rw [List.getElem?_take_of_lt hin, List.getElem?_drop, List.getD_eq_getElem?_getD]

/-! ### `gradient3x3` and the per-sample tensor of the gradient generator -/

theorem gradient3x3_some (mode : Nat) (img : T Int) (k : α × α × α) (rows cols : Nat)
    (h : img.dims = [rows + 2, cols + 2]) :
    gradient3x3 mode img k rows cols =
      some ((List.range rows).flatMap (fun r => (List.range cols).map (fun c => gradPixel mode k img r c))) := by
  unfold gradient3x3
  rw [if_pos h]

/-- horizontal gradient at `(r, c)` of an image given by its pixel function: right column minus left column of the 3x3
    neighbourhood, the three rows weighted by the kernel, summed top to bottom -/
def gxAt (kk : α × α × α) (P : Nat → Nat → α) (r c : Nat) : α :=
  makeGG kk (P r (c + 2)) (P r c) (P (r + 1) (c + 2)) (P (r + 1) c) (P (r + 2) (c + 2)) (P (r + 2) c)

/-- vertical gradient: bottom row minus top row, the three columns weighted by the kernel, summed left to right -/
def gyAt (kk : α × α × α) (P : Nat → Nat → α) (r c : Nat) : α :=
  makeGG kk (P (r + 2) c) (P r c) (P (r + 2) (c + 1)) (P r (c + 1)) (P (r + 2) (c + 2)) (P r (c + 2))

/-- the value of a gradient feature at one (given) sample, as a function of the sample's stored values: `gx`, `gy` over the
    3x3 neighbourhood of `(r, c)` in channel `m.chan` (pixels addressed by `index`, see `srcPixel`), combined by the mode -/
def gradientAt (k : Kernel3) (f : Feature) (m : FMap) (v : List Int) (r c : Nat) : α :=
  gradMode m.mode (gxAt (makeKernel k) (srcPixel f v m.chan) r c) (gyAt (makeKernel k) (srcPixel f v m.chan) r c)

/-- the whole tensor of a given sample, row-major over `(m.d1, m.d2)` -/
def gradientOf (k : Kernel3) (f : Feature) (m : FMap) (v : List Int) : List α :=
  (List.range m.d1).flatMap (fun r => (List.range m.d2).map (fun c => gradientAt k f m v r c))

/-- for a row of a fitted gradient generator, `process` succeeds on every given sample (no `assert` of `tensor(channel)` /
    `gradient3x3` fires) and writes `gradientOf`; that every pixel it names lies inside the sample's `d0 * d1 * d2` values
    is `index3_lt` -/
theorem encGradient_some (k : Kernel3) (f : Feature) (m : FMap) (v : List Int)
    (hdesc : rowDescribes (.gradient k) m f) :
    encGradient (α := α) k f m (some v) = gradientOf k f m v := by
  obtain ⟨_, _, h1, h2, hch, _⟩ := hdesc
  unfold encGradient
  simp only [sub_channel f.d0 f.d1 f.d2 m.chan v hch, Option.bind_some]
  rw [gradient3x3_some _ _ _ _ _ (by simp [h1, h2])]
  simp only [Option.getD_some]
  unfold gradientOf
  apply flatMap_congr_mem
  intro r hr
  apply List.map_congr_left
  intro c hc
  simp only [List.mem_range] at hr hc
  unfold gradPixel gradientAt makeGx makeGy gxAt gyAt
  rw [pixel_channel f v m.chan r (c + 2) (by omega) (by omega),
    pixel_channel f v m.chan r c (by omega) (by omega),
    pixel_channel f v m.chan (r + 1) (c + 2) (by omega) (by omega),
    pixel_channel f v m.chan (r + 1) c (by omega) (by omega),
    pixel_channel f v m.chan (r + 2) (c + 2) (by omega) (by omega),
    pixel_channel f v m.chan (r + 2) c (by omega) (by omega),
    pixel_channel f v m.chan (r + 2) (c + 1) (by omega) (by omega),
    pixel_channel f v m.chan r (c + 1) (by omega) (by omega)]

theorem gradientOf_length (k : Kernel3) (f : Feature) (m : FMap) (v : List Int) :
    (gradientOf (α := α) k f m v).length = m.d1 * m.d2 :=
  loop2_length _ _ _

theorem encGradient_length (k : Kernel3) (f : Feature) (m : FMap) (x : Option (List Int))
    (hdesc : rowDescribes (.gradient k) m f) :
    (encGradient (α := α) k f m x).length = m.d1 * m.d2 := by
  cases x with
  | none => simp [encGradient]
  | some v => rw [encGradient_some k f m v hdesc, gradientOf_length]

/-- the tensor of one sample as a function of the abstract map `D`: `gradientOf` of the stored value, NaN everywhere for a
    missing one -/
def gradientValue (k : Kernel3) (f : Feature) (m : FMap) (x : Option (List Int)) : List α :=
  match x with
  | some v => gradientOf k f m v
  | none => List.replicate (m.d1 * m.d2) Scalar.nan

theorem encGradient_eq_value (k : Kernel3) (f : Feature) (m : FMap) (x : Option (List Int))
    (hdesc : rowDescribes (.gradient k) m f) : encGradient (α := α) k f m x = gradientValue k f m x := by
  cases x with
  | none => rfl
  | some v => exact encGradient_some k f m v hdesc

/-- a 3x3 source gives the degenerate 1x1 map, anything larger a map of more than one pixel -/
theorem gradient_degenerate_iff (k : Kernel3) (m : FMap) (f : Feature) (hdesc : rowDescribes (.gradient k) m f) :
    1 < m.d1 * m.d2 ↔ ¬ (f.d1 = 3 ∧ f.d2 = 3) := by
  obtain ⟨_, _, h1, h2, _, _, h3, h4⟩ := hdesc
  constructor
  · rintro h ⟨e1, e2⟩
    have a1 : m.d1 = 1 := by omega
    have a2 : m.d2 = 1 := by omega
    rw [a1, a2] at h
    omega
  · intro h
    by_cases a1 : m.d1 = 1
    · have a2 : 2 ≤ m.d2 := by
        have : m.d2 ≠ 1 := fun a2 => h ⟨by omega, by omega⟩
        omega
      rw [a1]; omega
    · have : 2 * 1 ≤ m.d1 * m.d2 := Nat.mul_le_mul (by omega) h4
      omega

end

/-- executable form of `Gen.NonDegenerate` -/
def Gen.nonDegenerateB (g : Gen) : Bool :=
  match g.kind with
  | .gradient _ => g.mapping.all (fun m => decide (1 < m.d1 * m.d2))
  | _ => true

theorem nonDegenerateB_iff (g : Gen) : g.nonDegenerateB = true ↔ g.NonDegenerate := by
  unfold Gen.nonDegenerateB Gen.NonDegenerate
  cases hk : g.kind with
  | gradient k =>
    simp only [List.all_eq_true, decide_eq_true_eq]
    constructor
    · intro h k' _ m hm
      exact h m hm
    · intro h m hm
      exact h k rfl m hm
  | sclassId | mclassId | scalarId | structId | product | custom _ =>
    all_goals
      simp only [true_iff]
      intro k' hk'
      cases hk'

end NanoVerif.Dataset
